/-
  TwProofs.Lemmas.TextLayout — a page `@use("L")@insert("k1", "v1")…` and a layout of text and
  `@reserve("k")`, from the bytes of the two files to the rendered output: lexer, parser, loader
  and evaluator composed (C06).
-/
import TwProofs.Lemmas.LexDirArgs
import TwProofs.Lemmas.ParseDir
import TwProofs.Lemmas.LoadWhole
namespace Tw
open Lx

/-! ### the two families -/

/-- `@insert(q1 k q1, g q2 v q2)` -/
structure Ins where
  q1 : Byte
  k : Bytes
  g : Bytes
  q2 : Byte
  v : Bytes

def Ins.code (i : Ins) : Code := dir2Code kwInsert .INSERT [] i.q1 i.k [] i.g i.q2 i.v []
def Ins.OK (i : Ins) : Prop := (i.q1 = 34 ∨ i.q1 = 39) ∧ PlainStr i.q1 i.k ∧ allWs i.g ∧ (i.q2 = 34 ∨ i.q2 = 39) ∧ PlainStr i.q2 i.v

instance (i : Ins) : Decidable i.OK := by unfold Ins.OK; exact inferInstance

def useCode (q : Byte) (L : Bytes) : Code := dir1Code kwUse .USE [] q L []

def insKeys : List Ins → List (TT × Bytes)
  | [] => []
  | i :: r => i.code.keys ++ insKeys r

def pageItems (q : Byte) (L : Bytes) (ins : List Ins) : List GItem := .code (useCode q L) :: ins.map (fun i => .code i.code)

/-- the page file -/
def pageSrc (q : Byte) (L : Bytes) (ins : List Ins) : Bytes := gsrc (pageItems q L ins)

theorem gkeys_inserts : ∀ ins : List Ins, gkeys (ins.map (fun i => GItem.code i.code)) = insKeys ins
  | [] => rfl
  | i :: r => by simp [gkeys, insKeys, gkeys_inserts r]

theorem allWs_nil : allWs [] := fun _ h => by cases h

theorem pageItems_ok (q : Byte) (L : Bytes) (ins : List Ins) (hq : q = 34 ∨ q = 39) (hL : PlainStr q L) (hins : ∀ i ∈ ins, i.OK) :
    GItemsOK (pageItems q L ins) := by
  refine ⟨dir1Code_ok kwUse .USE dirKw_use [] q L [] allWs_nil allWs_nil hq hL, ?_⟩
  induction ins with
  | nil => trivial
  | cons i r ih =>
    obtain ⟨a1, a2, a3, a4, a5⟩ := hins i (by simp)
    exact ⟨dir2Code_ok kwInsert .INSERT dirKw_insert [] i.q1 i.k [] i.g i.q2 i.v [] allWs_nil allWs_nil a3 allWs_nil a1 a2 a4 a5,
      ih (fun j hj => hins j (List.mem_cons_of_mem _ hj))⟩

/-- the items of a layout: text and `@reserve(q k q)` -/
inductive LItem where
  | text (segs : List Seg)
  | reserve (q : Byte) (k : Bytes)

def reserveCode (q : Byte) (k : Bytes) : Code := dir1Code kwReserve .RESERVE [] q k []

def LItem.g : LItem → GItem
  | .text segs => .text segs
  | .reserve q k => .code (reserveCode q k)

/-- the layout file -/
def layoutSrc (items : List LItem) : Bytes := gsrc (items.map LItem.g)

def afterRunL (segs : List Seg) : List LItem → Prop
  | [] => True
  | .text _ :: _ => False
  | .reserve _ _ :: _ => lastOr (segsSrc segs) 0 ≠ 92

def LItemsOK : List LItem → Prop
  | [] => True
  | .text segs :: r => startsRun segs ∧ SegsOK segs (layoutSrc r) ∧ afterRunL segs r ∧ LItemsOK r
  | .reserve q k :: r => (q = 34 ∨ q = 39) ∧ PlainStr q k ∧ LItemsOK r

instance (segs : List Seg) : (r : List LItem) → Decidable (afterRunL segs r)
  | [] => isTrue trivial
  | .text _ :: _ => isFalse (by simp [afterRunL])
  | .reserve _ _ :: _ => by unfold afterRunL; exact inferInstance

instance : (items : List LItem) → Decidable (LItemsOK items)
  | [] => isTrue trivial
  | .text segs :: r => by have := instDecidableLItemsOK r; unfold LItemsOK; exact inferInstance
  | .reserve q k :: r => by have := instDecidableLItemsOK r; unfold LItemsOK; exact inferInstance

theorem litems_ok : ∀ items : List LItem, LItemsOK items → GItemsOK (items.map LItem.g)
  | [], _ => trivial
  | .text segs :: r, h => by
    refine ⟨h.1, h.2.1, ?_, litems_ok r h.2.2.2⟩
    cases r with
    | nil => trivial
    | cons it r' =>
      cases it with
      | text _ => exact absurd h.2.2.1 (by simp [afterRunL])
      | reserve q k => exact h.2.2.1
  | .reserve q k :: r, h =>
    ⟨dir1Code_ok kwReserve .RESERVE dirKw_reserve [] q k [] allWs_nil allWs_nil h.1 h.2.1, litems_ok r h.2.2⟩

def lkeys : List LItem → List (TT × Bytes)
  | [] => []
  | .text segs :: r => (.HTML, segsLit segs) :: lkeys r
  | .reserve q k :: r => (reserveCode q k).keys ++ lkeys r

theorem gkeys_litems : ∀ items : List LItem, gkeys (items.map LItem.g) = lkeys items
  | [] => rfl
  | .text segs :: r => by simp [gkeys, lkeys, LItem.g, gkeys_litems r]
  | .reserve q k :: r => by simp [gkeys, lkeys, LItem.g, gkeys_litems r]

theorem insKeys_clean : ∀ (ins : List Ins) (x : TT × Bytes), x ∈ insKeys ins → x.1 ≠ .ILLEGAL ∧ x.1 ≠ .EOF
  | [], x, h => by simp [insKeys] at h
  | i :: r, x, h => by
    simp only [insKeys, Ins.code, dir2Code, List.mem_append, List.mem_cons, List.not_mem_nil, or_false] at h
    rcases h with (h | h | h | h | h | h) | h
    · rw [h]; exact ⟨by simp, by simp⟩
    · rw [h]; exact ⟨by simp, by simp⟩
    · rw [h]; exact ⟨by simp, by simp⟩
    · rw [h]; exact ⟨by simp, by simp⟩
    · rw [h]; exact ⟨by simp, by simp⟩
    · rw [h]; exact ⟨by simp, by simp⟩
    · exact insKeys_clean r x h

theorem lkeys_clean : ∀ (items : List LItem) (x : TT × Bytes), x ∈ lkeys items → x.1 ≠ .ILLEGAL ∧ x.1 ≠ .EOF
  | [], x, h => by simp [lkeys] at h
  | .text _ :: r, x, h => by
    simp only [lkeys, List.mem_cons] at h
    rcases h with h | h
    · rw [h]; exact ⟨by simp, by simp⟩
    · exact lkeys_clean r x h
  | .reserve q k :: r, x, h => by
    simp only [lkeys, reserveCode, dir1Code, List.mem_append, List.mem_cons, List.not_mem_nil, or_false] at h
    rcases h with (h | h | h | h) | h
    · rw [h]; exact ⟨by simp, by simp⟩
    · rw [h]; exact ⟨by simp, by simp⟩
    · rw [h]; exact ⟨by simp, by simp⟩
    · rw [h]; exact ⟨by simp, by simp⟩
    · exact lkeys_clean r x h

theorem clean_of_keys {rest : List Token} {e : Token} {ks : List (TT × Bytes)} (hk : rest.map key = ks)
    (hc : ∀ x ∈ ks, x.1 ≠ .ILLEGAL ∧ x.1 ≠ .EOF) (he : e.ty = .EOF) : Clean (rest ++ [e]) := by
  intro x hx
  rcases List.mem_append.mp hx with h | h
  · have : key x ∈ ks := by rw [← hk]; exact List.mem_map_of_mem h
    exact (hc _ this).1
  · simp at h; rw [h, he]; decide

/-! ### map lemmas -/

theorem mapGet_set_same {α} (m : List (Bytes × α)) (k : Bytes) (v : α) : mapGet (mapSet m k v) k = some v := by
  induction m with
  | nil => simp [mapSet, mapGet]
  | cons x r ih =>
    obtain ⟨k', v'⟩ := x
    unfold mapSet
    split
    · simp [mapGet]
    · rename_i hne
      simp only [mapGet, hne, Bool.false_eq_true, if_false]
      exact ih

theorem mapGet_set_other {α} (m : List (Bytes × α)) (k k2 : Bytes) (v : α) (h : k2 ≠ k) :
    mapGet (mapSet m k v) k2 = mapGet m k2 := by
  induction m with
  | nil =>
    have : (k == k2) = false := by simpa using fun e => h e.symm
    simp [mapSet, mapGet, this]
  | cons x r ih =>
    obtain ⟨k', v'⟩ := x
    unfold mapSet
    split
    · rename_i heq
      have hk : k' = k := by simpa using heq
      have h1 : (k == k2) = false := by simpa using fun e => h e.symm
      have h2 : (k' == k2) = false := by rw [hk]; exact h1
      simp [mapGet, h1, h2]
    · by_cases h3 : (k' == k2) = true
      · simp [mapGet, h3]
      · have h3' : (k' == k2) = false := by simpa using h3
        simp only [mapGet, h3', Bool.false_eq_true, if_false]
        exact ih

/-! ### the statement loop on a page's inserts -/

/-- what the parser records for an insert -/
def InsDefOf (i : Ins) (d : InsertDef) : Prop := d.name = i.k ∧ d.block = none ∧ ∃ tv, d.arg = some (.str tv i.v)

theorem parseLoop_inserts : ∀ (ins : List Ins) (toks : List Token) (e : Token) (p : PS) (acc : List Stmt) (f : Nat),
    toks.map key = insKeys ins → e.ty = .EOF → p.toks = toks ++ [e] → (ins.map Ins.k).Nodup →
    (∀ i ∈ ins, mapGet p.inserts i.k = none) → 2 * ins.length + 3 ≤ f →
    ∃ stmts p', parseProgramLoop f acc p = (some (acc ++ stmts), p') ∧ p'.toks = [e] ∧ p'.errors = p.errors ∧ p'.oof = p.oof ∧
      p'.useName = p.useName ∧ p'.reserves = p.reserves ∧ p'.components = p.components ∧
      (∀ i ∈ ins, ∃ d, mapGet p'.inserts i.k = some d ∧ InsDefOf i d) ∧
      (∀ k, (∀ i ∈ ins, i.k ≠ k) → mapGet p'.inserts k = mapGet p.inserts k) ∧
      (∀ x ∈ p'.inserts, x ∈ p.inserts ∨ ∃ i ∈ ins, x.1 = i.k)
  | [], toks, e, p, acc, f, hk, he, hp, _, _, hf => by
    have : toks = [] := by simpa [insKeys] using hk
    subst this
    obtain ⟨g, rfl⟩ : ∃ g, f = g + 1 := ⟨f - 1, by omega⟩
    refine ⟨[], p, ?_, by simpa using hp, rfl, rfl, rfl, rfl, rfl, fun i h => (by cases h), fun _ _ => rfl, fun x hx => Or.inl hx⟩
    rw [parseProgramLoop]
    have c : p.curIs .EOF = true := by rw [curIs_of p e [] (by simpa using hp)]; simp [he]
    simp [c]
  | i :: r, toks, e, p, acc, f, hk, he, hp, hnd, hnew, hf => by
    match toks, hk with
    | [], hk => simp [insKeys, Ins.code, dir2Code] at hk
    | [_], hk => simp [insKeys, Ins.code, dir2Code] at hk
    | [_, _], hk => simp [insKeys, Ins.code, dir2Code] at hk
    | [_, _, _], hk => simp [insKeys, Ins.code, dir2Code] at hk
    | [_, _, _, _], hk => simp [insKeys, Ins.code, dir2Code] at hk
    | [_, _, _, _, _], hk => simp [insKeys, Ins.code, dir2Code] at hk
    | t1 :: t2 :: t3 :: t4 :: t5 :: t6 :: rest, hk =>
      simp only [insKeys, Ins.code, dir2Code, List.cons_append, List.nil_append, List.map_cons, List.cons.injEq] at hk
      obtain ⟨hk1, hk2, hk3, hk4, hk5, hk6, hkr⟩ := hk
      have ty1 : t1.ty = .INSERT := congrArg Prod.fst hk1
      have ty2 : t2.ty = .LPAREN := congrArg Prod.fst hk2
      have ty3 : t3.ty = .STR := congrArg Prod.fst hk3
      have lit3 : t3.lit = i.k := congrArg Prod.snd hk3
      have ty4 : t4.ty = .COMMA := congrArg Prod.fst hk4
      have ty5 : t5.ty = .STR := congrArg Prod.fst hk5
      have lit5 : t5.lit = i.v := congrArg Prod.snd hk5
      have ty6 : t6.ty = .RPAREN := congrArg Prod.fst hk6
      have hcl : Clean (rest ++ [e]) := clean_of_keys hkr (insKeys_clean r) he
      obtain ⟨g, rfl⟩ : ∃ g, f = g + 4 := ⟨f - 4, by simp at hf; omega⟩
      have hp' : p.toks = t1 :: t2 :: t3 :: t4 :: t5 :: t6 :: (rest ++ [e]) := by simpa using hp
      have hst := parse_insert_stmt g p t1 t2 t3 t4 t5 t6 (rest ++ [e]) hp' ty1 ty2 ty3 ty4 ty5 ty6 hcl
        (by rw [lit3]; exact hnew i (by simp))
      cases hr : rest ++ [e] with
      | nil => simp at hr
      | cons tn rest' =>
        rw [hr] at hst hcl
        have hloop := loop_stmt_rparen (g + 1) acc p _ _ t1 t5 t6 tn _ rest' hp' (by rw [ty1]; decide) hst rfl rfl
          (by rw [ty5]; decide) ty6 hcl
        have hnd' : (r.map Ins.k).Nodup := (List.nodup_cons.mp hnd).2
        have hnotin : ∀ j ∈ r, j.k ≠ i.k := by
          intro j hj heq
          exact (List.nodup_cons.mp hnd).1 (by rw [← heq]; exact List.mem_map_of_mem hj)
        obtain ⟨stmts, p', h1, h2, h3, h4, h5, h6, h7, h8, h9, h10⟩ := parseLoop_inserts r rest e
          { p with toks := tn :: rest', inserts := mapSet p.inserts t3.lit { tok := t1, name := t3.lit, arg := some (.str t5 t5.lit), block := none } }
          (acc ++ [.insert t1 t3.lit (some (.str t5 t5.lit)) none]) (g + 2) hkr he (by simpa using hr.symm) hnd'
          (by
            intro j hj
            show mapGet (mapSet p.inserts t3.lit _) j.k = none
            rw [mapGet_set_other _ _ _ _ (by rw [lit3]; exact hnotin j hj)]
            exact hnew j (List.mem_cons_of_mem _ hj))
          (by simp at hf; omega)
        refine ⟨.insert t1 t3.lit (some (.str t5 t5.lit)) none :: stmts, p', ?_, h2, h3, h4, h5, h6, h7, ?_, ?_, ?_⟩
        · rw [show g + 4 = (g + 1) + 3 from rfl, hloop, show g + 1 + 1 = g + 2 from rfl]
          simp only [] at h1 ⊢
          rw [h1]
          simp
        · intro j hj
          rcases List.mem_cons.mp hj with hj | hj
          · subst hj
            refine ⟨{ tok := t1, name := t3.lit, arg := some (.str t5 t5.lit), block := none }, ?_, by exact lit3, rfl, t5, by rw [lit5]⟩
            rw [h9 j.k (fun x hx => hnotin x hx)]
            show mapGet (mapSet p.inserts t3.lit _) j.k = _
            rw [← lit3]
            exact mapGet_set_same _ _ _
          · exact h8 j hj
        · intro k hk
          rw [h9 k (fun x hx => hk x (List.mem_cons_of_mem _ hx))]
          show mapGet (mapSet p.inserts t3.lit _) k = _
          exact mapGet_set_other _ _ _ _ (by rw [lit3]; exact fun e => hk i (by simp) e.symm)
        · intro x hx
          rcases h10 x hx with h | ⟨j, hj, hxj⟩
          · rcases mapSet_mem _ _ _ _ h with h' | h'
            · exact Or.inl h'
            · exact Or.inr ⟨i, by simp, by rw [h']; exact lit3⟩
          · exact Or.inr ⟨j, List.mem_cons_of_mem _ hj, hxj⟩

end Tw

namespace Tw
open Lx

/-! ### the statement loop on a layout -/

inductive LSpec where
  | text (t : Bytes)
  | reserve (k : Bytes) (rid : Nat)

def lspecOf : Stmt → Option LSpec
  | .html t => some (.text t.lit)
  | .reserve _ k rid => some (.reserve k rid)
  | _ => none

/-- the statements of the layout: the reserves get the allocation numbers `base`, `base + 1`, … -/
def lspec (base : Nat) : List LItem → List LSpec
  | [] => []
  | .text segs :: r => .text (segsLit segs) :: lspec base r
  | .reserve _ k :: r => .reserve k base :: lspec (base + 1) r

def resNames : List LItem → List Bytes
  | [] => []
  | .text _ :: r => resNames r
  | .reserve _ k :: r => k :: resNames r

theorem loop_html (f : Nat) (acc : List Stmt) (p : PS) (t t2 : Token) (r : List Token) (hp : p.toks = t :: t2 :: r)
    (ht : t.ty = .HTML) (hc : Clean r) :
    parseProgramLoop (f + 2) acc p = parseProgramLoop (f + 1) (acc ++ [.html t]) { p with toks := t2 :: r } := by
  rw [show f + 2 = (f + 1) + 1 from rfl, parseProgramLoop]
  have e0 : p.curIs .EOF = false := by rw [curIs_of p t _ hp]; simp [ht]
  have e1 : p.curIs .ILLEGAL = false := by rw [curIs_of p t _ hp]; simp [ht]
  simp only [e0, Bool.false_eq_true, if_false, parse_html_stmt f p t _ hp ht, e1, Stmt.isBad]
  rw [next_toks p t t2 r hp hc]

theorem lspec_names : ∀ (items : List LItem) (base : Nat) (k : Bytes) (rid : Nat), LSpec.reserve k rid ∈ lspec base items →
    k ∈ resNames items ∧ base ≤ rid
  | [], _, _, _, h => by simp [lspec] at h
  | .text _ :: r, base, k, rid, h => by
    simp only [lspec, List.mem_cons] at h
    rcases h with h | h
    · cases h
    · exact lspec_names r base k rid h
  | .reserve _ k0 :: r, base, k, rid, h => by
    simp only [lspec, List.mem_cons] at h
    rcases h with h | h
    · cases h; exact ⟨by simp [resNames], Nat.le_refl _⟩
    · have := lspec_names r (base + 1) k rid h
      exact ⟨by simp [resNames, this.1], by omega⟩

theorem names_lspec : ∀ (items : List LItem) (base : Nat) (k : Bytes), k ∈ resNames items → ∃ rid, LSpec.reserve k rid ∈ lspec base items
  | [], _, _, h => by simp [resNames] at h
  | .text _ :: r, base, k, h => by
    obtain ⟨rid, hr⟩ := names_lspec r base k (by simpa [resNames] using h)
    exact ⟨rid, by simp [lspec, hr]⟩
  | .reserve _ k0 :: r, base, k, h => by
    simp only [resNames, List.mem_cons] at h
    rcases h with h | h
    · exact ⟨base, by simp [lspec, h]⟩
    · obtain ⟨rid, hr⟩ := names_lspec r (base + 1) k h
      exact ⟨rid, by simp [lspec, hr]⟩

theorem parseLoop_litems : ∀ (items : List LItem) (toks : List Token) (e : Token) (p : PS) (acc : List Stmt) (f : Nat),
    toks.map key = lkeys items → e.ty = .EOF → p.toks = toks ++ [e] → (resNames items).Nodup →
    (∀ k ∈ resNames items, mapGet p.reserves k = none) → 2 * items.length + 3 ≤ f →
    ∃ stmts p', parseProgramLoop f acc p = (some (acc ++ stmts), p') ∧ p'.toks = [e] ∧ p'.errors = p.errors ∧ p'.oof = p.oof ∧
      p'.useName = p.useName ∧ p'.inserts = p.inserts ∧ p'.components = p.components ∧
      stmts.map lspecOf = (lspec p.nextId items).map some ∧
      (∀ k rid, LSpec.reserve k rid ∈ lspec p.nextId items → mapGet p'.reserves k = some rid) ∧
      (∀ k, k ∉ resNames items → mapGet p'.reserves k = mapGet p.reserves k)
  | [], toks, e, p, acc, f, hk, he, hp, _, _, hf => by
    have : toks = [] := by simpa [lkeys] using hk
    subst this
    obtain ⟨g, rfl⟩ : ∃ g, f = g + 1 := ⟨f - 1, by omega⟩
    refine ⟨[], p, ?_, by simpa using hp, rfl, rfl, rfl, rfl, rfl, rfl, fun k rid h => (by simp [lspec] at h), fun _ _ => rfl⟩
    rw [parseProgramLoop]
    have c : p.curIs .EOF = true := by rw [curIs_of p e [] (by simpa using hp)]; simp [he]
    simp [c]
  | .text segs :: r, toks, e, p, acc, f, hk, he, hp, hnd, hnew, hf => by
    cases toks with
    | nil => simp [lkeys] at hk
    | cons t rest =>
      simp only [lkeys, List.map_cons, List.cons.injEq] at hk
      obtain ⟨hkt, hkr⟩ := hk
      have ht : t.ty = .HTML := congrArg Prod.fst hkt
      have hlit : t.lit = segsLit segs := congrArg Prod.snd hkt
      have hcl : Clean (rest ++ [e]) := clean_of_keys hkr (lkeys_clean r) he
      obtain ⟨g, rfl⟩ : ∃ g, f = g + 2 := ⟨f - 2, by simp at hf; omega⟩
      cases hr : rest ++ [e] with
      | nil => simp at hr
      | cons tn rest' =>
        rw [hr] at hcl
        have hp' : p.toks = t :: tn :: rest' := by rw [hp]; simp [hr]
        have hloop := loop_html g acc p t tn rest' hp' ht hcl.tail
        obtain ⟨stmts, p', h1, h2, h3, h4, h5, h6, h7, h8, h9, h10⟩ := parseLoop_litems r rest e { p with toks := tn :: rest' }
          (acc ++ [.html t]) (g + 1) hkr he (by simpa using hr.symm) (by simpa [resNames] using hnd)
          (fun k hk => hnew k (by simpa [resNames] using hk)) (by simp at hf; omega)
        refine ⟨.html t :: stmts, p', ?_, h2, h3, h4, h5, h6, h7, ?_, ?_, ?_⟩
        · rw [hloop, h1]; simp
        · simp only [List.map_cons, lspec, lspecOf, hlit]
          simp only [] at h8
          rw [h8]
        · intro k rid hm
          simp only [lspec, List.mem_cons] at hm
          rcases hm with hm | hm
          · cases hm
          · exact h9 k rid hm
        · intro k hk
          exact h10 k (by simpa [resNames] using hk)
  | .reserve q k0 :: r, toks, e, p, acc, f, hk, he, hp, hnd, hnew, hf => by
    match toks, hk with
    | [], hk => simp [lkeys, reserveCode, dir1Code] at hk
    | [_], hk => simp [lkeys, reserveCode, dir1Code] at hk
    | [_, _], hk => simp [lkeys, reserveCode, dir1Code] at hk
    | [_, _, _], hk => simp [lkeys, reserveCode, dir1Code] at hk
    | t1 :: t2 :: t3 :: t4 :: rest, hk =>
      simp only [lkeys, reserveCode, dir1Code, List.cons_append, List.nil_append, List.map_cons, List.cons.injEq] at hk
      obtain ⟨hk1, hk2, hk3, hk4, hkr⟩ := hk
      have ty1 : t1.ty = .RESERVE := congrArg Prod.fst hk1
      have ty2 : t2.ty = .LPAREN := congrArg Prod.fst hk2
      have ty3 : t3.ty = .STR := congrArg Prod.fst hk3
      have lit3 : t3.lit = k0 := congrArg Prod.snd hk3
      have ty4 : t4.ty = .RPAREN := congrArg Prod.fst hk4
      have hcl : Clean (rest ++ [e]) := clean_of_keys hkr (lkeys_clean r) he
      obtain ⟨g, rfl⟩ : ∃ g, f = g + 3 := ⟨f - 3, by simp at hf; omega⟩
      have hp' : p.toks = t1 :: t2 :: t3 :: t4 :: (rest ++ [e]) := by simpa using hp
      have hst := parse_reserve_stmt (g + 1) p t1 t2 t3 t4 (rest ++ [e]) hp' ty1 ty2 ty4 (by rw [ty3]; decide) hcl
      cases hr : rest ++ [e] with
      | nil => simp at hr
      | cons tn rest' =>
        rw [hr] at hst hcl
        have hloop := loop_stmt_rparen g acc p _ _ t1 t3 t4 tn _ rest' hp' (by rw [ty1]; decide) hst rfl rfl
          (by rw [ty3]; decide) ty4 hcl
        have hnd' : (resNames r).Nodup := (List.nodup_cons.mp (by simpa [resNames] using hnd)).2
        have hnotin : k0 ∉ resNames r := (List.nodup_cons.mp (by simpa [resNames] using hnd)).1
        obtain ⟨stmts, p', h1, h2, h3, h4, h5, h6, h7, h8, h9, h10⟩ := parseLoop_litems r rest e
          { p with toks := tn :: rest', reserves := mapSet p.reserves t3.lit p.nextId, nextId := p.nextId + 1 }
          (acc ++ [.reserve t1 t3.lit p.nextId]) (g + 1) hkr he (by simpa using hr.symm) hnd'
          (by
            intro k hk
            show mapGet (mapSet p.reserves t3.lit p.nextId) k = none
            rw [mapGet_set_other _ _ _ _ (by rw [lit3]; exact fun e => hnotin (e ▸ hk))]
            exact hnew k (by simp [resNames, hk]))
          (by simp at hf; omega)
        refine ⟨.reserve t1 t3.lit p.nextId :: stmts, p', ?_, h2, h3, h4, h5, h6, h7, ?_, ?_, ?_⟩
        · rw [hloop]
          simp only [] at h1 ⊢
          rw [h1]
          simp
        · simp only [List.map_cons, lspec, lspecOf, lit3]
          simp only [] at h8
          rw [h8]
        · intro k rid hm
          simp only [lspec, List.mem_cons] at hm
          rcases hm with hm | hm
          · cases hm
            rw [h10 k0 hnotin]
            show mapGet (mapSet p.reserves t3.lit p.nextId) k0 = _
            rw [← lit3]
            exact mapGet_set_same _ _ _
          · exact h9 k rid hm
        · intro k hk
          have hk' : k ≠ k0 ∧ k ∉ resNames r := by simpa [resNames] using hk
          rw [h10 k hk'.2]
          show mapGet (mapSet p.reserves t3.lit p.nextId) k = _
          exact mapGet_set_other _ _ _ _ (by rw [lit3]; exact hk'.1)

/-! ### the two files, parsed -/

theorem initParser_clean_base (l : List Token) (base : Nat) (h : Clean l) : initParser l base = { toks := l, nextId := base } := by
  have hn : ∀ x ∈ l, (x.ty == TT.ILLEGAL) = false := fun x hx => by simpa using h x hx
  cases l with
  | nil => simp [initParser, PS.noteIllegal, PS.cur, eofTok]
  | cons t r =>
    have h1 := hn t (by simp)
    cases r with
    | nil => simp [initParser, PS.noteIllegal, PS.cur, h1]
    | cons t2 r2 =>
      have h2 := hn t2 (by simp)
      simp [initParser, PS.noteIllegal, PS.cur, PS.peek, h1, h2]

theorem finishParse_clean (first : Token) (stmts : List Stmt) (p1 : PS) (he : p1.errors = []) (ho : p1.oof = false) :
    finishParse false first (some stmts) p1 =
      .ok { tok := first, stmts := stmts, useName := p1.useName, components := p1.components, inserts := p1.inserts,
            reserves := p1.reserves, nextId := p1.nextId } := by
  unfold finishParse
  simp [he, ho]

/-- **the layout file, parsed** -/
theorem parse_layout (items : List LItem) (hok : LItemsOK items) (hnd : (resNames items).Nodup) (base : Nat) :
    ∃ lprog, parseSource (layoutSrc items) base = .ok lprog ∧ lprog.useName = none ∧
      lprog.stmts.map lspecOf = (lspec base items).map some ∧
      (∀ k rid, LSpec.reserve k rid ∈ lspec base items → mapGet lprog.reserves k = some rid) ∧
      (∀ k, k ∉ resNames items → mapGet lprog.reserves k = none) := by
  obtain ⟨toks, e, htok, hk, he⟩ := tokenize_gitems _ (litems_ok items hok)
  rw [gkeys_litems] at hk
  have hcl : Clean (toks ++ [e]) := clean_of_keys hk (lkeys_clean items) he
  have hfuel : 2 * items.length + 3 ≤ parseFuel (toks ++ [e]) := by
    have hlen : toks.length = (lkeys items).length := by rw [← hk]; simp
    have : items.length ≤ (lkeys items).length := by
      clear hok hnd htok hk hcl hlen
      induction items with
      | nil => simp
      | cons it r ih => cases it <;> simp [lkeys, reserveCode, dir1Code] <;> omega
    unfold parseFuel
    simp
    omega
  obtain ⟨stmts, p', h1, h2, h3, h4, h5, h6, h7, h8, h9, h10⟩ := parseLoop_litems items toks e ({ toks := toks ++ [e], nextId := base } : PS) []
    (parseFuel (toks ++ [e])) hk he rfl hnd (fun _ _ => rfl) hfuel
  refine ⟨{ tok := (toks ++ [e]).headD e, stmts := stmts, useName := none, components := p'.components, inserts := p'.inserts,
            reserves := p'.reserves, nextId := p'.nextId }, ?_, rfl, h8, h9, fun k hk' => by rw [h10 k hk']; rfl⟩
  unfold layoutSrc parseSource
  rw [htok]
  simp only [Bool.false_eq_true, if_false]
  rw [initParser_clean_base _ base hcl, h1]
  have hcur : ({ toks := toks ++ [e], nextId := base } : PS).cur = (toks ++ [e]).headD e := by
    cases toks with
    | nil => rfl
    | cons t r => rfl
  rw [hcur]
  simp only [List.nil_append]
  rw [finishParse_clean _ _ _ (by rw [h3]) (by rw [h4]), h5]

theorem insKeys_length : ∀ ins : List Ins, (insKeys ins).length = 6 * ins.length
  | [] => rfl
  | i :: r => by
    have := insKeys_length r
    simp only [insKeys, Ins.code, dir2Code, List.length_append, List.length_cons, List.length_nil, this]
    omega

/-- **the page file, parsed** -/
theorem parse_page (q : Byte) (L : Bytes) (ins : List Ins) (hq : q = 34 ∨ q = 39) (hL : PlainStr q L) (hLne : L ≠ [])
    (hins : ∀ i ∈ ins, i.OK) (hnd : (ins.map Ins.k).Nodup) :
    ∃ prog ut, parseSource (pageSrc q L ins) 0 = .ok prog ∧ prog.useName = some (ut, layoutName L) ∧ prog.reserves = [] ∧
      prog.components = [] ∧
      (∀ i ∈ ins, ∃ d, mapGet prog.inserts i.k = some d ∧ InsDefOf i d) ∧
      (∀ k, (∀ i ∈ ins, i.k ≠ k) → mapGet prog.inserts k = none) ∧
      (∀ x ∈ prog.inserts, ∃ i ∈ ins, x.1 = i.k) := by
  obtain ⟨toks, e, htok, hk, he⟩ := tokenize_gitems _ (pageItems_ok q L ins hq hL hins)
  have hk' : toks.map key = (useCode q L).keys ++ insKeys ins := by
    rw [hk]; simp [pageItems, gkeys, gkeys_inserts]
  match toks, hk' with
  | [], hk' => simp [useCode, dir1Code] at hk'
  | [_], hk' => simp [useCode, dir1Code] at hk'
  | [_, _], hk' => simp [useCode, dir1Code] at hk'
  | [_, _, _], hk' => simp [useCode, dir1Code] at hk'
  | t1 :: t2 :: t3 :: t4 :: rest, hk' =>
    simp only [useCode, dir1Code, List.cons_append, List.nil_append, List.map_cons, List.cons.injEq] at hk'
    obtain ⟨hk1, hk2, hk3, hk4, hkr⟩ := hk'
    have ty1 : t1.ty = .USE := congrArg Prod.fst hk1
    have ty2 : t2.ty = .LPAREN := congrArg Prod.fst hk2
    have ty3 : t3.ty = .STR := congrArg Prod.fst hk3
    have lit3 : t3.lit = L := congrArg Prod.snd hk3
    have ty4 : t4.ty = .RPAREN := congrArg Prod.fst hk4
    have hclr : Clean (rest ++ [e]) := clean_of_keys hkr (insKeys_clean ins) he
    have hcl : Clean (t1 :: t2 :: t3 :: t4 :: rest ++ [e]) :=
      Clean.cons (by rw [ty1]; decide) (Clean.cons (by rw [ty2]; decide) (Clean.cons (by rw [ty3]; decide) (Clean.cons (by rw [ty4]; decide) hclr)))
    have hlen : rest.length = 6 * ins.length := by
      have : rest.length = (insKeys ins).length := by rw [← hkr]; simp
      rw [this, insKeys_length]
    obtain ⟨g, hg⟩ : ∃ g, parseFuel (t1 :: t2 :: t3 :: t4 :: rest ++ [e]) = g + 3 := ⟨parseFuel (t1 :: t2 :: t3 :: t4 :: rest ++ [e]) - 3, by unfold parseFuel; simp <;> omega⟩
    have hgl : 2 * ins.length + 3 ≤ g + 1 := by
      have : parseFuel (t1 :: t2 :: t3 :: t4 :: rest ++ [e]) = 4 * (rest.length + 5) + 16 := by unfold parseFuel; simp <;> omega
      omega
    have hst := parse_use_stmt (g + 1) ({ toks := t1 :: t2 :: t3 :: t4 :: rest ++ [e] } : PS) t1 t2 t3 t4 (rest ++ [e]) (by simp) ty1 ty2 ty3 ty4 hclr
      (by rw [lit3]; exact hLne)
    cases hr : rest ++ [e] with
    | nil => simp at hr
    | cons tn rest' =>
      rw [hr] at hst hclr
      have hloop := loop_stmt_rparen g [] ({ toks := t1 :: t2 :: t3 :: t4 :: rest ++ [e] } : PS) _ _ t1 t3 t4 tn (t2 :: t3 :: t4 :: (rest ++ [e])) rest' rfl
        (by rw [ty1]; decide) hst rfl rfl (by rw [ty3]; decide) ty4 hclr
      obtain ⟨stmts, p', h1, h2, h3, h4, h5, h6, h7, h8, h9, h10⟩ := parseLoop_inserts ins rest e
        ({ toks := tn :: rest', useName := some (t1, layoutName t3.lit) } : PS) ([] ++ [.use t1 (layoutName t3.lit)]) (g + 1) hkr he
        (by simpa using hr.symm) hnd (fun _ _ => rfl) hgl
      refine ⟨{ tok := t1, stmts := [] ++ [.use t1 (layoutName t3.lit)] ++ stmts, useName := some (t1, layoutName t3.lit), components := p'.components,
                inserts := p'.inserts, reserves := p'.reserves, nextId := p'.nextId }, t1, ?_, by rw [lit3], by rw [h6], by rw [h7],
              h8, fun k hk => by rw [h9 k hk]; rfl, ?_⟩
      · unfold pageSrc parseSource
        rw [htok]
        simp only [Bool.false_eq_true, if_false]
        rw [initParser_clean _ hcl]
        simp only [List.cons_append] at hg hloop ⊢
        rw [hg, hloop]
        rw [h1]
        have hcur : ({ toks := t1 :: t2 :: t3 :: t4 :: (rest ++ [e]) } : PS).cur = t1 := rfl
        rw [hcur, finishParse_clean _ _ _ (by rw [h3]) (by rw [h4]), h5]
      · intro x hx
        rcases h10 x hx with h | h
        · cases h
        · exact h

end Tw
