/-
  TwProofs.Lemmas.ParseToks — every token stored in a node of the parsed program (and in the
  tables the parser fills: inserts, component uses, the `@use`) is one of the tokens the parser was
  given: the parser never makes a token up, never changes one (C13: the lines the evaluator
  reports are lines of tokens of the source).
-/
import TwProofs.Lemmas.ParseBadFree
import TwProofs.Lemmas.ErrLinesStmt
import TwProofs.Lemmas.LexSpan

namespace Tw

/-! ### the tokens of a tree (in the order of `Expr.lines` / `Stmt.lines`) -/

mutual
def Expr.toks : Expr → List Token
  | .bad => []
  | .ident t _ => [t]
  | .int t _ => [t]
  | .float t _ => [t]
  | .str t _ => [t]
  | .nil t => [t]
  | .bool t _ => [t]
  | .arr t es => t :: Expr.toksL es
  | .obj t ps => t :: Expr.toksP ps
  | .pre t _ r => t :: r.toks
  | .inf t _ l r => t :: (l.toks ++ r.toks)
  | .post t _ l => t :: l.toks
  | .tern t c a bb => t :: (c.toks ++ (a.toks ++ bb.toks))
  | .index t l i => t :: (l.toks ++ i.toks)
  | .dot t l _ => t :: l.toks
  | .call t r _ args => t :: (r.toks ++ Expr.toksL args)
def Expr.toksL : List Expr → List Token
  | [] => []
  | e :: r => e.toks ++ Expr.toksL r
def Expr.toksP : List (Bytes × Expr) → List Token
  | [] => []
  | (_, e) :: r => e.toks ++ Expr.toksP r
end

mutual
theorem Expr.lines_eq : ∀ e : Expr, e.lines = e.toks.map Token.errorLine
  | .bad => rfl
  | .ident _ _ => rfl
  | .int _ _ => rfl
  | .float _ _ => rfl
  | .str _ _ => rfl
  | .nil _ => rfl
  | .bool _ _ => rfl
  | .arr t es => by simp [Expr.lines, Expr.toks, Expr.linesL_eq es]
  | .obj t ps => by simp [Expr.lines, Expr.toks, Expr.linesP_eq ps]
  | .pre t _ r => by simp [Expr.lines, Expr.toks, Expr.lines_eq r]
  | .inf t _ l r => by simp [Expr.lines, Expr.toks, Expr.lines_eq l, Expr.lines_eq r]
  | .post t _ l => by simp [Expr.lines, Expr.toks, Expr.lines_eq l]
  | .tern t c a bb => by simp [Expr.lines, Expr.toks, Expr.lines_eq c, Expr.lines_eq a, Expr.lines_eq bb]
  | .index t l i => by simp [Expr.lines, Expr.toks, Expr.lines_eq l, Expr.lines_eq i]
  | .dot t l _ => by simp [Expr.lines, Expr.toks, Expr.lines_eq l]
  | .call t r _ args => by simp [Expr.lines, Expr.toks, Expr.lines_eq r, Expr.linesL_eq args]
theorem Expr.linesL_eq : ∀ es : List Expr, Expr.linesL es = (Expr.toksL es).map Token.errorLine
  | [] => rfl
  | e :: r => by simp [Expr.linesL, Expr.toksL, Expr.lines_eq e, Expr.linesL_eq r]
theorem Expr.linesP_eq : ∀ ps : List (Bytes × Expr), Expr.linesP ps = (Expr.toksP ps).map Token.errorLine
  | [] => rfl
  | (_, e) :: r => by simp [Expr.linesP, Expr.toksP, Expr.lines_eq e, Expr.linesP_eq r]
end

def optT {α} (f : α → List Token) : Option α → List Token
  | none => []
  | some a => f a

mutual
def Stmt.toks : Stmt → List Token
  | .bad => []
  | .html t => [t]
  | .expr t e => t :: e.toks
  | .assign t _ e => t :: e.toks
  | .ifS t c cons alts alt => t :: (c.toks ++ (Stmt.toksL cons ++ (Stmt.toksA alts ++ Stmt.toksO alt)))
  | .forS t init cnd post body alt =>
    t :: (Stmt.toksOS init ++ (optT Expr.toks cnd ++ (Stmt.toksOS post ++ (Stmt.toksL body ++ Stmt.toksO alt))))
  | .eachS t _ arr body alt => t :: (arr.toks ++ (Stmt.toksL body ++ Stmt.toksO alt))
  | .use t _ => [t]
  | .reserve t _ _ => [t]
  | .insert t _ arg block => t :: (optT Expr.toks arg ++ Stmt.toksO block)
  | .breakIf t c => t :: c.toks
  | .continueIf t c => t :: c.toks
  | .component t _ arg _ => t :: optT Expr.toksP arg
  | .slot t _ body => t :: Stmt.toksO body
  | .dump t args => t :: Expr.toksL args
  | .brk t => [t]
  | .cont t => [t]
def Stmt.toksL : List Stmt → List Token
  | [] => []
  | s :: r => s.toks ++ Stmt.toksL r
def Stmt.toksO : Option (List Stmt) → List Token
  | none => []
  | some ss => Stmt.toksL ss
def Stmt.toksOS : Option Stmt → List Token
  | none => []
  | some s => s.toks
def Stmt.toksA : List (Expr × List Stmt) → List Token
  | [] => []
  | (e, ss) :: r => e.toks ++ (Stmt.toksL ss ++ Stmt.toksA r)
end

theorem optL_eq {α} (f : α → List Nat) (g : α → List Token) (h : ∀ a, f a = (g a).map Token.errorLine) :
    ∀ o : Option α, optL f o = (optT g o).map Token.errorLine
  | none => rfl
  | some a => h a

mutual
theorem Stmt.lines_eq : ∀ s : Stmt, s.lines = s.toks.map Token.errorLine
  | .bad => rfl
  | .html _ => rfl
  | .expr t e => by simp [Stmt.lines, Stmt.toks, Expr.lines_eq e]
  | .assign t _ e => by simp [Stmt.lines, Stmt.toks, Expr.lines_eq e]
  | .ifS t c cons alts alt => by
    simp [Stmt.lines, Stmt.toks, Expr.lines_eq c, Stmt.linesL_eq cons, Stmt.linesA_eq alts, Stmt.linesO_eq alt]
  | .forS t init cnd post body alt => by
    simp [Stmt.lines, Stmt.toks, Stmt.linesOS_eq init, optL_eq _ _ Expr.lines_eq cnd, Stmt.linesOS_eq post,
      Stmt.linesL_eq body, Stmt.linesO_eq alt]
  | .eachS t _ arr body alt => by simp [Stmt.lines, Stmt.toks, Expr.lines_eq arr, Stmt.linesL_eq body, Stmt.linesO_eq alt]
  | .use _ _ => rfl
  | .reserve _ _ _ => rfl
  | .insert t _ arg block => by simp [Stmt.lines, Stmt.toks, optL_eq _ _ Expr.lines_eq arg, Stmt.linesO_eq block]
  | .breakIf t c => by simp [Stmt.lines, Stmt.toks, Expr.lines_eq c]
  | .continueIf t c => by simp [Stmt.lines, Stmt.toks, Expr.lines_eq c]
  | .component t _ arg _ => by simp [Stmt.lines, Stmt.toks, optL_eq _ _ Expr.linesP_eq arg]
  | .slot t _ body => by simp [Stmt.lines, Stmt.toks, Stmt.linesO_eq body]
  | .dump t args => by simp [Stmt.lines, Stmt.toks, Expr.linesL_eq args]
  | .brk _ => rfl
  | .cont _ => rfl
theorem Stmt.linesL_eq : ∀ ss : List Stmt, Stmt.linesL ss = (Stmt.toksL ss).map Token.errorLine
  | [] => rfl
  | s :: r => by simp [Stmt.linesL, Stmt.toksL, Stmt.lines_eq s, Stmt.linesL_eq r]
theorem Stmt.linesO_eq : ∀ o : Option (List Stmt), Stmt.linesO o = (Stmt.toksO o).map Token.errorLine
  | none => rfl
  | some ss => by simp [Stmt.linesO, Stmt.toksO, Stmt.linesL_eq ss]
theorem Stmt.linesOS_eq : ∀ o : Option Stmt, Stmt.linesOS o = (Stmt.toksOS o).map Token.errorLine
  | none => rfl
  | some s => by simp [Stmt.linesOS, Stmt.toksOS, Stmt.lines_eq s]
theorem Stmt.linesA_eq : ∀ a : List (Expr × List Stmt), Stmt.linesA a = (Stmt.toksA a).map Token.errorLine
  | [] => rfl
  | (e, ss) :: r => by simp [Stmt.linesA, Stmt.toksA, Expr.lines_eq e, Stmt.linesL_eq ss, Stmt.linesA_eq r]
end

def InsertDef.toks (i : InsertDef) : List Token := i.tok :: (optT Expr.toks i.arg ++ Stmt.toksO i.block)
def SlotUse.toks (s : SlotUse) : List Token := s.tok :: Stmt.toksL s.body
def CompUse.toks (c : CompUse) : List Token := c.tok :: c.slots.flatMap SlotUse.toks

/-! ### the invariant of the parser state -/

/-- all of `l` are tokens of `S` -/
def TIn (S : List Token) (l : List Token) : Prop := ∀ x ∈ l, x ∈ S

theorem TIn.nil (S : List Token) : TIn S [] := fun _ h => by cases h
theorem TIn.cons {S : List Token} {t : Token} {l : List Token} (ht : t ∈ S) (hl : TIn S l) : TIn S (t :: l) := by
  intro x hx
  rcases List.mem_cons.mp hx with h | h
  · rw [h]; exact ht
  · exact hl x h
theorem TIn.append {S : List Token} {a c : List Token} (ha : TIn S a) (hc : TIn S c) : TIn S (a ++ c) := by
  intro x hx
  rcases List.mem_append.mp hx with h | h
  · exact ha x h
  · exact hc x h
theorem TIn.one {S : List Token} {t : Token} (ht : t ∈ S) : TIn S [t] := TIn.cons ht (TIn.nil S)
theorem TIn.left {S : List Token} {a c : List Token} (h : TIn S (a ++ c)) : TIn S a := fun x hx => h x (List.mem_append_left _ hx)
theorem TIn.right {S : List Token} {a c : List Token} (h : TIn S (a ++ c)) : TIn S c := fun x hx => h x (List.mem_append_right _ hx)

/-- the remaining tokens (there is always one: the list ends with EOF) and everything recorded in
    the tables so far are tokens of `S` -/
structure TokSrc (S : List Token) (p : PS) : Prop where
  ne : p.toks ≠ []
  sub : TIn S p.toks
  ins : ∀ kv ∈ p.inserts, TIn S kv.2.toks
  comps : ∀ cu ∈ p.components, TIn S cu.toks
  use : ∀ u, p.useName = some u → u.1 ∈ S

variable {S : List Token}

theorem TokSrc.cur {p : PS} (h : TokSrc S p) : p.cur ∈ S := by
  unfold PS.cur
  cases ht : p.toks with
  | nil => exact absurd ht h.ne
  | cons t r => exact h.sub t (by rw [ht]; simp)

theorem TokSrc.peek {p : PS} (h : TokSrc S p) : p.peek ∈ S := by
  unfold PS.peek
  cases ht : p.toks with
  | nil => exact absurd ht h.ne
  | cons t r =>
    cases r with
    | nil => exact h.sub t (by rw [ht]; simp)
    | cons t2 r2 => exact h.sub t2 (by rw [ht]; simp)

theorem TokSrc.err {p : PS} (h : TokSrc S p) (l : Nat) (c : String) (a : List Bytes) : TokSrc S (p.err l c a) :=
  ⟨h.ne, h.sub, h.ins, h.comps, h.use⟩
theorem TokSrc.oof {p : PS} (h : TokSrc S p) : TokSrc S p.outOfFuel := ⟨h.ne, h.sub, h.ins, h.comps, h.use⟩
theorem TokSrc.noteIllegal {p : PS} (h : TokSrc S p) (t : Token) : TokSrc S (p.noteIllegal t) := by
  unfold PS.noteIllegal
  split
  · exact h.err _ _ _
  · exact h

theorem TokSrc.next {p : PS} (h : TokSrc S p) : TokSrc S p.next := by
  unfold PS.next
  cases ht : p.toks with
  | nil => simpa [ht] using h
  | cons t r =>
    cases r with
    | nil => simpa [ht] using h
    | cons t2 r2 =>
      have hb : TokSrc S { p with toks := t2 :: r2 } :=
        ⟨by simp, fun x hx => h.sub x (by rw [ht]; exact List.mem_cons_of_mem _ hx), h.ins, h.comps, h.use⟩
      cases r2 with
      | nil => exact hb
      | cons n r3 => exact hb.noteIllegal n

theorem TokSrc.expectPeek {p : PS} (h : TokSrc S p) (t : TT) : TokSrc S (p.expectPeek t).2 := by
  unfold PS.expectPeek
  split
  · exact h.next
  · exact h.err _ _ _

theorem TokSrc.aliasPath {p : PS} (h : TokSrc S p) (s : String) : TokSrc S (aliasPath p s).2 := by
  unfold Tw.aliasPath
  dsimp only
  split
  · exact h.err _ _ _
  · split <;> exact h

theorem mem_toksP (x : Token) : ∀ ps : List (Bytes × Expr), x ∈ Expr.toksP ps ↔ ∃ p ∈ ps, x ∈ p.2.toks
  | [] => by simp [Expr.toksP]
  | (k, e) :: r => by simp [Expr.toksP, mem_toksP x r]

theorem toksP_mapSet {ps : List (Bytes × Expr)} {k : Bytes} {v : Expr} (hp : TIn S (Expr.toksP ps)) (hv : TIn S v.toks) :
    TIn S (Expr.toksP (mapSet ps k v)) := by
  intro x hx
  rw [mem_toksP] at hx
  obtain ⟨q, hq, hxq⟩ := hx
  rcases mapSet_mem _ _ _ _ hq with h | h
  · exact hp x ((mem_toksP x ps).mpr ⟨q, h, hxq⟩)
  · rw [h] at hxq; exact hv x hxq

theorem toksL_append (a c : List Expr) : Expr.toksL (a ++ c) = Expr.toksL a ++ Expr.toksL c := by
  induction a with
  | nil => simp [Expr.toksL]
  | cons e r ih => simp [Expr.toksL, ih]

/-! ### expressions -/

def ETk (S : List Token) (p : PS) (r : Expr × PS) : Prop := TokSrc S p → TokSrc S r.2 ∧ TIn S r.1.toks
def LTk (S : List Token) (p : PS) (r : List Expr × PS) : Prop := TokSrc S p → TokSrc S r.2 ∧ TIn S (Expr.toksL r.1)

section bodies
variable {pe : Nat → PS → Expr × PS} {pl : TT → PS → List Expr × PS}
  {po : Token → List (Bytes × Expr) → PS → Expr × PS}

theorem prefixBody_toks (hpe : ∀ prec p, ETk S p (pe prec p)) (hpl : ∀ t p, LTk S p (pl t p))
    (hpo : ∀ t ps p, t ∈ S → TIn S (Expr.toksP ps) → ETk S p (po t ps p)) (p : PS) (hs : TokSrc S p) :
    ∀ r, prefixBody pe pl po p = some r → TokSrc S r.2 ∧ TIn S r.1.toks := by
  intro r h
  have hc := hs.cur
  unfold prefixBody at h
  split at h
  · cases h; exact ⟨hs, TIn.one hc⟩
  · split at h <;> cases h
    · exact ⟨hs, TIn.one hc⟩
    · exact ⟨hs.err _ _ _, TIn.nil S⟩
  · split at h <;> cases h
    · exact ⟨hs, TIn.one hc⟩
    · exact ⟨hs.err _ _ _, TIn.nil S⟩
  · cases h; exact ⟨hs, TIn.one hc⟩
  · cases h; exact ⟨hs, TIn.one hc⟩
  · cases h; exact ⟨hs, TIn.one hc⟩
  · cases h; exact ⟨hs, TIn.one hc⟩
  · cases h
    have := hpe PREFIX p.next hs.next
    exact ⟨this.1, TIn.cons hc this.2⟩
  · cases h
    have := hpe PREFIX p.next hs.next
    exact ⟨this.1, TIn.cons hc this.2⟩
  · have := hpe LOWEST p.next hs.next
    split at h <;> cases h
    · exact ⟨this.1.expectPeek _, this.2⟩
    · exact ⟨this.1.expectPeek _, TIn.nil S⟩
  · cases h
    have := hpl .RBRACKET p hs
    exact ⟨this.1, TIn.cons hc this.2⟩
  · split at h <;> cases h
    · exact ⟨hs.next, TIn.cons hc (TIn.nil S)⟩
    · exact hpo _ _ _ hc (TIn.nil S) hs.next
  · cases h

theorem infixBody_toks (hpe : ∀ prec p, ETk S p (pe prec p)) (hpl : ∀ t p, LTk S p (pl t p))
    (left : Expr) (p : PS) (hs : TokSrc S p) (hl : TIn S left.toks) :
    TokSrc S (infixBody pe pl left p).2 ∧ TIn S (infixBody pe pl left p).1.toks := by
  have hc := hs.cur
  unfold infixBody
  split
  · split
    · exact ⟨hs.next.err _ _ _, TIn.nil S⟩
    · have := hpe p.curPrecedence p.next hs.next
      exact ⟨this.1, TIn.cons hc (TIn.append hl this.2)⟩
  · split
    · have h1 := hpe TERNARY p.next hs.next
      split
      · exact ⟨h1.1.expectPeek _, TIn.nil S⟩
      · have h2 := hpe LOWEST ((pe TERNARY p.next).2.expectPeek .COLON).2.next (h1.1.expectPeek _).next
        exact ⟨h2.1, TIn.cons hc (TIn.append hl (TIn.append h1.2 h2.2))⟩
    · split
      · have h1 := hpe LOWEST p.next hs.next
        split
        · exact ⟨h1.1.expectPeek _, TIn.cons hc (TIn.append hl h1.2)⟩
        · exact ⟨h1.1.expectPeek _, TIn.nil S⟩
      · split
        · exact ⟨hs, TIn.cons hc hl⟩
        · have he := hs.expectPeek .IDENT
          split
          · exact ⟨he, TIn.nil S⟩
          · split
            · have h1 := hpl .RPAREN ((p.expectPeek .IDENT).2.expectPeek .LPAREN).2 (he.expectPeek _)
              exact ⟨h1.1, TIn.cons he.cur (TIn.append hl h1.2)⟩
            · exact ⟨he, TIn.cons hc hl⟩

end bodies

theorem parseExpr_toks : ∀ fuel : Nat,
    (∀ prec p, ETk S p (parseExpression fuel prec p)) ∧
    (∀ prec left p, TIn S left.toks → ETk S p (prattLoop fuel prec left p)) ∧
    (∀ t p, LTk S p (parseExprList fuel t p)) ∧
    (∀ t acc p, TIn S (Expr.toksL acc) → LTk S p (exprListLoop fuel t acc p)) ∧
    (∀ t ps p, t ∈ S → TIn S (Expr.toksP ps) → ETk S p (parseObjLoop fuel t ps p)) := by
  intro fuel
  induction fuel with
  | zero =>
    refine ⟨?_, ?_, ?_, ?_, ?_⟩
    · intro prec p hs; exact ⟨hs.oof, TIn.nil S⟩
    · intro prec left p _ hs; exact ⟨hs.oof, TIn.nil S⟩
    · intro t p hs; exact ⟨hs.oof, TIn.nil S⟩
    · intro t acc p _ hs; exact ⟨hs.oof, TIn.nil S⟩
    · intro t ps p _ _ hs; exact ⟨hs.oof, TIn.nil S⟩
  | succ n ih =>
    obtain ⟨ihE, ihL, ihX, ihXL, ihO⟩ := ih
    refine ⟨?_, ?_, ?_, ?_, ?_⟩
    · intro prec p hs
      show (fun r : Expr × PS => TokSrc S r.2 ∧ TIn S r.1.toks) (match prefixBody (parseExpression n) (parseExprList n) (parseObjLoop n) p with
        | none => (Expr.bad, p.err p.cur.errorLine "ErrNoPrefixParseFunc" [b (tokenString p.cur.ty)])
        | some r => prattLoop n prec r.1 r.2)
      have hb := prefixBody_toks ihE ihX ihO p hs
      cases hp : prefixBody (parseExpression n) (parseExprList n) (parseObjLoop n) p with
      | none => exact ⟨hs.err _ _ _, TIn.nil S⟩
      | some r =>
        have := hb r hp
        exact ihL prec r.1 r.2 this.2 this.1
    · intro prec left p hl hs
      show (fun r : Expr × PS => TokSrc S r.2 ∧ TIn S r.1.toks) (if (p.peekIs .RBRACES || p.peekIs .SEMI || p.peekIs .RPAREN || !(decide (prec < p.peekPrecedence))) = true then (left, p)
        else if (!hasInfix p.peek.ty) = true then (left, p)
        else prattLoop n prec (infixBody (parseExpression n) (parseExprList n) left p.next).1
          (infixBody (parseExpression n) (parseExprList n) left p.next).2)
      dsimp only
      split
      · exact ⟨hs, hl⟩
      · split
        · exact ⟨hs, hl⟩
        · have fi := infixBody_toks ihE ihX left p.next hs.next hl
          exact ihL _ _ _ fi.2 fi.1
    · intro t p hs
      show (fun r : List Expr × PS => TokSrc S r.2 ∧ TIn S (Expr.toksL r.1)) (if p.peekIs t = true then ([], p.next)
        else
          match parseExpression n LOWEST p.next with
          | (e, p1) => exprListLoop n t [e] p1)
      dsimp only
      split
      · exact ⟨hs.next, TIn.nil S⟩
      · have := ihE LOWEST p.next hs.next
        cases hq : parseExpression n LOWEST p.next with
        | mk e p1 =>
          rw [hq] at this
          exact ihXL t [e] p1 (by simpa [Expr.toksL] using this.2) this.1
    · intro t acc p hacc hs
      show (fun r : List Expr × PS => TokSrc S r.2 ∧ TIn S (Expr.toksL r.1)) (if p.peekIs .COMMA = true then
          (if p.next.peekIs t = true then
            (match p.next.expectPeek t with
             | (ok, p2) => if ok = true then (acc, p2) else ([], p2))
          else
            match parseExpression n LOWEST p.next.next with
            | (e, p2) => exprListLoop n t (acc ++ [e]) p2)
        else
          match p.expectPeek t with
          | (ok, p1) => if ok = true then (acc, p1) else ([], p1))
      dsimp only
      split
      · split
        · have fe := hs.next.expectPeek t
          cases hq : p.next.expectPeek t with
          | mk ok p2 =>
            rw [hq] at fe
            dsimp only
            split
            · exact ⟨fe, hacc⟩
            · exact ⟨fe, TIn.nil S⟩
        · have := ihE LOWEST p.next.next hs.next.next
          cases hq : parseExpression n LOWEST p.next.next with
          | mk e p2 =>
            rw [hq] at this
            refine ihXL t _ p2 ?_ this.1
            rw [toksL_append]
            exact TIn.append hacc (by simpa [Expr.toksL] using this.2)
      · have fe := hs.expectPeek t
        cases hq : p.expectPeek t with
        | mk ok p1 =>
          rw [hq] at fe
          dsimp only
          split
          · exact ⟨fe, hacc⟩
          · exact ⟨fe, TIn.nil S⟩
    · intro t ps p ht hps hs
      show (fun r : Expr × PS => TokSrc S r.2 ∧ TIn S r.1.toks) (if p.curIs .RBRACE = true then (.obj t ps, p)
        else if (p.curIs .EOF || p.curIs .ILLEGAL) = true then
          (.bad, p.err p.cur.errorLine "ErrWrongNextToken" [b (tokenString .RBRACE), b (tokenString p.cur.ty)])
        else
          match parseExpression n LOWEST (if p.peekIs .COLON = true then p.next.next else p) with
          | (v, p1) =>
            if p1.peekIs .RBRACE = true then (.obj t (mapSet ps p.cur.lit v), p1.next)
            else
              match p1.expectPeek .COMMA with
              | (ok, p2) => if (!ok) = true then (.bad, p2) else parseObjLoop n t (mapSet ps p.cur.lit v) p2.next)
      dsimp only
      split
      · exact ⟨hs, TIn.cons ht hps⟩
      · split
        · exact ⟨hs.err _ _ _, TIn.nil S⟩
        · have f0 : TokSrc S (if p.peekIs .COLON = true then p.next.next else p) := by
            split
            · exact hs.next.next
            · exact hs
          have := ihE LOWEST (if p.peekIs .COLON = true then p.next.next else p) f0
          cases hq : parseExpression n LOWEST (if p.peekIs .COLON = true then p.next.next else p) with
          | mk v p1 =>
            rw [hq] at this
            have hps' : TIn S (Expr.toksP (mapSet ps p.cur.lit v)) := toksP_mapSet hps this.2
            dsimp only
            split
            · exact ⟨this.1.next, TIn.cons ht hps'⟩
            · have fe := this.1.expectPeek .COMMA
              cases hq2 : p1.expectPeek .COMMA with
              | mk ok p2 =>
                rw [hq2] at fe
                dsimp only
                split
                · exact ⟨fe, TIn.nil S⟩
                · exact ihO t _ _ ht hps' fe.next

end Tw

/-! ### statements -/

namespace Tw
variable {S : List Token}

def STk (S : List Token) (p : PS) (r : Stmt × PS) : Prop := TokSrc S p → TokSrc S r.2 ∧ TIn S r.1.toks
def BTk (S : List Token) (p : PS) (r : List Stmt × PS) : Prop := TokSrc S p → TokSrc S r.2 ∧ TIn S (Stmt.toksL r.1)
def SlTk (S : List Token) (p : PS) (r : List SlotUse × PS) : Prop := TokSrc S p → TokSrc S r.2 ∧ ∀ s ∈ r.1, TIn S s.toks

theorem stmt_toksL_append (a c : List Stmt) : Stmt.toksL (a ++ c) = Stmt.toksL a ++ Stmt.toksL c := by
  induction a with
  | nil => simp [Stmt.toksL]
  | cons e r ih => simp [Stmt.toksL, ih]

theorem toksA_append (a c : List (Expr × List Stmt)) : Stmt.toksA (a ++ c) = Stmt.toksA a ++ Stmt.toksA c := by
  induction a with
  | nil => simp [Stmt.toksA]
  | cons e r ih => obtain ⟨e1, e2⟩ := e; simp [Stmt.toksA, ih]

theorem TokSrc.setUse {p : PS} (h : TokSrc S p) (t : Token) (name : Bytes) (ht : t ∈ S) : TokSrc S { p with useName := some (t, name) } :=
  ⟨h.ne, h.sub, h.ins, h.comps, fun u hu => by cases hu; exact ht⟩

theorem TokSrc.reserve {p : PS} (h : TokSrc S p) (r : List (Bytes × Nat)) (n : Nat) : TokSrc S { p with reserves := r, nextId := n } :=
  ⟨h.ne, h.sub, h.ins, h.comps, h.use⟩

theorem TokSrc.setInsert {p : PS} (h : TokSrc S p) (name : Bytes) (ins : InsertDef) (hi : TIn S ins.toks) :
    TokSrc S { p with inserts := mapSet p.inserts name ins } := by
  refine ⟨h.ne, h.sub, ?_, h.comps, h.use⟩
  intro kv hkv
  rcases mapSet_mem _ _ _ _ hkv with hx | hx
  · exact h.ins kv hx
  · rw [hx]; exact hi

theorem TokSrc.addComponent {p : PS} (h : TokSrc S p) (cu : CompUse) (n : Nat) (hc : TIn S cu.toks) :
    TokSrc S { p with components := p.components ++ [cu], nextId := n } := by
  refine ⟨h.ne, h.sub, h.ins, ?_, h.use⟩
  intro x hx
  rcases List.mem_append.mp hx with hx | hx
  · exact h.comps x hx
  · rw [List.mem_singleton.mp hx]; exact hc

section
variable {pe : Nat → PS → Expr × PS} {pl : TT → PS → List Expr × PS} {pst : PS → Stmt × PS}
  {pbody : PS → List Stmt × PS} {pblock : List Stmt → PS → List Stmt × PS}
  {ptail : Token → Expr → List Stmt → List (Expr × List Stmt) → PS → Stmt × PS}
  {pslots : List SlotUse → PS → List SlotUse × PS} {pskip : PS → PS}

theorem embeddedCode_toks (hpe : ∀ prec p, ETk S p (pe prec p)) (p : PS) : STk S p (parseEmbeddedCode pe p) := by
  intro hs
  unfold parseEmbeddedCode
  simp only []
  split
  · exact ⟨hs.next.err _ _ _, TIn.nil S⟩
  · split
    · split
      · exact ⟨((hs.next.expectPeek _).next).err _ _ _, TIn.nil S⟩
      · have := hpe LOWEST _ ((hs.next.expectPeek .ASSIGN).next)
        exact ⟨this.1, TIn.cons hs.next.cur this.2⟩
    · have := hpe LOWEST p.next hs.next
      refine ⟨?_, TIn.cons this.1.cur this.2⟩
      split
      · exact this.1.next
      · exact this.1

theorem condDirective_toks (hpe : ∀ prec p, ETk S p (pe prec p)) (p : PS) (mk : Token → Expr → Stmt)
    (hmk : ∀ t e, (mk t e).toks = t :: e.toks) : STk S p (parseCondDirective pe p mk) := by
  intro hs
  unfold parseCondDirective
  simp only []
  split
  · exact ⟨hs.expectPeek _, TIn.nil S⟩
  · have := hpe LOWEST _ (hs.expectPeek .LPAREN).next
    exact ⟨this.1, by rw [hmk]; exact TIn.cons hs.cur this.2⟩

theorem ifStmt_toks (hpe : ∀ prec p, ETk S p (pe prec p)) (hbody : ∀ p, BTk S p (pbody p))
    (htail : ∀ t c cons alts p, t ∈ S → TIn S c.toks → TIn S (Stmt.toksL cons) → TIn S (Stmt.toksA alts) →
      STk S p (ptail t c cons alts p)) (p : PS) : STk S p (parseIfStmt pe pbody ptail p) := by
  intro hs
  unfold parseIfStmt
  simp only []
  have e1 := hs.expectPeek .LPAREN
  generalize p.expectPeek .LPAREN = q1 at e1 ⊢
  split
  · exact ⟨e1, TIn.nil S⟩
  · have h2 := hpe LOWEST q1.2.next e1.next
    generalize pe LOWEST q1.2.next = q2 at h2 ⊢
    have e3 := h2.1.expectPeek .RPAREN
    generalize q2.2.expectPeek .RPAREN = q3 at e3 ⊢
    split
    · exact ⟨e3, TIn.nil S⟩
    · have h4 := hbody q3.2 e3
      generalize pbody q3.2 = q4 at h4 ⊢
      exact htail p.cur q2.1 q4.1 [] q4.2 hs.cur h2.2 h4.2 (TIn.nil S) h4.1

theorem loopElse_toks (hbody : ∀ p, BTk S p (pbody p)) (p : PS) (hs : TokSrc S p) :
    TokSrc S (loopElse pbody p).2 ∧ TIn S (Stmt.toksO (loopElse pbody p).1) := by
  unfold loopElse
  simp only []
  split
  · exact hbody _ hs.next
  · exact ⟨hs, TIn.nil S⟩

theorem forClause_toks (hpe : ∀ prec p, ETk S p (pe prec p)) (stop : TT) (p : PS) (hs : TokSrc S p) :
    TokSrc S (forClause pe stop p).2 ∧ TIn S (Stmt.toksOS (forClause pe stop p).1) := by
  unfold forClause
  simp only []
  split
  · refine ⟨(embeddedCode_toks hpe p hs).1, ?_⟩
    show TIn S (Stmt.toksOS (if _ then none else some _))
    split
    · exact TIn.nil S
    · exact (embeddedCode_toks hpe p hs).2
  · exact ⟨hs, TIn.nil S⟩

theorem forCond_toks (hpe : ∀ prec p, ETk S p (pe prec p)) (p : PS) (hs : TokSrc S p) :
    TokSrc S (forCond pe p).2 ∧ TIn S (optT Expr.toks (forCond pe p).1) := by
  unfold forCond
  simp only []
  split
  · refine ⟨(hpe _ _ hs.next).1, ?_⟩
    show TIn S (optT Expr.toks (if _ then none else some _))
    split
    · exact TIn.nil S
    · exact (hpe _ _ hs.next).2
  · exact ⟨hs, TIn.nil S⟩

theorem loopBody_toks (hbody : ∀ p, BTk S p (pbody p)) (p : PS) (hs : TokSrc S p) :
    TokSrc S (parseLoopBody pbody p).2 ∧
      ∀ body alt, (parseLoopBody pbody p).1 = some (body, alt) → TIn S (Stmt.toksL body) ∧ TIn S (Stmt.toksO alt) := by
  unfold parseLoopBody
  simp only []
  have h1 := hbody p hs
  generalize pbody p = q1 at h1 ⊢
  have h2 := loopElse_toks hbody q1.2 h1.1
  generalize loopElse pbody q1.2 = q2 at h2 ⊢
  have e3 := h2.1.expectPeek .END
  generalize q2.2.expectPeek .END = q3 at e3 ⊢
  split
  · refine ⟨e3, ?_⟩
    intro b a h
    cases h
    exact ⟨h1.2, h2.2⟩
  · exact ⟨e3, by intro b a h; cases h⟩

theorem forStmt_toks (hpe : ∀ prec p, ETk S p (pe prec p)) (hbody : ∀ p, BTk S p (pbody p)) (p : PS) :
    STk S p (parseForStmt pe pbody p) := by
  intro hs
  unfold parseForStmt
  simp only []
  have e1 := hs.expectPeek .LPAREN
  generalize p.expectPeek .LPAREN = q1 at e1 ⊢
  split
  · exact ⟨e1, TIn.nil S⟩
  · have h2 := forClause_toks hpe .SEMI q1.2 e1
    generalize forClause pe .SEMI q1.2 = q2 at h2 ⊢
    have e3 := h2.1.expectPeek .SEMI
    generalize q2.2.expectPeek .SEMI = q3 at e3 ⊢
    split
    · exact ⟨e3, TIn.nil S⟩
    · have h4 := forCond_toks hpe q3.2 e3
      generalize forCond pe q3.2 = q4 at h4 ⊢
      have e5 := h4.1.expectPeek .SEMI
      generalize q4.2.expectPeek .SEMI = q5 at e5 ⊢
      split
      · exact ⟨e5, TIn.nil S⟩
      · have h6 := forClause_toks hpe .RPAREN q5.2 e5
        generalize forClause pe .RPAREN q5.2 = q6 at h6 ⊢
        have e7 := h6.1.expectPeek .RPAREN
        generalize q6.2.expectPeek .RPAREN = q7 at e7 ⊢
        split
        · exact ⟨e7, TIn.nil S⟩
        · have h8 := loopBody_toks hbody q7.2 e7
          generalize parseLoopBody pbody q7.2 = q8 at h8 ⊢
          obtain ⟨o, p8⟩ := q8
          cases o with
          | none => exact ⟨h8.1, TIn.nil S⟩
          | some ba =>
            obtain ⟨body, alt⟩ := ba
            obtain ⟨hb, ha⟩ := h8.2 body alt rfl
            refine ⟨h8.1, ?_⟩
            simp only [Stmt.toks]
            exact TIn.cons hs.cur (TIn.append h2.2 (TIn.append h4.2 (TIn.append h6.2 (TIn.append hb ha))))

theorem eachStmt_toks (hpe : ∀ prec p, ETk S p (pe prec p)) (hbody : ∀ p, BTk S p (pbody p)) (p : PS) :
    STk S p (parseEachStmt pe pbody p) := by
  intro hs
  unfold parseEachStmt
  simp only []
  have e1 := hs.expectPeek .LPAREN
  generalize p.expectPeek .LPAREN = q1 at e1 ⊢
  split
  · exact ⟨e1, TIn.nil S⟩
  · have e3 := e1.next.expectPeek .IN
    generalize q1.2.next.expectPeek .IN = q3 at e3 ⊢
    split
    · exact ⟨e3, TIn.nil S⟩
    · have h4 := hpe LOWEST q3.2.next e3.next
      generalize pe LOWEST q3.2.next = q4 at h4 ⊢
      have e5 := h4.1.expectPeek .RPAREN
      generalize q4.2.expectPeek .RPAREN = q5 at e5 ⊢
      split
      · exact ⟨e5, TIn.nil S⟩
      · have h8 := loopBody_toks hbody q5.2 e5
        generalize parseLoopBody pbody q5.2 = q8 at h8 ⊢
        obtain ⟨o, p8⟩ := q8
        cases o with
        | none => exact ⟨h8.1, TIn.nil S⟩
        | some ba =>
          obtain ⟨body, alt⟩ := ba
          obtain ⟨hb, ha⟩ := h8.2 body alt rfl
          refine ⟨h8.1, ?_⟩
          simp only [Stmt.toks]
          exact TIn.cons hs.cur (TIn.append h4.2 (TIn.append hb ha))

theorem insertStmt_toks (hpe : ∀ prec p, ETk S p (pe prec p)) (hbody : ∀ p, BTk S p (pbody p)) (p : PS) :
    STk S p (parseInsertStmt pe pbody p) := by
  intro hs
  unfold parseInsertStmt
  simp only []
  have e1 := hs.expectPeek .LPAREN
  generalize p.expectPeek .LPAREN = q1 at e1 ⊢
  split
  · exact ⟨e1, TIn.nil S⟩
  · split
    · exact ⟨e1.next.err _ _ _, TIn.nil S⟩
    · split
      · have h3 := hpe LOWEST q1.2.next.next.next e1.next.next.next
        generalize pe LOWEST q1.2.next.next.next = q3 at h3 ⊢
        have harg : TIn S (optT Expr.toks (if q3.1.isBad = true then none else some q3.1)) := by
          split
          · exact TIn.nil S
          · exact h3.2
        refine ⟨h3.1.setInsert _ _ ?_, ?_⟩
        · simp only [InsertDef.toks, Stmt.toksO, List.append_nil]
          exact TIn.cons hs.cur harg
        · simp only [Stmt.toks, Stmt.toksO, List.append_nil]
          exact TIn.cons hs.cur harg
      · have e3 := e1.next.expectPeek .RPAREN
        generalize q1.2.next.expectPeek .RPAREN = q3 at e3 ⊢
        split
        · exact ⟨e3, TIn.nil S⟩
        · have h4 := hbody q3.2 e3
          generalize pbody q3.2 = q4 at h4 ⊢
          refine ⟨h4.1.setInsert _ _ ?_, ?_⟩
          · simp only [InsertDef.toks, optT, Stmt.toksO, List.nil_append]
            exact TIn.cons hs.cur h4.2
          · simp only [Stmt.toks, optT, Stmt.toksO, List.nil_append]
            exact TIn.cons hs.cur h4.2

theorem componentArg_toks (hpe : ∀ prec p, ETk S p (pe prec p)) (p : PS) (hs : TokSrc S p) :
    TokSrc S (componentArg pe p).2 ∧
      ∀ arg, (componentArg pe p).1 = some arg → TIn S (optT Expr.toksP arg) := by
  unfold componentArg
  simp only []
  split
  · have h := hpe LOWEST p.next.next hs.next.next
    generalize pe LOWEST p.next.next = q at h ⊢
    split
    · rename_i t pairs heq
      refine ⟨h.1, ?_⟩
      intro arg ha
      cases ha
      have := h.2
      rw [heq] at this
      simp only [optT]
      exact fun x hx => this x (by simp [Expr.toks, hx])
    · exact ⟨h.1.err _ _ _, by intro arg ha; cases ha⟩
  · exact ⟨hs, by intro arg ha; cases ha; exact TIn.nil S⟩

theorem componentSlots_toks (hslots : ∀ acc p, (∀ s ∈ acc, TIn S s.toks) → SlTk S p (pslots acc p)) (p : PS) :
    SlTk S p (componentSlots pslots p) := by
  intro hs
  have hnil : ∀ s ∈ ([] : List SlotUse), TIn S s.toks := by intro s h; cases h
  unfold componentSlots
  split
  · exact hslots [] p.next hnil hs.next
  · split
    · split
      · exact hslots [] p.next.next hnil hs.next.next
      · exact ⟨hs, hnil⟩
    · exact ⟨hs, hnil⟩

theorem compUse_toks {t : Token} {name : Bytes} {cid : Nat} {slots : List SlotUse} (ht : t ∈ S) (hsl : ∀ s ∈ slots, TIn S s.toks) :
    TIn S ({ tok := t, name := name, cid := cid, slots := slots } : CompUse).toks := by
  unfold CompUse.toks
  refine TIn.cons ht ?_
  intro x hx
  obtain ⟨s, hs, hxs⟩ := List.mem_flatMap.mp hx
  exact hsl s hs x hxs

theorem componentStmt_toks (hpe : ∀ prec p, ETk S p (pe prec p))
    (hslots : ∀ acc p, (∀ s ∈ acc, TIn S s.toks) → SlTk S p (pslots acc p)) (p : PS) :
    STk S p (parseComponentStmt pe pslots p) := by
  intro hs
  unfold parseComponentStmt
  simp only []
  have e1 := hs.expectPeek .LPAREN
  generalize p.expectPeek .LPAREN = q1 at e1 ⊢
  split
  · exact ⟨e1, TIn.nil S⟩
  · have e2 := e1.next.aliasPath "components"
    generalize aliasPath q1.2.next "components" = q2 at e2 ⊢
    have h3 := componentArg_toks hpe q2.2 e2
    generalize componentArg pe q2.2 = q3 at h3 ⊢
    obtain ⟨argR, p3⟩ := q3
    cases argR with
    | none => exact ⟨h3.1, TIn.nil S⟩
    | some arg =>
      simp only []
      have e4 := h3.1.expectPeek .RPAREN
      generalize p3.expectPeek .RPAREN = q4 at e4 ⊢
      split
      · exact ⟨e4, TIn.nil S⟩
      · have h5 := componentSlots_toks hslots q4.2 e4
        generalize componentSlots pslots q4.2 = q5 at h5 ⊢
        refine ⟨h5.1.addComponent _ _ (compUse_toks hs.cur h5.2), ?_⟩
        simp only [Stmt.toks]
        exact TIn.cons hs.cur (h3.2 arg rfl)

theorem statementBody_toks (hpe : ∀ prec p, ETk S p (pe prec p)) (hpl : ∀ t p, LTk S p (pl t p))
    (hbody : ∀ p, BTk S p (pbody p))
    (htail : ∀ t c cons alts p, t ∈ S → TIn S c.toks → TIn S (Stmt.toksL cons) → TIn S (Stmt.toksA alts) →
      STk S p (ptail t c cons alts p))
    (hslots : ∀ acc p, (∀ s ∈ acc, TIn S s.toks) → SlTk S p (pslots acc p)) (p : PS) :
    STk S p (statementBody pe pl pbody ptail pslots p) := by
  intro hs
  have hc := hs.cur
  unfold statementBody
  simp only []
  split
  · exact ⟨hs, TIn.one hc⟩
  · exact embeddedCode_toks hpe p hs
  · exact embeddedCode_toks hpe p hs
  · exact ifStmt_toks hpe hbody htail p hs
  · exact forStmt_toks hpe hbody p hs
  · exact eachStmt_toks hpe hbody p hs
  · -- @use
    split
    · exact ⟨hs.expectPeek _, TIn.nil S⟩
    · exact ⟨(((hs.expectPeek _).next).aliasPath _).setUse _ _ hc, TIn.one hc⟩
  · -- @reserve
    split
    · exact ⟨hs.expectPeek _, TIn.nil S⟩
    · exact ⟨((hs.expectPeek _).next).reserve _ _, TIn.one hc⟩
  · exact insertStmt_toks hpe hbody p hs
  · exact condDirective_toks hpe p _ (fun _ _ => rfl) hs
  · exact condDirective_toks hpe p _ (fun _ _ => rfl) hs
  · exact componentStmt_toks hpe hslots p hs
  · -- @slot
    split
    · exact ⟨hs, TIn.one hc⟩
    · split
      · exact ⟨hs.next.next.expectPeek _, TIn.one hc⟩
      · exact ⟨hs.next.next.expectPeek _, TIn.nil S⟩
  · -- @dump
    split
    · exact ⟨hs.expectPeek _, TIn.nil S⟩
    · have := hpl .RPAREN _ (hs.expectPeek .LPAREN)
      exact ⟨this.1, TIn.cons hc this.2⟩
  · exact ⟨hs, TIn.one hc⟩
  · exact ⟨hs, TIn.one hc⟩
  · exact ⟨hs, TIn.nil S⟩

theorem bodyBody_toks (hblock : ∀ acc p, TIn S (Stmt.toksL acc) → BTk S p (pblock acc p)) (p : PS) :
    BTk S p (bodyBody pblock p) := by
  intro hs
  unfold bodyBody
  split
  · exact ⟨hs, TIn.nil S⟩
  · exact hblock [] p.next (TIn.nil S) hs.next

theorem blockStmtBody_toks (hst : ∀ p, STk S p (pst p))
    (hblock : ∀ acc p, TIn S (Stmt.toksL acc) → BTk S p (pblock acc p)) (acc : List Stmt) (p : PS)
    (hacc : TIn S (Stmt.toksL acc)) : BTk S p (blockStmtBody pst pblock acc p) := by
  intro hs
  unfold blockStmtBody
  simp only []
  split
  · exact ⟨hs, hacc⟩
  · split
    · exact ⟨hs.err _ _ _, hacc⟩
    · split
      · exact ⟨hs.err _ _ _, hacc⟩
      · have h1 := hst p hs
        generalize pst p = q1 at h1 ⊢
        have hacc' : TIn S (Stmt.toksL (if q1.1.isBad = true then acc else acc ++ [q1.1])) := by
          split
          · exact hacc
          · rw [stmt_toksL_append]
            exact TIn.append hacc (by simpa [Stmt.toksL] using h1.2)
        split
        · exact ⟨h1.1, hacc'⟩
        · exact hblock _ q1.2.next hacc' h1.1.next

theorem ifTailBody_toks (hpe : ∀ prec p, ETk S p (pe prec p)) (hbody : ∀ p, BTk S p (pbody p))
    (htail : ∀ t c cons alts p, t ∈ S → TIn S c.toks → TIn S (Stmt.toksL cons) → TIn S (Stmt.toksA alts) →
      STk S p (ptail t c cons alts p))
    (t : Token) (c : Expr) (cons : List Stmt) (alts : List (Expr × List Stmt)) (p : PS)
    (ht : t ∈ S) (hc : TIn S c.toks) (hcons : TIn S (Stmt.toksL cons)) (halts : TIn S (Stmt.toksA alts)) :
    STk S p (ifTailBody pe pbody ptail t c cons alts p) := by
  intro hs
  unfold ifTailBody
  simp only []
  split
  · have e1 := hs.expectPeek .ELSE_IF
    generalize p.expectPeek .ELSE_IF = q1 at e1 ⊢
    have h3 := hpe LOWEST q1.2.next.next e1.next.next
    generalize pe LOWEST q1.2.next.next = q3 at h3 ⊢
    have e4 := h3.1.expectPeek .RPAREN
    generalize q3.2.expectPeek .RPAREN = q4 at e4 ⊢
    split
    · exact ⟨e4, TIn.nil S⟩
    · have h5 := hbody q4.2 e4
      generalize pbody q4.2 = q5 at h5 ⊢
      exact htail t c cons (alts ++ [(q3.1, q5.1)]) q5.2 ht hc hcons (by
        rw [toksA_append]
        refine TIn.append halts ?_
        simp only [Stmt.toksA, List.append_nil]
        exact TIn.append h3.2 h5.2) h5.1
  · split
    · have h1 := hbody p.next hs.next
      generalize pbody p.next = q1 at h1 ⊢
      split
      · exact ⟨h1.1.err _ _ _, TIn.nil S⟩
      · have e2 := h1.1.expectPeek .END
        generalize q1.2.expectPeek .END = q2 at e2 ⊢
        split
        · refine ⟨e2, ?_⟩
          simp only [Stmt.toks, Stmt.toksO]
          exact TIn.cons ht (TIn.append hc (TIn.append hcons (TIn.append halts h1.2)))
        · exact ⟨e2, TIn.nil S⟩
    · have e2 := hs.expectPeek .END
      generalize p.expectPeek .END = q2 at e2 ⊢
      split
      · refine ⟨e2, ?_⟩
        simp only [Stmt.toks, Stmt.toksO, List.append_nil]
        exact TIn.cons ht (TIn.append hc (TIn.append hcons halts))
      · exact ⟨e2, TIn.nil S⟩

theorem slotHeader_toks (p : PS) (hs : TokSrc S p) : TokSrc S (slotHeader p).2 := by
  unfold slotHeader
  simp only []
  split
  · split <;> exact hs.next.next.expectPeek _
  · exact hs

theorem slotsBody_toks (hbody : ∀ p, BTk S p (pbody p))
    (hslots : ∀ acc p, (∀ s ∈ acc, TIn S s.toks) → SlTk S p (pslots acc p)) (hskip : ∀ p, TokSrc S p → TokSrc S (pskip p))
    (acc : List SlotUse) (p : PS) (hacc : ∀ s ∈ acc, TIn S s.toks) : SlTk S p (slotsBody pbody pslots pskip acc p) := by
  intro hs
  unfold slotsBody
  simp only []
  split
  · exact ⟨hs, hacc⟩
  · have e1 := slotHeader_toks p hs
    generalize slotHeader p = q1 at e1 ⊢
    obtain ⟨hdr, p1⟩ := q1
    cases hdr with
    | none => exact ⟨e1, by intro s h; cases h⟩
    | some name =>
      simp only []
      have h2 := hbody p1 e1
      generalize pbody p1 = q2 at h2 ⊢
      refine hslots (acc ++ [{ tok := p.cur, name := name, body := q2.1 }]) (pskip q2.2.next.next) ?_ (hskip _ h2.1.next.next)
      intro s hsm
      rcases List.mem_append.mp hsm with h | h
      · exact hacc s h
      · rw [List.mem_singleton.mp h]
        exact TIn.cons hs.cur h2.2

theorem skipHtmlBody_toks (hskip : ∀ p, TokSrc S p → TokSrc S (pskip p)) (p : PS) (hs : TokSrc S p) : TokSrc S (skipHtmlBody pskip p) := by
  unfold skipHtmlBody
  split
  · exact hskip _ hs.next
  · exact hs

end

/-- the statement parser at every fuel -/
theorem parseStmt_toks : ∀ fuel : Nat,
    (∀ p, STk S p (parseStatement fuel p)) ∧
    (∀ p, BTk S p (parseBody fuel p)) ∧
    (∀ acc p, TIn S (Stmt.toksL acc) → BTk S p (parseBlockStmt fuel acc p)) ∧
    (∀ t c cons alts p, t ∈ S → TIn S c.toks → TIn S (Stmt.toksL cons) → TIn S (Stmt.toksA alts) →
      STk S p (parseIfTail fuel t c cons alts p)) ∧
    (∀ acc p, (∀ s ∈ acc, TIn S s.toks) → SlTk S p (parseSlots fuel acc p)) ∧
    (∀ p, TokSrc S p → TokSrc S (skipHtml fuel p)) := by
  intro fuel
  induction fuel with
  | zero =>
    refine ⟨?_, ?_, ?_, ?_, ?_, ?_⟩
    · intro p hs; exact ⟨hs.oof, TIn.nil S⟩
    · intro p hs; exact ⟨hs.oof, TIn.nil S⟩
    · intro acc p ha hs; exact ⟨hs.oof, ha⟩
    · intro t c cons alts p _ _ _ _ hs; exact ⟨hs.oof, TIn.nil S⟩
    · intro acc p ha hs; exact ⟨hs.oof, ha⟩
    · intro p hs; exact hs.oof
  | succ n ih =>
    obtain ⟨ihS, ihB, ihBl, ihT, ihSl, ihSk⟩ := ih
    obtain ⟨hE, _, hL, _, _⟩ := parseExpr_toks (S := S) n
    exact ⟨fun p => statementBody_toks hE hL ihB ihT ihSl p,
      fun p => bodyBody_toks ihBl p,
      fun acc p h => blockStmtBody_toks ihS ihBl acc p h,
      fun t c cons alts p h0 h1 h2 h3 => ifTailBody_toks hE ihB ihT t c cons alts p h0 h1 h2 h3,
      fun acc p h => slotsBody_toks ihB ihSl ihSk acc p h,
      fun p => skipHtmlBody_toks ihSk p⟩

end Tw

/-! ### programs -/

namespace Tw
variable {S : List Token}

theorem parseProgramLoop_toks : ∀ (fuel : Nat) (acc : List Stmt) (p : PS), TIn S (Stmt.toksL acc) → TokSrc S p →
    TokSrc S (parseProgramLoop fuel acc p).2 ∧
      ∀ ss, (parseProgramLoop fuel acc p).1 = some ss → TIn S (Stmt.toksL ss)
  | 0, acc, p, hacc, hs => ⟨hs.oof, fun ss h => by cases h; exact hacc⟩
  | fuel + 1, acc, p, hacc, hs => by
    unfold parseProgramLoop
    simp only []
    split
    · exact ⟨hs, by intro ss h; cases h; exact hacc⟩
    · have h1 := (parseStmt_toks (S := S) fuel).1 p hs
      generalize parseStatement fuel p = q1 at h1 ⊢
      split
      · exact ⟨h1.1.err _ _ _, by intro ss h; cases h⟩
      · have hacc' : TIn S (Stmt.toksL (if q1.1.isBad = true then acc else acc ++ [q1.1])) := by
          split
          · exact hacc
          · rw [stmt_toksL_append]
            exact TIn.append hacc (by simpa [Stmt.toksL] using h1.2)
        exact parseProgramLoop_toks fuel _ q1.2.next hacc' h1.1.next

theorem initParser_src (toks : List Token) (base : Nat) (hne : toks ≠ []) : TokSrc toks (initParser toks base) := by
  have h0 : TokSrc toks ({ toks := toks, nextId := base } : PS) :=
    ⟨hne, fun x hx => hx, fun kv h => (by cases h), fun cu h => (by cases h), fun u h => (by cases h)⟩
  unfold initParser
  simp only []
  split
  · exact (h0.noteIllegal _).noteIllegal _
  · exact h0.noteIllegal _

theorem finishParse_fields (ic : Bool) (first : Token) (stmts : Option (List Stmt)) (p1 : PS) (prog : Program)
    (h : finishParse ic first stmts p1 = .ok prog) :
    prog.tok = first ∧ prog.useName = p1.useName := by
  unfold finishParse at h
  cases stmts with
  | none =>
    simp only [] at h
    split at h
    · cases h
    · split at h
      · cases h
      · cases h; exact ⟨rfl, rfl⟩
  | some ss =>
    cases ic with
    | true =>
      simp only [if_true] at h
      split at h
      · cases h
      · split at h
        · cases h
        · cases h; exact ⟨rfl, rfl⟩
    | false =>
      simp only [Bool.false_eq_true, if_false] at h
      split at h
      · cases h
      · split at h
        · cases h
        · cases h; exact ⟨rfl, rfl⟩

/-- every token of the parsed program -/
def Program.toks (prog : Program) : List Token :=
  prog.tok :: (Stmt.toksL prog.stmts ++ (prog.inserts.flatMap (fun kv => kv.2.toks) ++ (prog.components.flatMap CompUse.toks ++
    (match prog.useName with | some u => [u.1] | none => []))))

/-- **the parser never makes a token up**: every token stored anywhere in the parsed program — in a
    node of a statement or expression at any depth, in a recorded insert, component use or slot,
    in the `@use` — is one of the tokens the lexer produced for this source -/
theorem parseSource_toks (src : Bytes) (base : Nat) (prog : Program) (h : parseSource src base = .ok prog) :
    ∃ lr, tokenize src = some lr ∧ TIn lr.toks prog.toks := by
  unfold parseSource at h
  split at h
  · cases h
  · rename_i lr hlr
    refine ⟨lr, hlr, ?_⟩
    split at h
    · cases h
    · have hne : lr.toks ≠ [] := by
        have ht := tokenize_tiled src lr hlr
        intro he
        rw [he] at ht
        cases ht
      have h0 := initParser_src lr.toks base hne
      have hl := parseProgramLoop_toks (S := lr.toks) (parseFuel lr.toks) [] (initParser lr.toks base) (TIn.nil _) h0
      obtain ⟨_, h1, h2, h3, _⟩ := finishParse_ok _ _ _ _ _ h
      obtain ⟨h5, h6⟩ := finishParse_fields _ _ _ _ _ h
      unfold Program.toks
      refine TIn.cons (by rw [h5]; exact h0.cur) (TIn.append ?_ (TIn.append ?_ (TIn.append ?_ ?_)))
      · rw [h1]
        cases hs : (parseProgramLoop (parseFuel lr.toks) [] (initParser lr.toks base)).1 with
        | none => exact TIn.nil _
        | some ss => exact hl.2 ss hs
      · rw [h2]
        intro x hx
        obtain ⟨kv, hkv, hxk⟩ := List.mem_flatMap.mp hx
        exact hl.1.ins kv hkv x hxk
      · rw [h3]
        intro x hx
        obtain ⟨cu, hcu, hxc⟩ := List.mem_flatMap.mp hx
        exact hl.1.comps cu hcu x hxc
      · rw [h6]
        cases hu : (parseProgramLoop (parseFuel lr.toks) [] (initParser lr.toks base)).2.useName with
        | none => exact TIn.nil _
        | some u => exact TIn.one (hl.1.use u hu)

/-- the lines of the parsed statements are lines of tokens of the source -/
theorem parseSource_lines (src : Bytes) (base : Nat) (prog : Program) (h : parseSource src base = .ok prog) :
    ∃ lr, tokenize src = some lr ∧ ∀ l ∈ Stmt.linesL prog.stmts, ∃ t ∈ lr.toks, l = t.errorLine := by
  obtain ⟨lr, hlr, ht⟩ := parseSource_toks src base prog h
  refine ⟨lr, hlr, ?_⟩
  intro l hl
  rw [Stmt.linesL_eq] at hl
  obtain ⟨t, htm, hte⟩ := List.mem_map.mp hl
  exact ⟨t, ht t (by unfold Program.toks; exact List.mem_cons_of_mem _ (List.mem_append_left _ htm)), hte.symm⟩

end Tw
