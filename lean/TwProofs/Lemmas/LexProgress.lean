/-
  TwProofs.Lemmas.LexProgress — every `NextToken` body consumes at least one byte unless it
  returns `EOF`; hence `lexAll` never runs out of the fuel `tokenize` gives it (C08).
-/
import TwProofs.Lemmas.LexPos

namespace Tw
open Lx

theorem tokenBegins_rest (s : Lx) : s.tokenBegins.rest = s.rest := rfl
theorem tokenBegins_pre (s : Lx) : s.tokenBegins.pre = s.pre := rfl

theorem advance_rest (s : Lx) (n : Nat) : (advance s n).rest = s.rest.drop n := (advance_pre_rest n s).2

theorem emit_rest (s : Lx) (n : Nat) (ty : TT) (lit : Bytes) : (emit s n ty lit).2.rest = s.rest.drop n := by
  simp [emit, advance_rest, tokenBegins_rest]

theorem emit_ty (s : Lx) (n : Nat) (ty : TT) (lit : Bytes) : (emit s n ty lit).1.ty = ty := by
  simp only [emit, newToken]; split <;> rfl

theorem emit_lit (s : Lx) (n : Nat) (ty : TT) (lit : Bytes) : (emit s n ty lit).1.lit = lit := by
  simp only [emit, newToken]; split <;> rfl

theorem drop_length_lt {α} (l : List α) (n : Nat) (hn : 1 ≤ n) (hl : l ≠ []) : (l.drop n).length < l.length := by
  cases l with
  | nil => exact absurd rfl hl
  | cons a t => simp; omega

theorem takeWhile_pos {p : Byte → Bool} {c : Byte} {r : Bytes} (h : p c = true) : 1 ≤ ((c :: r).takeWhile p).length := by
  simp [List.takeWhile_cons, h]

theorem numScan_pos {c : Byte} {r : Bytes} (h : isNumberCh c = true) : 1 ≤ (numScan (c :: r)).1 := by
  simp only [numScan, h, if_true]
  omega

theorem strSpan_pos (rest : Bytes) : 2 ≤ (strSpan rest).1 := by
  unfold strSpan
  simp only
  split <;> simp

theorem dirScan_len (kw : Bytes) (tok : TT) (rest : Bytes) : kw.length ≤ (dirScan kw tok rest).1.length := by
  induction rest generalizing kw tok with
  | nil => simp [dirScan]
  | cons c r ih =>
    simp only [dirScan]
    split
    · split
      · simp
      · exact Nat.le_trans (by simp) (ih _ _)
    · exact Nat.le_refl _

theorem dirScan_pos (c : Byte) (r : Bytes) (h : isLetterWord c = true) : 1 ≤ (dirScan [] .ILLEGAL (c :: r)).1.length := by
  simp only [dirScan, h, if_true]
  split
  · simp
  · exact Nat.le_trans (by simp) (dirScan_len _ _ _)

theorem htmlScan_count (prev : Byte) (out : Bytes) (n : Nat) (pan : Bool) (rest : Bytes) :
    n ≤ (htmlScan prev out n pan rest).2.1 := by
  induction rest generalizing prev out n pan with
  | nil => simp [htmlScan]
  | cons c r ih =>
    simp only [htmlScan]
    split
    · exact Nat.le_refl _
    · split
      · exact Nat.le_trans (Nat.le_succ n) (ih _ _ _ _)
      · exact Nat.le_trans (Nat.le_succ n) (ih _ _ _ _)

/-- `htmlScan` consumes at least one byte unless it stops at the very first one -/
theorem htmlScan_pos (prev : Byte) (c : Byte) (r : Bytes)
    (h : (((c == 123 && r.headD 0 == 123) || (c == 64 && hasDirectivePrefix (c :: r))) && !(prev == 92)) = false) :
    1 ≤ (htmlScan prev [] 0 false (c :: r)).2.1 := by
  simp only [htmlScan]
  rw [if_neg (by rw [h]; simp)]
  split
  · exact htmlScan_count _ _ _ _ _
  · exact htmlScan_count _ _ _ _ _

/-- the states have the same bytes and the same position -/
def SameBytes (a c : Lx) : Prop :=
  a.pre = c.pre ∧ a.rest = c.rest ∧ a.line = c.line ∧ a.col = c.col ∧ a.reset = c.reset

theorem SameBytes.refl (s : Lx) : SameBytes s s := ⟨rfl, rfl, rfl, rfl, rfl⟩

theorem simpleToken_ne_eof {c : Byte} {ty : TT} (h : simpleToken c = some ty) : ty ≠ .EOF := by
  unfold simpleToken at h
  have hall : ∀ p ∈ simpleTokens, p.2 ≠ TT.EOF := by decide
  cases hf : simpleTokens.find? (fun p => p.1 == c) with
  | none => simp [hf] at h
  | some p =>
    simp [hf] at h
    rw [← h]
    exact hall p (List.mem_of_find?_eq_some hf)

theorem lookupAssoc_mem (tbl : List (Bytes × TT)) (k : Bytes) (t : TT) (h : lookupAssoc tbl k = some t) :
    ∃ p ∈ tbl, p.2 = t := by
  induction tbl with
  | nil => simp [lookupAssoc] at h
  | cons p r ih =>
    obtain ⟨k', t'⟩ := p
    simp only [lookupAssoc] at h
    split at h
    · exact ⟨(k', t'), by simp, by simpa using h⟩
    · obtain ⟨q, hq, hq2⟩ := ih h
      exact ⟨q, by simp [hq], hq2⟩

theorem lookupIdent_ne_eof (ident : Bytes) : lookupIdent ident ≠ .EOF := by
  unfold lookupIdent
  cases h : lookupAssoc keywordsB ident with
  | none => simp
  | some t =>
    obtain ⟨p, hp, hp2⟩ := lookupAssoc_mem _ _ _ h
    have hall : ∀ p ∈ keywordsB, p.2 ≠ TT.EOF := by decide
    simp only [Option.getD_some]
    rw [← hp2]; exact hall p hp

/-- a descriptor for state `s`: same bytes, at least one byte, never EOF -/
def DescOk (s : Lx) (d : TokDesc) : Prop := SameBytes d.st s ∧ 1 ≤ d.n ∧ d.ty ≠ .EOF

theorem lookupDirective_ne_eof (k : Bytes) : lookupDirective k ≠ .EOF := by
  unfold lookupDirective
  cases h : lookupAssoc directivesB k with
  | none => simp
  | some t =>
    obtain ⟨p, hp, hp2⟩ := lookupAssoc_mem _ _ _ h
    have hall : ∀ p ∈ directivesB, p.2 ≠ TT.EOF := by decide
    simp only [Option.getD_some]
    rw [← hp2]; exact hall p hp

theorem dirScan_tok (kw : Bytes) (tok : TT) (rest : Bytes) :
    (dirScan kw tok rest).2 = tok ∨ ∃ k, (dirScan kw tok rest).2 = lookupDirective k := by
  induction rest generalizing kw tok with
  | nil => left; simp [dirScan]
  | cons c r ih =>
    simp only [dirScan]
    split
    · split
      · right; exact ⟨_, rfl⟩
      · rcases ih (kw ++ [c]) (lookupDirective (kw ++ [c])) with h | h
        · right; exact ⟨_, h⟩
        · right; exact h
    · left; rfl

theorem rest_cons (s : Lx) (hne : s.rest ≠ []) : ∃ c r, s.rest = c :: r ∧ s.char = c := by
  cases h : s.rest with
  | nil => exact absurd h hne
  | cons c r => exact ⟨c, r, rfl, by simp [Lx.char, h]⟩

theorem illegalDesc_ok (s : Lx) : DescOk s (illegalDesc s) :=
  ⟨SameBytes.refl s, Nat.le_refl 1, by simp [illegalDesc]⟩

theorem wordDesc_ok (s : Lx) (hne : s.rest ≠ []) : DescOk s (wordDesc s) := by
  obtain ⟨c, r, hcr, hchar⟩ := rest_cons s hne
  unfold wordDesc
  split
  · rename_i hid
    refine ⟨SameBytes.refl s, ?_, lookupIdent_ne_eof _⟩
    show 1 ≤ (s.rest.takeWhile fun x => isIdentCh x || isNumberCh x).length
    rw [hcr]; apply takeWhile_pos
    rw [hchar] at hid; simp [hid]
  · split
    · rename_i hnum
      refine ⟨SameBytes.refl s, ?_, ?_⟩
      · show 1 ≤ (numScan s.rest).1
        rw [hcr]; apply numScan_pos
        rw [hchar] at hnum; exact hnum
      · show (if (numScan s.rest).2 = true then TT.INT else TT.FLOAT) ≠ TT.EOF
        split <;> simp
    · exact illegalDesc_ok s

theorem opDesc_ok (s : Lx) (hne : s.rest ≠ []) : DescOk s (opDesc s) := by
  unfold opDesc
  split
  · split <;> exact ⟨SameBytes.refl s, by simp, by simp⟩
  split
  · split <;> exact ⟨SameBytes.refl s, by simp, by simp⟩
  split
  · split <;> exact ⟨SameBytes.refl s, by simp, by simp⟩
  split
  · split <;> exact ⟨SameBytes.refl s, by simp, by simp⟩
  split
  · split <;> exact ⟨SameBytes.refl s, by simp, by simp⟩
  split
  · split <;> exact ⟨SameBytes.refl s, by simp, by simp⟩
  · exact wordDesc_ok s hne

theorem strDesc_ok (s : Lx) : DescOk s (strDesc s) := by
  refine ⟨SameBytes.refl s, ?_, by simp [strDesc]⟩
  simp only [strDesc]
  exact Nat.le_trans (by omega) (strSpan_pos _)

theorem bracketDesc_ok (s : Lx) (hne : s.rest ≠ []) : DescOk s (bracketDesc s) := by
  unfold bracketDesc
  split
  · exact ⟨⟨rfl, rfl, rfl, rfl, rfl⟩, Nat.le_refl 1, by simp⟩
  split
  · exact ⟨⟨rfl, rfl, rfl, rfl, rfl⟩, Nat.le_refl 1, by simp⟩
  split
  · refine ⟨?_, Nat.le_refl 1, by simp⟩
    show SameBytes (if s.isDirective = true then _ else s) s
    split <;> exact ⟨rfl, rfl, rfl, rfl, rfl⟩
  split
  · refine ⟨?_, Nat.le_refl 1, by simp⟩
    show SameBytes (if _ then _ else if _ then _ else s) s
    split
    · exact ⟨rfl, rfl, rfl, rfl, rfl⟩
    · split <;> exact ⟨rfl, rfl, rfl, rfl, rfl⟩
  split
  · exact strDesc_ok s
  · exact opDesc_ok s hne

/-- the descriptor computed by `embeddedCodeToken` -/
theorem codeDesc_ok (s : Lx) (hne : s.rest ≠ []) : DescOk s (codeDesc s) := by
  unfold codeDesc
  split
  · rename_i ty hst
    exact ⟨SameBytes.refl s, Nat.le_refl 1, simpleToken_ne_eof hst⟩
  · exact bracketDesc_ok s hne

/-- the descriptor computed by `directiveToken` when the current byte is '@' -/
theorem directiveDesc_ok (s : Lx) (hne : s.rest ≠ []) (hat : s.char = 64) :
    (SameBytes (directiveDesc s).st s ∨
      ((directiveDesc s).st.rest.length ≤ s.rest.length ∧ (directiveDesc s).ty = .ILLEGAL)) ∧
    1 ≤ (directiveDesc s).n ∧ (directiveDesc s).ty ≠ .EOF := by
  obtain ⟨c, r, hcr, hchar⟩ := rest_cons s hne
  have hlw : isLetterWord c = true := by rw [← hchar, hat]; decide
  unfold directiveDesc
  rw [if_neg (by simp [hat])]
  simp only
  split
  · refine ⟨Or.inr ⟨?_, rfl⟩, Nat.le_refl 1, by simp [illegalDesc]⟩
    show (s.tokenBegins.advance _).rest.length ≤ _
    rw [advance_rest, tokenBegins_rest]; simp
  · rename_i hill
    refine ⟨Or.inl (SameBytes.refl s), ?_, ?_⟩
    · show 1 ≤ (dirScan [] TT.ILLEGAL s.rest).1.length
      rw [hcr]; exact dirScan_pos c r hlw
    · show (dirScan [] TT.ILLEGAL s.rest).2 ≠ TT.EOF
      rcases dirScan_tok [] TT.ILLEGAL s.rest with h | ⟨k, h⟩
      · rw [h]; decide
      · rw [h]; exact lookupDirective_ne_eof k

end Tw

namespace Tw
open Lx

theorem advance_rest_le (s : Lx) (n : Nat) : (advance s n).rest.length ≤ s.rest.length := by
  rw [advance_rest]; simp

theorem readChar_rest_le (s : Lx) : (readChar s).rest.length ≤ s.rest.length := by
  rw [(readChar_pre_rest s).2]; simp

theorem skipWs_rest_le (s : Lx) : (skipWs s).rest.length ≤ s.rest.length := by
  unfold skipWs; split
  · exact advance_rest_le _ _
  · exact Nat.le_refl _

theorem skipComment_rest_le (s : Lx) : (skipComment s).rest.length ≤ s.rest.length := by
  unfold skipComment
  simp only
  have h2 : (readChar (readChar s)).rest.length ≤ s.rest.length :=
    Nat.le_trans (readChar_rest_le _) (readChar_rest_le _)
  split
  · exact Nat.le_trans (advance_rest_le _ _) h2
  · refine Nat.le_trans (advance_rest_le _ _) ?_
    exact Nat.le_trans (advance_rest_le _ _) h2

theorem drop_lt_of_le {α} (l1 l2 : List α) (n : Nat) (hle : l1.length ≤ l2.length) (hne : l2 ≠ []) (hn : 1 ≤ n) :
    (l1.drop n).length < l2.length := by
  have : 0 < l2.length := List.length_pos_iff.mpr hne
  simp; omega

theorem descEmit_progress (s : Lx) (d : TokDesc) (hne : s.rest ≠ []) (h : DescOk s d) :
    d.emit.2.rest.length < s.rest.length ∧ d.emit.1.ty = d.ty := by
  obtain ⟨⟨_, hrest, _, _, _⟩, hn, _⟩ := h
  refine ⟨?_, emit_ty _ _ _ _⟩
  rw [TokDesc.emit, emit_rest, hrest]
  exact drop_length_lt _ _ hn hne

theorem isEOF_iff (s : Lx) : s.isEOF = true ↔ s.rest = [] := by
  simp [Lx.isEOF]

theorem peek_cons (s : Lx) (c : Byte) (r : Bytes) (h : s.rest = c :: r) : s.peek = r.headD 0 := by
  simp [Lx.peek, h]

/-- in text mode, when the current bytes open neither "{{" nor a directive, `readHTML`
    consumes at least one byte -/
theorem htmlStart_pos (s : Lx) (hne : s.rest ≠ [])
    (hnb : ¬ (s.char == 123 && s.peek == 123) = true) (hnd : ¬ (isDirectiveToken s).1 = true) :
    1 ≤ (htmlScan s.prev [] 0 false s.rest).2.1 := by
  have hneof : ¬ s.isEOF = true := fun h => hne ((isEOF_iff s).mp h)
  obtain ⟨c, r, hcr, hchar⟩ := rest_cons s hne
  rw [hcr]
  apply htmlScan_pos
  have hpk : s.peek = r.headD 0 := peek_cons s c r hcr
  rw [hchar, hpk] at hnb
  have h1 : (c == 123 && r.headD 0 == 123) = false := by simpa using hnb
  have h2 : ((c == 64 && hasDirectivePrefix (c :: r)) && !(s.prev == 92)) = false := by
    unfold isDirectiveToken at hnd
    rw [hchar, hcr] at hnd
    by_cases h64 : c = 64
    · subst h64
      have : ¬ s.isEOF = true := hneof
      simp only [bne_self_eq_false, Bool.false_or, this, if_false] at hnd
      by_cases hp : hasDirectivePrefix (64 :: r) = true
      · simp only [hp, if_true] at hnd
        by_cases h92 : (s.prev == 92) = true
        · simp [h92]
        · simp [h92] at hnd
      · simp [hp]
    · simp [h64]
  rw [h1]
  simpa using h2

/-- after `skipWhitespace`: unless the input is exhausted (then the token is EOF and nothing is
    consumed), the step consumes at least one byte -/
theorem stepAt_progress (s : Lx) :
    (s.rest = [] → (∃ t, (stepAt s).1 = .tok t ∧ t.ty = .EOF) ∧ (stepAt s).2.rest = s.rest) ∧
    (s.rest ≠ [] → (stepAt s).2.rest.length < s.rest.length ∧ ∀ t, (stepAt s).1 = .tok t → t.ty ≠ .EOF) := by
  refine ⟨?_, ?_⟩
  · intro hnil
    have : s.isEOF = true := (isEOF_iff s).mpr hnil
    unfold stepAt
    rw [if_pos this]
    refine ⟨⟨_, rfl, ?_⟩, rfl⟩
    simp [newToken]
  · intro hne
    have hneof : ¬ s.isEOF = true := fun h => hne ((isEOF_iff s).mp h)
    obtain ⟨c, r, hcr, hchar⟩ := rest_cons s hne
    unfold stepAt
    rw [if_neg hneof]
    split
    · -- "{{" (possibly opening a comment)
      have hb : (bracesToken s .LBRACES [123, 123]).2.rest.length < s.rest.length := by
        rw [bracesToken, emit_rest]; exact drop_length_lt _ _ (by omega) hne
      split
      · exact ⟨Nat.lt_of_le_of_lt (skipComment_rest_le _) hb, fun t h => by cases h⟩
      · refine ⟨hb, fun t h => ?_⟩
        cases h; rw [bracesToken, emit_ty]; decide
    split
    · refine ⟨?_, fun t h => ?_⟩
      · rw [bracesToken, emit_rest]; exact drop_length_lt _ _ (by omega) hne
      · cases h; rw [bracesToken, emit_ty]; decide
    split
    · have := descEmit_progress s (codeDesc s) hne (codeDesc_ok s hne)
      refine ⟨this.1, fun t h => ?_⟩
      cases h
      show (codeDesc s).emit.1.ty ≠ _
      rw [this.2]; exact (codeDesc_ok s hne).2.2
    split
    · -- a directive
      rename_i hdir
      have hat : s.char = 64 := by
        unfold isDirectiveToken at hdir
        by_cases h64 : s.char = 64
        · exact h64
        · simp [h64] at hdir
      obtain ⟨hsame, hn, hty⟩ := directiveDesc_ok s hne hat
      have hlen : (directiveDesc s).st.rest.length ≤ s.rest.length := by
        rcases hsame with h | h
        · rw [h.2.1]; exact Nat.le_refl _
        · exact h.1
      have hrest : (directiveToken s).2.rest = (directiveDesc s).st.rest.drop (directiveDesc s).n := by
        unfold directiveToken
        simp only [TokDesc.emit]
        split <;> simp [emit_rest]
      have htok : (directiveToken s).1.ty = (directiveDesc s).ty := by
        unfold directiveToken
        simp only [TokDesc.emit]
        split <;> simp [emit_ty]
      refine ⟨?_, fun t h => ?_⟩
      · rw [hrest]; exact drop_lt_of_le _ _ _ hlen hne hn
      · cases h; rw [htok]; exact hty
    · -- text
      rename_i hnb _ _ hnd
      have hpos := htmlStart_pos s hne hnb hnd
      refine ⟨?_, fun t h => ?_⟩
      · show (htmlToken s).2.rest.length < _
        unfold htmlToken
        simp only [emit_rest]
        exact drop_length_lt _ _ hpos hne
      · cases h
        show (htmlToken s).1.ty ≠ _
        unfold htmlToken
        simp [emit_ty]

/-- one `NextToken` body: EOF, or strictly fewer bytes remain -/
theorem nextStep_progress (s : Lx) :
    ((∃ t, (nextStep s).1 = .tok t ∧ t.ty = .EOF) ∧ (nextStep s).2.rest.length ≤ s.rest.length) ∨
    ((nextStep s).2.rest.length < s.rest.length ∧ ∀ t, (nextStep s).1 = .tok t → t.ty ≠ .EOF) := by
  unfold nextStep
  have hws := skipWs_rest_le s
  obtain ⟨h1, h2⟩ := stepAt_progress (skipWs s)
  by_cases hnil : (skipWs s).rest = []
  · left
    obtain ⟨ht, hr⟩ := h1 hnil
    exact ⟨ht, by rw [hr]; exact hws⟩
  · right
    obtain ⟨hl, ht⟩ := h2 hnil
    exact ⟨Nat.lt_of_lt_of_le hl hws, ht⟩

/-- **lexer termination**: with fuel `rest.length + 1` (and any larger fuel) `lexAll` returns -/
theorem lexAll_terminates : ∀ (fuel : Nat) (s : Lx), s.rest.length + 1 ≤ fuel → (lexAll fuel s).isSome = true := by
  intro fuel
  induction fuel with
  | zero => intro s h; omega
  | succ fuel ih =>
    intro s h
    unfold lexAll
    rcases nextStep_progress s with ⟨⟨t, ht, hty⟩, _⟩ | ⟨hlt, hne⟩
    · cases hstep : nextStep s with
      | mk st s1 =>
        rw [hstep] at ht
        simp only at ht
        subst ht
        simp [hty]
    · cases hstep : nextStep s with
      | mk st s1 =>
        rw [hstep] at hlt hne
        simp only at hlt hne
        have hfuel : s1.rest.length + 1 ≤ fuel := by omega
        cases st with
        | again => simpa using ih s1 hfuel
        | tok t =>
          have : t.ty ≠ .EOF := hne t rfl
          simp only [beq_iff_eq, this, if_false]
          have := ih s1 hfuel
          cases hl : lexAll fuel s1 with
          | none => simp [hl] at this
          | some _ => simp

/-- `tokenize` is total: lexing returns for every input -/
theorem tokenize_total (inp : Bytes) : (tokenize inp).isSome = true := by
  unfold tokenize
  have := lexAll_terminates (lexFuel inp) (Lx.init inp) (by simp [lexFuel, Lx.init])
  cases h : lexAll (lexFuel inp) (Lx.init inp) with
  | none => simp [h] at this
  | some _ => simp

end Tw
