/-
  TwProofs.Lemmas.ParseComp — the parser on `@component("name", { key: "text" })`, from any parser
  state: the statement, the recorded use, the next allocation number.
-/
import TwProofs.Lemmas.ParseDir
import TwProofs.Lemmas.PrattFull
namespace Tw

/-- a string literal followed by a token that continues no expression -/
theorem parse_str_stop (g : Nat) (p : PS) (t3 t4 : Token) (rest : List Token) (hp : p.toks = t3 :: t4 :: rest)
    (h3 : t3.ty = .STR) (h4 : precedence t4.ty = LOWEST) :
    parseExpression (g + 2) LOWEST p = (.str t3 t3.lit, p) := by
  rw [parseExpression_succ]
  have hc := cur_of p t3 _ hp
  have hpb : prefixBody (parseExpression (g + 1)) (parseExprList (g + 1)) (parseObjLoop (g + 1)) p = some (.str t3 t3.lit, p) := by
    unfold prefixBody
    simp [hc, h3]
  rw [hpb]
  simp only []
  rw [prattLoop_succ]
  have : p.peekPrecedence = LOWEST := by simp [PS.peekPrecedence, peek_of p t3 t4 rest hp, h4]
  simp [this, LOWEST]

/-- `{ key: "text" }` followed by ")" -/
theorem parse_obj1 (g : Nat) (p : PS) (t5 t6 t7 t8 t9 t10 : Token) (rest : List Token)
    (hp : p.toks = t5 :: t6 :: t7 :: t8 :: t9 :: t10 :: rest) (h5 : t5.ty = .LBRACE) (h6 : t6.ty = .IDENT) (h7 : t7.ty = .COLON)
    (h8 : t8.ty = .STR) (h9 : t9.ty = .RBRACE) (h10 : t10.ty = .RPAREN) (hclean : Clean rest) :
    parseExpression (g + 4) LOWEST p = (.obj t5 [(t6.lit, .str t8 t8.lit)], { p with toks := t9 :: t10 :: rest }) := by
  have c10 : Clean (t10 :: rest) := Clean.cons (by rw [h10]; decide) hclean
  have c9 : Clean (t9 :: t10 :: rest) := Clean.cons (by rw [h9]; decide) c10
  have c8 : Clean (t8 :: t9 :: t10 :: rest) := Clean.cons (by rw [h8]; decide) c9
  have c7 : Clean (t7 :: t8 :: t9 :: t10 :: rest) := Clean.cons (by rw [h7]; decide) c8
  rw [parseExpression_succ]
  have hc := cur_of p t5 _ hp
  have hn1 : p.next = { p with toks := t6 :: t7 :: t8 :: t9 :: t10 :: rest } := next_toks p t5 t6 _ hp c7
  have hpb : prefixBody (parseExpression (g + 3)) (parseExprList (g + 3)) (parseObjLoop (g + 3)) p =
      some (parseObjLoop (g + 3) t5 [] { p with toks := t6 :: t7 :: t8 :: t9 :: t10 :: rest }) := by
    unfold prefixBody
    simp only [hc, h5, hn1]
    have : ({ p with toks := t6 :: t7 :: t8 :: t9 :: t10 :: rest } : PS).curIs .RBRACE = false := by simp [PS.curIs, PS.cur, h6]
    simp [this]
  rw [hpb]
  simp only []
  -- the object loop
  have hobj : parseObjLoop (g + 3) t5 [] ({ p with toks := t6 :: t7 :: t8 :: t9 :: t10 :: rest } : PS) =
      (.obj t5 [(t6.lit, .str t8 t8.lit)], { p with toks := t9 :: t10 :: rest }) := by
    rw [show g + 3 = (g + 2) + 1 from rfl, parseObjLoop_succ]
    have e1 : ({ p with toks := t6 :: t7 :: t8 :: t9 :: t10 :: rest } : PS).curIs .RBRACE = false := by simp [PS.curIs, PS.cur, h6]
    have e2 : ({ p with toks := t6 :: t7 :: t8 :: t9 :: t10 :: rest } : PS).curIs .EOF = false := by simp [PS.curIs, PS.cur, h6]
    have e3 : ({ p with toks := t6 :: t7 :: t8 :: t9 :: t10 :: rest } : PS).curIs .ILLEGAL = false := by simp [PS.curIs, PS.cur, h6]
    have e4 : ({ p with toks := t6 :: t7 :: t8 :: t9 :: t10 :: rest } : PS).peekIs .COLON = true := by simp [PS.peekIs, PS.peek, h7]
    simp only [e1, e2, e3, e4, Bool.false_eq_true, if_false, if_true, Bool.or_self]
    rw [next_toks { p with toks := t6 :: t7 :: t8 :: t9 :: t10 :: rest } t6 t7 _ rfl c8]
    rw [next_toks { p with toks := t7 :: t8 :: t9 :: t10 :: rest } t7 t8 _ rfl c9]
    rw [parse_str_stop g { p with toks := t8 :: t9 :: t10 :: rest } t8 t9 (t10 :: rest) rfl h8 (by rw [h9]; rfl)]
    have e5 : ({ p with toks := t8 :: t9 :: t10 :: rest } : PS).peekIs .RBRACE = true := by simp [PS.peekIs, PS.peek, h9]
    simp only [e5, if_true]
    rw [next_toks { p with toks := t8 :: t9 :: t10 :: rest } t8 t9 _ rfl c10]
    simp [mapSet, PS.cur]
  rw [hobj]
  simp only []
  rw [show g + 3 = (g + 2) + 1 from rfl, prattLoop_succ]
  have : ({ p with toks := t9 :: t10 :: rest } : PS).peekIs .RPAREN = true := by simp [PS.peekIs, PS.peek, h10]
  simp [this]

/-- the name a component file is looked up under: `~x` is `components/x` -/
def compName (n : Bytes) : Bytes := if n.headD 0 == 126 then b "components" ++ [47] ++ n.drop 1 else n

/-- no `@slot` follows -/
def NoSlot (l : List Token) : Prop := ∀ x ∈ l, x.ty ≠ .SLOT

theorem noteIllegal_toks (q : PS) (n : Token) : (q.noteIllegal n).toks = q.toks := by
  unfold PS.noteIllegal
  split <;> rfl

theorem noteIllegal_peek (q : PS) (n : Token) : (q.noteIllegal n).peek = q.peek := by
  unfold PS.peek
  rw [noteIllegal_toks]

/-- what comes after the next token is one of the tokens after the current one -/
theorem next_peek_mem (p : PS) (t t2 : Token) (r2 : List Token) (hp : p.toks = t :: t2 :: r2) : p.next.peek ∈ t2 :: r2 := by
  unfold PS.next
  rw [hp]
  cases r2 with
  | nil => simp [PS.peek]
  | cons n r3 =>
    simp only []
    rw [noteIllegal_peek]
    simp [PS.peek]

/-- without a `@slot` ahead, a component use has no slots -/
theorem componentSlots_none (pslots : List SlotUse → PS → List SlotUse × PS) (p : PS) (t : Token) (rest : List Token)
    (hp : p.toks = t :: rest) (hne : rest ≠ []) (hns : NoSlot rest) : componentSlots pslots p = ([], p) := by
  cases rest with
  | nil => exact absurd rfl hne
  | cons t2 r2 =>
    have h1 : p.peekIs .SLOT = false := by
      have := hns t2 (by simp)
      simpa [PS.peekIs, peek_of p t t2 r2 hp] using this
    have h2 : p.next.peekIs .SLOT = false := by
      have := hns _ (next_peek_mem p t t2 r2 hp)
      simpa [PS.peekIs] using this
    unfold componentSlots
    simp only [h1, h2, Bool.false_eq_true, if_false]
    split <;> rfl

/-- `@component("name", { key: "text" })` with no `@slot` after it -/
theorem parse_component_stmt (g : Nat) (p : PS) (t1 t2 t3 t4 t5 t6 t7 t8 t9 t10 : Token) (rest : List Token)
    (hp : p.toks = t1 :: t2 :: t3 :: t4 :: t5 :: t6 :: t7 :: t8 :: t9 :: t10 :: rest)
    (h1 : t1.ty = .COMPONENT) (h2 : t2.ty = .LPAREN) (h3 : t3.ty = .STR) (h4 : t4.ty = .COMMA) (h5 : t5.ty = .LBRACE)
    (h6 : t6.ty = .IDENT) (h7 : t7.ty = .COLON) (h8 : t8.ty = .STR) (h9 : t9.ty = .RBRACE) (h10 : t10.ty = .RPAREN)
    (hclean : Clean rest) (hne : t3.lit ≠ []) (hrne : rest ≠ []) (hns : NoSlot rest) :
    parseStatement (g + 5) p =
      (.component t1 (compName t3.lit) (some [(t6.lit, .str t8 t8.lit)]) p.nextId,
        { p with toks := t10 :: rest,
                 components := p.components ++ [{ tok := t1, name := compName t3.lit, cid := p.nextId, slots := [] }],
                 nextId := p.nextId + 1 }) := by
  have c10 : Clean (t10 :: rest) := Clean.cons (by rw [h10]; decide) hclean
  have c9 : Clean (t9 :: t10 :: rest) := Clean.cons (by rw [h9]; decide) c10
  have c8 : Clean (t8 :: t9 :: t10 :: rest) := Clean.cons (by rw [h8]; decide) c9
  have c7 : Clean (t7 :: t8 :: t9 :: t10 :: rest) := Clean.cons (by rw [h7]; decide) c8
  have c6 : Clean (t6 :: t7 :: t8 :: t9 :: t10 :: rest) := Clean.cons (by rw [h6]; decide) c7
  have c5 : Clean (t5 :: t6 :: t7 :: t8 :: t9 :: t10 :: rest) := Clean.cons (by rw [h5]; decide) c6
  have c4 : Clean (t4 :: t5 :: t6 :: t7 :: t8 :: t9 :: t10 :: rest) := Clean.cons (by rw [h4]; decide) c5
  have c3 : Clean (t3 :: t4 :: t5 :: t6 :: t7 :: t8 :: t9 :: t10 :: rest) := Clean.cons (by rw [h3]; decide) c4
  show statementBody (parseExpression (g + 4)) (parseExprList (g + 4)) (parseBody (g + 4)) (parseIfTail (g + 4)) (parseSlots (g + 4)) p = _
  have hc : p.cur = t1 := cur_of p t1 _ hp
  unfold statementBody
  simp only [hc, h1]
  unfold parseComponentStmt
  have e1 := expectPeek_ok p .LPAREN (by simp [PS.peekIs, peek_of p t1 t2 _ hp, h2])
  rw [e1, next_toks p t1 t2 _ hp c3]
  simp only [Bool.not_true, Bool.false_eq_true, if_false]
  rw [next_toks { p with toks := t2 :: t3 :: t4 :: t5 :: t6 :: t7 :: t8 :: t9 :: t10 :: rest } t2 t3 _ rfl c4]
  -- the name
  have hal : aliasPath ({ p with toks := t3 :: t4 :: t5 :: t6 :: t7 :: t8 :: t9 :: t10 :: rest } : PS) "components" =
      (compName t3.lit, { p with toks := t3 :: t4 :: t5 :: t6 :: t7 :: t8 :: t9 :: t10 :: rest }) := by
    unfold aliasPath
    have hcur : ({ p with toks := t3 :: t4 :: t5 :: t6 :: t7 :: t8 :: t9 :: t10 :: rest } : PS).cur = t3 := rfl
    simp only [hcur]
    have : t3.lit.isEmpty = false := by cases h : t3.lit with
      | nil => exact absurd h hne
      | cons a r => rfl
    simp only [this, Bool.false_eq_true, if_false]
    unfold compName
    split <;> rfl
  rw [hal]
  simp only []
  -- the argument
  have harg : componentArg (parseExpression (g + 4)) ({ p with toks := t3 :: t4 :: t5 :: t6 :: t7 :: t8 :: t9 :: t10 :: rest } : PS) =
      (some (some [(t6.lit, .str t8 t8.lit)]), { p with toks := t9 :: t10 :: rest }) := by
    unfold componentArg
    have hpk : ({ p with toks := t3 :: t4 :: t5 :: t6 :: t7 :: t8 :: t9 :: t10 :: rest } : PS).peekIs .COMMA = true := by
      simp [PS.peekIs, PS.peek, h4]
    simp only [hpk, if_true]
    rw [next_toks { p with toks := t3 :: t4 :: t5 :: t6 :: t7 :: t8 :: t9 :: t10 :: rest } t3 t4 _ rfl c5]
    rw [next_toks { p with toks := t4 :: t5 :: t6 :: t7 :: t8 :: t9 :: t10 :: rest } t4 t5 _ rfl c6]
    rw [parse_obj1 g { p with toks := t5 :: t6 :: t7 :: t8 :: t9 :: t10 :: rest } t5 t6 t7 t8 t9 t10 rest rfl h5 h6 h7 h8 h9 h10 hclean]
  rw [harg]
  simp only []
  have e2 := expectPeek_ok ({ p with toks := t9 :: t10 :: rest } : PS) .RPAREN (by simp [PS.peekIs, PS.peek, h10])
  rw [e2, next_toks { p with toks := t9 :: t10 :: rest } t9 t10 rest rfl hclean]
  simp only [Bool.not_true, Bool.false_eq_true, if_false]
  rw [componentSlots_none _ { p with toks := t10 :: rest } t10 rest rfl hrne hns]
  simp only [hc]

/-- the statement loop over a component use: the cursor is on ")" afterwards -/
theorem loop_comp (f : Nat) (acc : List Stmt) (p p1 : PS) (st : Stmt) (tf t10 tn : Token) (r rest : List Token)
    (hp : p.toks = tf :: r) (hf : tf.ty ≠ .EOF)
    (hst : parseStatement (f + 1) p = (st, p1)) (hbad : st.isBad = false)
    (hp1 : p1.toks = t10 :: tn :: rest) (h10 : t10.ty = .RPAREN) (hclean : Clean rest) :
    parseProgramLoop (f + 2) acc p = parseProgramLoop (f + 1) (acc ++ [st]) { p1 with toks := tn :: rest } := by
  rw [show f + 2 = (f + 1) + 1 from rfl, parseProgramLoop]
  have e0 : p.curIs .EOF = false := by rw [curIs_of p tf r hp]; simpa using hf
  simp only [e0, Bool.false_eq_true, if_false, hst]
  have e1 : p1.curIs .ILLEGAL = false := by rw [curIs_of p1 t10 _ hp1]; simp [h10]
  simp only [e1, Bool.false_eq_true, if_false, hbad]
  rw [next_toks p1 t10 tn _ hp1 hclean]

end Tw
