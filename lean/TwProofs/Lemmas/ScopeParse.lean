/-
  TwProofs.Lemmas.ScopeParse — the parser on `{{ name = "text" }}` and on `@if(name) body @end` whose
  body is text, prints and assignments (C04).
-/
import TwProofs.Lemmas.ScopeLex
import TwProofs.Lemmas.TextLayout
namespace Tw

/-- a string literal in front of "}}" is the whole expression -/
theorem parse_str_rbraces (g : Nat) (t4 t5 : Token) (rest : List Token) (h4 : t4.ty = .STR) (h5 : t5.ty = .RBRACES) :
    parseExpression (g + 2) LOWEST ({ toks := t4 :: t5 :: rest } : PS) = (.str t4 t4.lit, { toks := t4 :: t5 :: rest }) := by
  rw [parseExpression_succ]
  have hp : prefixBody (parseExpression (g + 1)) (parseExprList (g + 1)) (parseObjLoop (g + 1))
      ({ toks := t4 :: t5 :: rest } : PS) = some (.str t4 t4.lit, { toks := t4 :: t5 :: rest }) := by
    unfold prefixBody
    simp [PS.cur, h4]
  rw [hp]
  simp only []
  rw [prattLoop_succ]
  have : ({ toks := t4 :: t5 :: rest } : PS).peekIs .RBRACES = true := by simp [PS.peekIs, PS.peek, h5]
  simp [this]

/-- `{{ name = "text" }}` as a statement: the cursor stays on the literal -/
theorem parse_assign_stmt (g : Nat) (t1 t2 t3 t4 t5 : Token) (tail : List Token) (h1 : t1.ty = .LBRACES) (h2 : t2.ty = .IDENT)
    (h3 : t3.ty = .ASSIGN) (h4 : t4.ty = .STR) (h5 : t5.ty = .RBRACES) (hclean : ∀ x ∈ tail, x.ty ≠ .ILLEGAL) :
    parseStatement (g + 3) ({ toks := t1 :: t2 :: t3 :: t4 :: t5 :: tail } : PS) =
      (.assign t2 t2.lit (.str t4 t4.lit), { toks := t4 :: t5 :: tail }) := by
  have c5 := noill_cons (t := t5) (by rw [h5]; decide) hclean
  have c4 := noill_cons (t := t4) (by rw [h4]; decide) c5
  have c3 := noill_cons (t := t3) (by rw [h3]; decide) c4
  have c2 := noill_cons (t := t2) (by rw [h2]; decide) c3
  have nx1 : ({ toks := t1 :: t2 :: t3 :: t4 :: t5 :: tail } : PS).next = { toks := t2 :: t3 :: t4 :: t5 :: tail } := ps_next_clean t1 t2 _ c2
  have nx2 : ({ toks := t2 :: t3 :: t4 :: t5 :: tail } : PS).next = { toks := t3 :: t4 :: t5 :: tail } := ps_next_clean t2 t3 _ c3
  have nx3 : ({ toks := t3 :: t4 :: t5 :: tail } : PS).next = { toks := t4 :: t5 :: tail } := ps_next_clean t3 t4 _ c4
  show statementBody (parseExpression (g + 2)) (parseExprList (g + 2)) (parseBody (g + 2)) (parseIfTail (g + 2)) (parseSlots (g + 2))
    ({ toks := t1 :: t2 :: t3 :: t4 :: t5 :: tail } : PS) = _
  have hc : ({ toks := t1 :: t2 :: t3 :: t4 :: t5 :: tail } : PS).cur.ty = .LBRACES := by simp [PS.cur, h1]
  unfold statementBody
  simp only [hc]
  unfold parseEmbeddedCode
  simp only [nx1]
  have c1 : ({ toks := t2 :: t3 :: t4 :: t5 :: tail } : PS).curIs .RBRACES = false := by simp [PS.curIs, PS.cur, h2]
  have c2' : ({ toks := t2 :: t3 :: t4 :: t5 :: tail } : PS).peekIs .ASSIGN = true := by simp [PS.peekIs, PS.peek, h3]
  have c0 : ({ toks := t2 :: t3 :: t4 :: t5 :: tail } : PS).cur = t2 := rfl
  have ep := expectPeek_ok ({ toks := t2 :: t3 :: t4 :: t5 :: tail } : PS) .ASSIGN c2'
  have c3' : ({ toks := t4 :: t5 :: tail } : PS).curIs .RBRACES = false := by simp [PS.curIs, PS.cur, h4]
  simp only [c1, c0, h2, c2', beq_self_eq_true, Bool.and_self, Bool.false_eq_true, if_false, if_true, ep, nx2, nx3, c3',
    parse_str_rbraces g t4 t5 tail h4 h5]

/-- "}}" starts no statement -/
theorem parse_rbraces_stmt (g : Nat) (t : Token) (r : List Token) (h : t.ty = .RBRACES) :
    parseStatement (g + 1) ({ toks := t :: r } : PS) = (.bad, { toks := t :: r }) := by
  show statementBody (parseExpression g) (parseExprList g) (parseBody g) (parseIfTail g) (parseSlots g) _ = _
  have hc : ({ toks := t :: r } : PS).cur.ty = .RBRACES := by simp [PS.cur, h]
  unfold statementBody
  simp only [hc]

/-- the parsed statements match the written body -/
inductive AMatch : List Stmt → List AItem → Prop
  | nil : AMatch [] []
  | text (t : Token) (txt : Bytes) (ss : List Stmt) (r : List AItem) : t.lit = txt → AMatch ss r → AMatch (.html t :: ss) (.text txt :: r)
  | print (t t2 : Token) (g1 n g2 : Bytes) (ss : List Stmt) (r : List AItem) : AMatch ss r →
      AMatch (.expr t (.ident t2 n) :: ss) (.print g1 n g2 :: r)
  | assign (t tv : Token) (g1 n g2 g3 : Bytes) (q : Byte) (v g4 : Bytes) (ss : List Stmt) (r : List AItem) : AMatch ss r →
      AMatch (.assign t n (.str tv v) :: ss) (.assign g1 n g2 g3 q v g4 :: r)

theorem akeys_clean : ∀ (body : List AItem) (x : TT × Bytes), x ∈ akeys body →
    x.1 ≠ .ILLEGAL ∧ x.1 ≠ .EOF ∧ x.1 ≠ .END ∧ x.1 ≠ .ELSE ∧ x.1 ≠ .ELSE_IF
  | [], x, h => by simp [akeys] at h
  | .text _ :: r, x, h => by
    simp only [akeys, List.mem_cons] at h
    rcases h with h | h
    · rw [h]; exact ⟨by simp, by simp, by simp, by simp, by simp⟩
    · exact akeys_clean r x h
  | .print _ _ _ :: r, x, h => by
    simp only [akeys, List.mem_cons] at h
    rcases h with h | h | h | h
    · rw [h]; exact ⟨by simp, by simp, by simp, by simp, by simp⟩
    · rw [h]; exact ⟨by simp, by simp, by simp, by simp, by simp⟩
    · rw [h]; exact ⟨by simp, by simp, by simp, by simp, by simp⟩
    · exact akeys_clean r x h
  | .assign _ _ _ _ _ _ _ :: r, x, h => by
    simp only [akeys, assignKeys, List.cons_append, List.nil_append, List.mem_cons] at h
    rcases h with h | h | h | h | h | h
    · rw [h]; exact ⟨by simp, by simp, by simp, by simp, by simp⟩
    · rw [h]; exact ⟨by simp, by simp, by simp, by simp, by simp⟩
    · rw [h]; exact ⟨by simp, by simp, by simp, by simp, by simp⟩
    · rw [h]; exact ⟨by simp, by simp, by simp, by simp, by simp⟩
    · rw [h]; exact ⟨by simp, by simp, by simp, by simp, by simp⟩
    · exact akeys_clean r x h

theorem akeys_ne_nil : ∀ body : List AItem, body ≠ [] → akeys body ≠ []
  | [], h => absurd rfl h
  | .text _ :: _, _ => by simp [akeys]
  | .print _ _ _ :: _, _ => by simp [akeys]
  | .assign _ _ _ _ _ _ _ :: _, _ => by simp [akeys, assignKeys]

/-- one turn of the block loop, given what the statement parser returns -/
theorem block_turn (f : Nat) (acc : List Stmt) (p p1 : PS) (s : Stmt) (h1 : p.curIs .END = false) (h2 : p.curIs .EOF = false)
    (h3 : p.curIs .ILLEGAL = false) (hst : parseStatement f p = (s, p1)) :
    parseBlockStmt (f + 1) acc p =
      if (p1.peekIs .ELSE || p1.peekIs .ELSE_IF || p1.peekIs .END) = true then ((if s.isBad then acc else acc ++ [s]), p1)
      else parseBlockStmt f (if s.isBad then acc else acc ++ [s]) p1.next := by
  show blockStmtBody (parseStatement f) (parseBlockStmt f) acc p = _
  unfold blockStmtBody
  simp only [h1, h2, h3, Bool.false_eq_true, if_false, hst]

/-- the rest of the block after an item: either `@end` follows (the block is over, the cursor stays)
    or the next item's first token does (the loop goes on behind the cursor) -/
theorem peek_block_end2 (last tEnd : Token) (rest : List Token) (hEnd : tEnd.ty = .END ∨ tEnd.ty = .ELSE) :
    (({ toks := last :: tEnd :: rest } : PS).peekIs .ELSE || ({ toks := last :: tEnd :: rest } : PS).peekIs .ELSE_IF ||
      ({ toks := last :: tEnd :: rest } : PS).peekIs .END) = true := by
  rcases hEnd with h | h <;> simp [PS.peekIs, PS.peek, h]

theorem parseBlock_aitems (tEnd : Token) (rest : List Token) (hEnd : tEnd.ty = .END ∨ tEnd.ty = .ELSE) (hrest : ∀ x ∈ rest, x.ty ≠ .ILLEGAL) :
    ∀ (body : List AItem) (bt : List Token) (acc : List Stmt) (f : Nat), body ≠ [] → bt.map key = akeys body → 2 * body.length + 5 ≤ f →
      ∃ stmts last, parseBlockStmt f acc ({ toks := bt ++ tEnd :: rest } : PS) = (acc ++ stmts, { toks := last :: tEnd :: rest }) ∧
        AMatch stmts body := by
  intro body
  induction body with
  | nil => intro _ _ _ h; exact absurd rfl h
  | cons it r ih =>
    intro bt acc f _ hk hf
    -- the tokens behind this item
    have hcl : ∀ (bt' : List Token), bt'.map key = akeys r → ∀ x ∈ bt' ++ tEnd :: rest, x.ty ≠ .ILLEGAL := by
      intro bt' hkr x hx
      rcases List.mem_append.mp hx with h | h
      · have : key x ∈ akeys r := by rw [← hkr]; exact List.mem_map_of_mem h
        exact (akeys_clean r _ this).1
      · rcases List.mem_cons.mp h with h | h
        · rw [h]; rcases hEnd with e | e <;> rw [e] <;> decide
        · exact hrest x h
    -- what happens behind the last token `last` of this item: stop at `@end` or go on with the rest
    have hgo : ∀ (last : Token) (bt' : List Token) (acc' : List Stmt) (g : Nat), bt'.map key = akeys r → 2 * r.length + 5 ≤ g →
        ∃ stmts last', (if (({ toks := last :: (bt' ++ tEnd :: rest) } : PS).peekIs .ELSE || ({ toks := last :: (bt' ++ tEnd :: rest) } : PS).peekIs .ELSE_IF ||
              ({ toks := last :: (bt' ++ tEnd :: rest) } : PS).peekIs .END) = true then (acc', ({ toks := last :: (bt' ++ tEnd :: rest) } : PS))
            else parseBlockStmt g acc' ({ toks := last :: (bt' ++ tEnd :: rest) } : PS).next) = (acc' ++ stmts, { toks := last' :: tEnd :: rest }) ∧
          AMatch stmts r := by
      intro last bt' acc' g hkr hg
      cases r with
      | nil =>
        have hb0 : bt' = [] := by simpa [akeys] using hkr
        subst hb0
        refine ⟨[], last, ?_, .nil⟩
        simp only [List.nil_append]
        rw [peek_block_end2 last tEnd rest hEnd]
        simp
      | cons it' r' =>
        cases bt' with
        | nil => exact absurd hkr.symm (by simpa using akeys_ne_nil (it' :: r') (by simp))
        | cons t' bt'' =>
          have hk' : key t' ∈ akeys (it' :: r') := by rw [← hkr]; simp
          obtain ⟨_, _, e1, e2, e3⟩ := akeys_clean (it' :: r') _ hk'
          obtain ⟨stmts, last', q1, q2⟩ := ih (t' :: bt'') acc' g (by simp) hkr hg
          refine ⟨stmts, last', ?_, q2⟩
          simp only [List.cons_append]
          rw [peek_block_goes_on last t' _ e1 e2 e3]
          simp only [Bool.false_eq_true, if_false]
          rw [ps_next_any last t' _ (fun x hx => hcl (t' :: bt'') hkr x (by simp only [List.cons_append]; exact List.mem_cons_of_mem _ hx))]
          simp only [List.cons_append] at q1
          exact q1
    cases it with
    | text txt =>
      cases bt with
      | nil => simp [akeys] at hk
      | cons t bt' =>
        simp only [akeys, List.map_cons, List.cons.injEq] at hk
        obtain ⟨hkt, hkr⟩ := hk
        have ht : t.ty = .HTML := congrArg Prod.fst hkt
        have hlit : t.lit = txt := congrArg Prod.snd hkt
        obtain ⟨g, rfl⟩ : ∃ g, f = g + 2 := ⟨f - 2, by simp at hf; omega⟩
        have hs : parseStatement (g + 1) ({ toks := t :: (bt' ++ tEnd :: rest) } : PS) = (.html t, { toks := t :: (bt' ++ tEnd :: rest) }) := by
          show statementBody (parseExpression g) (parseExprList g) (parseBody g) (parseIfTail g) (parseSlots g) _ = _
          simp [statementBody, PS.cur, ht]
        have ck : ∀ ty : TT, ty ≠ .HTML → ({ toks := t :: (bt' ++ tEnd :: rest) } : PS).curIs ty = false := by
          intro ty hty; simp [PS.curIs, PS.cur, ht]; exact fun e => hty e.symm
        obtain ⟨stmts, last', q1, q2⟩ := hgo t bt' (acc ++ [.html t]) (g + 1) hkr (by simp at hf; omega)
        refine ⟨.html t :: stmts, last', ?_, .text t txt stmts r hlit q2⟩
        simp only [List.cons_append]
        rw [block_turn (g + 1) acc _ _ _ (ck .END (by decide)) (ck .EOF (by decide)) (ck .ILLEGAL (by decide)) hs]
        simp only [Stmt.isBad, Bool.false_eq_true, if_false]
        rw [q1]; simp
    | print g1 n g2 =>
      match bt, hk with
      | [], hk => simp [akeys] at hk
      | [_], hk => simp [akeys] at hk
      | [_, _], hk => simp [akeys] at hk
      | t1 :: t2 :: t3 :: bt', hk =>
        simp only [akeys, List.map_cons, List.cons.injEq] at hk
        obtain ⟨hk1, hk2, hk3, hkr⟩ := hk
        have ty1 : t1.ty = .LBRACES := congrArg Prod.fst hk1
        have ty2 : t2.ty = .IDENT := congrArg Prod.fst hk2
        have lit2 : t2.lit = n := congrArg Prod.snd hk2
        have ty3 : t3.ty = .RBRACES := congrArg Prod.fst hk3
        obtain ⟨g, rfl⟩ : ∃ g, f = g + 4 := ⟨f - 4, by simp at hf; omega⟩
        have hs := parse_print_stmt g t1 t2 t3 (bt' ++ tEnd :: rest) ty1 ty2 ty3 (hcl bt' hkr)
        have ck : ∀ ty : TT, ty ≠ .LBRACES → ({ toks := t1 :: t2 :: t3 :: (bt' ++ tEnd :: rest) } : PS).curIs ty = false := by
          intro ty hty; simp [PS.curIs, PS.cur, ty1]; exact fun e => hty e.symm
        obtain ⟨stmts, last', q1, q2⟩ := hgo t3 bt' (acc ++ [.expr t2 (.ident t2 t2.lit)]) (g + 3) hkr (by simp at hf; omega)
        refine ⟨.expr t2 (.ident t2 t2.lit) :: stmts, last', ?_, by rw [lit2]; exact .print t2 t2 g1 n g2 stmts r q2⟩
        simp only [List.cons_append]
        rw [block_turn (g + 3) acc _ _ _ (ck .END (by decide)) (ck .EOF (by decide)) (ck .ILLEGAL (by decide)) hs]
        simp only [Stmt.isBad, Bool.false_eq_true, if_false]
        rw [q1]; simp
    | assign g1 n g2 g3 q v g4 =>
      match bt, hk with
      | [], hk => simp [akeys, assignKeys] at hk
      | [_], hk => simp [akeys, assignKeys] at hk
      | [_, _], hk => simp [akeys, assignKeys] at hk
      | [_, _, _], hk => simp [akeys, assignKeys] at hk
      | [_, _, _, _], hk => simp [akeys, assignKeys] at hk
      | t1 :: t2 :: t3 :: t4 :: t5 :: bt', hk =>
        simp only [akeys, assignKeys, List.cons_append, List.nil_append, List.map_cons, List.cons.injEq] at hk
        obtain ⟨hk1, hk2, hk3, hk4, hk5, hkr⟩ := hk
        have ty1 : t1.ty = .LBRACES := congrArg Prod.fst hk1
        have ty2 : t2.ty = .IDENT := congrArg Prod.fst hk2
        have lit2 : t2.lit = n := congrArg Prod.snd hk2
        have ty3 : t3.ty = .ASSIGN := congrArg Prod.fst hk3
        have ty4 : t4.ty = .STR := congrArg Prod.fst hk4
        have lit4 : t4.lit = v := congrArg Prod.snd hk4
        have ty5 : t5.ty = .RBRACES := congrArg Prod.fst hk5
        obtain ⟨g, rfl⟩ : ∃ g, f = g + 5 := ⟨f - 5, by simp at hf; omega⟩
        have hs := parse_assign_stmt (g + 1) t1 t2 t3 t4 t5 (bt' ++ tEnd :: rest) ty1 ty2 ty3 ty4 ty5 (hcl bt' hkr)
        have ck : ∀ ty : TT, ty ≠ .LBRACES → ({ toks := t1 :: t2 :: t3 :: t4 :: t5 :: (bt' ++ tEnd :: rest) } : PS).curIs ty = false := by
          intro ty hty; simp [PS.curIs, PS.cur, ty1]; exact fun e => hty e.symm
        have ck5 : ∀ ty : TT, ty ≠ .RBRACES → ({ toks := t5 :: (bt' ++ tEnd :: rest) } : PS).curIs ty = false := by
          intro ty hty; simp [PS.curIs, PS.cur, ty5]; exact fun e => hty e.symm
        obtain ⟨stmts, last', q1, q2⟩ := hgo t5 bt' (acc ++ [.assign t2 t2.lit (.str t4 t4.lit)]) (g + 3) hkr (by simp at hf; omega)
        refine ⟨.assign t2 t2.lit (.str t4 t4.lit) :: stmts, last', ?_, by rw [lit2, lit4]; exact .assign t2 t4 g1 n g2 g3 q v g4 stmts r q2⟩
        simp only [List.cons_append]
        rw [show g + 5 = (g + 4) + 1 from rfl, block_turn (g + 4) acc _ _ _ (ck .END (by decide)) (ck .EOF (by decide)) (ck .ILLEGAL (by decide)) hs]
        have pk : (({ toks := t4 :: t5 :: (bt' ++ tEnd :: rest) } : PS).peekIs .ELSE || ({ toks := t4 :: t5 :: (bt' ++ tEnd :: rest) } : PS).peekIs .ELSE_IF ||
            ({ toks := t4 :: t5 :: (bt' ++ tEnd :: rest) } : PS).peekIs .END) = false := by simp [PS.peekIs, PS.peek, ty5]
        simp only [pk, Stmt.isBad, Bool.false_eq_true, if_false]
        rw [ps_next_any t4 t5 _ (hcl bt' hkr)]
        rw [show g + 4 = (g + 3) + 1 from rfl, block_turn (g + 3) _ _ _ _ (ck5 .END (by decide)) (ck5 .EOF (by decide)) (ck5 .ILLEGAL (by decide))
          (parse_rbraces_stmt (g + 2) t5 _ ty5)]
        simp only [Stmt.isBad, if_true]
        rw [q1]; simp

/-- **`@if(c) body @end` as a statement** -/
theorem parse_ifb_stmt (g : Nat) (t1 t2 t3 t4 tEnd : Token) (body : List AItem) (bt rest : List Token)
    (h1 : t1.ty = .IF) (h2 : t2.ty = .LPAREN) (h3 : t3.ty = .IDENT) (h4 : t4.ty = .RPAREN) (hEnd : tEnd.ty = .END)
    (hb : bt.map key = akeys body) (hrest : ∀ x ∈ rest, x.ty ≠ .ILLEGAL) :
    ∃ stmts, parseStatement (g + 2 * body.length + 8) ({ toks := t1 :: t2 :: t3 :: t4 :: (bt ++ tEnd :: rest) } : PS) =
        (.ifS t1 (.ident t3 t3.lit) stmts [] none, { toks := tEnd :: rest }) ∧ AMatch stmts body := by
  have cE : ∀ x ∈ tEnd :: rest, x.ty ≠ .ILLEGAL := noill_cons (by rw [hEnd]; decide) hrest
  have cB : ∀ x ∈ bt ++ tEnd :: rest, x.ty ≠ .ILLEGAL := by
    intro x hx
    rcases List.mem_append.mp hx with h | h
    · have : key x ∈ akeys body := by rw [← hb]; exact List.mem_map_of_mem h
      exact (akeys_clean body _ this).1
    · exact cE x h
  have c4 := noill_cons (t := t4) (by rw [h4]; decide) cB
  have c3 := noill_cons (t := t3) (by rw [h3]; decide) c4
  have c2 := noill_cons (t := t2) (by rw [h2]; decide) c3
  -- the block, and the state after it
  have hblock : ∃ stmts last, parseBody (g + 2 * body.length + 7) ({ toks := t4 :: (bt ++ tEnd :: rest) } : PS) =
      (stmts, ({ toks := last :: tEnd :: rest } : PS)) ∧ AMatch stmts body := by
    show ∃ stmts last, bodyBody (parseBlockStmt (g + 2 * body.length + 6)) ({ toks := t4 :: (bt ++ tEnd :: rest) } : PS) = _ ∧ _
    unfold bodyBody
    cases body with
    | nil =>
      have : bt = [] := by simpa [akeys] using hb
      subst this
      refine ⟨[], t4, ?_, .nil⟩
      simp only [List.nil_append]
      rw [peek_block_end t4 tEnd rest hEnd]
      simp
    | cons it r =>
      cases bt with
      | nil => exact absurd hb.symm (by simpa using akeys_ne_nil (it :: r) (by simp))
      | cons t' bt' =>
        have hk' : key t' ∈ akeys (it :: r) := by rw [← hb]; simp
        obtain ⟨_, _, e1, e2, e3⟩ := akeys_clean (it :: r) _ hk'
        obtain ⟨stmts, last, q1, q2⟩ := parseBlock_aitems tEnd rest (Or.inl hEnd) hrest (it :: r) (t' :: bt') [] (g + 2 * (it :: r).length + 6)
          (by simp) hb (by omega)
        refine ⟨stmts, last, ?_, q2⟩
        simp only [List.cons_append]
        rw [peek_block_goes_on t4 t' _ e1 e2 e3]
        simp only [Bool.false_eq_true, if_false]
        rw [ps_next_any t4 t' _ (fun x hx => cB x (by simp only [List.cons_append]; exact List.mem_cons_of_mem _ hx))]
        simp only [List.cons_append, List.nil_append] at q1
        rw [q1]
  obtain ⟨stmts, last, hbl, hs1⟩ := hblock
  refine ⟨stmts, ?_, hs1⟩
  show statementBody (parseExpression (g + 2 * body.length + 7)) (parseExprList (g + 2 * body.length + 7)) (parseBody (g + 2 * body.length + 7))
    (parseIfTail (g + 2 * body.length + 7)) (parseSlots (g + 2 * body.length + 7)) _ = _
  have hc : ({ toks := t1 :: t2 :: t3 :: t4 :: (bt ++ tEnd :: rest) } : PS).cur.ty = .IF := by simp [PS.cur, h1]
  unfold statementBody
  simp only [hc]
  unfold parseIfStmt
  have e1 := expectPeek_ok ({ toks := t1 :: t2 :: t3 :: t4 :: (bt ++ tEnd :: rest) } : PS) .LPAREN (by simp [PS.peekIs, PS.peek, h2])
  rw [e1, ps_next_clean t1 t2 _ c2]
  simp only [Bool.not_true, Bool.false_eq_true, if_false, ps_next_clean t2 t3 _ c3]
  rw [show g + 2 * body.length + 7 = (g + 2 * body.length + 5) + 2 from rfl, parse_ident_rparen (g + 2 * body.length + 5) t3 t4 _ h3 h4]
  simp only []
  have e2 := expectPeek_ok ({ toks := t3 :: t4 :: (bt ++ tEnd :: rest) } : PS) .RPAREN (by simp [PS.peekIs, PS.peek, h4])
  rw [e2, ps_next_clean t3 t4 _ c4]
  simp only [Bool.not_true, Bool.false_eq_true, if_false]
  rw [show g + 2 * body.length + 5 + 2 = g + 2 * body.length + 7 from rfl, hbl]
  simp only [PS.cur, List.headD_cons]
  show ifTailBody (parseExpression (g + 2 * body.length + 6)) (parseBody (g + 2 * body.length + 6)) (parseIfTail (g + 2 * body.length + 6))
    t1 (.ident t3 t3.lit) stmts [] ({ toks := last :: tEnd :: rest } : PS) = _
  unfold ifTailBody
  have k1 : ({ toks := last :: tEnd :: rest } : PS).peekIs .ELSE_IF = false := by simp [PS.peekIs, PS.peek, hEnd]
  have k2 : ({ toks := last :: tEnd :: rest } : PS).peekIs .ELSE = false := by simp [PS.peekIs, PS.peek, hEnd]
  have e4 := expectPeek_ok ({ toks := last :: tEnd :: rest } : PS) .END (by simp [PS.peekIs, PS.peek, hEnd])
  simp only [k1, k2, Bool.false_eq_true, if_false, e4, if_true]
  congr 1
  cases rest with
  | nil => rfl
  | cons t9 r9 => exact ps_next_clean last tEnd _ cE

end Tw
