/-
  TwProofs.Lemmas.Roundtrip — `Object.Val()` followed by `NativeToObject` is the identity on
  values (C20: arguments reach a custom function as the Go value of the same content, and its
  result comes back as if it had been passed as data).
-/
import TwProofs.Lemmas.Sort

namespace Tw

mutual
/-- objects keep their entries key-sorted (every object the model builds is) -/
def WFVal : Val → Prop
  | .arr xs => WFList xs
  | .obj kvs => KeySorted kvs ∧ WFPairs kvs
  | _ => True
def WFList : List Val → Prop
  | [] => True
  | x :: r => WFVal x ∧ WFList r
def WFPairs : List (Bytes × Val) → Prop
  | [] => True
  | (_, v) :: r => WFVal v ∧ WFPairs r
end

mutual
theorem native_roundtrip : ∀ v : Val, WFVal v → nativeToObject (Val.toNative v) = some v
  | .nil, _ => by simp [Val.toNative, nativeToObject]
  | .bool _, _ => by simp [Val.toNative, nativeToObject]
  | .int i, _ => by simp [Val.toNative, nativeToObject]
  | .float _, _ => by simp [Val.toNative, nativeToObject]
  | .str _, _ => by simp [Val.toNative, nativeToObject]
  | .arr xs, h => by
    have := native_roundtrip_list xs (by simpa [WFVal] using h)
    simp [Val.toNative, nativeToObject, this]
  | .obj kvs, h => by
    have hw : KeySorted kvs ∧ WFPairs kvs := by simpa [WFVal] using h
    have := native_roundtrip_pairs kvs hw.2
    simp [Val.toNative, nativeToObject, this, sortByKey_of_sorted kvs hw.1]
theorem native_roundtrip_list : ∀ xs : List Val, WFList xs → nativeList (Val.toNativeList xs) = some xs
  | [], _ => by simp [Val.toNativeList, nativeList]
  | x :: r, h => by
    have hw : WFVal x ∧ WFList r := by simpa [WFList] using h
    simp [Val.toNativeList, nativeList, native_roundtrip x hw.1, native_roundtrip_list r hw.2]
theorem native_roundtrip_pairs : ∀ kvs : List (Bytes × Val), WFPairs kvs → nativePairs (Val.toNativePairs kvs) = some kvs
  | [], _ => by simp [Val.toNativePairs, nativePairs]
  | (k, v) :: r, h => by
    have hw : WFVal v ∧ WFPairs r := by simpa [WFPairs] using h
    simp [Val.toNativePairs, nativePairs, native_roundtrip v hw.1, native_roundtrip_pairs r hw.2]
end

end Tw
