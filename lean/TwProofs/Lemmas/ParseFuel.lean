/-
  TwProofs.Lemmas.ParseFuel — the model parser never runs out of fuel (C08): with the fuel the
  driver gives it (`parseFuel`, four units per token and a constant) no recursive call of the
  parser reaches fuel zero, whatever the token list.  Every descent into a recursive function
  either stays within a fixed chain of functions (expression → loop, body → block → statement, …)
  or comes after a token was consumed; the token list never grows and always ends in EOF.
-/
import TwModel.Parser
import TwProofs.Lemmas.PrattFull
namespace Tw

/-- the token list ends in an EOF token -/
def EndsEOF (p : PS) : Prop := ∃ e, p.toks.getLast? = some e ∧ e.ty = .EOF

/-- what every piece of the parser does to the state: fuel is not exhausted, the token list does
    not grow and still ends in EOF -/
structure Step (p q : PS) : Prop where
  oof : p.oof = false → q.oof = false
  len : q.toks.length ≤ p.toks.length
  eof : EndsEOF p → EndsEOF q

theorem Step.rfl' (p : PS) : Step p p := ⟨id, Nat.le_refl _, id⟩
theorem Step.trans {p q r : PS} (h1 : Step p q) (h2 : Step q r) : Step p r :=
  ⟨fun h => h2.oof (h1.oof h), Nat.le_trans h2.len h1.len, fun h => h2.eof (h1.eof h)⟩

theorem step_err (p : PS) (l : Nat) (c : String) (a : List Bytes) : Step p (p.err l c a) := ⟨id, Nat.le_refl _, id⟩

theorem step_noteIllegal (p : PS) (t : Token) : Step p (p.noteIllegal t) := by
  unfold PS.noteIllegal
  split
  · exact step_err _ _ _ _
  · exact Step.rfl' p

theorem step_next (p : PS) : Step p p.next := by
  unfold PS.next
  split
  · rename_i a t r hp
    split
    · rename_i n r' 
      refine (Step.trans ?_ (step_noteIllegal _ n))
      refine ⟨id, by simp [hp], ?_⟩
      intro ⟨e, he, hty⟩
      refine ⟨e, ?_, hty⟩
      rw [hp] at he
      simpa using he
    · refine ⟨id, by simp [hp], ?_⟩
      intro ⟨e, he, hty⟩
      refine ⟨e, ?_, hty⟩
      rw [hp] at he
      simpa using he
  · exact Step.rfl' p

theorem step_expectPeek (p : PS) (t : TT) : Step p (p.expectPeek t).2 := by
  unfold PS.expectPeek
  split
  · exact step_next p
  · exact step_err _ _ _ _

/-- a state whose current token is not EOF holds at least two tokens -/
theorem two_le_of_cur (p : PS) (he : EndsEOF p) (hc : p.cur.ty ≠ .EOF) : 2 ≤ p.toks.length := by
  obtain ⟨e, hl, hty⟩ := he
  cases hp : p.toks with
  | nil => rw [hp] at hl; simp at hl
  | cons a r =>
    cases r with
    | nil =>
      rw [hp] at hl
      simp at hl
      have : p.cur = a := by simp [PS.cur, hp]
      rw [this, hl] at hc
      exact absurd hty hc
    | cons _ _ => simp

theorem next_lt (p : PS) (h2 : 2 ≤ p.toks.length) : p.next.toks.length + 1 ≤ p.toks.length := by
  unfold PS.next
  cases hp : p.toks with
  | nil => rw [hp] at h2; simp at h2
  | cons a r =>
    cases r with
    | nil => rw [hp] at h2; simp at h2
    | cons t r' =>
      cases r' with
      | nil => simp
      | cons n r'' =>
        simp only []
        have := (step_noteIllegal ({ p with toks := t :: n :: r'' }) n).len
        simp at this ⊢
        omega

theorem next_lt_cur (p : PS) (he : EndsEOF p) (hc : p.cur.ty ≠ .EOF) : p.next.toks.length + 1 ≤ p.toks.length :=
  next_lt p (two_le_of_cur p he hc)

/-- when the next token has a type other than EOF there are at least two tokens -/
theorem two_le_of_peek (p : PS) (he : EndsEOF p) (t : TT) (ht : t ≠ .EOF) (h : p.peekIs t = true) : 2 ≤ p.toks.length := by
  obtain ⟨e, hl, hty⟩ := he
  cases hp : p.toks with
  | nil => rw [hp] at hl; simp at hl
  | cons a r =>
    cases r with
    | nil =>
      rw [hp] at hl
      simp at hl
      have : p.peek = a := by simp [PS.peek, hp]
      simp only [PS.peekIs, this, hl, beq_iff_eq] at h
      rw [hty] at h
      exact absurd h.symm ht
    | cons _ _ => simp

theorem expectPeek_lt (p : PS) (he : EndsEOF p) (t : TT) (ht : t ≠ .EOF) (h : (p.expectPeek t).1 = true) :
    (p.expectPeek t).2.toks.length + 1 ≤ p.toks.length := by
  unfold PS.expectPeek at h ⊢
  split
  · rename_i hp
    exact next_lt p (two_le_of_peek p he t ht hp)
  · rename_i hp
    rw [if_neg hp] at h
    cases h


theorem noteIllegal_toks (p : PS) (t : Token) : (p.noteIllegal t).toks = p.toks := by
  unfold PS.noteIllegal; split <;> rfl

theorem next_cur (p : PS) : p.next.cur = p.peek := by
  unfold PS.next PS.peek
  cases hp : p.toks with
  | nil => simp [PS.cur, hp]
  | cons a r =>
    cases r with
    | nil => simp [PS.cur, hp]
    | cons t r' =>
      cases r' with
      | nil => simp [PS.cur]
      | cons n r'' => simp [PS.cur, noteIllegal_toks]

/-- after a successful `expectPeek t` the current token has type `t` -/
theorem expectPeek_cur (p : PS) (t : TT) (h : p.peekIs t = true) : (p.expectPeek t).2.cur.ty = t := by
  unfold PS.expectPeek
  rw [if_pos h]
  show p.next.cur.ty = t
  rw [next_cur]
  simpa [PS.peekIs] using h

/-! ### expressions -/

def AdE (f : Nat) (pe : Nat → PS → Expr × PS) : Prop :=
  ∀ prec q, EndsEOF q → 4 * q.toks.length + 2 ≤ f → Step q (pe prec q).2
def AdL (f : Nat) (pl : TT → PS → List Expr × PS) : Prop :=
  ∀ t q, EndsEOF q → q.cur.ty ≠ .EOF → 4 * q.toks.length + 1 ≤ f → Step q (pl t q).2
def AdO (f : Nat) (po : Token → List (Bytes × Expr) → PS → Expr × PS) : Prop :=
  ∀ t prs q, EndsEOF q → 4 * q.toks.length + 3 ≤ f → Step q (po t prs q).2

theorem curIs_ne_eof {p : PS} {t : TT} (h : p.cur.ty = t) (ht : t ≠ .EOF) : p.cur.ty ≠ .EOF := by rw [h]; exact ht

theorem prefixBody_adq {f : Nat} {pe : Nat → PS → Expr × PS} {pl : TT → PS → List Expr × PS}
    {po : Token → List (Bytes × Expr) → PS → Expr × PS} (hpe : AdE f pe) (hpl : AdL f pl) (hpo : AdO f po)
    (p : PS) (he : EndsEOF p) (hf : 4 * p.toks.length + 2 ≤ f + 1) :
    ∀ r, prefixBody pe pl po p = some r → Step p r.2 := by
  intro r hr
  unfold prefixBody at hr
  split at hr
  · cases hr; exact Step.rfl' p
  · split at hr <;> cases hr
    · exact Step.rfl' p
    · exact step_err _ _ _ _
  · split at hr <;> cases hr
    · exact Step.rfl' p
    · exact step_err _ _ _ _
  · cases hr; exact Step.rfl' p
  · cases hr; exact Step.rfl' p
  · cases hr; exact Step.rfl' p
  · cases hr; exact Step.rfl' p
  · -- prefix operator
    rename_i hty
    cases hr
    have hlt := next_lt_cur p he (by rw [hty]; decide)
    exact (step_next p).trans (hpe PREFIX p.next ((step_next p).eof he) (by omega))
  · rename_i hty
    cases hr
    have hlt := next_lt_cur p he (by rw [hty]; decide)
    exact (step_next p).trans (hpe PREFIX p.next ((step_next p).eof he) (by omega))
  · -- parentheses
    rename_i hty
    have hlt := next_lt_cur p he (by rw [hty]; decide)
    have h1 := (step_next p).trans (hpe LOWEST p.next ((step_next p).eof he) (by omega))
    split at hr <;> cases hr <;> exact h1.trans (step_expectPeek _ _)
  · -- array literal
    rename_i hty
    cases hr
    exact hpl .RBRACKET p he (by rw [hty]; decide) (by omega)
  · -- object literal
    rename_i hty
    have hlt := next_lt_cur p he (by rw [hty]; decide)
    split at hr <;> cases hr
    · exact step_next p
    · exact (step_next p).trans (hpo _ _ p.next ((step_next p).eof he) (by omega))
  · cases hr

theorem infixBody_adq {f : Nat} {pe : Nat → PS → Expr × PS} {pl : TT → PS → List Expr × PS} (hpe : AdE f pe) (hpl : AdL f pl)
    (left : Expr) (p1 : PS) (he : EndsEOF p1) (hf : 4 * p1.toks.length + 3 ≤ f) :
    Step p1 (infixBody pe pl left p1).2 := by
  have hn := step_next p1
  have hnl := hn.len
  unfold infixBody
  split
  · split
    · exact hn.trans (step_err _ _ _ _)
    · exact hn.trans (hpe _ p1.next (hn.eof he) (by omega))
  · split
    · -- ternary
      have h1 := hn.trans (hpe TERNARY p1.next (hn.eof he) (by omega))
      have h2 := h1.trans (step_expectPeek _ .COLON)
      split
      · exact h2
      · have h3 := h2.trans (step_next _)
        have := h3.len
        exact h3.trans (hpe LOWEST _ (h3.eof he) (by omega))
    · split
      · -- index
        have h1 := hn.trans (hpe LOWEST p1.next (hn.eof he) (by omega))
        split <;> exact h1.trans (step_expectPeek _ _)
      · split
        · exact Step.rfl' p1
        · -- dot / call
          have h1 := step_expectPeek p1 .IDENT
          split
          · exact h1
          · split
            · have h2 := h1.trans (step_expectPeek _ .LPAREN)
              have hl2 := h2.len
              refine h2.trans (hpl .RPAREN _ (h2.eof he) ?_ (by omega))
              -- the current token is the opening parenthesis
              rename_i hpk
              rw [expectPeek_cur _ _ hpk]; decide
            · exact h1


def AdLoop (f : Nat) (lp : Nat → Expr → PS → Expr × PS) : Prop :=
  ∀ prec left q, EndsEOF q → 4 * q.toks.length ≤ f → Step q (lp prec left q).2
def AdLL (f : Nat) (ll : TT → List Expr → PS → List Expr × PS) : Prop :=
  ∀ t acc q, EndsEOF q → 4 * q.toks.length ≤ f → Step q (ll t acc q).2

theorem endsEOF_pos {q : PS} (h : EndsEOF q) : 1 ≤ q.toks.length := by
  obtain ⟨e, hl, _⟩ := h
  cases hq : q.toks with
  | nil => rw [hq] at hl; simp at hl
  | cons _ _ => simp

theorem hasInfix_ne_eof {t : TT} (h : hasInfix t = true) : t ≠ .EOF := by
  intro he; rw [he] at h; simp [hasInfix, isBinaryOp] at h

/-- the expression parser never exhausts fuel that is four units per remaining token (and a
    small constant per function) -/
theorem expr_adq : ∀ f : Nat,
    AdE f (parseExpression f) ∧ AdLoop f (prattLoop f) ∧ AdL f (parseExprList f) ∧ AdLL f (exprListLoop f) ∧ AdO f (parseObjLoop f) := by
  intro f
  induction f with
  | zero =>
    refine ⟨?_, ?_, ?_, ?_, ?_⟩
    · intro prec q he hf; have := endsEOF_pos he; omega
    · intro prec l q he hf; have := endsEOF_pos he; omega
    · intro t q he _ hf; have := endsEOF_pos he; omega
    · intro t acc q he hf; have := endsEOF_pos he; omega
    · intro t prs q he hf; have := endsEOF_pos he; omega
  | succ f ih =>
    obtain ⟨ihE, ihLoop, ihL, ihLL, ihO⟩ := ih
    refine ⟨?_, ?_, ?_, ?_, ?_⟩
    · -- parseExpression
      intro prec q he hf
      rw [parseExpression_succ]
      cases hpb : prefixBody (parseExpression f) (parseExprList f) (parseObjLoop f) q with
      | none => exact step_err _ _ _ _
      | some r =>
        have h1 := prefixBody_adq ihE ihL ihO q he hf r hpb
        have := h1.len
        exact h1.trans (ihLoop prec r.1 r.2 (h1.eof he) (by omega))
    · -- prattLoop
      intro prec left q he hf
      rw [prattLoop_succ]
      split
      · exact Step.rfl' q
      · split
        · exact Step.rfl' q
        · rename_i hinf
          have hpk : q.peekIs q.peek.ty = true := by simp [PS.peekIs]
          have hne : q.peek.ty ≠ .EOF := hasInfix_ne_eof (by simpa using hinf)
          have h2 := two_le_of_peek q he _ hne hpk
          have hlt := next_lt q h2
          have hn := step_next q
          have h1 := infixBody_adq ihE ihL left q.next (hn.eof he) (by omega)
          have := h1.len
          exact hn.trans (h1.trans (ihLoop prec _ _ (h1.eof (hn.eof he)) (by omega)))
    · -- parseExprList
      intro t q he hc hf
      rw [parseExprList_succ]
      have hn := step_next q
      have hlt := next_lt_cur q he hc
      split
      · exact hn
      · have h1 := ihE LOWEST q.next (hn.eof he) (by omega)
        have := h1.len
        exact hn.trans (h1.trans (ihLL t _ _ (h1.eof (hn.eof he)) (by omega)))
    · -- exprListLoop
      intro t acc q he hf
      rw [exprListLoop_succ]
      split
      · rename_i hcm
        have h2 := two_le_of_peek q he .COMMA (by decide) hcm
        have hlt := next_lt q h2
        have hn := step_next q
        split
        · split <;> exact hn.trans (step_expectPeek _ _)
        · have hn2 := hn.trans (step_next q.next)
          have hl2 := hn2.len
          have h1 := ihE LOWEST q.next.next (hn2.eof he) (by have := (step_next q.next).len; omega)
          have := h1.len
          have := (step_next q.next).len
          exact hn2.trans (h1.trans (ihLL t _ _ (h1.eof (hn2.eof he)) (by omega)))
      · split <;> exact step_expectPeek _ _
    · -- parseObjLoop
      intro t prs q he hf
      rw [parseObjLoop_succ]
      split
      · exact Step.rfl' q
      · split
        · exact step_err _ _ _ _
        · have h0 : Step q (if q.peekIs .COLON = true then q.next.next else q) := by
            split
            · exact (step_next q).trans (step_next _)
            · exact Step.rfl' q
          generalize (if q.peekIs .COLON = true then q.next.next else q) = p0 at h0 ⊢
          have hl0 := h0.len
          have h1 := h0.trans (ihE LOWEST p0 (h0.eof he) (by omega))
          generalize parseExpression f LOWEST p0 = r1 at h1 ⊢
          have hl1 := h1.len
          split
          · exact h1.trans (step_next _)
          · have h2 := h1.trans (step_expectPeek r1.2 .COMMA)
            split
            · exact h2
            · rename_i hok
              have hok' : (r1.2.expectPeek .COMMA).1 = true := by simpa using hok
              have hlt := expectPeek_lt _ (h1.eof he) .COMMA (by decide) hok'
              have h3 := h2.trans (step_next _)
              have hl3 := h3.len
              have := (step_next (r1.2.expectPeek .COMMA).2).len
              exact h3.trans (ihO t _ _ (h3.eof he) (by omega))


/-! ### statements -/

def AdB (f : Nat) (pbody : PS → List Stmt × PS) : Prop := ∀ q, EndsEOF q → 4 * q.toks.length + 6 ≤ f → Step q (pbody q).2
def AdBS (f : Nat) (pblock : List Stmt → PS → List Stmt × PS) : Prop :=
  ∀ acc q, EndsEOF q → 4 * q.toks.length + 5 ≤ f → Step q (pblock acc q).2
def AdS (f : Nat) (pst : PS → Stmt × PS) : Prop := ∀ q, EndsEOF q → 4 * q.toks.length + 4 ≤ f → Step q (pst q).2
def AdIT (f : Nat) (ptail : Token → Expr → List Stmt → List (Expr × List Stmt) → PS → Stmt × PS) : Prop :=
  ∀ t c cons alts q, EndsEOF q → 4 * q.toks.length + 7 ≤ f → Step q (ptail t c cons alts q).2
def AdSl (f : Nat) (pslots : List SlotUse → PS → List SlotUse × PS) : Prop :=
  ∀ acc q, EndsEOF q → 4 * q.toks.length + 7 ≤ f → Step q (pslots acc q).2
def AdSk (f : Nat) (pskip : PS → PS) : Prop := ∀ q, EndsEOF q → 4 * q.toks.length ≤ f → Step q (pskip q)

/-- `expectPeek` for a token type other than EOF: the step, and on success one token less -/
theorem ep (p : PS) (he : EndsEOF p) (t : TT) (ht : t ≠ .EOF) :
    Step p (p.expectPeek t).2 ∧ ((p.expectPeek t).1 = true → (p.expectPeek t).2.toks.length + 1 ≤ p.toks.length) ∧
      ((p.expectPeek t).1 = true → (p.expectPeek t).2.cur.ty = t) := by
  refine ⟨step_expectPeek p t, expectPeek_lt p he t ht, ?_⟩
  intro h
  have hpk : p.peekIs t = true := by
    unfold PS.expectPeek at h
    by_cases hp : p.peekIs t = true
    · exact hp
    · rw [if_neg hp] at h; cases h
  exact expectPeek_cur p t hpk

theorem not_not_true {b : Bool} (h : ¬ (!b) = true) : b = true := by cases b <;> simp_all

section stmts
variable {f : Nat} {pe : Nat → PS → Expr × PS} {pl : TT → PS → List Expr × PS} {pst : PS → Stmt × PS}
  {pbody : PS → List Stmt × PS} {pblock : List Stmt → PS → List Stmt × PS}
  {ptail : Token → Expr → List Stmt → List (Expr × List Stmt) → PS → Stmt × PS}
  {pslots : List SlotUse → PS → List SlotUse × PS} {pskip : PS → PS}

theorem embeddedCode_adq (hpe : AdE f pe) (p : PS) (he : EndsEOF p) (hf : 4 * p.toks.length + 2 ≤ f) :
    Step p (parseEmbeddedCode pe p).2 := by
  unfold parseEmbeddedCode
  simp only []
  have hn := step_next p
  have hnl := hn.len
  split
  · exact hn.trans (step_err _ _ _ _)
  · split
    · have h2 := hn.trans (step_expectPeek p.next .ASSIGN)
      have h3 := h2.trans (step_next _)
      have hl3 := h3.len
      split
      · exact h3.trans (step_err _ _ _ _)
      · exact h3.trans (hpe LOWEST _ (h3.eof he) (by omega))
    · have h2 := hn.trans (hpe LOWEST p.next (hn.eof he) (by omega))
      show Step p (if _ then _ else _)
      split
      · exact h2.trans (step_next _)
      · exact h2

theorem condDirective_adq (hpe : AdE f pe) (p : PS) (mk : Token → Expr → Stmt) (he : EndsEOF p) (hf : 4 * p.toks.length + 2 ≤ f) :
    Step p (parseCondDirective pe p mk).2 := by
  unfold parseCondDirective
  simp only []
  have h1 := step_expectPeek p .LPAREN
  split
  · exact h1
  · have h2 := h1.trans (step_next _)
    have := h2.len
    exact h2.trans (hpe LOWEST _ (h2.eof he) (by omega))

theorem ifStmt_adq (hpe : AdE f pe) (hbody : AdB f pbody) (htail : AdIT f ptail) (p : PS) (he : EndsEOF p)
    (hf : 4 * p.toks.length + 3 ≤ f) : Step p (parseIfStmt pe pbody ptail p).2 := by
  unfold parseIfStmt
  simp only []
  obtain ⟨e1, l1, _⟩ := ep p he .LPAREN (by decide)
  generalize p.expectPeek .LPAREN = q1 at e1 l1 ⊢
  split
  · exact e1
  · rename_i hok
    have hl1 := l1 (not_not_true hok)
    have e1n := e1.trans (step_next q1.2)
    have hl1n := (step_next q1.2).len
    have h2 := e1n.trans (hpe LOWEST q1.2.next (e1n.eof he) (by omega))
    have hl2 := (hpe LOWEST q1.2.next (e1n.eof he) (by omega)).len
    generalize pe LOWEST q1.2.next = q2 at h2 hl2 ⊢
    have e3 := h2.trans (step_expectPeek q2.2 .RPAREN)
    have hl3 := (step_expectPeek q2.2 .RPAREN).len
    generalize q2.2.expectPeek .RPAREN = q3 at e3 hl3 ⊢
    split
    · exact e3
    · have h4 := hbody q3.2 (e3.eof he) (by omega)
      have hl4 := h4.len
      generalize pbody q3.2 = q4 at h4 hl4 ⊢
      have e4 := e3.trans h4
      exact e4.trans (htail _ _ _ _ q4.2 (e4.eof he) (by omega))

theorem loopElse_adq (hbody : AdB f pbody) (p : PS) (he : EndsEOF p) (hf : 4 * p.toks.length + 6 ≤ f) :
    Step p (loopElse pbody p).2 := by
  unfold loopElse
  simp only []
  split
  · have hn := step_next p
    have := hn.len
    exact hn.trans (hbody _ (hn.eof he) (by omega))
  · exact Step.rfl' p

theorem forClause_adq (hpe : AdE f pe) (stop : TT) (p : PS) (he : EndsEOF p) (hf : 4 * p.toks.length + 2 ≤ f) :
    Step p (forClause pe stop p).2 := by
  unfold forClause
  simp only []
  split
  · exact embeddedCode_adq hpe p he hf
  · exact Step.rfl' p

theorem forCond_adq (hpe : AdE f pe) (p : PS) (he : EndsEOF p) (hf : 4 * p.toks.length + 2 ≤ f) :
    Step p (forCond pe p).2 := by
  unfold forCond
  simp only []
  split
  · have hn := step_next p
    have := hn.len
    exact hn.trans (hpe LOWEST _ (hn.eof he) (by omega))
  · exact Step.rfl' p

theorem loopBody_adq (hbody : AdB f pbody) (p : PS) (he : EndsEOF p) (hf : 4 * p.toks.length + 6 ≤ f) :
    Step p (parseLoopBody pbody p).2 := by
  unfold parseLoopBody
  simp only []
  have h1 := hbody p he hf
  have hl1 := h1.len
  generalize pbody p = q1 at h1 hl1 ⊢
  have h2 := h1.trans (loopElse_adq hbody q1.2 (h1.eof he) (by omega))
  generalize loopElse pbody q1.2 = q2 at h2 ⊢
  have e3 := h2.trans (step_expectPeek q2.2 .END)
  generalize q2.2.expectPeek .END = q3 at e3 ⊢
  split <;> exact e3

theorem forStmt_adq (hpe : AdE f pe) (hbody : AdB f pbody) (p : PS) (he : EndsEOF p) (hf : 4 * p.toks.length + 3 ≤ f) :
    Step p (parseForStmt pe pbody p).2 := by
  unfold parseForStmt
  simp only []
  obtain ⟨e1, l1, _⟩ := ep p he .LPAREN (by decide)
  generalize p.expectPeek .LPAREN = q1 at e1 l1 ⊢
  split
  · exact e1
  · rename_i hok
    have hl1 := l1 (not_not_true hok)
    have h2 := e1.trans (forClause_adq hpe .SEMI q1.2 (e1.eof he) (by omega))
    have hl2 := (forClause_adq hpe .SEMI q1.2 (e1.eof he) (by omega)).len
    generalize forClause pe .SEMI q1.2 = q2 at h2 hl2 ⊢
    have e3 := h2.trans (step_expectPeek q2.2 .SEMI)
    have hl3 := (step_expectPeek q2.2 .SEMI).len
    generalize q2.2.expectPeek .SEMI = q3 at e3 hl3 ⊢
    split
    · exact e3
    · have h4 := e3.trans (forCond_adq hpe q3.2 (e3.eof he) (by omega))
      have hl4 := (forCond_adq hpe q3.2 (e3.eof he) (by omega)).len
      generalize forCond pe q3.2 = q4 at h4 hl4 ⊢
      have e5 := h4.trans (step_expectPeek q4.2 .SEMI)
      have hl5 := (step_expectPeek q4.2 .SEMI).len
      generalize q4.2.expectPeek .SEMI = q5 at e5 hl5 ⊢
      split
      · exact e5
      · have h6 := e5.trans (forClause_adq hpe .RPAREN q5.2 (e5.eof he) (by omega))
        have hl6 := (forClause_adq hpe .RPAREN q5.2 (e5.eof he) (by omega)).len
        generalize forClause pe .RPAREN q5.2 = q6 at h6 hl6 ⊢
        have e7 := h6.trans (step_expectPeek q6.2 .RPAREN)
        have hl7 := (step_expectPeek q6.2 .RPAREN).len
        generalize q6.2.expectPeek .RPAREN = q7 at e7 hl7 ⊢
        split
        · exact e7
        · have h8 := e7.trans (loopBody_adq hbody q7.2 (e7.eof he) (by omega))
          generalize parseLoopBody pbody q7.2 = q8 at h8 ⊢
          obtain ⟨a, b8⟩ := q8
          cases a with
          | none => exact h8
          | some v => obtain ⟨v1, v2⟩ := v; exact h8

theorem eachStmt_adq (hpe : AdE f pe) (hbody : AdB f pbody) (p : PS) (he : EndsEOF p) (hf : 4 * p.toks.length + 3 ≤ f) :
    Step p (parseEachStmt pe pbody p).2 := by
  unfold parseEachStmt
  simp only []
  obtain ⟨e1, l1, _⟩ := ep p he .LPAREN (by decide)
  generalize p.expectPeek .LPAREN = q1 at e1 l1 ⊢
  split
  · exact e1
  · rename_i hok
    have hl1 := l1 (not_not_true hok)
    have e2 := e1.trans (step_next q1.2)
    have hl2 := (step_next q1.2).len
    have e3 := e2.trans (step_expectPeek q1.2.next .IN)
    have hl3 := (step_expectPeek q1.2.next .IN).len
    generalize q1.2.next.expectPeek .IN = q3 at e3 hl3 ⊢
    split
    · exact e3
    · have e3n := e3.trans (step_next q3.2)
      have hl3n := (step_next q3.2).len
      have h4 := e3n.trans (hpe LOWEST q3.2.next (e3n.eof he) (by omega))
      have hl4 := (hpe LOWEST q3.2.next (e3n.eof he) (by omega)).len
      generalize pe LOWEST q3.2.next = q4 at h4 hl4 ⊢
      have e5 := h4.trans (step_expectPeek q4.2 .RPAREN)
      have hl5 := (step_expectPeek q4.2 .RPAREN).len
      generalize q4.2.expectPeek .RPAREN = q5 at e5 hl5 ⊢
      split
      · exact e5
      · have h6 := e5.trans (loopBody_adq hbody q5.2 (e5.eof he) (by omega))
        generalize parseLoopBody pbody q5.2 = q6 at h6 ⊢
        obtain ⟨a, b6⟩ := q6
        cases a with
        | none => exact h6
        | some v => obtain ⟨v1, v2⟩ := v; exact h6

theorem step_with (p : PS) (q : PS) (h : q.toks = p.toks) (ho : q.oof = p.oof) : Step p q :=
  ⟨fun hp => by rw [ho]; exact hp, by rw [h]; exact Nat.le_refl _, fun ⟨e, hl, ht⟩ => ⟨e, by rw [h]; exact hl, ht⟩⟩

theorem insertStmt_adq (hpe : AdE f pe) (hbody : AdB f pbody) (p : PS) (he : EndsEOF p) (hf : 4 * p.toks.length + 3 ≤ f) :
    Step p (parseInsertStmt pe pbody p).2 := by
  unfold parseInsertStmt
  simp only []
  obtain ⟨e1, l1, _⟩ := ep p he .LPAREN (by decide)
  generalize p.expectPeek .LPAREN = q1 at e1 l1 ⊢
  split
  · exact e1
  · rename_i hok
    have hl1 := l1 (not_not_true hok)
    have e2 := e1.trans (step_next q1.2)
    have hl2 := (step_next q1.2).len
    split
    · exact e2.trans (step_err _ _ _ _)
    · split
      · have e3 := e2.trans ((step_next _).trans (step_next _))
        have hl3 := ((step_next q1.2.next).trans (step_next _)).len
        have h4 := e3.trans (hpe LOWEST _ (e3.eof he) (by omega))
        exact h4.trans (step_with _ _ rfl rfl)
      · have e3 := e2.trans (step_expectPeek q1.2.next .RPAREN)
        have hl3 := (step_expectPeek q1.2.next .RPAREN).len
        generalize q1.2.next.expectPeek .RPAREN = q3 at e3 hl3 ⊢
        split
        · exact e3
        · have h4 := e3.trans (hbody q3.2 (e3.eof he) (by omega))
          exact h4.trans (step_with _ _ rfl rfl)

theorem componentArg_adq (hpe : AdE f pe) (p : PS) (he : EndsEOF p) (hf : 4 * p.toks.length + 2 ≤ f) :
    Step p (componentArg pe p).2 := by
  unfold componentArg
  simp only []
  split
  · have e1 := (step_next p).trans (step_next _)
    have hl1 := e1.len
    have h2 := e1.trans (hpe LOWEST _ (e1.eof he) (by omega))
    generalize pe LOWEST p.next.next = q2 at h2 ⊢
    split
    · exact h2
    · exact h2.trans (step_err _ _ _ _)
  · exact Step.rfl' p

theorem componentSlots_adq (hslots : AdSl f pslots) (p : PS) (he : EndsEOF p) (hf : 4 * p.toks.length + 7 ≤ f) :
    Step p (componentSlots pslots p).2 := by
  unfold componentSlots
  split
  · have hn := step_next p
    have := hn.len
    exact hn.trans (hslots [] _ (hn.eof he) (by omega))
  · split
    · split
      · have hn := (step_next p).trans (step_next _)
        have := hn.len
        exact hn.trans (hslots [] _ (hn.eof he) (by omega))
      · exact Step.rfl' p
    · exact Step.rfl' p

theorem step_aliasPath (p : PS) (s : String) : Step p (aliasPath p s).2 := by
  unfold aliasPath
  simp only []
  split
  · exact step_err _ _ _ _
  · split <;> exact Step.rfl' p

theorem componentStmt_adq (hpe : AdE f pe) (hslots : AdSl f pslots) (p : PS) (he : EndsEOF p) (hf : 4 * p.toks.length + 3 ≤ f) :
    Step p (parseComponentStmt pe pslots p).2 := by
  unfold parseComponentStmt
  simp only []
  obtain ⟨e1, l1, _⟩ := ep p he .LPAREN (by decide)
  generalize p.expectPeek .LPAREN = q1 at e1 l1 ⊢
  split
  · exact e1
  · rename_i hok
    have hl1 := l1 (not_not_true hok)
    have e2 := (e1.trans (step_next q1.2)).trans (step_aliasPath q1.2.next "components")
    have hl2 := ((step_next q1.2).trans (step_aliasPath q1.2.next "components")).len
    generalize aliasPath q1.2.next "components" = q2 at e2 hl2 ⊢
    have h3 := e2.trans (componentArg_adq hpe q2.2 (e2.eof he) (by omega))
    have hl3 := (componentArg_adq hpe q2.2 (e2.eof he) (by omega)).len
    generalize componentArg pe q2.2 = q3 at h3 hl3 ⊢
    split
    · exact h3
    · have e4 := h3.trans (step_expectPeek q3.2 .RPAREN)
      have hl4 := (step_expectPeek q3.2 .RPAREN).len
      generalize q3.2.expectPeek .RPAREN = q4 at e4 hl4 ⊢
      split
      · exact e4
      · have h5 := e4.trans (componentSlots_adq hslots q4.2 (e4.eof he) (by omega))
        exact h5.trans (step_with _ _ rfl rfl)

theorem statementBody_adq (hpe : AdE f pe) (hpl : AdL f pl) (hbody : AdB f pbody) (htail : AdIT f ptail) (hslots : AdSl f pslots)
    (p : PS) (he : EndsEOF p) (hf : 4 * p.toks.length + 3 ≤ f) :
    Step p (statementBody pe pl pbody ptail pslots p).2 := by
  unfold statementBody
  simp only []
  split
  · exact Step.rfl' p
  · exact embeddedCode_adq hpe p he (by omega)
  · exact embeddedCode_adq hpe p he (by omega)
  · exact ifStmt_adq hpe hbody htail p he hf
  · exact forStmt_adq hpe hbody p he hf
  · exact eachStmt_adq hpe hbody p he hf
  · -- @use
    have e1 := step_expectPeek p .LPAREN
    generalize p.expectPeek .LPAREN = q1 at e1 ⊢
    split
    · exact e1
    · exact ((e1.trans (step_next _)).trans (step_aliasPath _ _)).trans (step_with _ _ rfl rfl)
  · -- @reserve
    have e1 := step_expectPeek p .LPAREN
    generalize p.expectPeek .LPAREN = q1 at e1 ⊢
    split
    · exact e1
    · exact (e1.trans (step_next _)).trans (step_with _ _ rfl rfl)
  · exact insertStmt_adq hpe hbody p he hf
  · exact condDirective_adq hpe p _ he (by omega)
  · exact condDirective_adq hpe p _ he (by omega)
  · exact componentStmt_adq hpe hslots p he hf
  · -- @slot
    split
    · exact Step.rfl' p
    · have e1 := (step_next p).trans (step_next _)
      have e2 := e1.trans (step_expectPeek p.next.next .RPAREN)
      generalize p.next.next.expectPeek .RPAREN = q2 at e2 ⊢
      split <;> exact e2
  · -- @dump
    obtain ⟨e1, l1, c1⟩ := ep p he .LPAREN (by decide)
    generalize p.expectPeek .LPAREN = q1 at e1 l1 c1 ⊢
    split
    · exact e1
    · rename_i hok
      have hl1 := l1 (not_not_true hok)
      exact e1.trans (hpl .RPAREN q1.2 (e1.eof he) (by rw [c1 (not_not_true hok)]; decide) (by omega))
  · exact Step.rfl' p
  · exact Step.rfl' p
  · exact Step.rfl' p

theorem bodyBody_adq (hblock : AdBS f pblock) (p : PS) (he : EndsEOF p) (hf : 4 * p.toks.length + 5 ≤ f) :
    Step p (bodyBody pblock p).2 := by
  unfold bodyBody
  split
  · exact Step.rfl' p
  · have hn := step_next p
    have := hn.len
    exact hn.trans (hblock [] _ (hn.eof he) (by omega))

theorem next_lt_of_le (p1 p : PS) (h : p1.toks.length ≤ p.toks.length) (h2 : 2 ≤ p.toks.length) :
    p1.next.toks.length + 1 ≤ p.toks.length := by
  by_cases h1 : 2 ≤ p1.toks.length
  · have := next_lt p1 h1; omega
  · have := (step_next p1).len; omega

theorem curIs_false_ne {p : PS} {t : TT} (h : ¬ p.curIs t = true) : p.cur.ty ≠ t := by
  intro he; apply h; simp [PS.curIs, he]

theorem blockStmtBody_adq (hst : AdS f pst) (hblock : AdBS f pblock) (acc : List Stmt) (p : PS) (he : EndsEOF p)
    (hf : 4 * p.toks.length + 4 ≤ f) : Step p (blockStmtBody pst pblock acc p).2 := by
  unfold blockStmtBody
  simp only []
  split
  · exact Step.rfl' p
  · split
    · exact step_err _ _ _ _
    · rename_i hneof
      split
      · exact step_err _ _ _ _
      · have h2 := two_le_of_cur p he (curIs_false_ne hneof)
        have h1 := hst p he hf
        have hl1 := h1.len
        generalize pst p = q1 at h1 hl1 ⊢
        split
        · exact h1
        · have hlt := next_lt_of_le q1.2 p hl1 h2
          have e2 := h1.trans (step_next q1.2)
          exact e2.trans (hblock _ _ (e2.eof he) (by omega))

theorem ifTailBody_adq (hpe : AdE f pe) (hbody : AdB f pbody) (htail : AdIT f ptail) (t : Token) (c : Expr) (cons : List Stmt)
    (alts : List (Expr × List Stmt)) (p : PS) (he : EndsEOF p) (hf : 4 * p.toks.length + 6 ≤ f) :
    Step p (ifTailBody pe pbody ptail t c cons alts p).2 := by
  unfold ifTailBody
  simp only []
  split
  · rename_i hpk
    obtain ⟨e1, l1, _⟩ := ep p he .ELSE_IF (by decide)
    have hok : (p.expectPeek .ELSE_IF).1 = true := by unfold PS.expectPeek; rw [if_pos hpk]
    have hl1 := l1 hok
    generalize p.expectPeek .ELSE_IF = q1 at e1 hl1 ⊢
    have e2 := e1.trans ((step_next q1.2).trans (step_next _))
    have hl2 := ((step_next q1.2).trans (step_next q1.2.next)).len
    have h3 := e2.trans (hpe LOWEST q1.2.next.next (e2.eof he) (by omega))
    have hl3 := (hpe LOWEST q1.2.next.next (e2.eof he) (by omega)).len
    generalize pe LOWEST q1.2.next.next = q3 at h3 hl3 ⊢
    have e4 := h3.trans (step_expectPeek q3.2 .RPAREN)
    have hl4 := (step_expectPeek q3.2 .RPAREN).len
    generalize q3.2.expectPeek .RPAREN = q4 at e4 hl4 ⊢
    split
    · exact e4
    · have h5 := e4.trans (hbody q4.2 (e4.eof he) (by omega))
      have hl5 := (hbody q4.2 (e4.eof he) (by omega)).len
      generalize pbody q4.2 = q5 at h5 hl5 ⊢
      exact h5.trans (htail _ _ _ _ q5.2 (h5.eof he) (by omega))
  · split
    · have hn := step_next p
      have hnl := hn.len
      have h1 := hn.trans (hbody p.next (hn.eof he) (by omega))
      generalize pbody p.next = q1 at h1 ⊢
      split
      · exact h1.trans (step_err _ _ _ _)
      · have e2 := h1.trans (step_expectPeek q1.2 .END)
        generalize q1.2.expectPeek .END = q2 at e2 ⊢
        split <;> exact e2
    · have e1 := step_expectPeek p .END
      generalize p.expectPeek .END = q1 at e1 ⊢
      split <;> exact e1

theorem step_slotHeader (p : PS) : Step p (slotHeader p).2 := by
  unfold slotHeader
  split
  · simp only []
    have e := ((step_next p).trans (step_next _)).trans (step_expectPeek p.next.next .RPAREN)
    generalize p.next.next.expectPeek .RPAREN = q at e ⊢
    split <;> exact e
  · exact Step.rfl' p

theorem slotsBody_adq (hbody : AdB f pbody) (hslots : AdSl f pslots) (hskip : AdSk f pskip) (acc : List SlotUse) (p : PS)
    (he : EndsEOF p) (hf : 4 * p.toks.length + 6 ≤ f) : Step p (slotsBody pbody pslots pskip acc p).2 := by
  unfold slotsBody
  split
  · exact Step.rfl' p
  · rename_i hslot
    have hcur : p.cur.ty = .SLOT := by
      have : p.curIs .SLOT = true := by simpa using hslot
      simpa [PS.curIs] using this
    have h2 := two_le_of_cur p he (by rw [hcur]; decide)
    simp only []
    have e1 := step_slotHeader p
    have hl1 := e1.len
    generalize slotHeader p = q1 at e1 hl1 ⊢
    split
    · exact e1
    · have h3 := e1.trans (hbody q1.2 (e1.eof he) (by omega))
      have hl3 := h3.len
      generalize pbody q1.2 = q3 at h3 hl3 ⊢
      have hlt := next_lt_of_le q3.2 p hl3 h2
      have e4 := h3.trans ((step_next q3.2).trans (step_next _))
      have hl4 := (step_next q3.2.next).len
      have h5 := e4.trans (hskip q3.2.next.next (e4.eof he) (by omega))
      have hl5 := (hskip q3.2.next.next (e4.eof he) (by omega)).len
      exact h5.trans (hslots _ _ (h5.eof he) (by omega))

theorem skipHtmlBody_adq (hskip : AdSk f pskip) (p : PS) (he : EndsEOF p) (hf : 4 * p.toks.length ≤ f + 1) :
    Step p (skipHtmlBody pskip p) := by
  unfold skipHtmlBody
  split
  · rename_i hc
    have hcur : p.cur.ty = .HTML := by simpa [PS.curIs] using hc
    have hlt := next_lt_cur p he (by rw [hcur]; decide)
    have hn := step_next p
    exact hn.trans (hskip _ (hn.eof he) (by omega))
  · exact Step.rfl' p

end stmts

/-- the statement parser never exhausts fuel that is four units per remaining token (and a small
    constant per function) -/
theorem stmt_adq : ∀ f : Nat,
    AdS f (parseStatement f) ∧ AdB f (parseBody f) ∧ AdBS f (parseBlockStmt f) ∧ AdIT f (parseIfTail f) ∧
    AdSl f (parseSlots f) ∧ AdSk f (skipHtml f) := by
  intro f
  induction f with
  | zero =>
    refine ⟨?_, ?_, ?_, ?_, ?_, ?_⟩
    · intro q he hf; have := endsEOF_pos he; omega
    · intro q he hf; have := endsEOF_pos he; omega
    · intro acc q he hf; have := endsEOF_pos he; omega
    · intro t c cons alts q he hf; have := endsEOF_pos he; omega
    · intro acc q he hf; have := endsEOF_pos he; omega
    · intro q he hf; have := endsEOF_pos he; omega
  | succ f ih =>
    obtain ⟨ihS, ihB, ihBS, ihIT, ihSl, ihSk⟩ := ih
    obtain ⟨ihE, _, ihL, _, _⟩ := expr_adq f
    refine ⟨?_, ?_, ?_, ?_, ?_, ?_⟩
    · intro q he hf
      exact statementBody_adq ihE ihL ihB ihIT ihSl q he (by omega)
    · intro q he hf
      exact bodyBody_adq ihBS q he (by omega)
    · intro acc q he hf
      exact blockStmtBody_adq ihS ihBS acc q he (by omega)
    · intro t c cons alts q he hf
      exact ifTailBody_adq ihE ihB ihIT t c cons alts q he (by omega)
    · intro acc q he hf
      exact slotsBody_adq ihB ihSl ihSk acc q he (by omega)
    · intro q he hf
      exact skipHtmlBody_adq ihSk q he hf


/-! ### the program loop and the driver -/

theorem parseProgramLoop_adq : ∀ (f : Nat) (acc : List Stmt) (p : PS), EndsEOF p → 4 * p.toks.length + 5 ≤ f →
    Step p (parseProgramLoop f acc p).2
  | 0, _, p, he, hf => by have := endsEOF_pos he; omega
  | f + 1, acc, p, he, hf => by
    rw [parseProgramLoop]
    split
    · exact Step.rfl' p
    · rename_i hneof
      have h2 := two_le_of_cur p he (curIs_false_ne hneof)
      simp only []
      have h1 := (stmt_adq f).1 p he (by omega)
      have hl1 := h1.len
      generalize parseStatement f p = q1 at h1 hl1 ⊢
      split
      · exact h1.trans (step_err _ _ _ _)
      · have hlt := next_lt_of_le q1.2 p hl1 h2
        have e2 := h1.trans (step_next q1.2)
        exact e2.trans (parseProgramLoop_adq f _ _ (e2.eof he) (by omega))

theorem step_initParser (toks : List Token) (base : Nat) :
    Step ({ toks := toks, nextId := base } : PS) (initParser toks base) := by
  unfold initParser
  simp only []
  have h1 := step_noteIllegal ({ toks := toks, nextId := base } : PS) ({ toks := toks, nextId := base } : PS).cur
  split
  · exact h1.trans (step_noteIllegal _ _)
  · exact h1

theorem finishParse_ne_oof (ic : Bool) (first : Token) (stmts : Option (List Stmt)) (p1 : PS) (h : p1.oof = false) :
    finishParse ic first stmts p1 ≠ .oof := by
  have herr : ∀ l c a, (p1.err l c a).oof = false := fun _ _ _ => h
  cases stmts with
  | none =>
    unfold finishParse
    simp only []
    rw [if_neg (by rw [h]; simp)]
    split <;> simp
  | some ss =>
    cases ic with
    | true =>
      unfold finishParse
      simp only [if_true]
      rw [if_neg (by rw [herr]; simp)]
      split <;> simp
    | false =>
      unfold finishParse
      simp only [Bool.false_eq_true, if_false]
      rw [if_neg (by rw [h]; simp)]
      split <;> simp

theorem finishParse_ne_lexPanic' (ic : Bool) (first : Token) (stmts : Option (List Stmt)) (p1 : PS) :
    finishParse ic first stmts p1 ≠ .lexPanic := by
  intro h
  unfold finishParse at h
  cases stmts with
  | none =>
    simp only [] at h
    split at h
    · cases h
    · split at h <;> cases h
  | some ss =>
    cases ic with
    | true =>
      simp only [if_true] at h
      split at h
      · cases h
      · split at h <;> cases h
    | false =>
      simp only [Bool.false_eq_true, if_false] at h
      split at h
      · cases h
      · split at h <;> cases h

/-- **the parser never runs out of fuel**: for every byte string the driver's `parseSource`
    answers with a program, an error or the lexer's panic outcome — never with "out of fuel".
    (`htok`: the token list ends in EOF, which `token_list_ends_with_eof` proves of every input.) -/
theorem parseSource_ne_oof (src : Bytes) (base : Nat)
    (hends : ∀ r, tokenize src = some r → ∃ ts e, r.toks = ts ++ [e] ∧ e.ty = .EOF)
    (htot : (tokenize src).isSome = true) : parseSource src base ≠ .oof := by
  unfold parseSource
  cases htk : tokenize src with
  | none => rw [htk] at htot; cases htot
  | some lr =>
    simp only []
    split
    · simp
    · obtain ⟨ts, e, hts, hety⟩ := hends lr htk
      have he0 : EndsEOF ({ toks := lr.toks, nextId := base } : PS) := ⟨e, by simp [hts], hety⟩
      have hi := step_initParser lr.toks base
      have hil := hi.len
      have hloop := parseProgramLoop_adq (parseFuel lr.toks) [] (initParser lr.toks base) (hi.eof he0)
        (by simp only [parseFuel]; simp at hil; omega)
      exact finishParse_ne_oof _ _ _ _ (hloop.oof (hi.oof rfl))

end Tw
