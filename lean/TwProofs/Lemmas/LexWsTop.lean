/-
  TwProofs.Lemmas.LexWsTop — the whitespace theorem for whole templates that begin with "{{".
-/
import TwProofs.Lemmas.LexWs
namespace Tw
open Lx

theorem lexAll_mono : ∀ (f : Nat) (s : Lx) (r : List Token × Lx), lexAll f s = some r → ∀ k, lexAll (f + k) s = some r := by
  intro f
  induction f with
  | zero => intro s r h; simp [lexAll] at h
  | succ f ih =>
    intro s r h k
    rw [show f + 1 + k = (f + k) + 1 by omega, lexAll]
    rw [lexAll] at h
    cases hs : nextStep s with
    | mk st s1 =>
      rw [hs] at h
      simp only [] at h ⊢
      cases st with
      | again => exact ih s1 r h k
      | tok t =>
        simp only [] at h ⊢
        by_cases he : (t.ty == TT.EOF) = true
        · simp only [he, if_true] at h ⊢; exact h
        · simp only [he] at h ⊢
          cases hl : lexAll f s1 with
          | none => simp [hl] at h
          | some p => rw [ih s1 p hl k]; rw [hl] at h; exact h

/-- the first `NextToken` on a template that begins with "{{" and not with "{{--" -/
theorem open_braces_step (r : Bytes) (hc : ¬ (r.headD 0 = 45 ∧ (r.drop 1).headD 0 = 45)) :
    ∃ t s1, nextStep (Lx.init (123 :: 123 :: r)) = (.tok t, s1) ∧ key t = (.LBRACES, [123, 123]) ∧ t.ty ≠ .EOF ∧
      s1.rest = r ∧ mode s1 = (false, false, 0, 0, false) ∧ s1.prev = 123 := by
  have hsk : skipWs (Lx.init (123 :: 123 :: r)) = Lx.init (123 :: 123 :: r) := by simp [skipWs, Lx.init]
  have hb := emit_after ({ st := { Lx.init (123 :: 123 :: r) with isHTML := false }, n := 2, ty := .LBRACES, lit := [123, 123] } : TokDesc)
    [123, 123] r (by simp) (by simp [Lx.init]) rfl
  obtain ⟨b1, b2, b3⟩ := hb
  have hbt : bracesToken (Lx.init (123 :: 123 :: r)) .LBRACES [123, 123] =
      ({ st := { Lx.init (123 :: 123 :: r) with isHTML := false }, n := 2, ty := .LBRACES, lit := [123, 123] } : TokDesc).emit := rfl
  refine ⟨(bracesToken (Lx.init (123 :: 123 :: r)) .LBRACES [123, 123]).1, (bracesToken (Lx.init (123 :: 123 :: r)) .LBRACES [123, 123]).2,
    ?_, ?_, ?_, ?_, ?_, ?_⟩
  · unfold nextStep
    rw [hsk]
    unfold stepAt
    have h1 : (Lx.init (123 :: 123 :: r)).isEOF = false := by simp [Lx.isEOF, Lx.init]
    have h2 : ((Lx.init (123 :: 123 :: r)).char == 123 && (Lx.init (123 :: 123 :: r)).peek == 123) = true := by
      simp [Lx.char, Lx.peek, Lx.init]
    rw [if_neg (by simp [h1]), if_pos h2]
    have h3 : ¬ (((bracesToken (Lx.init (123 :: 123 :: r)) .LBRACES [123, 123]).2.char == 45 &&
        (bracesToken (Lx.init (123 :: 123 :: r)) .LBRACES [123, 123]).2.peek == 45) = true) := by
      rw [hbt]
      simp only [Lx.char, Lx.peek, b1]
      simpa using hc
    rw [if_neg h3]
  · unfold bracesToken; rw [emit_key]
  · unfold bracesToken; rw [emit_ty]; decide
  · rw [hbt]; exact b1
  · rw [hbt, b2]; rfl
  · rw [hbt, b3]; rfl

theorem Respaced.left {a c : List (Bytes × Bytes)} (h : Respaced a c) : Respaced a a := by
  induction h with
  | nil => exact Respaced.nil
  | cons g g' ch v r r' hg _ _ hc _ ih => exact Respaced.cons g g ch v r r hg hg (fun h => h) hc ih

/-- a lexer state in code with the given input left -/
def codeState (r : Bytes) : Lx := { rest := r, isHTML := false }

/-- **whitespace inside `{{ }}` never changes the tokens** (C01): a template that begins with "{{",
    whose code the lexer reads as the lexemes of `a` separated by the gaps of `a`, and the template
    that separates the same lexemes by the gaps of `c` and continues with the same `tail`, have
    token lists of the same kinds and literals; the lexer ends in the same mode -/
theorem tokenize_respaced (tail : Bytes) (a c : List (Bytes × Bytes)) (h : Respaced a c) (hne : a ≠ [])
    (hcm : ¬ ((src a tail).headD 0 = 45 ∧ ((src a tail).drop 1).headD 0 = 45))
    (hreads : Reads (codeState (src a tail)) a) :
    ∃ r r', tokenize (123 :: 123 :: src a tail) = some r ∧ tokenize (123 :: 123 :: src c tail) = some r' ∧
      r'.toks.map key = r.toks.map key ∧ r'.insideCode = r.insideCode ∧ r'.panicked = r.panicked := by
  -- the comment test on the second source
  have hla := h.la tail
  have hcm' : ¬ ((src c tail).headD 0 = 45 ∧ ((src c tail).drop 1).headD 0 = 45) := by
    intro ⟨e1, e2⟩
    rcases hla with hw | ⟨q1, q2⟩
    · rw [e1] at hw; cases hw
    · rcases q2 with hw | q2
      · rw [e2] at hw; cases hw
      · exact hcm ⟨by rw [← q1]; exact e1, by rw [← q2]; exact e2⟩
  obtain ⟨t, s1, n1, k1, ne1, r1, m1, p1⟩ := open_braces_step (src a tail) hcm
  obtain ⟨t', s1', n1', k1', ne1', r1', m1', p1'⟩ := open_braces_step (src c tail) hcm'
  -- both lexings exist; give both the larger fuel
  obtain ⟨res, hres⟩ := Option.isSome_iff_exists.mp (lexAll_terminates (lexFuel (123 :: 123 :: src a tail)) (Lx.init (123 :: 123 :: src a tail))
    (by simp [lexFuel, Lx.init]))
  obtain ⟨res', hres'⟩ := Option.isSome_iff_exists.mp (lexAll_terminates (lexFuel (123 :: 123 :: src c tail)) (Lx.init (123 :: 123 :: src c tail))
    (by simp [lexFuel, Lx.init]))
  have big := lexAll_mono _ _ _ hres (lexFuel (123 :: 123 :: src c tail))
  have big' := lexAll_mono _ _ _ hres' (lexFuel (123 :: 123 :: src a tail))
  rw [Nat.add_comm] at big'
  -- peel the first step off both
  have run1 : Run (Lx.init (123 :: 123 :: src a tail)) [t] s1 := Run.cons _ _ _ _ _ n1 ne1 (Run.nil _)
  have run1' : Run (Lx.init (123 :: 123 :: src c tail)) [t'] s1' := Run.cons _ _ _ _ _ n1' ne1' (Run.nil _)
  obtain ⟨f, r0, e1, e2, e3⟩ := lexAll_of_run run1 _ res big
  obtain ⟨ts0, sf0⟩ := r0
  obtain ⟨ts1, sf1, q1, q2, q3⟩ := whitespace_between_code_tokens tail a c h hne s1 s1' (by rw [m1, m1']) r1 r1'
    (reads_respaced tail a a h.left (codeState (src a tail)) s1 (by rw [m1]; rfl) rfl r1 hreads) f ts0 sf0 e2
  have fw := lexAll_run_forward run1' f (ts1, sf1) q1
  rw [show [t'].length + f = [t].length + f from rfl, ← e1] at fw
  have hsame : res' = ([t'] ++ ts1, sf1) := by
    have := big'.symm.trans fw
    exact Option.some.inj this
  refine ⟨{ toks := res.1, insideCode := !res.2.isHTML, panicked := res.2.panicked },
    { toks := res'.1, insideCode := !res'.2.isHTML, panicked := res'.2.panicked }, ?_, ?_, ?_, ?_, ?_⟩
  · unfold tokenize; rw [hres]; rfl
  · unfold tokenize; rw [hres']; rfl
  · rw [hsame, e3]
    simp [q2, k1, k1']
  · rw [hsame, e3]; simp [q3.html]
  · rw [hsame, e3]; simp [q3.pan]

end Tw

namespace Tw
section examples
private def it (g u : String) : Bytes × Bytes := (b g, b u)
private def tight : List (Bytes × Bytes) :=
  [it "" "1", it "" "+", it "" "2", it "" "*", it "" "x", it "" ".", it "" "y", it "" "<=", it "" "-", it "" "3.5", it "" "}}"]
private def spaced : List (Bytes × Bytes) :=
  [it " " "1", it " " "+", it "\n" "2", it "\t" "*", it " " "x", it "" ".", it "  " "y", it " " "<=", it " " "-", it "\r\n" "3.5", it " " "}}"]
example : src tight (b "!") = b "1+2*x.y<=-3.5}}!" := by decide
example : src spaced (b "!") = b " 1 +\n2\t* x.  y <= -\r\n3.5 }}!" := by decide
example : Reads (codeState (src tight (b "!"))) tight := by decide
example : respacedB tight spaced = true := by decide
/-- the two templates have the same tokens, by the theorem -/
example : ∃ r r', tokenize (b "{{1+2*x.y<=-3.5}}!") = some r ∧ tokenize (b "{{ 1 +\n2\t* x.  y <= -\r\n3.5 }}!") = some r' ∧
    r'.toks.map key = r.toks.map key :=
  have ⟨r, r', h1, h2, h3, _, _⟩ := tokenize_respaced (b "!") tight spaced (respacedB_sound _ _ (by decide)) (by decide) (by decide) (by decide)
  ⟨r, r', h1, h2, h3⟩
end examples
end Tw
