/-
  TwProofs.Lemmas.Utf8Valid — `string(runes)` is valid UTF-8, decoding inverts encoding, and valid
  strings stay valid under concatenation and under dropping their first character (C11).
-/
import TwModel.Utf8
namespace Tw

/-- what `string(rune)` followed by `[]rune(...)` gives back: the rune itself, or U+FFFD for a
    surrogate or a value beyond U+10FFFF -/
def normRune (r : Nat) : Nat := if (0xD800 ≤ r && r ≤ 0xDFFF) || r > 0x10FFFF then 0xFFFD else r

theorem band {a c : Prop} [Decidable a] [Decidable c] (h1 : a) (h2 : c) : (decide a && decide c) = true := by simp [h1, h2]

theorem isCont_of {x : Nat} (h1 : 128 ≤ x) (h2 : x ≤ 191) : isCont x = true := by
  simp only [isCont, Bool.and_eq_true, decide_eq_true_eq]; exact ⟨h1, h2⟩

theorem notSurr {r : Nat} (h : r < 0xD800 ∨ (0xDFFF < r ∧ r ≤ 0x10FFFF)) :
    ((decide (0xD800 ≤ r) && decide (r ≤ 0xDFFF)) || decide (r > 0x10FFFF)) = false := by
  simp only [Bool.or_eq_false_iff, Bool.and_eq_false_iff, decide_eq_false_iff_not]; omega

theorem decodeRune_encodeRune (r : Nat) (rest : Bytes) :
    decodeRune (encodeRune r ++ rest) = (normRune r, (encodeRune r).length) := by
  unfold encodeRune normRune
  by_cases h1 : r < 0x80
  · simp [h1, notSurr (Or.inl (by omega : r < 0xD800)), decodeRune]
  · by_cases h2 : r < 0x800
    · simp only [h1, h2, if_false, if_true, notSurr (Or.inl (by omega : r < 0xD800)), Bool.false_eq_true,
        List.cons_append, List.nil_append, decodeRune, List.length_cons, List.length_nil]
      rw [if_neg (by omega), if_pos (band (by omega) (by omega)), if_pos (isCont_of (by omega) (by omega))]
      show ((192 + r / 64 - 192) * 64 + (128 + r % 64 - 128), 2) = (r, 2)
      have : (192 + r / 64 - 192) * 64 + (128 + r % 64 - 128) = r := by omega
      rw [this]
    · by_cases h3 : (0xD800 ≤ r ∧ r ≤ 0xDFFF) ∨ r > 0x10FFFF
      · have hs : ((decide (0xD800 ≤ r) && decide (r ≤ 0xDFFF)) || decide (r > 0x10FFFF)) = true := by
          simp only [Bool.or_eq_true, Bool.and_eq_true, decide_eq_true_eq]; exact h3
        simp (config := { decide := true }) [h1, h2, hs, decodeRune, isCont, runeError]
      · have hs := notSurr (r := r) (by omega)
        by_cases h4 : r < 0x10000
        · simp only [h1, h2, h4, if_false, if_true, hs, Bool.false_eq_true, List.cons_append, List.nil_append, decodeRune,
            List.length_cons, List.length_nil]
          rw [if_neg (by omega), if_neg (by simp only [Bool.and_eq_true, decide_eq_true_eq]; omega),
            if_pos (band (by omega) (by omega))]
          have c1lo : (if (0xE0 + r / 4096 == 0xE0) = true then 0xA0 else 0x80) ≤ 0x80 + r / 64 % 64 := by
            split
            · rename_i he; have : 0xE0 + r / 4096 = 0xE0 := by simpa using he
              omega
            · omega
          have c1hi : 0x80 + r / 64 % 64 ≤ (if (0xE0 + r / 4096 == 0xED) = true then 0x9F else 0xBF) := by
            split
            · rename_i he; have : 0xE0 + r / 4096 = 0xED := by simpa using he
              omega
            · omega
          rw [if_pos (by
            simp only [Bool.and_eq_true, decide_eq_true_eq]
            exact ⟨⟨c1lo, c1hi⟩, isCont_of (by omega) (by omega)⟩)]
          apply Prod.ext
          · dsimp only
            clear c1lo c1hi
            show ((224 + r / 4096 - 224) * 4096 + (128 + r / 64 % 64 - 128) * 64 + (128 + r % 64 - 128) : Nat) = r
            omega
          · rfl
        · simp only [h1, h2, h4, if_false, hs, Bool.false_eq_true, List.cons_append, List.nil_append, decodeRune,
            List.length_cons, List.length_nil]
          rw [if_neg (by omega), if_neg (by simp only [Bool.and_eq_true, decide_eq_true_eq]; omega),
            if_neg (by simp only [Bool.and_eq_true, decide_eq_true_eq]; omega),
            if_pos (band (by omega) (by omega))]
          have c1lo : (if (0xF0 + r / 262144 == 0xF0) = true then 0x90 else 0x80) ≤ 0x80 + r / 4096 % 64 := by
            split
            · rename_i he; have : 0xF0 + r / 262144 = 0xF0 := by simpa using he
              omega
            · omega
          have c1hi : 0x80 + r / 4096 % 64 ≤ (if (0xF0 + r / 262144 == 0xF4) = true then 0x8F else 0xBF) := by
            split
            · rename_i he; have : 0xF0 + r / 262144 = 0xF4 := by simpa using he
              omega
            · omega
          rw [if_pos (by
            simp only [Bool.and_eq_true, decide_eq_true_eq]
            exact ⟨⟨⟨c1lo, c1hi⟩, isCont_of (by omega) (by omega)⟩, isCont_of (by omega) (by omega)⟩)]
          apply Prod.ext
          · dsimp only
            clear c1lo c1hi
            show ((240 + r / 262144 - 240) * 262144 + (128 + r / 4096 % 64 - 128) * 4096 + (128 + r / 64 % 64 - 128) * 64 + (128 + r % 64 - 128) : Nat) = r
            omega
          · rfl
end Tw

namespace Tw

theorem encodeRune_length_pos (r : Nat) : 1 ≤ (encodeRune r).length := by
  unfold encodeRune
  split
  · simp
  · split
    · simp
    · split
      · simp
      · split <;> simp

theorem decodeRune_width_pos (c : Byte) (t : Bytes) : 1 ≤ (decodeRune (c :: t)).2 := by
  simp only [decodeRune]
  repeat' split
  all_goals simp

theorem validGo_nil (f : Nat) : validUtf8.go f [] = true := by
  cases f <;> simp [validUtf8.go]

theorem validGo_cons (f : Nat) (c : Byte) (t : Bytes) :
    validUtf8.go (f + 1) (c :: t) =
      if ((decodeRune (c :: t)).1 == runeError && (decodeRune (c :: t)).2 == 1) then false
      else validUtf8.go f ((c :: t).drop (decodeRune (c :: t)).2) := by
  rw [validUtf8.go]

/-- more fuel than bytes changes nothing -/
theorem validGo_fuel2 : ∀ (f1 f2 : Nat) (s : Bytes), s.length ≤ f1 → s.length ≤ f2 → validUtf8.go f1 s = validUtf8.go f2 s := by
  intro f1
  induction f1 with
  | zero =>
    intro f2 s h1 _
    cases s with
    | nil => rw [validGo_nil, validGo_nil]
    | cons _ _ => simp at h1
  | succ f ih =>
    intro f2 s h1 h2
    cases s with
    | nil => rw [validGo_nil, validGo_nil]
    | cons c t =>
      cases f2 with
      | zero => simp at h2
      | succ g =>
        rw [validGo_cons, validGo_cons]
        split
        · rfl
        · have hw := decodeRune_width_pos c t
          have hl : ((c :: t).drop (decodeRune (c :: t)).2).length ≤ t.length := by
            simp only [List.length_drop, List.length_cons]; omega
          simp only [List.length_cons] at h1 h2
          exact ih g _ (by omega) (by omega)

theorem validGo_fuel (f : Nat) (s : Bytes) (h : s.length ≤ f) : validUtf8.go f s = validUtf8.go s.length s :=
  validGo_fuel2 f s.length s h (Nat.le_refl _)

/-- **`string(runes)` is always valid UTF-8** (invalid runes become U+FFFD) -/
theorem validUtf8_encodeRunes (rs : List Nat) : validUtf8 (encodeRunes rs) = true := by
  unfold validUtf8
  induction rs with
  | nil => rfl
  | cons r rest ih =>
    have hpos := encodeRune_length_pos r
    have hsplit : encodeRunes (r :: rest) = encodeRune r ++ encodeRunes rest := by simp [encodeRunes]
    rw [hsplit]
    cases he : encodeRune r with
    | nil => rw [he] at hpos; simp at hpos
    | cons c t =>
      have hd := decodeRune_encodeRune r (encodeRunes rest)
      rw [he] at hd
      simp only [List.cons_append, List.length_cons] at hd ⊢
      rw [validGo_cons, hd]
      have hne : ((normRune r == runeError) && (t.length + 1 == 1)) = false := by
        -- U+FFFD is encoded in three bytes, everything else is not U+FFFD
        by_cases hn : normRune r = runeError
        · have : t.length + 1 = 3 := by
            have hlen : (encodeRune r).length = t.length + 1 := by rw [he]; rfl
            rw [← hlen]
            unfold normRune runeError at hn
            unfold encodeRune
            split at hn
            · rename_i hs
              have h1 : ¬ r < 0x80 := by
                intro h; simp only [Bool.or_eq_true, Bool.and_eq_true, decide_eq_true_eq] at hs; omega
              have h2 : ¬ r < 0x800 := by
                intro h; simp only [Bool.or_eq_true, Bool.and_eq_true, decide_eq_true_eq] at hs; omega
              simp [h1, h2, hs]
            · rename_i hs
              subst hn
              simp (config := { decide := true }) at hs ⊢
          simp [this]
        · simp [hn]
      simp only [hne, Bool.false_eq_true, if_false]
      have hdrop : List.drop (t.length + 1) (c :: (t ++ encodeRunes rest)) = encodeRunes rest := by
        simp
      rw [hdrop, validGo_fuel _ _ (by simp)]
      exact ih

end Tw

namespace Tw

/-- a complete, valid sequence at the start of a string decodes the same whatever follows it -/
theorem decodeRune_append (c : Byte) (t b2 : Bytes)
    (hv : ¬ ((decodeRune (c :: t)).1 = runeError ∧ (decodeRune (c :: t)).2 = 1)) :
    decodeRune (c :: t ++ b2) = decodeRune (c :: t) ∧ (decodeRune (c :: t)).2 ≤ t.length + 1 := by
  match t with
  | [] =>
    simp only [decodeRune, List.cons_append, List.nil_append] at hv ⊢
    repeat' split
    all_goals simp_all
  | [c1] =>
    simp only [decodeRune, List.cons_append, List.nil_append] at hv ⊢
    repeat' split
    all_goals simp_all
  | [c1, c2] =>
    simp only [decodeRune, List.cons_append, List.nil_append] at hv ⊢
    repeat' split
    all_goals simp_all
  | c1 :: c2 :: c3 :: r =>
    simp only [decodeRune, List.cons_append] at hv ⊢
    repeat' split
    all_goals simp_all

end Tw

namespace Tw

theorem validGo_append : ∀ (f : Nat) (a b2 : Bytes), a.length ≤ f → validUtf8.go f a = true → validUtf8 b2 = true →
    validUtf8.go (f + b2.length) (a ++ b2) = true := by
  intro f
  induction f with
  | zero =>
    intro a b2 hl _ hb
    cases a with
    | nil => simpa [validUtf8] using hb
    | cons _ _ => simp at hl
  | succ f ih =>
    intro a b2 hl ha hb
    cases a with
    | nil =>
      rw [List.nil_append, validGo_fuel _ _ (by omega)]
      exact hb
    | cons c t =>
      rw [validGo_cons] at ha
      split at ha
      · cases ha
      · rename_i hne
        have hv : ¬ ((decodeRune (c :: t)).1 = runeError ∧ (decodeRune (c :: t)).2 = 1) := by
          intro ⟨h1, h2⟩; apply hne; simp [h1, h2]
        obtain ⟨hd, hw⟩ := decodeRune_append c t b2 hv
        rw [List.cons_append] at hd
        have hpos := decodeRune_width_pos c t
        rw [show f + 1 + b2.length = (f + b2.length) + 1 by omega, List.cons_append, validGo_cons, hd]
        simp only [hne, if_false]
        have hdrop : List.drop (decodeRune (c :: t)).2 (c :: (t ++ b2)) = List.drop (decodeRune (c :: t)).2 (c :: t) ++ b2 := by
          rw [← List.cons_append, List.drop_append_of_le_length (by simpa using hw)]
        rw [hdrop]
        exact ih _ b2 (by simp only [List.length_drop, List.length_cons] at hl ⊢; omega) ha hb

/-- **concatenating valid UTF-8 gives valid UTF-8** -/
theorem validUtf8_append (a b2 : Bytes) (ha : validUtf8 a = true) (hb : validUtf8 b2 = true) : validUtf8 (a ++ b2) = true := by
  unfold validUtf8 at ha ⊢
  rw [List.length_append]
  exact validGo_append a.length a b2 (Nat.le_refl _) ha hb

/-- dropping the first character of valid UTF-8 leaves valid UTF-8 -/
theorem validUtf8_drop_first (c : Byte) (t : Bytes) (h : validUtf8 (c :: t) = true) :
    validUtf8 ((c :: t).drop (decodeRune (c :: t)).2) = true := by
  unfold validUtf8 at h ⊢
  rw [List.length_cons, validGo_cons] at h
  split at h
  · cases h
  · have hw := decodeRune_width_pos c t
    have hl : ((c :: t).drop (decodeRune (c :: t)).2).length ≤ t.length := by
      simp only [List.length_drop, List.length_cons]; omega
    rw [← validGo_fuel t.length _ hl]
    exact h

end Tw
