/-
  TwProofs.Lemmas.TextIf — templates of text, comments, `{{ name }}` blocks and
  `@if(name) text [@else text] @end` constructs, from the source bytes to the rendered output:
  exactly the branch chosen by the truthiness of the name is rendered, the text around the
  construct is unaffected (C02, C05).
-/
import TwProofs.Lemmas.TextVars
import TwProofs.Lemmas.LexStrPlain
namespace Tw
open Lx

/-! ### directive keywords -/

def kwIf : Bytes := [64, 105, 102]
def kwElse : Bytes := [64, 101, 108, 115, 101]
def kwEnd : Bytes := [64, 101, 110, 100]

theorem dirScan_if (x : Bytes) : dirScan [] .ILLEGAL (kwIf ++ x) = (kwIf, .IF) := by
  have h1 : lookupDirective [64] = .ILLEGAL := by decide
  have h2 : lookupDirective [64, 105] = .ILLEGAL := by decide
  have h3 : lookupDirective [64, 105, 102] = .IF := by decide
  have l1 : isLetterWord 64 = true := by decide
  have l2 : isLetterWord 105 = true := by decide
  have l3 : isLetterWord 102 = true := by decide
  simp only [kwIf, List.cons_append, List.nil_append, dirScan, l1, l2, l3, if_true, h1, h2, h3]
  simp [isPotentiallyLong]

theorem dirScan_else (x : Bytes) (hx : ¬ (x.headD 0 = 105 ∧ (x.drop 1).headD 0 = 102)) :
    dirScan [] .ILLEGAL (kwElse ++ x) = (kwElse, .ELSE) := by
  have h1 : lookupDirective [64] = .ILLEGAL := by decide
  have h2 : lookupDirective [64, 101] = .ILLEGAL := by decide
  have h3 : lookupDirective [64, 101, 108] = .ILLEGAL := by decide
  have h4 : lookupDirective [64, 101, 108, 115] = .ILLEGAL := by decide
  have h5 : lookupDirective [64, 101, 108, 115, 101] = .ELSE := by decide
  have l1 : isLetterWord 64 = true := by decide
  have l2 : isLetterWord 101 = true := by decide
  have l3 : isLetterWord 108 = true := by decide
  have l4 : isLetterWord 115 = true := by decide
  have hp : isPotentiallyLong .ELSE x = false := by
    unfold isPotentiallyLong
    have : (x.headD 0 == 105 && (x.drop 1).headD 0 == 102) = false := by
      cases h : (x.headD 0 == 105 && (x.drop 1).headD 0 == 102)
      · rfl
      · simp only [Bool.and_eq_true, beq_iff_eq] at h; exact absurd h hx
    simp only [beq_self_eq_true, Bool.true_and, this]
    rfl
  simp only [kwElse, List.cons_append, List.nil_append, dirScan, l1, l2, l3, l4, if_true, h1, h2, h3, h4, h5, hp]
  simp

theorem dirScan_end (x : Bytes) : dirScan [] .ILLEGAL (kwEnd ++ x) = (kwEnd, .END) := by
  have h1 : lookupDirective [64] = .ILLEGAL := by decide
  have h2 : lookupDirective [64, 101] = .ILLEGAL := by decide
  have h3 : lookupDirective [64, 101, 110] = .ILLEGAL := by decide
  have h4 : lookupDirective [64, 101, 110, 100] = .END := by decide
  have l1 : isLetterWord 64 = true := by decide
  have l2 : isLetterWord 101 = true := by decide
  have l3 : isLetterWord 110 = true := by decide
  have l4 : isLetterWord 100 = true := by decide
  simp only [kwEnd, List.cons_append, List.nil_append, dirScan, l1, l2, l3, l4, if_true, h1, h2, h3, h4]
  simp [isPotentiallyLong]

theorem hasDirectivePrefix_kw (kw x : Bytes) (hk : lookupDirective kw ≠ .ILLEGAL) (hl : 1 ≤ kw.length) (hl2 : kw.length ≤ longestDirective) :
    hasDirectivePrefix (kw ++ x) = true := by
  unfold hasDirectivePrefix
  rw [List.any_eq_true]
  refine ⟨kw.length - 1, by simp; omega, ?_⟩
  have e : kw.length - 1 + 1 = kw.length := by omega
  rw [e]
  simp only [List.length_append, Bool.and_eq_true, decide_eq_true_eq]
  refine ⟨by omega, ?_⟩
  rw [List.take_left']
  · simpa using hk
  · rfl

/-- a directive keyword in text mode: the token and the state behind it.  `dir` says whether the
    directive takes an argument list (`@if`) or not (`@else`, `@end`) -/
theorem lex_keyword (s : Lx) (kw x : Bytes) (ty : TT) (hh : s.isHTML = true) (hprev : s.prev ≠ 92)
    (hr : s.rest = kw ++ x) (hat : kw.headD 0 = 64) (hl : 1 ≤ kw.length) (hl2 : kw.length ≤ longestDirective)
    (hscan : dirScan [] .ILLEGAL (kw ++ x) = (kw, ty)) (hty : ty ≠ .ILLEGAL) (hlk : lookupDirective kw ≠ .ILLEGAL) (hne : ty ≠ .EOF) :
    ∃ t s1, nextStep s = (.tok t, s1) ∧ key t = (ty, kw) ∧ t.ty ≠ .EOF ∧ s1.rest = x ∧
      s1.isHTML = (tokensWithoutParens.contains ty && !(tokensWithOptionalParens.contains ty && x.headD 0 == 40)) ∧
      s1.isDirective = !(tokensWithoutParens.contains ty && !(tokensWithOptionalParens.contains ty && x.headD 0 == 40)) ∧
      s1.parens = s.parens ∧ s1.braces = s.braces ∧ s1.panicked = s.panicked ∧ s1.prev = kw.reverse.headD 0 := by
  have hws : skipWs s = s := by simp [skipWs, hh]
  have hkne : kw ≠ [] := by intro e; rw [e] at hl; simp at hl
  have hchar : s.char = 64 := by
    cases kw with
    | nil => exact absurd rfl hkne
    | cons c v => simp only [List.headD_cons] at hat; simp [Lx.char, hr, hat]
  have hdt : (isDirectiveToken s).1 = true := by
    unfold isDirectiveToken
    have e1 : (s.char != 64 || s.isEOF) = false := by
      rw [hchar]
      have : s.isEOF = false := by
        simp only [Lx.isEOF, hr]
        cases kw with
        | nil => exact absurd rfl hkne
        | cons c v => rfl
      simp [this]
    rw [e1]
    simp only [Bool.false_eq_true, if_false]
    rw [hr, hasDirectivePrefix_kw kw x hlk hl hl2]
    have : (s.prev == 92) = false := by simpa using hprev
    simp [this]
  have hdesc : directiveDesc s = { st := s, n := kw.length, ty := ty, lit := kw } := by
    unfold directiveDesc
    rw [if_neg (by rw [hchar]; simp), hr, hscan]
    simp only []
    rw [if_neg (by simpa using hty)]
  have hstep : stepAt s = (.tok (directiveToken s).1, (directiveToken s).2) := by
    unfold stepAt
    have hneof : s.isEOF = false := by
      simp only [Lx.isEOF, hr]
      cases kw with
      | nil => exact absurd rfl hkne
      | cons c v => rfl
    rw [if_neg (by simp [hneof]), if_neg (by rw [hchar]; simp), if_neg (by simp [hh]), if_neg (by simp [hh]), if_pos hdt]
  obtain ⟨a1, a2, a3⟩ := emit_after (directiveDesc s) kw x hkne (by rw [hdesc]; exact hr) (by rw [hdesc])
  have hdtok : directiveToken s = ((directiveDesc s).emit.1,
      { (directiveDesc s).emit.2 with
        isDirective := (tokensWithOptionalParens.contains ty && (directiveDesc s).emit.2.char == 40) || !tokensWithoutParens.contains ty,
        isHTML := !((tokensWithOptionalParens.contains ty && (directiveDesc s).emit.2.char == 40) || !tokensWithoutParens.contains ty) }) := by
    unfold directiveToken
    simp only []
    rw [hdesc]
    simp only []
    rw [if_neg (by simpa using hty)]
  have hc1 : (directiveDesc s).emit.2.char = x.headD 0 := by simp [Lx.char, a1]
  have hm : mode (directiveDesc s).emit.2 = mode s := by rw [a2, hdesc]
  refine ⟨(directiveToken s).1, (directiveToken s).2, by unfold nextStep; rw [hws, hstep], ?_, ?_, ?_, ?_, ?_, ?_, ?_, ?_, ?_⟩
  · rw [hdtok]; simp only []; unfold TokDesc.emit; rw [hdesc, emit_key]
  · rw [hdtok]; simp only []; unfold TokDesc.emit; rw [hdesc, emit_ty]; exact hne
  · rw [hdtok]; exact a1
  · rw [hdtok]; simp only [hc1]
    cases tokensWithoutParens.contains ty <;> cases tokensWithOptionalParens.contains ty <;> cases (x.headD 0 == 40) <;> rfl
  · rw [hdtok]; simp only [hc1]
    cases tokensWithoutParens.contains ty <;> cases tokensWithOptionalParens.contains ty <;> cases (x.headD 0 == 40) <;> rfl
  · rw [hdtok]; simp only []; exact mode_parens hm
  · rw [hdtok]; simp only []; exact mode_braces hm
  · rw [hdtok]; simp only []; exact mode_pan hm
  · rw [hdtok]; simp only [Lx.prev]; exact a3


/-! ### `@if(name)` -/

theorem codeStepDesc_lparen (s : Lx) (x : Bytes) (hr : s.rest = 40 :: x) :
    codeStepDesc s = { st := (if s.isDirective then { s with parens := s.parens + 1 } else s), n := 1, ty := .LPAREN, lit := [40] } := by
  have hc : s.char = 40 := by simp [Lx.char, hr]
  unfold codeStepDesc
  rw [if_neg (by rw [hc]; simp)]
  unfold codeDesc
  rw [hc]
  have : simpleToken 40 = none := by decide
  simp only [this]
  unfold bracketDesc
  rw [hc]
  simp

theorem codeStepDesc_rparen (s : Lx) (x : Bytes) (hr : s.rest = 41 :: x) :
    codeStepDesc s = { st := (if s.isDirective && s.parens - 1 == 0 then { s with parens := s.parens - 1, isDirective := false, isHTML := true }
                              else if s.isDirective then { s with parens := s.parens - 1 } else s), n := 1, ty := .RPAREN, lit := [41] } := by
  have hc : s.char = 41 := by simp [Lx.char, hr]
  unfold codeStepDesc
  rw [if_neg (by rw [hc]; simp)]
  unfold codeDesc
  rw [hc]
  have : simpleToken 41 = none := by decide
  simp only [this]
  unfold bracketDesc
  rw [hc]
  simp

/-- **the four tokens of `@if( name )`**: IF, LPAREN, IDENT, RPAREN whatever white space surrounds
    the name, and the lexer is back in text mode behind the closing parenthesis -/
theorem lex_if_header (s : Lx) (g1 n g2 tl : Bytes) (hh : s.isHTML = true) (hprev : s.prev ≠ 92) (hp0 : s.parens = 0)
    (hg1 : allWs g1) (hg2 : allWs g2) (hn : isName n)
    (hr : s.rest = kwIf ++ ([40] ++ g1 ++ n ++ g2 ++ [41] ++ tl)) :
    ∃ t1 t2 t3 t4 s4, Run s [t1, t2, t3, t4] s4 ∧ key t1 = (.IF, kwIf) ∧ key t2 = (.LPAREN, [40]) ∧ key t3 = (.IDENT, n) ∧
      key t4 = (.RPAREN, [41]) ∧ s4.rest = tl ∧ s4.isHTML = true ∧ s4.isDirective = false ∧ s4.parens = 0 ∧ s4.braces = s.braces ∧
      s4.panicked = s.panicked ∧ s4.prev = 41 := by
  obtain ⟨⟨c, v, hcv, hc⟩, hall, hkw⟩ := hn
  have hnn : isName n := ⟨⟨c, v, hcv, hc⟩, hall, hkw⟩
  have qws := (identCh_not_special hc).2.2.2.2.2.2.2.2.2.2.2.2.2
  -- "@if"
  obtain ⟨t1, s1, st1, k1, ne1, r1, h1, d1, p1, b1, pa1, _⟩ := lex_keyword s kwIf _ .IF hh hprev hr rfl (by decide) (by decide)
    (dirScan_if _) (by decide) (by decide) (by decide)
  have h1' : s1.isHTML = false := by rw [h1]; rfl
  have d1' : s1.isDirective = true := by rw [d1]; rfl
  -- "("
  have r1' : s1.rest = [] ++ (40 :: (g1 ++ n ++ g2 ++ [41] ++ tl)) := by rw [r1]; simp
  obtain ⟨w1, w2⟩ := skipWs_code s1 h1' [] _ (fun _ h => by cases h) r1' (by simp only [List.headD_cons]; decide)
  have hd2 := codeStepDesc_lparen (skipWs s1) _ w1
  have hdir2 : (skipWs s1).isDirective = true := by rw [mode_dir w2]; exact d1'
  rw [hdir2] at hd2
  simp only [if_true] at hd2
  have st2 := stepAt_code (skipWs s1) (by rw [mode_html w2]; exact h1') (by rw [w1]; simp) (by simp [Lx.char, w1])
  obtain ⟨a1, a2, a3⟩ := emit_after (codeStepDesc (skipWs s1)) [40] (g1 ++ n ++ g2 ++ [41] ++ tl) (by simp) (by rw [hd2]; simpa using w1) (by rw [hd2]; rfl)
  let s2 := (codeStepDesc (skipWs s1)).emit.2
  have m2 : mode s2 = (false, true, (1 : Int), s.braces, s.panicked) := by
    show mode (codeStepDesc (skipWs s1)).emit.2 = _
    rw [a2, hd2]
    simp only [mode]
    rw [mode_html w2, mode_parens w2, mode_braces w2, mode_pan w2, h1', p1, hp0, b1, pa1]
    rfl
  have h2 : s2.isHTML = false := by have := congrArg (·.1) m2; simpa [mode] using this
  -- the name
  have r2 : s2.rest = g1 ++ (n ++ (g2 ++ [41] ++ tl)) := by show (codeStepDesc (skipWs s1)).emit.2.rest = _; rw [a1]; simp
  have hxh : isWs ((n ++ (g2 ++ [41] ++ tl)).headD 0) = false := by rw [hcv]; simpa using qws
  obtain ⟨k31, k32⟩ := skipWs_code s2 h2 g1 _ hg1 r2 hxh
  have hx3 : (isIdentCh ((g2 ++ [41] ++ tl).headD 0) || isNumberCh ((g2 ++ [41] ++ tl).headD 0)) = false := by
    cases g2 with
    | nil => simp only [List.nil_append, List.cons_append, List.headD_cons]; decide
    | cons w t =>
      have hw : isWs w = true := hg2 w List.mem_cons_self
      simp only [List.cons_append, List.headD_cons]
      rw [ws_not_ident hw, ws_not_number hw]; rfl
  obtain ⟨e1, e2, e3, e4⟩ := codeStepDesc_name (skipWs s2) n (g2 ++ [41] ++ tl) hnn k31 hx3
  have st3 := stepAt_code (skipWs s2) (by rw [mode_html k32]; exact h2) (by rw [k31, hcv]; simp)
    (by
      intro ⟨e, _⟩
      have : (skipWs s2).char = c := by simp [Lx.char, k31, hcv]
      rw [this] at e
      exact (identCh_not_special hc).2.1 e)
  obtain ⟨f1, f2, f3⟩ := emit_after (codeStepDesc (skipWs s2)) n (g2 ++ [41] ++ tl) (by rw [hcv]; simp) (by rw [e4]; exact k31) e1
  let s3 := (codeStepDesc (skipWs s2)).emit.2
  have m3 : mode s3 = mode s2 := by show mode (codeStepDesc (skipWs s2)).emit.2 = _; rw [f2, e4, k32]
  have h3 : s3.isHTML = false := by rw [mode_html m3]; exact h2
  -- ")"
  have r3 : s3.rest = g2 ++ (41 :: tl) := by show (codeStepDesc (skipWs s2)).emit.2.rest = _; rw [f1]; simp
  obtain ⟨j1, j2⟩ := skipWs_code s3 h3 g2 _ hg2 r3 (by simp only [List.headD_cons]; decide)
  have hd4 := codeStepDesc_rparen (skipWs s3) tl j1
  have hdir4 : (skipWs s3).isDirective = true := by
    rw [mode_dir j2, mode_dir m3]; have := congrArg (·.2.1) m2; simpa [mode] using this
  have hpar4 : (skipWs s3).parens = 1 := by
    rw [mode_parens j2, mode_parens m3]; have := congrArg (·.2.2.1) m2; simpa [mode] using this
  rw [hdir4, hpar4] at hd4
  simp only [Bool.true_and, show ((1 : Int) - 1 == 0) = true from by decide, if_true] at hd4
  have st4 := stepAt_code (skipWs s3) (by rw [mode_html j2]; exact h3) (by rw [j1]; simp) (by simp [Lx.char, j1])
  obtain ⟨z1, z2, z3⟩ := emit_after (codeStepDesc (skipWs s3)) [41] tl (by simp) (by rw [hd4]; simpa using j1) (by rw [hd4]; rfl)
  have hbr4 : (skipWs s3).braces = s.braces := by
    rw [mode_braces j2, mode_braces m3]; have := congrArg (·.2.2.2.1) m2; simpa [mode] using this
  have hpa4 : (skipWs s3).panicked = s.panicked := by
    rw [mode_pan j2, mode_pan m3]; have := congrArg (·.2.2.2.2) m2; simpa [mode] using this
  refine ⟨t1, (codeStepDesc (skipWs s1)).emit.1, (codeStepDesc (skipWs s2)).emit.1, (codeStepDesc (skipWs s3)).emit.1,
    (codeStepDesc (skipWs s3)).emit.2, ?_, k1, ?_, ?_, ?_, z1, ?_, ?_, ?_, ?_, ?_, ?_⟩
  · refine Run.cons _ _ _ _ _ st1 ne1 ?_
    refine Run.cons s1 s2 _ _ _ (by unfold nextStep; exact st2) (by unfold TokDesc.emit; rw [emit_ty, hd2]; exact fun h => by cases h) ?_
    refine Run.cons s2 s3 _ _ _ (by unfold nextStep; exact st3) (by unfold TokDesc.emit; rw [emit_ty, e2]; decide) ?_
    exact Run.cons s3 _ _ _ _ (by unfold nextStep; exact st4) (by unfold TokDesc.emit; rw [emit_ty, hd4]; exact fun h => by cases h) (Run.nil _)
  · unfold TokDesc.emit; rw [emit_key, hd2]
  · unfold TokDesc.emit; rw [emit_key, e2, e3]
  · unfold TokDesc.emit; rw [emit_key, hd4]
  · rw [mode_html z2, hd4]
  · rw [mode_dir z2, hd4]
  · rw [mode_parens z2, hd4]; rfl
  · rw [mode_braces z2, hd4]; exact hbr4
  · rw [mode_pan z2, hd4]; exact hpa4
  · rw [z3]; rfl


/-! ### what a step in text mode leaves alone -/

theorem parens_advance (s : Lx) (n : Nat) : (advance s n).parens = s.parens := (advance_frame n s).2.2.2.2.1
theorem dir_advance (s : Lx) (n : Nat) : (advance s n).isDirective = s.isDirective := (advance_frame n s).2.2.2.1

/-- in text mode a `NextToken` body leaves the parenthesis counter alone, and the directive flag
    too unless the token is a directive keyword -/
theorem nextStep_html_frame (s : Lx) (hh : s.isHTML = true) :
    (nextStep s).2.parens = s.parens ∧ ((isDirectiveToken s).1 = false → (nextStep s).2.isDirective = s.isDirective) := by
  have hws : skipWs s = s := by simp [skipWs, hh]
  unfold nextStep
  rw [hws]
  unfold stepAt
  split
  · exact ⟨rfl, fun _ => rfl⟩
  split
  · split
    · unfold skipComment bracesToken emit
      simp only []
      split
      · simp [parens_advance, dir_advance, readChar_eq_advance, Lx.tokenBegins]
      · simp [parens_advance, dir_advance, readChar_eq_advance, Lx.tokenBegins]
    · unfold bracesToken emit; simp [parens_advance, dir_advance, Lx.tokenBegins]
  split
  · rename_i h; simp [hh] at h
  split
  · rename_i h; simp [hh] at h
  split
  · rename_i hd
    refine ⟨?_, fun h => by rw [h] at hd; cases hd⟩
    unfold directiveToken
    simp only []
    have hdp : (directiveDesc s).st.parens = s.parens := by
      unfold directiveDesc
      split
      · rfl
      · simp only []
        split
        · simp [illegalDesc, parens_advance, Lx.tokenBegins]
        · rfl
    split
    · unfold TokDesc.emit emit; simp [parens_advance, Lx.tokenBegins, hdp]
    · unfold TokDesc.emit emit; simp [parens_advance, Lx.tokenBegins, hdp]
  · unfold htmlToken emit; simp [parens_advance, dir_advance, Lx.tokenBegins]

theorem step_frame {s s1 : Lx} {r : LexStep} (hh : s.isHTML = true) (hnd : (isDirectiveToken s).1 = false) (h : nextStep s = (r, s1)) :
    s1.parens = s.parens ∧ s1.isDirective = s.isDirective := by
  obtain ⟨h1, h2⟩ := nextStep_html_frame s hh
  rw [h] at h1 h2
  exact ⟨h1, h2 hnd⟩

/-- the byte before the position behind a text token -/
theorem text_step_prev (s s1 : Lx) (t : Token) (cons bd : Bytes) (hh : s.isHTML = true) (hr : s.rest = cons ++ bd) (ha : cons ≠ [])
    (hnb : (s.char == 123 && s.peek == 123) = false) (hnd : (isDirectiveToken s).1 = false)
    (hn : (htmlScan s.prev [] 0 false s.rest).2.1 = cons.length) (h : nextStep s = (.tok t, s1)) :
    s1.prev = cons.reverse.headD 0 := by
  have hws : skipWs s = s := by simp [skipWs, hh]
  have hne : s.rest ≠ [] := by rw [hr]; simp [ha]
  have hstep : stepAt s = (.tok (htmlToken s).1, (htmlToken s).2) := by
    unfold stepAt
    rw [if_neg (by rw [isEOF_iff]; exact hne), if_neg (by rw [hnb]; simp),
      if_neg (by simp [hh]), if_neg (by simp [hh]), if_neg (by rw [hnd]; simp)]
  unfold nextStep at h
  rw [hws, hstep] at h
  have : s1 = (htmlToken s).2 := (Prod.mk.inj h).2.symm
  rw [this]
  unfold htmlToken
  simp only [emit]
  show ((s.tokenBegins.advance (htmlScan s.prev [] 0 false s.rest).2.1).pre).headD 0 = _
  rw [hn, (advance_pre_rest _ _).1, tokenBegins_rest, hr, List.take_left' rfl]
  cases hrev : cons.reverse with
  | nil => exact absurd (List.reverse_eq_nil_iff.mp hrev) ha
  | cons a r => rfl

theorem comment_not_directive (s : Lx) (r : Bytes) (hr : s.rest = 123 :: r) : (isDirectiveToken s).1 = false := by
  unfold isDirectiveToken
  have : (s.char != 64) = true := by simp [Lx.char, hr]
  rw [this]; rfl

/-! ### the templates -/

inductive WItem where
  | text (segs : List Seg)
  | comment (cm : Bytes)
  | print (g1 n g2 : Bytes)
  | lit (g1 : Bytes) (q : Byte) (c g2 : Bytes)
  | ifelse (g1 n g2 : Bytes) (th : List Seg) (el : Option (List Seg))

def elseSrc : Option (List Seg) → Bytes
  | none => []
  | some e => kwElse ++ segsSrc e

def WItem.src : WItem → Bytes
  | .text segs => segsSrc segs
  | .comment cm => [123, 123, 45, 45] ++ cm ++ [45, 45, 125, 125]
  | .print g1 n g2 => [123, 123] ++ g1 ++ n ++ g2 ++ [125, 125]
  | .lit g1 q c g2 => [123, 123] ++ g1 ++ (q :: (c ++ [q])) ++ g2 ++ [125, 125]
  | .ifelse g1 n g2 th el => kwIf ++ ([40] ++ g1 ++ n ++ g2 ++ [41] ++ (segsSrc th ++ (elseSrc el ++ kwEnd)))

def witemsSrc : List WItem → Bytes
  | [] => []
  | i :: r => i.src ++ witemsSrc r

def elseKeys : Option (List Seg) → List (TT × Bytes)
  | none => []
  | some e => [(.ELSE, kwElse), (.HTML, segsLit e)]

/-- kinds and literals of the tokens, in order (EOF excluded) -/
def wkeys : List WItem → List (TT × Bytes)
  | [] => []
  | .text segs :: r => (.HTML, segsLit segs) :: wkeys r
  | .comment _ :: r => wkeys r
  | .print _ n _ :: r => (.LBRACES, [123, 123]) :: (.IDENT, n) :: (.RBRACES, [125, 125]) :: wkeys r
  | .lit _ _ c _ :: r => (.LBRACES, [123, 123]) :: (.STR, c) :: (.RBRACES, [125, 125]) :: wkeys r
  | .ifelse _ n _ th el :: r =>
    (.IF, kwIf) :: (.LPAREN, [40]) :: (.IDENT, n) :: (.RPAREN, [41]) :: (.HTML, segsLit th) :: (elseKeys el ++ ((.END, kwEnd) :: wkeys r))

def afterRunW (segs : List Seg) : List WItem → Prop
  | [] => True
  | .text _ :: _ => False
  | _ :: _ => lastOr (segsSrc segs) 0 ≠ 92

/-- the `@else` part: a run of text that does not begin with "if", is followed by `@end`, and does not end in a backslash -/
def ElseOK (tl : Bytes) : Option (List Seg) → Prop
  | none => True
  | some e => startsRun e ∧ SegsOK e (kwEnd ++ tl) ∧ lastOr (segsSrc e) 0 ≠ 92 ∧
      ¬ ((segsSrc e ++ (kwEnd ++ tl)).headD 0 = 105 ∧ ((segsSrc e ++ (kwEnd ++ tl)).drop 1).headD 0 = 102)

def WItemsOK : List WItem → Prop
  | [] => True
  | .comment cm :: r => commentScan (cm ++ [45, 45, 125, 125] ++ witemsSrc r) = cm.length ∧ WItemsOK r
  | .text segs :: r => startsRun segs ∧ SegsOK segs (witemsSrc r) ∧ afterRunW segs r ∧ WItemsOK r
  | .print g1 n g2 :: r => allWs g1 ∧ allWs g2 ∧ isName n ∧ WItemsOK r
  | .lit g1 q c g2 :: r => allWs g1 ∧ allWs g2 ∧ (q = 34 ∨ q = 39) ∧ PlainStr q c ∧ WItemsOK r
  | .ifelse g1 n g2 th el :: r =>
    allWs g1 ∧ allWs g2 ∧ isName n ∧ startsRun th ∧ SegsOK th (elseSrc el ++ kwEnd ++ witemsSrc r) ∧ lastOr (segsSrc th) 0 ≠ 92 ∧
      ElseOK (witemsSrc r) el ∧ WItemsOK r

instance (segs : List Seg) : (r : List WItem) → Decidable (afterRunW segs r)
  | [] => isTrue trivial
  | .text _ :: _ => isFalse (by simp [afterRunW])
  | .comment _ :: _ => by unfold afterRunW; exact inferInstance
  | .print _ _ _ :: _ => by unfold afterRunW; exact inferInstance
  | .lit _ _ _ _ :: _ => by unfold afterRunW; exact inferInstance
  | .ifelse _ _ _ _ _ :: _ => by unfold afterRunW; exact inferInstance

instance (tl : Bytes) : (el : Option (List Seg)) → Decidable (ElseOK tl el)
  | none => isTrue trivial
  | some e => by unfold ElseOK; exact inferInstance

instance : (items : List WItem) → Decidable (WItemsOK items)
  | [] => isTrue trivial
  | .comment cm :: r =>
    have : Decidable (WItemsOK r) := instDecidableWItemsOK r
    by unfold WItemsOK; exact inferInstance
  | .text segs :: r =>
    have : Decidable (WItemsOK r) := instDecidableWItemsOK r
    by unfold WItemsOK; exact inferInstance
  | .print g1 n g2 :: r =>
    have : Decidable (WItemsOK r) := instDecidableWItemsOK r
    by unfold WItemsOK; exact inferInstance
  | .lit g1 q c g2 :: r =>
    have : Decidable (WItemsOK r) := instDecidableWItemsOK r
    by unfold WItemsOK; exact inferInstance
  | .ifelse g1 n g2 th el :: r =>
    have : Decidable (WItemsOK r) := instDecidableWItemsOK r
    by unfold WItemsOK; exact inferInstance

/-- the byte before an `@if` is no backslash -/
def PrevOK (s : Lx) : List WItem → Prop
  | .ifelse _ _ _ _ _ :: _ => s.prev ≠ 92
  | _ => True

def wfuel : List WItem → Nat
  | [] => 0
  | .print _ _ _ :: r => 3 + wfuel r
  | .lit _ _ _ _ :: r => 3 + wfuel r
  | .ifelse _ _ _ _ _ :: r => 8 + wfuel r
  | _ :: r => 1 + wfuel r


/-! ### one run of text in front of anything that ends it -/

/-- what ends a run: the end of the input, "{{", or a directive keyword -/
def Stops (tl : Bytes) : Prop :=
  tl = [] ∨ (∃ r, tl = 123 :: 123 :: r) ∨ (∃ r, tl = 64 :: r ∧ hasDirectivePrefix (64 :: r) = true)

theorem htmlScan_stops (prev : Byte) (out : Bytes) (n : Nat) (pan : Bool) (tl : Bytes) (hs : Stops tl) (hp : tl ≠ [] → prev ≠ 92) :
    htmlScan prev out n pan tl = (out, n, pan) := by
  rcases hs with h | ⟨r, h⟩ | ⟨r, h, hd⟩
  · subst h; rfl
  · subst h; exact htmlScan_stop_braces prev out n pan r (hp (by simp))
  · subst h
    have : (prev == 92) = false := by simpa using hp (by simp)
    rw [htmlScan]
    simp [hd, this]

theorem lastOr_eq (a : Bytes) (x : Byte) (h : a ≠ []) : lastOr a x = a.reverse.headD 0 := by
  unfold lastOr
  cases hr : a.reverse with
  | nil => exact absurd (List.reverse_eq_nil_iff.mp hr) h
  | cons c r => rfl

theorem lex_run (s : Lx) (segs : List Seg) (tl : Bytes) (hh : s.isHTML = true) (hst : startsRun segs) (hok : SegsOK segs tl)
    (hr : s.rest = segsSrc segs ++ tl) (hstop : Stops tl) (hlast : tl ≠ [] → lastOr (segsSrc segs) 0 ≠ 92) :
    ∃ t s1, nextStep s = (.tok t, s1) ∧ key t = (.HTML, segsLit segs) ∧ t.ty ≠ .EOF ∧ s1.rest = tl ∧ s1.isHTML = true ∧
      s1.panicked = s.panicked ∧ s1.braces = s.braces ∧ s1.parens = s.parens ∧ s1.isDirective = s.isDirective ∧
      s1.prev = lastOr (segsSrc segs) 0 := by
  obtain ⟨hne, hnb, hnd⟩ := run_head segs tl s hst hok hr
  have hscan : htmlScan s.prev [] 0 false s.rest = ((segsLit segs).reverse, (segsSrc segs).length, false) := by
    rw [hr, htmlScan_run segs tl s.prev [] 0 false hok]
    rw [htmlScan_stops _ _ _ _ tl hstop (fun h => by rw [lastOr_nonempty _ s.prev 0 hne]; exact hlast h)]
    simp
  obtain ⟨t, s1, hst1, ht1, hl1, hr1, hh1, hp1⟩ := nextStep_text' s (segsSrc segs) tl (segsLit segs) hh hr hne hnb hnd hscan
  obtain ⟨f1, f2⟩ := step_frame hh hnd hst1
  have hprev := text_step_prev s s1 t (segsSrc segs) tl hh hr hne hnb hnd (by rw [hscan]) hst1
  refine ⟨t, s1, hst1, by simp [key, ht1, hl1], by rw [ht1]; decide, hr1, hh1, hp1, step_braces hh hst1, f1, f2, ?_⟩
  rw [hprev, lastOr_eq _ 0 hne]

theorem stops_kw (kw x : Bytes) (hat : kw.headD 0 = 64) (hk : lookupDirective kw ≠ .ILLEGAL) (hl : 1 ≤ kw.length)
    (hl2 : kw.length ≤ longestDirective) : Stops (kw ++ x) := by
  right; right
  cases kw with
  | nil => simp at hl
  | cons c v =>
    simp only [List.headD_cons] at hat
    subst hat
    exact ⟨v ++ x, rfl, hasDirectivePrefix_kw (64 :: v) x hk hl hl2⟩

theorem stops_witems : ∀ (r : List WItem), (∀ segs r', r = .text segs :: r' → False) → Stops (witemsSrc r)
  | [], _ => Or.inl rfl
  | .text segs :: r', h => (h segs r' rfl).elim
  | .comment cm :: r', _ => Or.inr (Or.inl ⟨[45, 45] ++ cm ++ [45, 45, 125, 125] ++ witemsSrc r', by simp [witemsSrc, WItem.src]⟩)
  | .print g1 n g2 :: r', _ => Or.inr (Or.inl ⟨g1 ++ n ++ g2 ++ [125, 125] ++ witemsSrc r', by simp [witemsSrc, WItem.src]⟩)
  | .lit g1 q c g2 :: r', _ => Or.inr (Or.inl ⟨g1 ++ (q :: (c ++ [q])) ++ g2 ++ [125, 125] ++ witemsSrc r', by simp [witemsSrc, WItem.src]⟩)
  | .ifelse g1 n g2 th el :: r', _ => by
    have := stops_kw kwIf ([40] ++ g1 ++ n ++ g2 ++ [41] ++ (segsSrc th ++ (elseSrc el ++ kwEnd)) ++ witemsSrc r') rfl (by decide) (by decide) (by decide)
    simpa [witemsSrc, WItem.src, List.append_assoc] using this


theorem run_snoc {s sm sf : Lx} {ts : List Token} {t : Token} (h : Run s ts sm) (hs : nextStep sm = (.tok t, sf)) (hne : t.ty ≠ .EOF) :
    Run s (ts ++ [t]) sf := by
  induction h with
  | nil s => exact Run.cons _ _ _ _ _ hs hne (Run.nil _)
  | cons s s1 sm t0 ts0 h0 n0 _ ih => exact Run.cons _ _ _ _ _ h0 n0 (ih hs)

/-! ### the token list -/

theorem afterRunW_stops (segs : List Seg) (r : List WItem) (h : afterRunW segs r) :
    Stops (witemsSrc r) ∧ (witemsSrc r ≠ [] → lastOr (segsSrc segs) 0 ≠ 92) := by
  cases r with
  | nil => exact ⟨Or.inl rfl, fun h => absurd rfl h⟩
  | cons it r' =>
    cases it with
    | text _ => exact absurd h (by simp [afterRunW])
    | comment cm => exact ⟨stops_witems _ (fun _ _ e => by cases e), fun _ => h⟩
    | print g1 n g2 => exact ⟨stops_witems _ (fun _ _ e => by cases e), fun _ => h⟩
    | lit g1 q c g2 => exact ⟨stops_witems _ (fun _ _ e => by cases e), fun _ => h⟩
    | ifelse g1 n g2 th el => exact ⟨stops_witems _ (fun _ _ e => by cases e), fun _ => h⟩

theorem prevOK_of (s : Lx) (r : List WItem) (h : s.prev ≠ 92) : PrevOK s r := by
  cases r with
  | nil => trivial
  | cons it _ => cases it <;> first | trivial | exact h

/-- **the token list of a template of text, comments, `{{ name }}` blocks and `@if … @else … @end`
    constructs** -/
theorem lexAll_witems : ∀ (items : List WItem), WItemsOK items → ∀ (s : Lx) (fuel : Nat), s.rest = witemsSrc items →
    s.isHTML = true → s.panicked = false → s.braces = 0 → s.parens = 0 → s.isDirective = false → PrevOK s items →
    wfuel items + 1 ≤ fuel →
    ∃ toks e sf, lexAll fuel s = some (toks ++ [e], sf) ∧ toks.map key = wkeys items ∧ e.ty = .EOF ∧
      sf.isHTML = true ∧ sf.panicked = false
  | [], _, s, fuel, hr, hh, hp, _, _, _, _, hf => by
    obtain ⟨g, rfl⟩ : ∃ g, fuel = g + 1 := ⟨fuel - 1, by omega⟩
    have hst := nextStep_eof s hh (by simpa [witemsSrc] using hr)
    refine ⟨[], s.tokenBegins.newToken .EOF [], s.tokenBegins, ?_, rfl, by simp [newToken],
      by simpa [Lx.tokenBegins] using hh, by simpa [Lx.tokenBegins] using hp⟩
    rw [lexAll, hst]
    simp [newToken]
  | .comment cm :: r, hok, s, fuel, hr, hh, hp, hb, hpa, hd, _, hf => by
    obtain ⟨hcm, hokr⟩ := hok
    obtain ⟨g, rfl⟩ : ∃ g, fuel = g + 1 := ⟨fuel - 1, by omega⟩
    have hr0 : s.rest = [123, 123, 45, 45] ++ cm ++ [45, 45, 125, 125] ++ witemsSrc r := by rw [hr]; simp [witemsSrc, WItem.src]
    obtain ⟨s2, hst2, hr2, hh2, hp2, hprev2⟩ := nextStep_comment s cm (witemsSrc r) hh hr0 hcm
    obtain ⟨f1, f2⟩ := step_frame hh (comment_not_directive s _ (by rw [hr0]; rfl)) hst2
    obtain ⟨toks, e, sf, hl, hm, he, hhf, hpf⟩ := lexAll_witems r hokr s2 g hr2 hh2 (by rw [hp2]; exact hp)
      (by rw [step_braces hh hst2]; exact hb) (by rw [f1]; exact hpa) (by rw [f2]; exact hd)
      (prevOK_of s2 r (by rw [hprev2]; decide)) (by simp [wfuel] at hf; omega)
    refine ⟨toks, e, sf, ?_, by simpa [wkeys] using hm, he, hhf, hpf⟩
    rw [lexAll, hst2]
    exact hl
  | .text segs :: r, hok, s, fuel, hr, hh, hp, hb, hpa, hd, _, hf => by
    obtain ⟨hstart, hsegs, hafter, hokr⟩ := hok
    obtain ⟨g, rfl⟩ : ∃ g, fuel = g + 1 := ⟨fuel - 1, by omega⟩
    have hr' : s.rest = segsSrc segs ++ witemsSrc r := by rw [hr]; simp [witemsSrc, WItem.src]
    obtain ⟨hstop, hlast⟩ := afterRunW_stops segs r hafter
    obtain ⟨t, s1, hst1, hk1, hne1, hr1, hh1, hp1, hb1, hpa1, hd1, hprev1⟩ := lex_run s segs (witemsSrc r) hh hstart hsegs hr' hstop hlast
    have hpo : PrevOK s1 r := by
      cases r with
      | nil => trivial
      | cons it r' =>
        cases it with
        | ifelse g1 n g2 th el => show s1.prev ≠ 92; rw [hprev1]; exact hafter
        | _ => trivial
    obtain ⟨toks, e, sf, hl, hm, he, hhf, hpf⟩ := lexAll_witems r hokr s1 g hr1 hh1 (by rw [hp1]; exact hp)
      (by rw [hb1]; exact hb) (by rw [hpa1]; exact hpa) (by rw [hd1]; exact hd) hpo (by simp [wfuel] at hf; omega)
    refine ⟨t :: toks, e, sf, ?_, by simp [wkeys, hk1, hm], he, hhf, hpf⟩
    rw [lexAll, hst1]
    simp only []
    have : (t.ty == TT.EOF) = false := by simpa using hne1
    rw [this, hl]
    rfl
  | .print g1 n g2 :: r, hok, s, fuel, hr, hh, hp, hb, hpa, hd, _, hf => by
    obtain ⟨hg1, hg2, hn, hokr⟩ := hok
    obtain ⟨g, rfl⟩ : ∃ g, fuel = 3 + g := ⟨fuel - 3, by simp [wfuel] at hf; omega⟩
    obtain ⟨t1, t2, t3, s3, hrun, k1, k2, k3, r3, h3, b3, p3, pv3, d3, pa3⟩ := lex_print s g1 n g2 (witemsSrc r) hh hb hg1 hg2 hn
      (by rw [hr]; simp [witemsSrc, WItem.src])
    obtain ⟨toks, e, sf, hl, hm, he, hhf, hpf⟩ := lexAll_witems r hokr s3 g r3 h3 (by rw [p3]; exact hp) b3
      (by rw [pa3]; exact hpa) (by rw [d3]; exact hd) (prevOK_of s3 r (by rw [pv3]; decide)) (by simp [wfuel] at hf; omega)
    have := lexAll_run_forward hrun g (toks ++ [e], sf) hl
    refine ⟨t1 :: t2 :: t3 :: toks, e, sf, ?_, by simp [wkeys, k1, k2, k3, hm], he, hhf, hpf⟩
    simpa using this
  | .lit g1 q c g2 :: r, hok, s, fuel, hr, hh, hp, hb, hpa, hd, _, hf => by
    obtain ⟨hg1, hg2, hq, hpl, hokr⟩ := hok
    obtain ⟨g, rfl⟩ : ∃ g, fuel = 3 + g := ⟨fuel - 3, by simp [wfuel] at hf; omega⟩
    obtain ⟨t1, t2, t3, s3, hrun, k1, k2, k3, r3, h3, b3, p3, pv3, d3, pa3⟩ := lex_lit s g1 q c g2 (witemsSrc r) hh hb hg1 hg2 hq hpl
      (by rw [hr]; simp [witemsSrc, WItem.src])
    obtain ⟨toks, e, sf, hl, hm, he, hhf, hpf⟩ := lexAll_witems r hokr s3 g r3 h3 (by rw [p3]; exact hp) b3
      (by rw [pa3]; exact hpa) (by rw [d3]; exact hd) (prevOK_of s3 r (by rw [pv3]; decide)) (by simp [wfuel] at hf; omega)
    have := lexAll_run_forward hrun g (toks ++ [e], sf) hl
    refine ⟨t1 :: t2 :: t3 :: toks, e, sf, ?_, by simp [wkeys, k1, k2, k3, hm], he, hhf, hpf⟩
    simpa using this
  | .ifelse g1 n g2 th el :: r, hok, s, fuel, hr, hh, hp, hb, hpa, hd, hpv, hf => by
    obtain ⟨hg1, hg2, hn, hsth, hokth, hlth, hel, hokr⟩ := hok
    have hr0 : s.rest = kwIf ++ ([40] ++ g1 ++ n ++ g2 ++ [41] ++ (segsSrc th ++ (elseSrc el ++ kwEnd ++ witemsSrc r))) := by
      rw [hr]; simp [witemsSrc, WItem.src, List.append_assoc]
    -- header
    obtain ⟨t1, t2, t3, t4, s4, run4, k1, k2, k3, k4, r4, h4, d4, pa4, b4, p4, pv4⟩ :=
      lex_if_header s g1 n g2 _ hh hpv hpa hg1 hg2 hn hr0
    -- the text of the first branch; what follows is "@else" or "@end"
    have hstop5 : Stops (elseSrc el ++ kwEnd ++ witemsSrc r) := by
      cases el with
      | none => simpa [elseSrc] using stops_kw kwEnd (witemsSrc r) rfl (by decide) (by decide) (by decide)
      | some e =>
        have := stops_kw kwElse (segsSrc e ++ kwEnd ++ witemsSrc r) rfl (by decide) (by decide) (by decide)
        simpa [elseSrc, List.append_assoc] using this
    obtain ⟨t5, s5, st5, k5, ne5, r5, h5, p5, b5, pa5, d5, pv5⟩ := lex_run s4 th _ h4 hsth hokth r4 hstop5 (fun _ => hlth)
    have run5 : Run s [t1, t2, t3, t4, t5] s5 := by
      cases run4 with
      | cons _ a1 _ _ _ q1 n1 rest1 =>
        cases rest1 with
        | cons _ a2 _ _ _ q2 n2 rest2 =>
          cases rest2 with
          | cons _ a3 _ _ _ q3 n3 rest3 =>
            cases rest3 with
            | cons _ a4 _ _ _ q4 n4 rest4 =>
              cases rest4
              exact Run.cons _ _ _ _ _ q1 n1 (Run.cons _ _ _ _ _ q2 n2 (Run.cons _ _ _ _ _ q3 n3 (Run.cons _ _ _ _ _ q4 n4
                (Run.cons _ _ _ _ _ st5 ne5 (Run.nil _)))))
    cases el with
    | none =>
      -- "@end"
      have r5' : s5.rest = kwEnd ++ witemsSrc r := by rw [r5]; simp [elseSrc]
      obtain ⟨t6, s6, st6, k6, ne6, r6, h6, d6, pa6, b6, p6, pv6⟩ := lex_keyword s5 kwEnd (witemsSrc r) .END h5 (by rw [pv5]; exact hlth) r5'
        rfl (by decide) (by decide) (dirScan_end _) (by decide) (by decide) (by decide)
      obtain ⟨g, rfl⟩ : ∃ g, fuel = 6 + g := ⟨fuel - 6, by simp [wfuel] at hf; omega⟩
      obtain ⟨toks, e, sf, hl, hm, he, hhf, hpf⟩ := lexAll_witems r hokr s6 g r6 (by rw [h6]; rfl) (by rw [p6, p5, p4]; exact hp)
        (by rw [b6, b5, b4]; exact hb) (by rw [pa6, pa5]; exact pa4) (by rw [d6]; rfl) (prevOK_of s6 r (by rw [pv6]; decide))
        (by simp [wfuel] at hf; omega)
      have run6 : Run s [t1, t2, t3, t4, t5, t6] s6 := by
        have := run5
        clear run5
        revert this
        intro run5
        exact run_snoc run5 st6 ne6
      have := lexAll_run_forward run6 g (toks ++ [e], sf) hl
      refine ⟨t1 :: t2 :: t3 :: t4 :: t5 :: t6 :: toks, e, sf, by simpa using this, ?_, he, hhf, hpf⟩
      simp [wkeys, elseKeys, k1, k2, k3, k4, k5, k6, hm]
    | some e =>
      obtain ⟨hste, hoke, hle, hnif⟩ := hel
      -- "@else"
      have r5' : s5.rest = kwElse ++ (segsSrc e ++ (kwEnd ++ witemsSrc r)) := by rw [r5]; simp [elseSrc, List.append_assoc]
      obtain ⟨t6, s6, st6, k6, ne6, r6, h6, d6, pa6, b6, p6, pv6⟩ := lex_keyword s5 kwElse _ .ELSE h5 (by rw [pv5]; exact hlth) r5'
        rfl (by decide) (by decide) (dirScan_else _ hnif) (by decide) (by decide) (by decide)
      -- the text of the second branch
      have h6' : s6.isHTML = true := by rw [h6]; rfl
      obtain ⟨t7, s7, st7, k7, ne7, r7, h7, p7, b7, pa7, d7, pv7⟩ := lex_run s6 e (kwEnd ++ witemsSrc r) h6' hste hoke r6
        (stops_kw kwEnd (witemsSrc r) rfl (by decide) (by decide) (by decide)) (fun _ => hle)
      -- "@end"
      obtain ⟨t8, s8, st8, k8, ne8, r8, h8, d8, pa8, b8, p8, pv8⟩ := lex_keyword s7 kwEnd (witemsSrc r) .END h7 (by rw [pv7]; exact hle) r7
        rfl (by decide) (by decide) (dirScan_end _) (by decide) (by decide) (by decide)
      obtain ⟨g, rfl⟩ : ∃ g, fuel = 8 + g := ⟨fuel - 8, by simp [wfuel] at hf; omega⟩
      obtain ⟨toks, e', sf, hl, hm, he, hhf, hpf⟩ := lexAll_witems r hokr s8 g r8 (by rw [h8]; rfl)
        (by rw [p8, p7, p6, p5, p4]; exact hp) (by rw [b8, b7, b6, b5, b4]; exact hb) (by rw [pa8, pa7, pa6, pa5]; exact pa4)
        (by rw [d8]; rfl) (prevOK_of s8 r (by rw [pv8]; decide)) (by simp [wfuel] at hf; omega)
      have run8 : Run s [t1, t2, t3, t4, t5, t6, t7, t8] s8 :=
        run_snoc (run_snoc (run_snoc run5 st6 ne6) st7 ne7) st8 ne8
      have := lexAll_run_forward run8 g (toks ++ [e'], sf) hl
      refine ⟨t1 :: t2 :: t3 :: t4 :: t5 :: t6 :: t7 :: t8 :: toks, e', sf, by simpa using this, ?_, he, hhf, hpf⟩
      simp [wkeys, elseKeys, k1, k2, k3, k4, k5, k6, k7, k8, hm]


/-! ### the parser -/

/-- what a statement of such a template is, tokens forgotten -/
inductive WSpec where
  | text (t : Bytes)
  | hole (n : Bytes)
  | slit (v : Bytes)
  | cond (n : Bytes) (th : Bytes) (el : Option Bytes)
  deriving DecidableEq

def specOf : Stmt → Option WSpec
  | .html t => some (.text t.lit)
  | .expr _ (.ident _ n) => some (.hole n)
  | .expr _ (.str _ v) => some (.slit v)
  | .ifS _ (.ident _ n) [.html t] [] none => some (.cond n t.lit none)
  | .ifS _ (.ident _ n) [.html t] [] (some [.html t2]) => some (.cond n t.lit (some t2.lit))
  | _ => none

def wspec : List WItem → List WSpec
  | [] => []
  | .text segs :: r => .text (segsLit segs) :: wspec r
  | .comment _ :: r => wspec r
  | .print _ n _ :: r => .hole n :: wspec r
  | .lit _ _ c _ :: r => .slit c :: wspec r
  | .ifelse _ n _ th el :: r => .cond n (segsLit th) (el.map segsLit) :: wspec r

theorem wkeys_clean : ∀ (items : List WItem) (x : TT × Bytes), x ∈ wkeys items → x.1 ≠ .ILLEGAL ∧ x.1 ≠ .EOF
  | [], x, h => by simp [wkeys] at h
  | .text _ :: r, x, h => by
    simp only [wkeys, List.mem_cons] at h
    rcases h with h | h
    · rw [h]; exact ⟨by simp, by simp⟩
    · exact wkeys_clean r x h
  | .comment _ :: r, x, h => wkeys_clean r x (by simpa [wkeys] using h)
  | .print _ _ _ :: r, x, h => by
    simp only [wkeys, List.mem_cons] at h
    rcases h with h | h | h | h
    · rw [h]; exact ⟨by simp, by simp⟩
    · rw [h]; exact ⟨by simp, by simp⟩
    · rw [h]; exact ⟨by simp, by simp⟩
    · exact wkeys_clean r x h
  | .lit _ _ _ _ :: r, x, h => by
    simp only [wkeys, List.mem_cons] at h
    rcases h with h | h | h | h
    · rw [h]; exact ⟨by simp, by simp⟩
    · rw [h]; exact ⟨by simp, by simp⟩
    · rw [h]; exact ⟨by simp, by simp⟩
    · exact wkeys_clean r x h
  | .ifelse _ _ _ _ el :: r, x, h => by
    simp only [wkeys, List.mem_cons, List.mem_append] at h
    rcases h with h | h | h | h | h | h | h | h
    · rw [h]; exact ⟨by simp, by simp⟩
    · rw [h]; exact ⟨by simp, by simp⟩
    · rw [h]; exact ⟨by simp, by simp⟩
    · rw [h]; exact ⟨by simp, by simp⟩
    · rw [h]; exact ⟨by simp, by simp⟩
    · cases el with
      | none => simp [elseKeys] at h
      | some e =>
        simp only [elseKeys, List.mem_cons, List.not_mem_nil, or_false] at h
        rcases h with h | h <;> rw [h] <;> exact ⟨by simp, by simp⟩
    · rw [h]; exact ⟨by simp, by simp⟩
    · exact wkeys_clean r x h

/-- a block of one text token in front of `@else` or `@end` -/
theorem parseBody_one_text (j : Nat) (tp th tn : Token) (rest : List Token) (hth : th.ty = .HTML)
    (htn : tn.ty = .ELSE ∨ tn.ty = .END) (hclean : ∀ x ∈ rest, x.ty ≠ .ILLEGAL) :
    parseBody (j + 3) ({ toks := tp :: th :: tn :: rest } : PS) = ([.html th], { toks := th :: tn :: rest }) := by
  have hn : ∀ x ∈ th :: tn :: rest, x.ty ≠ .ILLEGAL := by
    intro x hx
    rcases List.mem_cons.mp hx with h | h
    · rw [h, hth]; decide
    · rcases List.mem_cons.mp h with h | h
      · rw [h]; rcases htn with e | e <;> rw [e] <;> decide
      · exact hclean x h
  have nx : ({ toks := tp :: th :: tn :: rest } : PS).next = { toks := th :: tn :: rest } := ps_next_clean tp th _ hn
  show bodyBody (parseBlockStmt (j + 2)) ({ toks := tp :: th :: tn :: rest } : PS) = _
  unfold bodyBody
  have pk : ∀ t : TT, t ≠ .HTML → ({ toks := tp :: th :: tn :: rest } : PS).peekIs t = false := by
    intro t ht; simp [PS.peekIs, PS.peek, hth]; exact fun e => ht e.symm
  rw [pk .ELSE (by decide), pk .ELSE_IF (by decide), pk .END (by decide)]
  simp only [Bool.or_self, Bool.false_eq_true, if_false, nx]
  show blockStmtBody (parseStatement (j + 1)) (parseBlockStmt (j + 1)) [] ({ toks := th :: tn :: rest } : PS) = _
  unfold blockStmtBody
  have ck : ∀ t : TT, t ≠ .HTML → ({ toks := th :: tn :: rest } : PS).curIs t = false := by
    intro t ht; simp [PS.curIs, PS.cur, hth]; exact fun e => ht e.symm
  rw [ck .END (by decide), ck .EOF (by decide), ck .ILLEGAL (by decide)]
  simp only [Bool.false_eq_true, if_false]
  have hs : parseStatement (j + 1) ({ toks := th :: tn :: rest } : PS) = (.html th, { toks := th :: tn :: rest }) := by
    show statementBody (parseExpression j) (parseExprList j) (parseBody j) (parseIfTail j) (parseSlots j) _ = _
    simp [statementBody, PS.cur, hth]
  rw [hs]
  have pe : (({ toks := th :: tn :: rest } : PS).peekIs .ELSE || ({ toks := th :: tn :: rest } : PS).peekIs .ELSE_IF ||
      ({ toks := th :: tn :: rest } : PS).peekIs .END) = true := by
    rcases htn with e | e <;> simp [PS.peekIs, PS.peek, e]
  simp [Stmt.isBad, pe]

/-- the expression of the header: an identifier in front of ")" -/
theorem parse_ident_rparen (g : Nat) (t3 t4 : Token) (rest : List Token) (h3 : t3.ty = .IDENT) (h4 : t4.ty = .RPAREN) :
    parseExpression (g + 2) LOWEST ({ toks := t3 :: t4 :: rest } : PS) = (.ident t3 t3.lit, { toks := t3 :: t4 :: rest }) := by
  rw [parseExpression_succ]
  have hp : prefixBody (parseExpression (g + 1)) (parseExprList (g + 1)) (parseObjLoop (g + 1))
      ({ toks := t3 :: t4 :: rest } : PS) = some (.ident t3 t3.lit, { toks := t3 :: t4 :: rest }) := by
    unfold prefixBody
    simp [PS.cur, h3]
  rw [hp]
  simp only []
  rw [prattLoop_succ]
  have : ({ toks := t3 :: t4 :: rest } : PS).peekIs .RPAREN = true := by simp [PS.peekIs, PS.peek, h4]
  simp [this]


theorem expectPeek_ok (p : PS) (t : TT) (h : p.peekIs t = true) : p.expectPeek t = (true, p.next) := by
  simp [PS.expectPeek, h]

/-- `@if(name) text @end` -/
theorem parse_if_noelse (g : Nat) (t1 t2 t3 t4 t5 t6 : Token) (rest : List Token)
    (h1 : t1.ty = .IF) (h2 : t2.ty = .LPAREN) (h3 : t3.ty = .IDENT) (h4 : t4.ty = .RPAREN) (h5 : t5.ty = .HTML) (h6 : t6.ty = .END)
    (hclean : ∀ x ∈ rest, x.ty ≠ .ILLEGAL) :
    parseStatement (g + 5) ({ toks := t1 :: t2 :: t3 :: t4 :: t5 :: t6 :: rest } : PS) =
      (.ifS t1 (.ident t3 t3.lit) [.html t5] [] none, { toks := t6 :: rest }) := by
  have c6 : ∀ x ∈ t6 :: rest, x.ty ≠ .ILLEGAL := fun x hx => by
    rcases List.mem_cons.mp hx with h | h
    · rw [h, h6]; decide
    · exact hclean x h
  have c5 : ∀ x ∈ t5 :: t6 :: rest, x.ty ≠ .ILLEGAL := fun x hx => by
    rcases List.mem_cons.mp hx with h | h
    · rw [h, h5]; decide
    · exact c6 x h
  have c4 : ∀ x ∈ t4 :: t5 :: t6 :: rest, x.ty ≠ .ILLEGAL := fun x hx => by
    rcases List.mem_cons.mp hx with h | h
    · rw [h, h4]; decide
    · exact c5 x h
  have c3 : ∀ x ∈ t3 :: t4 :: t5 :: t6 :: rest, x.ty ≠ .ILLEGAL := fun x hx => by
    rcases List.mem_cons.mp hx with h | h
    · rw [h, h3]; decide
    · exact c4 x h
  have c2 : ∀ x ∈ t2 :: t3 :: t4 :: t5 :: t6 :: rest, x.ty ≠ .ILLEGAL := fun x hx => by
    rcases List.mem_cons.mp hx with h | h
    · rw [h, h2]; decide
    · exact c3 x h
  show statementBody (parseExpression (g + 4)) (parseExprList (g + 4)) (parseBody (g + 4)) (parseIfTail (g + 4)) (parseSlots (g + 4)) _ = _
  have hc : ({ toks := t1 :: t2 :: t3 :: t4 :: t5 :: t6 :: rest } : PS).cur.ty = .IF := by simp [PS.cur, h1]
  unfold statementBody
  simp only [hc]
  unfold parseIfStmt
  have e1 := expectPeek_ok ({ toks := t1 :: t2 :: t3 :: t4 :: t5 :: t6 :: rest } : PS) .LPAREN (by simp [PS.peekIs, PS.peek, h2])
  rw [e1, ps_next_clean t1 t2 _ c2]
  simp only [Bool.not_true, Bool.false_eq_true, if_false, ps_next_clean t2 t3 _ c3]
  rw [parse_ident_rparen (g + 2) t3 t4 _ h3 h4]
  simp only []
  have e2 := expectPeek_ok ({ toks := t3 :: t4 :: t5 :: t6 :: rest } : PS) .RPAREN (by simp [PS.peekIs, PS.peek, h4])
  rw [e2, ps_next_clean t3 t4 _ c4]
  simp only [Bool.not_true, Bool.false_eq_true, if_false]
  rw [parseBody_one_text (g + 1) t4 t5 t6 rest h5 (Or.inr h6) hclean]
  simp only [PS.cur, List.headD_cons]
  show ifTailBody (parseExpression (g + 3)) (parseBody (g + 3)) (parseIfTail (g + 3)) t1 (.ident t3 t3.lit) [.html t5] []
    ({ toks := t5 :: t6 :: rest } : PS) = _
  unfold ifTailBody
  have k1 : ({ toks := t5 :: t6 :: rest } : PS).peekIs .ELSE_IF = false := by simp [PS.peekIs, PS.peek, h6]
  have k2 : ({ toks := t5 :: t6 :: rest } : PS).peekIs .ELSE = false := by simp [PS.peekIs, PS.peek, h6]
  have e3 := expectPeek_ok ({ toks := t5 :: t6 :: rest } : PS) .END (by simp [PS.peekIs, PS.peek, h6])
  simp only [k1, k2, Bool.false_eq_true, if_false, e3, if_true]
  congr 1
  cases rest with
  | nil => rfl
  | cons t7 r7 => exact ps_next_clean t5 t6 _ c6

/-- `@if(name) text @else text @end` -/
theorem parse_if_else (g : Nat) (t1 t2 t3 t4 t5 t6 t7 t8 : Token) (rest : List Token)
    (h1 : t1.ty = .IF) (h2 : t2.ty = .LPAREN) (h3 : t3.ty = .IDENT) (h4 : t4.ty = .RPAREN) (h5 : t5.ty = .HTML) (h6 : t6.ty = .ELSE)
    (h7 : t7.ty = .HTML) (h8 : t8.ty = .END) (hclean : ∀ x ∈ rest, x.ty ≠ .ILLEGAL) :
    parseStatement (g + 5) ({ toks := t1 :: t2 :: t3 :: t4 :: t5 :: t6 :: t7 :: t8 :: rest } : PS) =
      (.ifS t1 (.ident t3 t3.lit) [.html t5] [] (some [.html t7]), { toks := t8 :: rest }) := by
  have c8 : ∀ x ∈ t8 :: rest, x.ty ≠ .ILLEGAL := fun x hx => by
    rcases List.mem_cons.mp hx with h | h
    · rw [h, h8]; decide
    · exact hclean x h
  have c7 : ∀ x ∈ t7 :: t8 :: rest, x.ty ≠ .ILLEGAL := fun x hx => by
    rcases List.mem_cons.mp hx with h | h
    · rw [h, h7]; decide
    · exact c8 x h
  have c6 : ∀ x ∈ t6 :: t7 :: t8 :: rest, x.ty ≠ .ILLEGAL := fun x hx => by
    rcases List.mem_cons.mp hx with h | h
    · rw [h, h6]; decide
    · exact c7 x h
  have c5 : ∀ x ∈ t5 :: t6 :: t7 :: t8 :: rest, x.ty ≠ .ILLEGAL := fun x hx => by
    rcases List.mem_cons.mp hx with h | h
    · rw [h, h5]; decide
    · exact c6 x h
  have c4 : ∀ x ∈ t4 :: t5 :: t6 :: t7 :: t8 :: rest, x.ty ≠ .ILLEGAL := fun x hx => by
    rcases List.mem_cons.mp hx with h | h
    · rw [h, h4]; decide
    · exact c5 x h
  have c3 : ∀ x ∈ t3 :: t4 :: t5 :: t6 :: t7 :: t8 :: rest, x.ty ≠ .ILLEGAL := fun x hx => by
    rcases List.mem_cons.mp hx with h | h
    · rw [h, h3]; decide
    · exact c4 x h
  have c2 : ∀ x ∈ t2 :: t3 :: t4 :: t5 :: t6 :: t7 :: t8 :: rest, x.ty ≠ .ILLEGAL := fun x hx => by
    rcases List.mem_cons.mp hx with h | h
    · rw [h, h2]; decide
    · exact c3 x h
  show statementBody (parseExpression (g + 4)) (parseExprList (g + 4)) (parseBody (g + 4)) (parseIfTail (g + 4)) (parseSlots (g + 4)) _ = _
  have hc : ({ toks := t1 :: t2 :: t3 :: t4 :: t5 :: t6 :: t7 :: t8 :: rest } : PS).cur.ty = .IF := by simp [PS.cur, h1]
  unfold statementBody
  simp only [hc]
  unfold parseIfStmt
  have e1 := expectPeek_ok ({ toks := t1 :: t2 :: t3 :: t4 :: t5 :: t6 :: t7 :: t8 :: rest } : PS) .LPAREN (by simp [PS.peekIs, PS.peek, h2])
  rw [e1, ps_next_clean t1 t2 _ c2]
  simp only [Bool.not_true, Bool.false_eq_true, if_false, ps_next_clean t2 t3 _ c3]
  rw [parse_ident_rparen (g + 2) t3 t4 _ h3 h4]
  simp only []
  have e2 := expectPeek_ok ({ toks := t3 :: t4 :: t5 :: t6 :: t7 :: t8 :: rest } : PS) .RPAREN (by simp [PS.peekIs, PS.peek, h4])
  rw [e2, ps_next_clean t3 t4 _ c4]
  simp only [Bool.not_true, Bool.false_eq_true, if_false]
  rw [parseBody_one_text (g + 1) t4 t5 t6 _ h5 (Or.inl h6) c7]
  simp only [PS.cur, List.headD_cons]
  show ifTailBody (parseExpression (g + 3)) (parseBody (g + 3)) (parseIfTail (g + 3)) t1 (.ident t3 t3.lit) [.html t5] []
    ({ toks := t5 :: t6 :: t7 :: t8 :: rest } : PS) = _
  unfold ifTailBody
  have k1 : ({ toks := t5 :: t6 :: t7 :: t8 :: rest } : PS).peekIs .ELSE_IF = false := by simp [PS.peekIs, PS.peek, h6]
  have k2 : ({ toks := t5 :: t6 :: t7 :: t8 :: rest } : PS).peekIs .ELSE = true := by simp [PS.peekIs, PS.peek, h6]
  simp only [k1, k2, Bool.false_eq_true, if_false, if_true, ps_next_clean t5 t6 _ c6]
  rw [parseBody_one_text g t6 t7 t8 rest h7 (Or.inr h8) hclean]
  simp only []
  have k3 : ({ toks := t7 :: t8 :: rest } : PS).peekIs .ELSE_IF = false := by simp [PS.peekIs, PS.peek, h8]
  have e3 := expectPeek_ok ({ toks := t7 :: t8 :: rest } : PS) .END (by simp [PS.peekIs, PS.peek, h8])
  simp only [k3, Bool.false_eq_true, if_false, e3, if_true]
  congr 1
  cases rest with
  | nil => rfl
  | cons t9 r9 => exact ps_next_clean t7 t8 _ c8


/-- the statement loop over the tokens of such a template -/
theorem parseLoop_witems : ∀ (items : List WItem) (toks : List Token) (e : Token) (acc : List Stmt) (f : Nat),
    toks.map key = wkeys items → e.ty = .EOF → (wspec items).length + 8 ≤ f →
    ∃ stmts, parseProgramLoop f acc ({ toks := toks ++ [e] } : PS) = (some (acc ++ stmts), { toks := [e] }) ∧
      stmts.map specOf = (wspec items).map some
  | [], toks, e, acc, f, hk, he, hf => by
    have : toks = [] := by simpa [wkeys] using hk
    subst this
    obtain ⟨g, rfl⟩ : ∃ g, f = g + 1 := ⟨f - 1, by omega⟩
    refine ⟨[], ?_, rfl⟩
    rw [parseProgramLoop]
    have c : ({ toks := [e] } : PS).curIs .EOF = true := by simp [PS.curIs, PS.cur, he]
    simp [c]
  | .comment _ :: r, toks, e, acc, f, hk, he, hf => by
    obtain ⟨stmts, h1, h2⟩ := parseLoop_witems r toks e acc f (by simpa [wkeys] using hk) he (by simpa [wspec] using hf)
    exact ⟨stmts, h1, by simpa [wspec] using h2⟩
  | .text segs :: r, toks, e, acc, f, hk, he, hf => by
    cases toks with
    | nil => simp [wkeys] at hk
    | cons t rest =>
      simp only [wkeys, List.map_cons, List.cons.injEq] at hk
      obtain ⟨hkt, hkr⟩ := hk
      have ht : t.ty = .HTML := congrArg Prod.fst hkt
      have hlit : t.lit = segsLit segs := congrArg Prod.snd hkt
      obtain ⟨g, rfl⟩ : ∃ g, f = g + 1 + 1 := ⟨f - 2, by simp [wspec] at hf; omega⟩
      have hnill : ∀ x ∈ rest ++ [e], x.ty ≠ .ILLEGAL := by
        intro x hx
        rcases List.mem_append.mp hx with h | h
        · have : key x ∈ wkeys r := by rw [← hkr]; exact List.mem_map_of_mem h
          exact (wkeys_clean r _ this).1
        · simp at h; rw [h, he]; decide
      obtain ⟨stmts, h1, h2⟩ := parseLoop_witems r rest e (acc ++ [Stmt.html t]) (g + 1) hkr he (by simp [wspec] at hf; omega)
      refine ⟨Stmt.html t :: stmts, ?_, by simp [specOf, wspec, hlit, h2]⟩
      rw [parseProgramLoop]
      have c1 : ({ toks := t :: rest ++ [e] } : PS).curIs .EOF = false := by simp [PS.curIs, PS.cur, ht]
      have i1 : ({ toks := t :: rest ++ [e] } : PS).curIs .ILLEGAL = false := by simp [PS.curIs, PS.cur, ht]
      have hs1 : parseStatement (g + 1) ({ toks := t :: rest ++ [e] } : PS) = (.html t, { toks := t :: rest ++ [e] }) := by
        show statementBody (parseExpression g) (parseExprList g) (parseBody g) (parseIfTail g) (parseSlots g)
          ({ toks := t :: rest ++ [e] } : PS) = _
        simp [statementBody, PS.cur, ht]
      have nx : ({ toks := t :: rest ++ [e] } : PS).next = { toks := rest ++ [e] } := by
        cases hr : rest ++ [e] with
        | nil => simp at hr
        | cons t2 r2 =>
          have := ps_next_clean t t2 r2 (by rw [← hr]; exact hnill)
          simpa [hr] using this
      simp only [List.cons_append] at c1 i1 hs1 nx ⊢
      simp only [c1, Bool.false_eq_true, if_false, hs1, i1, Stmt.isBad, nx]
      rw [h1]
      simp
  | .print g1 n g2 :: r, toks, e, acc, f, hk, he, hf => by
    cases toks with
    | nil => simp [wkeys] at hk
    | cons t1 rest1 =>
      cases rest1 with
      | nil => simp [wkeys] at hk
      | cons t2 rest2 =>
        cases rest2 with
        | nil => simp [wkeys] at hk
        | cons t3 rest =>
          simp only [wkeys, List.map_cons, List.cons.injEq] at hk
          obtain ⟨hk1, hk2, hk3, hkr⟩ := hk
          have ty1 : t1.ty = .LBRACES := congrArg Prod.fst hk1
          have ty2 : t2.ty = .IDENT := congrArg Prod.fst hk2
          have lit2 : t2.lit = n := congrArg Prod.snd hk2
          have ty3 : t3.ty = .RBRACES := congrArg Prod.fst hk3
          obtain ⟨g, rfl⟩ : ∃ g, f = g + 1 + 1 + 1 + 1 := ⟨f - 4, by simp [wspec] at hf; omega⟩
          have hnill : ∀ x ∈ rest ++ [e], x.ty ≠ .ILLEGAL := by
            intro x hx
            rcases List.mem_append.mp hx with h | h
            · have : key x ∈ wkeys r := by rw [← hkr]; exact List.mem_map_of_mem h
              exact (wkeys_clean r _ this).1
            · simp at h; rw [h, he]; decide
          have hn3 : ∀ x ∈ t3 :: (rest ++ [e]), x.ty ≠ .ILLEGAL := by
            intro x hx
            rcases List.mem_cons.mp hx with h | h
            · rw [h, ty3]; decide
            · exact hnill x h
          have hn2 : ∀ x ∈ t2 :: t3 :: (rest ++ [e]), x.ty ≠ .ILLEGAL := by
            intro x hx
            rcases List.mem_cons.mp hx with h | h
            · rw [h, ty2]; decide
            · exact hn3 x h
          obtain ⟨stmts, h1, h2⟩ := parseLoop_witems r rest e (acc ++ [Stmt.expr t2 (.ident t2 n)]) (g + 1 + 1 + 1) hkr he
            (by simp [wspec] at hf; omega)
          refine ⟨Stmt.expr t2 (.ident t2 n) :: stmts, ?_, by simp [specOf, wspec, h2]⟩
          have nx1 : ({ toks := t1 :: t2 :: t3 :: (rest ++ [e]) } : PS).next = { toks := t2 :: t3 :: (rest ++ [e]) } :=
            ps_next_clean t1 t2 _ hn2
          have nx2 : ({ toks := t2 :: t3 :: (rest ++ [e]) } : PS).next = { toks := t3 :: (rest ++ [e]) } :=
            ps_next_clean t2 t3 _ hn3
          have nx3 : ({ toks := t3 :: (rest ++ [e]) } : PS).next = { toks := rest ++ [e] } := by
            cases hr : rest ++ [e] with
            | nil => simp at hr
            | cons t4 r4 =>
              have := ps_next_clean t3 t4 r4 (by rw [← hr]; exact hnill)
              simpa [hr] using this
          have hex : parseExpression (g + 1 + 1) LOWEST ({ toks := t2 :: t3 :: (rest ++ [e]) } : PS) =
              (.ident t2 n, { toks := t2 :: t3 :: (rest ++ [e]) }) := by
            rw [parseExpression_succ]
            have hp : prefixBody (parseExpression (g + 1)) (parseExprList (g + 1)) (parseObjLoop (g + 1))
                ({ toks := t2 :: t3 :: (rest ++ [e]) } : PS) = some (.ident t2 t2.lit, { toks := t2 :: t3 :: (rest ++ [e]) }) := by
              unfold prefixBody
              simp [PS.cur, ty2]
            rw [hp]
            simp only []
            rw [prattLoop_succ]
            have : ({ toks := t2 :: t3 :: (rest ++ [e]) } : PS).peekIs .RBRACES = true := by simp [PS.peekIs, PS.peek, ty3]
            simp [this, lit2]
          have hst : parseStatement (g + 1 + 1 + 1) ({ toks := t1 :: t2 :: t3 :: (rest ++ [e]) } : PS) =
              (.expr t2 (.ident t2 n), { toks := t3 :: (rest ++ [e]) }) := by
            show statementBody (parseExpression (g + 1 + 1)) (parseExprList (g + 1 + 1)) (parseBody (g + 1 + 1)) (parseIfTail (g + 1 + 1))
              (parseSlots (g + 1 + 1)) ({ toks := t1 :: t2 :: t3 :: (rest ++ [e]) } : PS) = _
            have hc : ({ toks := t1 :: t2 :: t3 :: (rest ++ [e]) } : PS).cur.ty = .LBRACES := by simp [PS.cur, ty1]
            unfold statementBody
            simp only [hc]
            unfold parseEmbeddedCode
            simp only [nx1]
            have c1 : ({ toks := t2 :: t3 :: (rest ++ [e]) } : PS).curIs .RBRACES = false := by simp [PS.curIs, PS.cur, ty2]
            have c2 : ({ toks := t2 :: t3 :: (rest ++ [e]) } : PS).peekIs .ASSIGN = false := by simp [PS.peekIs, PS.peek, ty3]
            have c3 : ({ toks := t2 :: t3 :: (rest ++ [e]) } : PS).peekIs .RBRACES = true := by simp [PS.peekIs, PS.peek, ty3]
            simp only [c1, c2, Bool.and_false, Bool.false_eq_true, if_false, hex, c3, if_true, nx2]
            simp [PS.cur]
          rw [parseProgramLoop]
          have c0 : ({ toks := t1 :: t2 :: t3 :: (rest ++ [e]) } : PS).curIs .EOF = false := by simp [PS.curIs, PS.cur, ty1]
          have i3 : ({ toks := t3 :: (rest ++ [e]) } : PS).curIs .ILLEGAL = false := by simp [PS.curIs, PS.cur, ty3]
          simp only [List.cons_append] at c0 hst ⊢
          simp only [c0, Bool.false_eq_true, if_false, hst, i3, Stmt.isBad, nx3]
          rw [h1]
          simp
  | .lit g1 q c g2 :: r, toks, e, acc, f, hk, he, hf => by
    cases toks with
    | nil => simp [wkeys] at hk
    | cons t1 rest1 =>
      cases rest1 with
      | nil => simp [wkeys] at hk
      | cons t2 rest2 =>
        cases rest2 with
        | nil => simp [wkeys] at hk
        | cons t3 rest =>
          simp only [wkeys, List.map_cons, List.cons.injEq] at hk
          obtain ⟨hk1, hk2, hk3, hkr⟩ := hk
          have ty1 : t1.ty = .LBRACES := congrArg Prod.fst hk1
          have ty2 : t2.ty = .STR := congrArg Prod.fst hk2
          have lit2 : t2.lit = c := congrArg Prod.snd hk2
          have ty3 : t3.ty = .RBRACES := congrArg Prod.fst hk3
          obtain ⟨g, rfl⟩ : ∃ g, f = g + 1 + 1 + 1 + 1 := ⟨f - 4, by simp [wspec] at hf; omega⟩
          have hnill : ∀ x ∈ rest ++ [e], x.ty ≠ .ILLEGAL := by
            intro x hx
            rcases List.mem_append.mp hx with h | h
            · have : key x ∈ wkeys r := by rw [← hkr]; exact List.mem_map_of_mem h
              exact (wkeys_clean r _ this).1
            · simp at h; rw [h, he]; decide
          have hn3 : ∀ x ∈ t3 :: (rest ++ [e]), x.ty ≠ .ILLEGAL := by
            intro x hx
            rcases List.mem_cons.mp hx with h | h
            · rw [h, ty3]; decide
            · exact hnill x h
          have hn2 : ∀ x ∈ t2 :: t3 :: (rest ++ [e]), x.ty ≠ .ILLEGAL := by
            intro x hx
            rcases List.mem_cons.mp hx with h | h
            · rw [h, ty2]; decide
            · exact hn3 x h
          obtain ⟨stmts, h1, h2⟩ := parseLoop_witems r rest e (acc ++ [Stmt.expr t2 (.str t2 c)]) (g + 1 + 1 + 1) hkr he
            (by simp [wspec] at hf; omega)
          refine ⟨Stmt.expr t2 (.str t2 c) :: stmts, ?_, by simp [specOf, wspec, h2]⟩
          have nx1 : ({ toks := t1 :: t2 :: t3 :: (rest ++ [e]) } : PS).next = { toks := t2 :: t3 :: (rest ++ [e]) } :=
            ps_next_clean t1 t2 _ hn2
          have nx2 : ({ toks := t2 :: t3 :: (rest ++ [e]) } : PS).next = { toks := t3 :: (rest ++ [e]) } :=
            ps_next_clean t2 t3 _ hn3
          have nx3 : ({ toks := t3 :: (rest ++ [e]) } : PS).next = { toks := rest ++ [e] } := by
            cases hr : rest ++ [e] with
            | nil => simp at hr
            | cons t4 r4 =>
              have := ps_next_clean t3 t4 r4 (by rw [← hr]; exact hnill)
              simpa [hr] using this
          have hex : parseExpression (g + 1 + 1) LOWEST ({ toks := t2 :: t3 :: (rest ++ [e]) } : PS) =
              (.str t2 c, { toks := t2 :: t3 :: (rest ++ [e]) }) := by
            rw [parseExpression_succ]
            have hp : prefixBody (parseExpression (g + 1)) (parseExprList (g + 1)) (parseObjLoop (g + 1))
                ({ toks := t2 :: t3 :: (rest ++ [e]) } : PS) = some (.str t2 t2.lit, { toks := t2 :: t3 :: (rest ++ [e]) }) := by
              unfold prefixBody
              simp [PS.cur, ty2]
            rw [hp]
            simp only []
            rw [prattLoop_succ]
            have : ({ toks := t2 :: t3 :: (rest ++ [e]) } : PS).peekIs .RBRACES = true := by simp [PS.peekIs, PS.peek, ty3]
            simp [this, lit2]
          have hst : parseStatement (g + 1 + 1 + 1) ({ toks := t1 :: t2 :: t3 :: (rest ++ [e]) } : PS) =
              (.expr t2 (.str t2 c), { toks := t3 :: (rest ++ [e]) }) := by
            show statementBody (parseExpression (g + 1 + 1)) (parseExprList (g + 1 + 1)) (parseBody (g + 1 + 1)) (parseIfTail (g + 1 + 1))
              (parseSlots (g + 1 + 1)) ({ toks := t1 :: t2 :: t3 :: (rest ++ [e]) } : PS) = _
            have hc : ({ toks := t1 :: t2 :: t3 :: (rest ++ [e]) } : PS).cur.ty = .LBRACES := by simp [PS.cur, ty1]
            unfold statementBody
            simp only [hc]
            unfold parseEmbeddedCode
            simp only [nx1]
            have c1 : ({ toks := t2 :: t3 :: (rest ++ [e]) } : PS).curIs .RBRACES = false := by simp [PS.curIs, PS.cur, ty2]
            have c2 : ({ toks := t2 :: t3 :: (rest ++ [e]) } : PS).peekIs .ASSIGN = false := by simp [PS.peekIs, PS.peek, ty3]
            have c3 : ({ toks := t2 :: t3 :: (rest ++ [e]) } : PS).peekIs .RBRACES = true := by simp [PS.peekIs, PS.peek, ty3]
            simp only [c1, c2, Bool.and_false, Bool.false_eq_true, if_false, hex, c3, if_true, nx2]
            simp [PS.cur]
          rw [parseProgramLoop]
          have c0 : ({ toks := t1 :: t2 :: t3 :: (rest ++ [e]) } : PS).curIs .EOF = false := by simp [PS.curIs, PS.cur, ty1]
          have i3 : ({ toks := t3 :: (rest ++ [e]) } : PS).curIs .ILLEGAL = false := by simp [PS.curIs, PS.cur, ty3]
          simp only [List.cons_append] at c0 hst ⊢
          simp only [c0, Bool.false_eq_true, if_false, hst, i3, Stmt.isBad, nx3]
          rw [h1]
          simp
  | .ifelse g1 n g2 th el :: r, toks, e, acc, f, hk, he, hf => by
    obtain ⟨g, rfl⟩ : ∃ g, f = g + 6 := ⟨f - 6, by simp [wspec] at hf; omega⟩
    cases el with
    | none =>
      match toks, hk with
      | t1 :: t2 :: t3 :: t4 :: t5 :: t6 :: rest, hk =>
        simp only [wkeys, elseKeys, List.nil_append, List.map_cons, List.cons.injEq] at hk
        obtain ⟨hk1, hk2, hk3, hk4, hk5, hk6, hkr⟩ := hk
        have hnill : ∀ x ∈ rest ++ [e], x.ty ≠ .ILLEGAL := by
          intro x hx
          rcases List.mem_append.mp hx with h | h
          · have : key x ∈ wkeys r := by rw [← hkr]; exact List.mem_map_of_mem h
            exact (wkeys_clean r _ this).1
          · simp at h; rw [h, he]; decide
        have hst := parse_if_noelse g t1 t2 t3 t4 t5 t6 (rest ++ [e]) (congrArg Prod.fst hk1) (congrArg Prod.fst hk2)
          (congrArg Prod.fst hk3) (congrArg Prod.fst hk4) (congrArg Prod.fst hk5) (congrArg Prod.fst hk6) hnill
        obtain ⟨stmts, h1, h2⟩ := parseLoop_witems r rest e (acc ++ [Stmt.ifS t1 (.ident t3 t3.lit) [.html t5] [] none]) (g + 5) hkr he
          (by simp [wspec] at hf; omega)
        refine ⟨Stmt.ifS t1 (.ident t3 t3.lit) [.html t5] [] none :: stmts, ?_, ?_⟩
        · rw [parseProgramLoop]
          have ty1 : t1.ty = .IF := congrArg Prod.fst hk1
          have ty6 : t6.ty = .END := congrArg Prod.fst hk6
          have c0 : ({ toks := t1 :: t2 :: t3 :: t4 :: t5 :: t6 :: rest ++ [e] } : PS).curIs .EOF = false := by
            simp [PS.curIs, PS.cur, ty1]
          have i6 : ({ toks := t6 :: (rest ++ [e]) } : PS).curIs .ILLEGAL = false := by simp [PS.curIs, PS.cur, ty6]
          have nx6 : ({ toks := t6 :: (rest ++ [e]) } : PS).next = { toks := rest ++ [e] } := by
            cases hr : rest ++ [e] with
            | nil => simp at hr
            | cons t7 r7 =>
              have := ps_next_clean t6 t7 r7 (by rw [← hr]; exact hnill)
              simpa [hr] using this
          simp only [List.cons_append] at c0 hst ⊢
          simp only [c0, Bool.false_eq_true, if_false, hst, i6, Stmt.isBad, nx6]
          rw [h1]
          simp
        · have l3 : t3.lit = n := congrArg Prod.snd hk3
          have l5 : t5.lit = segsLit th := congrArg Prod.snd hk5
          simp [specOf, wspec, l3, l5, h2]
      | [], hk => simp [wkeys] at hk
      | [_], hk => simp [wkeys] at hk
      | [_, _], hk => simp [wkeys] at hk
      | [_, _, _], hk => simp [wkeys] at hk
      | [_, _, _, _], hk => simp [wkeys] at hk
      | [_, _, _, _, _], hk => simp [wkeys, elseKeys] at hk
    | some es =>
      match toks, hk with
      | t1 :: t2 :: t3 :: t4 :: t5 :: t6 :: t7 :: t8 :: rest, hk =>
        simp only [wkeys, elseKeys, List.cons_append, List.nil_append, List.map_cons, List.cons.injEq] at hk
        obtain ⟨hk1, hk2, hk3, hk4, hk5, hk6, hk7, hk8, hkr⟩ := hk
        have hnill : ∀ x ∈ rest ++ [e], x.ty ≠ .ILLEGAL := by
          intro x hx
          rcases List.mem_append.mp hx with h | h
          · have : key x ∈ wkeys r := by rw [← hkr]; exact List.mem_map_of_mem h
            exact (wkeys_clean r _ this).1
          · simp at h; rw [h, he]; decide
        have hst := parse_if_else g t1 t2 t3 t4 t5 t6 t7 t8 (rest ++ [e]) (congrArg Prod.fst hk1) (congrArg Prod.fst hk2)
          (congrArg Prod.fst hk3) (congrArg Prod.fst hk4) (congrArg Prod.fst hk5) (congrArg Prod.fst hk6) (congrArg Prod.fst hk7)
          (congrArg Prod.fst hk8) hnill
        obtain ⟨stmts, h1, h2⟩ := parseLoop_witems r rest e (acc ++ [Stmt.ifS t1 (.ident t3 t3.lit) [.html t5] [] (some [.html t7])]) (g + 5) hkr he
          (by simp [wspec] at hf; omega)
        refine ⟨Stmt.ifS t1 (.ident t3 t3.lit) [.html t5] [] (some [.html t7]) :: stmts, ?_, ?_⟩
        · rw [parseProgramLoop]
          have ty1 : t1.ty = .IF := congrArg Prod.fst hk1
          have ty8 : t8.ty = .END := congrArg Prod.fst hk8
          have c0 : ({ toks := t1 :: t2 :: t3 :: t4 :: t5 :: t6 :: t7 :: t8 :: rest ++ [e] } : PS).curIs .EOF = false := by
            simp [PS.curIs, PS.cur, ty1]
          have i8 : ({ toks := t8 :: (rest ++ [e]) } : PS).curIs .ILLEGAL = false := by simp [PS.curIs, PS.cur, ty8]
          have nx8 : ({ toks := t8 :: (rest ++ [e]) } : PS).next = { toks := rest ++ [e] } := by
            cases hr : rest ++ [e] with
            | nil => simp at hr
            | cons t9 r9 =>
              have := ps_next_clean t8 t9 r9 (by rw [← hr]; exact hnill)
              simpa [hr] using this
          simp only [List.cons_append] at c0 hst ⊢
          simp only [c0, Bool.false_eq_true, if_false, hst, i8, Stmt.isBad, nx8]
          rw [h1]
          simp
        · have l3 : t3.lit = n := congrArg Prod.snd hk3
          have l5 : t5.lit = segsLit th := congrArg Prod.snd hk5
          have l7 : t7.lit = segsLit es := congrArg Prod.snd hk7
          simp [specOf, wspec, l3, l5, l7, h2]
      | [], hk => simp [wkeys] at hk
      | [_], hk => simp [wkeys] at hk
      | [_, _], hk => simp [wkeys] at hk
      | [_, _, _], hk => simp [wkeys] at hk
      | [_, _, _, _], hk => simp [wkeys] at hk
      | [_, _, _, _, _], hk => simp [wkeys, elseKeys] at hk
      | [_, _, _, _, _, _], hk => simp [wkeys, elseKeys] at hk
      | [_, _, _, _, _, _, _], hk => simp [wkeys, elseKeys] at hk


/-! ### evaluation, and from the source to the render -/

/-- every printed or tested name is bound -/
def wbound (env : Env) : List WSpec → Prop
  | [] => True
  | .text _ :: r => wbound env r
  | .hole n :: r => (env.get n).isSome = true ∧ wbound env r
  | .slit _ :: r => wbound env r
  | .cond n _ _ :: r => (env.get n).isSome = true ∧ wbound env r

/-- the render: text as it is, a name by its printed value, a construct by the branch its name chooses -/
def wrender (env : Env) : List WSpec → Bytes
  | [] => []
  | .text t :: r => t ++ wrender env r
  | .hole n :: r => ((env.get n).map Val.toStr).getD [] ++ wrender env r
  | .slit v :: r => literalValue v ++ wrender env r
  | .cond n th el :: r => (if ((env.get n).map isTruthy).getD false then th else el.getD []) ++ wrender env r

instance (env : Env) : (l : List WSpec) → Decidable (wbound env l)
  | [] => isTrue trivial
  | .text _ :: r => by unfold wbound; exact instDecidableWbound env r
  | .hole _ :: r => by have := instDecidableWbound env r; unfold wbound; exact inferInstance
  | .slit _ :: r => by unfold wbound; exact instDecidableWbound env r
  | .cond _ _ _ :: r => by have := instDecidableWbound env r; unfold wbound; exact inferInstance

theorem evalBlock_one_text (c : Ctx) (env : Env) (t : Token) (f : Nat) :
    evalBlock (f + 3) c env [.html t] = .ok ({ text := t.lit }, env) := by
  rw [evalBlock_cons, evalStmt_html]
  simp only [Res.bind_ok, Bool.false_eq_true, Bool.or_self, if_false]
  rw [evalBlock_nil]
  simp

theorem evalProg_wspec (c : Ctx) (env : Env) : ∀ (specs : List WSpec) (ss : List Stmt) (fuel : Nat) (acc : Bytes),
    ss.map specOf = specs.map some → wbound env specs → specs.length + 6 ≤ fuel →
    evalProg fuel c env ss acc = .ok (acc ++ wrender env specs, env) := by
  intro specs
  induction specs with
  | nil =>
    intro ss fuel acc hs _ hf
    have : ss = [] := by simpa using hs
    subst this
    obtain ⟨f, rfl⟩ : ∃ f, fuel = f + 1 := ⟨fuel - 1, by omega⟩
    rw [evalProg_nil]; simp [wrender]
  | cons sp r ih =>
    intro ss fuel acc hs hb hf
    cases ss with
    | nil => simp at hs
    | cons st rest =>
      simp only [List.map_cons, List.cons.injEq] at hs
      obtain ⟨hs1, hsr⟩ := hs
      obtain ⟨f, rfl⟩ : ∃ f, fuel = f + 6 := ⟨fuel - 6, by simp at hf; omega⟩
      rw [show f + 6 = (f + 5) + 1 from rfl, evalProg_cons]
      -- which statement it is
      cases st with
      | html t =>
        simp only [specOf, Option.some.injEq] at hs1
        subst hs1
        have := ih rest (f + 5) (acc ++ t.lit) hsr (by simpa [wbound] using hb) (by simp at hf; omega)
        rw [show f + 5 = (f + 4) + 1 from rfl, evalStmt_html, Res.bind_ok, show f + 4 + 1 = f + 5 from rfl, this]
        simp [wrender, List.append_assoc]
      | expr t e =>
        cases e with
        | ident t2 n =>
          simp only [specOf, Option.some.injEq] at hs1
          subst hs1
          have hb' : (env.get n).isSome = true ∧ wbound env r := by simpa [wbound] using hb
          obtain ⟨v, hv⟩ := Option.isSome_iff_exists.mp hb'.1
          have := ih rest (f + 5) (acc ++ v.toStr) hsr hb'.2 (by simp at hf; omega)
          rw [show f + 5 = (f + 4) + 1 from rfl, evalStmt_succ]
          simp only [stmtBody, calleesAt_expr]
          rw [show f + 4 = (f + 3) + 1 from rfl]
          simp only [evalExpr, hv, Res.bind_ok]
          rw [show f + 3 + 1 + 1 = f + 5 from rfl, this]
          simp [wrender, hv, List.append_assoc]
        | str t2 v =>
          simp only [specOf, Option.some.injEq] at hs1
          subst hs1
          have := ih rest (f + 5) (acc ++ literalValue v) hsr (by simpa [wbound] using hb) (by simp at hf; omega)
          rw [show f + 5 = (f + 4) + 1 from rfl, evalStmt_succ]
          simp only [stmtBody, calleesAt_expr]
          rw [show f + 4 = (f + 3) + 1 from rfl]
          simp only [evalExpr, Res.bind_ok, Val.toStr]
          rw [show f + 3 + 1 + 1 = f + 5 from rfl, this]
          simp [wrender, List.append_assoc]
        | _ => simp [specOf] at hs1
      | ifS t cnd cons alts alt =>
        -- only the two shapes have a specification
        cases cnd with
        | ident t2 n =>
          cases cons with
          | nil => simp [specOf] at hs1
          | cons c1 cr =>
            cases c1 with
            | html th =>
              cases cr with
              | cons _ _ => simp [specOf] at hs1
              | nil =>
                cases alts with
                | cons _ _ => simp [specOf] at hs1
                | nil =>
                  have hbn : (env.get n).isSome = true ∧ wbound env r := by
                    cases alt with
                    | none => simp only [specOf, Option.some.injEq] at hs1; subst hs1; simpa [wbound] using hb
                    | some ab =>
                      cases ab with
                      | nil => simp [specOf] at hs1
                      | cons a1 ar =>
                        cases a1 <;> first | (simp [specOf] at hs1; done) | skip
                        cases ar with
                        | cons _ _ => simp [specOf] at hs1
                        | nil => simp only [specOf, Option.some.injEq] at hs1; subst hs1; simpa [wbound] using hb
                  obtain ⟨v, hv⟩ := Option.isSome_iff_exists.mp hbn.1
                  rw [show f + 5 = (f + 4) + 1 from rfl, evalStmt_ifS, show f + 4 = (f + 3) + 1 from rfl]
                  simp only [evalExpr, hv, Res.bind_ok]
                  by_cases htr : isTruthy v = true
                  · simp only [htr, if_true]
                    rw [show f + 3 + 1 = (f + 1) + 3 from by omega, evalBlock_one_text]
                    simp only [Res.bind_ok]
                    have hrest : ∀ sp', sp = sp' → True := fun _ _ => trivial
                    cases alt with
                    | none =>
                      simp only [specOf, Option.some.injEq] at hs1
                      subst hs1
                      have := ih rest (f + 5) (acc ++ th.lit) hsr hbn.2 (by simp at hf; omega)
                      rw [show f + 1 + 3 + 1 = f + 5 from by omega, this]
                      simp [wrender, hv, htr, List.append_assoc]
                    | some ab =>
                      cases ab with
                      | nil => simp [specOf] at hs1
                      | cons a1 ar =>
                        cases a1 <;> first | (simp [specOf] at hs1; done) | skip
                        cases ar with
                        | cons _ _ => simp [specOf] at hs1
                        | nil =>
                          simp only [specOf, Option.some.injEq] at hs1
                          subst hs1
                          have := ih rest (f + 5) (acc ++ th.lit) hsr hbn.2 (by simp at hf; omega)
                          rw [show f + 1 + 3 + 1 = f + 5 from by omega, this]
                          simp [wrender, hv, htr, List.append_assoc]
                  · have htf : isTruthy v = false := by simpa using htr
                    simp only [htf, Bool.false_eq_true, if_false]
                    rw [show f + 3 + 1 = (f + 3) + 1 from rfl, evalElseIfs_nil]
                    cases alt with
                    | none =>
                      simp only [specOf, Option.some.injEq] at hs1
                      subst hs1
                      have := ih rest (f + 5) acc hsr hbn.2 (by simp at hf; omega)
                      simp only [Res.bind_ok]
                      rw [show f + 3 + 1 + 1 = f + 5 from rfl]
                      simp only [List.append_nil]
                      rw [this]
                      simp [wrender, hv, htf]
                    | some ab =>
                      cases ab with
                      | nil => simp [specOf] at hs1
                      | cons a1 ar =>
                        cases a1 <;> first | (simp [specOf] at hs1; done) | skip
                        rename_i t2a
                        cases ar with
                        | cons _ _ => simp [specOf] at hs1
                        | nil =>
                          simp only [specOf, Option.some.injEq] at hs1
                          subst hs1
                          have := ih rest (f + 5) (acc ++ t2a.lit) hsr hbn.2 (by simp at hf; omega)
                          simp only []
                          rw [show f + 3 = f + 3 from rfl, evalBlock_one_text]
                          simp only [Res.bind_ok]
                          rw [show f + 3 + 1 + 1 = f + 5 from rfl, this]
                          simp [wrender, hv, htf, List.append_assoc]
            | _ => simp [specOf] at hs1
        | _ => simp [specOf] at hs1
      | _ => simp [specOf] at hs1


theorem wfuel_le_src : ∀ (items : List WItem), WItemsOK items → wfuel items ≤ (witemsSrc items).length
  | [], _ => by simp [wfuel]
  | .comment cm :: r, hok => by
    have := wfuel_le_src r hok.2
    simp [witemsSrc, WItem.src, wfuel]; omega
  | .print g1 n g2 :: r, hok => by
    have := wfuel_le_src r hok.2.2.2
    simp [witemsSrc, WItem.src, wfuel]; omega
  | .lit g1 q c g2 :: r, hok => by
    have := wfuel_le_src r hok.2.2.2.2
    simp [witemsSrc, WItem.src, wfuel]; omega
  | .ifelse g1 n g2 th el :: r, hok => by
    have := wfuel_le_src r hok.2.2.2.2.2.2.2
    simp [witemsSrc, WItem.src, wfuel, kwIf, kwEnd]; omega
  | .text segs :: r, hok => by
    have := wfuel_le_src r hok.2.2.2
    have hne : (segsSrc segs).length ≠ 0 := by
      obtain ⟨hst, _⟩ := hok
      cases segs with
      | nil => exact absurd hst (by simp [startsRun])
      | cons sg r' =>
        cases sg with
        | esc c => simp [segsSrc, Seg.src]
        | plain p =>
          cases p with
          | nil => exact absurd hst (by simp [startsRun])
          | cons c p' => simp [segsSrc, Seg.src]
    simp [witemsSrc, WItem.src, wfuel]; omega

theorem tokenize_witems (items : List WItem) (hok : WItemsOK items) :
    ∃ toks e, tokenize (witemsSrc items) = some { toks := toks ++ [e], insideCode := false, panicked := false } ∧
      toks.map key = wkeys items ∧ e.ty = .EOF := by
  have hlen := wfuel_le_src items hok
  have hpo : PrevOK (Lx.init (witemsSrc items)) items := prevOK_of _ _ (by simp [Lx.prev, Lx.init])
  obtain ⟨toks, e, sf, hl, hm, he, hhf, hpf⟩ := lexAll_witems items hok (Lx.init (witemsSrc items)) (lexFuel (witemsSrc items))
    rfl rfl rfl rfl rfl rfl hpo (by unfold lexFuel; omega)
  refine ⟨toks, e, ?_, hm, he⟩
  unfold tokenize
  rw [hl]
  simp [hhf, hpf]

theorem wspec_length_le : ∀ items : List WItem, (wspec items).length ≤ (wkeys items).length
  | [] => by simp [wkeys, wspec]
  | .text _ :: r => by have := wspec_length_le r; simp [wkeys, wspec]; omega
  | .comment _ :: r => by have := wspec_length_le r; simp [wkeys, wspec]; omega
  | .print _ _ _ :: r => by have := wspec_length_le r; simp [wkeys, wspec]; omega
  | .lit _ _ _ _ :: r => by have := wspec_length_le r; simp [wkeys, wspec]; omega
  | .ifelse _ _ _ _ _ :: r => by have := wspec_length_le r; simp [wkeys, wspec]; omega

theorem parse_witems (items : List WItem) (hok : WItemsOK items) :
    ∃ prog, parseSource (witemsSrc items) = .ok prog ∧ prog.stmts.map specOf = (wspec items).map some := by
  obtain ⟨toks, e, htok, hk, he⟩ := tokenize_witems items hok
  have hnill : ∀ x ∈ toks ++ [e], x.ty ≠ .ILLEGAL := by
    intro x hx
    rcases List.mem_append.mp hx with h | h
    · have : key x ∈ wkeys items := by rw [← hk]; exact List.mem_map_of_mem h
      exact (wkeys_clean items _ this).1
    · simp at h; rw [h, he]; decide
  have hlen : toks.length = (wkeys items).length := by rw [← hk]; simp
  have hfuel : (wspec items).length + 8 ≤ parseFuel (toks ++ [e]) := by
    unfold parseFuel
    have := wspec_length_le items
    simp
    omega
  obtain ⟨stmts, h1, h2⟩ := parseLoop_witems items toks e [] (parseFuel (toks ++ [e])) hk he hfuel
  refine ⟨{ tok := (toks ++ [e]).headD e, stmts := stmts }, ?_, h2⟩
  unfold parseSource
  rw [htok]
  simp only [Bool.false_eq_true, if_false]
  rw [initParser_clean _ hnill, h1]
  have hcur : ({ toks := toks ++ [e] } : PS).cur = (toks ++ [e]).headD e := by
    cases toks with
    | nil => rfl
    | cons t r => rfl
  rw [hcur]
  simp [finishParse]

/-- **text, comments, `{{ name }}` and `@if(name) … [@else …] @end`, from the source to the output**:
    the render is the text as written (escaping backslashes removed), each printed name replaced by
    its value, and of each construct exactly the branch that the truthiness of its name chooses — the
    first one when the value is truthy, the `@else` text when it is not and there is one, nothing
    otherwise; the text before, between and after is unaffected -/
theorem witems_render (custom : List ((VType × Bytes) × Nat)) (items : List WItem) (hok : WItemsOK items)
    (hsize : (wspec items).length + 6 ≤ evalFuel)
    (data : List (Bytes × GoVal)) (env : Env) (henv : envFromMap data = .ok env) (hb : wbound env (wspec items)) :
    evaluateStringPure custom (witemsSrc items) data = .ok (wrender env (wspec items)) := by
  obtain ⟨prog, hp, hs⟩ := parse_witems items hok
  unfold evaluateStringPure envOrFail
  rw [hp]
  simp only [henv]
  rw [evalProg_wspec _ env (wspec items) prog.stmts evalFuel [] hs hb hsize]
  simp [resToOut]

end Tw
