/-
  TwProofs.Lemmas.ParseIfChain — the parser on `@if(c0) t0 @elseif(c1) t1 … [@else te] @end`
  (C02): one `@if` statement with one alternative per `@elseif`, in order.
-/
import TwProofs.Lemmas.LexIfChain
namespace Tw

/-- the block of a branch that is one text token, in front of `@elseif`, `@else` or `@end` -/
theorem parseBody_one_text' (j : Nat) (tp th tn : Token) (rest : List Token) (hth : th.ty = .HTML)
    (htn : tn.ty = .ELSE ∨ tn.ty = .END ∨ tn.ty = .ELSE_IF) (hclean : ∀ x ∈ rest, x.ty ≠ .ILLEGAL) :
    parseBody (j + 3) ({ toks := tp :: th :: tn :: rest } : PS) = ([.html th], { toks := th :: tn :: rest }) := by
  have hn : ∀ x ∈ th :: tn :: rest, x.ty ≠ .ILLEGAL := by
    intro x hx
    rcases List.mem_cons.mp hx with h | h
    · rw [h, hth]; decide
    · rcases List.mem_cons.mp h with h | h
      · rw [h]; rcases htn with e | e | e <;> rw [e] <;> decide
      · exact hclean x h
  have nx : ({ toks := tp :: th :: tn :: rest } : PS).next = { toks := th :: tn :: rest } := ps_next_clean tp th _ hn
  show bodyBody (parseBlockStmt (j + 2)) ({ toks := tp :: th :: tn :: rest } : PS) = _
  unfold bodyBody
  have pk : ∀ t : TT, t ≠ .HTML → ({ toks := tp :: th :: tn :: rest } : PS).peekIs t = false := by
    intro t ht; simp [PS.peekIs, PS.peek, hth]; exact fun e => ht e.symm
  rw [pk .ELSE (by decide), pk .ELSE_IF (by decide), pk .END (by decide)]
  simp only [Bool.or_self, Bool.false_eq_true, if_false, nx]
  show blockStmtBody (parseStatement (j + 1)) (parseBlockStmt (j + 1)) [] ({ toks := th :: tn :: rest } : PS) = _
  unfold blockStmtBody
  have ck : ∀ t : TT, t ≠ .HTML → ({ toks := th :: tn :: rest } : PS).curIs t = false := by
    intro t ht; simp [PS.curIs, PS.cur, hth]; exact fun e => ht e.symm
  rw [ck .END (by decide), ck .EOF (by decide), ck .ILLEGAL (by decide)]
  simp only [Bool.false_eq_true, if_false]
  have hs : parseStatement (j + 1) ({ toks := th :: tn :: rest } : PS) = (.html th, { toks := th :: tn :: rest }) := by
    show statementBody (parseExpression j) (parseExprList j) (parseBody j) (parseIfTail j) (parseSlots j) _ = _
    simp [statementBody, PS.cur, hth]
  rw [hs]
  have pe : (({ toks := th :: tn :: rest } : PS).peekIs .ELSE || ({ toks := th :: tn :: rest } : PS).peekIs .ELSE_IF ||
      ({ toks := th :: tn :: rest } : PS).peekIs .END) = true := by
    rcases htn with e | e | e <;> simp [PS.peekIs, PS.peek, e]
  simp [Stmt.isBad, pe]

/-- the parsed alternatives match the written ones: the condition is the name, the block is the text -/
inductive AltsMatch : List (Expr × List Stmt) → List Alt → Prop
  | nil : AltsMatch [] []
  | cons (tc th : Token) (a : Alt) (xs : List (Expr × List Stmt)) (as : List Alt) : th.lit = a.t → AltsMatch xs as →
      AltsMatch ((.ident tc a.c, [.html th]) :: xs) (a :: as)

def ElseMatch (alt : Option (List Stmt)) (els : Option Bytes) : Prop :=
  match els with
  | none => alt = none
  | some te => ∃ th, alt = some [.html th] ∧ th.lit = te

theorem altsKeys_clean : ∀ (alts : List Alt) (x : TT × Bytes), x ∈ altsKeys alts → x.1 ≠ .ILLEGAL ∧ x.1 ≠ .EOF
  | [], x, h => by simp [altsKeys] at h
  | a :: r, x, h => by
    simp only [altsKeys, Alt.keys, List.mem_append, List.mem_cons, List.not_mem_nil, or_false] at h
    rcases h with (h | h | h | h | h) | h
    · rw [h]; exact ⟨by simp, by simp⟩
    · rw [h]; exact ⟨by simp, by simp⟩
    · rw [h]; exact ⟨by simp, by simp⟩
    · rw [h]; exact ⟨by simp, by simp⟩
    · rw [h]; exact ⟨by simp, by simp⟩
    · exact altsKeys_clean r x h

theorem tailKeys_clean (els : Option Bytes) (x : TT × Bytes) (h : x ∈ tailKeys els) : x.1 ≠ .ILLEGAL ∧ x.1 ≠ .EOF := by
  cases els with
  | none =>
    simp only [tailKeys, List.nil_append, List.mem_cons, List.not_mem_nil, or_false] at h
    rw [h]; exact ⟨by simp, by simp⟩
  | some te =>
    simp only [tailKeys, List.cons_append, List.nil_append, List.mem_cons, List.not_mem_nil, or_false] at h
    rcases h with h | h | h <;> rw [h] <;> exact ⟨by simp, by simp⟩

/-- the first token of what follows a branch: `@elseif`, `@else` or `@end` -/
theorem chain_next_kind (alts : List Alt) (els : Option Bytes) (toks : List Token) (hk : toks.map key = altsKeys alts ++ tailKeys els) :
    ∃ tn r, toks = tn :: r ∧ (tn.ty = .ELSE ∨ tn.ty = .END ∨ tn.ty = .ELSE_IF) := by
  cases toks with
  | nil =>
    cases alts with
    | nil => cases els <;> simp [altsKeys, tailKeys] at hk
    | cons a r => simp [altsKeys, Alt.keys] at hk
  | cons tn r =>
    refine ⟨tn, r, rfl, ?_⟩
    cases alts with
    | nil =>
      cases els with
      | none =>
        simp only [altsKeys, tailKeys, List.nil_append, List.map_cons, List.cons.injEq] at hk
        exact Or.inr (Or.inl (congrArg Prod.fst hk.1))
      | some te =>
        simp only [altsKeys, tailKeys, List.nil_append, List.cons_append, List.map_cons, List.cons.injEq] at hk
        exact Or.inl (congrArg Prod.fst hk.1)
    | cons a r' =>
      simp only [altsKeys, Alt.keys, List.cons_append, List.map_cons, List.cons.injEq] at hk
      exact Or.inr (Or.inr (congrArg Prod.fst hk.1))

/-- the `@elseif` branches, the `@else` and the `@end`, with the cursor on the text of the branch before -/
theorem parse_tail_alts (els : Option Bytes) (t : Token) (c : Expr) (cons : List Stmt) (rest : List Token)
    (hrest : ∀ x ∈ rest, x.ty ≠ .ILLEGAL) :
    ∀ (alts : List Alt) (toks : List Token) (hp : Token) (acc : List (Expr × List Stmt)) (f : Nat),
      toks.map key = altsKeys alts ++ tailKeys els → alts.length + 5 ≤ f →
      ∃ alts' alt' tEnd, parseIfTail f t c cons acc ({ toks := hp :: (toks ++ rest) } : PS) =
          (.ifS t c cons (acc ++ alts') alt', { toks := tEnd :: rest }) ∧ tEnd.ty = .END ∧ AltsMatch alts' alts ∧ ElseMatch alt' els
  | [], toks, hp, acc, f, hk, hf => by
    obtain ⟨g, rfl⟩ : ∃ g, f = g + 4 := ⟨f - 4, by simp at hf; omega⟩
    cases els with
    | none =>
      match toks, hk with
      | [], hk => simp [altsKeys, tailKeys] at hk
      | _ :: _ :: _, hk => simp [altsKeys, tailKeys] at hk
      | [tEnd], hk =>
        simp only [altsKeys, tailKeys, List.nil_append, List.map_cons, List.map_nil, List.cons.injEq, and_true] at hk
        have hEnd : tEnd.ty = .END := congrArg Prod.fst hk
        have cE : ∀ x ∈ tEnd :: rest, x.ty ≠ .ILLEGAL := noill_cons (by rw [hEnd]; decide) hrest
        refine ⟨[], none, tEnd, ?_, hEnd, .nil, rfl⟩
        show ifTailBody (parseExpression (g + 3)) (parseBody (g + 3)) (parseIfTail (g + 3)) t c cons acc ({ toks := hp :: ([tEnd] ++ rest) } : PS) = _
        simp only [List.cons_append, List.nil_append]
        unfold ifTailBody
        have k1 : ({ toks := hp :: tEnd :: rest } : PS).peekIs .ELSE_IF = false := by simp [PS.peekIs, PS.peek, hEnd]
        have k2 : ({ toks := hp :: tEnd :: rest } : PS).peekIs .ELSE = false := by simp [PS.peekIs, PS.peek, hEnd]
        have e4 := expectPeek_ok ({ toks := hp :: tEnd :: rest } : PS) .END (by simp [PS.peekIs, PS.peek, hEnd])
        simp only [k1, k2, Bool.false_eq_true, if_false, e4, if_true, List.append_nil]
        congr 1
        cases rest with
        | nil => rfl
        | cons t9 r9 => exact ps_next_clean hp tEnd _ cE
    | some te =>
      match toks, hk with
      | [], hk => simp [altsKeys, tailKeys] at hk
      | [_], hk => simp [altsKeys, tailKeys] at hk
      | [_, _], hk => simp [altsKeys, tailKeys] at hk
      | _ :: _ :: _ :: _ :: _, hk => simp [altsKeys, tailKeys] at hk
      | [t6, t7, t8], hk =>
        simp only [altsKeys, tailKeys, List.nil_append, List.cons_append, List.map_cons, List.map_nil, List.cons.injEq, and_true] at hk
        obtain ⟨hk6, hk7, hk8⟩ := hk
        have h6 : t6.ty = .ELSE := congrArg Prod.fst hk6
        have h7 : t7.ty = .HTML := congrArg Prod.fst hk7
        have l7 : t7.lit = te := congrArg Prod.snd hk7
        have h8 : t8.ty = .END := congrArg Prod.fst hk8
        have c8 : ∀ x ∈ t8 :: rest, x.ty ≠ .ILLEGAL := noill_cons (by rw [h8]; decide) hrest
        have c7 : ∀ x ∈ t7 :: t8 :: rest, x.ty ≠ .ILLEGAL := noill_cons (by rw [h7]; decide) c8
        have c6 : ∀ x ∈ t6 :: t7 :: t8 :: rest, x.ty ≠ .ILLEGAL := noill_cons (by rw [h6]; decide) c7
        refine ⟨[], some [.html t7], t8, ?_, h8, .nil, ⟨t7, rfl, l7⟩⟩
        show ifTailBody (parseExpression (g + 3)) (parseBody (g + 3)) (parseIfTail (g + 3)) t c cons acc ({ toks := hp :: ([t6, t7, t8] ++ rest) } : PS) = _
        simp only [List.cons_append, List.nil_append]
        unfold ifTailBody
        have k1 : ({ toks := hp :: t6 :: t7 :: t8 :: rest } : PS).peekIs .ELSE_IF = false := by simp [PS.peekIs, PS.peek, h6]
        have k2 : ({ toks := hp :: t6 :: t7 :: t8 :: rest } : PS).peekIs .ELSE = true := by simp [PS.peekIs, PS.peek, h6]
        simp only [k1, k2, Bool.false_eq_true, if_false, if_true, ps_next_clean hp t6 _ c6]
        rw [parseBody_one_text g t6 t7 t8 rest h7 (Or.inr h8) hrest]
        simp only []
        have k3 : ({ toks := t7 :: t8 :: rest } : PS).peekIs .ELSE_IF = false := by simp [PS.peekIs, PS.peek, h8]
        have e3 := expectPeek_ok ({ toks := t7 :: t8 :: rest } : PS) .END (by simp [PS.peekIs, PS.peek, h8])
        simp only [k3, Bool.false_eq_true, if_false, e3, if_true, List.append_nil]
        congr 1
        cases rest with
        | nil => rfl
        | cons t9 r9 => exact ps_next_clean t7 t8 _ c8
  | a :: r, toks, hp, acc, f, hk, hf => by
    obtain ⟨g, rfl⟩ : ∃ g, f = g + 4 := ⟨f - 4, by simp at hf; omega⟩
    match toks, hk with
    | [], hk => simp [altsKeys, Alt.keys] at hk
    | [_], hk => simp [altsKeys, Alt.keys] at hk
    | [_, _], hk => simp [altsKeys, Alt.keys] at hk
    | [_, _, _], hk => simp [altsKeys, Alt.keys] at hk
    | [_, _, _, _], hk => simp [altsKeys, Alt.keys] at hk
    | e1 :: e2 :: e3 :: e4 :: e5 :: toks', hk =>
      simp only [altsKeys, Alt.keys, List.cons_append, List.nil_append, List.map_cons, List.cons.injEq] at hk
      obtain ⟨hk1, hk2, hk3, hk4, hk5, hkr⟩ := hk
      have y1 : e1.ty = .ELSE_IF := congrArg Prod.fst hk1
      have y2 : e2.ty = .LPAREN := congrArg Prod.fst hk2
      have y3 : e3.ty = .IDENT := congrArg Prod.fst hk3
      have l3 : e3.lit = a.c := congrArg Prod.snd hk3
      have y4 : e4.ty = .RPAREN := congrArg Prod.fst hk4
      have y5 : e5.ty = .HTML := congrArg Prod.fst hk5
      have l5 : e5.lit = a.t := congrArg Prod.snd hk5
      obtain ⟨tn, tr, htoks', htn⟩ := chain_next_kind r els toks' hkr
      have cT : ∀ x ∈ toks' ++ rest, x.ty ≠ .ILLEGAL := by
        intro x hx
        rcases List.mem_append.mp hx with h | h
        · have : key x ∈ altsKeys r ++ tailKeys els := by rw [← hkr]; exact List.mem_map_of_mem h
          rcases List.mem_append.mp this with h' | h'
          · exact (altsKeys_clean r _ h').1
          · exact (tailKeys_clean els _ h').1
        · exact hrest x h
      have c5 : ∀ x ∈ e5 :: (toks' ++ rest), x.ty ≠ .ILLEGAL := noill_cons (by rw [y5]; decide) cT
      have c4 : ∀ x ∈ e4 :: e5 :: (toks' ++ rest), x.ty ≠ .ILLEGAL := noill_cons (by rw [y4]; decide) c5
      have c3 : ∀ x ∈ e3 :: e4 :: e5 :: (toks' ++ rest), x.ty ≠ .ILLEGAL := noill_cons (by rw [y3]; decide) c4
      have c2 : ∀ x ∈ e2 :: e3 :: e4 :: e5 :: (toks' ++ rest), x.ty ≠ .ILLEGAL := noill_cons (by rw [y2]; decide) c3
      have c1 : ∀ x ∈ e1 :: e2 :: e3 :: e4 :: e5 :: (toks' ++ rest), x.ty ≠ .ILLEGAL := noill_cons (by rw [y1]; decide) c2
      obtain ⟨alts', alt', tEnd, hrec, hEnd, hm1, hm2⟩ := parse_tail_alts els t c cons rest hrest r toks' e5
        (acc ++ [(.ident e3 e3.lit, [.html e5])]) (g + 3) hkr (by simp at hf; omega)
      refine ⟨(.ident e3 e3.lit, [.html e5]) :: alts', alt', tEnd, ?_, hEnd, ?_, hm2⟩
      · show ifTailBody (parseExpression (g + 3)) (parseBody (g + 3)) (parseIfTail (g + 3)) t c cons acc _ = _
        unfold ifTailBody
        have k1 : ({ toks := hp :: (e1 :: e2 :: e3 :: e4 :: e5 :: toks' ++ rest) } : PS).peekIs .ELSE_IF = true := by simp [PS.peekIs, PS.peek, y1]
        simp only [k1, if_true]
        have ep := expectPeek_ok ({ toks := hp :: (e1 :: e2 :: e3 :: e4 :: e5 :: toks' ++ rest) } : PS) .ELSE_IF k1
        simp only [List.cons_append] at ep ⊢
        rw [ep, ps_next_clean hp e1 _ c1]
        simp only [ps_next_clean e1 e2 _ c2, ps_next_clean e2 e3 _ c3]
        rw [parse_ident_rparen (g + 1) e3 e4 _ y3 y4]
        simp only []
        have e2' := expectPeek_ok ({ toks := e3 :: e4 :: e5 :: (toks' ++ rest) } : PS) .RPAREN (by simp [PS.peekIs, PS.peek, y4])
        rw [e2', ps_next_clean e3 e4 _ c4]
        simp only [Bool.not_true, Bool.false_eq_true, if_false]
        have hb := parseBody_one_text' g e4 e5 tn (tr ++ rest) y5 htn (fun x hx => cT x (by rw [htoks']; simp only [List.cons_append]; exact List.mem_cons_of_mem _ hx))
        have htl : toks' ++ rest = tn :: (tr ++ rest) := by rw [htoks']; rfl
        rw [htl, hb]
        simp only []
        rw [← htl, hrec]
        simp
      · rw [l3]
        exact .cons e3 e5 a alts' r l5 hm1

/-- the tokens of a whole chain -/
def chainKeys (ch : Chain) : List (TT × Bytes) := ch.code.keys

/-- **the chain as a statement** -/
theorem parse_chain_stmt (ch : Chain) (toks rest : List Token) (hk : toks.map key = chainKeys ch) (hrest : ∀ x ∈ rest, x.ty ≠ .ILLEGAL)
    (f : Nat) (hf : ch.alts.length + 7 ≤ f) :
    ∃ t1 t3 t5 alts' alt' tEnd, parseStatement f ({ toks := toks ++ rest } : PS) =
        (.ifS t1 (.ident t3 ch.c) [.html t5] alts' alt', { toks := tEnd :: rest }) ∧ tEnd.ty = .END ∧ t5.lit = ch.t ∧
      AltsMatch alts' ch.alts ∧ ElseMatch alt' ch.els := by
  obtain ⟨g, rfl⟩ : ∃ g, f = g + 5 := ⟨f - 5, by omega⟩
  match toks, hk with
  | [], hk => simp [chainKeys, Chain.code] at hk
  | [_], hk => simp [chainKeys, Chain.code] at hk
  | [_, _], hk => simp [chainKeys, Chain.code] at hk
  | [_, _, _], hk => simp [chainKeys, Chain.code] at hk
  | [_, _, _, _], hk => simp [chainKeys, Chain.code] at hk
  | t1 :: t2 :: t3 :: t4 :: t5 :: toks', hk =>
    simp only [chainKeys, Chain.code, List.cons_append, List.nil_append, List.map_cons, List.cons.injEq] at hk
    obtain ⟨hk1, hk2, hk3, hk4, hk5, hkr⟩ := hk
    have y1 : t1.ty = .IF := congrArg Prod.fst hk1
    have y2 : t2.ty = .LPAREN := congrArg Prod.fst hk2
    have y3 : t3.ty = .IDENT := congrArg Prod.fst hk3
    have l3 : t3.lit = ch.c := congrArg Prod.snd hk3
    have y4 : t4.ty = .RPAREN := congrArg Prod.fst hk4
    have y5 : t5.ty = .HTML := congrArg Prod.fst hk5
    have l5 : t5.lit = ch.t := congrArg Prod.snd hk5
    obtain ⟨tn, tr, htoks', htn⟩ := chain_next_kind ch.alts ch.els toks' hkr
    have cT : ∀ x ∈ toks' ++ rest, x.ty ≠ .ILLEGAL := by
      intro x hx
      rcases List.mem_append.mp hx with h | h
      · have : key x ∈ altsKeys ch.alts ++ tailKeys ch.els := by rw [← hkr]; exact List.mem_map_of_mem h
        rcases List.mem_append.mp this with h' | h'
        · exact (altsKeys_clean ch.alts _ h').1
        · exact (tailKeys_clean ch.els _ h').1
      · exact hrest x h
    have c5 : ∀ x ∈ t5 :: (toks' ++ rest), x.ty ≠ .ILLEGAL := noill_cons (by rw [y5]; decide) cT
    have c4 : ∀ x ∈ t4 :: t5 :: (toks' ++ rest), x.ty ≠ .ILLEGAL := noill_cons (by rw [y4]; decide) c5
    have c3 : ∀ x ∈ t3 :: t4 :: t5 :: (toks' ++ rest), x.ty ≠ .ILLEGAL := noill_cons (by rw [y3]; decide) c4
    have c2 : ∀ x ∈ t2 :: t3 :: t4 :: t5 :: (toks' ++ rest), x.ty ≠ .ILLEGAL := noill_cons (by rw [y2]; decide) c3
    obtain ⟨alts', alt', tEnd, hrec, hEnd, hm1, hm2⟩ := parse_tail_alts ch.els t1 (.ident t3 t3.lit) [.html t5] rest hrest ch.alts toks' t5 [] (g + 4) hkr (by omega)
    refine ⟨t1, t3, t5, alts', alt', tEnd, ?_, hEnd, l5, hm1, hm2⟩
    show statementBody (parseExpression (g + 4)) (parseExprList (g + 4)) (parseBody (g + 4)) (parseIfTail (g + 4)) (parseSlots (g + 4)) _ = _
    have hc : ({ toks := t1 :: t2 :: t3 :: t4 :: t5 :: toks' ++ rest } : PS).cur.ty = .IF := by simp [PS.cur, y1]
    unfold statementBody
    simp only [hc]
    unfold parseIfStmt
    have e1 := expectPeek_ok ({ toks := t1 :: t2 :: t3 :: t4 :: t5 :: toks' ++ rest } : PS) .LPAREN (by simp [PS.peekIs, PS.peek, y2])
    simp only [List.cons_append] at e1 ⊢
    rw [e1, ps_next_clean t1 t2 _ c2]
    simp only [Bool.not_true, Bool.false_eq_true, if_false, ps_next_clean t2 t3 _ c3]
    rw [parse_ident_rparen (g + 2) t3 t4 _ y3 y4]
    simp only []
    have e2 := expectPeek_ok ({ toks := t3 :: t4 :: t5 :: (toks' ++ rest) } : PS) .RPAREN (by simp [PS.peekIs, PS.peek, y4])
    rw [e2, ps_next_clean t3 t4 _ c4]
    simp only [Bool.not_true, Bool.false_eq_true, if_false]
    have hb := parseBody_one_text' (g + 1) t4 t5 tn (tr ++ rest) y5 htn (fun x hx => cT x (by rw [htoks']; simp only [List.cons_append]; exact List.mem_cons_of_mem _ hx))
    have htl : toks' ++ rest = tn :: (tr ++ rest) := by rw [htoks']; rfl
    rw [htl, hb]
    simp only [PS.cur, List.headD_cons]
    rw [← htl, hrec, l3]
    simp

end Tw
