/-
  TwProofs.Lemmas.EvalStep — one-step equations of the statement evaluator: at fuel `f + 1` each
  function is its (non-recursive) body applied to the functions at fuel `f`.
-/
import TwModel

namespace Tw

theorem evalStmt_succ (f : Nat) (c : Ctx) (env : Env) (s : Stmt) :
    evalStmt (f + 1) c env s = stmtBody (calleesAt f) c env s := rfl
theorem evalElseIfs_succ (f : Nat) (c : Ctx) (env : Env) (alts : List (Expr × List Stmt)) (alt : Option (List Stmt)) :
    evalElseIfs (f + 1) c env alts alt = elseIfsBody (calleesAt f) c env alts alt := rfl
theorem evalBlock_succ (f : Nat) (c : Ctx) (env : Env) (ss : List Stmt) :
    evalBlock (f + 1) c env ss = blockBody (calleesAt f) c env ss := rfl
theorem evalProg_succ (f : Nat) (c : Ctx) (env : Env) (ss : List Stmt) (acc : Bytes) :
    evalProg (f + 1) c env ss acc = progBody (calleesAt f) c env ss acc := rfl
theorem forLoop_succ (f : Nat) (c : Ctx) (env : Env) (t : Token) (init : Option Stmt) (cnd : Option Expr)
    (post : Option Stmt) (body : List Stmt) (acc : Bytes) :
    forLoop (f + 1) c env t init cnd post body acc = forBody (calleesAt f) c env t init cnd post body acc := rfl
theorem eachLoop_succ (f : Nat) (c : Ctx) (env : Env) (t : Token) (var : Bytes) (body : List Stmt) (xs : List Val)
    (i n : Nat) (acc : Bytes) :
    eachLoop (f + 1) c env t var body xs i n acc = eachBody (calleesAt f) c env t var body xs i n acc := rfl

@[simp] theorem calleesAt_expr (f : Nat) : (calleesAt f).expr = evalExpr f := rfl
@[simp] theorem calleesAt_exprs (f : Nat) : (calleesAt f).exprs = evalExprs f := rfl
@[simp] theorem calleesAt_pairs (f : Nat) : (calleesAt f).pairs = evalPairs f := rfl
@[simp] theorem calleesAt_stmt (f : Nat) : (calleesAt f).stmt = evalStmt f := rfl
@[simp] theorem calleesAt_elseIfs (f : Nat) : (calleesAt f).elseIfs = evalElseIfs f := rfl
@[simp] theorem calleesAt_block (f : Nat) : (calleesAt f).block = evalBlock f := rfl
@[simp] theorem calleesAt_prog (f : Nat) : (calleesAt f).prog = evalProg f := rfl
@[simp] theorem calleesAt_forL (f : Nat) : (calleesAt f).forL = forLoop f := rfl
@[simp] theorem calleesAt_eachL (f : Nat) : (calleesAt f).eachL = eachLoop f := rfl

/-- text statements -/
theorem evalStmt_html (f : Nat) (c : Ctx) (env : Env) (t : Token) :
    evalStmt (f + 1) c env (.html t) = .ok ({ text := t.lit }, env) := rfl

theorem evalBlock_nil (f : Nat) (c : Ctx) (env : Env) : evalBlock (f + 1) c env [] = .ok ({}, env) := rfl
theorem evalProg_nil (f : Nat) (c : Ctx) (env : Env) (acc : Bytes) : evalProg (f + 1) c env [] acc = .ok (acc, env) := rfl

theorem evalProg_cons (f : Nat) (c : Ctx) (env : Env) (s : Stmt) (r : List Stmt) (acc : Bytes) :
    evalProg (f + 1) c env (s :: r) acc = (evalStmt f c env s).bind fun r1 => evalProg f c r1.2 r (acc ++ r1.1.text) := rfl

theorem evalBlock_cons (f : Nat) (c : Ctx) (env : Env) (s : Stmt) (r : List Stmt) :
    evalBlock (f + 1) c env (s :: r) = (evalStmt f c env s).bind fun r1 =>
      if r1.1.brk || r1.1.cont then .ok r1
      else (evalBlock f c r1.2 r).bind fun r2 =>
        .ok ({ text := r1.1.text ++ r2.1.text, brk := r2.1.brk, cont := r2.1.cont }, r2.2) := rfl

theorem evalStmt_ifS (f : Nat) (c : Ctx) (env : Env) (t : Token) (cnd : Expr) (cons : List Stmt)
    (alts : List (Expr × List Stmt)) (alt : Option (List Stmt)) :
    evalStmt (f + 1) c env (.ifS t cnd cons alts alt) =
      (evalExpr f c env cnd).bind fun v =>
        if isTruthy v then (evalBlock f c env.push cons).bind fun r => .ok (r.1, env)
        else evalElseIfs f c env alts alt := rfl

theorem evalElseIfs_nil (f : Nat) (c : Ctx) (env : Env) (alt : Option (List Stmt)) :
    evalElseIfs (f + 1) c env [] alt =
      match alt with
      | some ab => (evalBlock f c env.push ab).bind fun r => .ok (r.1, env)
      | none => .ok ({}, env) := rfl

theorem evalElseIfs_cons (f : Nat) (c : Ctx) (env : Env) (ce : Expr) (body : List Stmt) (rest : List (Expr × List Stmt))
    (alt : Option (List Stmt)) :
    evalElseIfs (f + 1) c env ((ce, body) :: rest) alt =
      (evalExpr f c env ce).bind fun v =>
        if isTruthy v then (evalBlock f c env.push body).bind fun r => .ok (r.1, env)
        else evalElseIfs f c env rest alt := rfl

end Tw
