/-
  TwProofs.Lemmas.TextAround — a block of code that is one statement, between two runs of text: lexer,
  parser and evaluator composed once, for every such block (used for `Hello {{ user.name }}!`).
-/
import TwProofs.Lemmas.TextIdxDot
import TwProofs.Lemmas.ParseSimpleGen
namespace Tw

/-- what is needed from a one-statement block to place it between text: how it parses (from any list of
    tokens with its keys, whatever follows) and what it prints -/
structure OneStmt (c : Code) (env : Env) (ctx : Ctx) (out : Bytes) : Prop where
  ok : c.OK
  nonempty : c.keys ≠ []
  parse : ∀ (g : Nat) (toks : List Token) (tn : Token) (rest : List Token), toks.map key = c.keys → Clean (tn :: rest) →
    ∃ st tl, parseStatement (g + 4 * c.keys.length) ({ toks := toks ++ tn :: rest } : PS) = (st, { toks := tl :: tn :: rest }) ∧
      tl.ty ≠ .ILLEGAL ∧ st.isBad = false ∧ (∀ f, evalStmt (f + 8) ctx env st = .ok ({ text := out }, env))
  first : ∀ (toks : List Token), toks.map key = c.keys → ∃ t r, toks = t :: r ∧ t.ty ≠ .EOF ∧ t.ty ≠ .ILLEGAL
  clean : ∀ x ∈ c.keys, x.1 ≠ .ILLEGAL

theorem text_code_text (custom : List ((VType × Bytes) × Nat)) (pre post : List Seg) (c : Code) (data : List (Bytes × GoVal)) (env : Env)
    (henv : envFromMap data = .ok env) (out : Bytes) (hone : OneStmt c env { custom := custom } out)
    (hitems : GItemsOK [.text pre, .code c, .text post]) :
    evaluateStringPure custom (segsSrc pre ++ (c.src ++ segsSrc post)) data = .ok (segsLit pre ++ out ++ segsLit post) := by
  obtain ⟨toks, e, htok, hkeys, he⟩ := tokenize_gitems _ hitems
  have hsrc : gsrc [.text pre, .code c, .text post] = segsSrc pre ++ (c.src ++ segsSrc post) := by simp [gsrc, GItem.src]
  rw [hsrc] at htok
  have hk' : toks.map key = (.HTML, segsLit pre) :: (c.keys ++ [(.HTML, segsLit post)]) := by simpa [gkeys] using hkeys
  -- split the token list
  obtain ⟨th1, r1, rfl, hk1, hr1⟩ : ∃ th1 r1, toks = th1 :: r1 ∧ key th1 = (.HTML, segsLit pre) ∧ r1.map key = c.keys ++ [(.HTML, segsLit post)] := by
    cases toks with
    | nil => simp at hk'
    | cons a r => exact ⟨a, r, rfl, by simpa using (List.cons.inj hk').1, by simpa using (List.cons.inj hk').2⟩
  obtain ⟨mid, l2, hsplit, hmid, hl2⟩ := List.map_eq_append_iff.mp hr1
  obtain ⟨th2, rfl, hk2⟩ : ∃ th2, l2 = [th2] ∧ key th2 = (.HTML, segsLit post) := by
    cases l2 with
    | nil => simp at hl2
    | cons a r =>
      cases r with
      | nil => exact ⟨a, rfl, by simpa using hl2⟩
      | cons _ _ => simp at hl2
  subst hsplit
  have ty1 : th1.ty = .HTML := congrArg Prod.fst hk1
  have lit1 : th1.lit = segsLit pre := congrArg Prod.snd hk1
  have ty2 : th2.ty = .HTML := congrArg Prod.fst hk2
  have lit2 : th2.lit = segsLit post := congrArg Prod.snd hk2
  have hce : Clean [e] := by intro x hx; simp at hx; rw [hx, he]; decide
  have c2 : Clean (th2 :: [e]) := Clean.cons (by rw [ty2]; decide) hce
  have cmid : Clean (mid ++ th2 :: [e]) := by
    intro x hx
    rcases List.mem_append.mp hx with h | h
    · have : key x ∈ c.keys := by rw [← hmid]; exact List.mem_map_of_mem h
      exact hone.clean _ this
    · exact c2 x h
  have hcl : ∀ x ∈ (th1 :: (mid ++ [th2])) ++ [e], x.ty ≠ .ILLEGAL := by
    have : (th1 :: (mid ++ [th2])) ++ [e] = th1 :: (mid ++ th2 :: [e]) := by simp
    rw [this]
    exact Clean.cons (by rw [ty1]; decide) cmid
  obtain ⟨tf, rmid, hmide, hfe, hfi⟩ := hone.first mid hmid
  obtain ⟨st, tl, hst, htl, hbad, hev⟩ := hone.parse 26 mid th2 [e] hmid c2
  have hlen : mid.length = c.keys.length := by rw [← hmid]; simp
  -- the parse
  have e1 : ((th1 :: (mid ++ [th2])) ++ [e]) = th1 :: tf :: (rmid ++ th2 :: [e]) := by rw [hmide]; simp
  have crm : Clean (rmid ++ th2 :: [e]) := by
    intro x hx; exact cmid x (by rw [hmide]; exact List.mem_cons_of_mem _ hx)
  have hfuel : parseFuel ((th1 :: (mid ++ [th2])) ++ [e]) = (4 * c.keys.length + 26) + 2 := by
    simp [parseFuel, hlen]; omega
  have s1 : parseProgramLoop ((4 * c.keys.length + 26) + 2) [] ({ toks := (th1 :: (mid ++ [th2])) ++ [e] } : PS) =
      parseProgramLoop ((4 * c.keys.length + 26) + 1) ([] ++ [.html th1]) ({ toks := mid ++ th2 :: [e] } : PS) := by
    rw [loop_html (4 * c.keys.length + 26) [] ({ toks := (th1 :: (mid ++ [th2])) ++ [e] } : PS) th1 tf (rmid ++ th2 :: [e]) (by rw [e1]) ty1 crm]
    rw [hmide]; rfl
  have s2 : parseProgramLoop ((4 * c.keys.length + 25) + 2) ([] ++ [.html th1]) ({ toks := mid ++ th2 :: [e] } : PS) =
      parseProgramLoop ((4 * c.keys.length + 25) + 1) (([] ++ [.html th1]) ++ [st]) ({ toks := th2 :: [e] } : PS) := by
    exact loop_stmt_last (4 * c.keys.length + 25) ([] ++ [Stmt.html th1]) ({ toks := mid ++ th2 :: [e] } : PS) ({ toks := tl :: th2 :: [e] } : PS) st tf tl th2
      (rmid ++ th2 :: [e]) [e] (by rw [hmide]; rfl) hfe
      (by rw [show 4 * c.keys.length + 25 + 1 = 26 + 4 * c.keys.length from by omega]; exact hst) hbad rfl htl hce
  have s3 : parseProgramLoop ((4 * c.keys.length + 24) + 2) (([] ++ [.html th1]) ++ [st]) ({ toks := th2 :: [e] } : PS) =
      parseProgramLoop ((4 * c.keys.length + 24) + 1) ((([] ++ [.html th1]) ++ [st]) ++ [.html th2]) ({ toks := [e] } : PS) := by
    exact loop_html (4 * c.keys.length + 24) _ ({ toks := th2 :: [e] } : PS) th2 e [] rfl ty2 (fun _ h => by cases h)
  have s4 : parseProgramLoop ((4 * c.keys.length + 24) + 1) ((([] ++ [.html th1]) ++ [st]) ++ [.html th2]) ({ toks := [e] } : PS) =
      (some [.html th1, st, .html th2], { toks := [e] }) := by
    rw [parseProgramLoop]
    have ce : ({ toks := [e] } : PS).curIs .EOF = true := by simp [PS.curIs, PS.cur, he]
    simp [ce]
  have hprog : parseSource (segsSrc pre ++ (c.src ++ segsSrc post)) = .ok { tok := th1, stmts := [.html th1, st, .html th2] } := by
    unfold parseSource
    rw [htok]
    simp only [Bool.false_eq_true, if_false]
    rw [initParser_clean _ hcl, hfuel, s1]
    rw [show (4 * c.keys.length + 26) + 1 = (4 * c.keys.length + 25) + 2 from by omega, s2]
    rw [show (4 * c.keys.length + 25) + 1 = (4 * c.keys.length + 24) + 2 from by omega, s3, s4]
    simp [finishParse, PS.cur]
  -- the render
  unfold evaluateStringPure envOrFail
  rw [hprog]
  simp only [henv]
  rw [show evalFuel = (evalFuel - 12) + 8 + 1 + 1 + 1 + 1 from by decide, evalProg_cons, evalStmt_html]
  simp only [Res.bind_ok]
  rw [evalProg_cons, show evalFuel - 12 + 8 + 1 + 1 = (evalFuel - 12 + 2) + 8 from by decide, hev]
  simp only [Res.bind_ok]
  rw [show evalFuel - 12 + 2 + 8 = (evalFuel - 12 + 8 + 1) + 1 from by decide, evalProg_cons,
    show evalFuel - 12 + 8 + 1 = (evalFuel - 12 + 8) + 1 from by decide, evalStmt_html]
  simp only [Res.bind_ok]
  rw [show evalFuel - 12 + 8 + 1 = (evalFuel - 12 + 8) + 1 from by decide, evalProg_nil]
  simp [resToOut, lit1, lit2]

end Tw
