/-
  TwProofs.Lemmas.PrattErase — the value of an expression depends on the kinds and literals of
  its tokens only, never on their positions: two well-formed trees whose minimal printings agree
  up to positions have the same denotation (C01: "whitespace, newlines … never change the result").
-/
import TwProofs.Lemmas.PrattFullEval
import TwProofs.Lemmas.LexSim
set_option linter.unusedSectionVars false
namespace Tw
open TwSpec

/-- a relabelling of tokens that keeps kinds and literals -/
def KeepsKey (f : Token → Token) : Prop := ∀ t, (f t).ty = t.ty ∧ (f t).lit = t.lit

mutual
def FE.mapTok (f : Token → Token) : FE → FE
  | .atom t => .atom (f t)
  | .pre op r => .pre (f op) (r.mapTok f)
  | .bin op l r => .bin (f op) (l.mapTok f) (r.mapTok f)
  | .tern q c cnd a bb => .tern (f q) (f c) (cnd.mapTok f) (a.mapTok f) (bb.mapTok f)
  | .post op l => .post (f op) (l.mapTok f)
  | .index lb l i => .index (f lb) (l.mapTok f) (i.mapTok f)
  | .dot d name l => .dot (f d) (f name) (l.mapTok f)
  | .call d name l args => .call (f d) (f name) (l.mapTok f) (args.mapTok f)
  | .arr lb els => .arr (f lb) (els.mapTok f)
  | .obj lbr ps => .obj (f lbr) (ps.mapTok f)
def FEs.mapTok (f : Token → Token) : FEs → FEs
  | .nil => .nil
  | .cons e r => .cons (e.mapTok f) (r.mapTok f)
def FPs.mapTok (f : Token → Token) : FPs → FPs
  | .nil => .nil
  | .cons key colon v r => .cons (f key) (f colon) (v.mapTok f) (r.mapTok f)
end

section
variable (f : Token → Token) (hf : KeepsKey f)
include hf

theorem atomExpr_map (t : Token) : (atomExpr (f t)).isSome = (atomExpr t).isSome ∧
    ((atomExpr (f t)).getD .bad).toS = ((atomExpr t).getD .bad).toS := by
  obtain ⟨h1, h2⟩ := hf t
  unfold atomExpr
  rw [h1, h2]
  cases t.ty <;> simp only [] <;> first
    | exact ⟨rfl, rfl⟩
    | (cases parseInt64 t.lit <;> exact ⟨rfl, rfl⟩)
    | (cases parseFloat64 t.lit <;> exact ⟨rfl, rfl⟩)
    | simp [Expr.toS]

theorem opPrec_map (t : Token) : opPrec (f t) = opPrec t := by unfold opPrec; rw [(hf t).1]

theorem lastLevel_map : ∀ e : FE, (e.mapTok f).lastLevel = e.lastLevel
  | .atom _ => by rw [FE.mapTok]; rfl
  | .pre _ _ => by rw [FE.mapTok]; rfl
  | .bin op _ _ => by rw [FE.mapTok]; simp only [FE.lastLevel]; exact opPrec_map f hf op
  | .tern _ _ _ _ _ => by rw [FE.mapTok]; rfl
  | .post _ _ => by rw [FE.mapTok]; rfl
  | .index _ _ _ => by rw [FE.mapTok]; rfl
  | .dot _ _ _ => by rw [FE.mapTok]; rfl
  | .call _ _ _ _ => by rw [FE.mapTok]; rfl
  | .arr _ _ => by rw [FE.mapTok]; rfl
  | .obj _ _ => by rw [FE.mapTok]; rfl

abbrev nox : FE → Bool := fun _ => false

theorem bareL_map (pn : Nat) (l : FE) : Full.bareL nox pn (l.mapTok f) = Full.bareL nox pn l := by
  unfold Full.bareL; rw [lastLevel_map f hf]

theorem spine_map : ∀ e : FE, Full.spine nox (e.mapTok f) = Full.spine nox e
  | .atom _ => by rw [FE.mapTok, Full.spine, Full.spine]
  | .pre _ _ => by rw [FE.mapTok, Full.spine, Full.spine]
  | .bin op l _ => by
    rw [FE.mapTok, Full.spine, Full.spine, opPrec_map f hf, bareL_map f hf, spine_map l]
  | .tern _ _ cnd _ _ => by rw [FE.mapTok, Full.spine, Full.spine, bareL_map f hf, spine_map cnd]
  | .post _ l => by rw [FE.mapTok, Full.spine, Full.spine, bareL_map f hf, spine_map l]
  | .index _ l _ => by rw [FE.mapTok, Full.spine, Full.spine, bareL_map f hf, spine_map l]
  | .dot _ _ l => by rw [FE.mapTok, Full.spine, Full.spine, bareL_map f hf, spine_map l]
  | .call _ _ l _ => by rw [FE.mapTok, Full.spine, Full.spine, bareL_map f hf, spine_map l]
  | .arr _ _ => by rw [FE.mapTok, Full.spine, Full.spine]
  | .obj _ _ => by rw [FE.mapTok, Full.spine, Full.spine]

theorem bareAt_map (m : Nat) (e : FE) : Full.bareAt nox m (e.mapTok f) = Full.bareAt nox m e := by
  unfold Full.bareAt; rw [spine_map f hf]

omit hf in
theorem wrap_map (lp rp : Token) (bare : Bool) (ts : List Token) :
    Full.wrap (f lp) (f rp) bare (ts.map f) = (Full.wrap lp rp bare ts).map f := by
  unfold Full.wrap; cases bare <;> simp

variable (lp rp rbk rbr cm : Token)

mutual
theorem body_map : ∀ e : FE, Full.body (f lp) (f rp) (f rbk) (f rbr) (f cm) nox (e.mapTok f) =
    (Full.body lp rp rbk rbr cm nox e).map f
  | .atom t => by rw [FE.mapTok, Full.body_atom, Full.body_atom]; rfl
  | .pre op r => by
    rw [FE.mapTok, Full.body_pre, Full.body_pre]; simp only [Full.showAt, Full.showL]; rw [bareAt_map f hf, body_map r, wrap_map]; simp
  | .bin op l r => by
    rw [FE.mapTok, Full.body_bin, Full.body_bin]; simp only [Full.showAt, Full.showL]; rw [opPrec_map f hf, bareL_map f hf, bareAt_map f hf, body_map l, body_map r,
      wrap_map, wrap_map]; simp
  | .tern q c cnd a bb => by
    rw [FE.mapTok, Full.body_tern, Full.body_tern]; simp only [Full.showAt, Full.showL]; rw [bareL_map f hf, bareAt_map f hf, bareAt_map f hf, body_map cnd, body_map a,
      body_map bb, wrap_map, wrap_map, wrap_map]; simp
  | .post op l => by
    rw [FE.mapTok, Full.body_post, Full.body_post]; simp only [Full.showAt, Full.showL]; rw [bareL_map f hf, body_map l, wrap_map]; simp
  | .index lb l i => by
    rw [FE.mapTok, Full.body_index, Full.body_index]; simp only [Full.showAt, Full.showL]; rw [bareL_map f hf, bareAt_map f hf, body_map l, body_map i, wrap_map, wrap_map]; simp
  | .dot d name l => by
    rw [FE.mapTok, Full.body_dot, Full.body_dot]; simp only [Full.showAt, Full.showL]; rw [bareL_map f hf, body_map l, wrap_map]; simp
  | .call d name l args => by
    rw [FE.mapTok, Full.body_call, Full.body_call]; simp only [Full.showAt, Full.showL]; rw [bareL_map f hf, body_map l, wrap_map, bodyList_map true args]; simp
  | .arr lb els => by
    rw [FE.mapTok, Full.body_arr, Full.body_arr]; rw [bodyList_map true els]; simp
  | .obj lbr ps => by
    rw [FE.mapTok, Full.body_obj, Full.body_obj]; rw [bodyPairs_map true ps]; simp
theorem bodyList_map : ∀ (first : Bool) (es : FEs), Full.bodyList (f lp) (f rp) (f rbk) (f rbr) (f cm) nox first (es.mapTok f) =
    (Full.bodyList lp rp rbk rbr cm nox first es).map f
  | _, .nil => by rw [FEs.mapTok, Full.bodyList_nil, Full.bodyList_nil]; rfl
  | first, .cons e r => by
    rw [FEs.mapTok, Full.bodyList_cons, Full.bodyList_cons]; simp only [Full.showAt, Full.showL]; rw [bareAt_map f hf, body_map e, wrap_map, bodyList_map false r]
    cases first <;> simp
theorem bodyPairs_map : ∀ (first : Bool) (ps : FPs), Full.bodyPairs (f lp) (f rp) (f rbk) (f rbr) (f cm) nox first (ps.mapTok f) =
    (Full.bodyPairs lp rp rbk rbr cm nox first ps).map f
  | _, .nil => by rw [FPs.mapTok, Full.bodyPairs_nil, Full.bodyPairs_nil]; rfl
  | first, .cons key colon v r => by
    rw [FPs.mapTok, Full.bodyPairs_cons, Full.bodyPairs_cons]; simp only [Full.showAt, Full.showL]; rw [bareAt_map f hf, body_map v, wrap_map, bodyPairs_map false r]
    cases first <;> simp
end

theorem showAt_map (m : Nat) (e : FE) : Full.showAt (f lp) (f rp) (f rbk) (f rbr) (f cm) nox m (e.mapTok f) =
    (Full.showAt lp rp rbk rbr cm nox m e).map f := by
  unfold Full.showAt
  rw [bareAt_map f hf, body_map f hf, wrap_map]

omit lp rp rbk rbr cm

mutual
theorem ok_map : ∀ e : FE, e.ok → (e.mapTok f).ok
  | .atom t, h => by rw [FE.mapTok, FE.ok, (atomExpr_map f hf t).1]; rw [FE.ok] at h; exact h
  | .pre op r, h => by
    rw [FE.ok] at h; rw [FE.mapTok, FE.ok, (hf op).1]; exact ⟨h.1, ok_map r h.2⟩
  | .bin op l r, h => by
    rw [FE.ok] at h; rw [FE.mapTok, FE.ok, (hf op).1]; exact ⟨h.1, ok_map l h.2.1, ok_map r h.2.2⟩
  | .tern q c cnd a bb, h => by
    rw [FE.ok] at h; rw [FE.mapTok, FE.ok, (hf q).1, (hf c).1]
    exact ⟨h.1, h.2.1, ok_map cnd h.2.2.1, ok_map a h.2.2.2.1, ok_map bb h.2.2.2.2⟩
  | .post op l, h => by
    rw [FE.ok] at h; rw [FE.mapTok, FE.ok, (hf op).1]; exact ⟨h.1, ok_map l h.2⟩
  | .index lb l i, h => by
    rw [FE.ok] at h; rw [FE.mapTok, FE.ok, (hf lb).1]; exact ⟨h.1, ok_map l h.2.1, ok_map i h.2.2⟩
  | .dot d name l, h => by
    rw [FE.ok] at h; rw [FE.mapTok, FE.ok, (hf d).1, (hf name).1]; exact ⟨h.1, h.2.1, ok_map l h.2.2⟩
  | .call d name l args, h => by
    rw [FE.ok] at h; rw [FE.mapTok, FE.ok, (hf d).1, (hf name).1]
    exact ⟨h.1, h.2.1, ok_map l h.2.2.1, oks_map args h.2.2.2⟩
  | .arr lb els, h => by
    rw [FE.ok] at h; rw [FE.mapTok, FE.ok, (hf lb).1]; exact ⟨h.1, oks_map els h.2⟩
  | .obj lbr ps, h => by
    rw [FE.ok] at h; rw [FE.mapTok, FE.ok, (hf lbr).1]; exact ⟨h.1, okp_map ps h.2⟩
theorem oks_map : ∀ es : FEs, es.ok → (es.mapTok f).ok
  | .nil, _ => by rw [FEs.mapTok, FEs.ok]; trivial
  | .cons e r, h => by rw [FEs.ok] at h; rw [FEs.mapTok, FEs.ok]; exact ⟨ok_map e h.1, oks_map r h.2⟩
theorem okp_map : ∀ ps : FPs, ps.ok → (ps.mapTok f).ok
  | .nil, _ => by rw [FPs.mapTok, FPs.ok]; trivial
  | .cons key colon v r, h => by
    rw [FPs.ok] at h; rw [FPs.mapTok, FPs.ok, (hf key).1, (hf colon).1]
    exact ⟨h.1, h.2.1, ok_map v h.2.2.1, okp_map r h.2.2.2⟩
end

omit hf in
theorem toSPairs_mapSet (acc : List (Bytes × Expr)) (k : Bytes) (v : Expr) :
    Expr.toSPairs (mapSet acc k v) = mapSet (Expr.toSPairs acc) k v.toS := by
  induction acc with
  | nil => simp [mapSet, Expr.toSPairs]
  | cons x r ih =>
    obtain ⟨k', v'⟩ := x
    simp only [mapSet, Expr.toSPairs]
    split
    · simp [Expr.toSPairs]
    · simp [Expr.toSPairs, ih]

mutual
theorem toS_map : ∀ e : FE, (e.mapTok f).toExpr.toS = e.toExpr.toS
  | .atom t => by rw [FE.mapTok, FE.toExpr, FE.toExpr]; exact (atomExpr_map f hf t).2
  | .pre op r => by rw [FE.mapTok, FE.toExpr, FE.toExpr, Expr.toS, Expr.toS, (hf op).2, toS_map r]
  | .bin op l r => by rw [FE.mapTok, FE.toExpr, FE.toExpr, Expr.toS, Expr.toS, (hf op).2, toS_map l, toS_map r]
  | .tern q c cnd a bb => by rw [FE.mapTok, FE.toExpr, FE.toExpr, Expr.toS, Expr.toS, toS_map cnd, toS_map a, toS_map bb]
  | .post op l => by rw [FE.mapTok, FE.toExpr, FE.toExpr, Expr.toS, Expr.toS, (hf op).2, toS_map l]
  | .index lb l i => by rw [FE.mapTok, FE.toExpr, FE.toExpr, Expr.toS, Expr.toS, toS_map l, toS_map i]
  | .dot d name l => by rw [FE.mapTok, FE.toExpr, FE.toExpr, Expr.toS, Expr.toS, (hf name).2, toS_map l]
  | .call d name l args => by
    rw [FE.mapTok, FE.toExpr, FE.toExpr, Expr.toS, Expr.toS, (hf name).2, toS_map l, toSs_map args]
  | .arr lb els => by rw [FE.mapTok, FE.toExpr, FE.toExpr, Expr.toS, Expr.toS, toSs_map els]
  | .obj lbr ps => by rw [FE.mapTok, FE.toExpr, FE.toExpr, Expr.toS, Expr.toS, toSp_map ps [] [] rfl]
theorem toSs_map : ∀ es : FEs, Expr.toSList (es.mapTok f).toExprs = Expr.toSList es.toExprs
  | .nil => by rw [FEs.mapTok]
  | .cons e r => by rw [FEs.mapTok, FEs.toExprs, FEs.toExprs, Expr.toSList, Expr.toSList, toS_map e, toSs_map r]
theorem toSp_map : ∀ (ps : FPs) (acc acc' : List (Bytes × Expr)), Expr.toSPairs acc' = Expr.toSPairs acc →
    Expr.toSPairs ((ps.mapTok f).toPairs acc') = Expr.toSPairs (ps.toPairs acc)
  | .nil, acc, acc', h => by rw [FPs.mapTok, FPs.toPairs, FPs.toPairs]; exact h
  | .cons key colon v r, acc, acc', h => by
    rw [FPs.mapTok, FPs.toPairs, FPs.toPairs]
    apply toSp_map r
    rw [toSPairs_mapSet, toSPairs_mapSet, (hf key).2, toS_map v, h]
end

end

/-- forget the position of a token -/
def eraseTok (t : Token) : Token := { ty := t.ty, lit := t.lit, pos := {} }

theorem eraseTok_keeps : KeepsKey eraseTok := fun _ => ⟨rfl, rfl⟩

theorem map_erase_of_keys {a c : List Token} (h : a.map key = c.map key) : a.map eraseTok = c.map eraseTok := by
  have e : ∀ l : List Token, l.map eraseTok = (l.map key).map (fun k => ({ ty := k.1, lit := k.2, pos := {} } : Token)) := by
    intro l; simp [List.map_map, Function.comp_def, eraseTok, key]
  rw [e a, e c, h]

/-- **positions do not matter**: two well-formed trees whose minimal printings have the same
    token kinds and literals — for instance because the two sources differ in whitespace and
    newlines only — have the same denotation -/
theorem same_keys_same_denotation (lp rp rbk rbr cm lp' rp' rbk' rbr' cm' : Token)
    (hlp : lp.ty = .LPAREN) (hrp : rp.ty = .RPAREN) (hrbk : rbk.ty = .RBRACKET) (hrbr : rbr.ty = .RBRACE) (hcm : cm.ty = .COMMA)
    (klp : key lp' = key lp) (krp : key rp' = key rp) (krbk : key rbk' = key rbk) (krbr : key rbr' = key rbr) (kcm : key cm' = key cm)
    (e1 e2 : FE) (h1 : e1.ok) (h2 : e2.ok)
    (heq : (Full.showAt lp rp rbk rbr cm (fun _ => false) (LOWEST + 1) e1).map key =
           (Full.showAt lp' rp' rbk' rbr' cm' (fun _ => false) (LOWEST + 1) e2).map key) :
    e1.toExpr.toS = e2.toExpr.toS := by
  have ek : ∀ {a c : Token}, key a = key c → eraseTok a = eraseTok c := by
    intro a c h
    have h1 : a.ty = c.ty := congrArg Prod.fst h
    have h2 : a.lit = c.lit := congrArg Prod.snd h
    simp [eraseTok, h1, h2]
  have hm := map_erase_of_keys heq
  rw [← showAt_map eraseTok eraseTok_keeps, ← showAt_map eraseTok eraseTok_keeps, ek klp, ek krp, ek krbk, ek krbr, ek kcm] at hm
  have inj := Full.print_injective (eraseTok lp) (eraseTok rp) (eraseTok rbk) (eraseTok rbr) (eraseTok cm) hlp hrp hrbk hrbr hcm
    (e1.mapTok eraseTok) (e2.mapTok eraseTok) (ok_map eraseTok eraseTok_keeps e1 h1) (ok_map eraseTok eraseTok_keeps e2 h2)
    [{ ty := .RBRACES, lit := [], pos := {} }] (fun t ht => by simp at ht; rw [ht]; decide) (Or.inl rfl) hm
  rw [← toS_map eraseTok eraseTok_keeps e1, ← toS_map eraseTok eraseTok_keeps e2, inj]

end Tw
