/-
  TwProofs.Lemmas.TextIdxDot — `{{ name[digits].field }}` from the source bytes to the parsed program (C12:
  a field of an element of a slice of the data).
-/
import TwProofs.Lemmas.TextTernary
namespace Tw
open Lx

/-- `{{ g1 k [ g3 d g4 ] . f g2 }}` -/
def idxDotSrc (g1 k g3 d g4 f g2 : Bytes) : Bytes :=
  [123, 123] ++ g1 ++ k ++ [91] ++ g3 ++ d ++ g4 ++ [93] ++ [46] ++ f ++ g2 ++ [125, 125]

def idxDotKeys (k d f : Bytes) : List (TT × Bytes) :=
  [(.LBRACES, [123, 123]), (.IDENT, k), (.LBRACKET, [91]), (.INT, d), (.RBRACKET, [93]), (.DOT, [46]), (.IDENT, f), (.RBRACES, [125, 125])]

theorem lex_idxDot (s : Lx) (g1 k g3 d g4 f g2 tl : Bytes) (hh : s.isHTML = true) (hb : s.braces = 0) (hg1 : allWs g1) (hg2 : allWs g2)
    (hg3 : allWs g3) (hg4 : allWs g4) (hk : isName k) (hd : isDigits d) (hf : isName f) (hr : s.rest = idxDotSrc g1 k g3 d g4 f g2 ++ tl) :
    ∃ toks s8, Run s toks s8 ∧ toks.map key = idxDotKeys k d f ∧ s8.rest = tl ∧ s8.prev = 125 ∧
      mode s8 = (true, s.isDirective, s.parens, 0, s.panicked) := by
  obtain ⟨⟨c, cv, hcv, hc⟩, hall, hkw⟩ := hk
  have hkn : isName k := ⟨⟨c, cv, hcv, hc⟩, hall, hkw⟩
  obtain ⟨⟨e, ev, hev, he⟩, hfall, hfkw⟩ := hf
  have hfn : isName f := ⟨⟨e, ev, hev, he⟩, hfall, hfkw⟩
  have hnot := identCh_not_special hc
  have hr' : s.rest = 123 :: 123 :: (g1 ++ (k ++ ([] ++ (91 :: (g3 ++ (d ++ (g4 ++ (93 :: (46 :: ([] ++ (f ++ (g2 ++ (125 :: 125 :: tl))))))))))))) := by
    rw [hr]; simp [idxDotSrc, List.append_assoc]
  have hx1 : (g1 ++ (k ++ ([] ++ (91 :: (g3 ++ (d ++ (g4 ++ (93 :: (46 :: ([] ++ (f ++ (g2 ++ (125 :: 125 :: tl))))))))))))).headD 0 ≠ 45 := by
    cases g1 with
    | nil => simp only [List.nil_append, hcv, List.cons_append, List.headD_cons]; exact hnot.2.2.2.2.2.2.2.2.2.2.1
    | cons w t =>
      have hw : isWs w = true := hg1 w List.mem_cons_self
      simp only [List.cons_append, List.headD_cons]
      intro e; rw [e] at hw; cases hw
  obtain ⟨t1, s1, st1, k1, ne1, r1, _, m1⟩ := lex_open s _ hh hr' hx1
  obtain ⟨a1, a2, a3, a4, a5⟩ := mode_fields m1
  obtain ⟨t2, s2, st2, k2, ne2, b2⟩ := code_word_step s1 g1 k _ a1 hg1 (isName_word hkn) r1 (by simp only [List.nil_append, List.headD_cons]; decide)
  have h2 : s2.isHTML = false := by rw [mode_html b2.md]; exact a1
  obtain ⟨t3, s3, st3, k3, ty3, b3⟩ := code_simple_step s2 91 .LBRACKET [] _ (by decide) h2 (fun _ h => by cases h) b2.rest
  have h3 : s3.isHTML = false := by rw [mode_html b3.md]; exact h2
  have hx4 := ws_then_op_not_number g4 (46 :: ([] ++ (f ++ (g2 ++ (125 :: 125 :: tl))))) 93 hg4 (by decide) (by decide)
  obtain ⟨t4, s4, st4, k4, ne4, b4⟩ := code_int_step s3 g3 d _ h3 hg3 hd b3.rest hx4.1 hx4.2
  have h4 : s4.isHTML = false := by rw [mode_html b4.md]; exact h3
  obtain ⟨t5, s5, st5, k5, ty5, b5⟩ := code_simple_step s4 93 .RBRACKET g4 _ (by decide) h4 hg4 b4.rest
  have h5 : s5.isHTML = false := by rw [mode_html b5.md]; exact h4
  obtain ⟨t6, s6, st6, k6, ne6, b6⟩ := code_dot_step s5 _ h5 b5.rest
  have h6 : s6.isHTML = false := by rw [mode_html b6.md]; exact h5
  have hx7 : (isIdentCh ((g2 ++ (125 :: 125 :: tl)).headD 0) || isNumberCh ((g2 ++ (125 :: 125 :: tl)).headD 0)) = false := by
    cases g2 with
    | nil => simp only [List.nil_append, List.headD_cons]; decide
    | cons w t =>
      have hw : isWs w = true := hg2 w List.mem_cons_self
      simp only [List.cons_append, List.headD_cons]
      rw [ws_not_ident hw, ws_not_number hw]; rfl
  obtain ⟨t7, s7, st7, k7, ne7, b7⟩ := code_word_step s6 [] f _ h6 (fun _ h => by cases h) (isName_word hfn) b6.rest hx7
  have h7 : s7.isHTML = false := by rw [mode_html b7.md]; exact h6
  have br7 : s7.braces = 0 := by
    rw [mode_braces b7.md, mode_braces b6.md, mode_braces b5.md, mode_braces b4.md, mode_braces b3.md, mode_braces b2.md, a4]; exact hb
  obtain ⟨t8, s8, st8, k8, ne8, r8, pv8, m8⟩ := code_close_step s7 g2 tl h7 br7 hg2 b7.rest
  refine ⟨[t1, t2, t3, t4, t5, t6, t7, t8], s8, ?_, ?_, r8, pv8, ?_⟩
  · exact Run.cons _ _ _ _ _ st1 ne1 (Run.cons _ _ _ _ _ st2 ne2 (Run.cons _ _ _ _ _ st3 (by rw [ty3]; decide) (Run.cons _ _ _ _ _ st4 ne4
      (Run.cons _ _ _ _ _ st5 (by rw [ty5]; decide) (Run.cons _ _ _ _ _ st6 ne6 (Run.cons _ _ _ _ _ st7 ne7 (Run.cons _ _ _ _ _ st8 ne8 (Run.nil _))))))))
  · have hk2 : key t2 = (.IDENT, k) := by rw [k2, hkw]
    have hk7 : key t7 = (.IDENT, f) := by rw [k7, hfkw]
    simp [idxDotKeys, k1, hk2, k3, k4, k5, k6, hk7, k8]
  · rw [m8, mode_dir b7.md, mode_dir b6.md, mode_dir b5.md, mode_dir b4.md, mode_dir b3.md, mode_dir b2.md, a2, mode_parens b7.md,
      mode_parens b6.md, mode_parens b5.md, mode_parens b4.md, mode_parens b3.md, mode_parens b2.md, a3, mode_pan b7.md, mode_pan b6.md,
      mode_pan b5.md, mode_pan b4.md, mode_pan b3.md, mode_pan b2.md, a5]

def idxDotCode (g1 k g3 d g4 f g2 : Bytes) : Code := { src := idxDotSrc g1 k g3 d g4 f g2, keys := idxDotKeys k d f }

theorem idxDotCode_ok (g1 k g3 d g4 f g2 : Bytes) (hg1 : allWs g1) (hg2 : allWs g2) (hg3 : allWs g3) (hg4 : allWs g4) (hk : isName k)
    (hd : isDigits d) (hf : isName f) : (idxDotCode g1 k g3 d g4 f g2).OK := by
  refine ⟨?_, ?_, ?_⟩
  · intro tl
    exact Or.inr (Or.inl ⟨g1 ++ k ++ [91] ++ g3 ++ d ++ g4 ++ [93] ++ [46] ++ f ++ g2 ++ [125, 125] ++ tl,
      by simp [idxDotCode, idxDotSrc, List.append_assoc]⟩)
  · obtain ⟨⟨c, cv, hcv, _⟩, _, _⟩ := hk
    obtain ⟨⟨e, ev, hev, _⟩, _, _⟩ := hf
    have ld : 0 < d.length := List.length_pos_iff.mpr hd.1
    simp [idxDotCode, idxDotSrc, idxDotKeys, hcv, hev]; omega
  · intro s tl hr hh hb hpa hdi _
    obtain ⟨toks, s8, run, hkeys, r8, pv8, m8⟩ := lex_idxDot s g1 k g3 d g4 f g2 tl hh hb hg1 hg2 hg3 hg4 hk hd hf hr
    obtain ⟨f1, f2, f3, f4, f5⟩ := mode_fields m8
    exact ⟨toks, s8, run, hkeys, r8, f1, f4, by rw [f3]; exact hpa, by rw [f2]; exact hdi, f5, by rw [pv8]; decide⟩

/-- `k[d].f` -/
theorem parse_idxDot_expr (g : Nat) (t2 t3 t4 t5 t6 t7 t8 : Token) (tail : List Token) (v : Int64) (h2 : t2.ty = .IDENT)
    (h3 : t3.ty = .LBRACKET) (h4 : t4.ty = .INT) (h5 : t5.ty = .RBRACKET) (h6 : t6.ty = .DOT) (h7 : t7.ty = .IDENT) (h8 : t8.ty = .RBRACES)
    (hv : parseInt64 t4.lit = some v) (hclean : ∀ x ∈ tail, x.ty ≠ .ILLEGAL) :
    parseExpression (g + 5) LOWEST ({ toks := t2 :: t3 :: t4 :: t5 :: t6 :: t7 :: t8 :: tail } : PS) =
      (.dot t6 (.index t3 (.ident t2 t2.lit) (.int t4 v)) t7.lit, { toks := t7 :: t8 :: tail }) := by
  have c8 := noill_cons (t := t8) (by rw [h8]; decide) hclean
  have c7 := noill_cons (t := t7) (by rw [h7]; decide) c8
  have c6 := noill_cons (t := t6) (by rw [h6]; decide) c7
  have c5 := noill_cons (t := t5) (by rw [h5]; decide) c6
  have c4 := noill_cons (t := t4) (by rw [h4]; decide) c5
  have c3 := noill_cons (t := t3) (by rw [h3]; decide) c4
  have nx2 : ({ toks := t2 :: t3 :: t4 :: t5 :: t6 :: t7 :: t8 :: tail } : PS).next = { toks := t3 :: t4 :: t5 :: t6 :: t7 :: t8 :: tail } := ps_next_clean t2 t3 _ c3
  have nx3 : ({ toks := t3 :: t4 :: t5 :: t6 :: t7 :: t8 :: tail } : PS).next = { toks := t4 :: t5 :: t6 :: t7 :: t8 :: tail } := ps_next_clean t3 t4 _ c4
  have nx4 : ({ toks := t4 :: t5 :: t6 :: t7 :: t8 :: tail } : PS).next = { toks := t5 :: t6 :: t7 :: t8 :: tail } := ps_next_clean t4 t5 _ c5
  have nx5 : ({ toks := t5 :: t6 :: t7 :: t8 :: tail } : PS).next = { toks := t6 :: t7 :: t8 :: tail } := ps_next_clean t5 t6 _ c6
  have nx6 : ({ toks := t6 :: t7 :: t8 :: tail } : PS).next = { toks := t7 :: t8 :: tail } := ps_next_clean t6 t7 _ c7
  have hin : parseExpression (g + 3) LOWEST ({ toks := t4 :: t5 :: t6 :: t7 :: t8 :: tail } : PS) = (.int t4 v, { toks := t4 :: t5 :: t6 :: t7 :: t8 :: tail }) :=
    parse_int_operand (g + 1) LOWEST t4 t5 (t6 :: t7 :: t8 :: tail) v h4 hv (Or.inr (by rw [h5]; decide))
  rw [parseExpression_succ]
  have hp : prefixBody (parseExpression (g + 4)) (parseExprList (g + 4)) (parseObjLoop (g + 4))
      ({ toks := t2 :: t3 :: t4 :: t5 :: t6 :: t7 :: t8 :: tail } : PS) = some (.ident t2 t2.lit, { toks := t2 :: t3 :: t4 :: t5 :: t6 :: t7 :: t8 :: tail }) := by
    unfold prefixBody
    simp [PS.cur, h2]
  rw [hp]
  simp only []
  -- the index
  rw [prattLoop_succ]
  have e1 : ({ toks := t2 :: t3 :: t4 :: t5 :: t6 :: t7 :: t8 :: tail } : PS).peekIs .RBRACES = false := by simp [PS.peekIs, PS.peek, h3]
  have e2 : ({ toks := t2 :: t3 :: t4 :: t5 :: t6 :: t7 :: t8 :: tail } : PS).peekIs .SEMI = false := by simp [PS.peekIs, PS.peek, h3]
  have e3 : ({ toks := t2 :: t3 :: t4 :: t5 :: t6 :: t7 :: t8 :: tail } : PS).peekIs .RPAREN = false := by simp [PS.peekIs, PS.peek, h3]
  have e4 : ({ toks := t2 :: t3 :: t4 :: t5 :: t6 :: t7 :: t8 :: tail } : PS).peekPrecedence = INDEX := by simp [PS.peekPrecedence, PS.peek, h3, precedence]
  have e5 : ({ toks := t2 :: t3 :: t4 :: t5 :: t6 :: t7 :: t8 :: tail } : PS).peek.ty = .LBRACKET := by simp [PS.peek, h3]
  simp only [e1, e2, e3, e4, e5, Bool.or_self, show (!decide (LOWEST < INDEX)) = false from by decide,
    Bool.false_eq_true, if_false, show (!hasInfix .LBRACKET) = false from by decide, nx2]
  have hinf : infixBody (parseExpression (g + 3)) (parseExprList (g + 3)) (.ident t2 t2.lit) ({ toks := t3 :: t4 :: t5 :: t6 :: t7 :: t8 :: tail } : PS) =
      (.index t3 (.ident t2 t2.lit) (.int t4 v), { toks := t5 :: t6 :: t7 :: t8 :: tail }) := by
    unfold infixBody
    have c0 : ({ toks := t3 :: t4 :: t5 :: t6 :: t7 :: t8 :: tail } : PS).cur = t3 := rfl
    simp only [c0, h3, show isBinaryOp .LBRACKET = false from by decide, Bool.false_eq_true, if_false,
      show (TT.LBRACKET == TT.QUESTION) = false from by decide, show (TT.LBRACKET == TT.LBRACKET) = true from by decide, if_true, nx3, hin]
    have ep := expectPeek_ok ({ toks := t4 :: t5 :: t6 :: t7 :: t8 :: tail } : PS) .RBRACKET (by simp [PS.peekIs, PS.peek, h5])
    rw [ep, nx4]
    simp
  rw [hinf]
  simp only []
  -- the field
  rw [prattLoop_succ]
  have d1 : ({ toks := t5 :: t6 :: t7 :: t8 :: tail } : PS).peekIs .RBRACES = false := by simp [PS.peekIs, PS.peek, h6]
  have d2 : ({ toks := t5 :: t6 :: t7 :: t8 :: tail } : PS).peekIs .SEMI = false := by simp [PS.peekIs, PS.peek, h6]
  have d3 : ({ toks := t5 :: t6 :: t7 :: t8 :: tail } : PS).peekIs .RPAREN = false := by simp [PS.peekIs, PS.peek, h6]
  have d4 : ({ toks := t5 :: t6 :: t7 :: t8 :: tail } : PS).peekPrecedence = MEMBER_ACCESS := by simp [PS.peekPrecedence, PS.peek, h6, precedence]
  have d5 : ({ toks := t5 :: t6 :: t7 :: t8 :: tail } : PS).peek.ty = .DOT := by simp [PS.peek, h6]
  simp only [d1, d2, d3, d4, d5, Bool.or_self, show (!decide (LOWEST < MEMBER_ACCESS)) = false from by decide,
    Bool.false_eq_true, if_false, show (!hasInfix .DOT) = false from by decide, nx5]
  have hinf2 : infixBody (parseExpression (g + 2)) (parseExprList (g + 2)) (.index t3 (.ident t2 t2.lit) (.int t4 v))
      ({ toks := t6 :: t7 :: t8 :: tail } : PS) = (.dot t6 (.index t3 (.ident t2 t2.lit) (.int t4 v)) t7.lit, { toks := t7 :: t8 :: tail }) := by
    unfold infixBody
    have c0 : ({ toks := t6 :: t7 :: t8 :: tail } : PS).cur = t6 := rfl
    simp only [c0, h6, show isBinaryOp .DOT = false from by decide, Bool.false_eq_true, if_false,
      show (TT.DOT == TT.QUESTION) = false from by decide, show (TT.DOT == TT.LBRACKET) = false from by decide,
      show (TT.DOT == TT.INC || TT.DOT == TT.DEC) = false from by decide]
    have ep := expectPeek_ok ({ toks := t6 :: t7 :: t8 :: tail } : PS) .IDENT (by simp [PS.peekIs, PS.peek, h7])
    rw [ep, nx6]
    have pk : ({ toks := t7 :: t8 :: tail } : PS).peekIs .LPAREN = false := by simp [PS.peekIs, PS.peek, h8]
    simp [pk, PS.cur]
  rw [hinf2]
  simp only []
  exact prattLoop_stop_rbraces (g + 1) LOWEST _ t7 t8 tail h8

/-- **`{{ k[d].f }}`, parsed** -/
theorem parse_idxDot_source (g1 k g3 d g4 f g2 : Bytes) (hg1 : allWs g1) (hg2 : allWs g2) (hg3 : allWs g3) (hg4 : allWs g4) (hk : isName k)
    (hd : isDigits d) (hf : isName f) (hb : digitsToNat d ≤ 9223372036854775807) :
    ∃ prog t2 t3 t4 t6 t7, parseSource (idxDotSrc g1 k g3 d g4 f g2) = .ok prog ∧
      prog.stmts = [.expr t7 (.dot t6 (.index t3 (.ident t2 k) (.int t4 (Int64.ofNat (digitsToNat d)))) f)] := by
  have hok : GItemsOK [.code (idxDotCode g1 k g3 d g4 f g2)] := ⟨idxDotCode_ok g1 k g3 d g4 f g2 hg1 hg2 hg3 hg4 hk hd hf, trivial⟩
  obtain ⟨toks, e, htok, hkeys, he⟩ := tokenize_gitems _ hok
  have hsrc : gsrc [.code (idxDotCode g1 k g3 d g4 f g2)] = idxDotSrc g1 k g3 d g4 f g2 := by simp [gsrc, GItem.src, idxDotCode]
  rw [hsrc] at htok
  have hk' : toks.map key = idxDotKeys k d f := by simpa [gkeys, idxDotCode] using hkeys
  match toks, hk' with
  | [], hk' => simp [idxDotKeys] at hk'
  | [_], hk' => simp [idxDotKeys] at hk'
  | [_, _], hk' => simp [idxDotKeys] at hk'
  | [_, _, _], hk' => simp [idxDotKeys] at hk'
  | [_, _, _, _], hk' => simp [idxDotKeys] at hk'
  | [_, _, _, _, _], hk' => simp [idxDotKeys] at hk'
  | [_, _, _, _, _, _], hk' => simp [idxDotKeys] at hk'
  | [_, _, _, _, _, _, _], hk' => simp [idxDotKeys] at hk'
  | _ :: _ :: _ :: _ :: _ :: _ :: _ :: _ :: _ :: _, hk' => simp [idxDotKeys] at hk'
  | [t1, t2, t3, t4, t5, t6, t7, t8], hk' =>
    simp only [idxDotKeys, List.map_cons, List.map_nil, List.cons.injEq, and_true] at hk'
    obtain ⟨hk1, hk2, hk3, hk4, hk5, hk6, hk7, hk8⟩ := hk'
    have ty1 : t1.ty = .LBRACES := congrArg Prod.fst hk1
    have ty2 : t2.ty = .IDENT := congrArg Prod.fst hk2
    have lit2 : t2.lit = k := congrArg Prod.snd hk2
    have ty3 : t3.ty = .LBRACKET := congrArg Prod.fst hk3
    have ty4 : t4.ty = .INT := congrArg Prod.fst hk4
    have lit4 : t4.lit = d := congrArg Prod.snd hk4
    have ty5 : t5.ty = .RBRACKET := congrArg Prod.fst hk5
    have ty6 : t6.ty = .DOT := congrArg Prod.fst hk6
    have ty7 : t7.ty = .IDENT := congrArg Prod.fst hk7
    have lit7 : t7.lit = f := congrArg Prod.snd hk7
    have ty8 : t8.ty = .RBRACES := congrArg Prod.fst hk8
    have hce : ∀ x ∈ [e], x.ty ≠ .ILLEGAL := by intro x hx; simp at hx; rw [hx, he]; decide
    have c8 := noill_cons (t := t8) (by rw [ty8]; decide) hce
    have c7 := noill_cons (t := t7) (by rw [ty7]; decide) c8
    have c6 := noill_cons (t := t6) (by rw [ty6]; decide) c7
    have c5 := noill_cons (t := t5) (by rw [ty5]; decide) c6
    have c4 := noill_cons (t := t4) (by rw [ty4]; decide) c5
    have c3 := noill_cons (t := t3) (by rw [ty3]; decide) c4
    have c2' := noill_cons (t := t2) (by rw [ty2]; decide) c3
    have hcl : ∀ x ∈ [t1, t2, t3, t4, t5, t6, t7, t8] ++ [e], x.ty ≠ .ILLEGAL := noill_cons (by rw [ty1]; decide) c2'
    refine ⟨{ tok := t1, stmts := [.expr t7 (.dot t6 (.index t3 (.ident t2 k) (.int t4 (Int64.ofNat (digitsToNat d)))) f)] }, t2, t3, t4, t6, t7, ?_, rfl⟩
    unfold parseSource
    rw [htok]
    simp only [Bool.false_eq_true, if_false]
    rw [initParser_clean _ hcl]
    have hfuel : parseFuel ([t1, t2, t3, t4, t5, t6, t7, t8] ++ [e]) = 46 + 6 := by simp [parseFuel]
    rw [hfuel]
    have hex := parse_idxDot_expr 45 t2 t3 t4 t5 t6 t7 t8 [e] _ ty2 ty3 ty4 ty5 ty6 ty7 ty8 (by rw [lit4]; exact parseInt64_digits d hd hb) hce
    have hst := parse_expr_stmt_ident 50 t1 t2 t3 t7 t8 [t4, t5, t6, t7, t8, e] [e] _ ty1 ty2 (by rw [ty3]; decide) ty8 c2' c7 hex
    have hloop : parseProgramLoop (46 + 6) [] ({ toks := [t1, t2, t3, t4, t5, t6, t7, t8] ++ [e] } : PS) =
        (some [.expr t7 (.dot t6 (.index t3 (.ident t2 t2.lit) (.int t4 (Int64.ofNat (digitsToNat d)))) t7.lit)], { toks := [e] }) := by
      rw [show 46 + 6 = 51 + 1 from rfl, parseProgramLoop]
      have c0 : ({ toks := [t1, t2, t3, t4, t5, t6, t7, t8] ++ [e] } : PS).curIs .EOF = false := by simp [PS.curIs, PS.cur, ty1]
      simp only [c0, Bool.false_eq_true, if_false]
      simp only [List.cons_append, List.nil_append] at hst ⊢
      rw [show 51 = 50 + 1 from rfl, hst]
      have i5 : ({ toks := [t8, e] } : PS).curIs .ILLEGAL = false := by simp [PS.curIs, PS.cur, ty8]
      simp only [i5, Bool.false_eq_true, if_false, Stmt.isBad]
      have nx : ({ toks := [t8, e] } : PS).next = { toks := [e] } := ps_next_clean t8 e [] hce
      rw [nx, parseProgramLoop]
      have ce : ({ toks := [e] } : PS).curIs .EOF = true := by simp [PS.curIs, PS.cur, he]
      simp [ce]
    rw [hloop]
    simp [finishParse, PS.cur, lit2, lit7]

end Tw
