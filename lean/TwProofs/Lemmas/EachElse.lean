/-
  TwProofs.Lemmas.EachElse — `@each(x in xs) body @else other @end` from the source bytes to the
  parsed program (C03): the loop with its `@else` block.
-/
import TwProofs.Lemmas.ScopeEval
namespace Tw
open Lx

/-- a body without assignments: text and prints -/
def noAssign : List AItem → Bool
  | [] => true
  | .assign _ _ _ _ _ _ _ :: _ => false
  | _ :: r => noAssign r

def apieces : List AItem → List Piece
  | [] => []
  | .text t :: r => .text t :: apieces r
  | .print _ n _ :: r => .hole n :: apieces r
  | .assign _ _ _ _ _ _ _ :: r => apieces r

theorem amatch_simple : ∀ (stmts : List Stmt) (body : List AItem), AMatch stmts body → noAssign body = true →
    simpleBlock stmts = true ∧ piecesOf stmts = apieces body := by
  intro stmts body hm
  induction hm with
  | nil => intro _; exact ⟨rfl, rfl⟩
  | text t txt ss r hlit _ ih =>
    intro hn
    obtain ⟨h1, h2⟩ := ih (by simpa [noAssign] using hn)
    exact ⟨by simpa [simpleBlock] using h1, by simp [piecesOf, apieces, hlit, h2]⟩
  | print t t2 g1 n g2 ss r _ ih =>
    intro hn
    obtain ⟨h1, h2⟩ := ih (by simpa [noAssign] using hn)
    exact ⟨by simpa [simpleBlock] using h1, by simp [piecesOf, apieces, h2]⟩
  | assign t tv g1 n g2 g3 q v g4 ss r _ _ => intro hn; simp [noAssign] at hn

theorem apieces_length : ∀ body : List AItem, noAssign body = true → (apieces body).length = body.length
  | [], _ => rfl
  | .text _ :: r, h => by simp [apieces, apieces_length r (by simpa [noAssign] using h)]
  | .print _ _ _ :: r, h => by simp [apieces, apieces_length r (by simpa [noAssign] using h)]
  | .assign _ _ _ _ _ _ _ :: _, h => by simp [noAssign] at h

/-- the first bytes behind `@else` are not "if" -/
def elseStartOK : List AItem → Prop
  | .text t :: _ => ¬ (t.headD 0 = 105 ∧ (t.drop 1).headD 0 = 102)
  | _ => True

instance elseStartOK.dec : (l : List AItem) → Decidable (elseStartOK l)
  | [] => isTrue trivial
  | .text t :: _ => by unfold elseStartOK; exact inferInstance
  | .print _ _ _ :: _ => isTrue trivial
  | .assign _ _ _ _ _ _ _ :: _ => isTrue trivial

/-- `@each( g1 x g2 in g3 xs g4 ) body @else ebody @end` -/
def eachElseSrc (g1 x g2 g3 xs g4 : Bytes) (body ebody : List AItem) : Bytes :=
  kwEach ++ ([40] ++ (g1 ++ (x ++ (g2 ++ (kwIn ++ (g3 ++ (xs ++ (g4 ++ (41 :: (asrc body ++ (kwElse ++ (asrc ebody ++ kwEnd))))))))))))

def eachElseKeys (x xs : Bytes) (body ebody : List AItem) : List (TT × Bytes) :=
  [(.EACH, kwEach), (.LPAREN, [40]), (.IDENT, x), (.IN, kwIn), (.IDENT, xs), (.RPAREN, [41])] ++
    (akeys body ++ ((.ELSE, kwElse) :: (akeys ebody ++ [(.END, kwEnd)])))

def eachElseCode (g1 x g2 g3 xs g4 : Bytes) (body ebody : List AItem) : Code :=
  { src := eachElseSrc g1 x g2 g3 xs g4 body ebody, keys := eachElseKeys x xs body ebody }

structure EachElseOK (g1 x g2 g3 xs g4 : Bytes) (body ebody : List AItem) : Prop where
  hg1 : allWs g1
  hg2 : allWs g2
  hg2n : g2 ≠ []
  hg3 : allWs g3
  hg3n : g3 ≠ []
  hg4 : allWs g4
  hx : isName x
  hxs : isName xs
  hbody : AOK body
  hebody : AOK ebody
  hstart : elseStartOK ebody

theorem else_not_if (ebody : List AItem) (hok : AOK ebody) (hst : elseStartOK ebody) (tl : Bytes) :
    ¬ ((asrc ebody ++ (kwEnd ++ tl)).headD 0 = 105 ∧ ((asrc ebody ++ (kwEnd ++ tl)).drop 1).headD 0 = 102) := by
  cases ebody with
  | nil => simp [asrc, kwEnd]
  | cons it r =>
    cases it with
    | text t =>
      obtain ⟨_, hne, hnt, _⟩ := hok
      intro ⟨e1, e2⟩
      apply hst
      cases t with
      | nil => exact absurd rfl hne
      | cons a t' =>
        cases t' with
        | nil =>
          simp only [asrc, AItem.src, List.cons_append, List.nil_append, List.headD_cons, List.drop_succ_cons, List.drop_zero] at e1 e2
          -- one byte of text: the next byte is "{" of a block or "@" of `@end`, never "f"
          exfalso
          cases r with
          | nil => simp [asrc, kwEnd] at e2
          | cons it2 r2 =>
            cases it2 with
            | text _ => exact hnt
            | print _ _ _ => simp [asrc, AItem.src] at e2
            | assign _ _ _ _ _ _ _ => simp [asrc, AItem.src, assignSrc] at e2
        | cons a2 t'' => simpa [asrc, AItem.src] using ⟨e1, e2⟩
    | print g1 n g2 => simp [asrc, AItem.src]
    | assign g1 n g2 g3 q v g4 => simp [asrc, AItem.src, assignSrc]

theorem eachElseCode_ok (g1 x g2 g3 xs g4 : Bytes) (body ebody : List AItem) (h : EachElseOK g1 x g2 g3 xs g4 body ebody) :
    (eachElseCode g1 x g2 g3 xs g4 body ebody).OK := by
  refine ⟨?_, ?_, ?_⟩
  · intro tl
    have := stops_kw kwEach (([40] ++ (g1 ++ (x ++ (g2 ++ (kwIn ++ (g3 ++ (xs ++ (g4 ++ (41 :: (asrc body ++ (kwElse ++ (asrc ebody ++ kwEnd)))))))))))) ++ tl)
      rfl (by decide) (by decide) (by decide)
    simpa [eachElseCode, eachElseSrc, List.append_assoc] using this
  · have h1 := akeys_length body h.hbody
    have h2 := akeys_length ebody h.hebody
    obtain ⟨⟨c, cv, hcv, _⟩, _, _⟩ := h.hx
    obtain ⟨⟨d, dv, hdv, _⟩, _, _⟩ := h.hxs
    simp [eachElseCode, eachElseSrc, eachElseKeys, kwEach, kwIn, kwElse, kwEnd, hcv, hdv]; omega
  · intro s tl hr hh hb hpa hd hpv
    have hr' : s.rest = kwEach ++ ([40] ++ (g1 ++ (x ++ (g2 ++ (kwIn ++ (g3 ++ (xs ++ (g4 ++ (41 :: (asrc body ++ (kwElse ++ (asrc ebody ++ (kwEnd ++ tl))))))))))))) := by
      rw [hr]; simp [eachElseCode, eachElseSrc, List.append_assoc]
    obtain ⟨t1, t2, t3, t4, t5, t6, s6, run6, k1, k2, k3, k4, k5, k6, r6, pv6, m6⟩ :=
      lex_each_header s g1 x g2 g3 xs g4 _ hh hpv hpa h.hg1 h.hg2 h.hg2n h.hg3 h.hg3n h.hg4 h.hx h.hxs hr'
    obtain ⟨f1, f2, f3, f4, f5⟩ := mode_fields m6
    have hstopElse : Stops (kwElse ++ (asrc ebody ++ (kwEnd ++ tl))) := stops_kw kwElse _ rfl (by decide) (by decide) (by decide)
    obtain ⟨ts, sb, runb, kb, rb, hhb, bb, db, pvb, pb, pab⟩ := lexRun_abody _ hstopElse body h.hbody s6 r6 f1 (by rw [f4]; exact hb) f2 (by rw [pv6]; decide)
    obtain ⟨t7, s7, st7, k7, ne7, r7, h7, d7, pa7, b7, p7, pv7⟩ := lex_keyword sb kwElse _ .ELSE hhb pvb rb
      rfl (by decide) (by decide) (dirScan_else _ (else_not_if ebody h.hebody h.hstart tl)) (by decide) (by decide) (by decide)
    have h7' : s7.isHTML = true := by rw [h7]; rfl
    have d7' : s7.isDirective = false := by rw [d7]; rfl
    have hstopEnd : Stops (kwEnd ++ tl) := stops_kw kwEnd tl rfl (by decide) (by decide) (by decide)
    obtain ⟨ts2, sc, runc, kc, rc, hhc, bc, dc, pvc, pc, pac⟩ := lexRun_abody _ hstopEnd ebody h.hebody s7 r7 h7' (by rw [b7, bb]) d7' (by rw [pv7]; decide)
    obtain ⟨t8, s8, st8, k8, ne8, r8, h8, d8, pa8, b8, p8, pv8⟩ := lex_keyword sc kwEnd tl .END hhc pvc rc
      rfl (by decide) (by decide) (dirScan_end _) (by decide) (by decide) (by decide)
    refine ⟨[t1, t2, t3, t4, t5, t6] ++ ts ++ [t7] ++ ts2 ++ [t8], s8, ?_, ?_, r8, by rw [h8]; rfl, by rw [b8, bc], ?_, by rw [d8]; rfl, ?_,
      by rw [pv8]; decide⟩
    · exact run_snoc (Run.append (run_snoc (Run.append run6 runb) st7 ne7) runc) st8 ne8
    · simp [eachElseCode, eachElseKeys, k1, k2, k3, k4, k5, k6, kb, k7, kc, k8, List.append_assoc]
    · rw [pa8, pac, pa7, pab, f3]
    · rw [p8, pc, p7, pb, f5]

/-! ### the parser -/

/-- the block that follows the current token, up to `tEnd` (`@end` or `@else`) -/
theorem parseBody_aitems (tp tEnd : Token) (rest : List Token) (hEnd : tEnd.ty = .END ∨ tEnd.ty = .ELSE) (hrest : ∀ x ∈ rest, x.ty ≠ .ILLEGAL)
    (body : List AItem) (bt : List Token) (hb : bt.map key = akeys body) (g : Nat) :
    ∃ stmts last, parseBody (g + 2 * body.length + 7) ({ toks := tp :: (bt ++ tEnd :: rest) } : PS) =
      (stmts, ({ toks := last :: tEnd :: rest } : PS)) ∧ AMatch stmts body := by
  have cE : ∀ x ∈ tEnd :: rest, x.ty ≠ .ILLEGAL := noill_cons (by rcases hEnd with e | e <;> rw [e] <;> decide) hrest
  have cB : ∀ x ∈ bt ++ tEnd :: rest, x.ty ≠ .ILLEGAL := by
    intro x hx
    rcases List.mem_append.mp hx with h | h
    · have : key x ∈ akeys body := by rw [← hb]; exact List.mem_map_of_mem h
      exact (akeys_clean body _ this).1
    · exact cE x h
  show ∃ stmts last, bodyBody (parseBlockStmt (g + 2 * body.length + 6)) ({ toks := tp :: (bt ++ tEnd :: rest) } : PS) = _ ∧ _
  unfold bodyBody
  cases body with
  | nil =>
    have : bt = [] := by simpa [akeys] using hb
    subst this
    refine ⟨[], tp, ?_, .nil⟩
    simp only [List.nil_append]
    rw [peek_block_end2 tp tEnd rest hEnd]
    simp
  | cons it r =>
    cases bt with
    | nil => exact absurd hb.symm (by simpa using akeys_ne_nil (it :: r) (by simp))
    | cons t' bt' =>
      have hk' : key t' ∈ akeys (it :: r) := by rw [← hb]; simp
      obtain ⟨_, _, e1, e2, e3⟩ := akeys_clean (it :: r) _ hk'
      obtain ⟨stmts, last, q1, q2⟩ := parseBlock_aitems tEnd rest hEnd hrest (it :: r) (t' :: bt') [] (g + 2 * (it :: r).length + 6)
        (by simp) hb (by omega)
      refine ⟨stmts, last, ?_, q2⟩
      simp only [List.cons_append]
      rw [peek_block_goes_on tp t' _ e1 e2 e3]
      simp only [Bool.false_eq_true, if_false]
      rw [ps_next_any tp t' _ (fun x hx => cB x (by simp only [List.cons_append]; exact List.mem_cons_of_mem _ hx))]
      simp only [List.cons_append, List.nil_append] at q1
      rw [q1]

/-- **`@each(x in xs) body @else ebody @end` as a statement** -/
theorem parse_each_else_stmt (g : Nat) (t1 t2 t3 t4 t5 t6 tElse tEnd : Token) (body ebody : List AItem) (bt et rest : List Token)
    (h1 : t1.ty = .EACH) (h2 : t2.ty = .LPAREN) (h3 : t3.ty = .IDENT) (h4 : t4.ty = .IN) (h5 : t5.ty = .IDENT) (h6 : t6.ty = .RPAREN)
    (hElse : tElse.ty = .ELSE) (hEnd : tEnd.ty = .END) (hb : bt.map key = akeys body) (he : et.map key = akeys ebody)
    (hrest : ∀ x ∈ rest, x.ty ≠ .ILLEGAL) :
    ∃ stmts estmts, parseStatement (g + 2 * body.length + 2 * ebody.length + 9)
        ({ toks := t1 :: t2 :: t3 :: t4 :: t5 :: t6 :: (bt ++ tElse :: (et ++ tEnd :: rest)) } : PS) =
        (.eachS t1 t3.lit (.ident t5 t5.lit) stmts (some estmts), { toks := tEnd :: rest }) ∧ AMatch stmts body ∧ AMatch estmts ebody := by
  have cE : ∀ x ∈ tEnd :: rest, x.ty ≠ .ILLEGAL := noill_cons (by rw [hEnd]; decide) hrest
  have cT : ∀ x ∈ et ++ tEnd :: rest, x.ty ≠ .ILLEGAL := by
    intro x hx
    rcases List.mem_append.mp hx with h | h
    · have : key x ∈ akeys ebody := by rw [← he]; exact List.mem_map_of_mem h
      exact (akeys_clean ebody _ this).1
    · exact cE x h
  have cL : ∀ x ∈ tElse :: (et ++ tEnd :: rest), x.ty ≠ .ILLEGAL := noill_cons (by rw [hElse]; decide) cT
  have cB : ∀ x ∈ bt ++ tElse :: (et ++ tEnd :: rest), x.ty ≠ .ILLEGAL := by
    intro x hx
    rcases List.mem_append.mp hx with h | h
    · have : key x ∈ akeys body := by rw [← hb]; exact List.mem_map_of_mem h
      exact (akeys_clean body _ this).1
    · exact cL x h
  have c6 := noill_cons (t := t6) (by rw [h6]; decide) cB
  have c5 := noill_cons (t := t5) (by rw [h5]; decide) c6
  have c4 := noill_cons (t := t4) (by rw [h4]; decide) c5
  have c3 := noill_cons (t := t3) (by rw [h3]; decide) c4
  have c2 := noill_cons (t := t2) (by rw [h2]; decide) c3
  obtain ⟨stmts, last, hbl, hs1⟩ := parseBody_aitems t6 tElse (et ++ tEnd :: rest) (Or.inr hElse) cT body bt hb (g + 2 * ebody.length + 1)
  obtain ⟨estmts, last2, hbl2, hs2⟩ := parseBody_aitems tElse tEnd rest (Or.inl hEnd) hrest ebody et he (g + 2 * body.length + 1)
  refine ⟨stmts, estmts, ?_, hs1, hs2⟩
  show statementBody (parseExpression (g + 2 * body.length + 2 * ebody.length + 8)) (parseExprList (g + 2 * body.length + 2 * ebody.length + 8))
    (parseBody (g + 2 * body.length + 2 * ebody.length + 8)) (parseIfTail (g + 2 * body.length + 2 * ebody.length + 8))
    (parseSlots (g + 2 * body.length + 2 * ebody.length + 8)) _ = _
  have hc : ({ toks := t1 :: t2 :: t3 :: t4 :: t5 :: t6 :: (bt ++ tElse :: (et ++ tEnd :: rest)) } : PS).cur.ty = .EACH := by simp [PS.cur, h1]
  unfold statementBody
  simp only [hc]
  unfold parseEachStmt
  have e1 := expectPeek_ok ({ toks := t1 :: t2 :: t3 :: t4 :: t5 :: t6 :: (bt ++ tElse :: (et ++ tEnd :: rest)) } : PS) .LPAREN (by simp [PS.peekIs, PS.peek, h2])
  rw [e1, ps_next_clean t1 t2 _ c2]
  simp only [Bool.not_true, Bool.false_eq_true, if_false, ps_next_clean t2 t3 _ c3]
  have e2 := expectPeek_ok ({ toks := t3 :: t4 :: t5 :: t6 :: (bt ++ tElse :: (et ++ tEnd :: rest)) } : PS) .IN (by simp [PS.peekIs, PS.peek, h4])
  rw [e2, ps_next_clean t3 t4 _ c4]
  simp only [Bool.not_true, Bool.false_eq_true, if_false, ps_next_clean t4 t5 _ c5]
  rw [show g + 2 * body.length + 2 * ebody.length + 8 = (g + 2 * body.length + 2 * ebody.length + 6) + 2 from rfl,
    parse_ident_rparen (g + 2 * body.length + 2 * ebody.length + 6) t5 t6 _ h5 h6]
  simp only []
  have e3 := expectPeek_ok ({ toks := t5 :: t6 :: (bt ++ tElse :: (et ++ tEnd :: rest)) } : PS) .RPAREN (by simp [PS.peekIs, PS.peek, h6])
  rw [e3, ps_next_clean t5 t6 _ c6]
  simp only [Bool.not_true, Bool.false_eq_true, if_false]
  unfold parseLoopBody
  rw [show g + 2 * body.length + 2 * ebody.length + 6 + 2 = (g + 2 * ebody.length + 1) + 2 * body.length + 7 from by omega, hbl]
  simp only []
  unfold loopElse
  have k1 : ({ toks := last :: tElse :: (et ++ tEnd :: rest) } : PS).peekIs .ELSE = true := by simp [PS.peekIs, PS.peek, hElse]
  simp only [k1, if_true, ps_next_clean last tElse _ cL]
  rw [show (g + 2 * ebody.length + 1) + 2 * body.length + 7 = (g + 2 * body.length + 1) + 2 * ebody.length + 7 from by omega, hbl2]
  simp only []
  have e4 := expectPeek_ok ({ toks := last2 :: tEnd :: rest } : PS) .END (by simp [PS.peekIs, PS.peek, hEnd])
  rw [e4]
  simp only [if_true, PS.cur, List.headD_cons]
  congr 1
  cases rest with
  | nil => rfl
  | cons t9 r9 => exact ps_next_clean last2 tEnd _ cE

/-- **the construct alone, parsed** -/
theorem parse_each_else_source (g1 x g2 g3 xs g4 : Bytes) (body ebody : List AItem) (h : EachElseOK g1 x g2 g3 xs g4 body ebody) :
    ∃ prog t1 t5 stmts estmts, parseSource (eachElseSrc g1 x g2 g3 xs g4 body ebody) = .ok prog ∧
      prog.stmts = [.eachS t1 x (.ident t5 xs) stmts (some estmts)] ∧ AMatch stmts body ∧ AMatch estmts ebody := by
  have hok : GItemsOK [.code (eachElseCode g1 x g2 g3 xs g4 body ebody)] := ⟨eachElseCode_ok g1 x g2 g3 xs g4 body ebody h, trivial⟩
  obtain ⟨toks, e, htok, hkeys, he⟩ := tokenize_gitems _ hok
  have hsrc : gsrc [.code (eachElseCode g1 x g2 g3 xs g4 body ebody)] = eachElseSrc g1 x g2 g3 xs g4 body ebody := by simp [gsrc, GItem.src, eachElseCode]
  rw [hsrc] at htok
  have hk' : toks.map key = eachElseKeys x xs body ebody := by simpa [gkeys, eachElseCode] using hkeys
  match toks, hk' with
  | [], hk' => simp [eachElseKeys] at hk'
  | [_], hk' => simp [eachElseKeys] at hk'
  | [_, _], hk' => simp [eachElseKeys] at hk'
  | [_, _, _], hk' => simp [eachElseKeys] at hk'
  | [_, _, _, _], hk' => simp [eachElseKeys] at hk'
  | [_, _, _, _, _], hk' => simp [eachElseKeys] at hk'
  | t1 :: t2 :: t3 :: t4 :: t5 :: t6 :: tail, hk' =>
    simp only [eachElseKeys, List.cons_append, List.nil_append, List.map_cons, List.cons.injEq] at hk'
    obtain ⟨hk1, hk2, hk3, hk4, hk5, hk6, hkt⟩ := hk'
    obtain ⟨bt, tail2, rfl, hkb, hk2'⟩ := take_map_key hkt
    cases tail2 with
    | nil => simp at hk2'
    | cons tElse tail3 =>
      simp only [List.map_cons, List.cons.injEq] at hk2'
      obtain ⟨hkE, hk3'⟩ := hk2'
      obtain ⟨et, tail4, rfl, hke, hk4'⟩ := take_map_key hk3'
      match tail4, hk4' with
      | [], hk4' => simp at hk4'
      | _ :: _ :: _, hk4' => simp at hk4'
      | [tEnd], hk4' =>
        simp only [List.map_cons, List.map_nil, List.cons.injEq, and_true] at hk4'
        have ty1 : t1.ty = .EACH := congrArg Prod.fst hk1
        have ty2 : t2.ty = .LPAREN := congrArg Prod.fst hk2
        have ty3 : t3.ty = .IDENT := congrArg Prod.fst hk3
        have lit3 : t3.lit = x := congrArg Prod.snd hk3
        have ty4 : t4.ty = .IN := congrArg Prod.fst hk4
        have ty5 : t5.ty = .IDENT := congrArg Prod.fst hk5
        have lit5 : t5.lit = xs := congrArg Prod.snd hk5
        have ty6 : t6.ty = .RPAREN := congrArg Prod.fst hk6
        have hElse : tElse.ty = .ELSE := congrArg Prod.fst hkE
        have hEnd : tEnd.ty = .END := congrArg Prod.fst hk4'
        have hce : ∀ y ∈ [e], y.ty ≠ .ILLEGAL := by intro y hy; simp at hy; rw [hy, he]; decide
        have hcl : ∀ y ∈ (t1 :: t2 :: t3 :: t4 :: t5 :: t6 :: (bt ++ tElse :: (et ++ [tEnd]))) ++ [e], y.ty ≠ .ILLEGAL := by
          intro y hy
          have hy' : y ∈ t1 :: t2 :: t3 :: t4 :: t5 :: t6 :: (bt ++ tElse :: (et ++ [tEnd])) ∨ y ∈ [e] := List.mem_append.mp hy
          rcases hy' with hy' | hy'
          · simp only [List.mem_cons, List.mem_append, List.not_mem_nil, or_false] at hy'
            rcases hy' with r | r | r | r | r | r | r | r | r | r
            · rw [r, ty1]; decide
            · rw [r, ty2]; decide
            · rw [r, ty3]; decide
            · rw [r, ty4]; decide
            · rw [r, ty5]; decide
            · rw [r, ty6]; decide
            · have : key y ∈ akeys body := by rw [← hkb]; exact List.mem_map_of_mem r
              exact (akeys_clean body _ this).1
            · rw [r, hElse]; decide
            · have : key y ∈ akeys ebody := by rw [← hke]; exact List.mem_map_of_mem r
              exact (akeys_clean ebody _ this).1
            · rw [r, hEnd]; decide
          · exact hce y hy'
        have hlenb := akeys_length body h.hbody
        have hlb : body.length ≤ bt.length := by
          have : bt.length = (akeys body).length := by rw [← hkb]; simp
          have h2 : body.length ≤ (akeys body).length := by
            generalize body = bb
            induction bb with
            | nil => simp [akeys]
            | cons a r' ih' => cases a <;> simp [akeys, assignKeys] <;> omega
          omega
        have hle : ebody.length ≤ et.length := by
          have : et.length = (akeys ebody).length := by rw [← hke]; simp
          have h2 : ebody.length ≤ (akeys ebody).length := by
            generalize ebody = bb
            induction bb with
            | nil => simp [akeys]
            | cons a r' ih' => cases a <;> simp [akeys, assignKeys] <;> omega
          omega
        obtain ⟨gg, hgg⟩ : ∃ gg, parseFuel ((t1 :: t2 :: t3 :: t4 :: t5 :: t6 :: (bt ++ tElse :: (et ++ [tEnd]))) ++ [e]) =
            (gg + 2 * body.length + 2 * ebody.length + 9) + 1 := by
          refine ⟨parseFuel ((t1 :: t2 :: t3 :: t4 :: t5 :: t6 :: (bt ++ tElse :: (et ++ [tEnd]))) ++ [e]) - (2 * body.length + 2 * ebody.length + 10), ?_⟩
          unfold parseFuel
          simp
          omega
        obtain ⟨stmts, estmts, hst, hm1, hm2⟩ := parse_each_else_stmt gg t1 t2 t3 t4 t5 t6 tElse tEnd body ebody bt et [e] ty1 ty2 ty3 ty4 ty5 ty6 hElse hEnd hkb hke hce
        refine ⟨{ tok := t1, stmts := [.eachS t1 x (.ident t5 xs) stmts (some estmts)] }, t1, t5, stmts, estmts, ?_, rfl, hm1, hm2⟩
        unfold parseSource
        rw [htok]
        simp only [Bool.false_eq_true, if_false]
        rw [initParser_clean _ hcl, hgg]
        have e0 : ((t1 :: t2 :: t3 :: t4 :: t5 :: t6 :: (bt ++ tElse :: (et ++ [tEnd]))) ++ [e]) =
            t1 :: t2 :: t3 :: t4 :: t5 :: t6 :: (bt ++ tElse :: (et ++ tEnd :: [e])) := by simp [List.append_assoc]
        rw [e0]
        have hloop : parseProgramLoop ((gg + 2 * body.length + 2 * ebody.length + 9) + 1) []
            ({ toks := t1 :: t2 :: t3 :: t4 :: t5 :: t6 :: (bt ++ tElse :: (et ++ tEnd :: [e])) } : PS) =
            (some [.eachS t1 t3.lit (.ident t5 t5.lit) stmts (some estmts)], { toks := [e] }) := by
          rw [parseProgramLoop]
          have c0 : ({ toks := t1 :: t2 :: t3 :: t4 :: t5 :: t6 :: (bt ++ tElse :: (et ++ tEnd :: [e])) } : PS).curIs .EOF = false := by
            simp [PS.curIs, PS.cur, ty1]
          simp only [c0, Bool.false_eq_true, if_false, hst]
          have i5 : ({ toks := [tEnd, e] } : PS).curIs .ILLEGAL = false := by simp [PS.curIs, PS.cur, hEnd]
          simp only [i5, Bool.false_eq_true, if_false, Stmt.isBad]
          have nx : ({ toks := [tEnd, e] } : PS).next = { toks := [e] } := ps_next_clean tEnd e [] hce
          rw [nx]
          obtain ⟨k, hk⟩ : ∃ k, gg + 2 * body.length + 2 * ebody.length + 9 = k + 1 := ⟨gg + 2 * body.length + 2 * ebody.length + 8, rfl⟩
          rw [hk, parseProgramLoop]
          have ce : ({ toks := [e] } : PS).curIs .EOF = true := by simp [PS.curIs, PS.cur, he]
          simp [ce]
        rw [hloop]
        simp [finishParse, PS.cur, lit3, lit5]

end Tw
