/-
  TwProofs.Lemmas.LexSpan — every token produced by a `NextToken` body covers a non-empty
  run of bytes, starts at the position of its first byte and ends at the position of its last
  byte (C19, C13).
-/
import TwProofs.Lemmas.LexDirective

namespace Tw
open Lx

/-- token `t`, produced from state `s` and leaving state `s'`, covers the next `n` bytes -/
structure Spans (s : Lx) (t : Token) (s' : Lx) (n : Nat) : Prop where
  n_pos : 1 ≤ n
  n_le : n ≤ s.rest.length
  pre : s'.pre = (s.rest.take n).reverse ++ s.pre
  rest : s'.rest = s.rest.drop n
  inv : PosInv s'
  startLine : t.pos.startLine = lineOf s.pre
  startCol : t.pos.startCol = colOf s.pre
  endLine : t.pos.endLine = lineOf ((s.rest.take (n - 1)).reverse ++ s.pre)
  endCol : t.pos.endCol = colOf ((s.rest.take (n - 1)).reverse ++ s.pre)

theorem readChar_nil (s : Lx) (h : s.rest = []) : readChar s = s := by simp [readChar, h]

theorem advance_nil (n : Nat) (s : Lx) (h : s.rest = []) : advance s n = s := by
  induction n with
  | zero => rfl
  | succ n ih => rw [advance, readChar_nil s h, ih]

/-- reading past the end changes nothing: `advance` saturates -/
theorem advance_saturate (n : Nat) : ∀ s : Lx, s.rest.length ≤ n → advance s n = advance s s.rest.length := by
  induction n with
  | zero =>
    intro s h
    have : s.rest = [] := List.eq_nil_of_length_eq_zero (Nat.le_zero.mp h)
    simp [this, advance]
  | succ n ih =>
    intro s h
    cases hrest : s.rest with
    | nil => rw [advance_nil _ s hrest]; rfl
    | cons c r =>
      have hr : (readChar s).rest = r := by rw [(readChar_pre_rest s).2, hrest]; rfl
      have : (readChar s).rest.length ≤ n := by rw [hr]; rw [hrest] at h; simpa using h
      rw [advance, ih _ this, hr]
      show advance (readChar s) r.length = advance s (r.length + 1)
      rfl

theorem posInv_of_sameBytes {a c : Lx} (h : SameBytes a c) (hc : PosInv c) : PosInv a := by
  obtain ⟨h1, h2, h3, h4, h5⟩ := h
  exact ⟨by rw [h3, h1]; exact hc.line, by rw [h4, h1]; exact hc.col, by rw [h5, h2]; exact hc.reset⟩

theorem posInv_tokenBegins (s : Lx) (h : PosInv s) : PosInv s.tokenBegins := ⟨h.line, h.col, h.reset⟩

/-- the span of a token emitted for `n ≥ 1` bytes of which `n` are available -/
theorem emit_spans (s : Lx) (hinv : PosInv s) (n : Nat) (hn : 1 ≤ n) (hle : n ≤ s.rest.length)
    (ty : TT) (hty : ty ≠ .EOF) (lit : Bytes) :
    Spans s (emit s n ty lit).1 (emit s n ty lit).2 n := by
  obtain ⟨m, rfl⟩ : ∃ m, n = m + 1 := ⟨n - 1, by omega⟩
  have hb := posInv_tokenBegins s hinv
  obtain ⟨hp, hr⟩ := advance_pre_rest (m + 1) s.tokenBegins
  obtain ⟨f1, f2, _⟩ := advance_frame (m + 1) s.tokenBegins
  obtain ⟨e1, e2⟩ := advance_prev m s.tokenBegins hb (by simpa [tokenBegins_rest] using hle)
  have htok : (emit s (m + 1) ty lit).1.pos =
      { startLine := s.line, startCol := s.col, endLine := (advance s.tokenBegins (m + 1)).prevLine,
        endCol := (advance s.tokenBegins (m + 1)).prevCol } := by
    simp only [emit, newToken]
    rw [if_neg (by simpa using hty)]
    simp only [f1, f2]
    rfl
  refine ⟨hn, hle, ?_, ?_, ?_, ?_, ?_, ?_, ?_⟩
  · simpa [emit, tokenBegins_rest, tokenBegins_pre] using hp
  · simpa [emit, tokenBegins_rest] using hr
  · exact posInv_advance _ _ hb
  · rw [htok]; exact hinv.line
  · rw [htok]; exact hinv.col
  · rw [htok]; simpa [tokenBegins_rest, tokenBegins_pre] using e1
  · rw [htok]; simpa [tokenBegins_rest, tokenBegins_pre] using e2

/-- the same for a descriptor whose state has the same bytes as `s` -/
theorem descEmit_spans (s : Lx) (hinv : PosInv s) (d : TokDesc) (hd : DescOk s d) (hle : d.n ≤ s.rest.length) :
    Spans s d.emit.1 d.emit.2 d.n := by
  obtain ⟨hsame, hn, hty⟩ := hd
  have hinv' := posInv_of_sameBytes hsame hinv
  obtain ⟨h1, h2, _, _, _⟩ := hsame
  have := emit_spans d.st hinv' d.n hn (by rw [h2]; exact hle) d.ty hty d.lit
  exact ⟨this.n_pos, hle, by rw [← h1, ← h2]; exact this.pre, by rw [← h2]; exact this.rest, this.inv,
    by rw [← h1]; exact this.startLine, by rw [← h1]; exact this.startCol,
    by rw [← h1, ← h2]; exact this.endLine, by rw [← h1, ← h2]; exact this.endCol⟩

end Tw

namespace Tw
open Lx

theorem emit_saturate (s : Lx) (n : Nat) (ty : TT) (lit : Bytes) (h : s.rest.length ≤ n) :
    emit s n ty lit = emit s s.rest.length ty lit := by
  simp only [emit]
  rw [advance_saturate n s.tokenBegins (by simpa [tokenBegins_rest] using h)]
  rfl

/-- a descriptor's token covers `min n (remaining bytes)` bytes (a string that is not closed
    runs to the end of the input) -/
theorem descEmit_spans_min (s : Lx) (hinv : PosInv s) (hne : s.rest ≠ []) (d : TokDesc) (hd : DescOk s d) :
    Spans s d.emit.1 d.emit.2 (min d.n s.rest.length) := by
  by_cases hle : d.n ≤ s.rest.length
  · rw [Nat.min_eq_left hle]; exact descEmit_spans s hinv d hd hle
  · have hge : s.rest.length ≤ d.n := by omega
    rw [Nat.min_eq_right hge]
    have hrest : d.st.rest = s.rest := hd.1.2.1
    have hpos : 1 ≤ s.rest.length := List.length_pos_iff.mpr hne
    have heq : d.emit = (⟨d.st, s.rest.length, d.ty, d.lit⟩ : TokDesc).emit := by
      simp only [TokDesc.emit]
      rw [emit_saturate d.st d.n d.ty d.lit (by rw [hrest]; exact hge), hrest]
    rw [heq]
    exact descEmit_spans s hinv ⟨d.st, s.rest.length, d.ty, d.lit⟩ ⟨hd.1, hpos, hd.2.2⟩ (Nat.le_refl _)

/-- flags set after the token was read do not matter for the span -/
theorem Spans.congr_state {s : Lx} {t : Token} {s1 s2 : Lx} {n : Nat} (h : Spans s t s1 n) (hs : SameBytes s2 s1) :
    Spans s t s2 n :=
  ⟨h.n_pos, h.n_le, by rw [hs.1]; exact h.pre, by rw [hs.2.1]; exact h.rest, posInv_of_sameBytes hs h.inv,
    h.startLine, h.startCol, h.endLine, h.endCol⟩

theorem Spans.of_sameBytes {s0 s : Lx} {t : Token} {s1 : Lx} {n : Nat} (h : Spans s0 t s1 n) (hs : SameBytes s0 s) :
    Spans s t s1 n := by
  obtain ⟨h1, h2, _, _, _⟩ := hs
  exact ⟨h.n_pos, by rw [← h2]; exact h.n_le, by rw [← h1, ← h2]; exact h.pre, by rw [← h2]; exact h.rest, h.inv,
    by rw [← h1]; exact h.startLine, by rw [← h1]; exact h.startCol,
    by rw [← h1, ← h2]; exact h.endLine, by rw [← h1, ← h2]; exact h.endCol⟩

/-- **token span** (C19): from a state that agrees with the position function, every token a
    `NextToken` body returns (other than EOF) covers `n ≥ 1` of the remaining bytes, its start is
    the position of the first and its end the position of the last of these bytes, and the state
    it leaves agrees with the position function again -/
theorem stepAt_spans (s : Lx) (hinv : PosInv s) (hne : s.rest ≠ []) (t : Token) (h : (stepAt s).1 = .tok t) :
    ∃ n, Spans s t (stepAt s).2 n := by
  have hneof : ¬ s.isEOF = true := fun h => hne ((isEOF_iff s).mp h)
  obtain ⟨c, r, hcr, hchar⟩ := rest_cons s hne
  unfold stepAt at h ⊢
  rw [if_neg hneof] at h ⊢
  split at h
  · -- "{{"
    split at h
    · cases h
    · rename_i hbr _
      cases h
      rw [if_pos hbr, if_neg (by assumption)]
      have hd : DescOk s ⟨{ s with isHTML := TT.LBRACES != TT.LBRACES }, 2, .LBRACES, [123, 123]⟩ :=
        ⟨⟨rfl, rfl, rfl, rfl, rfl⟩, by simp, by simp⟩
      exact ⟨_, descEmit_spans_min s hinv hne _ hd⟩
  · rename_i hnb
    rw [if_neg hnb]
    split at h
    · rename_i hcl
      cases h
      rw [if_pos hcl]
      have hd : DescOk s ⟨{ s with isHTML := TT.RBRACES != TT.LBRACES }, 2, .RBRACES, [125, 125]⟩ :=
        ⟨⟨rfl, rfl, rfl, rfl, rfl⟩, by simp, by simp⟩
      exact ⟨_, descEmit_spans_min s hinv hne _ hd⟩
    · rename_i hncl
      rw [if_neg hncl]
      split at h
      · rename_i hcode
        cases h
        rw [if_pos hcode]
        exact ⟨_, descEmit_spans_min s hinv hne _ (codeDesc_ok s hne)⟩
      · rename_i hncode
        rw [if_neg hncode]
        split at h
        · rename_i hdir
          cases h
          rw [if_pos hdir]
          have hfound := directive_found s hdir
          have hat : s.char = 64 := by
            unfold isDirectiveToken at hdir
            by_cases h64 : s.char = 64
            · exact h64
            · simp [h64] at hdir
          obtain ⟨hsame, hn, hty⟩ := directiveDesc_ok s hne hat
          have hsb : SameBytes (directiveDesc s).st s := by
            rcases hsame with h | h
            · exact h
            · exact absurd h.2 hfound
          have hsp := descEmit_spans_min s hinv hne (directiveDesc s) ⟨hsb, hn, hty⟩
          refine ⟨min (directiveDesc s).n s.rest.length, ?_⟩
          show Spans s (directiveToken s).1 (directiveToken s).2 _
          unfold directiveToken
          simp only
          rw [if_neg (by simpa using hfound)]
          exact hsp.congr_state ⟨rfl, rfl, rfl, rfl, rfl⟩
        · rename_i hndir
          cases h
          rw [if_neg hndir]
          have hpos := htmlStart_pos s hne hnb hndir
          have hd : DescOk s ⟨s, (htmlScan s.prev [] 0 false s.rest).2.1, .HTML, (htmlScan s.prev [] 0 false s.rest).1.reverse⟩ :=
            ⟨SameBytes.refl s, hpos, by simp⟩
          have hsp := descEmit_spans_min s hinv hne _ hd
          refine ⟨min (htmlScan s.prev [] 0 false s.rest).2.1 s.rest.length, ?_⟩
          show Spans s (htmlToken s).1 (htmlToken s).2 _
          unfold htmlToken
          exact hsp.congr_state ⟨rfl, rfl, rfl, rfl, rfl⟩

end Tw

namespace Tw
open Lx

/-! ### the whole token list -/

/-- the consumed bytes followed by the remaining bytes are the input -/
def Src (inp : Bytes) (s : Lx) : Prop := s.pre.reverse ++ s.rest = inp

/-- zero-based line and byte column of offset `i` of the input -/
def posOf (inp : Bytes) (i : Nat) : Nat × Nat := (lineOf (inp.take i).reverse, colOf (inp.take i).reverse)

theorem src_take (inp : Bytes) (s : Lx) (h : Src inp s) (k : Nat) :
    (inp.take (s.pre.length + k)).reverse = (s.rest.take k).reverse ++ s.pre := by
  unfold Src at h
  rw [← h, List.take_append]
  simp [List.take_of_length_le]

theorem src_advance (inp : Bytes) (s : Lx) (n : Nat) (h : Src inp s) : Src inp (advance s n) := by
  unfold Src at *
  rw [(advance_pre_rest n s).1, (advance_pre_rest n s).2]
  simp [← h, List.append_assoc]

theorem src_readChar (inp : Bytes) (s : Lx) (h : Src inp s) : Src inp (readChar s) := src_advance inp s 1 h

theorem src_of_sameBytes {inp : Bytes} {a c : Lx} (hs : SameBytes a c) (h : Src inp c) : Src inp a := by
  unfold Src at *; rw [hs.1, hs.2.1]; exact h

theorem skipWs_inv (inp : Bytes) (s : Lx) (hp : PosInv s) (hs : Src inp s) :
    PosInv (skipWs s) ∧ Src inp (skipWs s) ∧ s.pre.length ≤ (skipWs s).pre.length := by
  unfold skipWs
  split
  · refine ⟨posInv_advance _ _ hp, src_advance _ _ _ hs, ?_⟩
    rw [(advance_pre_rest _ s).1]; simp
  · exact ⟨hp, hs, Nat.le_refl _⟩

theorem skipComment_inv (inp : Bytes) (s : Lx) (hp : PosInv s) (hs : Src inp s) :
    PosInv (skipComment s) ∧ Src inp (skipComment s) ∧ s.pre.length ≤ (skipComment s).pre.length := by
  unfold skipComment
  simp only
  have p2 : PosInv (readChar (readChar s)) := (posInv_readChar _ (posInv_readChar _ hp).1).1
  have s2 : Src inp (readChar (readChar s)) := src_readChar _ _ (src_readChar _ _ hs)
  have l2 : s.pre.length ≤ (readChar (readChar s)).pre.length := by
    rw [(readChar_pre_rest _).1, (readChar_pre_rest _).1]; simp; omega
  have p3 := posInv_advance (commentScan (readChar (readChar s)).rest) _ p2
  have s3 := src_advance inp _ (commentScan (readChar (readChar s)).rest) s2
  have l3 : (readChar (readChar s)).pre.length ≤ (advance (readChar (readChar s)) (commentScan (readChar (readChar s)).rest)).pre.length := by
    rw [(advance_pre_rest _ _).1]; simp
  split
  · exact ⟨p3, s3, Nat.le_trans l2 l3⟩
  · refine ⟨posInv_advance _ _ ⟨p3.line, p3.col, p3.reset⟩, src_advance _ _ _ (src_of_sameBytes ⟨rfl, rfl, rfl, rfl, rfl⟩ s3), ?_⟩
    rw [(advance_pre_rest _ _).1]
    simp only [List.length_append, List.length_reverse]
    exact Nat.le_trans (Nat.le_trans l2 l3) (Nat.le_add_left _ _)

/-- token `t` covers the bytes `[a, a + n)` of the input: `n ≥ 1`, its start is the position of
    byte `a`, its end the position of byte `a + n - 1` -/
structure Covers (inp : Bytes) (t : Token) (a n : Nat) : Prop where
  n_pos : 1 ≤ n
  le : a + n ≤ inp.length
  start : (t.pos.startLine, t.pos.startCol) = posOf inp a
  stop : (t.pos.endLine, t.pos.endCol) = posOf inp (a + n - 1)

/-- the tokens lie in source order from offset `a` on, without overlap, and end with an EOF
    token placed at the position just past the last byte -/
inductive Tiled (inp : Bytes) : Nat → List Token → Prop where
  | eof (a : Nat) (t : Token) : t.ty = .EOF → a ≤ inp.length →
      (t.pos.startLine, t.pos.startCol) = posOf inp inp.length →
      (t.pos.endLine, t.pos.endCol) = posOf inp inp.length → Tiled inp a [t]
  | tok (a a' n : Nat) (t : Token) (ts : List Token) : a ≤ a' → t.ty ≠ .EOF → Covers inp t a' n →
      Tiled inp (a' + n) ts → Tiled inp a (t :: ts)

theorem Tiled.mono {inp : Bytes} {a b : Nat} {ts : List Token} (h : Tiled inp b ts) (hab : a ≤ b) : Tiled inp a ts := by
  cases h with
  | eof _ t h1 h2 h3 h4 => exact .eof a t h1 (Nat.le_trans hab h2) h3 h4
  | tok _ a' n t ts h1 h2 h3 h4 => exact .tok a a' n t ts (Nat.le_trans hab h1) h2 h3 h4

theorem covers_of_spans (inp : Bytes) (s : Lx) (hs : Src inp s) (t : Token) (s' : Lx) (n : Nat) (h : Spans s t s' n) :
    Covers inp t s.pre.length n := by
  have hlen : s.pre.length + s.rest.length = inp.length := by
    unfold Src at hs; rw [← hs]; simp
  refine ⟨h.n_pos, by have := h.n_le; omega, ?_, ?_⟩
  · unfold posOf
    have := src_take inp s hs 0
    simp only [Nat.add_zero, List.take_zero, List.reverse_nil, List.nil_append] at this
    rw [this, h.startLine, h.startCol]
  · unfold posOf
    have hn := h.n_pos
    have := src_take inp s hs (n - 1)
    rw [show s.pre.length + n - 1 = s.pre.length + (n - 1) by omega, this, h.endLine, h.endCol]

/-- **tiling** (C19): the token list produced from a state that agrees with the position
    function tiles the rest of the input -/
theorem lexAll_tiled (inp : Bytes) : ∀ (fuel : Nat) (s : Lx) (ts : List Token) (sf : Lx),
    PosInv s → Src inp s → lexAll fuel s = some (ts, sf) → Tiled inp s.pre.length ts := by
  intro fuel
  induction fuel with
  | zero => intro s ts sf _ _ h; simp [lexAll] at h
  | succ fuel ih =>
    intro s ts sf hp hs h
    unfold lexAll at h
    obtain ⟨wp, ws, wl⟩ := skipWs_inv inp s hp hs
    have hstep : nextStep s = stepAt (skipWs s) := rfl
    by_cases hnil : (skipWs s).rest = []
    · -- end of the input: the EOF token
      obtain ⟨⟨t, ht, hty⟩, hrest⟩ := (stepAt_progress (skipWs s)).1 hnil
      have hisEOF : (skipWs s).isEOF = true := (isEOF_iff _).mpr hnil
      have htdef : t = (skipWs s).tokenBegins.newToken .EOF [] := by
        have : (stepAt (skipWs s)).1 = .tok ((skipWs s).tokenBegins.newToken .EOF []) := by
          unfold stepAt; rw [if_pos hisEOF]
        rw [this] at ht; cases ht; rfl
      rw [hstep] at h
      cases hst : stepAt (skipWs s) with
      | mk st s1 =>
        rw [hst] at h ht
        simp only at ht
        subst ht
        simp only [hty, beq_self_eq_true, if_true, Option.some.injEq, Prod.mk.injEq] at h
        obtain ⟨rfl, _⟩ := h
        have hlen : (skipWs s).pre.length = inp.length := by
          have := ws; unfold Src at this; rw [← this, hnil]; simp
        have hpos : posOf inp inp.length = ((skipWs s).line, (skipWs s).col) := by
          unfold posOf
          have := src_take inp (skipWs s) ws 0
          simp only [Nat.add_zero, List.take_zero, List.reverse_nil, List.nil_append, hlen] at this
          rw [this, wp.line, wp.col]
        refine .eof _ t hty (by omega) ?_ ?_
        · rw [hpos, htdef]; simp [newToken, Lx.tokenBegins]
        · rw [hpos, htdef]; simp [newToken, Lx.tokenBegins]
    · obtain ⟨hlt, hne⟩ := (stepAt_progress (skipWs s)).2 hnil
      rw [hstep] at h
      cases hst : stepAt (skipWs s) with
      | mk st s1 =>
        rw [hst] at h hlt hne
        cases st with
        | again =>
          -- a comment was skipped
          simp only at h
          have hs1 : s1 = skipComment (bracesToken (skipWs s) .LBRACES [123, 123]).2 := by
            have := hst
            unfold stepAt at this
            rw [if_neg (fun hh => hnil ((isEOF_iff _).mp hh))] at this
            split at this
            · split at this
              · cases this; rfl
              · cases this
            · split at this
              · cases this
              · split at this
                · cases this
                · split at this <;> cases this
          have hb : Spans (skipWs s) (bracesToken (skipWs s) .LBRACES [123, 123]).1 (bracesToken (skipWs s) .LBRACES [123, 123]).2 (min 2 (skipWs s).rest.length) :=
            descEmit_spans_min (skipWs s) wp hnil ⟨{ (skipWs s) with isHTML := TT.LBRACES != TT.LBRACES }, 2, .LBRACES, [123, 123]⟩
              ⟨⟨rfl, rfl, rfl, rfl, rfl⟩, by simp, by simp⟩
          have sb : Src inp (bracesToken (skipWs s) .LBRACES [123, 123]).2 := by
            unfold Src; rw [hb.pre, hb.rest]
            have := ws; unfold Src at this
            simp [← this, List.append_assoc]
          obtain ⟨cp, cs, cl⟩ := skipComment_inv inp _ hb.inv sb
          have hlen1 : (skipWs s).pre.length ≤ s1.pre.length := by
            rw [hs1]; refine Nat.le_trans ?_ cl; rw [hb.pre]; simp
          rw [hs1] at h
          have := ih _ ts sf cp cs h
          rw [← hs1] at this
          exact this.mono (Nat.le_trans wl hlen1)
        | tok t =>
          have hteof : t.ty ≠ .EOF := hne t rfl
          simp only [beq_iff_eq, hteof, if_false] at h
          cases hrec : lexAll fuel s1 with
          | none => simp [hrec] at h
          | some r =>
            obtain ⟨ts1, sf1⟩ := r
            simp only [hrec, Option.map_some, Option.some.injEq, Prod.mk.injEq] at h
            obtain ⟨rfl, _⟩ := h
            have htk : (stepAt (skipWs s)).1 = .tok t := by rw [hst]
            obtain ⟨n, hsp⟩ := stepAt_spans (skipWs s) wp hnil t htk
            rw [hst] at hsp
            simp only at hsp
            have s1src : Src inp s1 := by
              unfold Src; rw [hsp.pre, hsp.rest]
              have := ws; unfold Src at this
              simp [← this, List.append_assoc]
            have hrecT := ih s1 ts1 sf1 hsp.inv s1src hrec
            have hpre1 : s1.pre.length = (skipWs s).pre.length + n := by
              rw [hsp.pre]; simp [List.length_take, Nat.min_eq_left hsp.n_le]; omega
            rw [hpre1] at hrecT
            exact .tok _ _ n t ts1 wl hteof (covers_of_spans inp (skipWs s) ws t s1 n hsp) hrecT

theorem src_init (inp : Bytes) : Src inp (Lx.init inp) := by simp [Src, Lx.init]

/-- **C19, token list of a whole input**: tokens in source order, without overlap, each with the
    exact start / end position of its first / last byte, closed by EOF at the end position -/
theorem tokenize_tiled (inp : Bytes) (r : LexResult) (h : tokenize inp = some r) : Tiled inp 0 r.toks := by
  unfold tokenize at h
  cases hl : lexAll (lexFuel inp) (Lx.init inp) with
  | none => simp [hl] at h
  | some p =>
    obtain ⟨ts, sf⟩ := p
    simp only [hl, Option.map_some, Option.some.injEq] at h
    subst h
    have := lexAll_tiled inp (lexFuel inp) (Lx.init inp) ts sf (posInv_init inp) (src_init inp) hl
    simpa [Lx.init] using this

end Tw
