/-
  TwProofs.Lemmas.LexWs — whitespace between the tokens of code (inside `{{ }}` and directive
  arguments) does not matter: if the lexer reads the lexemes `u₁ … uₙ` from a source in which
  they are separated by the gaps `g₁ … gₙ`, it reads tokens of the same kinds and literals from
  every source that separates the same lexemes by other whitespace, provided no gap that was not
  empty becomes empty (C01).
-/
import TwProofs.Lemmas.LexSim
namespace Tw
open Lx

/-! ### the look-ahead of a token -/

/-- the two bytes that follow a token in the second source are whitespace or those of the first -/
def LA (x y : Bytes) : Prop :=
  isWs (y.headD 0) = true ∨
    (y.headD 0 = x.headD 0 ∧ (isWs ((y.drop 1).headD 0) = true ∨ (y.drop 1).headD 0 = (x.drop 1).headD 0))

theorem LA.refl (x : Bytes) : LA x x := Or.inr ⟨rfl, Or.inr rfl⟩

theorem ws_not_number {c : Byte} (h : isWs c = true) : isNumberCh c = false := by
  have : ((c = 32 ∨ c = 9) ∨ c = 10) ∨ c = 13 := by simpa [isWs] using h
  rcases this with ((h | h) | h) | h <;> subst h <;> decide

theorem ws_not_ident {c : Byte} (h : isWs c = true) : isIdentCh c = false := by
  have : ((c = 32 ∨ c = 9) ∨ c = 10) ∨ c = 13 := by simpa [isWs] using h
  rcases this with ((h | h) | h) | h <;> subst h <;> decide


/-- the first byte after the token, for a test `p` that whitespace fails -/
theorem LA.head_false {x y : Bytes} (h : LA x y) (p : Byte → Bool) (hws : ∀ c, isWs c = true → p c = false)
    (hx : p (x.headD 0) = false) : p (y.headD 0) = false := by
  rcases h with h | ⟨h, _⟩
  · exact hws _ h
  · rw [h]; exact hx

theorem LA.head_ne {x y : Bytes} (h : LA x y) (v : Byte) (hv : isWs v = false) (hx : x.headD 0 ≠ v) : y.headD 0 ≠ v := by
  rcases h with h | ⟨h, _⟩
  · intro e; rw [e] at h; rw [h] at hv; cases hv
  · rw [h]; exact hx

/-! ### numbers -/

theorem numScan_digit (c : Byte) (r : Bytes) (h : isNumberCh c = true) :
    numScan (c :: r) = ((numScan r).1 + 1, (numScan r).2) := by
  simp only [numScan, h, if_true]

theorem numScan_dot (r : Bytes) :
    numScan (46 :: r) = if isNumberCh (r.headD 0) then ((numScan r).1 + 1, false) else (0, true) := by
  simp only [numScan]
  rw [if_neg (by decide)]
  simp

theorem numScan_other (c : Byte) (r : Bytes) (h : isNumberCh c = false) (hd : c ≠ 46) : numScan (c :: r) = (0, true) := by
  simp only [numScan, h]
  simp [hd]

/-- the scan stops at once exactly when the first byte is no digit and is not a dot before a digit -/
theorem numScan_stop (y : Bytes) (h0 : isNumberCh (y.headD 0) = false)
    (h1 : y.headD 0 = 46 → isNumberCh ((y.drop 1).headD 0) = false) : numScan y = (0, true) := by
  cases y with
  | nil => rfl
  | cons c r =>
    simp only [List.headD_cons] at h0 h1
    by_cases hd : c = 46
    · subst hd
      rw [numScan_dot]
      have := h1 rfl
      simp only [List.drop_succ_cons, List.drop_zero] at this
      rw [this]; rfl
    · exact numScan_other c r h0 hd

theorem numScan_zero (x : Bytes) (h : (numScan x).1 = 0) :
    isNumberCh (x.headD 0) = false ∧ (x.headD 0 = 46 → isNumberCh ((x.drop 1).headD 0) = false) := by
  cases x with
  | nil => exact ⟨by decide, fun h => by cases h⟩
  | cons c r =>
    simp only [List.headD_cons, List.drop_succ_cons, List.drop_zero]
    by_cases hn : isNumberCh c = true
    · rw [numScan_digit c r hn] at h; simp at h
    · have hn' : isNumberCh c = false := by simpa using hn
      refine ⟨hn', ?_⟩
      intro hd; subst hd
      rw [numScan_dot] at h
      by_cases hr : isNumberCh (r.headD 0) = true
      · rw [if_pos hr] at h; simp at h
      · simpa using hr

theorem numScan_stable (x y : Bytes) (hla : LA x y) : ∀ (u : Bytes) (i : Bool),
    numScan (u ++ x) = (u.length, i) → numScan (u ++ y) = (u.length, i) := by
  intro u
  induction u with
  | nil =>
    intro i h
    simp only [List.nil_append, List.length_nil] at h ⊢
    obtain ⟨z0, z1⟩ := numScan_zero x (by rw [h])
    have hi : i = true := by
      have := numScan_stop x z0 z1; rw [h] at this; exact (Prod.mk.inj this).2
    subst hi
    apply numScan_stop
    · exact hla.head_false isNumberCh (fun _ => ws_not_number) z0
    · intro hy
      rcases hla with hw | ⟨he, h2⟩
      · rw [hy] at hw; cases hw
      · rcases h2 with hw | he2
        · exact ws_not_number hw
        · rw [he2]; exact z1 (by rw [← he]; exact hy)
  | cons c u ih =>
    intro i h
    simp only [List.cons_append, List.length_cons] at h ⊢
    by_cases hn : isNumberCh c = true
    · rw [numScan_digit c _ hn] at h ⊢
      have h1 : (numScan (u ++ x)).1 = u.length := by have := (Prod.mk.inj h).1; omega
      have h2 : (numScan (u ++ x)).2 = i := (Prod.mk.inj h).2
      have := ih (numScan (u ++ x)).2 (by rw [← h1])
      rw [this, h2]
    · have hn' : isNumberCh c = false := by simpa using hn
      by_cases hd : c = 46
      · subst hd
        rw [numScan_dot] at h ⊢
        by_cases hr : isNumberCh ((u ++ x).headD 0) = true
        · rw [if_pos hr] at h
          have h1 : (numScan (u ++ x)).1 = u.length := by have := (Prod.mk.inj h).1; omega
          have h2 : false = i := (Prod.mk.inj h).2
          have hu : u ≠ [] := by
            intro e; subst e
            simp only [List.nil_append, List.length_nil] at h1 hr
            have := (numScan_zero x h1).1; rw [this] at hr; cases hr
          have hh : (u ++ y).headD 0 = (u ++ x).headD 0 := by
            cases u with
            | nil => exact absurd rfl hu
            | cons a t => rfl
          rw [hh, if_pos hr]
          have := ih (numScan (u ++ x)).2 (by rw [← h1])
          rw [this, ← h2]
        · rw [if_neg hr] at h
          have := (Prod.mk.inj h).1; omega
      · rw [numScan_other c _ hn' hd] at h
        have := (Prod.mk.inj h).1; omega

/-! ### identifiers -/

theorem takeWhile_stable (p : Byte → Bool) (x y : Bytes) (hla : LA x y) (hp0 : p 0 = false)
    (hws : ∀ c, isWs c = true → p c = false) :
    ∀ u : Bytes, ((u ++ x).takeWhile p).length = u.length → (u ++ y).takeWhile p = u ∧ (u ++ x).takeWhile p = u := by
  intro u
  induction u with
  | nil =>
    intro h
    simp only [List.nil_append, List.length_nil] at h ⊢
    have hx : p (x.headD 0) = false := by
      cases x with
      | nil => exact hp0
      | cons c r =>
        simp only [List.headD_cons]
        by_cases hc : p c = true
        · simp [List.takeWhile_cons, hc] at h
        · simpa using hc
    have hy := hla.head_false p hws hx
    refine ⟨?_, by simpa using h⟩
    cases y with
    | nil => rfl
    | cons c r => simp only [List.headD_cons] at hy; simp [hy]
  | cons c u ih =>
    intro h
    simp only [List.cons_append, List.takeWhile_cons] at h ⊢
    by_cases hc : p c = true
    · simp only [hc, if_true, List.length_cons] at h ⊢
      obtain ⟨i1, i2⟩ := ih (by omega)
      rw [i1, i2]; exact ⟨rfl, rfl⟩
    · simp [hc] at h

/-! ### strings -/

theorem strScan_pos (q c : Byte) (t : Bytes) : 1 ≤ strScan q (c :: t) := by
  simp only [strScan]
  split
  · omega
  · split <;> omega

theorem strScan_cons2 (q c d : Byte) (t : Bytes) :
    strScan q (c :: d :: t) = if (d == q && c != 92) = true then 1 else 1 + strScan q (d :: t) := by
  rw [strScan]

theorem strScan_stable (q : Byte) (x y : Bytes) : ∀ v : Bytes,
    strScan q (v ++ x) + 1 = v.length → strScan q (v ++ y) = strScan q (v ++ x) := by
  intro v
  induction v with
  | nil => intro h; simp at h
  | cons c v ih =>
    intro h
    cases v with
    | nil =>
      simp only [List.cons_append, List.nil_append, List.length_cons, List.length_nil] at h
      have := strScan_pos q c x; omega
    | cons d w =>
      simp only [List.cons_append, List.length_cons] at h ih ⊢
      rw [strScan_cons2] at h
      rw [strScan_cons2, strScan_cons2]
      by_cases hq : (d == q && c != 92) = true
      · simp only [hq, if_true]
      · simp only [hq] at h ⊢
        simp only [Bool.false_eq_true, if_false] at h ⊢
        rw [ih (by omega)]

theorem strSpan_stable (x y u : Bytes) (hn : (strSpan (u ++ x)).1 = u.length) :
    strSpan (u ++ y) = strSpan (u ++ x) := by
  cases u with
  | nil =>
    have := strSpan_pos x
    simp only [List.nil_append, List.length_nil] at hn; omega
  | cons q v =>
    cases v with
    | nil =>
      -- one byte: the scan would have to return -1
      exfalso
      simp only [List.cons_append, List.nil_append, List.length_cons, List.length_nil] at hn
      have := strSpan_pos (q :: x); omega
    | cons c w =>
      unfold strSpan at hn ⊢
      simp only [List.cons_append, List.headD_cons, List.drop_succ_cons, List.drop_zero, List.isEmpty_cons,
        Bool.not_false, Bool.and_true, List.length_cons] at hn ⊢
      by_cases hq : (c == q) = true
      · simp only [hq, if_true]
      · simp only [hq, Bool.false_eq_true, if_false] at hn ⊢
        have e := strScan_stable q x y (c :: w) (by simp only [List.cons_append, List.length_cons]; omega)
        simp only [List.cons_append] at e
        rw [e]
        have hle : strScan q (c :: (w ++ x)) ≤ (c :: w).length := by simp only [List.length_cons]; omega
        have t1 := List.take_append_of_le_length (l₂ := x) hle
        have t2 := List.take_append_of_le_length (l₂ := y) hle
        simp only [List.cons_append] at t1 t2
        rw [t1, t2]

end Tw

namespace Tw
open Lx

/-! ### one code token, two continuations -/

/-- the mode flags of a lexer state -/
def mode (s : Lx) : Bool × Bool × Int × Int × Bool := (s.isHTML, s.isDirective, s.parens, s.braces, s.panicked)

theorem mode_html {a c : Lx} (h : mode a = mode c) : a.isHTML = c.isHTML := congrArg (·.1) h
theorem mode_dir {a c : Lx} (h : mode a = mode c) : a.isDirective = c.isDirective := congrArg (·.2.1) h
theorem mode_parens {a c : Lx} (h : mode a = mode c) : a.parens = c.parens := congrArg (·.2.2.1) h
theorem mode_braces {a c : Lx} (h : mode a = mode c) : a.braces = c.braces := congrArg (·.2.2.2.1) h
theorem mode_pan {a c : Lx} (h : mode a = mode c) : a.panicked = c.panicked := congrArg (·.2.2.2.2) h

/-- the second description covers `len` bytes and agrees with the first in kind, literal and mode -/
structure Stab (d d' : TokDesc) (len : Nat) : Prop where
  n : d'.n = len
  ty : d'.ty = d.ty
  lit : d'.lit = d.lit
  md : mode d'.st = mode d.st

/-- the setting: the same lexeme `c :: v` is followed by `x` in one state and by `y` in the other -/
structure Two (s s' : Lx) (c : Byte) (v x y : Bytes) : Prop where
  rest : s.rest = c :: v ++ x
  rest' : s'.rest = c :: v ++ y
  md : mode s' = mode s
  la : LA x y

theorem Two.char {s s' : Lx} {c : Byte} {v x y : Bytes} (h : Two s s' c v x y) : s.char = c := by simp [Lx.char, h.rest]
theorem Two.char' {s s' : Lx} {c : Byte} {v x y : Bytes} (h : Two s s' c v x y) : s'.char = c := by simp [Lx.char, h.rest']

theorem Two.peek_nil {s s' : Lx} {c : Byte} {x y : Bytes} (h : Two s s' c [] x y) : s.peek = x.headD 0 ∧ s'.peek = y.headD 0 := by
  simp [Lx.peek, h.rest, h.rest']
theorem Two.peek_cons {s s' : Lx} {c d : Byte} {w x y : Bytes} (h : Two s s' c (d :: w) x y) : s.peek = d ∧ s'.peek = d := by
  simp [Lx.peek, h.rest, h.rest']

theorem illegalDesc_stable {s s' : Lx} {c : Byte} {v x y : Bytes} (h : Two s s' c v x y)
    (hn : (illegalDesc s).n = (c :: v).length) : Stab (illegalDesc s) (illegalDesc s') (c :: v).length := by
  refine ⟨by rw [← hn]; rfl, rfl, ?_, h.md⟩
  simp [illegalDesc, h.char, h.char']

theorem wordDesc_stable {s s' : Lx} {c : Byte} {v x y : Bytes} (h : Two s s' c v x y)
    (hn : (wordDesc s).n = (c :: v).length) : Stab (wordDesc s) (wordDesc s') (c :: v).length := by
  by_cases hid : isIdentCh c = true
  · have e : ∀ t : Lx, t.char = c → wordDesc t =
        { st := t, n := (t.rest.takeWhile fun x => isIdentCh x || isNumberCh x).length,
          ty := lookupIdent (t.rest.takeWhile fun x => isIdentCh x || isNumberCh x),
          lit := t.rest.takeWhile fun x => isIdentCh x || isNumberCh x } := by
      intro t ht; unfold wordDesc; rw [ht, if_pos hid]
    rw [e s h.char] at hn ⊢
    rw [e s' h.char']
    simp only [h.rest] at hn ⊢
    simp only [h.rest']
    obtain ⟨t1, t2⟩ := takeWhile_stable (fun x => isIdentCh x || isNumberCh x) x y h.la (by decide)
      (fun c hc => by simp [ws_not_ident hc, ws_not_number hc]) (c :: v) hn
    rw [show c :: v ++ x = (c :: v) ++ x from rfl, show c :: v ++ y = (c :: v) ++ y from rfl, t1, t2]
    exact ⟨rfl, rfl, rfl, h.md⟩
  · by_cases hnum : isNumberCh c = true
    · have e : ∀ t : Lx, t.char = c → wordDesc t =
          { st := t, n := (numScan t.rest).1, ty := (if (numScan t.rest).2 then .INT else .FLOAT), lit := t.rest.take (numScan t.rest).1 } := by
        intro t ht; unfold wordDesc; rw [ht, if_neg hid, if_pos hnum]
      rw [e s h.char] at hn ⊢
      rw [e s' h.char']
      simp only [h.rest] at hn ⊢
      simp only [h.rest']
      have h1 : numScan ((c :: v) ++ x) = ((c :: v).length, (numScan ((c :: v) ++ x)).2) := by
        rw [← hn]
      have h2 := numScan_stable x y h.la (c :: v) _ h1
      rw [show c :: v ++ x = (c :: v) ++ x from rfl, show c :: v ++ y = (c :: v) ++ y from rfl, h2]
      refine ⟨rfl, ?_, ?_, h.md⟩
      · simp only []
      · simp only []
        rw [hn, List.take_left', List.take_left']
        · rfl
        · rfl
    · have e : ∀ t : Lx, t.char = c → wordDesc t = illegalDesc t := by
        intro t ht; unfold wordDesc; rw [ht, if_neg hid, if_neg hnum]
      rw [e s h.char] at hn ⊢
      rw [e s' h.char']
      exact illegalDesc_stable h hn

end Tw

namespace Tw
open Lx

/-- the one and two byte operators of `opDesc`: first byte, second byte, long kind, short kind -/
def opTable : List (Byte × Byte × TT × TT) :=
  [(60, 61, .LTHAN_EQ, .LTHAN), (62, 61, .GTHAN_EQ, .GTHAN), (33, 61, .NOT_EQ, .NOT),
   (45, 45, .DEC, .SUB), (43, 43, .INC, .ADD), (61, 61, .EQ, .ASSIGN)]

def opChain (s : Lx) : List (Byte × Byte × TT × TT) → TokDesc
  | [] => wordDesc s
  | (a, k, t2, t1) :: r =>
    if s.char == a then (if s.peek == k then { st := s, n := 2, ty := t2, lit := [a, k] } else { st := s, n := 1, ty := t1, lit := [a] })
    else opChain s r

theorem opDesc_eq_chain (s : Lx) : opDesc s = opChain s opTable := rfl

theorem opChain_stable {s s' : Lx} {c : Byte} {v x y : Bytes} (h : Two s s' c v x y) :
    ∀ tbl : List (Byte × Byte × TT × TT), (∀ e ∈ tbl, isWs e.2.1 = false) →
    (opChain s tbl).n = (c :: v).length → Stab (opChain s tbl) (opChain s' tbl) (c :: v).length := by
  intro tbl
  induction tbl with
  | nil => intro _ hn; exact wordDesc_stable h hn
  | cons e r ih =>
    obtain ⟨a, k, t2, t1⟩ := e
    intro hk hn
    have hkw : isWs k = false := hk (a, k, t2, t1) List.mem_cons_self
    simp only [opChain] at hn ⊢
    rw [h.char] at hn ⊢
    rw [h.char']
    by_cases hc : (c == a) = true
    · simp only [hc, if_true] at hn ⊢
      cases v with
      | nil =>
        obtain ⟨p1, p2⟩ := h.peek_nil
        rw [p1] at hn ⊢; rw [p2]
        by_cases hp : (x.headD 0 == k) = true
        · rw [if_pos hp] at hn; simp at hn
        · have hp' : x.headD 0 ≠ k := by simpa using hp
          have hy : ¬ (y.headD 0 == k) = true := by simpa using h.la.head_ne k hkw hp'
          simp only [hp, hy]
          exact ⟨rfl, rfl, rfl, h.md⟩
      | cons d w =>
        obtain ⟨p1, p2⟩ := h.peek_cons
        rw [p1] at hn ⊢; rw [p2]
        by_cases hp : (d == k) = true
        · simp only [hp, if_true] at hn ⊢
          exact ⟨hn, rfl, rfl, h.md⟩
        · simp only [hp] at hn ⊢
          exact ⟨hn, rfl, rfl, h.md⟩
    · simp only [hc] at hn ⊢
      exact ih (fun e he => hk e (List.mem_cons_of_mem _ he)) hn

theorem opDesc_stable {s s' : Lx} {c : Byte} {v x y : Bytes} (h : Two s s' c v x y)
    (hn : (opDesc s).n = (c :: v).length) : Stab (opDesc s) (opDesc s') (c :: v).length := by
  rw [opDesc_eq_chain] at hn ⊢
  rw [opDesc_eq_chain]
  exact opChain_stable h opTable (by decide) hn

theorem strDesc_stable {s s' : Lx} {c : Byte} {v x y : Bytes} (h : Two s s' c v x y)
    (hn : (strDesc s).n = (c :: v).length) : Stab (strDesc s) (strDesc s') (c :: v).length := by
  unfold strDesc at hn ⊢
  simp only [] at hn ⊢
  rw [h.char, h.rest] at *
  rw [h.char', h.rest']
  have e := strSpan_stable x y (c :: v) hn
  rw [show c :: v ++ y = (c :: v) ++ y from rfl, show c :: v ++ x = (c :: v) ++ x from rfl, e]
  exact ⟨hn, rfl, rfl, h.md⟩

theorem bracketDesc_stable {s s' : Lx} {c : Byte} {v x y : Bytes} (h : Two s s' c v x y)
    (hn : (bracketDesc s).n = (c :: v).length) : Stab (bracketDesc s) (bracketDesc s') (c :: v).length := by
  have hd := mode_dir h.md
  have hp := mode_parens h.md
  have hb := mode_braces h.md
  have hh := mode_html h.md
  have hpa := mode_pan h.md
  unfold bracketDesc at hn ⊢
  rw [h.char] at hn ⊢
  rw [h.char']
  by_cases c1 : (c == 123) = true
  · simp only [c1, if_true] at hn ⊢
    exact ⟨hn, rfl, rfl, by simp [mode, hd, hp, hb, hh, hpa]⟩
  simp only [c1] at hn ⊢
  by_cases c2 : (c == 125) = true
  · simp only [c2, if_true] at hn ⊢
    exact ⟨hn, rfl, rfl, by simp [mode, hd, hp, hb, hh, hpa]⟩
  simp only [c2] at hn ⊢
  by_cases c3 : (c == 40) = true
  · simp only [c3, if_true] at hn ⊢
    refine ⟨hn, rfl, rfl, ?_⟩
    rw [hd]
    by_cases hdd : s.isDirective = true
    · simp [mode, hdd, hp, hb, hh, hpa]
    · simp only [hdd, if_false]; exact h.md
  simp only [c3] at hn ⊢
  by_cases c4 : (c == 41) = true
  · simp only [c4, if_true] at hn ⊢
    refine ⟨hn, rfl, rfl, ?_⟩
    rw [hd, hp]
    by_cases hdd : (s.isDirective && s.parens - 1 == 0) = true
    · simp [mode, hdd, hb, hpa]
    · simp only [hdd, if_false]
      by_cases hd2 : s.isDirective = true
      · simp [mode, hd2, hb, hh, hpa]
      · simp only [hd2, if_false]; exact h.md
  simp only [c4] at hn ⊢
  by_cases c5 : (c == 34 || c == 39) = true
  · simp only [c5, if_true] at hn ⊢
    exact strDesc_stable h hn
  · simp only [c5] at hn ⊢
    exact opDesc_stable h hn

theorem codeDesc_stable {s s' : Lx} {c : Byte} {v x y : Bytes} (h : Two s s' c v x y)
    (hn : (codeDesc s).n = (c :: v).length) : Stab (codeDesc s) (codeDesc s') (c :: v).length := by
  unfold codeDesc at hn ⊢
  rw [h.char] at hn ⊢
  rw [h.char']
  cases hst : simpleToken c with
  | some ty =>
    simp only [hst] at hn ⊢
    exact ⟨hn, rfl, rfl, h.md⟩
  | none =>
    simp only [hst] at hn ⊢
    exact bracketDesc_stable h hn

/-- the token of one `NextToken` body in code that is neither at the end of the input nor at
    "{{": the closing "}}" outside every object literal, or `embeddedCodeToken` -/
def codeStepDesc (s : Lx) : TokDesc :=
  if s.char == 125 && s.peek == 125 && s.braces == 0 then
    { st := { s with isHTML := true }, n := 2, ty := .RBRACES, lit := [125, 125] }
  else codeDesc s

theorem stepAt_code (s : Lx) (hh : s.isHTML = false) (hne : s.rest ≠ []) (hb : ¬ (s.char = 123 ∧ s.peek = 123)) :
    stepAt s = (.tok (codeStepDesc s).emit.1, (codeStepDesc s).emit.2) := by
  unfold stepAt codeStepDesc
  rw [if_neg (by simpa [isEOF_iff] using hne)]
  rw [if_neg (by simpa using hb)]
  simp only [hh, Bool.not_false, Bool.true_and]
  split
  · rfl
  · rfl

theorem codeDesc_rbrace (s : Lx) (h : s.char = 125) : (codeDesc s).n = 1 := by
  unfold codeDesc
  rw [h]
  have : simpleToken 125 = none := by decide
  simp only [this]
  unfold bracketDesc
  rw [h]
  rfl

theorem codeStepDesc_stable {s s' : Lx} {c : Byte} {v x y : Bytes} (h : Two s s' c v x y)
    (hn : (codeStepDesc s).n = (c :: v).length) : Stab (codeStepDesc s) (codeStepDesc s') (c :: v).length := by
  have hb := mode_braces h.md
  unfold codeStepDesc at hn ⊢
  rw [h.char, hb] at *
  rw [h.char']
  cases v with
  | nil =>
    obtain ⟨p1, p2⟩ := h.peek_nil
    rw [p1] at hn ⊢; rw [p2]
    by_cases hc : (c == 125 && x.headD 0 == 125 && s.braces == 0) = true
    · rw [if_pos hc] at hn; simp at hn
    · simp only [hc] at hn ⊢
      have hc' : ¬ (c == 125 && y.headD 0 == 125 && s.braces == 0) = true := by
        intro hy
        simp only [Bool.and_eq_true, beq_iff_eq] at hy hc
        obtain ⟨⟨y1, y2⟩, y3⟩ := hy
        have hx : x.headD 0 ≠ 125 := fun e => hc ⟨⟨y1, e⟩, y3⟩
        exact h.la.head_ne 125 (by decide) hx y2
      simp only [hc']
      exact codeDesc_stable h hn
  | cons d w =>
    obtain ⟨p1, p2⟩ := h.peek_cons
    rw [p1] at hn ⊢; rw [p2]
    by_cases hc : (c == 125 && d == 125 && s.braces == 0) = true
    · simp only [hc, if_true] at hn ⊢
      refine ⟨hn, rfl, rfl, ?_⟩
      simp [mode, mode_dir h.md, mode_parens h.md, mode_braces h.md, mode_pan h.md]
    · simp only [hc] at hn ⊢
      exact codeDesc_stable h hn

end Tw

namespace Tw
open Lx

/-! ### one step, two sources -/

def allWs (g : Bytes) : Prop := ∀ c ∈ g, isWs c = true

theorem takeWhile_ws (g r : Bytes) (hg : allWs g) (hr : isWs (r.headD 0) = false) : (g ++ r).takeWhile isWs = g := by
  induction g with
  | nil =>
    cases r with
    | nil => rfl
    | cons c t => simp only [List.headD_cons] at hr; simp [hr]
  | cons a g ih =>
    have ha : isWs a = true := hg a List.mem_cons_self
    simp only [List.cons_append, List.takeWhile_cons, ha, if_true]
    rw [ih (fun c hc => hg c (List.mem_cons_of_mem _ hc))]

theorem mode_advance (s : Lx) (n : Nat) : mode (advance s n) = mode s := by
  obtain ⟨_, _, a3, a4, a5, a6, a7⟩ := advance_frame n s
  simp [mode, a3, a4, a5, a6, a7]

theorem skipWs_code (s : Lx) (hh : s.isHTML = false) (g r : Bytes) (hg : allWs g) (hs : s.rest = g ++ r)
    (hr : isWs (r.headD 0) = false) : (skipWs s).rest = r ∧ mode (skipWs s) = mode s := by
  unfold skipWs
  simp only [hh, Bool.not_false, if_true]
  refine ⟨?_, mode_advance _ _⟩
  rw [advance_rest, hs, takeWhile_ws g r hg hr]
  simp

theorem codeStepDesc_frame (s : Lx) (hne : s.rest ≠ []) :
    (codeStepDesc s).st.rest = s.rest ∧ (codeStepDesc s).st.pre = s.pre ∧ (codeStepDesc s).ty ≠ .EOF := by
  unfold codeStepDesc
  split
  · exact ⟨rfl, rfl, by simp⟩
  · obtain ⟨⟨h1, h2, _⟩, _, h3⟩ := codeDesc_ok s hne
    exact ⟨h2, h1, h3⟩

theorem emit_state (d : TokDesc) : d.emit.2 = d.st.tokenBegins.advance d.n := rfl

theorem emit_after (d : TokDesc) (u x : Bytes) (hu : u ≠ []) (hr : d.st.rest = u ++ x) (hn : d.n = u.length) :
    d.emit.2.rest = x ∧ mode d.emit.2 = mode d.st ∧ d.emit.2.prev = u.reverse.headD 0 := by
  rw [emit_state]
  refine ⟨?_, ?_, ?_⟩
  · rw [advance_rest, tokenBegins_rest, hr, hn]; simp
  · rw [mode_advance]; rfl
  · rw [advance_prev_byte, tokenBegins_rest, hr, hn, List.take_left']
    · cases hrev : u.reverse with
      | nil => exact absurd (List.reverse_eq_nil_iff.mp hrev) hu
      | cons a t => rfl
    · rfl

/-- **one token, whatever whitespace surrounds it**: when the lexer in code reads the lexeme
    `c :: v` after the gap `g`, it reads a token of the same kind and literal after any other gap
    and before any continuation whose first two bytes are whitespace or unchanged -/
theorem code_step {s s' : Lx} (hm : mode s' = mode s) (hh : s.isHTML = false) (g g' : Bytes) (c : Byte) (v x y : Bytes)
    (hg : allWs g) (hg' : allWs g') (hc : isWs c = false)
    (hr : s.rest = g ++ (c :: v ++ x)) (hr' : s'.rest = g' ++ (c :: v ++ y)) (hla : LA x y)
    (hb : ¬ ((skipWs s).char = 123 ∧ (skipWs s).peek = 123))
    (hn : (codeStepDesc (skipWs s)).n = (c :: v).length) :
    ∃ t t' s1', nextStep s = (.tok t, (codeStepDesc (skipWs s)).emit.2) ∧ nextStep s' = (.tok t', s1') ∧
      key t' = key t ∧ t.ty ≠ .EOF ∧ mode s1' = mode (codeStepDesc (skipWs s)).emit.2 ∧
      (codeStepDesc (skipWs s)).emit.2.rest = x ∧ s1'.rest = y ∧ s1'.prev = (codeStepDesc (skipWs s)).emit.2.prev ∧
      s1' = (codeStepDesc (skipWs s')).emit.2 ∧ ¬ ((skipWs s').char = 123 ∧ (skipWs s').peek = 123) ∧
      (codeStepDesc (skipWs s')).n = (c :: v).length := by
  have hh' : s'.isHTML = false := by rw [mode_html hm]; exact hh
  obtain ⟨k1, k2⟩ := skipWs_code s hh g (c :: v ++ x) hg hr (by simpa using hc)
  obtain ⟨k1', k2'⟩ := skipWs_code s' hh' g' (c :: v ++ y) hg' hr' (by simpa using hc)
  have two : Two (skipWs s) (skipWs s') c v x y := ⟨k1, k1', by rw [k2', k2, hm], hla⟩
  have hne : (skipWs s).rest ≠ [] := by rw [k1]; simp
  have hne' : (skipWs s').rest ≠ [] := by rw [k1']; simp
  have hb' : ¬ ((skipWs s').char = 123 ∧ (skipWs s').peek = 123) := by
    rw [two.char'] ; rw [two.char] at hb
    cases v with
    | nil =>
      obtain ⟨p1, p2⟩ := two.peek_nil
      rw [p2]; rw [p1] at hb
      intro ⟨e1, e2⟩
      have hx : x.headD 0 ≠ 123 := fun e => hb ⟨e1, e⟩
      exact hla.head_ne 123 (by decide) hx e2
    | cons d w =>
      obtain ⟨p1, p2⟩ := two.peek_cons
      rw [p2]; rw [p1] at hb; exact hb
  have st := codeStepDesc_stable two hn
  obtain ⟨f1, f2, f3⟩ := codeStepDesc_frame (skipWs s) hne
  obtain ⟨f1', f2', f3'⟩ := codeStepDesc_frame (skipWs s') hne'
  obtain ⟨a1, a2, a3⟩ := emit_after (codeStepDesc (skipWs s)) (c :: v) x (by simp) (by rw [f1, k1]) hn
  obtain ⟨a1', a2', a3'⟩ := emit_after (codeStepDesc (skipWs s')) (c :: v) y (by simp) (by rw [f1', k1']) st.n
  refine ⟨(codeStepDesc (skipWs s)).emit.1, (codeStepDesc (skipWs s')).emit.1, (codeStepDesc (skipWs s')).emit.2,
    ?_, ?_, ?_, ?_, ?_, a1, a1', ?_, rfl, hb', st.n⟩
  · unfold nextStep; exact stepAt_code _ (by rw [mode_html k2]; exact hh) hne hb
  · unfold nextStep; exact stepAt_code _ (by rw [mode_html k2']; exact hh') hne' hb'
  · unfold TokDesc.emit; rw [emit_key, emit_key, st.ty, st.lit]
  · unfold TokDesc.emit; rw [emit_ty]; exact f3
  · rw [a2', a2, st.md]
  · rw [a3', a3]

end Tw

namespace Tw
open Lx

/-! ### a run of code tokens, two spacings -/

/-- the source made of the gaps and lexemes, followed by `tail` -/
def src : List (Bytes × Bytes) → Bytes → Bytes
  | [], tail => tail
  | (g, u) :: r, tail => g ++ (u ++ src r tail)

/-- the same lexemes with other whitespace between them; a gap that was not empty stays non-empty -/
inductive Respaced : List (Bytes × Bytes) → List (Bytes × Bytes) → Prop
  | nil : Respaced [] []
  | cons (g g' : Bytes) (c : Byte) (v : Bytes) (r r' : List (Bytes × Bytes)) :
      allWs g → allWs g' → (g ≠ [] → g' ≠ []) → isWs c = false → Respaced r r' →
      Respaced ((g, c :: v) :: r) ((g', c :: v) :: r')

theorem Respaced.length {a c : List (Bytes × Bytes)} (h : Respaced a c) : a.length = c.length := by
  induction h with
  | nil => rfl
  | cons _ _ _ _ _ _ _ _ _ _ _ ih => simp [ih]

/-- first byte after a token: whitespace or unchanged -/
theorem Respaced.head {a c : List (Bytes × Bytes)} (h : Respaced a c) (tail : Bytes) :
    isWs ((src c tail).headD 0) = true ∨ (src c tail).headD 0 = (src a tail).headD 0 := by
  cases h with
  | nil => right; rfl
  | cons g g' ch v r r' hg hg' hgg hc hr =>
    cases g' with
    | cons w t => left; simp only [src, List.cons_append, List.headD_cons]; exact hg' w List.mem_cons_self
    | nil =>
      right
      have : g = [] := by
        cases g with
        | nil => rfl
        | cons w t => exact absurd rfl (hgg (by simp))
      subst this
      simp [src]

theorem Respaced.la {a c : List (Bytes × Bytes)} (h : Respaced a c) (tail : Bytes) : LA (src a tail) (src c tail) := by
  cases h with
  | nil => exact LA.refl _
  | cons g g' ch v r r' hg hg' hgg hc hr =>
    cases g' with
    | cons w t => left; simp only [src, List.cons_append, List.headD_cons]; exact hg' w List.mem_cons_self
    | nil =>
      right
      have : g = [] := by
        cases g with
        | nil => rfl
        | cons w t => exact absurd rfl (hgg (by simp))
      subst this
      refine ⟨by simp [src], ?_⟩
      cases v with
      | cons d w => right; simp [src]
      | nil =>
        simp only [src, List.nil_append, List.cons_append, List.drop_succ_cons, List.drop_zero]
        exact hr.head tail

/-- the lexer in code reads, one `NextToken` at a time, exactly the lexemes of the list -/
def Reads : Lx → List (Bytes × Bytes) → Prop
  | _, [] => True
  | s, (_, u) :: r =>
      s.isHTML = false ∧ ¬ ((skipWs s).char = 123 ∧ (skipWs s).peek = 123) ∧
      (codeStepDesc (skipWs s)).n = u.length ∧ Reads (codeStepDesc (skipWs s)).emit.2 r

/-- `n` consecutive `NextToken` bodies that each return a token -/
inductive Run : Lx → List Token → Lx → Prop
  | nil (s : Lx) : Run s [] s
  | cons (s s1 sf : Lx) (t : Token) (ts : List Token) : nextStep s = (.tok t, s1) → t.ty ≠ .EOF → Run s1 ts sf → Run s (t :: ts) sf

/-- **whitespace between code tokens is irrelevant, step by step** -/
theorem respaced_run (tail : Bytes) : ∀ (a c : List (Bytes × Bytes)), Respaced a c → ∀ (s s' : Lx),
    mode s' = mode s → s.rest = src a tail → s'.rest = src c tail → Reads s a →
    ∃ ts ts' sf sf', Run s ts sf ∧ Run s' ts' sf' ∧ ts'.map key = ts.map key ∧ mode sf' = mode sf ∧
      sf.rest = tail ∧ sf'.rest = tail ∧ (a ≠ [] → sf'.prev = sf.prev) ∧ (a = [] → sf = s ∧ sf' = s') := by
  intro a c h
  induction h with
  | nil =>
    intro s s' hm hr hr' _
    exact ⟨[], [], s, s', Run.nil s, Run.nil s', rfl, hm, hr, hr', fun h => absurd rfl h, fun _ => ⟨rfl, rfl⟩⟩
  | cons g g' ch v r r' hg hg' hgg hc hrs ih =>
    intro s s' hm hr hr' hreads
    obtain ⟨hh, hb, hn, hrest⟩ := hreads
    simp only [src] at hr hr'
    obtain ⟨t, t', s1', e1, e1', ek, eeof, em, er, er', ep, _, _, _⟩ :=
      code_step hm hh g g' ch v (src r tail) (src r' tail) hg hg' hc
        (by rw [hr]) (by rw [hr']) (hrs.la tail) hb hn
    obtain ⟨ts, ts', sf, sf', r1, r1', rk, rm, rr, rr', rp, rn⟩ := ih _ s1' em er er' hrest
    have eeof' : t'.ty ≠ .EOF := by
      have : t'.ty = t.ty := congrArg Prod.fst ek
      rw [this]; exact eeof
    refine ⟨t :: ts, t' :: ts', sf, sf', Run.cons _ _ _ _ _ e1 eeof r1, Run.cons _ _ _ _ _ e1' eeof' r1', ?_, rm, rr, rr', ?_, ?_⟩
    · simp [ek, rk]
    · intro _
      by_cases hr0 : r = []
      · obtain ⟨q1, q2⟩ := rn hr0
        rw [q1, q2]; exact ep
      · exact rp hr0
    · intro h; cases h

/-- a run of tokens is a prefix of what `lexAll` returns -/
theorem lexAll_of_run {s sf : Lx} {ts : List Token} (h : Run s ts sf) : ∀ (fuel : Nat) (res : List Token × Lx),
    lexAll fuel s = some res → ∃ f r0, fuel = ts.length + f ∧ lexAll f sf = some r0 ∧ res = (ts ++ r0.1, r0.2) := by
  induction h with
  | nil s => intro fuel res hl; exact ⟨fuel, res, by simp, hl, by simp⟩
  | cons s s1 sf t ts hstep hne _ ih =>
    intro fuel res hl
    cases fuel with
    | zero => simp [lexAll] at hl
    | succ f =>
      rw [lexAll, hstep] at hl
      simp only [] at hl
      have : (t.ty == TT.EOF) = false := by simpa using hne
      simp only [this] at hl
      cases hl1 : lexAll f s1 with
      | none => simp [hl1] at hl
      | some p =>
        simp [hl1] at hl
        obtain ⟨f0, r0, e1, e2, e3⟩ := ih f p hl1
        refine ⟨f0, r0, by simp [e1]; omega, e2, ?_⟩
        rw [← hl, e3]; simp

theorem lexAll_run_forward {s sf : Lx} {ts : List Token} (h : Run s ts sf) : ∀ (f : Nat) (r0 : List Token × Lx),
    lexAll f sf = some r0 → lexAll (ts.length + f) s = some (ts ++ r0.1, r0.2) := by
  induction h with
  | nil s => intro f r0 hl; simpa using hl
  | cons s s1 sf t ts hstep hne _ ih =>
    intro f r0 hl
    have := ih f r0 hl
    rw [show (t :: ts).length + f = (ts.length + f) + 1 by simp; omega, lexAll, hstep]
    simp only []
    have hne' : (t.ty == TT.EOF) = false := by simpa using hne
    simp [hne', this]

theorem Run.length_map {s sf : Lx} {ts : List Token} (_ : Run s ts sf) : True := trivial

/-- **whitespace between the tokens of code never changes the token list**: if from the state `s`
    the lexer reads the lexemes of `a` (in code mode) and then goes on with `tail`, then from every
    state in the same mode whose input spaces the same lexemes differently (`Respaced a c`) and goes
    on with the same `tail` it returns tokens of the same kinds and literals, with the same fuel -/
theorem whitespace_between_code_tokens (tail : Bytes) (a c : List (Bytes × Bytes)) (h : Respaced a c) (hne : a ≠ [])
    (s s' : Lx) (hm : mode s' = mode s) (hr : s.rest = src a tail) (hr' : s'.rest = src c tail) (hreads : Reads s a)
    (fuel : Nat) (ts : List Token) (sf : Lx) (hl : lexAll fuel s = some (ts, sf)) :
    ∃ ts' sf', lexAll fuel s' = some (ts', sf') ∧ ts'.map key = ts.map key ∧ Sim sf sf' := by
  obtain ⟨rs, rs', m, m', r1, r1', rk, rm, rr, rr', rp, _⟩ := respaced_run tail a c h s s' hm hr hr' hreads
  obtain ⟨f, r0, e1, e2, e3⟩ := lexAll_of_run r1 fuel (ts, sf) hl
  have hsim : Sim m m' :=
    ⟨by rw [rr, rr'], (rp hne).symm, (mode_html rm).symm, (mode_dir rm).symm, (mode_parens rm).symm,
      (mode_braces rm).symm, (mode_pan rm).symm⟩
  obtain ⟨ts0, sf0⟩ := r0
  obtain ⟨ts1, sf1, q1, q2, q3⟩ := lexAll_sim f m m' hsim ts0 sf0 e2
  have hlen : rs'.length = rs.length := by
    have := congrArg List.length rk; simpa using this
  have := lexAll_run_forward r1' f (ts1, sf1) q1
  rw [hlen, ← e1] at this
  refine ⟨rs' ++ ts1, sf1, this, ?_, ?_⟩
  · have e3' := (Prod.mk.inj e3).1
    rw [e3']; simp [rk, q2]
  · have e3' := (Prod.mk.inj e3).2
    rw [e3']; exact q3


/-- the hypothesis `Reads` carries over to every respacing -/
theorem reads_respaced (tail : Bytes) : ∀ (a c : List (Bytes × Bytes)), Respaced a c → ∀ (s s' : Lx),
    mode s' = mode s → s.rest = src a tail → s'.rest = src c tail → Reads s a → Reads s' c := by
  intro a c h
  induction h with
  | nil => intro _ _ _ _ _ _; trivial
  | cons g g' ch v r r' hg hg' hgg hc hrs ih =>
    intro s s' hm hr hr' hreads
    obtain ⟨hh, hb, hn, hrest⟩ := hreads
    simp only [src] at hr hr'
    obtain ⟨t, t', s1', e1, e1', ek, eeof, em, er, er', ep, es, eb, en⟩ :=
      code_step hm hh g g' ch v (src r tail) (src r' tail) hg hg' hc (by rw [hr]) (by rw [hr']) (hrs.la tail) hb hn
    refine ⟨by rw [mode_html hm]; exact hh, eb, en, ?_⟩
    rw [← es]
    exact ih _ s1' em er er' hrest

instance decReads : (a : List (Bytes × Bytes)) → (s : Lx) → Decidable (Reads s a)
  | [], _ => isTrue trivial
  | (_, u) :: r, s =>
    have := decReads r (codeStepDesc (skipWs s)).emit.2
    show Decidable (s.isHTML = false ∧ ¬ ((skipWs s).char = 123 ∧ (skipWs s).peek = 123) ∧
      (codeStepDesc (skipWs s)).n = u.length ∧ Reads (codeStepDesc (skipWs s)).emit.2 r) from inferInstance

/-- a checker for `Respaced` -/
def respacedB : List (Bytes × Bytes) → List (Bytes × Bytes) → Bool
  | [], [] => true
  | (g, u) :: r, (g', u') :: r' =>
    g.all isWs && g'.all isWs && (g.isEmpty || !g'.isEmpty) && u == u' && !u.isEmpty && !isWs (u.headD 0) && respacedB r r'
  | _, _ => false

theorem respacedB_sound : ∀ (a c : List (Bytes × Bytes)), respacedB a c = true → Respaced a c
  | [], [], _ => Respaced.nil
  | [], _ :: _, h => by simp [respacedB] at h
  | _ :: _, [], h => by simp [respacedB] at h
  | (g, u) :: r, (g', u') :: r', h => by
    simp only [respacedB, Bool.and_eq_true] at h
    obtain ⟨⟨⟨⟨⟨⟨h1, h2⟩, h3⟩, h4⟩, h5⟩, h6⟩, h7⟩ := h
    have hu : u = u' := by simpa using h4
    subst hu
    cases u with
    | nil => simp at h5
    | cons ch v =>
      refine Respaced.cons g g' ch v r r' ?_ ?_ ?_ ?_ (respacedB_sound r r' h7)
      · intro x hx; exact List.all_eq_true.mp h1 x hx
      · intro x hx; exact List.all_eq_true.mp h2 x hx
      · intro hg hg'
        subst hg'
        cases g with
        | nil => exact hg rfl
        | cons _ _ => simp at h3
      · simpa using h6

end Tw
