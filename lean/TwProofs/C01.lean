/-
  TwProofs.C01 — property theorems (see DESIGN.md, section 6).
-/
import TwModel
import TwSpec

namespace Tw.C01
open Tw

end Tw.C01
