/-
  TwProofs.C01 — expressions: typed arithmetic, and what the parse of an expression is.

  `TwSpec.seval` is a token-free denotational semantics (wrapping 64-bit integers, IEEE doubles,
  byte strings, same-typed operands only, no messages).  `eval_is_denotation`: the model's
  evaluator — the transcription of evaluator.go that the correspondence check ties to the real
  code — computes exactly these values and fails exactly where they do not exist.  The grouping
  of operators is decided by the parser: the facts about its precedence table are obligations in
  `TwProofs.Facts` (levels, precedences, the `parseExpression` call sites of F5); the theorems
  below state the parser's one-step behaviour the property names and, for identifiers, binary
  operators and parentheses, the full round trip `parse (print tree) = tree` (the right operand is parsed at
  the operator's own level, the ternary's else part at LOWEST, an assignment's value at LOWEST,
  the loop stops at a lower or equal level), and kernel-evaluated instances of whole renders.
-/
import TwModel
import TwSpec
import TwProofs.Lemmas.SpecSim
import TwProofs.Lemmas.PrattRoundTrip
import TwProofs.Lemmas.ParseEval
import TwProofs.Lemmas.PrattFull
import TwProofs.Lemmas.PrattFullEval
import TwProofs.Lemmas.LexWsTop
import TwProofs.Lemmas.PrattErase
import TwProofs.Lemmas.TextArith
import TwProofs.Lemmas.TextArith2
import TwProofs.Lemmas.TextArith3
import TwProofs.Lemmas.TextArith4
import TwProofs.Lemmas.TextTernary
import TwProofs.Lemmas.TextNeg
import TwProofs.Lemmas.TextMixed
import TwProofs.Lemmas.TextCmp
import TwProofs.Lemmas.TextTernary2
import TwProofs.Lemmas.TextParenInt
import TwProofs.Lemmas.TextAround
import TwProofs.Lemmas.TextVars

namespace Tw.C01
open Tw TwSpec

/-! ### typed arithmetic -/

/-- **the evaluator computes the denotational semantics** (any fuel, any environment, no custom
    functions in play): a value is the specified value, an error means there is none -/
theorem eval_is_denotation (fuel : Nat) (c : Ctx) (env : Env) (e : Expr) (hc : c.custom = []) (hw : Expr.wf e) :
    (∀ v, evalExpr fuel c env e = .ok v → seval env e.toS = some v) ∧
    (∀ code line args, evalExpr fuel c env e = .err code line args → seval env e.toS = none) := by
  have := (eval_sim fuel).1 c env e hc hw
  constructor
  · intro v h; rw [h] at this; exact this
  · intro code line args h; rw [h] at this; exact this

/-- integers wrap at 64 bits (`Int64` arithmetic), e.g. the largest integer plus one -/
theorem int_add_wraps (env : Env) (a c : Int64) :
    seval env (.bin (b "+") (.int a) (.int c)) = some (.int (a + c)) := by
  simp (config := { decide := true }) [seval, binOp, intOp]

example : (9223372036854775807 : Int64) + 1 = -9223372036854775808 := by decide

/-- integer division and modulo by zero have no value -/
theorem int_div_mod_zero (env : Env) (a : Int64) :
    seval env (.bin (b "/") (.int a) (.int 0)) = none ∧ seval env (.bin (b "%") (.int a) (.int 0)) = none := by
  constructor <;> simp (config := { decide := true }) [seval, binOp, intOp]

/-- operands of different types have no value, for every operator -/
theorem mixed_types_have_no_value (op : Bytes) (l r : Val) (h : l.type ≠ r.type) : binOp op l r = none := by
  cases l <;> cases r <;> simp_all [binOp, Val.type]

/-- an unknown identifier has no value -/
theorem unknown_identifier (env : Env) (n : Bytes) (h : env.get n = none) : seval env (.var n) = none := by
  simp [seval, h]

/-- an integer literal beyond 2^63 - 1 is rejected by the parser -/
theorem int_literal_out_of_range (lit : Bytes) (h : 9223372036854775807 < digitsToNat lit) : parseInt64 lit = none := by
  unfold parseInt64
  simp only []
  split
  · rfl
  · rw [if_neg (by omega)]

/-! ### what the parser does with operators (one-step facts about the model's Pratt loop) -/

/-- a binary operator's right operand is parsed at the operator's own precedence, so operators of
    equal precedence group to the left and a tighter one to the right binds first -/
theorem binary_right_operand_level (pe : Nat → PS → Expr × PS) (pl : TT → PS → List Expr × PS) (left : Expr) (p : PS)
    (hop : isBinaryOp p.cur.ty = true) (hnb : p.next.curIs .RBRACES = false) :
    infixBody pe pl left p = (.inf p.cur p.cur.lit left (pe p.curPrecedence p.next).1, (pe p.curPrecedence p.next).2) := by
  unfold infixBody
  rw [if_pos hop, if_neg (by rw [hnb]; simp)]

/-- the loop of `parseExpression` goes on only while the next operator binds tighter than the
    level it was called with: at a lower or equal level it hands the left operand back -/
theorem loop_stops_at_lower_or_equal (fuel prec : Nat) (left : Expr) (p : PS) (h : ¬ prec < p.peekPrecedence) :
    prattLoop (fuel + 1) prec left p = (left, p) := by
  rw [prattLoop]
  rw [if_pos (by simp [h])]

/-- the ternary: the then-part is parsed at the TERNARY level (a nested `?` does not continue
    it), the else-part at LOWEST (so a ternary nests to the right in its else part) -/
theorem ternary_levels (pe : Nat → PS → Expr × PS) (pl : TT → PS → List Expr × PS) (left : Expr) (p : PS)
    (hnb : isBinaryOp p.cur.ty = false) (hq : p.cur.ty = .QUESTION)
    (hcolon : ((pe TERNARY p.next).2.expectPeek .COLON).1 = true) :
    infixBody pe pl left p =
      (.tern p.cur left (pe TERNARY p.next).1 (pe LOWEST ((pe TERNARY p.next).2.expectPeek .COLON).2.next).1,
        (pe LOWEST ((pe TERNARY p.next).2.expectPeek .COLON).2.next).2) := by
  unfold infixBody
  rw [if_neg (by rw [hnb]; simp), if_pos (by rw [hq]; rfl), if_neg (by rw [hcolon]; simp)]

/-- the value of an assignment is a complete expression: it is parsed at LOWEST -/
theorem assignment_value_is_complete (pe : Nat → PS → Expr × PS) (p : PS)
    (h1 : p.next.curIs .RBRACES = false) (h2 : (p.next.cur.ty == .IDENT && p.next.peekIs .ASSIGN) = true)
    (h3 : (p.next.expectPeek .ASSIGN).2.next.curIs .RBRACES = false) :
    parseEmbeddedCode pe p =
      (.assign p.next.cur p.next.cur.lit (pe LOWEST (p.next.expectPeek .ASSIGN).2.next).1,
        (pe LOWEST (p.next.expectPeek .ASSIGN).2.next).2) := by
  unfold parseEmbeddedCode
  simp only []
  rw [if_neg (by rw [h1]; simp), if_pos h2, if_neg (by rw [h3]; simp)]

/-- redundant parentheses: a parenthesised expression is the expression itself (no node is
    made for the parentheses) -/
theorem parentheses_make_no_node (pe : Nat → PS → Expr × PS) (pl : TT → PS → List Expr × PS)
    (po : Token → List (Bytes × Expr) → PS → Expr × PS) (p : PS) (hlp : p.cur.ty = .LPAREN)
    (hclose : ((pe LOWEST p.next).2.expectPeek .RPAREN).1 = true) :
    prefixBody pe pl po p = some ((pe LOWEST p.next).1, ((pe LOWEST p.next).2.expectPeek .RPAREN).2) := by
  unfold prefixBody
  rw [hlp]
  simp only []
  rw [if_pos hclose]

/-! ### the Pratt parser inverts the printer (identifiers, prefix `-` `!`, binary operators, the ternary, parentheses) -/

/-- **round trip**: print a tree of identifiers, prefix operators, binary operators and ternaries
    with the parentheses the precedence order requires (ternary < equality < comparison <
    additive < multiplicative < prefix; equal levels group to the left; a ternary nests to the
    right in its else part and needs parentheses everywhere else) plus any redundant pairs; the model's `parseExpression(LOWEST)` returns exactly that tree from every parser
    state, with enough fuel, stops on the expression's last token and records no error -/
theorem parse_of_print (lp rp : Token) (hlp : lp.ty = .LPAREN) (hrp : rp.ty = .RPAREN) (extra : BE → Bool)
    (e : BE) (hok : e.ok) (k : List Token) (hk : NoIll k) (hstop : StopR LOWEST k) :
    ∃ N, ∀ f, N ≤ f → ∀ p : PS,
      parseExpression f LOWEST (p.withToks (showAt lp rp extra (LOWEST + 1) e ++ k)) =
        (e.toExpr, p.withToks (lastTok (showAt lp rp extra (LOWEST + 1) e) :: k)) :=
  parse_print lp rp hlp hrp extra e hok k hk hstop

/-- redundant parentheses never change the parse -/
theorem redundant_parentheses_do_not_matter (lp rp : Token) (hlp : lp.ty = .LPAREN) (hrp : rp.ty = .RPAREN)
    (extra1 extra2 : BE → Bool) (e : BE) (hok : e.ok) (k : List Token) (hk : NoIll k) (hstop : StopR LOWEST k) :
    ∃ N, ∀ f, N ≤ f → ∀ p : PS,
      (parseExpression f LOWEST (p.withToks (showAt lp rp extra1 (LOWEST + 1) e ++ k))).1 =
      (parseExpression f LOWEST (p.withToks (showAt lp rp extra2 (LOWEST + 1) e ++ k))).1 :=
  redundant_parentheses_irrelevant lp rp hlp hrp extra1 extra2 e hok k hk hstop

/-- **parser and evaluator composed**: the value the model computes for the printed tokens is the
    denotation `seval` of the tree that was printed (errors where there is none) -/
theorem parsed_tokens_evaluate_to_the_denotation (lp rp : Token) (hlp : lp.ty = .LPAREN) (hrp : rp.ty = .RPAREN)
    (extra : BE → Bool) (e : BE) (hok : e.ok) (hcanon : e.canon) (k : List Token) (hk : NoIll k) (hstop : StopR LOWEST k) :
    ∃ N, ∀ f, N ≤ f → ∀ p : PS, ∀ (fuel : Nat) (c : Ctx) (env : Env), c.custom = [] →
      Agrees (evalExpr fuel c env (parseExpression f LOWEST (p.withToks (showAt lp rp extra (LOWEST + 1) e ++ k))).1)
        (seval env e.toS) :=
  parse_then_eval_is_denotation lp rp hlp hrp extra e hok hcanon k hk hstop

/-- non-vacuity: `c ? a : d ? -b : e + f` is the right-nested ternary, printed without parentheses;
    a ternary as condition or as operand needs them -/
example :
    let t (ty : TT) (s : String) : Token := { ty := ty, lit := b s, pos := {} }
    let i (s : String) : BE := .ident (t .IDENT s)
    showAt (t .LPAREN "(") (t .RPAREN ")") (fun _ => false) (LOWEST + 1)
      (.tern (t .QUESTION "?") (t .COLON ":") (i "c") (i "a")
        (.tern (t .QUESTION "?") (t .COLON ":") (i "d") (.pre (t .SUB "-") (i "b")) (.bin (t .ADD "+") (i "e") (i "f")))) =
    [t .IDENT "c", t .QUESTION "?", t .IDENT "a", t .COLON ":", t .IDENT "d", t .QUESTION "?", t .SUB "-", t .IDENT "b",
     t .COLON ":", t .IDENT "e", t .ADD "+", t .IDENT "f"] := by decide

example :
    let t (ty : TT) (s : String) : Token := { ty := ty, lit := b s, pos := {} }
    let i (s : String) : BE := .ident (t .IDENT s)
    showAt (t .LPAREN "(") (t .RPAREN ")") (fun _ => false) (LOWEST + 1)
      (.bin (t .ADD "+") (.tern (t .QUESTION "?") (t .COLON ":") (i "c") (i "a") (i "d")) (i "x")) =
    [t .LPAREN "(", t .IDENT "c", t .QUESTION "?", t .IDENT "a", t .COLON ":", t .IDENT "d", t .RPAREN ")", t .ADD "+", t .IDENT "x"] := by
  decide

/-- non-vacuity: `a - b - c * d` is the left-nested tree, printed without parentheses -/
example :
    let t (ty : TT) (s : String) : Token := { ty := ty, lit := b s, pos := {} }
    showAt (t .LPAREN "(") (t .RPAREN ")") (fun _ => false) (LOWEST + 1)
      (.bin (t .SUB "-") (.bin (t .SUB "-") (.ident (t .IDENT "a")) (.ident (t .IDENT "b")))
        (.bin (t .MUL "*") (.ident (t .IDENT "c")) (.ident (t .IDENT "d")))) =
    [t .IDENT "a", t .SUB "-", t .IDENT "b", t .SUB "-", t .IDENT "c", t .MUL "*", t .IDENT "d"] := by decide

/-- … and `a - (b - c)` needs its parentheses -/
example :
    let t (ty : TT) (s : String) : Token := { ty := ty, lit := b s, pos := {} }
    showAt (t .LPAREN "(") (t .RPAREN ")") (fun _ => false) (LOWEST + 1)
      (.bin (t .SUB "-") (.ident (t .IDENT "a")) (.bin (t .SUB "-") (.ident (t .IDENT "b")) (.ident (t .IDENT "c")))) =
    [t .IDENT "a", t .SUB "-", t .LPAREN "(", t .IDENT "b", t .SUB "-", t .IDENT "c", t .RPAREN ")"] := by decide

/-! ### the round trip for the whole expression language -/

/-- **parse ∘ print = id on every expression**: literals, identifiers, prefix `-` `!`, binary
    operators, the ternary, postfix `++` `--`, `l[i]`, `l.name`, `l.name(args…)`, `[…]`, `{k: v, …}`
    and parentheses.  The printer `Full.showAt` decides parentheses from the precedence table alone
    (an operand is bare iff the loop of its position consumes every operator on its left spine and
    the loop still open at its right end stops at what follows), adds any redundant pairs `extra`
    asks for, and the model's `parseExpression(LOWEST)` returns exactly the printed tree from every
    parser state, stopping on the expression's last token and recording no error. -/
theorem parse_of_print_full (lp rp rbk rbr cm : Token) (hlp : lp.ty = .LPAREN) (hrp : rp.ty = .RPAREN)
    (hrbk : rbk.ty = .RBRACKET) (hrbr : rbr.ty = .RBRACE) (hcm : cm.ty = .COMMA) (extra : FE → Bool)
    (e : FE) (hok : e.ok) (k : List Token) (hk : NoIll k) (hstop : StopR LOWEST k) :
    ∃ N, ∀ f, N ≤ f → ∀ p : PS,
      parseExpression f LOWEST (p.withToks (Full.showAt lp rp rbk rbr cm extra (LOWEST + 1) e ++ k)) =
        (e.toExpr, p.withToks (lastTok (Full.showAt lp rp rbk rbr cm extra (LOWEST + 1) e) :: k)) :=
  Full.parse_print lp rp rbk rbr cm hlp hrp hrbk hrbr hcm extra e hok k hk hstop

/-- redundant parentheses never change the parse (whole language) -/
theorem redundant_parentheses_do_not_matter_full (lp rp rbk rbr cm : Token) (hlp : lp.ty = .LPAREN) (hrp : rp.ty = .RPAREN)
    (hrbk : rbk.ty = .RBRACKET) (hrbr : rbr.ty = .RBRACE) (hcm : cm.ty = .COMMA)
    (extra1 extra2 : FE → Bool) (e : FE) (hok : e.ok) (k : List Token) (hk : NoIll k) (hstop : StopR LOWEST k) :
    ∃ N, ∀ f, N ≤ f → ∀ p : PS,
      (parseExpression f LOWEST (p.withToks (Full.showAt lp rp rbk rbr cm extra1 (LOWEST + 1) e ++ k))).1 =
      (parseExpression f LOWEST (p.withToks (Full.showAt lp rp rbk rbr cm extra2 (LOWEST + 1) e ++ k))).1 :=
  Full.redundant_parentheses_irrelevant lp rp rbk rbr cm hlp hrp hrbk hrbr hcm extra1 extra2 e hok k hk hstop

/-- two trees with the same minimal printing are the same tree: the grammar is unambiguous on
    the printer's image -/
theorem printing_is_injective_full (lp rp rbk rbr cm : Token) (hlp : lp.ty = .LPAREN) (hrp : rp.ty = .RPAREN)
    (hrbk : rbk.ty = .RBRACKET) (hrbr : rbr.ty = .RBRACE) (hcm : cm.ty = .COMMA)
    (e1 e2 : FE) (h1 : e1.ok) (h2 : e2.ok) (k : List Token) (hk : NoIll k) (hstop : StopR LOWEST k)
    (heq : Full.showAt lp rp rbk rbr cm (fun _ => false) (LOWEST + 1) e1 = Full.showAt lp rp rbk rbr cm (fun _ => false) (LOWEST + 1) e2) :
    e1.toExpr = e2.toExpr :=
  Full.print_injective lp rp rbk rbr cm hlp hrp hrbk hrbr hcm e1 e2 h1 h2 k hk hstop heq

/-- **parser and evaluator composed, whole language**: the model evaluator's result on the parsed
    tokens is the denotation `seval` of the printed tree (an error where there is none) -/
theorem parsed_tokens_evaluate_to_the_denotation_full (lp rp rbk rbr cm : Token) (hlp : lp.ty = .LPAREN) (hrp : rp.ty = .RPAREN)
    (hrbk : rbk.ty = .RBRACKET) (hrbr : rbr.ty = .RBRACE) (hcm : cm.ty = .COMMA)
    (extra : FE → Bool) (e : FE) (hok : e.ok) (hcanon : e.canon) (k : List Token) (hk : NoIll k) (hstop : StopR LOWEST k) :
    ∃ N, ∀ f, N ≤ f → ∀ p : PS, ∀ (fuel : Nat) (c : Ctx) (env : Env), c.custom = [] →
      Agrees (evalExpr fuel c env
          (parseExpression f LOWEST (p.withToks (Full.showAt lp rp rbk rbr cm extra (LOWEST + 1) e ++ k))).1)
        (TwSpec.seval env e.toExpr.toS) :=
  Full.parse_then_eval_is_denotation lp rp rbk rbr cm hlp hrp hrbk hrbr hcm extra e hok hcanon k hk hstop

/-- the trees of the round trip are the ones `eval_is_denotation` speaks about -/
theorem printed_trees_are_wellformed (e : FE) (hok : e.ok) (hcanon : e.canon) : Expr.wf e.toExpr := full_wf e hok hcanon

section examples
private def tk (ty : TT) (s : String) : Token := { ty := ty, lit := b s, pos := {} }
private def idt (s : String) : FE := .atom (tk .IDENT s)
private def shw (e : FE) : List Token :=
  Full.showAt (tk .LPAREN "(") (tk .RPAREN ")") (tk .RBRACKET "]") (tk .RBRACE "}") (tk .COMMA ",") (fun _ => false) (LOWEST + 1) e

/-- non-vacuity: `a.b[0].c(1, x)[2]++` is printed without parentheses … -/
example :
    shw (.post (tk .INC "++") (.index (tk .LBRACKET "[")
      (.call (tk .DOT ".") (tk .IDENT "c") (.index (tk .LBRACKET "[") (.dot (tk .DOT ".") (tk .IDENT "b") (idt "a")) (.atom (tk .INT "0")))
        (.cons (.atom (tk .INT "1")) (.cons (idt "x") .nil))) (.atom (tk .INT "2")))) =
    [tk .IDENT "a", tk .DOT ".", tk .IDENT "b", tk .LBRACKET "[", tk .INT "0", tk .RBRACKET "]", tk .DOT ".", tk .IDENT "c",
     tk .LPAREN "(", tk .INT "1", tk .COMMA ",", tk .IDENT "x", tk .RPAREN ")", tk .LBRACKET "[", tk .INT "2", tk .RBRACKET "]", tk .INC "++"] := by
  decide
/-- … `-a.b` is the property of `-a`, `-(a.b)` needs its parentheses, `(-a)[0]` and `(a + b).c` too, `-a++` does not -/
example : shw (.dot (tk .DOT ".") (tk .IDENT "b") (.pre (tk .SUB "-") (idt "a"))) = [tk .SUB "-", tk .IDENT "a", tk .DOT ".", tk .IDENT "b"] := by
  decide
example : shw (.pre (tk .SUB "-") (.dot (tk .DOT ".") (tk .IDENT "b") (idt "a"))) =
    [tk .SUB "-", tk .LPAREN "(", tk .IDENT "a", tk .DOT ".", tk .IDENT "b", tk .RPAREN ")"] := by decide
example : shw (.index (tk .LBRACKET "[") (.pre (tk .SUB "-") (idt "a")) (.atom (tk .INT "0"))) =
    [tk .LPAREN "(", tk .SUB "-", tk .IDENT "a", tk .RPAREN ")", tk .LBRACKET "[", tk .INT "0", tk .RBRACKET "]"] := by decide
example : shw (.dot (tk .DOT ".") (tk .IDENT "c") (.bin (tk .ADD "+") (idt "a") (idt "b"))) =
    [tk .LPAREN "(", tk .IDENT "a", tk .ADD "+", tk .IDENT "b", tk .RPAREN ")", tk .DOT ".", tk .IDENT "c"] := by decide
example : shw (.pre (tk .SUB "-") (.post (tk .INC "++") (idt "a"))) = [tk .SUB "-", tk .IDENT "a", tk .INC "++"] := by decide
/-- an object literal with an array and a ternary inside -/
example :
    shw (.obj (tk .LBRACE "{") (.cons (tk .IDENT "k") (tk .COLON ":") (.arr (tk .LBRACKET "[") (.cons (idt "a") .nil))
      (.cons (tk .STR "s") (tk .COLON ":") (.tern (tk .QUESTION "?") (tk .COLON ":") (idt "c") (idt "x") (idt "y")) .nil))) =
    [tk .LBRACE "{", tk .IDENT "k", tk .COLON ":", tk .LBRACKET "[", tk .IDENT "a", tk .RBRACKET "]", tk .COMMA ",",
     tk .STR "s", tk .COLON ":", tk .IDENT "c", tk .QUESTION "?", tk .IDENT "x", tk .COLON ":", tk .IDENT "y", tk .RBRACE "}"] := by decide
end examples

/-! ### whitespace and newlines -/

/-- **what the lexer does next depends on the remaining bytes, the previous byte and the mode
    only** — never on the line, the column or what was consumed: from two states that agree on
    those it returns token lists with the same kinds and literals -/
theorem tokens_depend_on_the_remaining_input_only (fuel : Nat) (a c : Lx) (h : Sim a c) (ts : List Token) (sf : Lx)
    (hl : lexAll fuel a = some (ts, sf)) :
    ∃ ts' sf', lexAll fuel c = some (ts', sf') ∧ ts'.map key = ts.map key ∧ Sim sf sf' :=
  lexAll_sim fuel a c h ts sf hl

/-- **whitespace between the tokens of code is irrelevant** (any lexer state in code: inside
    `{{ }}`, inside the parentheses of a directive).  `a` lists the lexemes the lexer reads from `s`
    with the gaps in front of them (`Reads s a`: each `NextToken` consumes exactly the next lexeme);
    `c` lists the same lexemes with other gaps — spaces, tabs, newlines, carriage returns, none —
    where a gap that was not empty stays non-empty (`Respaced a c`).  Then from every state in the
    same mode the lexer returns tokens of the same kinds and literals for the second spacing, and
    goes on identically with the common `tail`. -/
theorem whitespace_between_tokens_never_changes_the_tokens (tail : Bytes) (a c : List (Bytes × Bytes)) (h : Respaced a c)
    (hne : a ≠ []) (s s' : Lx) (hm : mode s' = mode s) (hr : s.rest = src a tail) (hr' : s'.rest = src c tail)
    (hreads : Reads s a) (fuel : Nat) (ts : List Token) (sf : Lx) (hl : lexAll fuel s = some (ts, sf)) :
    ∃ ts' sf', lexAll fuel s' = some (ts', sf') ∧ ts'.map key = ts.map key ∧ Sim sf sf' :=
  whitespace_between_code_tokens tail a c h hne s s' hm hr hr' hreads fuel ts sf hl

/-- the same for whole templates that begin with "{{": the two templates have token lists of the
    same kinds and literals and leave the lexer in the same mode -/
theorem whitespace_in_braces_never_changes_the_tokens (tail : Bytes) (a c : List (Bytes × Bytes)) (h : Respaced a c) (hne : a ≠ [])
    (hcm : ¬ ((src a tail).headD 0 = 45 ∧ ((src a tail).drop 1).headD 0 = 45))
    (hreads : Reads (codeState (src a tail)) a) :
    ∃ r r', tokenize (123 :: 123 :: src a tail) = some r ∧ tokenize (123 :: 123 :: src c tail) = some r' ∧
      r'.toks.map key = r.toks.map key ∧ r'.insideCode = r.insideCode ∧ r'.panicked = r.panicked :=
  tokenize_respaced tail a c h hne hcm hreads

/-- **positions never change the value**: two well-formed trees whose (minimal) printings have the
    same token kinds and literals — which is what two sources that differ in whitespace and
    newlines only give, by the theorems above — have the same denotation `seval` -/
theorem token_positions_never_change_the_value (lp rp rbk rbr cm lp' rp' rbk' rbr' cm' : Token)
    (hlp : lp.ty = .LPAREN) (hrp : rp.ty = .RPAREN) (hrbk : rbk.ty = .RBRACKET) (hrbr : rbr.ty = .RBRACE) (hcm : cm.ty = .COMMA)
    (klp : key lp' = key lp) (krp : key rp' = key rp) (krbk : key rbk' = key rbk) (krbr : key rbr' = key rbr) (kcm : key cm' = key cm)
    (e1 e2 : FE) (h1 : e1.ok) (h2 : e2.ok)
    (heq : (Full.showAt lp rp rbk rbr cm (fun _ => false) (LOWEST + 1) e1).map key =
           (Full.showAt lp' rp' rbk' rbr' cm' (fun _ => false) (LOWEST + 1) e2).map key) (env : Env) :
    TwSpec.seval env e1.toExpr.toS = TwSpec.seval env e2.toExpr.toS := by
  rw [same_keys_same_denotation lp rp rbk rbr cm lp' rp' rbk' rbr' cm' hlp hrp hrbk hrbr hcm klp krp krbk krbr kcm e1 e2 h1 h2 heq]

section examples
private def it (g u : String) : Bytes × Bytes := (b g, b u)
private def tight : List (Bytes × Bytes) :=
  [it "" "1", it "" "+", it "" "2", it "" "*", it "" "x", it "" ".", it "" "y", it "" "<=", it "" "-", it "" "3.5", it "" "}}"]
private def spaced : List (Bytes × Bytes) :=
  [it " " "1", it " " "+", it "\n" "2", it "\t" "*", it " " "x", it "" ".", it "  " "y", it " " "<=", it " " "-", it "\r\n" "3.5", it " " "}}"]
/-- the hypotheses are met by "{{1+2*x.y<=-3.5}}!" and "{{ 1 +\n2\t* x.  y <= -\r\n3.5 }}!" -/
example : ∃ r r', tokenize (b "{{1+2*x.y<=-3.5}}!") = some r ∧ tokenize (b "{{ 1 +\n2\t* x.  y <= -\r\n3.5 }}!") = some r' ∧
    r'.toks.map key = r.toks.map key :=
  have ⟨r, r', h1, h2, h3, _, _⟩ := whitespace_in_braces_never_changes_the_tokens (b "!") tight spaced
    (respacedB_sound _ _ (by decide)) (by decide) (by decide) (by decide)
  ⟨r, r', h1, h2, h3⟩
/-- a gap may not vanish between two lexemes that would merge: "a b" and "ab" -/
example : respacedB [it " " "a", it " " "b"] [it " " "a", it "" "b"] = false := by decide
end examples

/-! ### whole renders, evaluated in the kernel (tests of the composed pipeline, labelled as such) -/

def renders (src : String) (data : List (Bytes × GoVal)) (expect : String) : Bool :=
  match evaluateStringPure [] (b src) data with
  | .ok out => out == b expect
  | _ => false

def failsWith (src : String) (data : List (Bytes × GoVal)) (code : String) (args : List Bytes) : Bool :=
  match evaluateStringPure [] (b src) data with
  | .fail f => f.msg == formatMsg code args
  | _ => false

example : renders "{{ 1 + 2 * 3 }}|{{ 7 / 2 * 3 }}|{{ 10 - 4 - 3 }}|{{ (1 + 2) * 3 }}|{{ ((1)) + (((2))) }}" [] "7|9|3|9|3" = true := by
  decide +kernel
example : renders "{{ 3 == 1 + 2 }}|{{ 1 + 1 < 3 }}|{{ -2 * 3 }}|{{ true ? 1 : false ? 2 : 3 }}|{{ false ? 1 : false ? 2 : 3 }}" []
    "1|1|-6|1|3" = true := by decide +kernel
example : renders "{{ x = 1 + 2 * 3 }}{{ x }}|{{\n1\n+\n2\n}}" [] "7|3" = true := by decide +kernel
example : renders "{{ 9223372036854775807 + 1 }}" [] "-9223372036854775808" = true := by decide +kernel
example : failsWith "{{ 1 + \"a\" }}" [] "ErrTypeMismatch" [b "INTEGER", b "+", b "STRING"] = true := by decide +kernel
example : failsWith "{{ 9223372036854775808 }}" [] "ErrCouldNotParseAs" [b "9223372036854775808", b "INT"] = true := by
  decide +kernel

/-! ### integer literals and the operators of the product level, from the source bytes -/

/-- **an integer literal is decimal, from the source bytes on**: `{{ d }}` for a string of decimal digits
    `d` that fits in an int64 — leading zeros or not, any white space inside the braces — renders the
    number with that decimal value (`010` is ten, not eight).  Lexer (`code_int_step`: the digits are one
    INT token), parser (`parseInt64_digits`) and evaluator composed. -/
theorem int_literal_prints_from_source (custom : List ((VType × Bytes) × Nat)) (data : List (Bytes × GoVal)) (env : Env)
    (h : envFromMap data = .ok env) (d : Bytes) (hd : isDigits d) (hb : digitsToNat d < 2 ^ 63)
    (g1 g2 : Bytes) (hg1 : allWs g1) (hg2 : allWs g2) :
    evaluateStringPure custom (intSrc g1 d g2) data = .ok (int64ToBytes (Int64.ofNat (digitsToNat d))) := by
  obtain ⟨prog, t2, hp, hs⟩ := parse_int_source g1 d g2 hg1 hg2 hd (by omega)
  unfold evaluateStringPure envOrFail
  rw [hp]
  simp only [h, hs]
  rw [show evalFuel = (evalFuel - 4) + 1 + 1 + 1 + 1 from by decide, evalProg_cons, evalStmt_succ]
  simp only [stmtBody, calleesAt_expr]
  simp only [evalExpr, Res.bind_ok]
  rw [evalProg_nil]
  simp [resToOut, Val.toStr]

/-- **`*`, `/` and `%` between two integer literals, from the source bytes on**: `{{ a op b }}` — any white
    space around the numbers and the operator — renders what `intInfix` (Go's int64 arithmetic: wrap-around
    product, truncated quotient, remainder with the sign of the dividend) answers on the two decimal
    values. -/
theorem int_product_level_prints_from_source (custom : List ((VType × Bytes) × Nat)) (data : List (Bytes × GoVal)) (env : Env)
    (h : envFromMap data = .ok env) (a b' : Bytes) (ha : isDigits a) (hbd : isDigits b') (hba : digitsToNat a < 2 ^ 63)
    (hbb : digitsToNat b' < 2 ^ 63) (c : Byte) (ty : TT) (hop : ProdOp c ty)
    (g1 g2 g3 g4 : Bytes) (hg1 : allWs g1) (hg2 : allWs g2) (hg3 : allWs g3) (hg4 : allWs g4) (v : Val)
    (hv : ∀ line, intInfix [c] (Int64.ofNat (digitsToNat a)) (Int64.ofNat (digitsToNat b')) line = .ok v) :
    evaluateStringPure custom (arithSrc g1 a g3 c g4 b' g2) data = .ok v.toStr := by
  obtain ⟨prog, t2, t3, t4, hp, hs⟩ := parse_arith_source g1 a g3 c ty g4 b' g2 hg1 hg2 hg3 hg4 ha hbd hop (by omega) (by omega)
  unfold evaluateStringPure envOrFail
  rw [hp]
  simp only [h, hs]
  rw [show evalFuel = (evalFuel - 6) + 1 + 1 + 1 + 1 + 1 + 1 from by decide, evalProg_cons, evalStmt_succ]
  simp only [stmtBody, calleesAt_expr]
  simp only [evalExpr, infixOp, Val.type, hv, show (VType.INTEGER != VType.INTEGER) = false from by decide, Bool.false_eq_true, if_false, Res.bind_ok]
  rw [evalProg_nil]
  simp [resToOut]

/-- the product of two integer literals is Go's int64 product -/
theorem int_product_prints_from_source (custom : List ((VType × Bytes) × Nat)) (data : List (Bytes × GoVal)) (env : Env)
    (h : envFromMap data = .ok env) (a b' : Bytes) (ha : isDigits a) (hbd : isDigits b') (hba : digitsToNat a < 2 ^ 63)
    (hbb : digitsToNat b' < 2 ^ 63) (g1 g2 g3 g4 : Bytes) (hg1 : allWs g1) (hg2 : allWs g2) (hg3 : allWs g3) (hg4 : allWs g4) :
    evaluateStringPure custom (arithSrc g1 a g3 42 g4 b' g2) data =
      .ok (int64ToBytes (Int64.ofNat (digitsToNat a) * Int64.ofNat (digitsToNat b'))) := by
  have := int_product_level_prints_from_source custom data env h a b' ha hbd hba hbb 42 .MUL (Or.inl ⟨rfl, rfl⟩) g1 g2 g3 g4 hg1 hg2 hg3 hg4
    (.int (Int64.ofNat (digitsToNat a) * Int64.ofNat (digitsToNat b'))) (fun _ => by rfl)
  simpa [Val.toStr] using this

/-- **all five arithmetic operators between two integer literals, from the source bytes on**: `{{ a op b }}`
    for `+`, `-` (not doubled), `*`, `/`, `%` — any white space around the numbers and the operator —
    renders what `intInfix` answers on the two decimal values. -/
theorem int_arithmetic_prints_from_source (custom : List ((VType × Bytes) × Nat)) (data : List (Bytes × GoVal)) (env : Env)
    (h : envFromMap data = .ok env) (a b' : Bytes) (ha : isDigits a) (hbd : isDigits b') (hba : digitsToNat a < 2 ^ 63)
    (hbb : digitsToNat b' < 2 ^ 63) (c : Byte) (ty : TT) (pr : Nat) (hop : ArithOp c ty pr)
    (g1 g2 g3 g4 : Bytes) (hg1 : allWs g1) (hg2 : allWs g2) (hg3 : allWs g3) (hg4 : allWs g4) (v : Val)
    (hv : ∀ line, intInfix [c] (Int64.ofNat (digitsToNat a)) (Int64.ofNat (digitsToNat b')) line = .ok v) :
    evaluateStringPure custom (arithSrc g1 a g3 c g4 b' g2) data = .ok v.toStr := by
  obtain ⟨prog, t2, t3, t4, hp, hs⟩ := parse_arith2_source g1 a g3 c ty g4 b' g2 hg1 hg2 hg3 hg4 ha hbd pr hop (by omega) (by omega)
  unfold evaluateStringPure envOrFail
  rw [hp]
  simp only [h, hs]
  rw [show evalFuel = (evalFuel - 6) + 1 + 1 + 1 + 1 + 1 + 1 from by decide, evalProg_cons, evalStmt_succ]
  simp only [stmtBody, calleesAt_expr]
  simp only [evalExpr, infixOp, Val.type, hv, show (VType.INTEGER != VType.INTEGER) = false from by decide, Bool.false_eq_true, if_false, Res.bind_ok]
  rw [evalProg_nil]
  simp [resToOut]

/-- the sum and the difference of two integer literals are Go's int64 sum and difference (wrap-around) -/
theorem int_sum_prints_from_source (custom : List ((VType × Bytes) × Nat)) (data : List (Bytes × GoVal)) (env : Env)
    (h : envFromMap data = .ok env) (a b' : Bytes) (ha : isDigits a) (hbd : isDigits b') (hba : digitsToNat a < 2 ^ 63)
    (hbb : digitsToNat b' < 2 ^ 63) (g1 g2 g3 g4 : Bytes) (hg1 : allWs g1) (hg2 : allWs g2) (hg3 : allWs g3) (hg4 : allWs g4) :
    evaluateStringPure custom (arithSrc g1 a g3 43 g4 b' g2) data =
      .ok (int64ToBytes (Int64.ofNat (digitsToNat a) + Int64.ofNat (digitsToNat b'))) := by
  have := int_arithmetic_prints_from_source custom data env h a b' ha hbd hba hbb 43 .ADD SUM (Or.inr ⟨Or.inl ⟨rfl, rfl⟩, rfl⟩)
    g1 g2 g3 g4 hg1 hg2 hg3 hg4 (.int (Int64.ofNat (digitsToNat a) + Int64.ofNat (digitsToNat b'))) (fun _ => by rfl)
  simpa [Val.toStr] using this

theorem int_difference_prints_from_source (custom : List ((VType × Bytes) × Nat)) (data : List (Bytes × GoVal)) (env : Env)
    (h : envFromMap data = .ok env) (a b' : Bytes) (ha : isDigits a) (hbd : isDigits b') (hba : digitsToNat a < 2 ^ 63)
    (hbb : digitsToNat b' < 2 ^ 63) (g1 g2 g3 g4 : Bytes) (hg1 : allWs g1) (hg2 : allWs g2) (hg3 : allWs g3) (hg4 : allWs g4) :
    evaluateStringPure custom (arithSrc g1 a g3 45 g4 b' g2) data =
      .ok (int64ToBytes (Int64.ofNat (digitsToNat a) - Int64.ofNat (digitsToNat b'))) := by
  have := int_arithmetic_prints_from_source custom data env h a b' ha hbd hba hbb 45 .SUB SUM (Or.inr ⟨Or.inr ⟨rfl, rfl⟩, rfl⟩)
    g1 g2 g3 g4 hg1 hg2 hg3 hg4 (.int (Int64.ofNat (digitsToNat a) - Int64.ofNat (digitsToNat b'))) (fun _ => by rfl)
  simpa [Val.toStr] using this

example : evaluateStringPure [] (b "{{ 3-5 }}") [] = .ok (b "-2") := by
  have := int_difference_prints_from_source [] [] [[]] (by rfl) (b "3") (b "5") (by decide) (by decide) (by decide) (by decide)
    [32] [32] [] [] (by decide) (by decide) (by decide) (by decide)
  have hs : arithSrc [32] (b "3") [] 45 [] (b "5") [32] = b "{{ 3-5 }}" := by decide
  rw [hs] at this
  rw [this]; rfl

/-- **two operators group by binding power, from the source bytes on (the tighter second operator)**:
    in `{{ a op1 b op2 d }}` — three integer literals, two of the five arithmetic operators, any white
    space — a second operator that binds tighter than the first takes `b`: the render is
    `a op1 (b op2 d)`. -/
theorem tighter_second_operator_takes_the_middle_from_source (custom : List ((VType × Bytes) × Nat)) (data : List (Bytes × GoVal)) (env : Env)
    (h : envFromMap data = .ok env) (a b' d : Bytes) (ha : isDigits a) (hbd : isDigits b') (hdd : isDigits d)
    (hba : digitsToNat a < 2 ^ 63) (hbb : digitsToNat b' < 2 ^ 63) (hbd' : digitsToNat d < 2 ^ 63)
    (c1 : Byte) (ty1 : TT) (pr1 : Nat) (c2 : Byte) (ty2 : TT) (pr2 : Nat) (hop1 : ArithOp c1 ty1 pr1) (hop2 : ArithOp c2 ty2 pr2)
    (hlt : pr1 < pr2)
    (g1 g2 g3 g4 g5 g6 : Bytes) (hg1 : allWs g1) (hg2 : allWs g2) (hg3 : allWs g3) (hg4 : allWs g4) (hg5 : allWs g5) (hg6 : allWs g6)
    (y : Int64) (v : Val)
    (h1 : ∀ line, intInfix [c2] (Int64.ofNat (digitsToNat b')) (Int64.ofNat (digitsToNat d)) line = .ok (.int y))
    (h2 : ∀ line, intInfix [c1] (Int64.ofNat (digitsToNat a)) y line = .ok v) :
    evaluateStringPure custom (arith3Src g1 a g3 c1 g4 b' g5 c2 g6 d g2) data = .ok v.toStr := by
  obtain ⟨prog, t2, t3, t4, t5, t6, hp, l3, l5, hs⟩ := parse_arith3_source g1 a g3 c1 ty1 pr1 g4 b' g5 c2 ty2 pr2 g6 d g2 hg1 hg2 hg3 hg4 hg5 hg6
    ha hbd hdd hop1 hop2 (by omega) (by omega) (by omega)
  unfold evaluateStringPure envOrFail
  rw [hp]
  simp only [h, hs, arith3Tree, hlt, if_true, l3, l5]
  rw [show evalFuel = (evalFuel - 6) + 1 + 1 + 1 + 1 + 1 + 1 from by decide, evalProg_cons, evalStmt_succ]
  simp only [stmtBody, calleesAt_expr]
  simp only [evalExpr, infixOp, Val.type, h1, h2, show (VType.INTEGER != VType.INTEGER) = false from by decide, Bool.false_eq_true, if_false, Res.bind_ok]
  rw [evalProg_nil]
  simp [resToOut]

/-- **… and otherwise to the left**: a second operator that binds no tighter than the first (the same
    level, or a lower one) applies to the result of the first: the render is `(a op1 b) op2 d`. -/
theorem operators_of_one_level_group_to_the_left_from_source (custom : List ((VType × Bytes) × Nat)) (data : List (Bytes × GoVal)) (env : Env)
    (h : envFromMap data = .ok env) (a b' d : Bytes) (ha : isDigits a) (hbd : isDigits b') (hdd : isDigits d)
    (hba : digitsToNat a < 2 ^ 63) (hbb : digitsToNat b' < 2 ^ 63) (hbd' : digitsToNat d < 2 ^ 63)
    (c1 : Byte) (ty1 : TT) (pr1 : Nat) (c2 : Byte) (ty2 : TT) (pr2 : Nat) (hop1 : ArithOp c1 ty1 pr1) (hop2 : ArithOp c2 ty2 pr2)
    (hge : ¬ pr1 < pr2)
    (g1 g2 g3 g4 g5 g6 : Bytes) (hg1 : allWs g1) (hg2 : allWs g2) (hg3 : allWs g3) (hg4 : allWs g4) (hg5 : allWs g5) (hg6 : allWs g6)
    (x : Int64) (v : Val)
    (h1 : ∀ line, intInfix [c1] (Int64.ofNat (digitsToNat a)) (Int64.ofNat (digitsToNat b')) line = .ok (.int x))
    (h2 : ∀ line, intInfix [c2] x (Int64.ofNat (digitsToNat d)) line = .ok v) :
    evaluateStringPure custom (arith3Src g1 a g3 c1 g4 b' g5 c2 g6 d g2) data = .ok v.toStr := by
  obtain ⟨prog, t2, t3, t4, t5, t6, hp, l3, l5, hs⟩ := parse_arith3_source g1 a g3 c1 ty1 pr1 g4 b' g5 c2 ty2 pr2 g6 d g2 hg1 hg2 hg3 hg4 hg5 hg6
    ha hbd hdd hop1 hop2 (by omega) (by omega) (by omega)
  unfold evaluateStringPure envOrFail
  rw [hp]
  simp only [h, hs, arith3Tree, hge, if_false, l3, l5]
  rw [show evalFuel = (evalFuel - 6) + 1 + 1 + 1 + 1 + 1 + 1 from by decide, evalProg_cons, evalStmt_succ]
  simp only [stmtBody, calleesAt_expr]
  simp only [evalExpr, infixOp, Val.type, h1, h2, show (VType.INTEGER != VType.INTEGER) = false from by decide, Bool.false_eq_true, if_false, Res.bind_ok]
  rw [evalProg_nil]
  simp [resToOut]

example : evaluateStringPure [] (b "{{ 2 + 3 * 4 }}") [] = .ok (b "14") := by
  have := tighter_second_operator_takes_the_middle_from_source [] [] [[]] (by rfl) (b "2") (b "3") (b "4") (by decide) (by decide) (by decide)
    (by decide) (by decide) (by decide) 43 .ADD SUM 42 .MUL PRODUCT (Or.inr ⟨Or.inl ⟨rfl, rfl⟩, rfl⟩) (Or.inl ⟨Or.inl ⟨rfl, rfl⟩, rfl⟩) (by decide)
    [32] [32] [32] [32] [32] [32] (by decide) (by decide) (by decide) (by decide) (by decide) (by decide) 12 (.int 14) (fun _ => by rfl) (fun _ => by rfl)
  have hs : arith3Src [32] (b "2") [32] 43 [32] (b "3") [32] 42 [32] (b "4") [32] = b "{{ 2 + 3 * 4 }}" := by decide
  rw [hs] at this
  rw [this]; rfl

example : evaluateStringPure [] (b "{{ 10 - 4 - 3 }}") [] = .ok (b "3") := by
  have := operators_of_one_level_group_to_the_left_from_source [] [] [[]] (by rfl) (b "10") (b "4") (b "3") (by decide) (by decide) (by decide)
    (by decide) (by decide) (by decide) 45 .SUB SUM 45 .SUB SUM (Or.inr ⟨Or.inr ⟨rfl, rfl⟩, rfl⟩) (Or.inr ⟨Or.inr ⟨rfl, rfl⟩, rfl⟩) (by decide)
    [32] [32] [32] [32] [32] [32] (by decide) (by decide) (by decide) (by decide) (by decide) (by decide) 6 (.int 3) (fun _ => by rfl) (fun _ => by rfl)
  have hs : arith3Src [32] (b "10") [32] 45 [32] (b "4") [32] 45 [32] (b "3") [32] = b "{{ 10 - 4 - 3 }}" := by decide
  rw [hs] at this
  rw [this]; rfl

/-- **parentheses override the binding powers, from the source bytes on**: `{{ a op1 ( b op2 d ) }}` —
    three integer literals, any two of the five arithmetic operators, any white space around every token —
    renders `a op1 (b op2 d)`, whatever the two binding powers are (`10 - (4 - 3)` is nine,
    `2 * (3 + 4)` is fourteen). -/
theorem parentheses_override_binding_power_from_source (custom : List ((VType × Bytes) × Nat)) (data : List (Bytes × GoVal)) (env : Env)
    (h : envFromMap data = .ok env) (a b' d : Bytes) (ha : isDigits a) (hbd : isDigits b') (hdd : isDigits d)
    (hba : digitsToNat a < 2 ^ 63) (hbb : digitsToNat b' < 2 ^ 63) (hbd' : digitsToNat d < 2 ^ 63)
    (c1 : Byte) (ty1 : TT) (pr1 : Nat) (c2 : Byte) (ty2 : TT) (pr2 : Nat) (hop1 : ArithOp c1 ty1 pr1) (hop2 : ArithOp c2 ty2 pr2)
    (g1 g2 g3 g4 g5 g6 g7 g8 : Bytes) (hg1 : allWs g1) (hg2 : allWs g2) (hg3 : allWs g3) (hg4 : allWs g4) (hg5 : allWs g5) (hg6 : allWs g6)
    (hg7 : allWs g7) (hg8 : allWs g8) (y : Int64) (v : Val)
    (h1 : ∀ line, intInfix [c2] (Int64.ofNat (digitsToNat b')) (Int64.ofNat (digitsToNat d)) line = .ok (.int y))
    (h2 : ∀ line, intInfix [c1] (Int64.ofNat (digitsToNat a)) y line = .ok v) :
    evaluateStringPure custom (parenSrc g1 a g3 c1 g4 g5 b' g6 c2 g7 d g8 g2) data = .ok v.toStr := by
  obtain ⟨prog, t2, t3, t5, t6, t7, t8, hp, hs⟩ := parse_paren_source g1 a g3 c1 ty1 pr1 g4 g5 b' g6 c2 ty2 pr2 g7 d g8 g2
    hg1 hg2 hg3 hg4 hg5 hg6 hg7 hg8 ha hbd hdd hop1 hop2 (by omega) (by omega) (by omega)
  unfold evaluateStringPure envOrFail
  rw [hp]
  simp only [h, hs]
  rw [show evalFuel = (evalFuel - 6) + 1 + 1 + 1 + 1 + 1 + 1 from by decide, evalProg_cons, evalStmt_succ]
  simp only [stmtBody, calleesAt_expr]
  simp only [evalExpr, infixOp, Val.type, h1, h2, show (VType.INTEGER != VType.INTEGER) = false from by decide, Bool.false_eq_true, if_false, Res.bind_ok]
  rw [evalProg_nil]
  simp [resToOut]

example : evaluateStringPure [] (b "{{ 10 - (4 - 3) }}") [] = .ok (b "9") := by
  have := parentheses_override_binding_power_from_source [] [] [[]] (by rfl) (b "10") (b "4") (b "3") (by decide) (by decide) (by decide)
    (by decide) (by decide) (by decide) 45 .SUB SUM 45 .SUB SUM (Or.inr ⟨Or.inr ⟨rfl, rfl⟩, rfl⟩) (Or.inr ⟨Or.inr ⟨rfl, rfl⟩, rfl⟩)
    [32] [32] [32] [32] [] [32] [32] [] (by decide) (by decide) (by decide) (by decide) (by decide) (by decide) (by decide) (by decide)
    1 (.int 9) (fun _ => by rfl) (fun _ => by rfl)
  have hs : parenSrc [32] (b "10") [32] 45 [32] [] (b "4") [32] 45 [32] (b "3") [] [32] = b "{{ 10 - (4 - 3) }}" := by decide
  rw [hs] at this
  rw [this]; rfl

/-- **the ternary selects by the truthiness of its condition, from the source bytes on**: `{{ k ? a : b }}` —
    a name bound in the data, two integer literals, any white space around every token — renders `a`
    when the value of `k` is truthy and `b` when it is not; the other branch is not evaluated. -/
theorem ternary_selects_from_source (custom : List ((VType × Bytes) × Nat)) (data : List (Bytes × GoVal)) (env : Env)
    (h : envFromMap data = .ok env) (k : Bytes) (hk : isName k) (v : Val) (hget : env.get k = some v)
    (a b' : Bytes) (ha : isDigits a) (hbd : isDigits b') (hba : digitsToNat a < 2 ^ 63) (hbb : digitsToNat b' < 2 ^ 63)
    (g1 g2 g3 g4 g5 g6 : Bytes) (hg1 : allWs g1) (hg2 : allWs g2) (hg3 : allWs g3) (hg4 : allWs g4) (hg5 : allWs g5) (hg6 : allWs g6) :
    evaluateStringPure custom (ternSrc g1 k g3 g4 a g5 g6 b' g2) data =
      .ok (int64ToBytes (Int64.ofNat (digitsToNat (if isTruthy v then a else b')))) := by
  obtain ⟨prog, t2, t3, t4, t6, hp, hs⟩ := parse_tern_source g1 k g3 g4 a g5 g6 b' g2 hg1 hg2 hg3 hg4 hg5 hg6 hk ha hbd (by omega) (by omega)
  unfold evaluateStringPure envOrFail
  rw [hp]
  simp only [h, hs]
  rw [show evalFuel = (evalFuel - 6) + 1 + 1 + 1 + 1 + 1 + 1 from by decide, evalProg_cons, evalStmt_succ]
  simp only [stmtBody, calleesAt_expr]
  simp only [evalExpr, hget]
  cases ht : isTruthy v
  · simp only [Bool.false_eq_true, if_false, Res.bind_ok]
    rw [evalProg_nil]
    simp [resToOut, Val.toStr]
  · simp only [if_true, Res.bind_ok]
    rw [evalProg_nil]
    simp [resToOut, Val.toStr]

example : evaluateStringPure [] (b "{{ ok ? 1 : 2 }}") [(b "ok", .str [])] = .ok (b "2") := by
  have := ternary_selects_from_source [] [(b "ok", .str [])] [[(b "ok", .str [])]] (by rfl) (b "ok") (by decide) (.str []) (by rfl)
    (b "1") (b "2") (by decide) (by decide) (by decide) (by decide) [32] [32] [32] [32] [32] [32]
    (by decide) (by decide) (by decide) (by decide) (by decide) (by decide)
  have hs : ternSrc [32] (b "ok") [32] [32] (b "1") [32] [32] (b "2") [32] = b "{{ ok ? 1 : 2 }}" := by decide
  rw [hs] at this
  rw [this]; rfl

/-- **the prefix minus negates an integer literal, from the source bytes on**: `{{ -d }}` (white space after
    the braces — `{{--` opens a comment —, any white space between the sign and the number) renders Go's
    int64 negation of the decimal value. -/
theorem negated_literal_prints_from_source (custom : List ((VType × Bytes) × Nat)) (data : List (Bytes × GoVal)) (env : Env)
    (h : envFromMap data = .ok env) (d : Bytes) (hd : isDigits d) (hb : digitsToNat d < 2 ^ 63)
    (w : Byte) (hw : isWs w = true) (g1 g2 g3 : Bytes) (hg1 : allWs g1) (hg2 : allWs g2) (hg3 : allWs g3) :
    evaluateStringPure custom (negSrc w g1 g3 d g2) data = .ok (int64ToBytes (-(Int64.ofNat (digitsToNat d)))) := by
  obtain ⟨prog, t2, t3, hp, hs⟩ := parse_neg_source w g1 g3 d g2 hw hg1 hg2 hg3 hd (by omega)
  unfold evaluateStringPure envOrFail
  rw [hp]
  simp only [h, hs]
  rw [show evalFuel = (evalFuel - 6) + 1 + 1 + 1 + 1 + 1 + 1 from by decide, evalProg_cons, evalStmt_succ]
  simp only [stmtBody, calleesAt_expr]
  simp only [evalExpr, prefixOp, show (([45] : Bytes) == b "-") = true from by decide, if_true, Res.bind_ok]
  rw [evalProg_nil]
  simp [resToOut, Val.toStr]

example : evaluateStringPure [] (b "{{ -7 }}") [] = .ok (b "-7") := by
  have := negated_literal_prints_from_source [] [] [[]] (by rfl) (b "7") (by decide) (by decide) 32 (by decide) [] [32] [] (by decide) (by decide) (by decide)
  have hs : negSrc 32 [] [] (b "7") [32] = b "{{ -7 }}" := by decide
  rw [hs] at this
  rw [this]; rfl

/-- **integer division and modulo by zero fail, from the source bytes on**: `{{ a / z }}` and `{{ a % z }}`
    with a literal `z` of value zero (`0`, `00`, …) — any white space — do not render: the result is the
    division-by-zero error. -/
theorem division_by_zero_fails_from_source (custom : List ((VType × Bytes) × Nat)) (data : List (Bytes × GoVal)) (env : Env)
    (h : envFromMap data = .ok env) (a z : Bytes) (ha : isDigits a) (hz : isDigits z) (hba : digitsToNat a < 2 ^ 63)
    (hzero : digitsToNat z = 0) (c : Byte) (ty : TT) (hc : (c = 47 ∧ ty = .DIV) ∨ (c = 37 ∧ ty = .MOD))
    (g1 g2 g3 g4 : Bytes) (hg1 : allWs g1) (hg2 : allWs g2) (hg3 : allWs g3) (hg4 : allWs g4) :
    ∃ line, evaluateStringPure custom (arithSrc g1 a g3 c g4 z g2) data = .fail (failOf "ErrDivisionByZero" line [] []) := by
  have hop : ArithOp c ty PRODUCT := by
    rcases hc with ⟨rfl, rfl⟩ | ⟨rfl, rfl⟩
    · exact Or.inl ⟨Or.inr (Or.inl ⟨rfl, rfl⟩), rfl⟩
    · exact Or.inl ⟨Or.inr (Or.inr ⟨rfl, rfl⟩), rfl⟩
  obtain ⟨prog, t2, t3, t4, hp, hs⟩ := parse_arith2_source g1 a g3 c ty g4 z g2 hg1 hg2 hg3 hg4 ha hz PRODUCT hop (by omega) (by omega)
  refine ⟨(Expr.int t2 (Int64.ofNat (digitsToNat a))).line, ?_⟩
  have hi : ∀ line, intInfix [c] (Int64.ofNat (digitsToNat a)) (Int64.ofNat (digitsToNat z)) line = .err "ErrDivisionByZero" line [] := by
    intro line
    rw [hzero]
    rcases hc with ⟨rfl, _⟩ | ⟨rfl, _⟩ <;> rfl
  unfold evaluateStringPure envOrFail
  rw [hp]
  simp only [h, hs]
  rw [show evalFuel = (evalFuel - 6) + 1 + 1 + 1 + 1 + 1 + 1 from by decide, evalProg_cons, evalStmt_succ]
  simp only [stmtBody, calleesAt_expr]
  simp only [evalExpr, infixOp, Val.type, hi, show (VType.INTEGER != VType.INTEGER) = false from by decide, Bool.false_eq_true, if_false]
  simp [Res.bind, resToOut]

example : ∃ line, evaluateStringPure [] (b "{{ 7 % 0 }}") [] = .fail (failOf "ErrDivisionByZero" line [] []) := by
  have := division_by_zero_fails_from_source [] [] [[]] (by rfl) (b "7") (b "0") (by decide) (by decide) (by decide) (by decide) 37 .MOD
    (Or.inr ⟨rfl, rfl⟩) [32] [32] [32] [32] (by decide) (by decide) (by decide) (by decide)
  have hs : arithSrc [32] (b "7") [32] 37 [32] (b "0") [32] = b "{{ 7 % 0 }}" := by decide
  rw [hs] at this
  exact this

/-- **mixed operand types fail, from the source bytes on**: `{{ d + "text" }}` — an integer literal and a
    string literal, either quote, any white space — does not render: the result is the type-mismatch error
    that names `INTEGER`, the operator and `STRING`. -/
theorem mixed_operands_fail_from_source (custom : List ((VType × Bytes) × Nat)) (data : List (Bytes × GoVal)) (env : Env)
    (h : envFromMap data = .ok env) (d : Bytes) (hd : isDigits d) (hb : digitsToNat d < 2 ^ 63) (q : Byte) (hq : q = 34 ∨ q = 39)
    (c : Bytes) (hp : PlainStr q c) (g1 g2 g3 g4 : Bytes) (hg1 : allWs g1) (hg2 : allWs g2) (hg3 : allWs g3) (hg4 : allWs g4) :
    ∃ line, evaluateStringPure custom (mixedSrc g1 d g3 g4 q c g2) data =
      .fail (failOf "ErrTypeMismatch" line [b "INTEGER", [43], b "STRING"] []) := by
  obtain ⟨prog, t2, t3, t4, hpp, hs⟩ := parse_mixed_source g1 d g3 g4 q c g2 hg1 hg2 hg3 hg4 hd hq hp (by omega)
  refine ⟨(Expr.int t2 (Int64.ofNat (digitsToNat d))).line, ?_⟩
  unfold evaluateStringPure envOrFail
  rw [hpp]
  simp only [h, hs]
  rw [show evalFuel = (evalFuel - 6) + 1 + 1 + 1 + 1 + 1 + 1 from by decide, evalProg_cons, evalStmt_succ]
  simp only [stmtBody, calleesAt_expr]
  simp only [evalExpr, infixOp, Val.type, show (VType.INTEGER != VType.STRING) = true from by decide, if_true]
  simp [Res.bind, resToOut, Val.typeName, Val.type, VType.name]

example : ∃ line, evaluateStringPure [] (b "{{ 1 + 'a' }}") [] = .fail (failOf "ErrTypeMismatch" line [b "INTEGER", b "+", b "STRING"] []) := by
  have := mixed_operands_fail_from_source [] [] [[]] (by rfl) (b "1") (by decide) (by decide) 39 (Or.inr rfl) (b "a") (by decide)
    [32] [32] [32] [32] (by decide) (by decide) (by decide) (by decide)
  have hs : mixedSrc [32] (b "1") [32] [32] 39 (b "a") [32] = b "{{ 1 + 'a' }}" := by decide
  rw [hs] at this
  exact this

/-- a block of text and prints whose pieces are one hole is one print of that name -/
theorem simple_single_hole (stmts : List Stmt) (k : Bytes) (hsb : simpleBlock stmts = true) (hpc : piecesOf stmts = [.hole k]) :
    ∃ t t2, stmts = [.expr t (.ident t2 k)] := by
  cases stmts with
  | nil => simp [piecesOf] at hpc
  | cons s r =>
    cases s with
    | html _ => simp [piecesOf] at hpc
    | expr t e =>
      cases e with
      | ident t2 n =>
        simp only [piecesOf, List.cons.injEq, Piece.hole.injEq] at hpc
        obtain ⟨hn, hr⟩ := hpc
        simp only [simpleBlock] at hsb
        cases r with
        | nil => exact ⟨t, t2, by rw [hn]⟩
        | cons s2 r2 =>
          cases s2 with
          | html _ => simp [piecesOf] at hr
          | expr t' e' =>
            cases e' with
            | ident _ _ => simp [piecesOf] at hr
            | _ => simp [simpleBlock] at hsb
          | _ => simp [simpleBlock] at hsb
      | _ => simp [simpleBlock] at hsb
    | _ => simp [simpleBlock] at hsb

/-- **an unknown identifier fails, from the source bytes on**: `{{ k }}` — any white space around the name —
    with a name that is not bound in the data does not render: the result is the identifier-not-found
    error that names `k`. -/
theorem unknown_identifier_fails_from_source (custom : List ((VType × Bytes) × Nat)) (data : List (Bytes × GoVal)) (env : Env)
    (h : envFromMap data = .ok env) (k : Bytes) (hk : isName k) (hget : env.get k = none)
    (g1 g2 : Bytes) (hg1 : allWs g1) (hg2 : allWs g2) :
    ∃ line, evaluateStringPure custom ([123, 123] ++ g1 ++ k ++ g2 ++ [125, 125]) data =
      .fail (failOf "ErrIdentifierNotFound" line [k] []) := by
  obtain ⟨prog, hp, hsb, hpc⟩ := parse_vitems [.print g1 k g2] ⟨hg1, hg2, hk, trivial⟩
  have hsrc : vitemsSrc [.print g1 k g2] = [123, 123] ++ g1 ++ k ++ g2 ++ [125, 125] := by simp [vitemsSrc, VItem.src]
  rw [hsrc] at hp
  have hpc' : piecesOf prog.stmts = [.hole k] := by simpa [vpieces] using hpc
  obtain ⟨t, t2, hst⟩ := simple_single_hole prog.stmts k hsb hpc'
  refine ⟨t2.errorLine, ?_⟩
  unfold evaluateStringPure envOrFail
  rw [hp]
  simp only [h, hst]
  rw [show evalFuel = (evalFuel - 4) + 1 + 1 + 1 + 1 from by decide, evalProg_cons, evalStmt_succ]
  simp only [stmtBody, calleesAt_expr]
  simp only [evalExpr, hget]
  simp [Res.bind, resToOut]

example : ∃ line, evaluateStringPure [] (b "{{ nosuch }}") [(b "x", .int 1)] = .fail (failOf "ErrIdentifierNotFound" line [b "nosuch"] []) :=
  unknown_identifier_fails_from_source [] [(b "x", .int 1)] [[(b "x", .int 1)]] (by rfl) (b "nosuch") (by decide) (by rfl) [32] [32] (by decide) (by decide)

/-- **the comparisons `<` and `>` next to the arithmetic operators, from the source bytes on**: in
    `{{ a op1 b op2 d }}` — three integer literals, any two of `+ - * / % < >`, any white space — a second
    operator that binds tighter takes `b` (`1 < 2 + 3` is `1 < (2 + 3)`) … -/
theorem binary_operators_tighter_second_from_source (custom : List ((VType × Bytes) × Nat)) (data : List (Bytes × GoVal)) (env : Env)
    (h : envFromMap data = .ok env) (a b' d : Bytes) (ha : isDigits a) (hbd : isDigits b') (hdd : isDigits d)
    (hba : digitsToNat a < 2 ^ 63) (hbb : digitsToNat b' < 2 ^ 63) (hbd' : digitsToNat d < 2 ^ 63)
    (c1 : Byte) (ty1 : TT) (pr1 : Nat) (c2 : Byte) (ty2 : TT) (pr2 : Nat) (hop1 : Op1 c1 ty1 pr1) (hop2 : Op1 c2 ty2 pr2)
    (hlt : pr1 < pr2)
    (g1 g2 g3 g4 g5 g6 : Bytes) (hg1 : allWs g1) (hg2 : allWs g2) (hg3 : allWs g3) (hg4 : allWs g4) (hg5 : allWs g5) (hg6 : allWs g6)
    (y : Int64) (v : Val)
    (h1 : ∀ line, intInfix [c2] (Int64.ofNat (digitsToNat b')) (Int64.ofNat (digitsToNat d)) line = .ok (.int y))
    (h2 : ∀ line, intInfix [c1] (Int64.ofNat (digitsToNat a)) y line = .ok v) :
    evaluateStringPure custom (arith3Src g1 a g3 c1 g4 b' g5 c2 g6 d g2) data = .ok v.toStr := by
  obtain ⟨prog, t2, t3, t4, t5, t6, hp, l3, l5, hs⟩ := parse_bin3_source g1 a g3 c1 ty1 pr1 g4 b' g5 c2 ty2 pr2 g6 d g2 hg1 hg2 hg3 hg4 hg5 hg6
    ha hbd hdd hop1 hop2 (by omega) (by omega) (by omega)
  unfold evaluateStringPure envOrFail
  rw [hp]
  simp only [h, hs, arith3Tree, hlt, if_true, l3, l5]
  rw [show evalFuel = (evalFuel - 6) + 1 + 1 + 1 + 1 + 1 + 1 from by decide, evalProg_cons, evalStmt_succ]
  simp only [stmtBody, calleesAt_expr]
  simp only [evalExpr, infixOp, Val.type, h1, h2, show (VType.INTEGER != VType.INTEGER) = false from by decide, Bool.false_eq_true, if_false, Res.bind_ok]
  rw [evalProg_nil]
  simp [resToOut]

/-- … and otherwise the first operator keeps it (`2 + 3 < 4` is `(2 + 3) < 4`, `5 - 2 > 1` is `(5 - 2) > 1`) -/
theorem binary_operators_group_to_the_left_from_source (custom : List ((VType × Bytes) × Nat)) (data : List (Bytes × GoVal)) (env : Env)
    (h : envFromMap data = .ok env) (a b' d : Bytes) (ha : isDigits a) (hbd : isDigits b') (hdd : isDigits d)
    (hba : digitsToNat a < 2 ^ 63) (hbb : digitsToNat b' < 2 ^ 63) (hbd' : digitsToNat d < 2 ^ 63)
    (c1 : Byte) (ty1 : TT) (pr1 : Nat) (c2 : Byte) (ty2 : TT) (pr2 : Nat) (hop1 : Op1 c1 ty1 pr1) (hop2 : Op1 c2 ty2 pr2)
    (hge : ¬ pr1 < pr2)
    (g1 g2 g3 g4 g5 g6 : Bytes) (hg1 : allWs g1) (hg2 : allWs g2) (hg3 : allWs g3) (hg4 : allWs g4) (hg5 : allWs g5) (hg6 : allWs g6)
    (x : Int64) (v : Val)
    (h1 : ∀ line, intInfix [c1] (Int64.ofNat (digitsToNat a)) (Int64.ofNat (digitsToNat b')) line = .ok (.int x))
    (h2 : ∀ line, intInfix [c2] x (Int64.ofNat (digitsToNat d)) line = .ok v) :
    evaluateStringPure custom (arith3Src g1 a g3 c1 g4 b' g5 c2 g6 d g2) data = .ok v.toStr := by
  obtain ⟨prog, t2, t3, t4, t5, t6, hp, l3, l5, hs⟩ := parse_bin3_source g1 a g3 c1 ty1 pr1 g4 b' g5 c2 ty2 pr2 g6 d g2 hg1 hg2 hg3 hg4 hg5 hg6
    ha hbd hdd hop1 hop2 (by omega) (by omega) (by omega)
  unfold evaluateStringPure envOrFail
  rw [hp]
  simp only [h, hs, arith3Tree, hge, if_false, l3, l5]
  rw [show evalFuel = (evalFuel - 6) + 1 + 1 + 1 + 1 + 1 + 1 from by decide, evalProg_cons, evalStmt_succ]
  simp only [stmtBody, calleesAt_expr]
  simp only [evalExpr, infixOp, Val.type, h1, h2, show (VType.INTEGER != VType.INTEGER) = false from by decide, Bool.false_eq_true, if_false, Res.bind_ok]
  rw [evalProg_nil]
  simp [resToOut]

example : evaluateStringPure [] (b "{{ 1 < 2 + 3 }}") [] = .ok (b "1") := by
  have := binary_operators_tighter_second_from_source [] [] [[]] (by rfl) (b "1") (b "2") (b "3") (by decide) (by decide) (by decide)
    (by decide) (by decide) (by decide) 60 .LTHAN LESS_GREATER 43 .ADD SUM (Op1.of_cmp (Or.inl ⟨rfl, rfl⟩))
    (Op1.of_arith (Or.inr ⟨Or.inl ⟨rfl, rfl⟩, rfl⟩)) (by decide)
    [32] [32] [32] [32] [32] [32] (by decide) (by decide) (by decide) (by decide) (by decide) (by decide) 5 (.bool true) (fun _ => by rfl) (fun _ => by rfl)
  have hs : arith3Src [32] (b "1") [32] 60 [32] (b "2") [32] 43 [32] (b "3") [32] = b "{{ 1 < 2 + 3 }}" := by decide
  rw [hs] at this
  rw [this]; rfl

example : evaluateStringPure [] (b "{{ 2 + 3 > 4 }}") [] = .ok (b "1") := by
  have := binary_operators_group_to_the_left_from_source [] [] [[]] (by rfl) (b "2") (b "3") (b "4") (by decide) (by decide) (by decide)
    (by decide) (by decide) (by decide) 43 .ADD SUM 62 .GTHAN LESS_GREATER (Op1.of_arith (Or.inr ⟨Or.inl ⟨rfl, rfl⟩, rfl⟩))
    (Op1.of_cmp (Or.inr ⟨rfl, rfl⟩)) (by decide)
    [32] [32] [32] [32] [32] [32] (by decide) (by decide) (by decide) (by decide) (by decide) (by decide) 5 (.bool true) (fun _ => by rfl) (fun _ => by rfl)
  have hs : arith3Src [32] (b "2") [32] 43 [32] (b "3") [32] 62 [32] (b "4") [32] = b "{{ 2 + 3 > 4 }}" := by decide
  rw [hs] at this
  rw [this]; rfl

/-- **a ternary nests to the right in its else part, from the source bytes on**: `{{ k ? a : j ? b : d }}` is
    `k ? a : (j ? b : d)` — `a` when `k` is truthy, otherwise `b` when `j` is truthy, otherwise `d` —, for
    two names bound in the data, three integer literals and any white space around every token. -/
theorem ternary_nests_to_the_right_from_source (custom : List ((VType × Bytes) × Nat)) (data : List (Bytes × GoVal)) (env : Env)
    (h : envFromMap data = .ok env) (k j : Bytes) (hk : isName k) (hj : isName j) (v w : Val) (hgk : env.get k = some v)
    (hgj : env.get j = some w) (a b' d : Bytes) (ha : isDigits a) (hbd : isDigits b') (hdd : isDigits d)
    (hba : digitsToNat a < 2 ^ 63) (hbb : digitsToNat b' < 2 ^ 63) (hbd' : digitsToNat d < 2 ^ 63)
    (g1 g2 g3 g4 g5 g6 g7 g8 g9 g10 : Bytes) (hg1 : allWs g1) (hg2 : allWs g2) (hg3 : allWs g3) (hg4 : allWs g4) (hg5 : allWs g5)
    (hg6 : allWs g6) (hg7 : allWs g7) (hg8 : allWs g8) (hg9 : allWs g9) (hg10 : allWs g10) :
    evaluateStringPure custom (tern2Src g1 k g3 g4 a g5 g6 j g7 g8 b' g9 g10 d g2) data =
      .ok (int64ToBytes (Int64.ofNat (digitsToNat (if isTruthy v then a else if isTruthy w then b' else d)))) := by
  obtain ⟨prog, t2, t3, t4, t6, t7, t8, t10, hp, hs⟩ := parse_tern2_source g1 k g3 g4 a g5 g6 j g7 g8 b' g9 g10 d g2 hg1 hg2 hg3 hg4 hg5 hg6
    hg7 hg8 hg9 hg10 hk hj ha hbd hdd (by omega) (by omega) (by omega)
  unfold evaluateStringPure envOrFail
  rw [hp]
  simp only [h, hs]
  rw [show evalFuel = (evalFuel - 6) + 1 + 1 + 1 + 1 + 1 + 1 from by decide, evalProg_cons, evalStmt_succ]
  simp only [stmtBody, calleesAt_expr]
  simp only [evalExpr, hgk, hgj]
  cases hv : isTruthy v <;> cases hw : isTruthy w <;>
    (simp only [Bool.false_eq_true, if_false, if_true, Res.bind_ok]; rw [evalProg_nil]; simp [resToOut, Val.toStr])

example : evaluateStringPure [] (b "{{ x ? 1 : y ? 2 : 3 }}") [(b "x", .int 0), (b "y", .str (b "s"))] = .ok (b "2") := by
  have := ternary_nests_to_the_right_from_source [] [(b "x", .int 0), (b "y", .str (b "s"))] [[(b "x", .int 0), (b "y", .str (b "s"))]] (by rfl)
    (b "x") (b "y") (by decide) (by decide) (.int 0) (.str (b "s")) (by rfl) (by rfl) (b "1") (b "2") (b "3") (by decide) (by decide) (by decide)
    (by decide) (by decide) (by decide) [32] [32] [32] [32] [32] [32] [32] [32] [32] [32]
    (by decide) (by decide) (by decide) (by decide) (by decide) (by decide) (by decide) (by decide) (by decide) (by decide)
  have hs : tern2Src [32] (b "x") [32] [32] (b "1") [32] [32] (b "y") [32] [32] (b "2") [32] [32] (b "3") [32] = b "{{ x ? 1 : y ? 2 : 3 }}" := by decide
  rw [hs] at this
  rw [this]; rfl

/-- **redundant parentheses change nothing, from the source bytes on**: `{{ ( d ) }}` — any white space around
    the parentheses and the number — renders what `{{ d }}` renders. -/
theorem redundant_parentheses_change_nothing_from_source (custom : List ((VType × Bytes) × Nat)) (data : List (Bytes × GoVal)) (env : Env)
    (h : envFromMap data = .ok env) (d : Bytes) (hd : isDigits d) (hb : digitsToNat d < 2 ^ 63)
    (g1 g2 g3 g4 g5 g6 : Bytes) (hg1 : allWs g1) (hg2 : allWs g2) (hg3 : allWs g3) (hg4 : allWs g4) (hg5 : allWs g5) (hg6 : allWs g6) :
    evaluateStringPure custom (parenIntSrc g1 g3 d g4 g2) data = evaluateStringPure custom (intSrc g5 d g6) data := by
  rw [int_literal_prints_from_source custom data env h d hd hb g5 g6 hg5 hg6]
  obtain ⟨prog, t3, t4, hp, hs⟩ := parse_parenInt_source g1 g3 d g4 g2 hg1 hg2 hg3 hg4 hd (by omega)
  unfold evaluateStringPure envOrFail
  rw [hp]
  simp only [h, hs]
  rw [show evalFuel = (evalFuel - 4) + 1 + 1 + 1 + 1 from by decide, evalProg_cons, evalStmt_succ]
  simp only [stmtBody, calleesAt_expr]
  simp only [evalExpr, Res.bind_ok]
  rw [evalProg_nil]
  simp [resToOut, Val.toStr]

/-- **`Total: {{ 6 * 7 }}.`: an arithmetic expression between two runs of text, from the source bytes on**:
    `pre {{ a op b }} post` — any two runs of text with escapes, any of the five arithmetic operators, any
    white space inside the braces — renders the text of `pre`, the value of `a op b`, the text of `post`
    (`text_code_text` with the instance for `a op b`). -/
theorem int_arithmetic_prints_in_text (custom : List ((VType × Bytes) × Nat)) (data : List (Bytes × GoVal)) (env : Env)
    (h : envFromMap data = .ok env) (a b' : Bytes) (ha : isDigits a) (hbd : isDigits b') (hba : digitsToNat a < 2 ^ 63)
    (hbb : digitsToNat b' < 2 ^ 63) (c : Byte) (ty : TT) (pr : Nat) (hop : ArithOp c ty pr)
    (g1 g2 g3 g4 : Bytes) (hg1 : allWs g1) (hg2 : allWs g2) (hg3 : allWs g3) (hg4 : allWs g4) (v : Val)
    (hv : ∀ line, intInfix [c] (Int64.ofNat (digitsToNat a)) (Int64.ofNat (digitsToNat b')) line = .ok v)
    (pre post : List Seg) (hitems : GItemsOK [.text pre, .code (arith2Code g1 a g3 c ty g4 b' g2), .text post]) :
    evaluateStringPure custom (segsSrc pre ++ (arithSrc g1 a g3 c g4 b' g2 ++ segsSrc post)) data = .ok (segsLit pre ++ v.toStr ++ segsLit post) := by
  obtain ⟨_, _, _, _, _, _, _, _, _, f10, f11, _⟩ := hop.facts
  have hone : OneStmt (arith2Code g1 a g3 c ty g4 b' g2) env { custom := custom } v.toStr := by
    refine ⟨arith2Code_ok g1 a g3 c ty g4 b' g2 hg1 hg2 hg3 hg4 ha hbd pr hop, by simp [arith2Code, arithKeys], ?_, ?_, ?_⟩
    · intro g toks tn rest hkeys hcl
      have hk' : toks.map key = arithKeys a c ty b' := hkeys
      match toks, hk' with
      | [], hk' => simp [arithKeys] at hk'
      | [_], hk' => simp [arithKeys] at hk'
      | [_, _], hk' => simp [arithKeys] at hk'
      | [_, _, _], hk' => simp [arithKeys] at hk'
      | [_, _, _, _], hk' => simp [arithKeys] at hk'
      | _ :: _ :: _ :: _ :: _ :: _ :: _, hk' => simp [arithKeys] at hk'
      | [t1, t2, t3, t4, t5], hk' =>
        simp only [arithKeys, List.map_cons, List.map_nil, List.cons.injEq, and_true] at hk'
        obtain ⟨hk1, hk2, hk3, hk4, hk5⟩ := hk'
        have ty1 : t1.ty = .LBRACES := congrArg Prod.fst hk1
        have ty2 : t2.ty = .INT := congrArg Prod.fst hk2
        have lit2 : t2.lit = a := congrArg Prod.snd hk2
        have ty3 : t3.ty = ty := congrArg Prod.fst hk3
        have lit3 : t3.lit = [c] := congrArg Prod.snd hk3
        have ty4 : t4.ty = .INT := congrArg Prod.fst hk4
        have lit4 : t4.lit = b' := congrArg Prod.snd hk4
        have ty5 : t5.ty = .RBRACES := congrArg Prod.fst hk5
        refine ⟨.expr t4 (.inf t3 t3.lit (.int t2 (Int64.ofNat (digitsToNat a))) (.int t4 (Int64.ofNat (digitsToNat b')))), t5, ?_,
          by rw [ty5]; decide, rfl, ?_⟩
        · have := parse_arith2_stmt (g + 15) t1 t2 t3 t4 t5 (tn :: rest) _ _ c ty pr hop ty1 ty2 ty3 ty4 ty5
            (by rw [lit2]; exact parseInt64_digits a ha (by omega)) (by rw [lit4]; exact parseInt64_digits b' hbd (by omega)) hcl
          simpa [arith2Code, arithKeys] using this
        · intro fu
          rw [show fu + 8 = (fu + 5) + 1 + 1 + 1 from by omega, evalStmt_succ]
          simp only [stmtBody, calleesAt_expr]
          simp only [evalExpr, infixOp, Val.type, lit3, hv, show (VType.INTEGER != VType.INTEGER) = false from by decide, Bool.false_eq_true, if_false,
            Res.bind_ok]
    · intro toks hkeys
      have hk' : toks.map key = arithKeys a c ty b' := hkeys
      cases toks with
      | nil => simp [arithKeys] at hk'
      | cons t r =>
        have : key t = (.LBRACES, [123, 123]) := by simpa [arithKeys] using (List.cons.inj hk').1
        have tyy : t.ty = .LBRACES := congrArg Prod.fst this
        exact ⟨t, r, rfl, by rw [tyy]; decide, by rw [tyy]; decide⟩
    · intro x hx
      simp only [arith2Code, arithKeys, List.mem_cons, List.mem_nil_iff, or_false] at hx
      rcases hx with rfl | rfl | rfl | rfl | rfl
      · simp
      · simp
      · exact f10
      · simp
      · simp
  exact text_code_text custom pre post (arith2Code g1 a g3 c ty g4 b' g2) data env h v.toStr hone hitems

example : evaluateStringPure [] (b "Total: {{ 6 * 7 }}.") [] = .ok (b "Total: 42.") := by
  have hop : ArithOp 42 .MUL PRODUCT := Or.inl ⟨Or.inl ⟨rfl, rfl⟩, rfl⟩
  have hitems : GItemsOK [.text [.plain (b "Total: ")], .code (arith2Code [32] (b "6") [32] 42 .MUL [32] (b "7") [32]), .text [.plain (b ".")]] :=
    ⟨by decide, by decide, by simp only [afterRunG]; decide,
      arith2Code_ok [32] (b "6") [32] 42 .MUL [32] (b "7") [32] (by decide) (by decide) (by decide) (by decide) (by decide) (by decide) PRODUCT hop,
      by decide, by decide, trivial, trivial⟩
  have := int_arithmetic_prints_in_text [] [] [[]] (by rfl) (b "6") (b "7") (by decide) (by decide) (by decide) (by decide) 42 .MUL PRODUCT hop
    [32] [32] [32] [32] (by decide) (by decide) (by decide) (by decide) (.int 42) (fun _ => by rfl) [.plain (b "Total: ")] [.plain (b ".")] hitems
  have hs : segsSrc [.plain (b "Total: ")] ++ (arithSrc [32] (b "6") [32] 42 [32] (b "7") [32] ++ segsSrc [.plain (b ".")]) = b "Total: {{ 6 * 7 }}." := by decide
  rw [hs] at this
  rw [this]; rfl

example : evaluateStringPure [] (b "{{ 010 }}") [] = .ok (b "10") := by
  have := int_literal_prints_from_source [] [] [[]] (by rfl) (b "010") (by decide) (by decide) [32] [32] (by decide) (by decide)
  have hs : intSrc [32] (b "010") [32] = b "{{ 010 }}" := by decide
  rw [hs] at this
  rw [this]; rfl

example : evaluateStringPure [] (b "{{ 6 * 7 }}") [] = .ok (b "42") := by
  have := int_product_prints_from_source [] [] [[]] (by rfl) (b "6") (b "7") (by decide) (by decide) (by decide) (by decide)
    [32] [32] [32] [32] (by decide) (by decide) (by decide) (by decide)
  have hs : arithSrc [32] (b "6") [32] 42 [32] (b "7") [32] = b "{{ 6 * 7 }}" := by decide
  rw [hs] at this
  rw [this]; rfl

end Tw.C01
