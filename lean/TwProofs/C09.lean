/-
  TwProofs.C09 — property theorems (see DESIGN.md, section 6).
-/
import TwModel
import TwSpec

namespace Tw.C09
open Tw

end Tw.C09
