/-
  TwProofs.C09 — evaluation never crashes: every runtime fault becomes a Textwire error.

  In the model every unchecked Go operation (type assertion, nil dereference, slice bound,
  `Truncate(-1)`, …) is an explicit `panic` outcome, and a nil node is the constructor `bad`.
  The theorems say that outcome is unreachable through the public API — for every source text,
  every data map, every file tree, every set of registered functions, at every fuel — and that
  the named faults are errors carrying the line of the construct.
-/
import TwModel
import TwSpec
import TwProofs.Lemmas.NoPanic
import TwProofs.Lemmas.ParseBadFree
import TwProofs.Lemmas.LoadWhole
import TwProofs.Lemmas.LexNoPanic

namespace Tw.C09
open Tw

/-- the evaluator never panics on a tree without nil nodes (any fuel, any context whose attached
    programs are whole, any environment) -/
theorem eval_no_panic (fuel : Nat) (c : Ctx) (env : Env) (stmts : List Stmt) (acc : Bytes)
    (hc : Ctx.badFree c = true) (hs : Stmt.badFreeList stmts = true) :
    ∀ why, evalProg fuel c env stmts acc ≠ .panic why := by
  intro why h
  have := (calleesAt_np fuel).prog c env stmts acc hc hs
  change NP (evalProg fuel c env stmts acc) at this
  rw [h] at this
  simp [NP, Res.isPanic] at this

/-- expressions: whatever values reach an operator, index, property access or built-in -/
theorem expr_no_panic (fuel : Nat) (c : Ctx) (env : Env) (e : Expr) (he : e.badFree = true) :
    ∀ why, evalExpr fuel c env e ≠ .panic why := by
  intro why h
  have := (np_expr fuel).1 c env e he
  rw [h] at this
  simp [NP, Res.isPanic] at this

/-- the lexer never panics -/
theorem lexer_no_panic (src : Bytes) (r : LexResult) (h : tokenize src = some r) : r.panicked = false :=
  tokenize_no_panic src r h

/-- a parse that reports no error yields a tree without nil nodes, in the statements, in the
    `@insert` table and in the slots of the component uses -/
theorem parse_whole (src : Bytes) (base : Nat) (prog : Program) (h : parseSource src base = .ok prog) : prog.Whole :=
  parseSource_whole src base prog h

theorem finishParse_ne_lexPanic (ic : Bool) (first : Token) (stmts : Option (List Stmt)) (p : PS) :
    finishParse ic first stmts p ≠ .lexPanic := by
  intro h
  unfold finishParse at h
  cases stmts with
  | none =>
    simp only [] at h
    split at h
    · cases h
    · split at h <;> cases h
  | some ss =>
    cases ic with
    | true =>
      simp only [if_true] at h
      split at h
      · cases h
      · split at h <;> cases h
    | false =>
      simp only [Bool.false_eq_true, if_false] at h
      split at h
      · cases h
      · split at h <;> cases h

/-- **`EvaluateString` never panics**: every source text, every data map, every set of registered
    custom functions -/
theorem evaluateString_no_panic (custom : List ((VType × Bytes) × Nat)) (src : Bytes) (data : List (Bytes × GoVal)) :
    ∀ why, evaluateStringPure custom src data ≠ .panic why := by
  intro why h
  unfold evaluateStringPure at h
  split at h
  · cases h
  · cases h
  · rename_i hlp
    -- the lexer-panic outcome of `parseSource` is unreachable
    unfold parseSource at hlp
    split at hlp
    · cases hlp
    · rename_i lr htok
      split at hlp
      · rename_i hp
        rw [tokenize_no_panic src lr htok] at hp
        cases hp
      · exact finishParse_ne_lexPanic _ _ _ _ hlp
  · rename_i prog hps
    split at h
    · cases h
    · rename_i env _
      have hw := parseSource_whole src 0 prog hps
      unfold resToOut at h
      split at h
      · cases h
      · cases h
      · rename_i w hp
        cases h
        exact eval_no_panic evalFuel { custom := custom } env prog.stmts [] rfl hw.stmts _ hp
      · cases h

/-- `EvaluateFile` never panics -/
theorem evaluateFile_no_panic (w : World) (path : Bytes) (data : List (Bytes × GoVal)) :
    ∀ why, (evaluateFile w path data).2 ≠ .panic why := by
  intro why h
  unfold evaluateFile at h
  simp only [] at h
  split at h
  · exact evaluateString_no_panic _ _ _ why h
  · cases h

/-- **`NewTemplate` + `Template.String` never panic**: every file tree, every configuration, every
    template name, every data map, every set of registered functions -/
theorem templateString_no_panic (w : World) (o : Option Opt) (t : Template) (hnew : (newTemplate w o).2 = .ok t)
    (w' : World) (name : Bytes) (data : List (Bytes × GoVal)) :
    ∀ why, tplString w' t name data ≠ .panic why :=
  tplString_no_panic w' t (newTemplate_whole w o t hnew) name data

theorem errorPage_snd (w : World) (f : Fail) (cwd : Bytes) :
    (errorPage w f cwd).2 = evaluateStringPure w.custom Gen.defaultErrorPage (errorPageData w f cwd) := by
  unfold errorPage evaluateString
  dsimp only

/-- `Template.Response` never panics either (neither rendering the page nor the error page) -/
theorem templateResponse_no_panic (w : World) (o : Option Opt) (t : Template) (hnew : (newTemplate w o).2 = .ok t)
    (w' : World) (name : Bytes) (data : List (Bytes × GoVal)) (cwd : Bytes) :
    (tplResponse w' t name data cwd).2.panic = none := by
  have hts := tplString_no_panic w' t (newTemplate_whole w o t hnew)
  unfold tplResponse
  split
  · rfl
  · rename_i why hp; exact absurd hp (hts name data why)
  · rfl
  · split
    · split
      · rfl
      · rfl
      · rename_i why hp; exact absurd hp (hts _ [] why)
      · rfl
    · split
      · rfl
      · rfl
      · rename_i w2 why hp
        rename_i f _ _ _
        have : (errorPage w' f cwd).2 = .panic why := by rw [hp]
        rw [errorPage_snd] at this
        exact absurd this (evaluateString_no_panic w'.custom Gen.defaultErrorPage (errorPageData w' f cwd) why)
      · rfl

/-! ### the named faults are errors that carry the line of the construct -/

/-- `%` and `/` by zero -/
theorem mod_zero_is_error (a : Int64) (line : Nat) :
    intInfix (b "%") a 0 line = .err "ErrDivisionByZero" line [] ∧
    intInfix (b "/") a 0 line = .err "ErrDivisionByZero" line [] := by
  constructor <;> (unfold intInfix; simp (config := { decide := true }) [b, utf8Bytes])

/-- property access on a value that is not an object -/
theorem dot_on_non_object (f : Nat) (c : Ctx) (env : Env) (t : Token) (l : Expr) (key : Bytes) (v : Val)
    (hl : evalExpr f c env l = .ok v) (hv : ∀ kvs, v ≠ .obj kvs) :
    evalExpr (f + 1) c env (.dot t l key) = .err "ErrDotOperatorNotSupported" t.errorLine [v.typeName] := by
  rw [evalExpr_dot, hl]
  cases v with
  | obj kvs => exact absurd rfl (hv kvs)
  | _ => rfl

/-- an empty property name on an object is "property not found", not a slice-bounds panic -/
theorem empty_property_name (kvs : List (Bytes × Val)) (line : Nat) (h : mapGet kvs [] = none) :
    objIndex kvs [] line = .err "ErrPropertyNotFound" line [[], b "OBJECT"] := by
  unfold objIndex
  rw [h]
  rfl

/-- `@each` over a value that is not an array -/
theorem each_non_array (f : Nat) (c : Ctx) (env : Env) (t : Token) (var : Bytes) (arrE : Expr) (body : List Stmt)
    (alt : Option (List Stmt)) (v : Val) (hl : evalExpr f c env.push arrE = .ok v) (hv : ∀ xs, v ≠ .arr xs) :
    evalStmt (f + 1) c env (.eachS t var arrE body alt) = .err "ErrEachNotArray" t.errorLine [v.typeName] := by
  rw [evalStmt_succ]
  simp only [stmtBody, calleesAt]
  rw [hl, Res.bind_ok]
  cases v with
  | arr xs => exact absurd rfl (hv xs)
  | _ => rfl

/-- a `@for` without condition and without post statement still evaluates (no nil dereference):
    the body of one iteration runs and the loop goes on with the same clauses -/
theorem for_absent_clauses (f : Nat) (c : Ctx) (env : Env) (t : Token) (init : Option Stmt) (body : List Stmt) (acc : Bytes) :
    forLoop (f + 1) c env t init none none body acc =
      (evalBlock f c env body).bind fun r =>
        if r.1.brk then .ok (acc ++ r.1.text) else forLoop f c r.2 t init none none body (acc ++ r.1.text) := by
  rw [forLoop_succ]
  simp only [forBody, calleesAt, Res.bind_ok]
  rfl

/-- a nil pointer in the data is the value nil; an unsupported kind at any depth is reported as
    an error by `EnvFromMap` (no panic in `NativeToObject`) -/
theorem nil_pointer_is_nil : nativeToObject (.ptr none) = some .nil := by simp [nativeToObject]

theorem unsupported_is_error (k : Bytes) (kind : String) (inner : List GoVal) :
    ∃ e, envFromMap [(k, .slice (inner ++ [.other kind]))] = .error e := by
  have hl : ∀ l : List GoVal, nativeList (l ++ [.other kind]) = none := by
    intro l
    induction l with
    | nil => simp [nativeList, nativeToObject]
    | cons x r ih =>
      simp only [List.cons_append, nativeList]
      cases nativeToObject x with
      | none => rfl
      | some v => simp [ih]
  refine ⟨.unsupported k, ?_⟩
  simp [envFromMap, sortByKey, insertByKey, envFromMap.go, nativeToObject, hl]

/-- every error raised while evaluating carries a line: `Res.err` has no other form -/
theorem error_has_line {α} (r : Res α) (code : String) (line : Nat) (args : List Bytes) (h : r = .err code line args) :
    ∃ l : Nat, l = line := ⟨line, rfl⟩

/-! ### non-vacuity: the faults are reachable through the API and come out as errors -/

def failsWith (r : EvalOut) (line : Nat) (msg : Bytes) : Bool :=
  match r with
  | .fail f => f.line == line && f.msg == msg
  | _ => false

example : failsWith (evaluateStringPure [] (b "{{ 1 % 0 }}") []) 1 (formatMsg "ErrDivisionByZero" []) = true := by
  decide +kernel
example : failsWith (evaluateStringPure [] (b "{{ x.y }}") [(b "x", .int 1)]) 1
    (formatMsg "ErrDotOperatorNotSupported" [b "INTEGER"]) = true := by decide +kernel
example : failsWith (evaluateStringPure [] (b "a\n@each(v in 3)x@end") []) 2
    (formatMsg "ErrEachNotArray" [b "INTEGER"]) = true := by decide +kernel
example : failsWith (evaluateStringPure [] (b "{{ p.name }}") [(b "p", .ptr none)]) 1
    (formatMsg "ErrDotOperatorNotSupported" [b "NIL"]) = true := by decide +kernel

end Tw.C09
