/-
  TwProofs.C03 — property theorems (see DESIGN.md, section 6).
-/
import TwModel
import TwSpec

namespace Tw.C03
open Tw

end Tw.C03
