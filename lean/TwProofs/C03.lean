/-
  TwProofs.C03 — `@each` / `@for`: passes in order, loop metadata, break / continue, `@else`.

  The loops of the model's evaluator are described without fuel by the inductive relations
  `EachPasses` and `ForPasses` (TwProofs/Lemmas/Loops.lean): the sequence of passes, each with
  the element bound and `loop` set to the metadata of its position, ending at the first pass
  whose body reports a break.  The theorems say the evaluator emits exactly the text of those
  passes, what `@break` / `@continue` (also conditional, also nested in `@if`) do to a pass, and
  that the loop statement hands back the environment it was given.
-/
import TwModel
import TwSpec
import TwProofs.Lemmas.Loops
import TwProofs.Lemmas.EachSimple
import TwProofs.Lemmas.TextEach
import TwProofs.Lemmas.EachElse

namespace Tw.C03
open Tw

/-! ### loop metadata -/

/-- `loop.index`, `loop.iter`, `loop.first`, `loop.last` of the element at position `i` of `n` -/
theorem loop_metadata (i n : Nat) :
    loopObj i n = .obj [(b "first", .bool (i == 0)), (b "index", .int (Int64.ofNat i)),
      (b "iter", .int (Int64.ofNat (i + 1))), (b "last", .bool (i + 1 == n))] := rfl

theorem loop_index (i n line : Nat) :
    (match loopObj i n with | .obj kvs => objIndex kvs (b "index") line | _ => .oof) = .ok (.int (Int64.ofNat i)) := by
  simp (config := { decide := true }) [loopObj, objIndex, mapGet, b, utf8Bytes]

theorem loop_iter (i n line : Nat) :
    (match loopObj i n with | .obj kvs => objIndex kvs (b "iter") line | _ => .oof) = .ok (.int (Int64.ofNat (i + 1))) := by
  simp (config := { decide := true }) [loopObj, objIndex, mapGet, b, utf8Bytes]

theorem loop_first (i n line : Nat) :
    (match loopObj i n with | .obj kvs => objIndex kvs (b "first") line | _ => .oof) = .ok (.bool (i == 0)) := by
  simp (config := { decide := true }) [loopObj, objIndex, mapGet, b, utf8Bytes]

theorem loop_last (i n line : Nat) :
    (match loopObj i n with | .obj kvs => objIndex kvs (b "last") line | _ => .oof) = .ok (.bool (i + 1 == n)) := by
  simp (config := { decide := true }) [loopObj, objIndex, mapGet, b, utf8Bytes]

/-! ### `@each` -/

/-- **`@each` renders its passes**: over a non-empty array the statement emits the text of the
    passes — element `k` bound to the variable, `loop` = metadata of position `k` of `n`, in
    order, up to and including the first pass that breaks — carries no break / continue flag
    to the enclosing construct, and returns the environment it was given (so the loop variable,
    `loop`, and whatever the body assigned vanish; an outer `loop` is visible again) -/
theorem each_renders_passes (f : Nat) (c : Ctx) (env : Env) (t : Token) (var : Bytes) (arrE : Expr) (body : List Stmt)
    (alt : Option (List Stmt)) (xs : List Val) (out : Bytes)
    (harr : evalExpr f c env.push arrE = .ok (.arr xs)) (hne : xs ≠ [])
    (hp : EachPasses f c t var body xs.length env.push xs 0 out) :
    evalStmt (f + xs.length + 1 + 1) c env (.eachS t var arrE body alt) = .ok ({ text := out }, env) := by
  rw [evalStmt_succ]
  simp only [stmtBody, calleesAt_expr, calleesAt_eachL]
  rw [show f + xs.length + 1 = f + (xs.length + 1) from rfl, evalExpr_lift harr, Res.bind_ok]
  have hemp : xs.isEmpty = false := by cases xs with | nil => exact absurd rfl hne | cons _ _ => rfl
  simp only [hemp, Bool.false_eq_true, if_false]
  rw [show f + (xs.length + 1) = f + xs.length + 1 from rfl, eachLoop_passes hp, Res.bind_ok]
  simp

/-- **the passes computed**: for a body of text and plain variable prints — the loop variable,
    `loop`, variables visible outside — and an array of `n ≥ 1` elements of one type, `@each`
    renders, element after element in order, the body's text with the holes filled from the
    environment of that pass (`passEnv`: the element bound to the variable, `loop` = the metadata
    of position `i` of `n`, everything else as outside), and hands back the environment it was
    given.  No hypothesis about passes: they are constructed. -/
theorem each_of_text_and_variables (f : Nat) (c : Ctx) (env : Env) (t : Token) (var : Bytes) (arrE : Expr) (body : List Stmt)
    (alt : Option (List Stmt)) (xs : List Val) (ty : VType)
    (harr : evalExpr f c env.push arrE = .ok (.arr xs)) (hne : xs ≠ [])
    (hv : (var == b "loop") = false) (hfresh : ∀ old, env.get var = some old → old.type = ty)
    (hty : ∀ x ∈ xs, x.type = ty) (hsb : simpleBlock body = true) (hvis : holesVisible env var (piecesOf body)) :
    evalStmt (max f (body.length + 3) + xs.length + 1 + 1) c env (.eachS t var arrE body alt) =
      .ok ({ text := passTexts env var (piecesOf body) xs.length xs 0 }, env) := by
  have hp := eachPasses_simple c env t var body ty xs.length hv hfresh hsb hvis xs 0 [] hty (Or.inl rfl)
  have hp' : EachPasses (max f (body.length + 3)) c t var body xs.length env.push xs 0
      (passTexts env var (piecesOf body) xs.length xs 0) := by
    obtain ⟨k, hk⟩ : ∃ k, max f (body.length + 3) = (body.length + 3) + k := ⟨max f (body.length + 3) - (body.length + 3), by omega⟩
    rw [hk]
    exact eachPasses_lift hp k
  obtain ⟨k2, hk2⟩ : ∃ k, max f (body.length + 3) = f + k := ⟨max f (body.length + 3) - f, by omega⟩
  exact each_renders_passes (max f (body.length + 3)) c env t var arrE body alt xs _ (by rw [hk2]; exact evalExpr_lift harr k2) hne hp'

example : (match evaluateStringPure [] (b "@each(v in [\"a\",\"b\"])<{{ v }}|{{ w }}>@end") [(b "w", .int 7)] with
    | .ok out => out == b "<a|7><b|7>" | _ => false) = true := by decide +kernel

/-- the `@else` body is rendered exactly when the array is empty; its break / continue flags go
    to the construct around the loop -/
theorem each_empty_else (f : Nat) (c : Ctx) (env : Env) (t : Token) (var : Bytes) (arrE : Expr) (body ab : List Stmt)
    (harr : evalExpr f c env.push arrE = .ok (.arr [])) :
    evalStmt (f + 1) c env (.eachS t var arrE body (some ab)) = (evalBlock f c env.push ab).bind fun r => .ok (r.1, env) := by
  rw [evalStmt_succ]
  simp only [stmtBody, calleesAt_expr, calleesAt_block]
  rw [harr, Res.bind_ok]
  rfl

theorem each_empty_no_else (f : Nat) (c : Ctx) (env : Env) (t : Token) (var : Bytes) (arrE : Expr) (body : List Stmt)
    (harr : evalExpr f c env.push arrE = .ok (.arr [])) :
    evalStmt (f + 1) c env (.eachS t var arrE body none) = .ok ({}, env) := by
  rw [evalStmt_succ]
  simp only [stmtBody, calleesAt_expr]
  rw [harr, Res.bind_ok]
  rfl

/-- iterating a value that is not an array is an error with the line of the directive -/
theorem each_non_array (f : Nat) (c : Ctx) (env : Env) (t : Token) (var : Bytes) (arrE : Expr) (body : List Stmt)
    (alt : Option (List Stmt)) (v : Val) (hl : evalExpr f c env.push arrE = .ok v) (hv : ∀ xs, v ≠ .arr xs) :
    evalStmt (f + 1) c env (.eachS t var arrE body alt) = .err "ErrEachNotArray" t.errorLine [v.typeName] := by
  rw [evalStmt_succ]
  simp only [stmtBody, calleesAt_expr]
  rw [hl, Res.bind_ok]
  cases v with
  | arr xs => exact absurd rfl (hv xs)
  | _ => rfl

/-! ### `@for` -/

/-- the environment in which the condition is first evaluated: a new scope, then `init` -/
def ForEntry (f : Nat) (c : Ctx) (env : Env) (init : Option Stmt) (env1 : Env) : Prop :=
  match init with
  | none => env1 = env.push
  | some i => ∃ o, evalStmt f c env.push i = .ok (o, env1)

/-- **`@for` renders its passes**: while the condition is truthy the body is rendered and the post
    clause applied, in order, up to and including the first pass that breaks; no flag reaches
    the enclosing construct and the environment handed back is the one given -/
theorem for_renders_passes (f : Nat) (c : Ctx) (env env1 : Env) (t : Token) (init : Option Stmt) (cnd : Option Expr)
    (post : Option Stmt) (body : List Stmt) (alt : Option (List Stmt)) (m : Nat) (out : Bytes)
    (hinit : ForEntry f c env init env1) (hentry : CondIs f c env1 cnd true)
    (hp : ForPasses f c t init cnd post body env1 m out) :
    evalStmt (f + m + 1 + 1) c env (.forS t init cnd post body alt) = .ok ({ text := out }, env) := by
  rw [evalStmt_succ]
  simp only [stmtBody, calleesAt_expr, calleesAt_forL, calleesAt_stmt]
  have h1 : (match init with
      | none => Res.ok env.push
      | some i => (evalStmt (f + m + 1) c env.push i).bind fun r => Res.ok r.2) = .ok env1 := by
    cases init with
    | none => simp only [ForEntry] at hinit; rw [hinit]
    | some i =>
      obtain ⟨o, ho⟩ := hinit
      simp only []
      rw [show f + m + 1 = f + (m + 1) from rfl, evalStmt_lift ho, Res.bind_ok]
  have h1' : ∀ {β} (g : Env → Res β), ((match init with
      | none => Res.ok env.push
      | some i => (evalStmt (f + m + 1) c env.push i).bind fun r => Res.ok r.2).bind g) = g env1 := by
    intro β g; rw [h1, Res.bind_ok]
  cases init with
  | none =>
    simp only [] at h1' ⊢
    rw [Res.bind_ok]
    simp only [ForEntry] at hinit
    subst hinit
    rw [show f + m + 1 = f + (m + 1) from rfl, condTruth_of hentry, Res.bind_ok]
    simp only [if_true]
    rw [show f + (m + 1) = f + m + 1 from rfl, forLoop_passes hp, Res.bind_ok]
    simp
  | some i =>
    obtain ⟨o, ho⟩ := hinit
    simp only []
    rw [show f + m + 1 = f + (m + 1) from rfl, evalStmt_lift ho, Res.bind_ok, Res.bind_ok]
    simp only []
    rw [condTruth_of hentry, Res.bind_ok]
    simp only [if_true]
    rw [show f + (m + 1) = f + m + 1 from rfl, forLoop_passes hp, Res.bind_ok]
    simp

/-- the `@else` body of `@for` is rendered exactly when the condition is false at entry -/
theorem for_else (f : Nat) (c : Ctx) (env env1 : Env) (t : Token) (init : Option Stmt) (cnd : Option Expr)
    (post : Option Stmt) (body ab : List Stmt)
    (hinit : ForEntry f c env init env1) (hentry : CondIs f c env1 cnd false) :
    evalStmt (f + 1) c env (.forS t init cnd post body (some ab)) = (evalBlock f c env1 ab).bind fun r => .ok (r.1, env) := by
  rw [evalStmt_succ]
  simp only [stmtBody, calleesAt_expr, calleesAt_block, calleesAt_stmt]
  have hc := condTruth_of hentry 0
  rw [Nat.add_zero] at hc
  cases init with
  | none =>
    simp only [ForEntry] at hinit
    subst hinit
    simp only [Res.bind_ok]
    rw [hc, Res.bind_ok]
    simp
  | some i =>
    obtain ⟨o, ho⟩ := hinit
    simp only []
    rw [ho, Res.bind_ok, Res.bind_ok]
    simp only []
    rw [hc, Res.bind_ok]
    simp

/-! ### break and continue -/

theorem break_sets_flag (f : Nat) (c : Ctx) (env : Env) (t : Token) :
    evalStmt (f + 1) c env (.brk t) = .ok ({ brk := true }, env) := rfl

theorem continue_sets_flag (f : Nat) (c : Ctx) (env : Env) (t : Token) :
    evalStmt (f + 1) c env (.cont t) = .ok ({ cont := true }, env) := rfl

/-- a block stops after the statement that reports break or continue: what preceded it in the
    block has been emitted, what follows is not evaluated -/
theorem block_stops_at_control (f : Nat) (c : Ctx) (env : Env) (s : Stmt) (rest : List Stmt) (r1 : Out × Env)
    (hs : evalStmt f c env s = .ok r1) (hflag : (r1.1.brk || r1.1.cont) = true) :
    evalBlock (f + 1) c env (s :: rest) = .ok r1 := by
  rw [evalBlock_cons, hs, Res.bind_ok, if_pos hflag]

/-- otherwise the texts are concatenated and the flags of the rest are the block's flags -/
theorem block_continues (f : Nat) (c : Ctx) (env : Env) (s : Stmt) (rest : List Stmt) (r1 : Out × Env)
    (hs : evalStmt f c env s = .ok r1) (hflag : (r1.1.brk || r1.1.cont) = false) :
    evalBlock (f + 1) c env (s :: rest) =
      (evalBlock f c r1.2 rest).bind fun r2 =>
        .ok ({ text := r1.1.text ++ r2.1.text, brk := r2.1.brk, cont := r2.1.cont }, r2.2) := by
  rw [evalBlock_cons, hs, Res.bind_ok, if_neg (by rw [hflag]; simp)]

/-- an `@if` hands the flags of the branch it rendered to the construct around it, so a break or
    continue nested in `@if` blocks reaches the innermost enclosing loop -/
theorem if_passes_flags_on (f : Nat) (c : Ctx) (env : Env) (t : Token) (cnd : Expr) (cons : List Stmt)
    (alts : List (Expr × List Stmt)) (alt : Option (List Stmt)) (v : Val) (r : Out × Env)
    (hc : evalExpr f c env cnd = .ok v) (hv : isTruthy v = true) (hb : evalBlock f c env.push cons = .ok r) :
    evalStmt (f + 1) c env (.ifS t cnd cons alts alt) = .ok (r.1, env) := by
  rw [evalStmt_ifS, hc, Res.bind_ok, if_pos hv, hb, Res.bind_ok]

/-- a pass that ends with continue (and not break) is followed by the next pass: this is the
    `pass` rule of `EachPasses`, which looks at the break flag only -/
theorem continue_skips_rest_of_pass_only (f : Nat) (c : Ctx) (t : Token) (var : Bytes) (body : List Stmt) (n : Nat)
    (env env1 : Env) (x : Val) (rest : List Val) (i : Nat) (r : Out × Env) (out : Bytes)
    (hs : setVar env var x t.errorLine = .ok env1)
    (hb : evalBlock f c (env1.setLoop (loopObj i n)) body = .ok r) (hcont : r.1.cont = true) (hbrk : r.1.brk = false)
    (hrest : EachPasses f c t var body n r.2 rest (i + 1) out) :
    EachPasses f c t var body n env (x :: rest) i (r.1.text ++ out) :=
  .pass env x rest i env1 r out hs hb hbrk hrest

/-! ### from the source bytes -/

/-- **C03 from the source bytes**: a template of text, `{{ name }}` blocks and
    `@each(x in xs) body @end` loops (any spacing inside the parentheses; the body text and
    `{{ name }}` blocks) renders, for every data map, to the text with — at each loop — the body
    once per element of the array bound to `xs`, in order, `x` bound to the element and `loop` to
    the metadata of its position (`passTexts`), and nothing for an empty array.  The prints after a
    loop are filled from the outer environment: the loop variable does not leak.  Lexer
    (`lex_each_header`, `lexRun_body`), parser (`parse_each_stmt`) and evaluator
    (`each_of_text_and_variables'`) composed. -/
theorem each_renders_once_per_element_from_source (custom : List ((VType × Bytes) × Nat)) (items : List XItem)
    (hok : XItemsOK items) (data : List (Bytes × GoVal)) (env : Env) (henv : envFromMap data = .ok env)
    (hb : xbound env (xspec items)) (hsize : xneed env (xspec items) ≤ evalFuel) :
    evaluateStringPure custom (xitemsSrc items) data = .ok (xrender env (xspec items)) :=
  xitems_render custom items hok data env henv hb hsize

/-- what a loop contributes, unrolled: the pass for the first element, then the passes for the rest
    at the next positions -/
theorem passTexts_cons (env : Env) (var : Bytes) (ps : List Piece) (n : Nat) (x : Val) (r : List Val) (i : Nat) :
    passTexts env var ps n (x :: r) i = fill (passEnv env var x i n) ps ++ passTexts env var ps n r (i + 1) := rfl

/-- the number of passes is the number of elements: the loop neither skips nor repeats one -/
theorem passTexts_of_constant_body (env : Env) (var : Bytes) (t : Bytes) (n : Nat) : ∀ (xs : List Val) (i : Nat),
    (passTexts env var [.text t] n xs i).length = xs.length * t.length
  | [], _ => by simp [passTexts]
  | x :: r, i => by
    have := passTexts_of_constant_body env var t n r (i + 1)
    simp only [passTexts, fill, List.length_append, this, List.length_cons, Nat.succ_mul]
    simp
    omega

section example_each
private def exItems : List XItem := [.text [.plain (b "n: ")],
  .each [] (b "v") (b " ") (b "  ") (b "xs") (b " ") [.print [] (b "v") (b " "), .text [.plain (b ",")]],
  .text [.plain (b " by ")], .print [] (b "who") []]
private def exData : List (Bytes × GoVal) := [(b "xs", .slice [.int 4, .int 5, .int 6]), (b "who", .str (b "me"))]
private def exEnv : Env := [[(b "who", .str (b "me")), (b "xs", .arr [.int 4, .int 5, .int 6])]]

example : xitemsSrc exItems = b "n: @each(v in  xs ){{v }},@end by {{who}}" := by decide
example : XItemsOK exItems := by decide

example : evaluateStringPure [] (b "n: @each(v in  xs ){{v }},@end by {{who}}") exData = .ok (b "n: 4,5,6, by me") := by
  have hbound : xbound exEnv (xspec exItems) := by
    refine ⟨⟨[.int 4, .int 5, .int 6], .INTEGER, rfl, by decide, by decide⟩, by decide, ⟨Or.inl rfl, trivial⟩, by decide, trivial⟩
  have h := each_renders_once_per_element_from_source [] exItems (by decide) exData exEnv (by rfl) hbound (by decide)
  have h1 : xitemsSrc exItems = b "n: @each(v in  xs ){{v }},@end by {{who}}" := by decide
  have h2 : xrender exEnv (xspec exItems) = b "n: 4,5,6, by me" := by decide
  rw [h1, h2] at h
  exact h
end example_each

/-- **`@each … @else … @end` from the source bytes**: for the template
    `@each(x in xs) body @else other @end` (any white space inside the parentheses; `body` of text
    and `{{ name }}` blocks, `other` also with assignments; the text right after `@else` not
    beginning with "if") and every data map that binds `xs` to an array of elements of one type,
    the render is the body once per element, in order (`passTexts`), when the array has elements —
    the `@else` block is not evaluated then — and the `@else` block, evaluated in a scope of its
    own, when the array is empty.  Lexer (`eachElseCode_ok`), parser (`parse_each_else_stmt`,
    `parseBody_aitems` with `@else` as the end of the first block) and evaluator composed. -/
theorem each_else_renders_from_source (custom : List ((VType × Bytes) × Nat)) (g1 x g2 g3 xs g4 : Bytes) (body ebody : List AItem)
    (hok : EachElseOK g1 x g2 g3 xs g4 body ebody) (hna : noAssign body = true)
    (data : List (Bytes × GoVal)) (env : Env) (henv : envFromMap data = .ok env)
    (vs : List Val) (ty : VType) (harr : env.get xs = some (.arr vs)) (hty : ∀ v ∈ vs, v.type = ty)
    (hxl : (x == b "loop") = false) (hfresh : ∀ old, env.get x = some old → old.type = ty)
    (hvis : holesVisible env x (apieces body)) (hel : vs = [] → abound env.push ebody)
    (hsize : body.length + ebody.length + vs.length + 10 ≤ evalFuel) :
    evaluateStringPure custom (eachElseSrc g1 x g2 g3 xs g4 body ebody) data =
      .ok (if vs = [] then (aeval env.push ebody).1 else passTexts env x (apieces body) vs.length vs 0) := by
  obtain ⟨prog, t1, t5, stmts, estmts, hp, hs, hm1, hm2⟩ := parse_each_else_source g1 x g2 g3 xs g4 body ebody hok
  obtain ⟨hsb, hpc⟩ := amatch_simple stmts body hm1 hna
  have hlen : stmts.length = body.length := by rw [simple_length _ hsb, hpc, apieces_length body hna]
  unfold evaluateStringPure envOrFail
  rw [hp]
  simp only [henv, hs]
  have hex : ∀ f, evalExpr (f + 1) { custom := custom } env.push (.ident t5 xs) = .ok (.arr vs) := by
    intro f; simp [evalExpr, env_push_get, harr]
  obtain ⟨F, hF⟩ : ∃ F, evalFuel = F + 1 + 1 := ⟨evalFuel - 2, by omega⟩
  rw [hF, evalProg_cons]
  by_cases hne : vs = []
  · subst hne
    rw [each_empty_else F _ env t1 x (.ident t5 xs) stmts estmts (by
      obtain ⟨k, rfl⟩ : ∃ k, F = k + 1 := ⟨F - 1, by omega⟩
      exact hex k)]
    rw [evalBlock_abody _ estmts ebody hm2 env.push F (hel rfl) (by simp at hsize; omega)]
    simp only [Res.bind_ok]
    rw [evalProg_nil]
    simp [resToOut]
  · have h0 := each_of_text_and_variables' 1 { custom := custom } env t1 x (.ident t5 xs) stmts (some estmts) vs ty (hex 0) hne hxl hfresh hty hsb
      (by rw [hpc]; exact hvis)
    have hm : max 1 (stmts.length + 3) = stmts.length + 3 := by omega
    rw [hm] at h0
    obtain ⟨k, hk⟩ : ∃ k, F + 1 = (stmts.length + 3 + vs.length + 1 + 1) + k := ⟨F + 1 - (stmts.length + 3 + vs.length + 1 + 1), by omega⟩
    rw [hk, evalStmt_lift h0 k]
    simp only [Res.bind_ok]
    rw [← hk, evalProg_nil]
    simp [resToOut, hne, hpc]

section example_each_else
private def exBody : List AItem := [.print [] (b "v") [], .text (b ",")]
private def exElse : List AItem := [.text (b "none for "), .print [32] (b "who") [32]]

example : eachElseSrc [] (b "v") [32] [32] (b "xs") [] exBody exElse = b "@each(v in xs){{v}},@elsenone for {{ who }}@end" := by decide

/-- the array has elements: the passes; it is empty: the `@else` block -/
example : evaluateStringPure [] (b "@each(v in xs){{v}},@elsenone for {{ who }}@end") [(b "who", .str (b "me")), (b "xs", .slice [.int 1, .int 2])] = .ok (b "1,2,") := by
  have h := each_else_renders_from_source [] [] (b "v") [32] [32] (b "xs") [] exBody exElse
    ⟨by decide, by decide, by decide, by decide, by decide, by decide, by decide, by decide, by decide, by decide, by decide⟩ (by decide)
    [(b "who", .str (b "me")), (b "xs", .slice [.int 1, .int 2])] [[(b "who", .str (b "me")), (b "xs", .arr [.int 1, .int 2])]] (by rfl)
    [.int 1, .int 2] .INTEGER (by rfl) (by decide) (by decide)
    (fun old ho => by have : Env.get [[(b "who", Val.str (b "me")), (b "xs", Val.arr [.int 1, .int 2])]] (b "v") = none := by decide
                      rw [this] at ho; cases ho)
    ⟨Or.inl rfl, trivial⟩ (fun e => by cases e) (by decide)
  have hs : eachElseSrc [] (b "v") [32] [32] (b "xs") [] exBody exElse = b "@each(v in xs){{v}},@elsenone for {{ who }}@end" := by decide
  have ho : passTexts [[(b "who", Val.str (b "me")), (b "xs", Val.arr [.int 1, .int 2])]] (b "v") (apieces exBody) 2 [.int 1, .int 2] 0 = b "1,2," := by decide
  rw [hs] at h
  simp only [List.cons_ne_self, reduceCtorEq, if_false, List.length_cons, List.length_nil] at h
  rw [show (0 + 1 + 1 : Nat) = 2 from rfl, ho] at h
  exact h

example : evaluateStringPure [] (b "@each(v in xs){{v}},@elsenone for {{ who }}@end") [(b "who", .str (b "me")), (b "xs", .slice [])] = .ok (b "none for me") := by
  have h := each_else_renders_from_source [] [] (b "v") [32] [32] (b "xs") [] exBody exElse
    ⟨by decide, by decide, by decide, by decide, by decide, by decide, by decide, by decide, by decide, by decide, by decide⟩ (by decide)
    [(b "who", .str (b "me")), (b "xs", .slice [])] [[(b "who", .str (b "me")), (b "xs", .arr [])]] (by rfl)
    [] .INTEGER (by rfl) (fun v hv => by cases hv) (by decide)
    (fun old ho => by have : Env.get [[(b "who", Val.str (b "me")), (b "xs", Val.arr [])]] (b "v") = none := by decide
                      rw [this] at ho; cases ho)
    ⟨Or.inl rfl, trivial⟩ (fun _ => ⟨by rfl, trivial⟩) (by decide)
  have hs : eachElseSrc [] (b "v") [32] [32] (b "xs") [] exBody exElse = b "@each(v in xs){{v}},@elsenone for {{ who }}@end" := by decide
  have ho : (aeval (Env.push [[(b "who", Val.str (b "me")), (b "xs", Val.arr [])]]) exElse).1 = b "none for me" := by decide
  rw [hs] at h
  simp only [if_true] at h
  rw [ho] at h
  exact h
end example_each_else

/-! ### end-to-end instances (kernel evaluation of the whole pipeline) -/

example : (match evaluateStringPure [] (b "@each(v in [7,8,9]){{ loop.index }}{{ loop.iter }}{{ loop.first }}{{ loop.last }}:{{ v }};@end") [] with
    | .ok out => out == b "0110:7;1200:8;2301:9;" | _ => false) = true := by decide +kernel

example : (match evaluateStringPure [] (b "@each(v in [1,2,3,4])a@if(v == 2)@continue@end@if(v == 3)b@break@end{{ v }}@end!") [] with
    | .ok out => out == b "a1aab!" | _ => false) = true := by decide +kernel

example : (match evaluateStringPure [] (b "@for(i = 0; i < 3; i++){{ i }}@else none@end|@for(i = 0; i < 0; i++)x@else none@end") [] with
    | .ok out => out == b "012| none" | _ => false) = true := by decide +kernel

end Tw.C03
