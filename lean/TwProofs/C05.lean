/-
  TwProofs.C05 — text outside Textwire syntax is emitted byte for byte.
-/
import TwProofs.Lemmas.PlainText
import TwProofs.Lemmas.TextPieces
import TwProofs.Lemmas.TextRuns
import TwProofs.Lemmas.TextVars

namespace Tw.C05
open Tw

/-- `readHTML` copies plain text unchanged, whatever precedes it -/
theorem readHTML_copies_plain (rest : Bytes) (prev : Byte) (h : Plain rest) :
    htmlScan prev [] 0 false rest = (rest.reverse, rest.length, false) := by
  have := htmlScan_plain rest prev [] 0 false h
  simpa using this

/-- **plain text renders to itself**: for *every* byte string that contains no "{{" and no '@'
    followed by a directive keyword — including ones that begin with "}}", contain single braces,
    backslashes, CR, LF, NUL or bytes ≥ 0x80 — `EvaluateString` (lexer, parser and evaluator
    composed) returns exactly that string, for every data map that converts -/
theorem plain_text_identity (custom : List ((VType × Bytes) × Nat)) (s : Bytes) (hp : Plain s)
    (data : List (Bytes × GoVal)) (env : Env) (henv : envFromMap data = .ok env) :
    ∃ out, evaluateStringPure custom s data = .ok out ∧ out = s :=
  evaluateString_plain custom s hp data env henv

/-- a text statement evaluates to its token's literal -/
theorem html_stmt_verbatim (fuel : Nat) (c : Ctx) (env : Env) (t : Token) :
    evalStmt (fuel + 1) c env (.html t) = .ok ({ text := t.lit }, env) := rfl

/-- **a comment renders nothing**: text `a`, a comment with *any* body that does not contain the
    terminator (code, directives, braces, newlines, dashes), text `b` render as `a ++ b`.
    `PlainBefore a tl`: no "{{" and no directive keyword starts inside `a` when `tl` follows;
    `lastOr a 0 ≠ 92`: `a` does not end in a backslash (that would escape the "{{") -/
theorem comment_is_silent (custom : List ((VType × Bytes) × Nat)) (a cm b : Bytes) (ha : a ≠ []) (hb : b ≠ [])
    (hpa : PlainBefore a ([123, 123, 45, 45] ++ cm ++ [45, 45, 125, 125] ++ b)) (hesc : lastOr a 0 ≠ 92) (hpb : Plain b)
    (hcm : commentScan (cm ++ [45, 45, 125, 125] ++ b) = cm.length)
    (data : List (Bytes × GoVal)) (env : Env) (henv : envFromMap data = .ok env) :
    evaluateStringPure custom (a ++ ([123, 123, 45, 45] ++ cm ++ [45, 45, 125, 125] ++ b)) data = .ok (a ++ b) :=
  comment_renders_nothing custom a cm b ha hb hpa hesc hpb hcm data env henv

/-- **an escaped "{{" is text**: `a \{{ b` renders as `a {{ b` — the backslash disappears and
    nothing between the braces is evaluated (`Plain (123 :: b)`: `b` is plain and does not start
    with a third brace) -/
theorem escaped_braces_are_text (custom : List ((VType × Bytes) × Nat)) (a b : Bytes)
    (hpa : PlainBefore (a ++ [92]) (123 :: 123 :: b)) (hpb : Plain (123 :: b))
    (data : List (Bytes × GoVal)) (env : Env) (henv : envFromMap data = .ok env) :
    evaluateStringPure custom ((a ++ [92]) ++ 123 :: 123 :: b) data = .ok (a ++ 123 :: 123 :: b) :=
  escaped_braces_render custom a b hpa hpb data env henv

/-- **an escaped directive is text**: `a \@if(x) …` renders as `a @if(x) …` -/
theorem escaped_directive_is_text (custom : List ((VType × Bytes) × Nat)) (a b : Bytes)
    (hpa : PlainBefore (a ++ [92]) (64 :: b)) (hd : hasDirectivePrefix (64 :: b) = true) (hpb : Plain b)
    (data : List (Bytes × GoVal)) (env : Env) (henv : envFromMap data = .ok env) :
    evaluateStringPure custom ((a ++ [92]) ++ 64 :: b) data = .ok (a ++ 64 :: b) :=
  escaped_directive_render custom a b hpa hd hpb data env henv

/-- **text and comments in general**: a template made of any number of text runs — each a sequence
    of plain pieces and escapes (`\{{`, `\@directive`) — separated by comments with arbitrary
    bodies renders as the concatenation of the runs with the escaping backslashes removed, for
    every data map and every set of custom functions: one HTML token per run (`tokenize_items`),
    one text statement per token (`parse_texts`), nothing evaluated.
    `ItemsOK`: the plain pieces hold no "{{" and no directive keyword (given what follows), every
    escape stands in front of something it escapes, a run that is followed by a comment does not
    end in a backslash, the comment bodies do not hold the terminator.  The bound on the number of
    runs is the model's evaluation fuel. -/
theorem text_and_comments_render (custom : List ((VType × Bytes) × Nat)) (items : List Item) (hok : ItemsOK items)
    (hsize : (itemsLits items).length + 1 ≤ evalFuel)
    (data : List (Bytes × GoVal)) (env : Env) (henv : envFromMap data = .ok env) :
    evaluateStringPure custom (itemsSrc items) data = .ok (itemsLits items).flatten :=
  items_render custom items hok hsize data env henv

/-- the token list of such a template: one HTML token per run, its literal the run's text -/
theorem text_and_comments_tokens (items : List Item) (hok : ItemsOK items) :
    ∃ toks e, tokenize (itemsSrc items) = some { toks := toks ++ [e], insideCode := false, panicked := false } ∧
      toks.map (·.lit) = itemsLits items ∧ (∀ t ∈ toks, t.ty = .HTML) ∧ e.ty = .EOF :=
  tokenize_items items hok

/-- **text around code, from the source bytes to the output** — templates of text runs (with any
    number of escaped "{{" and escaped directives), comments and `{{ name }}` blocks with any
    white space around the name: every byte of text appears unchanged and in order, the escaping
    backslashes are gone, the comments leave nothing, and each block is replaced by the printed
    value of its name.  The whole pipeline — lexer, parser, evaluator — for every such template
    and every data map that binds the printed names. -/
theorem text_comments_and_variables_render (custom : List ((VType × Bytes) × Nat)) (items : List VItem) (hok : VItemsOK items)
    (hsize : (vpieces items).length + 3 ≤ evalFuel)
    (data : List (Bytes × GoVal)) (env : Env) (henv : envFromMap data = .ok env) (hb : holesBound env (vpieces items)) :
    evaluateStringPure custom (vitemsSrc items) data = .ok (fill env (vpieces items)) :=
  vitems_render custom items hok hsize data env henv hb

/-- its token list: text tokens, and LBRACES IDENT RBRACES for every block whatever the spacing -/
theorem text_comments_and_variables_tokens (items : List VItem) (hok : VItemsOK items) :
    ∃ toks e, tokenize (vitemsSrc items) = some { toks := toks ++ [e], insideCode := false, panicked := false } ∧
      toks.map key = vkeys items ∧ e.ty = .EOF :=
  tokenize_vitems items hok

section example_vars
private def exItems : List VItem := [.text [.plain (b "Hi ")], .print (b " ") (b "name") (b " "), .text [.plain (b "!")], .comment (b " c "),
  .text [.plain (b " "), .esc 123, .plain (b "{ x }} ")], .print [] (b "n") [], .print (b "\n\t") (b "name") (b "\n")]
private def exEnv : Env := [[(b "n", .int 3), (b "name", .str (b "Ann"))]]
private def exData : List (Bytes × GoVal) := [(b "name", .str (b "Ann")), (b "n", .int 3)]

/-- `Hi {{ name }}!{{-- c --}} \{{ x }} {{n}}{{\n\tname\n}}` with name = "Ann", n = 3: the hypotheses of
    the theorem hold, and its conclusion is the render `Hi Ann! {{ x }} 3Ann` -/
example : evaluateStringPure [] (b "Hi {{ name }}!{{-- c --}} \\{{ x }} {{n}}{{\n\tname\n}}") exData = .ok (b "Hi Ann! {{ x }} 3Ann") := by
  have h := text_comments_and_variables_render [] exItems (by decide) (by decide) exData exEnv (by rfl) (by decide)
  have h1 : vitemsSrc exItems = b "Hi {{ name }}!{{-- c --}} \\{{ x }} {{n}}{{\n\tname\n}}" := by decide
  have h2 : fill exEnv (vpieces exItems) = b "Hi Ann! {{ x }} 3Ann" := by decide
  rw [h1, h2] at h
  exact h
end example_vars

/-! non-vacuity -/

/-- a run with two escapes, a comment holding code, a comment right behind it, a last run:
    `a \{{ b }} \@if(x){{-- {{ y }} @end --}}{{----}} z\` -/
example :
    let items : List Item := [.text [.plain (b "a "), .esc 123, .plain (b "{ b }} "), .esc 64, .plain (b "if(x)")],
      .comment (b " {{ y }} @end "), .comment [], .text [.plain (b " z\\")]]
    ItemsOK items ∧ itemsSrc items = b "a \\{{ b }} \\@if(x){{-- {{ y }} @end --}}{{----}} z\\" ∧
      (itemsLits items).flatten = b "a {{ b }} @if(x) z\\" := by
  decide

example : Plain (b "}} a { } \\ x@y @ix @ \r\n") := by decide
example : ¬ Plain (b "a{{") := by decide
example : ¬ Plain (b "x@if(") := by decide
example : (match evaluateStringPure [] (b "a\\{{ x }} b{{-- c --x} ---}} --}}c") [] with | .ok o => o == b "a{{ x }} b --}}c" | _ => false) = true := by
  decide

end Tw.C05
