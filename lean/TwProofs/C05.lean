/-
  TwProofs.C05 — text outside Textwire syntax is emitted byte for byte.
-/
import TwProofs.Lemmas.PlainText

namespace Tw.C05
open Tw

/-- `readHTML` copies plain text unchanged, whatever precedes it -/
theorem readHTML_copies_plain (rest : Bytes) (prev : Byte) (h : Plain rest) :
    htmlScan prev [] 0 false rest = (rest.reverse, rest.length, false) := by
  have := htmlScan_plain rest prev [] 0 false h
  simpa using this

/-- **plain text renders to itself**: for *every* byte string that contains no "{{" and no '@'
    followed by a directive keyword — including ones that begin with "}}", contain single braces,
    backslashes, CR, LF, NUL or bytes ≥ 0x80 — `EvaluateString` (lexer, parser and evaluator
    composed) returns exactly that string, for every data map that converts -/
theorem plain_text_identity (custom : List ((VType × Bytes) × Nat)) (s : Bytes) (hp : Plain s)
    (data : List (Bytes × GoVal)) (env : Env) (henv : envFromMap data = .ok env) :
    ∃ out, evaluateStringPure custom s data = .ok out ∧ out = s :=
  evaluateString_plain custom s hp data env henv

/-- a text statement evaluates to its token's literal -/
theorem html_stmt_verbatim (fuel : Nat) (c : Ctx) (env : Env) (t : Token) :
    evalStmt (fuel + 1) c env (.html t) = .ok ({ text := t.lit }, env) := rfl

/-! non-vacuity -/

example : Plain (b "}} a { } \\ x@y @ix @ \r\n") := by decide
example : ¬ Plain (b "a{{") := by decide
example : ¬ Plain (b "x@if(") := by decide
example : (match evaluateStringPure [] (b "a\\{{ x }} b{{-- c --x} ---}} --}}c") [] with | .ok o => o == b "a{{ x }} b --}}c" | _ => false) = true := by
  decide

end Tw.C05
