/-
  TwProofs.C05 — property theorems (see DESIGN.md, section 6).
-/
import TwModel
import TwSpec

namespace Tw.C05
open Tw

end Tw.C05
