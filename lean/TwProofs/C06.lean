/-
  TwProofs.C06 — property theorems (see DESIGN.md, section 6).
-/
import TwModel
import TwSpec

namespace Tw.C06
open Tw

end Tw.C06
