/-
  TwProofs.C06 — a page that uses a layout renders the layout with its reserves filled.

  The loader (`TwModel.Api.loadPage`, transcription of parser_utils.go / ast/program.go) turns a
  page with `@use(L)` into the single statement `@use` whose context carries the layout's
  statements and, per `@reserve` node of the layout, the page's `@insert` of that name.
  Theorems: what the loader builds and which errors it reports; that rendering `@use` is
  rendering the layout's statements; that a `@reserve` renders the bound insert (block or
  expression) evaluated in the environment of the call, and nothing when there is none.
-/
import TwModel
import TwSpec
import TwProofs.Lemmas.EvalStep
import TwProofs.Lemmas.LoadWhole

namespace Tw.C06
open Tw

/-! ### evaluation -/

/-- rendering the page is rendering the layout's statements (same context, same data) -/
theorem use_renders_layout (f : Nat) (c : Ctx) (env : Env) (t : Token) (n : Bytes) (L : List Stmt)
    (hl : c.layout = some L) (hu : c.layoutHasUse = false) :
    evalStmt (f + 1) c env (.use t n) = (evalProg f c env L []).bind fun r => .ok ({ text := r.1 }, r.2) := by
  rw [evalStmt_succ]
  simp only [stmtBody, hl, hu, calleesAt_prog]
  rfl

theorem page_renders_layout (f : Nat) (c : Ctx) (env : Env) (t : Token) (n : Bytes) (L : List Stmt)
    (hl : c.layout = some L) (hu : c.layoutHasUse = false) (out : Bytes) (env' : Env)
    (hL : evalProg f c env L [] = .ok (out, env')) :
    evalProg (f + 1 + 1) c env [.use t n] [] = .ok (out, env') := by
  rw [evalProg_cons, use_renders_layout f c env t n L hl hu, hL, Res.bind_ok, Res.bind_ok, evalProg_nil]
  simp

/-- a layout that itself uses a layout is an error -/
theorem layout_with_use_is_error (f : Nat) (c : Ctx) (env : Env) (t : Token) (n : Bytes) (L : List Stmt)
    (hl : c.layout = some L) (hu : c.layoutHasUse = true) :
    evalStmt (f + 1) c env (.use t n) = .err "ErrUseStmtNotAllowed" t.errorLine [] := by
  rw [evalStmt_succ]
  simp only [stmtBody, hl, hu]
  rfl

/-- `@reserve(n)` with a block insert renders the block's text, evaluated with the data of the call -/
theorem reserve_renders_block (f : Nat) (c : Ctx) (env : Env) (t : Token) (n : Bytes) (rid : Nat) (ins : InsertDef)
    (blk : List Stmt) (hb : lookupNat c.inserts rid = some ins) (hblk : ins.block = some blk) :
    evalStmt (f + 1) c env (.reserve t n rid) = (evalBlock f c env blk).bind fun r => .ok ({ text := r.1.text }, r.2) := by
  rw [evalStmt_succ]
  simp only [stmtBody, hb, hblk, calleesAt_block]

/-- … with the expression form, the printed value of the expression -/
theorem reserve_renders_value (f : Nat) (c : Ctx) (env : Env) (t : Token) (n : Bytes) (rid : Nat) (ins : InsertDef)
    (ae : Expr) (hb : lookupNat c.inserts rid = some ins) (hblk : ins.block = none) (harg : ins.arg = some ae) :
    evalStmt (f + 1) c env (.reserve t n rid) = (evalExpr f c env ae).bind fun v => .ok ({ text := v.toStr }, env) := by
  rw [evalStmt_succ]
  simp only [stmtBody, hb, hblk, harg, calleesAt_expr]

/-- … and nothing when the page has no insert of that name -/
theorem reserve_without_insert_renders_nothing (f : Nat) (c : Ctx) (env : Env) (t : Token) (n : Bytes) (rid : Nat)
    (hb : lookupNat c.inserts rid = none) :
    evalStmt (f + 1) c env (.reserve t n rid) = .ok ({}, env) := by
  rw [evalStmt_succ]
  simp only [stmtBody, hb]

/-- an `@insert` renders nothing where it stands (its content goes to the reserve) -/
theorem insert_renders_nothing_in_place (f : Nat) (c : Ctx) (env : Env) (t : Token) (n : Bytes) (a : Option Expr)
    (bl : Option (List Stmt)) : evalStmt (f + 1) c env (.insert t n a bl) = .ok ({}, env) := rfl

/-! ### loading -/

/-- the insert bound to a reserve node is the page's insert of the reserve's name (allocation
    numbers of the layout's reserve nodes are distinct) -/
theorem bound_insert (ins : List (Bytes × InsertDef)) :
    ∀ (reserves : List (Bytes × Nat)), reserves.Pairwise (fun x y => x.2 ≠ y.2) → ∀ n rid, (n, rid) ∈ reserves →
      lookupNat (reserves.filterMap fun (n, rid) => (mapGet ins n).map fun i => (rid, i)) rid = mapGet ins n
  | [], _, n, rid, h => by cases h
  | (n0, r0) :: rest, hd, n, rid, hmem => by
    have hd' := List.pairwise_cons.mp hd
    rcases List.mem_cons.mp hmem with h | h
    · cases h
      simp only [List.filterMap_cons]
      cases hg : mapGet ins n0 with
      | none =>
        simp only [Option.map_none]
        -- no later entry has this number
        unfold lookupNat
        have : (rest.filterMap fun (n, rid) => (mapGet ins n).map fun i => (rid, i)).find? (fun p => p.1 == r0) = none := by
          rw [List.find?_eq_none]
          intro x hx
          obtain ⟨y, hy, hxy⟩ := List.mem_filterMap.mp hx
          obtain ⟨yn, yr⟩ := y
          simp only [Option.map_eq_some_iff] at hxy
          obtain ⟨i, _, hi⟩ := hxy
          rw [← hi]
          have := hd'.1 (yn, yr) hy
          simpa using fun e => this e.symm
        rw [this]; rfl
      | some i => simp [lookupNat]
    · have ih := bound_insert ins rest hd'.2 n rid h
      simp only [List.filterMap_cons]
      cases hg : mapGet ins n0 with
      | none => simpa using ih
      | some i =>
        simp only [Option.map_some]
        have hne : (r0 == rid) = false := by simpa using hd'.1 (n, rid) h
        unfold lookupNat at ih ⊢
        simp only [List.find?_cons, hne]
        exact ih

/-- for a layout file that parses: the insert bound to each of its reserve nodes is the page's
    insert of the reserve's name — the allocation numbers the parser gives to `@reserve` nodes are
    pairwise different (`parseSource_whole`), so no hypothesis about them is needed -/
theorem bound_insert_of_parsed_layout (fs : Fs) (lp : Bytes) (lprog : Program) (ins : List (Bytes × InsertDef))
    (hl : parseFile fs lp layoutBase = .ok lprog) (n : Bytes) (rid : Nat) (hm : (n, rid) ∈ lprog.reserves) :
    lookupNat (lprog.reserves.filterMap fun (n, rid) => (mapGet ins n).map fun i => (rid, i)) rid = mapGet ins n :=
  bound_insert ins lprog.reserves (parseFile_whole fs lp layoutBase lprog hl).reserveIds n rid hm

/-- an insert that names no reserve of the layout is reported, with the line of the insert -/
theorem undefined_insert_is_reported (fs : Fs) (c : Cfg) (p : Bytes) (prog lprog : Program) (ut : Token) (lname : Bytes)
    (n : Bytes) (ins : InsertDef)
    (hp : parseFile fs p 0 = .ok prog) (hu : prog.useName = some (ut, lname))
    (hl : parseFile fs (templatePath c lname) layoutBase = .ok lprog)
    (hfind : (sortByKey prog.inserts).find? (fun x => (mapGet lprog.reserves x.1).isNone) = some (n, ins)) :
    loadPage fs c p = .error (failOf "ErrUndefinedInsert" ins.tok.errorLine [n] p) := by
  unfold loadPage
  rw [hp]
  simp only [hu, hl, hfind]

/-- a missing (or unreadable) layout file is reported with the line of the `@use` -/
theorem missing_layout_is_reported (fs : Fs) (c : Cfg) (p : Bytes) (prog : Program) (ut : Token) (lname : Bytes)
    (hp : parseFile fs p 0 = .ok prog) (hu : prog.useName = some (ut, lname))
    (hl : readFile fs (templatePath c lname) = .notExist) :
    loadPage fs c p = .error (osFail ut.errorLine (templatePath c lname)) := by
  unfold loadPage
  rw [hp]
  simp only [hu, parseFile, hl, osFail]
  rfl

/-- two inserts with one name: the parser records the error at the second one -/
theorem duplicate_insert_is_reported (pe : Nat → PS → Expr × PS) (pbody : PS → List Stmt × PS) (p : PS)
    (hok : (p.expectPeek .LPAREN).1 = true)
    (hdup : (mapGet (p.expectPeek .LPAREN).2.next.inserts (p.expectPeek .LPAREN).2.next.cur.lit).isSome = true) :
    parseInsertStmt pe pbody p =
      (.bad, (p.expectPeek .LPAREN).2.next.err p.cur.errorLine "ErrDuplicateInserts" [(p.expectPeek .LPAREN).2.next.cur.lit]) := by
  unfold parseInsertStmt
  simp only []
  rw [if_neg (by rw [hok]; simp), if_pos hdup]

/-- what the loader registers for a page with a layout: the single statement `@use`, the
    layout's statements, the inserts bound to the layout's reserve nodes, the component programs;
    the page's own text outside inserts is not part of it -/
theorem loaded_page_shape (fs : Fs) (c : Cfg) (p : Bytes) (prog lprog : Program) (ut : Token) (lname : Bytes)
    (comps : List (Nat × List Stmt))
    (hp : parseFile fs p 0 = .ok prog) (hu : prog.useName = some (ut, lname))
    (hl : parseFile fs (templatePath c lname) layoutBase = .ok lprog)
    (hfind : (sortByKey prog.inserts).find? (fun x => (mapGet lprog.reserves x.1).isNone) = none)
    (hc : applyComponents fs c prog.components p = .ok comps) (hres : prog.reserves.isEmpty = true) :
    loadPage fs c p = .ok (some
      { stmts := [.use ut lname],
        ctx := { layout := some lprog.stmts, layoutHasUse := lprog.useName.isSome,
                 inserts := lprog.reserves.filterMap fun (n, rid) => (mapGet prog.inserts n).map fun ins => (rid, ins),
                 comps := comps } }) := by
  unfold loadPage
  rw [hp]
  simp only [hu, hl, hfind, hc, hres]
  rfl

/-- a file that declares reserves is a layout: it is not registered as a page -/
theorem layout_files_are_not_pages (fs : Fs) (c : Cfg) (p : Bytes) (prog : Program) (comps : List (Nat × List Stmt))
    (hp : parseFile fs p 0 = .ok prog) (hu : prog.useName = none)
    (hc : applyComponents fs c prog.components p = .ok comps) (hres : prog.reserves.isEmpty = false) :
    loadPage fs c p = .ok none := by
  unfold loadPage
  rw [hp]
  simp only [hu, hc, hres]
  rfl

/-- `~name` in `@use` means `layouts/name` -/
theorem tilde_means_layouts (p : PS) (rest : Bytes) (h : p.cur.lit = 126 :: rest) :
    (aliasPath p "layouts").1 = b "layouts" ++ [47] ++ rest := by
  unfold aliasPath
  simp [h]

/-! ### an instance through the whole pipeline: loader + evaluator on an in-memory file tree -/

def demoFs : Fs :=
  [ (b "templates", .dir), (b "templates/layouts", .dir),
    (b "templates/layouts/main.tw.html", .file (b "<h1>@reserve(\"title\")</h1><p>@reserve(\"body\")</p>@reserve(\"none\")!")),
    (b "templates/home.tw.html", .file (b "@use(\"~main\")ignored@insert(\"title\", t + \"!\")@insert(\"body\")Hi {{ name }}@end ignored")) ]

example :
    (match newTemplate { fs := demoFs } none with
      | (w, .ok t) =>
        (match tplString w t (b "home") [(b "name", .str (b "Ann")), (b "t", .str (b "T"))] with
          | .ok out => out == b "<h1>T!</h1><p>Hi Ann</p>!"
          | _ => false)
      | _ => false) = true := by decide +kernel

end Tw.C06
