/-
  TwProofs.C06 — a page that uses a layout renders the layout with its reserves filled.

  The loader (`TwModel.Api.loadPage`, transcription of parser_utils.go / ast/program.go) turns a
  page with `@use(L)` into the single statement `@use` whose context carries the layout's
  statements and, per `@reserve` node of the layout, the page's `@insert` of that name.
  Theorems: what the loader builds and which errors it reports; that rendering `@use` is
  rendering the layout's statements; that a `@reserve` renders the bound insert (block or
  expression) evaluated in the environment of the call, and nothing when there is none.
-/
import TwModel
import TwSpec
import TwProofs.Lemmas.EvalStep
import TwProofs.Lemmas.LoadWhole
import TwProofs.Lemmas.TextLayout

namespace Tw.C06
open Tw

/-! ### evaluation -/

/-- rendering the page is rendering the layout's statements (same context, same data) -/
theorem use_renders_layout (f : Nat) (c : Ctx) (env : Env) (t : Token) (n : Bytes) (L : List Stmt)
    (hl : c.layout = some L) (hu : c.layoutHasUse = false) :
    evalStmt (f + 1) c env (.use t n) = (evalProg f c env L []).bind fun r => .ok ({ text := r.1 }, r.2) := by
  rw [evalStmt_succ]
  simp only [stmtBody, hl, hu, calleesAt_prog]
  rfl

theorem page_renders_layout (f : Nat) (c : Ctx) (env : Env) (t : Token) (n : Bytes) (L : List Stmt)
    (hl : c.layout = some L) (hu : c.layoutHasUse = false) (out : Bytes) (env' : Env)
    (hL : evalProg f c env L [] = .ok (out, env')) :
    evalProg (f + 1 + 1) c env [.use t n] [] = .ok (out, env') := by
  rw [evalProg_cons, use_renders_layout f c env t n L hl hu, hL, Res.bind_ok, Res.bind_ok, evalProg_nil]
  simp

/-- a layout that itself uses a layout is an error -/
theorem layout_with_use_is_error (f : Nat) (c : Ctx) (env : Env) (t : Token) (n : Bytes) (L : List Stmt)
    (hl : c.layout = some L) (hu : c.layoutHasUse = true) :
    evalStmt (f + 1) c env (.use t n) = .err "ErrUseStmtNotAllowed" t.errorLine [] := by
  rw [evalStmt_succ]
  simp only [stmtBody, hl, hu]
  rfl

/-- `@reserve(n)` with a block insert renders the block's text, evaluated with the data of the call -/
theorem reserve_renders_block (f : Nat) (c : Ctx) (env : Env) (t : Token) (n : Bytes) (rid : Nat) (ins : InsertDef)
    (blk : List Stmt) (hb : lookupNat c.inserts rid = some ins) (hblk : ins.block = some blk) :
    evalStmt (f + 1) c env (.reserve t n rid) = (evalBlock f c env blk).bind fun r => .ok ({ text := r.1.text }, r.2) := by
  rw [evalStmt_succ]
  simp only [stmtBody, hb, hblk, calleesAt_block]

/-- … with the expression form, the printed value of the expression -/
theorem reserve_renders_value (f : Nat) (c : Ctx) (env : Env) (t : Token) (n : Bytes) (rid : Nat) (ins : InsertDef)
    (ae : Expr) (hb : lookupNat c.inserts rid = some ins) (hblk : ins.block = none) (harg : ins.arg = some ae) :
    evalStmt (f + 1) c env (.reserve t n rid) = (evalExpr f c env ae).bind fun v => .ok ({ text := v.toStr }, env) := by
  rw [evalStmt_succ]
  simp only [stmtBody, hb, hblk, harg, calleesAt_expr]

/-- … and nothing when the page has no insert of that name -/
theorem reserve_without_insert_renders_nothing (f : Nat) (c : Ctx) (env : Env) (t : Token) (n : Bytes) (rid : Nat)
    (hb : lookupNat c.inserts rid = none) :
    evalStmt (f + 1) c env (.reserve t n rid) = .ok ({}, env) := by
  rw [evalStmt_succ]
  simp only [stmtBody, hb]

/-- an `@insert` renders nothing where it stands (its content goes to the reserve) -/
theorem insert_renders_nothing_in_place (f : Nat) (c : Ctx) (env : Env) (t : Token) (n : Bytes) (a : Option Expr)
    (bl : Option (List Stmt)) : evalStmt (f + 1) c env (.insert t n a bl) = .ok ({}, env) := rfl

/-! ### loading -/

/-- the insert bound to a reserve node is the page's insert of the reserve's name (allocation
    numbers of the layout's reserve nodes are distinct) -/
theorem bound_insert (ins : List (Bytes × InsertDef)) :
    ∀ (reserves : List (Bytes × Nat)), reserves.Pairwise (fun x y => x.2 ≠ y.2) → ∀ n rid, (n, rid) ∈ reserves →
      lookupNat (reserves.filterMap fun (n, rid) => (mapGet ins n).map fun i => (rid, i)) rid = mapGet ins n
  | [], _, n, rid, h => by cases h
  | (n0, r0) :: rest, hd, n, rid, hmem => by
    have hd' := List.pairwise_cons.mp hd
    rcases List.mem_cons.mp hmem with h | h
    · cases h
      simp only [List.filterMap_cons]
      cases hg : mapGet ins n0 with
      | none =>
        simp only [Option.map_none]
        -- no later entry has this number
        unfold lookupNat
        have : (rest.filterMap fun (n, rid) => (mapGet ins n).map fun i => (rid, i)).find? (fun p => p.1 == r0) = none := by
          rw [List.find?_eq_none]
          intro x hx
          obtain ⟨y, hy, hxy⟩ := List.mem_filterMap.mp hx
          obtain ⟨yn, yr⟩ := y
          simp only [Option.map_eq_some_iff] at hxy
          obtain ⟨i, _, hi⟩ := hxy
          rw [← hi]
          have := hd'.1 (yn, yr) hy
          simpa using fun e => this e.symm
        rw [this]; rfl
      | some i => simp [lookupNat]
    · have ih := bound_insert ins rest hd'.2 n rid h
      simp only [List.filterMap_cons]
      cases hg : mapGet ins n0 with
      | none => simpa using ih
      | some i =>
        simp only [Option.map_some]
        have hne : (r0 == rid) = false := by simpa using hd'.1 (n, rid) h
        unfold lookupNat at ih ⊢
        simp only [List.find?_cons, hne]
        exact ih

/-- for a layout file that parses: the insert bound to each of its reserve nodes is the page's
    insert of the reserve's name — the allocation numbers the parser gives to `@reserve` nodes are
    pairwise different (`parseSource_whole`), so no hypothesis about them is needed -/
theorem bound_insert_of_parsed_layout (fs : Fs) (lp : Bytes) (lprog : Program) (ins : List (Bytes × InsertDef))
    (hl : parseFile fs lp layoutBase = .ok lprog) (n : Bytes) (rid : Nat) (hm : (n, rid) ∈ lprog.reserves) :
    lookupNat (lprog.reserves.filterMap fun (n, rid) => (mapGet ins n).map fun i => (rid, i)) rid = mapGet ins n :=
  bound_insert ins lprog.reserves (parseFile_whole fs lp layoutBase lprog hl).reserveIds n rid hm

/-- an insert that names no reserve of the layout is reported, with the line of the insert -/
theorem undefined_insert_is_reported (fs : Fs) (c : Cfg) (p : Bytes) (prog lprog : Program) (ut : Token) (lname : Bytes)
    (n : Bytes) (ins : InsertDef)
    (hp : parseFile fs p 0 = .ok prog) (hu : prog.useName = some (ut, lname))
    (hl : parseFile fs (templatePath c lname) layoutBase = .ok lprog)
    (hfind : (sortByKey prog.inserts).find? (fun x => (mapGet lprog.reserves x.1).isNone) = some (n, ins)) :
    loadPage fs c p = .error (failOf "ErrUndefinedInsert" ins.tok.errorLine [n] p) := by
  unfold loadPage
  rw [hp]
  simp only [hu, hl, hfind]

/-- a missing (or unreadable) layout file is reported with the line of the `@use` -/
theorem missing_layout_is_reported (fs : Fs) (c : Cfg) (p : Bytes) (prog : Program) (ut : Token) (lname : Bytes)
    (hp : parseFile fs p 0 = .ok prog) (hu : prog.useName = some (ut, lname))
    (hl : readFile fs (templatePath c lname) = .notExist) :
    loadPage fs c p = .error (osFail ut.errorLine (templatePath c lname)) := by
  unfold loadPage
  rw [hp]
  simp only [hu, parseFile, hl, osFail]
  rfl

/-- two inserts with one name: the parser records the error at the second one -/
theorem duplicate_insert_is_reported (pe : Nat → PS → Expr × PS) (pbody : PS → List Stmt × PS) (p : PS)
    (hok : (p.expectPeek .LPAREN).1 = true)
    (hdup : (mapGet (p.expectPeek .LPAREN).2.next.inserts (p.expectPeek .LPAREN).2.next.cur.lit).isSome = true) :
    parseInsertStmt pe pbody p =
      (.bad, (p.expectPeek .LPAREN).2.next.err p.cur.errorLine "ErrDuplicateInserts" [(p.expectPeek .LPAREN).2.next.cur.lit]) := by
  unfold parseInsertStmt
  simp only []
  rw [if_neg (by rw [hok]; simp), if_pos hdup]

/-- what the loader registers for a page with a layout: the single statement `@use`, the
    layout's statements, the inserts bound to the layout's reserve nodes, the component programs;
    the page's own text outside inserts is not part of it -/
theorem loaded_page_shape (fs : Fs) (c : Cfg) (p : Bytes) (prog lprog : Program) (ut : Token) (lname : Bytes)
    (comps : List (Nat × List Stmt))
    (hp : parseFile fs p 0 = .ok prog) (hu : prog.useName = some (ut, lname))
    (hl : parseFile fs (templatePath c lname) layoutBase = .ok lprog)
    (hfind : (sortByKey prog.inserts).find? (fun x => (mapGet lprog.reserves x.1).isNone) = none)
    (hc : applyComponents fs c prog.components p = .ok comps) (hres : prog.reserves.isEmpty = true) :
    loadPage fs c p = .ok (some
      { stmts := [.use ut lname],
        ctx := { layout := some lprog.stmts, layoutHasUse := lprog.useName.isSome,
                 inserts := lprog.reserves.filterMap fun (n, rid) => (mapGet prog.inserts n).map fun ins => (rid, ins),
                 comps := comps } }) := by
  unfold loadPage
  rw [hp]
  simp only [hu, hl, hfind, hc, hres]
  rfl

/-- a file that declares reserves is a layout: it is not registered as a page -/
theorem layout_files_are_not_pages (fs : Fs) (c : Cfg) (p : Bytes) (prog : Program) (comps : List (Nat × List Stmt))
    (hp : parseFile fs p 0 = .ok prog) (hu : prog.useName = none)
    (hc : applyComponents fs c prog.components p = .ok comps) (hres : prog.reserves.isEmpty = false) :
    loadPage fs c p = .ok none := by
  unfold loadPage
  rw [hp]
  simp only [hu, hc, hres]
  rfl

/-- `~name` in `@use` means `layouts/name` -/
theorem tilde_means_layouts (p : PS) (rest : Bytes) (h : p.cur.lit = 126 :: rest) :
    (aliasPath p "layouts").1 = b "layouts" ++ [47] ++ rest := by
  unfold aliasPath
  simp [h]

/-! ### from the bytes of the two files -/

/-- the text a page inserts under a name -/
def lookupIns (ins : List Ins) (k : Bytes) : Option Bytes := (ins.find? (fun i => i.k == k)).map (·.v)

/-- the render: the layout's text, and at each reserve the (escaped) text the page inserts under
    that name — nothing when the page has no insert of that name -/
def lrender (ins : List Ins) : List LItem → Bytes
  | [] => []
  | .text segs :: r => segsLit segs ++ lrender ins r
  | .reserve _ k :: r => (match lookupIns ins k with | some v => literalValue v | none => []) ++ lrender ins r

def lrenderS (ins : List Ins) : List LSpec → Bytes
  | [] => []
  | .text t :: r => t ++ lrenderS ins r
  | .reserve k _ :: r => (match lookupIns ins k with | some v => literalValue v | none => []) ++ lrenderS ins r

theorem lrenderS_lspec (ins : List Ins) : ∀ (items : List LItem) (base : Nat), lrenderS ins (lspec base items) = lrender ins items
  | [], _ => rfl
  | .text segs :: r, base => by simp [lspec, lrenderS, lrender, lrenderS_lspec ins r base]
  | .reserve _ k :: r, base => by simp [lspec, lrenderS, lrender, lrenderS_lspec ins r (base + 1)]

theorem lspec_length : ∀ (items : List LItem) (base : Nat), (lspec base items).length = items.length
  | [], _ => rfl
  | .text _ :: r, base => by simp [lspec, lspec_length r base]
  | .reserve _ _ :: r, base => by simp [lspec, lspec_length r (base + 1)]

/-- what the context binds to the reserve nodes -/
def Bound (tbl : List (Nat × InsertDef)) (ins : List Ins) (specs : List LSpec) : Prop :=
  ∀ k rid, LSpec.reserve k rid ∈ specs →
    match lookupIns ins k with
    | some v => ∃ d, lookupNat tbl rid = some d ∧ d.block = none ∧ ∃ tv, d.arg = some (.str tv v)
    | none => lookupNat tbl rid = none

theorem evalProg_lspec (c : Ctx) (env : Env) (ins : List Ins) : ∀ (specs : List LSpec) (ss : List Stmt) (fuel : Nat) (acc : Bytes),
    ss.map lspecOf = specs.map some → Bound c.inserts ins specs → specs.length + 3 ≤ fuel →
    evalProg fuel c env ss acc = .ok (acc ++ lrenderS ins specs, env) := by
  intro specs
  induction specs with
  | nil =>
    intro ss fuel acc hs _ hf
    have : ss = [] := by simpa using hs
    subst this
    obtain ⟨f, rfl⟩ : ∃ f, fuel = f + 1 := ⟨fuel - 1, by omega⟩
    rw [evalProg_nil]; simp [lrenderS]
  | cons sp r ih =>
    intro ss fuel acc hs hb hf
    cases ss with
    | nil => simp at hs
    | cons st rest =>
      simp only [List.map_cons, List.cons.injEq] at hs
      obtain ⟨hs1, hsr⟩ := hs
      obtain ⟨f, rfl⟩ : ∃ f, fuel = f + 3 := ⟨fuel - 3, by simp at hf; omega⟩
      have hb' : Bound c.inserts ins r := fun k rid h => hb k rid (List.mem_cons_of_mem _ h)
      rw [show f + 3 = (f + 2) + 1 from rfl, evalProg_cons]
      cases st with
      | html t =>
        simp only [lspecOf, Option.some.injEq] at hs1
        subst hs1
        have := ih rest (f + 2) (acc ++ t.lit) hsr hb' (by simp at hf; omega)
        rw [show f + 2 = (f + 1) + 1 from rfl, evalStmt_html, Res.bind_ok, show f + 1 + 1 = f + 2 from rfl, this]
        simp [lrenderS, List.append_assoc]
      | reserve t k rid =>
        simp only [lspecOf, Option.some.injEq] at hs1
        subst hs1
        have hk := hb k rid (by simp)
        cases hl : lookupIns ins k with
        | none =>
          rw [hl] at hk
          simp only [] at hk
          have := ih rest (f + 2) acc hsr hb' (by simp at hf; omega)
          rw [show f + 2 = (f + 1) + 1 from rfl, reserve_without_insert_renders_nothing (f + 1) c env t k rid hk, Res.bind_ok]
          simp only [List.append_nil]
          rw [show f + 1 + 1 = f + 2 from rfl, this]
          simp [lrenderS, hl]
        | some v =>
          rw [hl] at hk
          simp only [] at hk
          obtain ⟨d, hd, hblk, tv, harg⟩ := hk
          have := ih rest (f + 2) (acc ++ literalValue v) hsr hb' (by simp at hf; omega)
          rw [show f + 2 = (f + 1) + 1 from rfl, reserve_renders_value (f + 1) c env t k rid d (.str tv v) hd hblk harg]
          simp only [evalExpr, Res.bind_ok, Val.toStr]
          rw [show f + 1 + 1 = f + 2 from rfl, this]
          simp [lrenderS, hl, List.append_assoc]
      | _ => simp [lspecOf] at hs1

theorem lookupIns_some {ins : List Ins} {k v : Bytes} (h : lookupIns ins k = some v) : ∃ i ∈ ins, i.k = k ∧ i.v = v := by
  unfold lookupIns at h
  simp only [Option.map_eq_some_iff] at h
  obtain ⟨i, hi, hv⟩ := h
  exact ⟨i, List.mem_of_find?_eq_some hi, by simpa using List.find?_some hi, hv⟩

theorem lookupIns_none {ins : List Ins} {k : Bytes} (h : lookupIns ins k = none) : ∀ i ∈ ins, i.k ≠ k := by
  unfold lookupIns at h
  simp only [Option.map_eq_none_iff, List.find?_eq_none] at h
  intro i hi
  simpa using h i hi

/-- **a page that uses a layout, from the bytes of the two files to the output**: for every page
    file `@use("L")@insert("k1", "v1")…@insert("kn", "vn")` (either quote, distinct names, any
    text in the literals that needs no escaping inside the quotes) and every layout file of text
    runs and `@reserve("k")` directives (distinct names, every inserted name reserved), found in
    the file tree where `@use` looks for them, the loader registers the page and rendering it —
    with any data, under any name, with any registered functions — gives the layout's text with, at
    each reserve, the escaped text the page inserts under that name (nothing where the page inserts
    none).  Lexer (`tokenize_gitems`, `lex_dir1`, `lex_dir2`), parser (`parse_page`,
    `parse_layout`), loader (`loaded_page_shape`, `bound_insert_of_parsed_layout`) and evaluator
    (`evalProg_lspec`) composed. -/
theorem layout_page_renders_from_the_sources (fs : Fs) (c : Cfg) (p : Bytes) (q : Byte) (L : Bytes) (ins : List Ins)
    (items : List LItem) (hq : q = 34 ∨ q = 39) (hL : PlainStr q L) (hLne : L ≠ []) (hins : ∀ i ∈ ins, i.OK)
    (hnd : (ins.map Ins.k).Nodup) (hitems : LItemsOK items) (hrnd : (resNames items).Nodup)
    (hres : ∀ i ∈ ins, i.k ∈ resNames items)
    (hP : readFile fs p = .ok (pageSrc q L ins))
    (hLf : readFile fs (templatePath c (layoutName L)) = .ok (layoutSrc items))
    (hsize : items.length + 5 ≤ evalFuel) :
    ∃ pg, loadPage fs c p = .ok (some pg) ∧
      ∀ (w : World) (t : Template) (name : Bytes) (data : List (Bytes × GoVal)) (env : Env),
        mapGet t name = some pg → envFromMap data = .ok env → tplString w t name data = .ok (lrender ins items) := by
  obtain ⟨prog, ut, hpp, huse, hpres, hpcomp, hpins, hpnone, hpkeys⟩ := parse_page q L ins hq hL hLne hins hnd
  obtain ⟨lprog, hlp, hluse, hlstmts, hlres, _⟩ := parse_layout items hitems hrnd layoutBase
  have hpf : parseFile fs p 0 = .ok prog := by unfold parseFile; rw [hP]; simp only [hpp]
  have hlf : parseFile fs (templatePath c (layoutName L)) layoutBase = .ok lprog := by unfold parseFile; rw [hLf]; simp only [hlp]
  have hfind : (sortByKey prog.inserts).find? (fun x => (mapGet lprog.reserves x.1).isNone) = none := by
    rw [List.find?_eq_none]
    intro x hx
    have hx' : x ∈ prog.inserts := (sortByKey_perm prog.inserts).subset hx
    obtain ⟨i, hi, hxi⟩ := hpkeys x hx'
    obtain ⟨rid, hrid⟩ := names_lspec items layoutBase i.k (hres i hi)
    rw [hxi, hlres i.k rid hrid]
    simp
  have hshape := loaded_page_shape fs c p prog lprog ut (layoutName L) [] hpf huse hlf hfind
    (by rw [hpcomp]; rfl) (by rw [hpres]; rfl)
  refine ⟨_, hshape, ?_⟩
  intro w t name data env hpg hd
  unfold tplString envOrFail
  simp only [hd, hpg]
  -- the context binds to each reserve node the page's insert of its name
  have hbound : Bound (lprog.reserves.filterMap fun (n, rid) => (mapGet prog.inserts n).map fun d => (rid, d)) ins (lspec layoutBase items) := by
    intro k rid hm
    have hmem : (k, rid) ∈ lprog.reserves := mapGet_mem _ _ _ (hlres k rid hm)
    have hbi := bound_insert_of_parsed_layout fs _ lprog prog.inserts hlf k rid hmem
    rw [hbi]
    cases hl : lookupIns ins k with
    | none => exact hpnone k (lookupIns_none hl)
    | some v =>
      obtain ⟨i, hi, hik, hiv⟩ := lookupIns_some hl
      obtain ⟨d, hd1, hd2, hd3, tv, hd4⟩ := hpins i hi
      exact ⟨d, by rw [← hik]; exact hd1, hd3, tv, by rw [← hiv]; exact hd4⟩
  obtain ⟨f, hf⟩ : ∃ f, evalFuel = f + 1 + 1 := ⟨evalFuel - 2, by omega⟩
  have hL' := evalProg_lspec
    ({ layout := some lprog.stmts, layoutHasUse := lprog.useName.isSome,
       inserts := (lprog.reserves.filterMap (fun (n, rid) => (mapGet prog.inserts n).map (fun d => (rid, d)))),
       comps := [], custom := w.custom } : Ctx) env ins (lspec layoutBase items) lprog.stmts f [] hlstmts hbound (by
    have := lspec_length items layoutBase
    omega)
  rw [hf, page_renders_layout f _ env ut (layoutName L) lprog.stmts rfl (by simp [hluse]) _ env hL']
  simp [resToOut, lrenderS_lspec]

section example_layout
private def exIns : List Ins := [⟨34, b "title", [32], 34, b "T & Co"⟩, ⟨39, b "body", [], 39, b "Hi"⟩]
private def exItems : List LItem := [.text [.plain (b "<h1>")], .reserve 34 (b "title"), .text [.plain (b "</h1><p>")],
  .reserve 39 (b "body"), .text [.plain (b "</p>")], .reserve 34 (b "none"), .text [.plain (b "!")]]
private def exFs : Fs :=
  [ (b "templates", .dir), (b "templates/layouts", .dir),
    (b "templates/layouts/main.tw.html", .file (b "<h1>@reserve(\"title\")</h1><p>@reserve('body')</p>@reserve(\"none\")!")),
    (b "templates/home.tw.html", .file (b "@use(\"~main\")@insert(\"title\", \"T & Co\")@insert('body','Hi')")) ]

example : pageSrc 34 (b "~main") exIns = b "@use(\"~main\")@insert(\"title\", \"T & Co\")@insert('body','Hi')" := by decide
example : layoutSrc exItems = b "<h1>@reserve(\"title\")</h1><p>@reserve('body')</p>@reserve(\"none\")!" := by decide

/-- the hypotheses of the theorem hold for a concrete tree; the page renders with the ampersand escaped -/
example : ∃ pg, loadPage exFs defaultCfg (b "templates/home.tw.html") = .ok (some pg) ∧
    ∀ (w : World) (t : Template) (name : Bytes) (data : List (Bytes × GoVal)) (env : Env),
      mapGet t name = some pg → envFromMap data = .ok env → tplString w t name data = .ok (b "<h1>T &amp; Co</h1><p>Hi</p>!") := by
  have h := layout_page_renders_from_the_sources exFs defaultCfg (b "templates/home.tw.html") 34 (b "~main") exIns exItems
    (Or.inl rfl) (by decide) (by decide) (by decide) (by decide) (by decide) (by decide) (by decide) (by rfl) (by rfl) (by decide)
  have h2 : lrender exIns exItems = b "<h1>T &amp; Co</h1><p>Hi</p>!" := by decide
  rw [h2] at h
  exact h
end example_layout

/-! ### an instance through the whole pipeline: loader + evaluator on an in-memory file tree -/

def demoFs : Fs :=
  [ (b "templates", .dir), (b "templates/layouts", .dir),
    (b "templates/layouts/main.tw.html", .file (b "<h1>@reserve(\"title\")</h1><p>@reserve(\"body\")</p>@reserve(\"none\")!")),
    (b "templates/home.tw.html", .file (b "@use(\"~main\")ignored@insert(\"title\", t + \"!\")@insert(\"body\")Hi {{ name }}@end ignored")) ]

example :
    (match newTemplate { fs := demoFs } none with
      | (w, .ok t) =>
        (match tplString w t (b "home") [(b "name", .str (b "Ann")), (b "t", .str (b "T"))] with
          | .ok out => out == b "<h1>T!</h1><p>Hi Ann</p>!"
          | _ => false)
      | _ => false) = true := by decide +kernel

end Tw.C06
