/-
  TwProofs.Facts — obligations about the tables regenerated from the Go sources (TIE-1).

  `TwModel/Generated/Facts.lean` is rewritten from /repo's working tree on every run.  Each
  theorem below compares a regenerated table with what the hand-written model uses (or with a
  list of individually justified code sites).  A source change that alters a table breaks the
  corresponding obligation; the check then searches for a failing input (see DESIGN.md §4).
-/
import TwModel

namespace Tw.FactsOk
open Tw

/-- every construct the extractor looks for was found -/
theorem nothing_missing : Gen.missing = [] := by decide

/-! ### F4 / F5: lexer tables -/

theorem keywords_ok : Gen.keywords = Tw.keywords := by decide
theorem directives_ok : Gen.directives = Tw.directives := by decide
theorem simpleTokens_ok : Gen.simpleTokens = Tw.simpleTokens := by decide

def sameSet (a c : List TT) : Bool := a.all (c.contains ·) && c.all (a.contains ·)

theorem tokensWithoutParens_ok : sameSet Gen.tokensWithoutParens Tw.tokensWithoutParens = true := by decide
theorem tokensWithOptionalParens_ok : sameSet Gen.tokensWithOptionalParens Tw.tokensWithOptionalParens = true := by decide

/-- the token types, in declaration order, are exactly the constructors of `TT` -/
def allTT : List TT :=
  [.ILLEGAL, .EOF, .IDENT, .HTML, .INT, .FLOAT, .STR, .ADD, .SUB, .MUL, .DIV, .MOD, .INC, .DEC, .NOT, .ASSIGN,
   .EQ, .NOT_EQ, .LTHAN, .GTHAN, .LTHAN_EQ, .GTHAN_EQ, .LBRACES, .RBRACES, .LBRACE, .RBRACE, .LPAREN, .RPAREN,
   .LBRACKET, .RBRACKET, .QUESTION, .COLON, .COMMA, .DOT, .SEMI, .TRUE, .FALSE, .NIL, .IN, .IF, .ELSE, .ELSE_IF,
   .END, .FOR, .USE, .EACH, .BREAK_IF, .CONTINUE_IF, .INSERT, .RESERVE, .BREAK, .CONTINUE, .COMPONENT, .SLOT, .DUMP]

theorem tokenTypes_ok : Gen.tokenTypes = allTT.map TT.name := by decide

/-- `token.String` has a name for every token type (an index past the table would panic) and
    the names are the ones the model prints in "unexpected token" errors -/
theorem tokenNames_total : allTT.all (fun t => (Gen.tokenNames.find? fun p => p.1 == t).map (·.2) == some (tokenString t)) = true := by
  decide

/-! ### F1 / F2 / F3: the Pratt parser's tables -/

def levelOf (name : String) : Nat := ((Gen.levels.find? fun p => p.1 == name).map (·.2)).getD 0

/-- the level constants have the values the model uses (and hence the stated order
    ternary < equality < comparison < additive < multiplicative < member < prefix < call < index < postfix) -/
theorem levels_ok :
    Gen.levels = [("LOWEST", LOWEST), ("TERNARY", TERNARY), ("EQ", EQL), ("LESS_GREATER", LESS_GREATER), ("SUM", SUM),
      ("PRODUCT", PRODUCT), ("MEMBER_ACCESS", MEMBER_ACCESS), ("PREFIX", PREFIX), ("CALL", CALL), ("INDEX", INDEX),
      ("POSTFIX", POSTFIX)] := by decide

/-- `parser.precedences` gives every token type the level the model's `precedence` gives it -/
theorem precedences_ok :
    allTT.all (fun t =>
      match Gen.precedences.find? fun p => p.1 == t with
      | some (_, lv) => levelOf lv == precedence t
      | none => precedence t == LOWEST) = true := by decide

/-- the registered prefix parse functions are those the model dispatches on -/
theorem prefixFns_ok :
    Gen.prefixFns = [(.FALSE, "parseBooleanLiteral"), (.FLOAT, "parseFloatLiteral"), (.IDENT, "parseIdentifier"),
      (.INT, "parseIntegerLiteral"), (.LBRACE, "parseObjectLiteral"), (.LBRACKET, "parseArrayLiteral"),
      (.LPAREN, "parseGroupedExpression"), (.NIL, "parseNilLiteral"), (.NOT, "parsePrefixExp"), (.STR, "parseStringLiteral"),
      (.SUB, "parsePrefixExp"), (.TRUE, "parseBooleanLiteral")] := by decide

/-- the registered infix parse functions agree with the model's `hasInfix` / `isBinaryOp` -/
theorem infixFns_ok :
    allTT.all (fun t =>
      match Gen.infixFns.find? fun p => p.1 == t with
      | some (_, f) =>
        hasInfix t && (isBinaryOp t == (f == "parseInfixExp")) &&
          ((t == .QUESTION) == (f == "parseTernaryExp")) && ((t == .LBRACKET) == (f == "parseIndexExp")) &&
          ((t == .INC || t == .DEC) == (f == "parsePostfixExp")) && ((t == .DOT) == (f == "parseDotExp"))
      | none => !hasInfix t) = true := by decide

/-- the binding power passed at every `parseExpression` call site: the right operand of a binary
    operator at the operator's own level (`precedence := p.curPrecedence()`), the operand of a
    prefix operator at PREFIX, the then-part of a ternary at TERNARY, everything else at LOWEST -/
theorem parseExpressionCalls_ok :
    Gen.parseExpressionCalls =
      [("parseAssignStmt", "LOWEST"), ("parseBreakIfStmt", "LOWEST"), ("parseComponentStmt", "LOWEST"),
       ("parseContinueIfStmt", "LOWEST"), ("parseEachStmt", "LOWEST"), ("parseElseIfStmt", "LOWEST"),
       ("parseExpressionList", "LOWEST"), ("parseExpressionList", "LOWEST"), ("parseExpressionStmt", "LOWEST"),
       ("parseForStmt", "LOWEST"), ("parseGroupedExpression", "LOWEST"), ("parseIfStmt", "LOWEST"),
       ("parseIndexExp", "LOWEST"), ("parseInfixExp", "precedence"), ("parseInsertStmt", "LOWEST"),
       ("parseObjectLiteral", "LOWEST"), ("parseObjectLiteral", "LOWEST"), ("parsePrefixExp", "PREFIX"),
       ("parseTernaryExp", "LOWEST"), ("parseTernaryExp", "TERNARY")] := by decide

/-! ### F6: built-in functions -/

def typeConst : VType → String
  | .STRING => "STR_OBJ" | .ARRAY => "ARR_OBJ" | .FLOAT => "FLOAT_OBJ" | .INTEGER => "INT_OBJ" | .BOOLEAN => "BOOL_OBJ"
  | .NIL => "NIL_OBJ" | .OBJECT => "OBJ_OBJ"

theorem builtins_ok :
    [VType.STRING, .ARRAY, .FLOAT, .INTEGER, .BOOLEAN, .NIL, .OBJECT].all (fun ty =>
      ((Gen.builtins.find? fun p => p.1 == typeConst ty).map (·.2)).getD [] == builtinNames ty) = true := by decide

/-- every name in the table is implemented by the model's dispatcher (on a probe receiver) -/
theorem builtins_dispatch :
    (builtinNames .STRING).all (fun n => (strBuiltin (b n) [] []).isSome) &&
    (builtinNames .ARRAY).all (fun n => (arrBuiltin (b n) [] []).isSome) &&
    (builtinNames .FLOAT).all (fun n => (floatBuiltin (b n) 0.0).isSome) &&
    (builtinNames .INTEGER).all (fun n => (intBuiltin (b n) 0 []).isSome) &&
    (builtinNames .BOOLEAN).all (fun n => (boolBuiltin (b n) true []).isSome) = true := by decide

/-! ### F7 / F8: messages, defaults -/

/-- every error constant the model raises has a format string in `fail/fail.go` -/
def usedCodes : List String :=
  ["ErrEmptyBraces", "ErrWrongNextToken", "ErrExpectedExpression", "ErrCouldNotParseAs", "ErrNoPrefixParseFunc",
   "ErrIllegalToken", "ErrUnexpectedEOF", "ErrElseifCannotFollowElse", "ErrExpectedObjectLiteral", "ErrExpectedComponentName",
   "ErrDuplicateInserts", "ErrUndefinedInsert", "ErrUndefinedComponent", "ErrSlotNotDefined", "ErrDefaultSlotNotDefined",
   "ErrDuplicateSlotUsage", "ErrComponentMustHaveBlock", "ErrInsertMustHaveContent", "ErrIdentifierNotFound",
   "ErrIndexNotSupported", "ErrUnknownOperator", "ErrTypeMismatch", "ErrUnknownTypeForOperator", "ErrPrefixOperatorIsWrong",
   "ErrUseStmtMustHaveProgram", "ErrUseStmtNotAllowed", "ErrLoopVariableIsReserved", "ErrVariableTypeMismatch",
   "ErrDotOperatorNotSupported", "ErrPropertyNotFound", "ErrDivisionByZero", "ErrEachNotArray", "ErrNoFuncForThisType",
   "ErrFuncRequiresOneArg", "ErrFuncFirstArgInt", "ErrFuncFirstArgStr", "ErrFuncSecondArgInt", "ErrFuncSecondArgStr",
   "ErrFuncMaxArgs", "ErrFuncArgNegative", "ErrFuncResultTooLong", "ErrUnsupportedType", "ErrTemplateNotFound",
   "ErrFuncAlreadyDefined"]

theorem errFormats_cover : usedCodes.all (fun c => (fmtLookup c).isSome) = true := by decide

theorem configDefaults_ok : Gen.configDefaults.length = 4 := by decide

/-! ### F9 / F10 / F11: code sites -/

/-- F9: on the paths from String / Response / EvaluateString / EvaluateFile the only writes to
    package-level state are atomic stores of the mode flag (which no render reads: C16) -/
theorem renderPathWrites_ok :
    Gen.renderPathWrites.all (fun w => w.2.1 == "textwire.usesTemplates" && w.2.2 == "atomic") = true := by decide

/-- F9: all writes to package-level variables of the module -/
theorem stateWrites_ok :
    Gen.stateWrites.all (fun w =>
      [("textwire.Configure", "textwire.userConfig"), ("textwire.Configure", "textwire.usesTemplates"),
       ("textwire.EvaluateFile", "textwire.usesTemplates"), ("textwire.EvaluateString", "textwire.usesTemplates"),
       ("textwire.RegisterArrFunc", "textwire.customFunc"), ("textwire.RegisterBoolFunc", "textwire.customFunc"),
       ("textwire.RegisterFloatFunc", "textwire.customFunc"), ("textwire.RegisterIntFunc", "textwire.customFunc"),
       ("textwire.RegisterStrFunc", "textwire.customFunc")].contains (w.1, w.2.1)) = true := by decide

/-- F10: every `range` over a map in the sources, each either building another map / a key list
    that is sorted before use, or order-insensitive:
    * `ObjectLiteral.String` (AST printing, not on any render path)
    * `Program.ApplyInserts` over the layout's reserves (assigns `reserve.Insert`, commutative)
    * `checkUndefinedInsert`, `evaluator.sortedKeys`, `EnvFromMap`, `Obj.sortedKeys`, `parsePrograms` (collect keys, then `sort.Strings`)
    * `Obj.Val` (builds a map), `token.LongestDirective` (a maximum) -/
def expectedMapRanges : List (String × String) :=
  [("ast.ObjectLiteral.String", "ol.Pairs"), ("ast.Program.ApplyInserts", "p.Reserves"),
   ("ast.Program.checkUndefinedInsert", "inserts"), ("evaluator.sortedKeys", "pairs"), ("object.EnvFromMap", "data"),
   ("object.Obj.Val", "o.Pairs"), ("object.Obj.sortedKeys", "o.Pairs"), ("textwire.parsePrograms", "paths"),
   ("token.LongestDirective", "directives")]

theorem mapRanges_ok : Gen.mapRanges.all (expectedMapRanges.contains ·) = true := by decide

end Tw.FactsOk
