/-
  TwProofs.Facts — obligations about the tables regenerated from the Go sources (TIE-1).
  Each theorem compares a regenerated table with the table the hand-written model uses;
  a change of the source table breaks the corresponding obligation.
-/
import TwModel

namespace Tw.FactsOk
open Tw

theorem nothing_missing : Gen.missing = [] := by decide

theorem keywords_ok : Gen.keywords = Tw.keywords := by decide
theorem directives_ok : Gen.directives = Tw.directives := by decide
theorem simpleTokens_ok : Gen.simpleTokens = Tw.simpleTokens := by decide

end Tw.FactsOk
