/-
  TwProofs.Facts — obligations about the tables regenerated from the Go sources (TIE-1).

  `TwModel/Generated/Facts.lean` is rewritten from /repo's working tree on every run.  Each
  theorem below compares a regenerated table with what the hand-written model uses (or with a
  list of individually justified code sites).  A source change that alters a table breaks the
  corresponding obligation; the check then searches for a failing input (see DESIGN.md §4).
-/
import TwModel

namespace Tw.FactsOk
open Tw

/-- every construct the extractor looks for was found -/
theorem nothing_missing : Gen.missing = [] := by decide

/-! ### F4 / F5: lexer tables -/

theorem keywords_ok : Gen.keywords = Tw.keywords := by decide
theorem directives_ok : Gen.directives = Tw.directives := by decide
theorem simpleTokens_ok : Gen.simpleTokens = Tw.simpleTokens := by decide

def sameSet (a c : List TT) : Bool := a.all (c.contains ·) && c.all (a.contains ·)

theorem tokensWithoutParens_ok : sameSet Gen.tokensWithoutParens Tw.tokensWithoutParens = true := by decide
theorem tokensWithOptionalParens_ok : sameSet Gen.tokensWithOptionalParens Tw.tokensWithOptionalParens = true := by decide

/-- the token types, in declaration order, are exactly the constructors of `TT` -/
def allTT : List TT :=
  [.ILLEGAL, .EOF, .IDENT, .HTML, .INT, .FLOAT, .STR, .ADD, .SUB, .MUL, .DIV, .MOD, .INC, .DEC, .NOT, .ASSIGN,
   .EQ, .NOT_EQ, .LTHAN, .GTHAN, .LTHAN_EQ, .GTHAN_EQ, .LBRACES, .RBRACES, .LBRACE, .RBRACE, .LPAREN, .RPAREN,
   .LBRACKET, .RBRACKET, .QUESTION, .COLON, .COMMA, .DOT, .SEMI, .TRUE, .FALSE, .NIL, .IN, .IF, .ELSE, .ELSE_IF,
   .END, .FOR, .USE, .EACH, .BREAK_IF, .CONTINUE_IF, .INSERT, .RESERVE, .BREAK, .CONTINUE, .COMPONENT, .SLOT, .DUMP]

theorem tokenTypes_ok : Gen.tokenTypes = allTT.map TT.name := by decide

/-- `token.String` has a name for every token type (an index past the table would panic) and
    the names are the ones the model prints in "unexpected token" errors -/
theorem tokenNames_total : allTT.all (fun t => (Gen.tokenNames.find? fun p => p.1 == t).map (·.2) == some (tokenString t)) = true := by
  decide

/-! ### F1 / F2 / F3: the Pratt parser's tables -/

def levelOf (name : String) : Nat := ((Gen.levels.find? fun p => p.1 == name).map (·.2)).getD 0

/-- the level constants have the values the model uses (and hence the stated order
    ternary < equality < comparison < additive < multiplicative < member < prefix < call < index < postfix) -/
theorem levels_ok :
    Gen.levels = [("LOWEST", LOWEST), ("TERNARY", TERNARY), ("EQ", EQL), ("LESS_GREATER", LESS_GREATER), ("SUM", SUM),
      ("PRODUCT", PRODUCT), ("MEMBER_ACCESS", MEMBER_ACCESS), ("PREFIX", PREFIX), ("CALL", CALL), ("INDEX", INDEX),
      ("POSTFIX", POSTFIX)] := by decide

/-- `parser.precedences` gives every token type the level the model's `precedence` gives it -/
theorem precedences_ok :
    allTT.all (fun t =>
      match Gen.precedences.find? fun p => p.1 == t with
      | some (_, lv) => levelOf lv == precedence t
      | none => precedence t == LOWEST) = true := by decide

/-- the registered prefix parse functions are those the model dispatches on -/
theorem prefixFns_ok :
    Gen.prefixFns = [(.FALSE, "parseBooleanLiteral"), (.FLOAT, "parseFloatLiteral"), (.IDENT, "parseIdentifier"),
      (.INT, "parseIntegerLiteral"), (.LBRACE, "parseObjectLiteral"), (.LBRACKET, "parseArrayLiteral"),
      (.LPAREN, "parseGroupedExpression"), (.NIL, "parseNilLiteral"), (.NOT, "parsePrefixExp"), (.STR, "parseStringLiteral"),
      (.SUB, "parsePrefixExp"), (.TRUE, "parseBooleanLiteral")] := by decide

/-- the registered infix parse functions agree with the model's `hasInfix` / `isBinaryOp` -/
theorem infixFns_ok :
    allTT.all (fun t =>
      match Gen.infixFns.find? fun p => p.1 == t with
      | some (_, f) =>
        hasInfix t && (isBinaryOp t == (f == "parseInfixExp")) &&
          ((t == .QUESTION) == (f == "parseTernaryExp")) && ((t == .LBRACKET) == (f == "parseIndexExp")) &&
          ((t == .INC || t == .DEC) == (f == "parsePostfixExp")) && ((t == .DOT) == (f == "parseDotExp"))
      | none => !hasInfix t) = true := by decide

/-- the binding power passed at every `parseExpression` call site: the right operand of a binary
    operator at the operator's own level (`precedence := p.curPrecedence()`), the operand of a
    prefix operator at PREFIX, the then-part of a ternary at TERNARY, everything else at LOWEST -/
theorem parseExpressionCalls_ok :
    Gen.parseExpressionCalls =
      [("parseAssignStmt", "LOWEST"), ("parseBreakIfStmt", "LOWEST"), ("parseComponentStmt", "LOWEST"),
       ("parseContinueIfStmt", "LOWEST"), ("parseEachStmt", "LOWEST"), ("parseElseIfStmt", "LOWEST"),
       ("parseExpressionList", "LOWEST"), ("parseExpressionList", "LOWEST"), ("parseExpressionStmt", "LOWEST"),
       ("parseForStmt", "LOWEST"), ("parseGroupedExpression", "LOWEST"), ("parseIfStmt", "LOWEST"),
       ("parseIndexExp", "LOWEST"), ("parseInfixExp", "precedence"), ("parseInsertStmt", "LOWEST"),
       ("parseObjectLiteral", "LOWEST"), ("parseObjectLiteral", "LOWEST"), ("parsePrefixExp", "PREFIX"),
       ("parseTernaryExp", "LOWEST"), ("parseTernaryExp", "TERNARY")] := by decide

/-! ### F6: built-in functions -/

def typeConst : VType → String
  | .STRING => "STR_OBJ" | .ARRAY => "ARR_OBJ" | .FLOAT => "FLOAT_OBJ" | .INTEGER => "INT_OBJ" | .BOOLEAN => "BOOL_OBJ"
  | .NIL => "NIL_OBJ" | .OBJECT => "OBJ_OBJ"

theorem builtins_ok :
    [VType.STRING, .ARRAY, .FLOAT, .INTEGER, .BOOLEAN, .NIL, .OBJECT].all (fun ty =>
      ((Gen.builtins.find? fun p => p.1 == typeConst ty).map (·.2)).getD [] == builtinNames ty) = true := by decide

/-- every name in the table is implemented by the model's dispatcher (on a probe receiver) -/
theorem builtins_dispatch :
    (builtinNames .STRING).all (fun n => (strBuiltin (b n) [] []).isSome) &&
    (builtinNames .ARRAY).all (fun n => (arrBuiltin (b n) [] []).isSome) &&
    (builtinNames .FLOAT).all (fun n => (floatBuiltin (b n) 0.0).isSome) &&
    (builtinNames .INTEGER).all (fun n => (intBuiltin (b n) 0 []).isSome) &&
    (builtinNames .BOOLEAN).all (fun n => (boolBuiltin (b n) true []).isSome) = true := by decide

/-! ### F7 / F8: messages, defaults -/

/-- every error constant the model raises has a format string in `fail/fail.go` -/
def usedCodes : List String :=
  ["ErrEmptyBraces", "ErrWrongNextToken", "ErrExpectedExpression", "ErrCouldNotParseAs", "ErrNoPrefixParseFunc",
   "ErrIllegalToken", "ErrUnexpectedEOF", "ErrElseifCannotFollowElse", "ErrExpectedObjectLiteral", "ErrExpectedComponentName",
   "ErrDuplicateInserts", "ErrUndefinedInsert", "ErrUndefinedComponent", "ErrSlotNotDefined", "ErrDefaultSlotNotDefined",
   "ErrDuplicateSlotUsage", "ErrComponentMustHaveBlock", "ErrInsertMustHaveContent", "ErrIdentifierNotFound",
   "ErrIndexNotSupported", "ErrUnknownOperator", "ErrTypeMismatch", "ErrUnknownTypeForOperator", "ErrPrefixOperatorIsWrong",
   "ErrUseStmtMustHaveProgram", "ErrUseStmtNotAllowed", "ErrLoopVariableIsReserved", "ErrVariableTypeMismatch",
   "ErrDotOperatorNotSupported", "ErrPropertyNotFound", "ErrDivisionByZero", "ErrEachNotArray", "ErrNoFuncForThisType",
   "ErrFuncRequiresOneArg", "ErrFuncFirstArgInt", "ErrFuncFirstArgStr", "ErrFuncSecondArgInt", "ErrFuncSecondArgStr",
   "ErrFuncMaxArgs", "ErrFuncArgNegative", "ErrFuncResultTooLong", "ErrUnsupportedType", "ErrTemplateNotFound",
   "ErrFuncAlreadyDefined"]

theorem errFormats_cover : usedCodes.all (fun c => (fmtLookup c).isSome) = true := by decide

theorem configDefaults_ok : Gen.configDefaults.length = 4 := by decide

/-! ### F9 / F10 / F11: code sites -/

/-- F9: on the paths from String / Response / EvaluateString / EvaluateFile the only writes to
    package-level state are atomic stores of the mode flag (which no render reads: C16) -/
theorem renderPathWrites_ok :
    Gen.renderPathWrites.all (fun w => w.2.1 == "textwire.usesTemplates" && w.2.2 == "atomic") = true := by decide

/-- F9: all writes to package-level variables of the module -/
theorem stateWrites_ok :
    Gen.stateWrites.all (fun w =>
      [("textwire.Configure", "textwire.userConfig"), ("textwire.Configure", "textwire.usesTemplates"),
       ("textwire.EvaluateFile", "textwire.usesTemplates"), ("textwire.EvaluateString", "textwire.usesTemplates"),
       ("textwire.RegisterArrFunc", "textwire.customFunc"), ("textwire.RegisterBoolFunc", "textwire.customFunc"),
       ("textwire.RegisterFloatFunc", "textwire.customFunc"), ("textwire.RegisterIntFunc", "textwire.customFunc"),
       ("textwire.RegisterStrFunc", "textwire.customFunc")].contains (w.1, w.2.1)) = true := by decide

/-- F10: every `range` over a map in the sources, each either building another map / a key list
    that is sorted before use, or order-insensitive:
    * `ObjectLiteral.String` (AST printing, not on any render path)
    * `Program.ApplyInserts` over the layout's reserves (assigns `reserve.Insert`, commutative)
    * `checkUndefinedInsert`, `evaluator.sortedKeys`, `EnvFromMap`, `Obj.sortedKeys`, `parsePrograms` (collect keys, then `sort.Strings`)
    * `Obj.Val` (builds a map), `token.LongestDirective` (a maximum) -/
def expectedMapRanges : List (String × String) :=
  [("ast.ObjectLiteral.String", "ol.Pairs"), ("ast.Program.ApplyInserts", "p.Reserves"),
   ("ast.Program.checkUndefinedInsert", "inserts"), ("evaluator.sortedKeys", "pairs"), ("object.EnvFromMap", "data"),
   ("object.Obj.Val", "o.Pairs"), ("object.Obj.sortedKeys", "o.Pairs"), ("textwire.parsePrograms", "paths"),
   ("token.LongestDirective", "directives")]

theorem mapRanges_ok : Gen.mapRanges.all (expectedMapRanges.contains ·) = true := by decide


/-! ### F12 / F13: where state can live -/

/-- F12: the package-level variables of the module.  Rendering state can only live in one of them,
    in a struct field (F13) or in a closure: a variable that appears here (a cache, a pool, a
    counter) is new state that the model does not have. -/
def expectedPackageVars : List (String × String) := [
  ("evaluator.BREAK", "= &object.Break{}"),
  ("evaluator.CONTINUE", "= &object.Continue{}"),
  ("evaluator.FALSE", "= &object.Bool{Value: false}"),
  ("evaluator.NIL", "= &object.Nil{}"),
  ("evaluator.TRUE", "= &object.Bool{Value: true}"),
  ("evaluator.functions", "= map[object.ObjectType]map[string]*object.Builtin{ object.S"),
  ("lexer.simpleTokens", "= map[byte]token.TokenType{ '*': token.MUL, '?': token.QUEST"),
  ("lexer.tokensWithOptionalParens", "= map[token.TokenType]bool{ token.SLOT: true, }"),
  ("lexer.tokensWithoutParens", "= map[token.TokenType]bool{ token.ELSE: true, token.END: tru"),
  ("object.outputHTML", "= `<style> .textwire-dump { overflow-x: auto; overflow-y: hi"),
  ("parser.precedences", "= map[token.TokenType]int{ token.QUESTION: TERNARY, token.EQ"),
  ("textwire.customFunc", "= config.NewFunc()"),
  ("textwire.defaultErrorPage", "string"),
  ("textwire.userConfig", "= config.New(\"templates\", \".tw.html\", \"\", false)"),
  ("textwire.usesTemplates", "atomic.Bool"),
  ("token.directives", "= map[string]TokenType{ \"@if\": IF, \"@else\": ELSE, \"@elseif\":"),
  ("token.keywords", "= map[string]TokenType{ \"true\": TRUE, \"false\": FALSE, \"nil\":"),
  ("token.tokens", "= [...]string{ ILLEGAL: \"ILLEGAL\", EOF: \"EOF\", IDENT: \"IDENT")]

theorem packageVars_ok : Gen.packageVars = expectedPackageVars := by decide

/-- F13: the fields of every struct type of the module (the lexer, the parser, the evaluator, the
    template, the environment, every tree node and every value): a new field is new state -/
def expectedStructFields : List (String × List String) := [
  ("ast.ArrayLiteral", ["Token token.Token", "Elements []Expression", "Pos token.Position"]),
  ("ast.AssignStmt", ["Token token.Token", "Name *Identifier", "Value Expression", "Pos token.Position"]),
  ("ast.BlockStmt", ["Token token.Token", "Statements []Statement", "Pos token.Position"]),
  ("ast.BooleanLiteral", ["Token token.Token", "Value bool", "Pos token.Position"]),
  ("ast.BreakIfStmt", ["Token token.Token", "Condition Expression", "Pos token.Position"]),
  ("ast.BreakStmt", ["Token token.Token", "Pos token.Position"]),
  ("ast.CallExp", ["Token token.Token", "Receiver Expression", "Function *Identifier", "Arguments []Expression", "Pos token.Position"]),
  ("ast.ComponentStmt", ["Token token.Token", "Name *StringLiteral", "Argument *ObjectLiteral", "Block *Program", "Slots []*SlotStmt", "Pos token.Position"]),
  ("ast.ContinueIfStmt", ["Token token.Token", "Condition Expression", "Pos token.Position"]),
  ("ast.ContinueStmt", ["Token token.Token", "Pos token.Position"]),
  ("ast.DotExp", ["Token token.Token", "Left Expression", "Key Expression", "Pos token.Position"]),
  ("ast.DumpStmt", ["Token token.Token", "Arguments []Expression", "Pos token.Position"]),
  ("ast.EachStmt", ["Token token.Token", "Var *Identifier", "Array Expression", "Alternative *BlockStmt", "Block *BlockStmt", "Pos token.Position"]),
  ("ast.ElseIfStmt", ["Token token.Token", "Condition Expression", "Consequence *BlockStmt", "Pos token.Position"]),
  ("ast.ExpressionStmt", ["Token token.Token", "Expression Expression", "Pos token.Position"]),
  ("ast.FloatLiteral", ["Token token.Token", "Value float64", "Pos token.Position"]),
  ("ast.ForStmt", ["Token token.Token", "Init Statement", "Condition Expression", "Post Statement", "Alternative *BlockStmt", "Block *BlockStmt", "Pos token.Position"]),
  ("ast.HTMLStmt", ["Token token.Token", "Pos token.Position"]),
  ("ast.Identifier", ["Token token.Token", "Value string", "Pos token.Position"]),
  ("ast.IfStmt", ["Token token.Token", "Condition Expression", "Consequence *BlockStmt", "Alternative *BlockStmt", "Alternatives []*ElseIfStmt", "Pos token.Position"]),
  ("ast.IndexExp", ["Token token.Token", "Left Expression", "Index Expression", "Pos token.Position"]),
  ("ast.InfixExp", ["Token token.Token", "Operator string", "Left Expression", "Right Expression", "Pos token.Position"]),
  ("ast.InsertStmt", ["Token token.Token", "Name *StringLiteral", "Argument Expression", "Block *BlockStmt", "FilePath string", "Pos token.Position"]),
  ("ast.IntegerLiteral", ["Token token.Token", "Value int64", "Pos token.Position"]),
  ("ast.NilLiteral", ["Token token.Token", "Pos token.Position"]),
  ("ast.ObjectLiteral", ["Token token.Token", "Pairs map[string]Expression", "Pos token.Position"]),
  ("ast.PostfixExp", ["Token token.Token", "Operator string", "Left Expression", "Pos token.Position"]),
  ("ast.PrefixExp", ["Token token.Token", "Operator string", "Right Expression", "Pos token.Position"]),
  ("ast.Program", ["Token token.Token", "IsLayout bool", "UseStmt *UseStmt", "Statements []Statement", "Components []*ComponentStmt", "Reserves map[string]*ReserveStmt", "Inserts map[string]*InsertStmt", "Pos token.Position"]),
  ("ast.ReserveStmt", ["Token token.Token", "Insert *InsertStmt", "Name *StringLiteral", "Pos token.Position"]),
  ("ast.SlotStmt", ["Token token.Token", "Name *StringLiteral", "Body *BlockStmt", "Pos token.Position"]),
  ("ast.StringLiteral", ["Token token.Token", "Value string", "Pos token.Position"]),
  ("ast.TernaryExp", ["Token token.Token", "Condition Expression", "Consequence Expression", "Alternative Expression", "Pos token.Position"]),
  ("ast.UseStmt", ["Token token.Token", "Name *StringLiteral", "Program *Program", "Pos token.Position"]),
  ("config.Config", ["TemplateDir string", "TemplateExt string", "ErrorPagePath string", "DebugMode bool"]),
  ("config.Func", ["Str map[string]StrCustomFunc", "Arr map[string]ArrayCustomFunc", "Int map[string]IntCustomFunc", "Float map[string]FloatCustomFunc", "Bool map[string]BoolCustomFunc"]),
  ("ctx.EvalCtx", ["AbsPath string", "CustomFunc *config.Func", "Config *config.Config"]),
  ("evaluator.Evaluator", ["ctx *ctx.EvalCtx"]),
  ("fail.Error", ["message string", "line uint", "filepath string", "origin string"]),
  ("lexer.Lexer", ["input string", "pos int", "readPos int", "char byte", "col uint", "prevCol uint", "startCol uint", "shouldResetCol bool", "line uint", "prevLine uint", "startLine uint", "isHTML bool", "isDirective bool", "countDirectiveParentheses int", "countCurlyBraces int"]),
  ("object.Array", ["Elements []Object"]),
  ("object.Block", ["Elements []Object"]),
  ("object.Bool", ["Value bool"]),
  ("object.Break", []),
  ("object.Builtin", ["Fn BuiltinFunction"]),
  ("object.Component", ["Name string", "Content Object"]),
  ("object.Continue", []),
  ("object.Dump", ["Values []string"]),
  ("object.Env", ["store map[string]Object", "outer *Env"]),
  ("object.Error", ["Err *fail.Error"]),
  ("object.Float", ["Value float64"]),
  ("object.HTML", ["Value string"]),
  ("object.Int", ["Value int64"]),
  ("object.Nil", []),
  ("object.Obj", ["Pairs map[string]Object"]),
  ("object.Reserve", ["Name string", "Content Object", "Argument Object"]),
  ("object.Slot", ["Name string", "Content Object"]),
  ("object.Str", ["Value string"]),
  ("object.Use", ["Path string", "Content Object"]),
  ("parser.Parser", ["l *lexer.Lexer", "errors []*fail.Error", "filepath string", "curToken token.Token", "peekToken token.Token", "unreadToken *token.Token", "prefixParseFns map[token.TokenType]prefixParseFn", "infixParseFns map[token.TokenType]infixParseFn", "useStmt *ast.UseStmt", "components []*ast.ComponentStmt", "inserts map[string]*ast.InsertStmt", "reserves map[string]*ast.ReserveStmt"]),
  ("textwire.Template", ["programs map[string]*ast.Program"]),
  ("token.Position", ["StartLine uint", "StartCol uint", "EndLine uint", "EndCol uint"]),
  ("token.Token", ["Type TokenType", "Literal string", "Pos Position"])]

theorem structFields_ok : Gen.structFields = expectedStructFields := by decide

end Tw.FactsOk
