/-
  TwProofs.C20 — custom functions: unique registration, faithful conversion.
-/
import TwModel
import TwProofs.Lemmas.Roundtrip
import TwProofs.C11

namespace Tw.C20
open Tw

abbrev Reg := VType × Bytes × Nat

def lookupReg (cs : List ((VType × Bytes) × Nat)) (ty : VType) (n : Bytes) : Option Nat :=
  (cs.find? fun p => p.1.1 == ty && p.1.2 == n).map (·.2)

/-- a sequence of `Register*Func` calls -/
def registerAll (w : World) : List Reg → World
  | [] => w
  | (ty, n, fid) :: r => registerAll (registerFunc w ty n fid).1 r

/-- the function of the first registration of (type, name) in the sequence -/
def firstReg (regs : List Reg) (ty : VType) (n : Bytes) : Option Nat :=
  (regs.find? fun r => r.1 == ty && r.2.1 == n).map (·.2.2)

theorem lookupReg_append (cs : List ((VType × Bytes) × Nat)) (x : (VType × Bytes) × Nat) (ty : VType) (n : Bytes) :
    lookupReg (cs ++ [x]) ty n =
      match lookupReg cs ty n with
      | some f => some f
      | none => if x.1.1 == ty && x.1.2 == n then some x.2 else none := by
  unfold lookupReg
  rw [List.find?_append]
  cases h : cs.find? (fun p => p.1.1 == ty && p.1.2 == n) with
  | some p => simp
  | none =>
    simp only [Option.none_or, Option.map_none]
    by_cases hx : (x.1.1 == ty && x.1.2 == n) = true
    · simp [List.find?, hx]
    · simp [List.find?, hx]

/-- registering succeeds exactly when the name is new for that type; a failed attempt changes
    nothing -/
theorem register_once (w : World) (ty : VType) (n : Bytes) (fid : Nat) :
    (lookupReg w.custom ty n = none → (registerFunc w ty n fid).2 = none ∧
        (registerFunc w ty n fid).1.custom = w.custom ++ [((ty, n), fid)]) ∧
    (lookupReg w.custom ty n ≠ none → (registerFunc w ty n fid).2 ≠ none ∧ (registerFunc w ty n fid).1 = w) := by
  unfold registerFunc lookupReg
  cases h : w.custom.find? (fun p => p.1.1 == ty && p.1.2 == n) with
  | none => simp
  | some p => simp

/-- **first writer wins**: after any sequence of registrations, the function found for
    (type, name) is the one already present, or else the one of the *first* registration of that
    (type, name) in the sequence; later attempts never replace it, and registrations for other
    types or names do not interfere -/
theorem register_first_wins (regs : List Reg) : ∀ (w : World) (ty : VType) (n : Bytes),
    lookupReg (registerAll w regs).custom ty n =
      match lookupReg w.custom ty n with
      | some f => some f
      | none => firstReg regs ty n := by
  induction regs with
  | nil => intro w ty n; simp [registerAll, firstReg]; cases lookupReg w.custom ty n <;> rfl
  | cons r rest ih =>
    intro w ty n
    obtain ⟨rty, rn, rfid⟩ := r
    simp only [registerAll]
    rw [ih]
    obtain ⟨hnew, hold⟩ := register_once w rty rn rfid
    by_cases hpres : lookupReg w.custom rty rn = none
    · obtain ⟨_, hc⟩ := hnew hpres
      rw [hc, lookupReg_append]
      cases hl : lookupReg w.custom ty n with
      | some f => rfl
      | none =>
        simp only [firstReg, List.find?]
        by_cases hx : (rty == ty && rn == n) = true
        · simp [hx]
        · simp [hx]
    · obtain ⟨_, hw⟩ := hold hpres
      rw [hw]
      cases hl : lookupReg w.custom ty n with
      | some f => rfl
      | none =>
        -- the attempt was for another (type, name): it cannot be the first registration of (ty, n)
        have hx : (rty == ty && rn == n) = false := by
          cases hb : (rty == ty && rn == n) with
          | false => rfl
          | true =>
            simp only [Bool.and_eq_true, beq_iff_eq] at hb
            obtain ⟨h1, h2⟩ := hb
            subst h1; subst h2
            exact absurd hl hpres
        simp [firstReg, List.find?, hx]

/-- starting from the initial state (no custom functions): the registered function is the one of
    the first registration -/
theorem register_first_wins_initial (regs : List Reg) (fs : Fs) (ty : VType) (n : Bytes) :
    lookupReg (registerAll { fs := fs } regs).custom ty n = firstReg regs ty n := by
  rw [register_first_wins]; rfl

/-- the evaluator finds exactly the registered function (`lookupCustom` = registry lookup), unless
    what was registered is a nil function value -/
theorem evaluator_uses_registry (c : Ctx) (ty : VType) (n : Bytes) :
    lookupCustom c ty n = (lookupReg c.custom ty n).bind fun fid => if fid == nilFn then none else some fid := rfl

theorem evaluator_uses_registry_nonnil (c : Ctx) (ty : VType) (n : Bytes) (fid : Nat) (h : lookupReg c.custom ty n = some fid)
    (hn : fid ≠ nilFn) : lookupCustom c ty n = some fid := by
  rw [evaluator_uses_registry, h]
  simp [hn]

/-- a nil function value takes the name (a later registration is refused like any other) but is not callable -/
theorem nil_function_is_not_callable (c : Ctx) (ty : VType) (n : Bytes) (h : lookupReg c.custom ty n = some nilFn) :
    lookupCustom c ty n = none := by
  rw [evaluator_uses_registry, h]
  simp

/-- a built-in name takes precedence over a custom function of the same name: the evaluator
    consults the custom registry only when `callBuiltin` has no function of that name -/
theorem builtin_before_custom (fuel : Nat) (c : Ctx) (env : Env) (t : Token) (recv : Expr) (fn : Bytes) (rv v : Val)
    (hrecv : evalExpr (fuel + 1) c env recv = .ok rv) (htab : hasBuiltinTable rv.type = true)
    (hb : callBuiltin rv fn [] = some (.ok v)) :
    evalExpr (fuel + 2) c env (.call t recv fn []) = .ok v := by
  rw [show fuel + 2 = (fuel + 1) + 1 from rfl, evalExpr]
  simp [hrecv, htab, evalExprs, hb]

/-- calling an unregistered name is an error naming the function and the receiver type -/
theorem unregistered_error (fuel : Nat) (c : Ctx) (env : Env) (t : Token) (recv : Expr) (fn : Bytes) (rv : Val)
    (hrecv : evalExpr (fuel + 1) c env recv = .ok rv) (htab : hasBuiltinTable rv.type = true)
    (hb : callBuiltin rv fn [] = none) (hc : lookupCustom c rv.type fn = none) :
    evalExpr (fuel + 2) c env (.call t recv fn []) = .err "ErrNoFuncForThisType" t.errorLine [fn, rv.typeName] := by
  rw [show fuel + 2 = (fuel + 1) + 1 from rfl, evalExpr]
  simp [hrecv, htab, evalExprs, hb, hc]

/-- **faithful conversion**: handing a value to a custom function as a plain Go value
    (`Object.Val()`) and converting it back (`NativeToObject`, the path every result takes, shared
    with the data map of C12) yields the value itself — for every value, nested arrays and objects
    included -/
theorem conversion_roundtrip (v : Val) (h : WFVal v) : nativeToObject (Val.toNative v) = some v :=
  native_roundtrip v h

/-! non-vacuity -/

example : lookupReg (registerAll {} [(.STRING, b "f", 0), (.INTEGER, b "f", 1), (.STRING, b "f", 1)]).custom .STRING (b "f") = some 0 := by
  decide
example : lookupReg (registerAll {} [(.STRING, b "f", 0), (.INTEGER, b "f", 1), (.STRING, b "f", 1)]).custom .INTEGER (b "f") = some 1 := by
  decide

/-! ### calls from the source bytes -/

/-- **a registered function is called, from the source bytes**: when the value of the data entry `k`
    has no built-in `fn` and a (non-nil) function is registered under `fn` for its type, the
    template `{{ k.fn() }}` renders what that function returns for the converted value -/
theorem custom_call_prints_from_source (custom : List ((VType × Bytes) × Nat)) (data : List (Bytes × GoVal)) (env : Env)
    (hd : KeysDistinct data) (h : envFromMap data = .ok env) (k : Bytes) (g : GoVal) (hm : (k, g) ∈ data) (hk : isName k)
    (fn : Bytes) (hfn : isName fn) (g1 g2 : Bytes) (hg1 : allWs g1) (hg2 : allWs g2) (rv : Val) (hrv : nativeToObject g = some rv)
    (htab : hasBuiltinTable rv.type = true) (hnb : callBuiltin rv fn [] = none) (fid : Nat)
    (hreg : lookupCustom { custom := custom } rv.type fn = some fid) :
    evaluateStringPure custom (callSrc g1 k fn g2) data = .ok (callCustom fid rv []).toStr := by
  obtain ⟨v0, hv0, hget⟩ := C12.data_is_visible data env hd h k g hm
  have hv0' : v0 = rv := by rw [hrv] at hv0; cases hv0; rfl
  subst hv0'
  obtain ⟨prog, t2, t4, t6, hp, hs⟩ := parse_call_source g1 k fn g2 hg1 hg2 hk hfn
  unfold evaluateStringPure envOrFail
  rw [hp]
  simp only [h, hs]
  rw [show evalFuel = (evalFuel - 4) + 1 + 1 + 1 + 1 from by decide, evalProg_cons, evalStmt_succ]
  simp only [stmtBody, calleesAt_expr]
  simp only [evalExpr, hget, htab, evalExprs, hnb, hreg, Bool.not_true, Bool.false_eq_true, if_false, Res.bind_ok]
  rw [evalProg_nil]
  simp [resToOut]

/-- **the arguments reach a registered function, from the source bytes**: `{{ k.fn(d) }}` with a decimal
    number and `{{ k.fn("text") }}` with a string literal call the registered function with the receiver
    and that one argument — the integer with the decimal value of `d`, the *escaped* text of the literal —
    and render what it returns -/
theorem custom_call_with_number_prints_from_source (custom : List ((VType × Bytes) × Nat)) (data : List (Bytes × GoVal)) (env : Env)
    (hd : KeysDistinct data) (h : envFromMap data = .ok env) (k : Bytes) (g : GoVal) (hm : (k, g) ∈ data) (hk : isName k)
    (fn : Bytes) (hfn : isName fn) (d : Bytes) (hdg : isDigits d) (hb : digitsToNat d < 2 ^ 63)
    (g1 g2 g3 g4 : Bytes) (hg1 : allWs g1) (hg2 : allWs g2) (hg3 : allWs g3) (hg4 : allWs g4)
    (rv : Val) (hrv : nativeToObject g = some rv) (htab : hasBuiltinTable rv.type = true)
    (hnb : callBuiltin rv fn [.int (Int64.ofNat (digitsToNat d))] = none) (fid : Nat)
    (hreg : lookupCustom { custom := custom } rv.type fn = some fid) :
    evaluateStringPure custom (callNumSrc g1 k fn g3 d g4 g2) data = .ok (callCustom fid rv [.int (Int64.ofNat (digitsToNat d))]).toStr := by
  obtain ⟨v0, hv0, hget⟩ := C12.data_is_visible data env hd h k g hm
  have hv0' : v0 = rv := by rw [hrv] at hv0; cases hv0; rfl
  subst hv0'
  obtain ⟨prog, t2, t4, t6, t7, hp, hs⟩ := parse_callNum_source g1 k fn g3 d g4 g2 hg1 hg2 hg3 hg4 hk hfn hdg (by omega)
  unfold evaluateStringPure envOrFail
  rw [hp]
  simp only [h, hs]
  rw [show evalFuel = (evalFuel - 6) + 1 + 1 + 1 + 1 + 1 + 1 from by decide, evalProg_cons, evalStmt_succ]
  simp only [stmtBody, calleesAt_expr]
  simp only [evalExpr, hget, htab, evalExprs, hnb, hreg, Bool.not_true, Bool.false_eq_true, if_false, Res.bind_ok]
  rw [evalProg_nil]
  simp [resToOut]

theorem custom_call_with_string_prints_from_source (custom : List ((VType × Bytes) × Nat)) (data : List (Bytes × GoVal)) (env : Env)
    (hd : KeysDistinct data) (h : envFromMap data = .ok env) (k : Bytes) (g : GoVal) (hm : (k, g) ∈ data) (hk : isName k)
    (fn : Bytes) (hfn : isName fn) (q : Byte) (hq : q = 34 ∨ q = 39) (c : Bytes) (hc : PlainStr q c)
    (g1 g2 g3 g4 : Bytes) (hg1 : allWs g1) (hg2 : allWs g2) (hg3 : allWs g3) (hg4 : allWs g4)
    (rv : Val) (hrv : nativeToObject g = some rv) (htab : hasBuiltinTable rv.type = true)
    (hnb : callBuiltin rv fn [.str (literalValue c)] = none) (fid : Nat)
    (hreg : lookupCustom { custom := custom } rv.type fn = some fid) :
    evaluateStringPure custom (callStrSrc g1 k fn g3 q c g4 g2) data = .ok (callCustom fid rv [.str (literalValue c)]).toStr := by
  obtain ⟨v0, hv0, hget⟩ := C12.data_is_visible data env hd h k g hm
  have hv0' : v0 = rv := by rw [hrv] at hv0; cases hv0; rfl
  subst hv0'
  obtain ⟨prog, t2, t4, t6, t7, hp, hs⟩ := parse_callStr_source g1 k fn g3 q c g4 g2 hg1 hg2 hg3 hg4 hk hfn hq hc
  unfold evaluateStringPure envOrFail
  rw [hp]
  simp only [h, hs]
  rw [show evalFuel = (evalFuel - 6) + 1 + 1 + 1 + 1 + 1 + 1 from by decide, evalProg_cons, evalStmt_succ]
  simp only [stmtBody, calleesAt_expr]
  simp only [evalExpr, hget, htab, evalExprs, hnb, hreg, Bool.not_true, Bool.false_eq_true, if_false, Res.bind_ok]
  rw [evalProg_nil]
  simp [resToOut]

/-- **a built-in of the same name wins, from the source bytes**: whatever is registered — under the
    same name, for the same type, before or after — `{{ k.fn() }}` renders the built-in's result
    (`C11.builtin_call_prints_from_source` holds for every registry) -/
theorem builtin_shadows_custom_from_source (custom : List ((VType × Bytes) × Nat)) (data : List (Bytes × GoVal)) (env : Env)
    (hd : KeysDistinct data) (h : envFromMap data = .ok env) (k : Bytes) (g : GoVal) (hm : (k, g) ∈ data) (hk : isName k)
    (fn : Bytes) (hfn : isName fn) (g1 g2 : Bytes) (hg1 : allWs g1) (hg2 : allWs g2) (rv : Val) (hrv : nativeToObject g = some rv)
    (htab : hasBuiltinTable rv.type = true) (v : Val) (hcall : callBuiltin rv fn [] = some (.ok v)) :
    evaluateStringPure custom (callSrc g1 k fn g2) data = .ok v.toStr ∧
      evaluateStringPure [] (callSrc g1 k fn g2) data = .ok v.toStr :=
  ⟨C11.builtin_call_prints_from_source custom data env hd h k g hm hk fn hfn g1 g2 hg1 hg2 rv hrv htab v hcall,
   C11.builtin_call_prints_from_source [] data env hd h k g hm hk fn hfn g1 g2 hg1 hg2 rv hrv htab v hcall⟩

example : evaluateStringPure [((.STRING, b "shout"), 0)] (b "{{ name.shout() }}") [(b "name", .str (b "ann"))] = .ok (b "ann|") := by
  have := custom_call_prints_from_source [((.STRING, b "shout"), 0)] [(b "name", .str (b "ann"))] [[(b "name", .str (b "ann"))]]
    (by simp [KeysDistinct]) (by rfl) (b "name") (.str (b "ann")) (by simp) (by decide) (b "shout") (by decide) [32] [32] (by decide) (by decide)
    (.str (b "ann")) (by rfl) (by rfl) (by rfl) 0 (by rfl)
  have hs : callSrc [32] (b "name") (b "shout") [32] = b "{{ name.shout() }}" := by decide
  have ho : (callCustom 0 (.str (b "ann")) []).toStr = b "ann|" := by decide
  rw [hs, ho] at this
  exact this

end Tw.C20
