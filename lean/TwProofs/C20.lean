/-
  TwProofs.C20 — property theorems (see DESIGN.md, section 6).
-/
import TwModel
import TwSpec

namespace Tw.C20
open Tw

end Tw.C20
