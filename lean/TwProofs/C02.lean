/-
  TwProofs.C02 — property theorems (see DESIGN.md, section 6).
-/
import TwModel
import TwSpec

namespace Tw.C02
open Tw

end Tw.C02
