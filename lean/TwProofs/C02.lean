/-
  TwProofs.C02 — `@if / @elseif / @else` renders exactly the first truthy branch.

  Theorems about the model's evaluator (tied to `evaluator.go` by the correspondence check):
  the construct's value is the body of the first branch whose condition is truthy — the later
  conditions do not occur in the result at all, so nothing in them (errors included) can
  surface — else the `@else` body, else nothing; one truthiness function decides `@if`, the
  ternary, `@breakIf` and `@continueIf`; text around the construct is concatenated unchanged.
-/
import TwModel
import TwSpec
import TwProofs.Lemmas.EvalStep
import TwProofs.Lemmas.EvalMono
import TwProofs.Lemmas.TextIf
import TwProofs.Lemmas.TextIfChain

namespace Tw.C02
open Tw

/-! ### truthiness -/

/-- the falsy values are exactly false, nil, 0, 0.0 and the empty string -/
theorem falsy_iff (v : Val) :
    isTruthy v = false ↔
      v = .bool false ∨ v = .nil ∨ v = .int 0 ∨ (∃ x, v = .float x ∧ (x != 0.0) = false) ∨ v = .str [] := by
  cases v with
  | bool x => cases x <;> simp [isTruthy]
  | nil => simp [isTruthy]
  | int x => simp [isTruthy]
  | float x => simp [isTruthy]
  | str s => cases s <;> simp [isTruthy]
  | arr xs => simp [isTruthy]
  | obj kvs => simp [isTruthy]

/-- empty arrays and empty objects are truthy -/
theorem empty_containers_truthy : isTruthy (.arr []) = true ∧ isTruthy (.obj []) = true := ⟨rfl, rfl⟩

/-! ### the first truthy branch -/

/-- a truthy `@if` condition: the result is the consequence block alone; `alts` and `alt` do not
    occur on the right-hand side, so they are never evaluated -/
theorem if_true (f : Nat) (c : Ctx) (env : Env) (t : Token) (cnd : Expr) (cons : List Stmt)
    (alts : List (Expr × List Stmt)) (alt : Option (List Stmt)) (v : Val)
    (hc : evalExpr f c env cnd = .ok v) (hv : isTruthy v = true) :
    evalStmt (f + 1) c env (.ifS t cnd cons alts alt) = (evalBlock f c env.push cons).bind fun r => .ok (r.1, env) := by
  rw [evalStmt_ifS, hc, Res.bind_ok, if_pos hv]

theorem if_false (f : Nat) (c : Ctx) (env : Env) (t : Token) (cnd : Expr) (cons : List Stmt)
    (alts : List (Expr × List Stmt)) (alt : Option (List Stmt)) (v : Val)
    (hc : evalExpr f c env cnd = .ok v) (hv : isTruthy v = false) :
    evalStmt (f + 1) c env (.ifS t cnd cons alts alt) = evalElseIfs f c env alts alt := by
  rw [evalStmt_ifS, hc, Res.bind_ok, if_neg (by rw [hv]; simp)]

/-- an error in the `@if` condition is the construct's error -/
theorem if_cond_error (f : Nat) (c : Ctx) (env : Env) (t : Token) (cnd : Expr) (cons : List Stmt)
    (alts : List (Expr × List Stmt)) (alt : Option (List Stmt)) (code : String) (line : Nat) (args : List Bytes)
    (hc : evalExpr f c env cnd = .err code line args) :
    evalStmt (f + 1) c env (.ifS t cnd cons alts alt) = .err code line args := by
  rw [evalStmt_ifS, hc, Res.bind_err]

/-- **the `@elseif` chain**: when the conditions of `pre` are all falsy and the next one is truthy,
    the result is that branch's body — whatever `post` and `alt` are (they are not evaluated) -/
theorem elseifs_first_truthy (f : Nat) (c : Ctx) (env : Env) (ce : Expr) (body : List Stmt)
    (post : List (Expr × List Stmt)) (alt : Option (List Stmt)) (v : Val)
    (hce : evalExpr f c env ce = .ok v) (hv : isTruthy v = true) :
    ∀ (pre : List (Expr × List Stmt)),
      (∀ p ∈ pre, ∃ w, evalExpr f c env p.1 = .ok w ∧ isTruthy w = false) →
      evalElseIfs (f + pre.length + 1) c env (pre ++ (ce, body) :: post) alt =
        (evalBlock f c env.push body).bind fun r => .ok (r.1, env)
  | [], _ => by
    rw [List.nil_append, List.length_nil, Nat.add_zero, evalElseIfs_cons, hce, Res.bind_ok, if_pos hv]
  | p :: pre, hpre => by
    obtain ⟨w, hw, hwf⟩ := hpre p List.mem_cons_self
    have hw' : evalExpr (f + (pre.length + 1)) c env p.1 = .ok w := by
      rw [evalExpr_mono f (pre.length + 1) c env p.1 (by rw [hw]; simp), hw]
    rw [List.cons_append, List.length_cons, show f + (pre.length + 1) + 1 = (f + (pre.length + 1)) + 1 from rfl]
    obtain ⟨pe, pb⟩ := p
    rw [evalElseIfs_cons, hw', Res.bind_ok, if_neg (by rw [hwf]; simp)]
    rw [show f + (pre.length + 1) = f + pre.length + 1 from rfl]
    exact elseifs_first_truthy f c env ce body post alt v hce hv pre (fun q hq => hpre q (List.mem_cons_of_mem _ hq))

/-- no condition is truthy: the `@else` body when there is one, nothing otherwise -/
theorem elseifs_none_truthy (f : Nat) (c : Ctx) (env : Env) (alt : Option (List Stmt)) :
    ∀ (alts : List (Expr × List Stmt)),
      (∀ p ∈ alts, ∃ w, evalExpr f c env p.1 = .ok w ∧ isTruthy w = false) →
      evalElseIfs (f + alts.length + 1) c env alts alt =
        match alt with
        | some ab => (evalBlock f c env.push ab).bind fun r => .ok (r.1, env)
        | none => .ok ({}, env)
  | [], _ => by
    rw [List.length_nil, Nat.add_zero, evalElseIfs_nil]
    cases alt <;> rfl
  | p :: alts, hall => by
    obtain ⟨w, hw, hwf⟩ := hall p List.mem_cons_self
    have hw' : evalExpr (f + (alts.length + 1)) c env p.1 = .ok w := by
      rw [evalExpr_mono f (alts.length + 1) c env p.1 (by rw [hw]; simp), hw]
    obtain ⟨pe, pb⟩ := p
    rw [List.length_cons, show f + (alts.length + 1) + 1 = (f + (alts.length + 1)) + 1 from rfl,
      evalElseIfs_cons, hw', Res.bind_ok, if_neg (by rw [hwf]; simp)]
    rw [show f + (alts.length + 1) = f + alts.length + 1 from rfl]
    exact elseifs_none_truthy f c env alt alts (fun q hq => hall q (List.mem_cons_of_mem _ hq))

/-! ### the same truthiness everywhere -/

theorem ternary_uses_truthiness (f : Nat) (c : Ctx) (env : Env) (t : Token) (cnd a bb : Expr) (v : Val)
    (hc : evalExpr f c env cnd = .ok v) :
    evalExpr (f + 1) c env (.tern t cnd a bb) = if isTruthy v then evalExpr f c env a else evalExpr f c env bb := by
  rw [evalExpr_tern, hc]

theorem breakIf_uses_truthiness (f : Nat) (c : Ctx) (env : Env) (t : Token) (cnd : Expr) (v : Val)
    (hc : evalExpr f c env cnd = .ok v) :
    evalStmt (f + 1) c env (.breakIf t cnd) = .ok ({ brk := isTruthy v }, env) := by
  rw [evalStmt_succ]; simp only [stmtBody, calleesAt]; rw [hc, Res.bind_ok]

theorem continueIf_uses_truthiness (f : Nat) (c : Ctx) (env : Env) (t : Token) (cnd : Expr) (v : Val)
    (hc : evalExpr f c env cnd = .ok v) :
    evalStmt (f + 1) c env (.continueIf t cnd) = .ok ({ cont := isTruthy v }, env) := by
  rw [evalStmt_succ]; simp only [stmtBody, calleesAt]; rw [hc, Res.bind_ok]

/-! ### text around the construct is unaffected -/

/-- a program is rendered statement by statement: the text of what precedes a statement is kept
    in front of its output, what follows is appended (at any nesting depth: the same holds for
    blocks, `evalBlock_cons`) -/
theorem text_before_is_kept (f : Nat) (c : Ctx) (env : Env) (t : Token) (rest : List Stmt) (acc : Bytes) :
    evalProg (f + 1 + 1) c env (.html t :: rest) acc = evalProg (f + 1) c env rest (acc ++ t.lit) := by
  rw [evalProg_cons, evalStmt_html, Res.bind_ok]

theorem text_after_is_appended (f : Nat) (c : Ctx) (env : Env) (t : Token) (acc : Bytes) :
    evalProg (f + 1 + 1 + 1) c env [.html t] acc = .ok (acc ++ t.lit, env) := by
  rw [evalProg_cons, evalStmt_html, Res.bind_ok, evalProg_nil]

/-! ### from the source bytes: `@if(name) … [@else …] @end` among text -/

/-- **exactly the chosen branch, from the source bytes to the output** — for every template made
    of text runs, comments, `{{ name }}` blocks and `@if(name) text [@else text] @end` constructs
    (any white space around the names), and every data map binding the names: each construct
    renders its first text when the value of its name is truthy, its `@else` text when it is not
    and one exists, and nothing otherwise; the text before, between and after the constructs is
    unaffected.  Lexer (`lex_if_header`, `lex_keyword`, `lex_run`), parser (`parse_if_noelse`,
    `parse_if_else`) and evaluator (`evalProg_wspec`) composed. -/
theorem if_else_renders_the_chosen_branch_from_source (custom : List ((VType × Bytes) × Nat)) (items : List WItem)
    (hok : WItemsOK items) (hsize : (wspec items).length + 6 ≤ evalFuel)
    (data : List (Bytes × GoVal)) (env : Env) (henv : envFromMap data = .ok env) (hb : wbound env (wspec items)) :
    evaluateStringPure custom (witemsSrc items) data = .ok (wrender env (wspec items)) :=
  witems_render custom items hok hsize data env henv hb

section example_if
private def exItems : List WItem := [.text [.plain (b "a ")], .ifelse [] (b "ok") (b " ") [.plain (b "yes")] (some [.plain (b " no")]),
  .text [.plain (b " m ")], .ifelse (b " ") (b "n") [] [.plain (b "N")] none, .comment (b " c "), .print [] (b "n") [], .text [.plain (b " z")]]
private def exData (okv : GoVal) : List (Bytes × GoVal) := [(b "ok", okv), (b "n", .int 0)]

example : witemsSrc exItems = b "a @if(ok )yes@else no@end m @if( n)N@end{{-- c --}}{{n}} z" := by decide
example : WItemsOK exItems := by decide

/-- ok = true: the first branch; n = 0 is falsy and has no `@else`: nothing -/
example : evaluateStringPure [] (b "a @if(ok )yes@else no@end m @if( n)N@end{{-- c --}}{{n}} z") (exData (.bool true)) = .ok (b "a yes m 0 z") := by
  have h := if_else_renders_the_chosen_branch_from_source [] exItems (by decide) (by decide) (exData (.bool true))
    [[(b "n", .int 0), (b "ok", .bool true)]] (by rfl) (by decide)
  have h1 : witemsSrc exItems = b "a @if(ok )yes@else no@end m @if( n)N@end{{-- c --}}{{n}} z" := by decide
  have h2 : wrender [[(b "n", .int 0), (b "ok", .bool true)]] (wspec exItems) = b "a yes m 0 z" := by decide
  rw [h1, h2] at h
  exact h

/-- ok = "" (falsy): the `@else` text -/
example : evaluateStringPure [] (b "a @if(ok )yes@else no@end m @if( n)N@end{{-- c --}}{{n}} z") (exData (.str [])) = .ok (b "a  no m 0 z") := by
  have h := if_else_renders_the_chosen_branch_from_source [] exItems (by decide) (by decide) (exData (.str []))
    [[(b "n", .int 0), (b "ok", .str [])]] (by rfl) (by decide)
  have h1 : witemsSrc exItems = b "a @if(ok )yes@else no@end m @if( n)N@end{{-- c --}}{{n}} z" := by decide
  have h2 : wrender [[(b "n", .int 0), (b "ok", .str [])]] (wspec exItems) = b "a  no m 0 z" := by decide
  rw [h1, h2] at h
  exact h
end example_if

/-! ### the whole chain, from the source bytes -/

/-- **`@if … @elseif … [@else …] @end` from the source bytes**: for every template of text runs and
    chains `@if(c0) t0 @elseif(c1) t1 … @elseif(cn) tn [@else te] @end` (any white space around the
    names, texts without "{", "@" and backslash, the `@else` text not beginning with "if") and every
    data map, each chain renders exactly the text of the FIRST branch whose name is truthy — the
    `@else` text when none is, nothing when there is no `@else` — and the text before, between and
    after the chains is unaffected.  Only the names up to the first truthy one have to be bound
    (`kbound`): the conditions of the later branches are never evaluated, so they may even be
    undefined.  Lexer (`dirScan_elseif`: the case in which `@else` is potentially longer,
    `lex_cond_header`, `lex_vplain`, `chain_ok`), parser (`parse_tail_alts`, `parse_chain_stmt`) and
    evaluator (`evalElseIfs_alts`, `chain_renders`) composed. -/
theorem elseif_chain_renders_the_first_truthy_branch_from_source (custom : List ((VType × Bytes) × Nat)) (items : List KItem)
    (hok : KItemsOK items) (data : List (Bytes × GoVal)) (env : Env) (henv : envFromMap data = .ok env)
    (hb : kbound env items) (hsize : kneed items ≤ evalFuel) :
    evaluateStringPure custom (chainTplSrc items) data = .ok (krender env items) := by
  obtain ⟨prog, hp, hm⟩ := parse_kitems items hok
  unfold evaluateStringPure envOrFail
  rw [hp]
  simp only [henv]
  rw [evalProg_kitems _ env prog.stmts items hm hb evalFuel [] hsize]
  simp [resToOut]

section example_chain
private def exChain : Chain := { g1 := [], c := b "a", g2 := [], t := b "A", alts := [⟨[32], b "bb", [32], b "B"⟩, ⟨[], b "nosuch", [], b "C"⟩], els := some (b " none") }
private def exK : List KItem := [.text [.plain (b "x ")], .chain exChain, .text [.plain (b " y")]]

example : chainTplSrc exK = b "x @if(a)A@elseif( bb )B@elseif(nosuch)C@else none@end y" := by decide
example : KItemsOK exK := by decide

/-- a falsy, bb truthy: the second branch; the third condition names an undefined variable and is never looked at -/
example : evaluateStringPure [] (b "x @if(a)A@elseif( bb )B@elseif(nosuch)C@else none@end y") [(b "a", .int 0), (b "bb", .str (b "s"))] = .ok (b "x B y") := by
  have h := elseif_chain_renders_the_first_truthy_branch_from_source [] exK (by decide) [(b "a", .int 0), (b "bb", .str (b "s"))]
    [[(b "a", .int 0), (b "bb", .str (b "s"))]] (by rfl) (by
      refine ⟨⟨by decide, fun _ => ⟨by decide, fun h => ?_⟩⟩, trivial⟩
      exact absurd h (by decide)) (by decide)
  have h1 : chainTplSrc exK = b "x @if(a)A@elseif( bb )B@elseif(nosuch)C@else none@end y" := by decide
  have h2 : krender [[(b "a", .int 0), (b "bb", .str (b "s"))]] exK = b "x B y" := by decide
  rw [h1, h2] at h
  exact h
end example_chain

/-! ### non-vacuity and an end-to-end instance -/

example : (match evaluateStringPure [] (b "a@if(0)x@elseif(\"\")y@elseif([])z@elseif(1 % 0)w@else v@end b") [] with
    | .ok out => out == b "az b" | _ => false) = true := by decide +kernel

end Tw.C02
