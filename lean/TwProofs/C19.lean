/-
  TwProofs.C19 — token positions are exact, ordered and tile the source.

  Model: `TwModel.Lexer` (transcription of lexer/lexer.go).  Statement-level definitions:
  `lineOf` / `colOf` / `posOf` (the position function), `Spans`, `Covers`, `Tiled`
  (TwProofs/Lemmas/LexPos.lean, LexSpan.lean).
-/
import TwProofs.Lemmas.LexStr
import TwProofs.Lemmas.LexSpan
import TwProofs.Lemmas.LexLit

namespace Tw.C19
open Tw Tw.Lx

/-- `readChar` keeps line / column equal to the position function, and remembers the position
    of the byte it leaves -/
theorem readChar_position (s : Lx) (h : PosInv s) :
    PosInv (readChar s) ∧
    (s.rest ≠ [] → (readChar s).prevLine = lineOf s.pre ∧ (readChar s).prevCol = colOf s.pre) :=
  posInv_readChar s h

/-- every token returned by a `NextToken` body (after `skipWhitespace`) covers `n ≥ 1` of the
    remaining bytes; its start is the position of the first, its end the position of the last of
    them; the state it leaves agrees with the position function again.  For every token kind:
    text, braces, directives, strings (also unterminated ones, which run to the end), numbers,
    identifiers, operators, ILLEGAL -/
theorem token_span (s : Lx) (hinv : PosInv s) (hne : s.rest ≠ []) (t : Token) (h : (stepAt s).1 = .tok t) :
    ∃ n, Spans s t (stepAt s).2 n :=
  stepAt_spans s hinv hne t h

/-- the token list of a whole input: source order, no overlap, exact positions, and the EOF
    token at the position just past the last byte -/
theorem tokens_tile_source (inp : Bytes) (r : LexResult) (h : tokenize inp = some r) : Tiled inp 0 r.toks :=
  tokenize_tiled inp r h

/-- the ILLEGAL branch of `directiveToken` (which would emit a token that does not start where
    the directive starts) is unreachable -/
theorem directive_always_found (s : Lx) (h : (isDirectiveToken s).1 = true) : (directiveDesc s).ty ≠ .ILLEGAL :=
  directive_found s h

/-- lexicographic order on positions -/
def posLt (p q : Nat × Nat) : Prop := p.1 < q.1 ∨ (p.1 = q.1 ∧ p.2 < q.2)

theorem lineOf_take_mono (inp : Bytes) (i j : Nat) (h : i ≤ j) : lineOf (inp.take i).reverse ≤ lineOf (inp.take j).reverse := by
  unfold lineOf
  rw [List.count_reverse, List.count_reverse]
  obtain ⟨k, rfl⟩ : ∃ k, j = i + k := ⟨j - i, by omega⟩
  rw [List.take_add]
  simp [List.count_append]

/-- the position function is strictly increasing in the offset: a later byte has a later
    (line, column).  Together with `tokens_tile_source` this gives: a cursor position lies in the
    range of at most one token, the one covering that byte. -/
theorem posOf_strict_mono (inp : Bytes) (i : Nat) (h : i + 1 ≤ inp.length) : posLt (posOf inp i) (posOf inp (i + 1)) := by
  unfold posLt posOf
  have hsplit : inp.take (i + 1) = inp.take i ++ [inp[i]'(by omega)] := by
    rw [List.take_succ]; simp [List.getElem?_eq_getElem (by omega : i < inp.length)]
  rw [hsplit]
  simp only [List.reverse_append, List.reverse_cons, List.reverse_nil, List.nil_append, List.singleton_append]
  by_cases hlf : inp[i]'(by omega) = 10
  · left; rw [hlf]; simp
  · right
    exact ⟨(lineOf_cons_ne _ _ hlf).symm, by rw [colOf_cons_ne _ _ hlf]; omega⟩

theorem posLt_trans {p q r : Nat × Nat} (h1 : posLt p q) (h2 : posLt q r) : posLt p r := by
  unfold posLt at *
  omega

theorem posLt_irrefl (p : Nat × Nat) : ¬ posLt p p := by unfold posLt; omega

/-- a later byte has a later position -/
theorem posOf_lt (inp : Bytes) (i j : Nat) (hij : i < j) (hj : j ≤ inp.length) : posLt (posOf inp i) (posOf inp j) := by
  obtain ⟨k, rfl⟩ : ∃ k, j = i + 1 + k := ⟨j - i - 1, by omega⟩
  induction k with
  | zero => exact posOf_strict_mono inp i hj
  | succ k ih =>
    exact posLt_trans (ih (by omega) (by omega)) (posOf_strict_mono inp (i + 1 + k) (by omega))

/-- `Position.Contains` is "not before the start and not after the end" in the lexicographic
    order of (line, column) -/
theorem contains_iff_between (p : Pos) (l c : Nat) :
    p.contains l c = true ↔ ¬ posLt (l, c) (p.startLine, p.startCol) ∧ ¬ posLt (p.endLine, p.endCol) (l, c) := by
  unfold Pos.contains posLt
  by_cases h1 : l < p.startLine
  · simp [h1]
  · by_cases h2 : l > p.endLine
    · simp [h2]
    · simp only [h1, h2, decide_false, Bool.or_self, Bool.false_eq_true, if_false]
      by_cases h3 : l = p.startLine
      · by_cases h4 : c < p.startCol
        · simp [h3, h4]
        · by_cases h5 : l = p.endLine
          · by_cases h6 : c > p.endCol
            · simp [h3, h4, ← h5, h6]
            · simp [h3, h4, ← h5, h6]
          · simp [h3, h4, h5]; omega
      · by_cases h5 : l = p.endLine
        · by_cases h6 : c > p.endCol
          · simp [h3, h5, h6]
          · simp [h3, h5, h6]; omega
        · simp [h3, h5]; omega

/-- **a cursor lies in a token's range exactly when the token covers that byte**: for a token
    that covers the bytes `[a, a + n)`, `Position.Contains` accepts the position of byte `i` iff
    `a ≤ i < a + n`.  With `tokens_tile_source` (disjoint ranges in source order) a cursor on a
    byte is inside at most one token, the one covering the byte. -/
theorem contains_iff_covered (inp : Bytes) (t : Token) (a n : Nat) (hc : Covers inp t a n) (i : Nat) (hi : i < inp.length) :
    t.pos.contains (posOf inp i).1 (posOf inp i).2 = true ↔ a ≤ i ∧ i < a + n := by
  rw [contains_iff_between, hc.start, hc.stop]
  have hn := hc.n_pos
  have hle := hc.le
  constructor
  · intro ⟨h1, h2⟩
    constructor
    · apply Classical.byContradiction; intro hlt
      exact h1 (posOf_lt inp i a (by omega) (by omega))
    · apply Classical.byContradiction; intro hge
      exact h2 (posOf_lt inp (a + n - 1) i (by omega) (by omega))
  · intro ⟨h1, h2⟩
    constructor
    · intro hlt
      rcases Nat.lt_or_ge a i with h | h
      · exact posLt_irrefl _ (posLt_trans hlt (posOf_lt inp a i h (by omega)))
      · have : i = a := by omega
        rw [this] at hlt; exact posLt_irrefl _ hlt
    · intro hlt
      rcases Nat.lt_or_ge i (a + n - 1) with h | h
      · exact posLt_irrefl _ (posLt_trans hlt (posOf_lt inp i (a + n - 1) h (by omega)))
      · have : i = a + n - 1 := by omega
        rw [this] at hlt; exact posLt_irrefl _ hlt

/-- **the whole statement about the token list of an input** (`FullTiled`): the tokens come in
    source order without overlap; each covers `[a', a' + n)` with its start the position of byte
    `a'` and its end the position of byte `a' + n - 1`; its literal — unless it is a string (quotes
    and escapes removed) or a text token (escaping backslashes removed) — is exactly these bytes;
    between two tokens, and before the closing EOF, lie only white space and comments (`Gap`);
    EOF sits at the position just past the last byte. -/
theorem token_list_is_fully_tiled (inp : Bytes) (r : LexResult) (h : tokenize inp = some r) : FullTiled inp 0 r.toks :=
  tokenize_fullTiled inp r h

/-- one token: its literal is the text it covers (every token kind but strings and text) -/
theorem token_literal_is_covered_text (s : Lx) (hne : s.rest ≠ []) (t : Token) (h : (stepAt s).1 = .tok t)
    (hs : t.ty ≠ .STR) (hh : t.ty ≠ .HTML) : ∃ n, t.lit = s.rest.take n ∧ (stepAt s).2.rest = s.rest.drop n :=
  stepAt_lit s hne t h hs hh

/-- **string tokens**: in code, at a quote, a string that is terminated before the end of the
    input becomes one STR token that covers exactly the opening quote, the text and the closing
    quote (`n` bytes of the input), and whose literal is the text with every escaped quote `\q`
    replaced by `q` — the same quote character on both ends, single or double -/
theorem string_token_is_the_quoted_text (s : Lx) (hh : s.isHTML = false) (q : Byte) (after : Bytes)
    (hq : q = 34 ∨ q = 39) (hr : s.rest = q :: after) (hterm : (strSpan s.rest).1 ≤ s.rest.length) :
    ∃ t n raw, stepAt s = (.tok t, (stepAt s).2) ∧ t.ty = .STR ∧ s.rest.take n = q :: (raw ++ [q]) ∧
      t.lit = replaceAll raw [92, q] [q] ∧ (stepAt s).2.rest = s.rest.drop n := by
  have hc : s.char = q := by simp [Lx.char, hr]
  have hne : s.rest ≠ [] := by rw [hr]; simp
  have hb : ¬ (s.char = 123 ∧ s.peek = 123) := by
    rw [hc]; rcases hq with h | h <;> subst h <;> simp
  have hstep := stepAt_code s hh hne hb
  have hcs : codeStepDesc s = strDesc s := by
    unfold codeStepDesc
    have : ¬ (s.char == 125 && s.peek == 125 && s.braces == 0) = true := by
      rw [hc]; rcases hq with h | h <;> subst h <;> simp
    rw [if_neg this]
    exact codeDesc_string s (by rw [hc]; exact hq)
  obtain ⟨h1, h2, h3⟩ := strDesc_shape s q after hr hterm
  refine ⟨(strDesc s).emit.1, (strDesc s).n, (strSpan s.rest).2, ?_, ?_, h2, ?_, ?_⟩
  · rw [hstep, hcs]
  · unfold TokDesc.emit; rw [emit_ty]; exact h1
  · unfold TokDesc.emit; rw [emit_lit]; exact h3
  · rw [hstep, hcs]; unfold TokDesc.emit; rw [emit_rest]; rfl

example : (match tokenize (b "{{ 'it\\'s' }}") with
    | some r => r.toks.map (fun t => (t.ty, t.lit)) == [(.LBRACES, b "{{"), (.STR, b "it's"), (.RBRACES, b "}}"), (.EOF, [])]
    | none => false) = true := by decide

/-- **an unterminated string**: in code, at a quote with no closing quote before the end of the
    input, the lexer makes one STR token of everything that is left — it covers the rest of the
    input to its last byte, its literal is the text after the opening quote (escaped quotes
    unescaped), and the lexer is at the end of the input afterwards -/
theorem unterminated_string_runs_to_the_end (s : Lx) (hh : s.isHTML = false) (q : Byte) (after : Bytes)
    (hq : q = 34 ∨ q = 39) (hr : s.rest = q :: after) (hopen : s.rest.length < (strSpan s.rest).1) :
    ∃ t n, stepAt s = (.tok t, (stepAt s).2) ∧ t.ty = .STR ∧ s.rest.take n = s.rest ∧
      t.lit = replaceAll after [92, q] [q] ∧ (stepAt s).2.rest = [] := by
  have hc : s.char = q := by simp [Lx.char, hr]
  have hne : s.rest ≠ [] := by rw [hr]; simp
  have hb : ¬ (s.char = 123 ∧ s.peek = 123) := by
    rw [hc]; rcases hq with h | h <;> subst h <;> simp
  have hstep := stepAt_code s hh hne hb
  have hcs : codeStepDesc s = strDesc s := by
    unfold codeStepDesc
    have : ¬ (s.char == 125 && s.peek == 125 && s.braces == 0) = true := by
      rw [hc]; rcases hq with h | h <;> subst h <;> simp
    rw [if_neg this]
    exact codeDesc_string s (by rw [hc]; exact hq)
  obtain ⟨h1, h2, h3⟩ := strDesc_unterminated s q after hr hopen
  refine ⟨(strDesc s).emit.1, (strDesc s).n, ?_, ?_, h2, ?_, ?_⟩
  · rw [hstep, hcs]
  · unfold TokDesc.emit; rw [emit_ty]; exact h1
  · unfold TokDesc.emit; rw [emit_lit]; exact h3
  · rw [hstep, hcs]; unfold TokDesc.emit; rw [emit_rest]
    show s.rest.drop (strSpan s.rest).1 = []
    exact List.drop_eq_nil_of_le (Nat.le_of_lt hopen)

example : (match tokenize (b "{{ 'it\\'s }}") with
    | some r => r.toks.map (fun t => (t.ty, t.lit)) == [(.LBRACES, b "{{"), (.STR, b "it's }}"), (.EOF, [])]
    | none => false) = true := by decide


/-! non-vacuity: a concrete input with multi-line text, a string with a newline, a comment -/

example : Gap (b " \n\t{{-- a --}} {{-- b") := by
  have h1 : Gap (b "{{-- b") := Gap.opened (b " b")
  have h2 : Gap (b " {{-- b") := Gap.ws 32 _ (by decide) h1
  have h3 := Gap.comment (b " a ") _ h2
  exact Gap.ws 32 _ (by decide) (Gap.ws 10 _ (by decide) (Gap.ws 9 _ (by decide) h3))

example : (tokenize (b "a\n{{ \"x\ny\" }}{{-- c --}}z")).isSome = true := by decide

example : ((tokenize (b "ab\n{{ x }}")).map fun r => r.toks.map fun t => (t.ty, t.pos.startLine, t.pos.startCol, t.pos.endLine, t.pos.endCol)) =
    some [(.HTML, 0, 0, 0, 2), (.LBRACES, 1, 0, 1, 1), (.IDENT, 1, 3, 1, 3), (.RBRACES, 1, 5, 1, 6), (.EOF, 1, 7, 1, 7)] := by
  decide

end Tw.C19
