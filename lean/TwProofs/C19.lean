/-
  TwProofs.C19 — property theorems (see DESIGN.md, section 6).
-/
import TwModel
import TwSpec

namespace Tw.C19
open Tw

end Tw.C19
