/-
  TwProofs.C10 — string literals are HTML-escaped on output; raw() is the exact opt-out.
-/
import TwProofs.Lemmas.Escape
import TwProofs.Lemmas.TextIf
import TwProofs.Lemmas.TextRaw
import TwProofs.Lemmas.TextConcat

namespace Tw.C10
open Tw

/-- the value of every string literal is its text with `<`, `>`, `&` replaced by entities and
    nothing else changed (html.EscapeString followed by the restoration of the two quote entities) -/
theorem literal_value_eq_esc3 (s : Bytes) : literalValue s = esc3 s := literalValue_eq_esc3 s

/-- no raw '<' or '>' coming from the literal reaches the output -/
theorem no_raw_angle (s : Bytes) : ∀ x ∈ literalValue s, x ≠ 60 ∧ x ≠ 62 := by
  rw [literalValue_eq_esc3]; exact esc3_no_angle s

/-- single and double quotes stay as written -/
theorem quotes_as_written (s : Bytes) :
    (literalValue s).count 34 = s.count 34 ∧ (literalValue s).count 39 = s.count 39 := by
  rw [literalValue_eq_esc3]; exact esc3_quotes s

/-- unescaping the value gives back the literal byte for byte -/
theorem unescape_literal (s : Bytes) : htmlUnescape (literalValue s) = s := by
  rw [literalValue_eq_esc3]; exact unescape_esc3 s

/-- evaluating a string literal yields the escaped text -/
theorem literal_evaluates_escaped (fuel : Nat) (c : Ctx) (env : Env) (t : Token) (s : Bytes) :
    evalExpr (fuel + 1) c env (.str t s) = .ok (.str (esc3 s)) := by
  simp [evalExpr, literalValue_eq_esc3]

/-- `raw()` on a literal yields exactly its original text -/
theorem raw_literal_exact (fuel : Nat) (c : Ctx) (env : Env) (t t2 : Token) (s : Bytes) :
    evalExpr (fuel + 3) c env (.call t (.str t2 s) (b "raw") []) = .ok (.str s) := by
  rw [show fuel + 3 = (fuel + 2) + 1 from rfl, evalExpr]
  simp only [show fuel + 2 = (fuel + 1) + 1 from rfl, evalExpr, evalExprs]
  have hcall : callBuiltin (.str (literalValue s)) (b "raw") [] = some (.ok (.str (htmlUnescape (literalValue s)))) := by
    simp (config := { decide := true }) [callBuiltin, strBuiltin]
  simp [Val.type, hasBuiltinTable, hcall, unescape_literal]

/-- escaping is context free: the value of a concatenation of literals is the concatenation of the
    escaped texts, printing a string prints its bytes, and an array prints its elements joined -/
theorem concat_escaped (s t : Bytes) (line : Nat) :
    strInfix (b "+") (literalValue s) (literalValue t) line = .ok (.str (esc3 (s ++ t))) := by
  simp (config := { decide := true }) [strInfix, literalValue_eq_esc3, esc3_append]

theorem print_string_exact (v : Bytes) : (Val.str v).toStr = v := by simp [Val.toStr]

/-! non-vacuity -/

example : literalValue (b "<b>&amp; \"q\" 'r' &#34;") = b "&lt;b&gt;&amp;amp; \"q\" 'r' &amp;#34;" := by decide
example : htmlUnescape (literalValue (b "a<&>\"'&lt;&#39;é")) = b "a<&>\"'&lt;&#39;é" := by decide

/-- **a string literal reaches the output HTML-escaped, from the source bytes on**: for either quote
    character, any white space around the literal inside the braces, and every literal text without
    that quote and without a backslash, the template `{{ "text" }}` — alone, or anywhere among text
    runs, comments, `{{ name }}` blocks and `@if … @end` constructs, by `witems_render` — renders
    `literalValue text`: no raw `<` or `>`, every `&` an entity, quotes as written, and unescaping
    gives the literal back (`no_raw_angle`, `quotes_as_written`, `unescape_literal` above) -/
theorem literal_prints_escaped_from_source (custom : List ((VType × Bytes) × Nat)) (g1 g2 c : Bytes) (q : Byte)
    (hg1 : allWs g1) (hg2 : allWs g2) (hq : q = 34 ∨ q = 39) (hp : PlainStr q c)
    (data : List (Bytes × GoVal)) (env : Env) (henv : envFromMap data = .ok env) :
    evaluateStringPure custom ([123, 123] ++ g1 ++ (q :: (c ++ [q])) ++ g2 ++ [125, 125]) data = .ok (literalValue c) := by
  have := witems_render custom [.lit g1 q c g2] ⟨hg1, hg2, hq, hp, trivial⟩ (by simp [wspec, evalFuel]) data env henv
    (by simp [wspec, wbound])
  simpa [witemsSrc, WItem.src, wspec, wrender] using this

example : evaluateStringPure [] (b "{{ '<b>&amp;\"x\"</b>' }}") [] = .ok (b "&lt;b&gt;&amp;amp;\"x\"&lt;/b&gt;") := by
  have h := literal_prints_escaped_from_source [] (b " ") (b " ") (b "<b>&amp;\"x\"</b>") 39 (by decide) (by decide) (Or.inr rfl) (by decide)
    [] [[]] (by rfl)
  have h2 : literalValue (b "<b>&amp;\"x\"</b>") = b "&lt;b&gt;&amp;amp;\"x\"&lt;/b&gt;" := by decide
  rw [h2] at h
  exact h

/-- **`raw()` is the exact opt-out, from the source bytes**: the template `{{ "text".raw() }}` — either
    quote, any white space inside the braces, any text without that quote and without a backslash,
    angle brackets and ampersands included — renders exactly `text`, for every data map.  Lexer
    (`lex_raw`), parser (`parse_strcall_stmt`) and evaluator (`raw_literal_exact`) composed. -/
theorem raw_literal_prints_exact_from_source (custom : List ((VType × Bytes) × Nat)) (g1 g2 c : Bytes) (q : Byte)
    (hg1 : allWs g1) (hg2 : allWs g2) (hq : q = 34 ∨ q = 39) (hp : PlainStr q c)
    (data : List (Bytes × GoVal)) (env : Env) (henv : envFromMap data = .ok env) :
    evaluateStringPure custom (rawSrc g1 q c g2) data = .ok c := by
  obtain ⟨prog, t2, t4, t6, hpp, hs⟩ := parse_raw_source g1 q c g2 hg1 hg2 hq hp
  unfold evaluateStringPure envOrFail
  rw [hpp]
  simp only [henv, hs]
  rw [show evalFuel = (evalFuel - 5) + 3 + 1 + 1 from by decide, evalProg_cons, evalStmt_succ]
  simp only [stmtBody, calleesAt_expr]
  have hraw : kwRaw = b "raw" := by decide
  rw [hraw, raw_literal_exact (evalFuel - 5) _ env t4 t2 c]
  simp only [Res.bind_ok]
  rw [evalProg_nil]
  simp [resToOut, Val.toStr]

example : evaluateStringPure [] (b "{{ \"<b>a & b</b>\".raw() }}") [] = .ok (b "<b>a & b</b>") := by
  have := raw_literal_prints_exact_from_source [] [32] [32] (b "<b>a & b</b>") 34 (by decide) (by decide) (Or.inl rfl) (by decide) [] [[]] (by rfl)
  have hs : rawSrc [32] 34 (b "<b>a & b</b>") [32] = b "{{ \"<b>a & b</b>\".raw() }}" := by decide
  rw [hs] at this
  exact this

/-- **joined literals are escaped one by one, from the source bytes on**: `{{ "a" + 'b' }}` — either quote
    for each literal, any white space inside the braces and around the `+` — renders
    `literalValue a ++ literalValue b`: each literal escaped on its own, nothing escaped twice, nothing
    added by the join.  Lexer (`lex_concat`), parser (`parse_concat_source`) and evaluator composed. -/
theorem joined_literals_print_escaped_from_source (custom : List ((VType × Bytes) × Nat)) (g1 g2 g3 g4 c1 c2 : Bytes) (q1 q2 : Byte)
    (hg1 : allWs g1) (hg2 : allWs g2) (hg3 : allWs g3) (hg4 : allWs g4) (hq1 : q1 = 34 ∨ q1 = 39) (hq2 : q2 = 34 ∨ q2 = 39)
    (hp1 : PlainStr q1 c1) (hp2 : PlainStr q2 c2)
    (data : List (Bytes × GoVal)) (env : Env) (henv : envFromMap data = .ok env) :
    evaluateStringPure custom (concatSrc g1 q1 c1 g3 g4 q2 c2 g2) data = .ok (literalValue c1 ++ literalValue c2) := by
  obtain ⟨prog, t2, t3, t4, hpp, hs⟩ := parse_concat_source g1 q1 c1 g3 g4 q2 c2 g2 hg1 hg2 hg3 hg4 hq1 hq2 hp1 hp2
  unfold evaluateStringPure envOrFail
  rw [hpp]
  simp only [henv, hs]
  rw [show evalFuel = (evalFuel - 6) + 1 + 1 + 1 + 1 + 1 + 1 from by decide, evalProg_cons, evalStmt_succ]
  simp only [stmtBody, calleesAt_expr]
  simp only [evalExpr, infixOp, Val.type, show (VType.STRING != VType.STRING) = false from by decide, Bool.false_eq_true, if_false, strInfix,
    show (([43] : Bytes) == b "==") = false from by decide, show (([43] : Bytes) == b "!=") = false from by decide,
    show (([43] : Bytes) == b "+") = true from by decide, if_true, Res.bind_ok]
  rw [evalProg_nil]
  simp [resToOut, Val.toStr]

example : evaluateStringPure [] (b "{{ \"<a>\" + '&' }}") [] = .ok (b "&lt;a&gt;&amp;") := by
  have h := joined_literals_print_escaped_from_source [] (b " ") (b " ") (b " ") (b " ") (b "<a>") (b "&") 34 39 (by decide) (by decide)
    (by decide) (by decide) (Or.inl rfl) (Or.inr rfl) (by decide) (by decide) [] [[]] (by rfl)
  have h2 : literalValue (b "<a>") ++ literalValue (b "&") = b "&lt;a&gt;&amp;" := by decide
  rw [h2] at h
  exact h

end Tw.C10
