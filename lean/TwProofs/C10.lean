/-
  TwProofs.C10 — property theorems (see DESIGN.md, section 6).
-/
import TwModel
import TwSpec

namespace Tw.C10
open Tw

end Tw.C10
