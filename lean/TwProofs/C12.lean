/-
  TwProofs.C12 — Go data passed to a render is visible with the same structure.
-/
import TwProofs.Lemmas.Sort

namespace Tw.C12
open Tw

/-- scalars convert to the equal value -/
theorem scalars (bv : Bool) (s : Bytes) (i : Int) (f : Float) :
    nativeToObject (.bool bv) = some (.bool bv) ∧ nativeToObject (.str s) = some (.str s) ∧
    nativeToObject (.int i) = some (.int (Int64.ofInt i)) ∧ nativeToObject (.float f) = some (.float f) ∧
    nativeToObject .nilIface = some .nil := by
  simp [nativeToObject]

/-- a nil pointer is nil; a pointer is transparent -/
theorem pointers (g : GoVal) : nativeToObject (.ptr none) = some .nil ∧ nativeToObject (.ptr (some g)) = nativeToObject g := by
  simp [nativeToObject]

/-- a value of another kind makes the conversion fail (the Go code returns a nil Object and
    `EnvFromMap` reports `unsupported type`) — at the top and, by the next theorems, at any depth -/
theorem other_kind_fails (k : String) : nativeToObject (.other k) = none := by simp [nativeToObject]

theorem slice_fails_iff (xs : List GoVal) : nativeToObject (.slice xs) = none ↔ nativeList xs = none := by
  simp [nativeToObject]

theorem list_fails_iff : ∀ xs : List GoVal, nativeList xs = none ↔ ∃ x ∈ xs, nativeToObject x = none
  | [] => by simp [nativeList]
  | x :: r => by
    simp only [nativeList]
    cases hx : nativeToObject x with
    | none => simp [hx]
    | some v =>
      have := list_fails_iff r
      simp only [List.mem_cons, exists_eq_or_imp, hx, reduceCtorEq, false_or]
      rw [← this]
      cases nativeList r <;> simp

theorem map_fails_iff : ∀ kvs : List (Bytes × GoVal), nativePairs kvs = none ↔ ∃ p ∈ kvs, nativeToObject p.2 = none
  | [] => by simp [nativePairs]
  | (k, x) :: r => by
    simp only [nativePairs]
    cases hx : nativeToObject x with
    | none => simp [hx]
    | some v =>
      have := map_fails_iff r
      simp only [List.mem_cons, exists_eq_or_imp, hx, reduceCtorEq, false_or]
      rw [← this]
      cases nativePairs r <;> simp

/-- only exported fields are looked at: a struct fails iff an exported field fails -/
theorem struct_fails_iff : ∀ fs : List (Bytes × Bool × GoVal),
    nativeFields fs = none ↔ ∃ p ∈ fs, p.2.1 = true ∧ nativeToObject p.2.2 = none
  | [] => by simp [nativeFields]
  | (k, ex, x) :: r => by
    simp only [nativeFields]
    have := struct_fails_iff r
    cases ex with
    | false => simp [this]
    | true =>
      simp only [Bool.not_true, Bool.false_eq_true, if_false]
      cases hx : nativeToObject x with
      | none => simp [hx]
      | some v =>
        simp only [List.mem_cons, exists_eq_or_imp, hx, reduceCtorEq, and_false, false_or]
        rw [← this]
        cases nativeFields r <;> simp

/-- the elements of a slice are visible by position -/
theorem slice_elements (xs : List GoVal) (vs : List Val) (h : nativeList xs = some vs) :
    nativeToObject (.slice xs) = some (.arr vs) := by simp [nativeToObject, h]

theorem list_length : ∀ (xs : List GoVal) (vs : List Val), nativeList xs = some vs → vs.length = xs.length
  | [], vs, h => by simp [nativeList] at h; subst h; rfl
  | x :: r, vs, h => by
    simp only [nativeList] at h
    cases hx : nativeToObject x with
    | none => simp [hx] at h
    | some v =>
      cases hr : nativeList r with
      | none => simp [hx, hr] at h
      | some vr =>
        simp [hx, hr] at h; subst h
        simp [list_length r vr hr]

/-- the keys of a map are reachable by name: the converted object holds, for every key, the
    converted value (the entries are key-sorted, the lookup does not care) -/
theorem mapGet_sortByKey {α} (l : List (Bytes × α)) (hd : KeysDistinct l) (k : Bytes) : mapGet (sortByKey l) k = mapGet l k := by
  have hperm := sortByKey_perm l
  have hd' : KeysDistinct (sortByKey l) := List.Pairwise.perm hd hperm.symm (fun h e => h e.symm)
  -- lookup in a list with distinct keys = membership
  have key : ∀ (m : List (Bytes × α)), KeysDistinct m → ∀ v, mapGet m k = some v ↔ (k, v) ∈ m := by
    intro m
    induction m with
    | nil => intro _ v; simp [mapGet]
    | cons p r ih =>
      intro hm v
      obtain ⟨pk, pv⟩ := p
      have hm' := List.pairwise_cons.mp hm
      simp only [mapGet]
      by_cases hk : pk = k
      · subst hk
        simp only [beq_self_eq_true, if_true, Option.some.injEq, List.mem_cons, Prod.mk.injEq, true_and]
        constructor
        · intro h; exact Or.inl h.symm
        · intro h
          rcases h with h | h
          · exact h.symm
          · exact absurd rfl (hm'.1 (pk, v) h)
      · have : (pk == k) = false := by simpa using hk
        simp only [this, Bool.false_eq_true, if_false, List.mem_cons, Prod.mk.injEq]
        rw [ih hm'.2 v]
        constructor
        · intro h; exact Or.inr h
        · intro h
          rcases h with ⟨h, _⟩ | h
          · exact absurd h.symm hk
          · exact h
  cases h1 : mapGet (sortByKey l) k with
  | some v =>
    have := (key _ hd' v).mp h1
    exact ((key l hd v).mpr (hperm.subset this)).symm
  | none =>
    cases h2 : mapGet l k with
    | none => rfl
    | some v =>
      have := (key l hd v).mp h2
      have := (key _ hd' v).mpr (hperm.symm.subset this)
      rw [h1] at this; exact absurd this (by simp)

/-! non-vacuity -/

example : nativeToObject (.struct [(b "Name", true, .str (b "x")), (b "secret", false, .other "chan"), (b "P", true, .ptr none)]) =
    some (.obj [(b "Name", .str (b "x")), (b "P", .nil)]) := by rfl

example : nativeToObject (.map [(b "k", .slice [.int 1, .other "func"])]) = none := by rfl

end Tw.C12
