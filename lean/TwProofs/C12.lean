/-
  TwProofs.C12 — property theorems (see DESIGN.md, section 6).
-/
import TwModel
import TwSpec

namespace Tw.C12
open Tw

end Tw.C12
