/-
  TwProofs.C12 — Go data passed to a render is visible with the same structure.
-/
import TwProofs.Lemmas.Sort

import TwProofs.C04
import TwProofs.Lemmas.TextVars
import TwProofs.Lemmas.TextDot
import TwProofs.Lemmas.TextIndex
import TwProofs.Lemmas.TextIdxDot
import TwProofs.Lemmas.TextAround

namespace Tw.C12
open Tw

/-- scalars convert to the equal value -/
theorem scalars (bv : Bool) (s : Bytes) (i : Int) (f : Float) :
    nativeToObject (.bool bv) = some (.bool bv) ∧ nativeToObject (.str s) = some (.str s) ∧
    nativeToObject (.int i) = some (.int (Int64.ofInt i)) ∧ nativeToObject (.float f) = some (.float f) ∧
    nativeToObject .nilIface = some .nil := by
  simp [nativeToObject]

/-- a nil pointer is nil; a pointer is transparent -/
theorem pointers (g : GoVal) : nativeToObject (.ptr none) = some .nil ∧ nativeToObject (.ptr (some g)) = nativeToObject g := by
  simp [nativeToObject]

/-- a value of another kind makes the conversion fail (the Go code returns a nil Object and
    `EnvFromMap` reports `unsupported type`) — at the top and, by the next theorems, at any depth -/
theorem other_kind_fails (k : String) : nativeToObject (.other k) = none := by simp [nativeToObject]

theorem slice_fails_iff (xs : List GoVal) : nativeToObject (.slice xs) = none ↔ nativeList xs = none := by
  simp [nativeToObject]

theorem list_fails_iff : ∀ xs : List GoVal, nativeList xs = none ↔ ∃ x ∈ xs, nativeToObject x = none
  | [] => by simp [nativeList]
  | x :: r => by
    simp only [nativeList]
    cases hx : nativeToObject x with
    | none => simp [hx]
    | some v =>
      have := list_fails_iff r
      simp only [List.mem_cons, exists_eq_or_imp, hx, reduceCtorEq, false_or]
      rw [← this]
      cases nativeList r <;> simp

theorem map_fails_iff : ∀ kvs : List (Bytes × GoVal), nativePairs kvs = none ↔ ∃ p ∈ kvs, nativeToObject p.2 = none
  | [] => by simp [nativePairs]
  | (k, x) :: r => by
    simp only [nativePairs]
    cases hx : nativeToObject x with
    | none => simp [hx]
    | some v =>
      have := map_fails_iff r
      simp only [List.mem_cons, exists_eq_or_imp, hx, reduceCtorEq, false_or]
      rw [← this]
      cases nativePairs r <;> simp

/-- only exported fields are looked at: a struct fails iff an exported field fails -/
theorem struct_fails_iff : ∀ fs : List (Bytes × Bool × GoVal),
    nativeFields fs = none ↔ ∃ p ∈ fs, p.2.1 = true ∧ nativeToObject p.2.2 = none
  | [] => by simp [nativeFields]
  | (k, ex, x) :: r => by
    simp only [nativeFields]
    have := struct_fails_iff r
    cases ex with
    | false => simp [this]
    | true =>
      simp only [Bool.not_true, Bool.false_eq_true, if_false]
      cases hx : nativeToObject x with
      | none => simp [hx]
      | some v =>
        simp only [List.mem_cons, exists_eq_or_imp, hx, reduceCtorEq, and_false, false_or]
        rw [← this]
        cases nativeFields r <;> simp

/-- the elements of a slice are visible by position -/
theorem slice_elements (xs : List GoVal) (vs : List Val) (h : nativeList xs = some vs) :
    nativeToObject (.slice xs) = some (.arr vs) := by simp [nativeToObject, h]

theorem list_length : ∀ (xs : List GoVal) (vs : List Val), nativeList xs = some vs → vs.length = xs.length
  | [], vs, h => by simp [nativeList] at h; subst h; rfl
  | x :: r, vs, h => by
    simp only [nativeList] at h
    cases hx : nativeToObject x with
    | none => simp [hx] at h
    | some v =>
      cases hr : nativeList r with
      | none => simp [hx, hr] at h
      | some vr =>
        simp [hx, hr] at h; subst h
        simp [list_length r vr hr]

/-- the keys of a map are reachable by name: the converted object holds, for every key, the
    converted value (the entries are key-sorted, the lookup does not care) -/
theorem mapGet_sortByKey {α} (l : List (Bytes × α)) (hd : KeysDistinct l) (k : Bytes) : mapGet (sortByKey l) k = mapGet l k := by
  have hperm := sortByKey_perm l
  have hd' : KeysDistinct (sortByKey l) := List.Pairwise.perm hd hperm.symm (fun h e => h e.symm)
  -- lookup in a list with distinct keys = membership
  have key : ∀ (m : List (Bytes × α)), KeysDistinct m → ∀ v, mapGet m k = some v ↔ (k, v) ∈ m := by
    intro m
    induction m with
    | nil => intro _ v; simp [mapGet]
    | cons p r ih =>
      intro hm v
      obtain ⟨pk, pv⟩ := p
      have hm' := List.pairwise_cons.mp hm
      simp only [mapGet]
      by_cases hk : pk = k
      · subst hk
        simp only [beq_self_eq_true, if_true, Option.some.injEq, List.mem_cons, Prod.mk.injEq, true_and]
        constructor
        · intro h; exact Or.inl h.symm
        · intro h
          rcases h with h | h
          · exact h.symm
          · exact absurd rfl (hm'.1 (pk, v) h)
      · have : (pk == k) = false := by simpa using hk
        simp only [this, Bool.false_eq_true, if_false, List.mem_cons, Prod.mk.injEq]
        rw [ih hm'.2 v]
        constructor
        · intro h; exact Or.inr h
        · intro h
          rcases h with ⟨h, _⟩ | h
          · exact absurd h.symm hk
          · exact h
  cases h1 : mapGet (sortByKey l) k with
  | some v =>
    have := (key _ hd' v).mp h1
    exact ((key l hd v).mpr (hperm.subset this)).symm
  | none =>
    cases h2 : mapGet l k with
    | none => rfl
    | some v =>
      have := (key l hd v).mp h2
      have := (key _ hd' v).mpr (hperm.symm.subset this)
      rw [h1] at this; exact absurd this (by simp)

open Tw.C04 in
/-- `EnvFromMap.go`: every pair it works through ends up visible with its converted value, and
    what was visible before stays as it was (keys distinct from it) -/
theorem envGo_visible : ∀ (l : List (Bytes × GoVal)) (s : List (Bytes × Val)) (env' : Env),
    KeysDistinct l → envFromMap.go l [s] = .ok env' →
    (∀ k g, (k, g) ∈ l → ∃ v, nativeToObject g = some v ∧ env'.get k = some v) ∧
    (∀ k, (∀ p ∈ l, p.1 ≠ k) → env'.get k = Env.get [s] k)
  | [], s, env', _, h => by
    simp only [envFromMap.go] at h
    cases h
    exact ⟨fun _ _ hm => (by cases hm), fun _ _ => rfl⟩
  | (k0, g0) :: r, s, env', hd, h => by
    have hd' := List.pairwise_cons.mp hd
    simp only [envFromMap.go] at h
    cases hv : nativeToObject g0 with
    | none => rw [hv] at h; cases h
    | some v0 =>
      rw [hv] at h
      simp only [] at h
      cases hs : Env.set [s] k0 v0 with
      | error e => rw [hs] at h; cases h
      | ok e1 =>
        rw [hs] at h
        simp only [] at h
        have he1 : e1 = [mapSet s k0 v0] := set_writes_innermost s [] k0 v0 e1 hs
        subst he1
        obtain ⟨ih1, ih2⟩ := envGo_visible r (mapSet s k0 v0) env' hd'.2 h
        constructor
        · intro k g hm
          rcases List.mem_cons.mp hm with hm | hm
          · cases hm
            refine ⟨v0, hv, ?_⟩
            rw [ih2 k0 (fun p hp => hd'.1 p hp |> fun hne => fun e => hne e.symm)]
            simp [Env.get, mapGet_mapSet_same]
          · exact ih1 k g hm
        · intro k hk
          rw [ih2 k (fun p hp => hk p (List.mem_cons_of_mem _ hp))]
          have hne : k ≠ k0 := fun e => hk (k0, g0) List.mem_cons_self e.symm
          simp [Env.get, mapGet_mapSet_other _ _ _ _ hne]

open Tw.C04 in
/-- **every variable of the data map is visible** with the converted value of what the caller
    passed (keys distinct, as in a Go map), in the outermost scope — and therefore, by
    `C04.nested_block_sees_outer`, in every nested block unless shadowed -/
theorem data_is_visible (data : List (Bytes × GoVal)) (env : Env) (hd : KeysDistinct data)
    (h : envFromMap data = .ok env) (k : Bytes) (g : GoVal) (hm : (k, g) ∈ data) :
    ∃ v, nativeToObject g = some v ∧ env.get k = some v := by
  unfold envFromMap at h
  have hperm := sortByKey_perm data
  have hd' : KeysDistinct (sortByKey data) := List.Pairwise.perm hd hperm.symm (fun h e => h e.symm)
  exact (envGo_visible (sortByKey data) [] env hd' h).1 k g (hperm.symm.subset hm)

/-- … and in every block nested inside, however deep (as long as nothing in between binds the name again) -/
theorem data_is_visible_in_nested_blocks (data : List (Bytes × GoVal)) (env : Env) (hd : KeysDistinct data)
    (h : envFromMap data = .ok env) (k : Bytes) (g : GoVal) (hm : (k, g) ∈ data) (n : Nat) :
    ∃ v, nativeToObject g = some v ∧ (Nat.repeat Env.push n env).get k = some v := by
  obtain ⟨v, hv, hg⟩ := data_is_visible data env hd h k g hm
  refine ⟨v, hv, ?_⟩
  induction n with
  | zero => exact hg
  | succ n ih => rw [Nat.repeat, C04.nested_block_sees_outer]; exact ih

/-- **a root value of the data prints as its converted value, from the source bytes on**: for every
    data map with distinct keys and every entry `(k, g)` whose key is a name, the template
    `{{ k }}` — with any white space `g1`, `g2` around the name, any text `pre`, `post` around the block —
    renders `pre`, the printed converted value of `g`, `post` -/
theorem root_value_prints (custom : List ((VType × Bytes) × Nat)) (data : List (Bytes × GoVal)) (env : Env) (hd : KeysDistinct data)
    (h : envFromMap data = .ok env) (k : Bytes) (g : GoVal) (hm : (k, g) ∈ data) (hk : isName k)
    (g1 g2 : Bytes) (hg1 : allWs g1) (hg2 : allWs g2) :
    ∃ v, nativeToObject g = some v ∧
      evaluateStringPure custom ([123, 123] ++ g1 ++ k ++ g2 ++ [125, 125]) data = .ok v.toStr := by
  obtain ⟨v, hv, hget⟩ := data_is_visible data env hd h k g hm
  refine ⟨v, hv, ?_⟩
  have := vitems_render custom [.print g1 k g2] ⟨hg1, hg2, hk, trivial⟩ (by simp [vpieces, evalFuel]) data env h
    (by simp [vpieces, holesBound, hget])
  simpa [vitemsSrc, VItem.src, vpieces, fill, hget] using this

/-- **a field of a root value prints as its converted value, from the source bytes on**: for every
    data map with distinct keys, every entry `(k, g)` whose value converts to an object (a struct,
    a string-keyed map, a pointer to one) and every identifier `f` that is a key of that object — as
    written, or with its first letter in upper case (the exported Go field `Name` is reachable as
    `name`) — the template `{{ k.f }}`, with any white space inside the braces, renders the printed
    converted value of that field.  Lexer (`lex_dot`), parser (`parse_dot_stmt`) and evaluator composed. -/
theorem field_value_prints (custom : List ((VType × Bytes) × Nat)) (data : List (Bytes × GoVal)) (env : Env) (hd : KeysDistinct data)
    (h : envFromMap data = .ok env) (k : Bytes) (g : GoVal) (hm : (k, g) ∈ data) (hk : isName k) (f : Bytes) (hf : isName f)
    (g1 g2 : Bytes) (hg1 : allWs g1) (hg2 : allWs g2) (kvs : List (Bytes × Val)) (hobj : nativeToObject g = some (.obj kvs))
    (v : Val) (hv : mapGet kvs f = some v ∨ (mapGet kvs f = none ∧ mapGet kvs (toUpper (f.take 1) ++ f.drop 1) = some v)) :
    evaluateStringPure custom (dotSrc g1 k f g2) data = .ok v.toStr := by
  obtain ⟨v0, hv0, hget⟩ := data_is_visible data env hd h k g hm
  have hv0' : v0 = .obj kvs := by rw [hobj] at hv0; cases hv0; rfl
  subst hv0'
  obtain ⟨prog, t2, t3, t4, hp, hs⟩ := parse_dot_source g1 k f g2 hg1 hg2 hk hf
  have hfne : f.isEmpty = false := by
    obtain ⟨⟨c, cv, hcv, _⟩, _, _⟩ := hf
    rw [hcv]; rfl
  have hidx : ∀ line, objIndex kvs f line = .ok v := by
    intro line
    unfold objIndex
    rcases hv with hv | ⟨hn, hv⟩
    · rw [hv]
    · rw [hn]
      simp only [hfne, Bool.false_eq_true, if_false, hv]
  unfold evaluateStringPure envOrFail
  rw [hp]
  simp only [h, hs]
  rw [show evalFuel = (evalFuel - 4) + 1 + 1 + 1 + 1 from by decide, evalProg_cons, evalStmt_succ]
  simp only [stmtBody, calleesAt_expr]
  simp only [evalExpr, hget, hidx, Res.bind_ok]
  rw [evalProg_nil]
  simp [resToOut]

example : evaluateStringPure [] (b "{{ user.name }}") [(b "user", .struct [(b "Name", true, .str (b "Ann")), (b "age", false, .int 3)])] =
    .ok (b "Ann") := by
  have := field_value_prints [] [(b "user", .struct [(b "Name", true, .str (b "Ann")), (b "age", false, .int 3)])]
    [[(b "user", .obj [(b "Name", .str (b "Ann"))])]] (by simp [KeysDistinct]) (by rfl) (b "user")
    (.struct [(b "Name", true, .str (b "Ann")), (b "age", false, .int 3)]) (by simp) (by decide) (b "name") (by decide)
    [32] [32] (by decide) (by decide) [(b "Name", .str (b "Ann"))] (by rfl) (.str (b "Ann")) (Or.inr ⟨by rfl, by rfl⟩)
  have hs : dotSrc [32] (b "user") (b "name") [32] = b "{{ user.name }}" := by decide
  rw [hs] at this
  exact this


/-- inside the array the index reads the element at that position -/
theorem arrIndex_in (xs : List Val) (n : Nat) (h : n < xs.length) (hb : n < 2 ^ 63) : arrIndex xs (Int64.ofNat n) = xs.getD n .nil := by
  unfold arrIndex
  have e : (Int64.ofNat n).toInt = n := Int64.toInt_ofNat_of_lt hb
  have l : ¬ (Int64.ofNat n < 0) := by
    rw [Int64.lt_iff_toInt_lt, e]; simp
  simp [l, e]; omega

/-- past the end the index reads nil -/
theorem arrIndex_out (xs : List Val) (n : Nat) (h : xs.length ≤ n) (hb : n < 2 ^ 63) : arrIndex xs (Int64.ofNat n) = .nil := by
  unfold arrIndex
  have e : (Int64.ofNat n).toInt = n := Int64.toInt_ofNat_of_lt hb
  simp [e]; omega

/-- **an element of a root slice prints as its converted value, from the source bytes on**: for every
    data map with distinct keys, every entry `(k, g)` whose value converts to an array (a slice or an
    array of supported elements) and every decimal number `d` that fits in an int64, the template
    `{{ k[d] }}` — with any white space after `{{`, around the number and before `}}` — renders the printed
    converted element at position `d`, and the printed nil (nothing) when `d` is past the end.
    Lexer (`lex_index`: IDENT, LBRACKET, INT, RBRACKET), parser (`parse_index_stmt`) and evaluator composed. -/
theorem index_value_prints (custom : List ((VType × Bytes) × Nat)) (data : List (Bytes × GoVal)) (env : Env) (hd : KeysDistinct data)
    (h : envFromMap data = .ok env) (k : Bytes) (g : GoVal) (hm : (k, g) ∈ data) (hk : isName k) (d : Bytes) (hdg : isDigits d)
    (hb : digitsToNat d < 2 ^ 63) (g1 g2 g3 g4 : Bytes) (hg1 : allWs g1) (hg2 : allWs g2) (hg3 : allWs g3) (hg4 : allWs g4)
    (xs : List Val) (harr : nativeToObject g = some (.arr xs)) :
    evaluateStringPure custom (idxSrc g1 k g3 d g4 g2) data = .ok (xs.getD (digitsToNat d) .nil).toStr := by
  obtain ⟨v0, hv0, hget⟩ := data_is_visible data env hd h k g hm
  have hv0' : v0 = .arr xs := by rw [harr] at hv0; cases hv0; rfl
  subst hv0'
  obtain ⟨prog, t2, t3, t4, t5, hp, hs⟩ := parse_index_source g1 k g3 d g4 g2 hg1 hg2 hg3 hg4 hk hdg (by omega)
  have hidx : arrIndex xs (Int64.ofNat (digitsToNat d)) = xs.getD (digitsToNat d) .nil := by
    by_cases hl : digitsToNat d < xs.length
    · exact arrIndex_in xs _ hl hb
    · rw [arrIndex_out xs _ (by omega) hb]
      simp [List.getD, List.getElem?_eq_none (show xs.length ≤ digitsToNat d by omega)]
  unfold evaluateStringPure envOrFail
  rw [hp]
  simp only [h, hs]
  rw [show evalFuel = (evalFuel - 4) + 1 + 1 + 1 + 1 from by decide, evalProg_cons, evalStmt_succ]
  simp only [stmtBody, calleesAt_expr]
  simp only [evalExpr, hget, hidx, Res.bind_ok]
  rw [evalProg_nil]
  simp [resToOut]

example : evaluateStringPure [] (b "{{ names[ 1 ] }}") [(b "names", .slice [.str (b "Ann"), .str (b "Bob")])] = .ok (b "Bob") := by
  have := index_value_prints [] [(b "names", .slice [.str (b "Ann"), .str (b "Bob")])]
    [[(b "names", .arr [.str (b "Ann"), .str (b "Bob")])]] (by simp [KeysDistinct]) (by rfl) (b "names")
    (.slice [.str (b "Ann"), .str (b "Bob")]) (by simp) (by decide) (b "1") (by decide) (by decide)
    [32] [32] [32] [32] (by decide) (by decide) (by decide) (by decide) [.str (b "Ann"), .str (b "Bob")] (by rfl)
  have hs : idxSrc [32] (b "names") [32] (b "1") [32] [32] = b "{{ names[ 1 ] }}" := by decide
  rw [hs] at this
  exact this

/-- **a field of an element of a root slice prints as its converted value, from the source bytes on**
    (`{{ users[0].name }}`): for every data map with distinct keys, every entry `(k, g)` whose value
    converts to an array, every decimal position `d` inside it whose element converts to an object
    (a struct, a string-keyed map, a pointer to one) and every key `f` of that object — as written, or
    with its first letter in upper case — the template `{{ k[d].f }}`, with any white space inside the
    brackets and the braces, renders the printed converted value of that field. -/
theorem element_field_prints (custom : List ((VType × Bytes) × Nat)) (data : List (Bytes × GoVal)) (env : Env) (hd : KeysDistinct data)
    (h : envFromMap data = .ok env) (k : Bytes) (g : GoVal) (hm : (k, g) ∈ data) (hk : isName k) (d : Bytes) (hdg : isDigits d)
    (hb : digitsToNat d < 2 ^ 63) (f : Bytes) (hf : isName f) (g1 g2 g3 g4 : Bytes) (hg1 : allWs g1) (hg2 : allWs g2) (hg3 : allWs g3)
    (hg4 : allWs g4) (xs : List Val) (harr : nativeToObject g = some (.arr xs)) (hin : digitsToNat d < xs.length)
    (kvs : List (Bytes × Val)) (hel : xs.getD (digitsToNat d) .nil = .obj kvs)
    (v : Val) (hv : mapGet kvs f = some v ∨ (mapGet kvs f = none ∧ mapGet kvs (toUpper (f.take 1) ++ f.drop 1) = some v)) :
    evaluateStringPure custom (idxDotSrc g1 k g3 d g4 f g2) data = .ok v.toStr := by
  obtain ⟨v0, hv0, hget⟩ := data_is_visible data env hd h k g hm
  have hv0' : v0 = .arr xs := by rw [harr] at hv0; cases hv0; rfl
  subst hv0'
  obtain ⟨prog, t2, t3, t4, t6, t7, hp, hs⟩ := parse_idxDot_source g1 k g3 d g4 f g2 hg1 hg2 hg3 hg4 hk hdg hf (by omega)
  have hidx : arrIndex xs (Int64.ofNat (digitsToNat d)) = .obj kvs := by rw [arrIndex_in xs _ hin hb, hel]
  have hfne : f.isEmpty = false := by
    obtain ⟨⟨c, cv, hcv, _⟩, _, _⟩ := hf
    rw [hcv]; rfl
  have hobj : ∀ line, objIndex kvs f line = .ok v := by
    intro line
    unfold objIndex
    rcases hv with hv | ⟨hn, hv⟩
    · rw [hv]
    · rw [hn]
      simp only [hfne, Bool.false_eq_true, if_false, hv]
  unfold evaluateStringPure envOrFail
  rw [hp]
  simp only [h, hs]
  rw [show evalFuel = (evalFuel - 6) + 1 + 1 + 1 + 1 + 1 + 1 from by decide, evalProg_cons, evalStmt_succ]
  simp only [stmtBody, calleesAt_expr]
  simp only [evalExpr, hget, hidx, hobj, Res.bind_ok]
  rw [evalProg_nil]
  simp [resToOut]

example : evaluateStringPure [] (b "{{ users[1].name }}")
    [(b "users", .slice [.struct [(b "Name", true, .str (b "Ann"))], .struct [(b "Name", true, .str (b "Bob"))]])] = .ok (b "Bob") := by
  have := element_field_prints [] [(b "users", .slice [.struct [(b "Name", true, .str (b "Ann"))], .struct [(b "Name", true, .str (b "Bob"))]])]
    [[(b "users", .arr [.obj [(b "Name", .str (b "Ann"))], .obj [(b "Name", .str (b "Bob"))]])]] (by simp [KeysDistinct]) (by rfl) (b "users")
    (.slice [.struct [(b "Name", true, .str (b "Ann"))], .struct [(b "Name", true, .str (b "Bob"))]]) (by simp) (by decide) (b "1") (by decide) (by decide)
    (b "name") (by decide) [32] [32] [] [] (by decide) (by decide) (by decide) (by decide)
    [.obj [(b "Name", .str (b "Ann"))], .obj [(b "Name", .str (b "Bob"))]] (by rfl) (by decide) [(b "Name", .str (b "Bob"))] (by rfl)
    (.str (b "Bob")) (Or.inr ⟨by rfl, by rfl⟩)
  have hs : idxDotSrc [32] (b "users") [] (b "1") [] (b "name") [32] = b "{{ users[1].name }}" := by decide
  rw [hs] at this
  exact this

/-- **`Hello {{ user.name }}!`: a field of the data between two runs of text, from the source bytes on**: for
    every data map with distinct keys, every entry `(k, g)` whose value converts to an object with the key
    `f` (as written or with its first letter in upper case), every two runs of text `pre` and `post` (plain
    pieces and escapes, as in C05) and any white space inside the braces, the template
    `pre {{ k.f }} post` renders the text of `pre`, the printed converted field, the text of `post`.
    (`text_code_text`: lexer, parser and evaluator composed once for every one-statement block; the
    instance for `k.f` is `dot_one_stmt`.) -/
theorem field_value_prints_in_text (custom : List ((VType × Bytes) × Nat)) (data : List (Bytes × GoVal)) (env : Env) (hd : KeysDistinct data)
    (h : envFromMap data = .ok env) (k : Bytes) (g : GoVal) (hm : (k, g) ∈ data) (hk : isName k) (f : Bytes) (hf : isName f)
    (g1 g2 : Bytes) (hg1 : allWs g1) (hg2 : allWs g2) (kvs : List (Bytes × Val)) (hobj : nativeToObject g = some (.obj kvs))
    (v : Val) (hv : mapGet kvs f = some v ∨ (mapGet kvs f = none ∧ mapGet kvs (toUpper (f.take 1) ++ f.drop 1) = some v))
    (pre post : List Seg) (hitems : GItemsOK [.text pre, .code (dotCode g1 k f g2), .text post]) :
    evaluateStringPure custom (segsSrc pre ++ (dotSrc g1 k f g2 ++ segsSrc post)) data = .ok (segsLit pre ++ v.toStr ++ segsLit post) := by
  obtain ⟨v0, hv0, hget⟩ := data_is_visible data env hd h k g hm
  have hv0' : v0 = .obj kvs := by rw [hobj] at hv0; cases hv0; rfl
  subst hv0'
  have hfne : f.isEmpty = false := by
    obtain ⟨⟨c, cv, hcv, _⟩, _, _⟩ := hf
    rw [hcv]; rfl
  have hidx : ∀ line, objIndex kvs f line = .ok v := by
    intro line
    unfold objIndex
    rcases hv with hv | ⟨hn, hv⟩
    · rw [hv]
    · rw [hn]
      simp only [hfne, Bool.false_eq_true, if_false, hv]
  have hone : OneStmt (dotCode g1 k f g2) env { custom := custom } v.toStr := by
    refine ⟨dotCode_ok g1 k f g2 hg1 hg2 hk hf, by simp [dotCode, dotKeys], ?_, ?_, ?_⟩
    · intro g toks tn rest hkeys hcl
      have hk' : toks.map key = dotKeys k f := hkeys
      match toks, hk' with
      | [], hk' => simp [dotKeys] at hk'
      | [_], hk' => simp [dotKeys] at hk'
      | [_, _], hk' => simp [dotKeys] at hk'
      | [_, _, _], hk' => simp [dotKeys] at hk'
      | [_, _, _, _], hk' => simp [dotKeys] at hk'
      | _ :: _ :: _ :: _ :: _ :: _ :: _, hk' => simp [dotKeys] at hk'
      | [t1, t2, t3, t4, t5], hk' =>
        simp only [dotKeys, List.map_cons, List.map_nil, List.cons.injEq, and_true] at hk'
        obtain ⟨hk1, hk2, hk3, hk4, hk5⟩ := hk'
        have ty1 : t1.ty = .LBRACES := congrArg Prod.fst hk1
        have ty2 : t2.ty = .IDENT := congrArg Prod.fst hk2
        have lit2 : t2.lit = k := congrArg Prod.snd hk2
        have ty3 : t3.ty = .DOT := congrArg Prod.fst hk3
        have ty4 : t4.ty = .IDENT := congrArg Prod.fst hk4
        have lit4 : t4.lit = f := congrArg Prod.snd hk4
        have ty5 : t5.ty = .RBRACES := congrArg Prod.fst hk5
        refine ⟨.expr t4 (.dot t3 (.ident t2 t2.lit) t4.lit), t5, ?_, by rw [ty5]; decide, rfl, ?_⟩
        · have := parse_dot_stmt (g + 16) t1 t2 t3 t4 t5 (tn :: rest) ty1 ty2 ty3 ty4 ty5 hcl
          simpa [dotCode, dotKeys] using this
        · intro fu
          rw [show fu + 8 = (fu + 5) + 1 + 1 + 1 from by omega, evalStmt_succ]
          simp only [stmtBody, calleesAt_expr]
          simp only [evalExpr, lit2, lit4, hget, hidx, Res.bind_ok]
    · intro toks hkeys
      have hk' : toks.map key = dotKeys k f := hkeys
      cases toks with
      | nil => simp [dotKeys] at hk'
      | cons t r =>
        have : key t = (.LBRACES, [123, 123]) := by simpa [dotKeys] using (List.cons.inj hk').1
        have ty : t.ty = .LBRACES := congrArg Prod.fst this
        exact ⟨t, r, rfl, by rw [ty]; decide, by rw [ty]; decide⟩
    · intro x hx
      simp only [dotCode, dotKeys, List.mem_cons, List.mem_nil_iff, or_false] at hx
      rcases hx with rfl | rfl | rfl | rfl | rfl <;> simp
  exact text_code_text custom pre post (dotCode g1 k f g2) data env h v.toStr hone hitems

example : evaluateStringPure [] (b "Hello {{ user.name }}!")
    [(b "user", .struct [(b "Name", true, .str (b "Ann")), (b "age", false, .int 3)])] = .ok (b "Hello Ann!") := by
  have hitems : GItemsOK [.text [.plain (b "Hello ")], .code (dotCode [32] (b "user") (b "name") [32]), .text [.plain (b "!")]] :=
    ⟨by decide, by decide, by simp only [afterRunG]; decide, dotCode_ok [32] (b "user") (b "name") [32] (by decide) (by decide) (by decide) (by decide),
      by decide, by decide, trivial, trivial⟩
  have := field_value_prints_in_text [] [(b "user", .struct [(b "Name", true, .str (b "Ann")), (b "age", false, .int 3)])]
    [[(b "user", .obj [(b "Name", .str (b "Ann"))])]] (by simp [KeysDistinct]) (by rfl) (b "user")
    (.struct [(b "Name", true, .str (b "Ann")), (b "age", false, .int 3)]) (by simp) (by decide) (b "name") (by decide)
    [32] [32] (by decide) (by decide) [(b "Name", .str (b "Ann"))] (by rfl) (.str (b "Ann")) (Or.inr ⟨by rfl, by rfl⟩)
    [.plain (b "Hello ")] [.plain (b "!")] hitems
  have hs : segsSrc [.plain (b "Hello ")] ++ (dotSrc [32] (b "user") (b "name") [32] ++ segsSrc [.plain (b "!")]) = b "Hello {{ user.name }}!" := by decide
  rw [hs] at this
  exact this

/-- **`First: {{ names[0] }}.`: an element of a slice of the data between two runs of text, from the source
    bytes on** (`text_code_text` with the instance for `k[d]`) -/
theorem index_value_prints_in_text (custom : List ((VType × Bytes) × Nat)) (data : List (Bytes × GoVal)) (env : Env) (hd : KeysDistinct data)
    (h : envFromMap data = .ok env) (k : Bytes) (g : GoVal) (hm : (k, g) ∈ data) (hk : isName k) (d : Bytes) (hdg : isDigits d)
    (hb : digitsToNat d < 2 ^ 63) (g1 g2 g3 g4 : Bytes) (hg1 : allWs g1) (hg2 : allWs g2) (hg3 : allWs g3) (hg4 : allWs g4)
    (xs : List Val) (harr : nativeToObject g = some (.arr xs))
    (pre post : List Seg) (hitems : GItemsOK [.text pre, .code (idxCode g1 k g3 d g4 g2), .text post]) :
    evaluateStringPure custom (segsSrc pre ++ (idxSrc g1 k g3 d g4 g2 ++ segsSrc post)) data =
      .ok (segsLit pre ++ (xs.getD (digitsToNat d) .nil).toStr ++ segsLit post) := by
  obtain ⟨v0, hv0, hget⟩ := data_is_visible data env hd h k g hm
  have hv0' : v0 = .arr xs := by rw [harr] at hv0; cases hv0; rfl
  subst hv0'
  have hidx : arrIndex xs (Int64.ofNat (digitsToNat d)) = xs.getD (digitsToNat d) .nil := by
    by_cases hl : digitsToNat d < xs.length
    · exact arrIndex_in xs _ hl hb
    · rw [arrIndex_out xs _ (by omega) hb]
      simp [List.getD, List.getElem?_eq_none (show xs.length ≤ digitsToNat d by omega)]
  have hone : OneStmt (idxCode g1 k g3 d g4 g2) env { custom := custom } (xs.getD (digitsToNat d) .nil).toStr := by
    refine ⟨idxCode_ok g1 k g3 d g4 g2 hg1 hg2 hg3 hg4 hk hdg, by simp [idxCode, idxKeys], ?_, ?_, ?_⟩
    · intro g toks tn rest hkeys hcl
      have hk' : toks.map key = idxKeys k d := hkeys
      match toks, hk' with
      | [], hk' => simp [idxKeys] at hk'
      | [_], hk' => simp [idxKeys] at hk'
      | [_, _], hk' => simp [idxKeys] at hk'
      | [_, _, _], hk' => simp [idxKeys] at hk'
      | [_, _, _, _], hk' => simp [idxKeys] at hk'
      | [_, _, _, _, _], hk' => simp [idxKeys] at hk'
      | _ :: _ :: _ :: _ :: _ :: _ :: _ :: _, hk' => simp [idxKeys] at hk'
      | [t1, t2, t3, t4, t5, t6], hk' =>
        simp only [idxKeys, List.map_cons, List.map_nil, List.cons.injEq, and_true] at hk'
        obtain ⟨hk1, hk2, hk3, hk4, hk5, hk6⟩ := hk'
        have ty1 : t1.ty = .LBRACES := congrArg Prod.fst hk1
        have ty2 : t2.ty = .IDENT := congrArg Prod.fst hk2
        have lit2 : t2.lit = k := congrArg Prod.snd hk2
        have ty3 : t3.ty = .LBRACKET := congrArg Prod.fst hk3
        have ty4 : t4.ty = .INT := congrArg Prod.fst hk4
        have lit4 : t4.lit = d := congrArg Prod.snd hk4
        have ty5 : t5.ty = .RBRACKET := congrArg Prod.fst hk5
        have ty6 : t6.ty = .RBRACES := congrArg Prod.fst hk6
        refine ⟨.expr t5 (.index t3 (.ident t2 t2.lit) (.int t4 (Int64.ofNat (digitsToNat d)))), t6, ?_, by rw [ty6]; decide, rfl, ?_⟩
        · have := parse_index_stmt (g + 18) t1 t2 t3 t4 t5 t6 (tn :: rest) _ ty1 ty2 ty3 ty4 ty5 ty6
            (by rw [lit4]; exact parseInt64_digits d hdg (by omega)) hcl
          simpa [idxCode, idxKeys] using this
        · intro fu
          rw [show fu + 8 = (fu + 5) + 1 + 1 + 1 from by omega, evalStmt_succ]
          simp only [stmtBody, calleesAt_expr]
          simp only [evalExpr, lit2, hget, hidx, Res.bind_ok]
    · intro toks hkeys
      have hk' : toks.map key = idxKeys k d := hkeys
      cases toks with
      | nil => simp [idxKeys] at hk'
      | cons t r =>
        have : key t = (.LBRACES, [123, 123]) := by simpa [idxKeys] using (List.cons.inj hk').1
        have ty : t.ty = .LBRACES := congrArg Prod.fst this
        exact ⟨t, r, rfl, by rw [ty]; decide, by rw [ty]; decide⟩
    · intro x hx
      simp only [idxCode, idxKeys, List.mem_cons, List.mem_nil_iff, or_false] at hx
      rcases hx with rfl | rfl | rfl | rfl | rfl | rfl <;> simp
  exact text_code_text custom pre post (idxCode g1 k g3 d g4 g2) data env h _ hone hitems

/-! non-vacuity -/

example : nativeToObject (.struct [(b "Name", true, .str (b "x")), (b "secret", false, .other "chan"), (b "P", true, .ptr none)]) =
    some (.obj [(b "Name", .str (b "x")), (b "P", .nil)]) := by rfl

example : nativeToObject (.map [(b "k", .slice [.int 1, .other "func"])]) = none := by rfl

end Tw.C12
