/-
  TwProofs.C07 — each `@component` use renders the component file with its own arguments and slots.

  In the model every use written in a page has its own allocation number `cid`; the loader
  (`applyComponents`, transcription of applyComponentToProgram / Program.ApplyComponent after the
  "per-use program" fix) attaches to each number the statements of the component file with that
  use's slot bodies filled in.  Theorems: the program attached to a use is a function of that
  use alone; evaluation binds the arguments in a new innermost scope (the surrounding variables
  stay visible) and hands the caller's environment back; slot placeholders render the passed
  body or nothing; the load-time errors.
-/
import TwModel
import TwSpec
import TwProofs.Lemmas.EvalStep
import TwProofs.Lemmas.LoadWhole

namespace Tw.C07
open Tw

/-! ### evaluation of one use -/

/-- a use renders its own program (looked up by the use's allocation number) with the
    arguments — evaluated at the place of use, in alphabetical key order — bound in a new scope on
    top of the caller's environment, and gives the caller's environment back -/
theorem component_renders_its_program (f : Nat) (c : Ctx) (env : Env) (t : Token) (name : Bytes) (cid : Nat)
    (pairs : List (Bytes × Expr)) (prog : List Stmt) (hp : lookupNat c.comps cid = some prog) :
    evalStmt (f + 1) c env (.component t name (some pairs) cid) =
      (evalPairs f c env (sortByKey pairs)).bind fun kvs =>
      (bindArgs env.push kvs t.errorLine).bind fun env1 =>
      (evalProg f c env1 prog []).bind fun r => .ok ({ text := r.1 }, env) := by
  rw [evalStmt_succ]
  simp only [stmtBody, hp, calleesAt_pairs, calleesAt_prog]

theorem component_without_arguments (f : Nat) (c : Ctx) (env : Env) (t : Token) (name : Bytes) (cid : Nat)
    (prog : List Stmt) (hp : lookupNat c.comps cid = some prog) :
    evalStmt (f + 1) c env (.component t name none cid) =
      (evalProg f c env.push prog []).bind fun r => .ok ({ text := r.1 }, env) := by
  rw [evalStmt_succ]
  simp only [stmtBody, hp, calleesAt_prog, Res.bind_ok, bindArgs]

/-- arguments go into the new innermost scope only … -/
theorem bindArgs_shape : ∀ (kvs : List (Bytes × Val)) (s : List (Bytes × Val)) (outer : Env) (line : Nat) (env1 : Env),
    bindArgs (s :: outer) kvs line = .ok env1 → ∃ s', env1 = s' :: outer
  | [], s, outer, _, env1, h => by simp [bindArgs] at h; exact ⟨s, h.symm⟩
  | (k, v) :: r, s, outer, line, env1, h => by
    unfold bindArgs at h
    split at h
    · rename_i env' hset
      have : env' = mapSet s k v :: outer := by
        unfold Env.set at hset
        split at hset
        · cases hset
        · split at hset
          · split at hset
            · cases hset
            · cases hset; rfl
          · cases hset; rfl
      rw [this] at h
      exact bindArgs_shape r _ outer line env1 h
    · cases h

/-- … so every variable of the place of use that is not an argument name is still visible inside -/
theorem surrounding_variables_visible (kvs : List (Bytes × Val)) (env env1 : Env) (line : Nat) (x : Bytes)
    (h : bindArgs env.push kvs line = .ok env1) :
    ∃ s', env1 = s' :: env ∧ (mapGet s' x = none → env1.get x = env.get x) := by
  obtain ⟨s', hs'⟩ := bindArgs_shape kvs [] env line env1 h
  refine ⟨s', hs', fun hn => ?_⟩
  rw [hs']
  simp [Env.get, hn]

/-! ### slots -/

/-- a placeholder whose body was passed renders that body; one that got none renders nothing -/
theorem filled_slot_renders_body (f : Nat) (c : Ctx) (env : Env) (t : Token) (n : Bytes) (blk : List Stmt) :
    evalStmt (f + 1) c env (.slot t n (some blk)) = (evalBlock f c env blk).bind fun r => .ok ({ text := r.1.text }, r.2) := by
  rw [evalStmt_succ]
  simp only [stmtBody, calleesAt_block]

theorem empty_slot_renders_nothing (f : Nat) (c : Ctx) (env : Env) (t : Token) (n : Bytes) :
    evalStmt (f + 1) c env (.slot t n none) = .ok ({}, env) := rfl

/-- `fillSlot` gives the body to the first top-level placeholder of that name and changes nothing else -/
theorem fillSlot_fills_first (pre post : List Stmt) (t : Token) (n : Bytes) (bd : Option (List Stmt)) (body : List Stmt)
    (hpre : ∀ s ∈ pre, ∀ t' n' bd', s = Stmt.slot t' n' bd' → n' ≠ n) :
    fillSlot (pre ++ .slot t n bd :: post) n body = some (pre ++ .slot t n (some body) :: post) := by
  induction pre with
  | nil => simp [fillSlot]
  | cons s r ih =>
    have ih' := ih (fun s' hs' => hpre s' (List.mem_cons_of_mem _ hs'))
    cases s with
    | slot t' n' bd' =>
      have hne : (n' == n) = false := by simpa using hpre _ List.mem_cons_self t' n' bd' rfl
      simp only [List.cons_append, fillSlot, hne, Bool.false_eq_true, if_false, ih', Option.map_some]
    | _ => simp only [List.cons_append, fillSlot, ih', Option.map_some]

/-! ### every use is independent -/

/-- the program attached to one use: the component file, parsed afresh, with this use's slots -/
def programOf (fs : Fs) (c : Cfg) (path : Bytes) (use : CompUse) : Except Fail (List Stmt) :=
  match readFile fs (templatePath c use.name) with
  | .notExist => .error (failOf "ErrUndefinedComponent" use.tok.errorLine [use.name] path)
  | .otherErr => .error (osFail use.tok.errorLine (templatePath c use.name))
  | .ok _ =>
    match parseFile fs (templatePath c use.name) compBase with
    | .error f => .error f
    | .ok comp => applyComponent use comp path

/-- **independence**: the loader attaches to every use — in order, under the use's own number — the
    program computed from that use alone; nothing of one use (its slot bodies, its arguments)
    enters the program of another, also when they name the same component file -/
theorem each_use_gets_its_own_program (fs : Fs) (c : Cfg) (path : Bytes) :
    ∀ (uses : List CompUse) (acc out : List (Nat × List Stmt)),
      uses.foldlM (fun acc use =>
        match readFile fs (templatePath c use.name) with
        | .notExist => Except.error (failOf "ErrUndefinedComponent" use.tok.errorLine [use.name] path)
        | .otherErr => Except.error (osFail use.tok.errorLine (templatePath c use.name))
        | .ok _ =>
          match parseFile fs (templatePath c use.name) compBase with
          | .error f => Except.error f
          | .ok comp =>
            match applyComponent use comp path with
            | .error f => Except.error f
            | .ok stmts => Except.ok (acc ++ [(use.cid, stmts)])) acc = .ok out →
      ∃ progs : List (List Stmt), progs.length = uses.length ∧
        out = acc ++ (uses.zip progs).map (fun x => (x.1.cid, x.2)) ∧
        ∀ i (hi : i < uses.length) (hj : i < progs.length), programOf fs c path uses[i] = .ok progs[i]
  | [], acc, out, h => by
    simp only [List.foldlM_nil, pure, Except.pure] at h
    cases h
    exact ⟨[], rfl, by simp, fun i hi => by cases hi⟩
  | use :: rest, acc, out, h => by
    simp only [List.foldlM_cons, bind, Except.bind] at h
    cases hr : readFile fs (templatePath c use.name) with
    | notExist => rw [hr] at h; cases h
    | otherErr => rw [hr] at h; cases h
    | ok content =>
      rw [hr] at h
      simp only [] at h
      cases hpf : parseFile fs (templatePath c use.name) compBase with
      | error f => rw [hpf] at h; cases h
      | ok comp =>
        rw [hpf] at h
        simp only [] at h
        cases hac : applyComponent use comp path with
        | error f => rw [hac] at h; cases h
        | ok stmts =>
          rw [hac] at h
          simp only [] at h
          obtain ⟨progs, hlen, hout, hall⟩ := each_use_gets_its_own_program fs c path rest _ out h
          refine ⟨stmts :: progs, by simp [hlen], by rw [hout]; simp, ?_⟩
          intro i hi hj
          cases i with
          | zero => simp [programOf, hr, hpf, hac]
          | succ j => simpa using hall j (by simpa using hi) (by simpa using hj)

theorem applyComponents_is_per_use (fs : Fs) (c : Cfg) (path : Bytes) (uses : List CompUse) (out : List (Nat × List Stmt))
    (h : applyComponents fs c uses path = .ok out) :
    ∃ progs : List (List Stmt), progs.length = uses.length ∧
      out = (uses.zip progs).map (fun x => (x.1.cid, x.2)) ∧
      ∀ i (hi : i < uses.length) (hj : i < progs.length), programOf fs c path uses[i] = .ok progs[i] := by
  unfold applyComponents at h
  obtain ⟨progs, h1, h2, h3⟩ := each_use_gets_its_own_program fs c path uses [] out h
  exact ⟨progs, h1, by simpa using h2, h3⟩

/-! ### load-time errors -/

/-- a slot the component does not declare -/
theorem undeclared_slot_is_reported (use : CompUse) (comp : Program) (path : Bytes) (sl : SlotUse)
    (hdup : findDuplicateSlot use.slots = none) (hone : use.slots = [sl]) (hmiss : fillSlot comp.stmts sl.name sl.body = none)
    (hname : sl.name.isEmpty = false) :
    applyComponent use comp path = .error (failOf "ErrSlotNotDefined" comp.tok.errorLine [sl.name, use.name] path) := by
  unfold applyComponent
  rw [hdup, hone]
  simp [List.foldlM, hmiss, hname, bind, Except.bind]

/-- a slot passed twice -/
theorem duplicate_slot_is_reported (use : CompUse) (comp : Program) (path : Bytes) (dn : Bytes) (times : Nat)
    (hdup : findDuplicateSlot use.slots = some (dn, times)) :
    applyComponent use comp path =
      .error (failOf "ErrDuplicateSlotUsage" comp.tok.errorLine [dn, natToBytes times, use.name] path) := by
  unfold applyComponent
  rw [hdup]

/-- a missing component file, naming the component -/
theorem missing_component_is_reported (fs : Fs) (c : Cfg) (path : Bytes) (use : CompUse)
    (h : readFile fs (templatePath c use.name) = .notExist) :
    programOf fs c path use = .error (failOf "ErrUndefinedComponent" use.tok.errorLine [use.name] path) := by
  unfold programOf
  rw [h]

/-- `~name` means `components/name` -/
theorem tilde_means_components (p : PS) (rest : Bytes) (h : p.cur.lit = 126 :: rest) :
    (aliasPath p "components").1 = b "components" ++ [47] ++ rest := by
  unfold aliasPath
  simp [h]

/-! ### an instance through loader and evaluator: one component used three times -/

def demoFs : Fs :=
  [ (b "templates", .dir), (b "templates/components", .dir),
    (b "templates/components/card.tw.html", .file (b "[{{ title }}:@slot|@slot(\"foot\")]")),
    (b "templates/page.tw.html", .file (b "{{ x = 5 }}@component(\"~card\", { title: \"A\" })@slot one @end@end@component(\"~card\", { title: \"B\" })@end@each(n in [1, 2])@component(\"~card\", { title: n + x })@slot(\"foot\")f{{ n }}@end@end@end")) ]

example :
    (match newTemplate { fs := demoFs } none with
      | (w, .ok t) =>
        (match tplString w t (b "page") [] with
          | .ok out => out == b "[A: one |][B:|][6:|f1][7:|f2]"
          | _ => false)
      | _ => false) = true := by decide +kernel

end Tw.C07
