/-
  TwProofs.C07 — property theorems (see DESIGN.md, section 6).
-/
import TwModel
import TwSpec

namespace Tw.C07
open Tw

end Tw.C07
