/-
  TwProofs.C07 — each `@component` use renders the component file with its own arguments and slots.

  In the model every use written in a page has its own allocation number `cid`; the loader
  (`applyComponents`, transcription of applyComponentToProgram / Program.ApplyComponent after the
  "per-use program" fix) attaches to each number the statements of the component file with that
  use's slot bodies filled in.  Theorems: the program attached to a use is a function of that
  use alone; evaluation binds the arguments in a new innermost scope (the surrounding variables
  stay visible) and hands the caller's environment back; slot placeholders render the passed
  body or nothing; the load-time errors.
-/
import TwModel
import TwSpec
import TwProofs.Lemmas.EvalStep
import TwProofs.Lemmas.LoadWhole
import TwProofs.Lemmas.TextComp

namespace Tw.C07
open Tw

/-! ### evaluation of one use -/

/-- a use renders its own program (looked up by the use's allocation number) with the
    arguments — evaluated at the place of use, in alphabetical key order — bound in a new scope on
    top of the caller's environment, and gives the caller's environment back -/
theorem component_renders_its_program (f : Nat) (c : Ctx) (env : Env) (t : Token) (name : Bytes) (cid : Nat)
    (pairs : List (Bytes × Expr)) (prog : List Stmt) (hp : lookupNat c.comps cid = some prog) :
    evalStmt (f + 1) c env (.component t name (some pairs) cid) =
      (evalPairs f c env (sortByKey pairs)).bind fun kvs =>
      (bindArgs env.push kvs t.errorLine).bind fun env1 =>
      (evalProg f c env1 prog []).bind fun r => .ok ({ text := r.1 }, env) := by
  rw [evalStmt_succ]
  simp only [stmtBody, hp, calleesAt_pairs, calleesAt_prog]

theorem component_without_arguments (f : Nat) (c : Ctx) (env : Env) (t : Token) (name : Bytes) (cid : Nat)
    (prog : List Stmt) (hp : lookupNat c.comps cid = some prog) :
    evalStmt (f + 1) c env (.component t name none cid) =
      (evalProg f c env.push prog []).bind fun r => .ok ({ text := r.1 }, env) := by
  rw [evalStmt_succ]
  simp only [stmtBody, hp, calleesAt_prog, Res.bind_ok, bindArgs]

/-- arguments go into the new innermost scope only … -/
theorem bindArgs_shape : ∀ (kvs : List (Bytes × Val)) (s : List (Bytes × Val)) (outer : Env) (line : Nat) (env1 : Env),
    bindArgs (s :: outer) kvs line = .ok env1 → ∃ s', env1 = s' :: outer
  | [], s, outer, _, env1, h => by simp [bindArgs] at h; exact ⟨s, h.symm⟩
  | (k, v) :: r, s, outer, line, env1, h => by
    unfold bindArgs at h
    split at h
    · rename_i env' hset
      have : env' = mapSet s k v :: outer := by
        unfold Env.set at hset
        split at hset
        · cases hset
        · split at hset
          · split at hset
            · cases hset
            · cases hset; rfl
          · cases hset; rfl
      rw [this] at h
      exact bindArgs_shape r _ outer line env1 h
    · cases h

/-- … so every variable of the place of use that is not an argument name is still visible inside -/
theorem surrounding_variables_visible (kvs : List (Bytes × Val)) (env env1 : Env) (line : Nat) (x : Bytes)
    (h : bindArgs env.push kvs line = .ok env1) :
    ∃ s', env1 = s' :: env ∧ (mapGet s' x = none → env1.get x = env.get x) := by
  obtain ⟨s', hs'⟩ := bindArgs_shape kvs [] env line env1 h
  refine ⟨s', hs', fun hn => ?_⟩
  rw [hs']
  simp [Env.get, hn]

/-! ### slots -/

/-- a placeholder whose body was passed renders that body; one that got none renders nothing -/
theorem filled_slot_renders_body (f : Nat) (c : Ctx) (env : Env) (t : Token) (n : Bytes) (blk : List Stmt) :
    evalStmt (f + 1) c env (.slot t n (some blk)) = (evalBlock f c env blk).bind fun r => .ok ({ text := r.1.text }, r.2) := by
  rw [evalStmt_succ]
  simp only [stmtBody, calleesAt_block]

theorem empty_slot_renders_nothing (f : Nat) (c : Ctx) (env : Env) (t : Token) (n : Bytes) :
    evalStmt (f + 1) c env (.slot t n none) = .ok ({}, env) := rfl

/-- `fillSlot` gives the body to the first top-level placeholder of that name and changes nothing else -/
theorem fillSlot_fills_first (pre post : List Stmt) (t : Token) (n : Bytes) (bd : Option (List Stmt)) (body : List Stmt)
    (hpre : ∀ s ∈ pre, ∀ t' n' bd', s = Stmt.slot t' n' bd' → n' ≠ n) :
    fillSlot (pre ++ .slot t n bd :: post) n body = some (pre ++ .slot t n (some body) :: post) := by
  induction pre with
  | nil => simp [fillSlot]
  | cons s r ih =>
    have ih' := ih (fun s' hs' => hpre s' (List.mem_cons_of_mem _ hs'))
    cases s with
    | slot t' n' bd' =>
      have hne : (n' == n) = false := by simpa using hpre _ List.mem_cons_self t' n' bd' rfl
      simp only [List.cons_append, fillSlot, hne, Bool.false_eq_true, if_false, ih', Option.map_some]
    | _ => simp only [List.cons_append, fillSlot, ih', Option.map_some]

/-! ### every use is independent -/

/-- the program attached to one use: the component file, parsed afresh, with this use's slots -/
def programOf (fs : Fs) (c : Cfg) (path : Bytes) (use : CompUse) : Except Fail (List Stmt) :=
  match readFile fs (templatePath c use.name) with
  | .notExist => .error (failOf "ErrUndefinedComponent" use.tok.errorLine [use.name] path)
  | .otherErr => .error (osFail use.tok.errorLine (templatePath c use.name))
  | .ok _ =>
    match parseFile fs (templatePath c use.name) compBase with
    | .error f => .error f
    | .ok comp => applyComponent use comp path

/-- **independence**: the loader attaches to every use — in order, under the use's own number — the
    program computed from that use alone; nothing of one use (its slot bodies, its arguments)
    enters the program of another, also when they name the same component file -/
theorem each_use_gets_its_own_program (fs : Fs) (c : Cfg) (path : Bytes) :
    ∀ (uses : List CompUse) (acc out : List (Nat × List Stmt)),
      uses.foldlM (fun acc use =>
        match readFile fs (templatePath c use.name) with
        | .notExist => Except.error (failOf "ErrUndefinedComponent" use.tok.errorLine [use.name] path)
        | .otherErr => Except.error (osFail use.tok.errorLine (templatePath c use.name))
        | .ok _ =>
          match parseFile fs (templatePath c use.name) compBase with
          | .error f => Except.error f
          | .ok comp =>
            match applyComponent use comp path with
            | .error f => Except.error f
            | .ok stmts => Except.ok (acc ++ [(use.cid, stmts)])) acc = .ok out →
      ∃ progs : List (List Stmt), progs.length = uses.length ∧
        out = acc ++ (uses.zip progs).map (fun x => (x.1.cid, x.2)) ∧
        ∀ i (hi : i < uses.length) (hj : i < progs.length), programOf fs c path uses[i] = .ok progs[i]
  | [], acc, out, h => by
    simp only [List.foldlM_nil, pure, Except.pure] at h
    cases h
    exact ⟨[], rfl, by simp, fun i hi => by cases hi⟩
  | use :: rest, acc, out, h => by
    simp only [List.foldlM_cons, bind, Except.bind] at h
    cases hr : readFile fs (templatePath c use.name) with
    | notExist => rw [hr] at h; cases h
    | otherErr => rw [hr] at h; cases h
    | ok content =>
      rw [hr] at h
      simp only [] at h
      cases hpf : parseFile fs (templatePath c use.name) compBase with
      | error f => rw [hpf] at h; cases h
      | ok comp =>
        rw [hpf] at h
        simp only [] at h
        cases hac : applyComponent use comp path with
        | error f => rw [hac] at h; cases h
        | ok stmts =>
          rw [hac] at h
          simp only [] at h
          obtain ⟨progs, hlen, hout, hall⟩ := each_use_gets_its_own_program fs c path rest _ out h
          refine ⟨stmts :: progs, by simp [hlen], by rw [hout]; simp, ?_⟩
          intro i hi hj
          cases i with
          | zero => simp [programOf, hr, hpf, hac]
          | succ j => simpa using hall j (by simpa using hi) (by simpa using hj)

theorem applyComponents_is_per_use (fs : Fs) (c : Cfg) (path : Bytes) (uses : List CompUse) (out : List (Nat × List Stmt))
    (h : applyComponents fs c uses path = .ok out) :
    ∃ progs : List (List Stmt), progs.length = uses.length ∧
      out = (uses.zip progs).map (fun x => (x.1.cid, x.2)) ∧
      ∀ i (hi : i < uses.length) (hj : i < progs.length), programOf fs c path uses[i] = .ok progs[i] := by
  unfold applyComponents at h
  obtain ⟨progs, h1, h2, h3⟩ := each_use_gets_its_own_program fs c path uses [] out h
  exact ⟨progs, h1, by simpa using h2, h3⟩

/-! ### load-time errors -/

/-- a slot the component does not declare -/
theorem undeclared_slot_is_reported (use : CompUse) (comp : Program) (path : Bytes) (sl : SlotUse)
    (hdup : findDuplicateSlot use.slots = none) (hone : use.slots = [sl]) (hmiss : fillSlot comp.stmts sl.name sl.body = none)
    (hname : sl.name.isEmpty = false) :
    applyComponent use comp path = .error (failOf "ErrSlotNotDefined" comp.tok.errorLine [sl.name, use.name] path) := by
  unfold applyComponent
  rw [hdup, hone]
  simp [List.foldlM, hmiss, hname, bind, Except.bind]

/-- a slot passed twice -/
theorem duplicate_slot_is_reported (use : CompUse) (comp : Program) (path : Bytes) (dn : Bytes) (times : Nat)
    (hdup : findDuplicateSlot use.slots = some (dn, times)) :
    applyComponent use comp path =
      .error (failOf "ErrDuplicateSlotUsage" comp.tok.errorLine [dn, natToBytes times, use.name] path) := by
  unfold applyComponent
  rw [hdup]

/-- a missing component file, naming the component -/
theorem missing_component_is_reported (fs : Fs) (c : Cfg) (path : Bytes) (use : CompUse)
    (h : readFile fs (templatePath c use.name) = .notExist) :
    programOf fs c path use = .error (failOf "ErrUndefinedComponent" use.tok.errorLine [use.name] path) := by
  unfold programOf
  rw [h]

/-- `~name` means `components/name` -/
theorem tilde_means_components (p : PS) (rest : Bytes) (h : p.cur.lit = 126 :: rest) :
    (aliasPath p "components").1 = b "components" ++ [47] ++ rest := by
  unfold aliasPath
  simp [h]

/-! ### from the bytes of the page and of the component files -/

/-- the render: the page's text and, at each use, the component file's text with its `{{ name }}`
    blocks filled from the use's own argument (bound in a new innermost scope) and the data -/
def prender (comp : Bytes → List VItem) (env : Env) : List PItem → Bytes
  | [] => []
  | .text segs :: r => segsLit segs ++ prender comp env r
  | .use u :: r => fill ([(u.k, .str (literalValue u.v))] :: env) (vpieces (comp (compName u.n))) ++ prender comp env r

def prenderS (comp : Bytes → List VItem) (env : Env) : List PSpec → Bytes
  | [] => []
  | .text t :: r => t ++ prenderS comp env r
  | .use name k v _ :: r => fill ([(k, .str (literalValue v))] :: env) (vpieces (comp name)) ++ prenderS comp env r

theorem prenderS_pspec (comp : Bytes → List VItem) (env : Env) : ∀ (items : List PItem) (base : Nat),
    prenderS comp env (pspec base items) = prender comp env items
  | [], _ => rfl
  | .text segs :: r, base => by simp [pspec, prenderS, prender, prenderS_pspec comp env r base]
  | .use u :: r, base => by simp [pspec, prenderS, prender, prenderS_pspec comp env r (base + 1)]

/-- what every use needs of the environment: its argument name is not `loop`, does not clash with a
    visible name of another type, and the names the component file prints are the argument or visible -/
def UsesFit (comp : Bytes → List VItem) (env : Env) : List PSpec → Prop
  | [] => True
  | .text _ :: r => UsesFit comp env r
  | .use name k v _ :: r =>
    (k == b "loop") = false ∧ (∀ old, env.get k = some old → old.type = .STRING) ∧
      holesBound ([(k, .str (literalValue v))] :: env) (vpieces (comp name)) ∧ UsesFit comp env r

/-- the table of component programs the loader built, as far as the evaluator looks at it -/
def CompsFit (comp : Bytes → List VItem) (tbl : List (Nat × List Stmt)) (specs : List PSpec) : Prop :=
  ∀ name k v cid, PSpec.use name k v cid ∈ specs →
    ∃ stmts, lookupNat tbl cid = some stmts ∧ simpleBlock stmts = true ∧ piecesOf stmts = vpieces (comp name)

/-- evaluation fuel that suffices -/
def pneed (comp : Bytes → List VItem) : List PSpec → Nat
  | [] => 1
  | .text _ :: r => 1 + max 1 (pneed comp r)
  | .use name _ _ _ :: r => 1 + max ((vpieces (comp name)).length + 5) (pneed comp r)

/-- one use: the argument bound in a new scope, the component's program rendered there, the
    caller's environment handed back -/
theorem use_renders (comp : Bytes → List VItem) (f : Nat) (c : Ctx) (env : Env) (t tv : Token) (name k v : Bytes) (cid : Nat)
    (stmts : List Stmt) (hl : lookupNat c.comps cid = some stmts) (hsb : simpleBlock stmts = true)
    (hpc : piecesOf stmts = vpieces (comp name)) (hk : (k == b "loop") = false)
    (hty : ∀ old, env.get k = some old → old.type = .STRING)
    (hb : holesBound ([(k, .str (literalValue v))] :: env) (vpieces (comp name)))
    (hf : (vpieces (comp name)).length + 4 ≤ f) :
    evalStmt (f + 1) c env (.component t name (some [(k, .str tv v)]) cid) =
      .ok ({ text := fill ([(k, .str (literalValue v))] :: env) (vpieces (comp name)) }, env) := by
  rw [component_renders_its_program f c env t name cid [(k, .str tv v)] stmts hl]
  obtain ⟨g, rfl⟩ : ∃ g, f = g + 2 := ⟨f - 2, by omega⟩
  have hsort : sortByKey [(k, Expr.str tv v)] = [(k, Expr.str tv v)] := rfl
  have hpairs : evalPairs (g + 2) c env (sortByKey [(k, Expr.str tv v)]) = .ok [(k, .str (literalValue v))] := by
    rw [hsort]
    simp [evalPairs, evalExpr]
  rw [hpairs, Res.bind_ok]
  have hbind : bindArgs env.push [(k, .str (literalValue v))] t.errorLine = .ok ([(k, .str (literalValue v))] :: env) := by
    unfold bindArgs
    have hset : env.push.set k (.str (literalValue v)) = .ok ([(k, .str (literalValue v))] :: env) := by
      unfold Env.set
      rw [if_neg (by simpa using hk)]
      rw [env_push_get]
      cases hg : env.get k with
      | none => simp [Env.push, mapSet]
      | some old =>
        have := hty old hg
        simp only []
        rw [this]
        simp [Val.type, Env.push, mapSet]
    rw [hset]
    simp [bindArgs]
  rw [hbind, Res.bind_ok]
  have hlen : stmts.length = (vpieces (comp name)).length := by rw [simple_length _ hsb, hpc]
  rw [evalProg_simple c _ stmts (g + 2) [] hsb (by rw [hpc]; exact hb) (by omega), Res.bind_ok, hpc]
  simp

theorem evalProg_pspec (comp : Bytes → List VItem) (c : Ctx) (env : Env) : ∀ (specs : List PSpec) (ss : List Stmt) (fuel : Nat) (acc : Bytes),
    ss.map pspecOf = specs.map some → CompsFit comp c.comps specs → UsesFit comp env specs → pneed comp specs ≤ fuel →
    evalProg fuel c env ss acc = .ok (acc ++ prenderS comp env specs, env) := by
  intro specs
  induction specs with
  | nil =>
    intro ss fuel acc hs _ _ hf
    have : ss = [] := by simpa using hs
    subst this
    obtain ⟨f, rfl⟩ : ∃ f, fuel = f + 1 := ⟨fuel - 1, by simp [pneed] at hf; omega⟩
    rw [evalProg_nil]; simp [prenderS]
  | cons sp r ih =>
    intro ss fuel acc hs hc hu hf
    cases ss with
    | nil => simp at hs
    | cons st rest =>
      simp only [List.map_cons, List.cons.injEq] at hs
      obtain ⟨hs1, hsr⟩ := hs
      have hc' : CompsFit comp c.comps r := fun n k v cid h => hc n k v cid (List.mem_cons_of_mem _ h)
      cases st with
      | html t =>
        simp only [pspecOf, Option.some.injEq] at hs1
        subst hs1
        obtain ⟨f, rfl⟩ : ∃ f, fuel = f + 2 := ⟨fuel - 2, by simp [pneed] at hf; omega⟩
        have := ih rest (f + 1) (acc ++ t.lit) hsr hc' (by simpa [UsesFit] using hu) (by simp [pneed] at hf; omega)
        rw [show f + 2 = (f + 1) + 1 from rfl, evalProg_cons, evalStmt_html, Res.bind_ok, this]
        simp [prenderS, List.append_assoc]
      | component t name arg cid =>
        -- only the one-argument shape has a specification
        cases arg with
        | none => simp [pspecOf] at hs1
        | some pairs =>
          cases pairs with
          | nil => simp [pspecOf] at hs1
          | cons pr prs =>
            obtain ⟨k, e⟩ := pr
            cases prs with
            | cons _ _ => simp [pspecOf] at hs1
            | nil =>
              cases e with
              | str tv v =>
                simp only [pspecOf, Option.some.injEq] at hs1
                subst hs1
                obtain ⟨stmts, hl, hsb, hpc⟩ := hc name k v cid (by simp)
                obtain ⟨hk, hty, hb, hur⟩ := hu
                obtain ⟨f, rfl⟩ : ∃ f, fuel = f + 2 := ⟨fuel - 2, by simp [pneed] at hf; omega⟩
                have := ih rest (f + 1) (acc ++ fill ([(k, .str (literalValue v))] :: env) (vpieces (comp name))) hsr hc' hur
                  (by simp [pneed] at hf; omega)
                rw [show f + 2 = (f + 1) + 1 from rfl, evalProg_cons,
                  use_renders comp f c env t tv name k v cid stmts hl hsb hpc hk hty hb (by simp [pneed] at hf; omega), Res.bind_ok, this]
                simp [prenderS, List.append_assoc]
              | _ => simp [pspecOf] at hs1
      | _ => simp [pspecOf] at hs1

/-! the loader on the recorded uses -/

/-- the component files are where the loader looks for them, and they are text, comments and
    `{{ name }}` blocks -/
def FilesFit (fs : Fs) (c : Cfg) (comp : Bytes → List VItem) (uses : List CompUse) : Prop :=
  ∀ u ∈ uses, u.slots = [] ∧ readFile fs (templatePath c u.name) = .ok (vitemsSrc (comp u.name)) ∧ VItemsOK (comp u.name)

theorem programOf_simple (fs : Fs) (c : Cfg) (comp : Bytes → List VItem) (path : Bytes) (u : CompUse) (hs : u.slots = [])
    (hr : readFile fs (templatePath c u.name) = .ok (vitemsSrc (comp u.name))) (hok : VItemsOK (comp u.name)) :
    ∃ stmts, programOf fs c path u = .ok stmts ∧ simpleBlock stmts = true ∧ piecesOf stmts = vpieces (comp u.name) := by
  obtain ⟨prog, hp, h1, h2⟩ := parse_vitems_base (comp u.name) hok compBase
  refine ⟨prog.stmts, ?_, h1, h2⟩
  unfold programOf
  rw [hr]
  simp only []
  have hpf : parseFile fs (templatePath c u.name) compBase = .ok prog := by unfold parseFile; rw [hr]; simp only [hp]
  rw [hpf]
  simp only []
  unfold applyComponent
  rw [hs]
  simp [findDuplicateSlot, List.foldlM, pure, Except.pure]

theorem applyComponents_simple (fs : Fs) (c : Cfg) (comp : Bytes → List VItem) (path : Bytes) (uses : List CompUse)
    (hfit : FilesFit fs c comp uses) :
    ∃ out, applyComponents fs c uses path = .ok out ∧ out.map Prod.fst = uses.map CompUse.cid ∧
      ∀ o ∈ out, ∃ u ∈ uses, o.1 = u.cid ∧ simpleBlock o.2 = true ∧ piecesOf o.2 = vpieces (comp u.name) := by
  -- every use has a program …
  have hall : ∀ u ∈ uses, ∃ stmts, programOf fs c path u = .ok stmts ∧ simpleBlock stmts = true ∧ piecesOf stmts = vpieces (comp u.name) :=
    fun u hu => programOf_simple fs c comp path u (hfit u hu).1 (hfit u hu).2.1 (hfit u hu).2.2
  -- … so the fold succeeds
  have hfold : ∀ (us : List CompUse) (acc : List (Nat × List Stmt)), (∀ u ∈ us, u ∈ uses) →
      ∃ out, us.foldlM (fun acc use =>
          let cp := templatePath c use.name
          match readFile fs cp with
          | .notExist => .error (failOf "ErrUndefinedComponent" use.tok.errorLine [use.name] path)
          | .otherErr => .error (osFail use.tok.errorLine cp)
          | .ok _ =>
            match parseFile fs cp compBase with
            | .error f => .error f
            | .ok comp' =>
              match applyComponent use comp' path with
              | .error f => .error f
              | .ok stmts => .ok (acc ++ [(use.cid, stmts)])) acc = Except.ok (acc ++ out) ∧
        out.map Prod.fst = us.map CompUse.cid ∧
        ∀ o ∈ out, ∃ u ∈ us, o.1 = u.cid ∧ simpleBlock o.2 = true ∧ piecesOf o.2 = vpieces (comp u.name) := by
    intro us
    induction us with
    | nil => intro acc _; exact ⟨[], by simp [List.foldlM, pure, Except.pure], rfl, fun o h => (by cases h)⟩
    | cons u r ih =>
      intro acc hsub
      obtain ⟨stmts, hp, h1, h2⟩ := hall u (hsub u (by simp))
      have hr := (hfit u (hsub u (by simp))).2.1
      -- unfold the program of this use
      unfold programOf at hp
      rw [hr] at hp
      simp only [] at hp
      obtain ⟨out, ho1, ho2, ho3⟩ := ih (acc ++ [(u.cid, stmts)]) (fun x hx => hsub x (List.mem_cons_of_mem _ hx))
      refine ⟨(u.cid, stmts) :: out, ?_, by simp [ho2], ?_⟩
      · simp only [List.foldlM_cons, bind, Except.bind, hr]
        cases hpf : parseFile fs (templatePath c u.name) compBase with
        | error f => rw [hpf] at hp; cases hp
        | ok comp' =>
          rw [hpf] at hp
          simp only [] at hp ⊢
          rw [hp]
          simp only []
          rw [ho1]
          simp
      · intro o ho
        rcases List.mem_cons.mp ho with h | h
        · rw [h]; exact ⟨u, by simp, rfl, h1, h2⟩
        · obtain ⟨u', hu', rest⟩ := ho3 o h
          exact ⟨u', List.mem_cons_of_mem _ hu', rest⟩
  unfold applyComponents
  obtain ⟨out, h1, h2, h3⟩ := hfold uses [] (fun u hu => hu)
  refine ⟨out, ?_, h2, h3⟩
  simp only [List.nil_append] at h1
  exact h1

theorem usesOf_ge : ∀ (items : List PItem) (base : Nat) (x : Bytes × Nat), x ∈ usesOf base items → base ≤ x.2
  | [], _, _, h => by simp [usesOf] at h
  | .text _ :: r, base, x, h => usesOf_ge r base x (by simpa [usesOf] using h)
  | .use u :: r, base, x, h => by
    simp only [usesOf, List.mem_cons] at h
    rcases h with h | h
    · rw [h]; exact Nat.le_refl _
    · have := usesOf_ge r (base + 1) x h; omega

theorem usesOf_unique : ∀ (items : List PItem) (base : Nat) (n1 n2 : Bytes) (cid : Nat),
    (n1, cid) ∈ usesOf base items → (n2, cid) ∈ usesOf base items → n1 = n2
  | [], _, _, _, _, h, _ => by simp [usesOf] at h
  | .text _ :: r, base, n1, n2, cid, h1, h2 => usesOf_unique r base n1 n2 cid (by simpa [usesOf] using h1) (by simpa [usesOf] using h2)
  | .use u :: r, base, n1, n2, cid, h1, h2 => by
    simp only [usesOf, List.mem_cons, Prod.mk.injEq] at h1 h2
    rcases h1 with ⟨e1, c1⟩ | h1
    · rcases h2 with ⟨e2, _⟩ | h2
      · rw [e1, e2]
      · have := usesOf_ge r (base + 1) _ h2; simp only at this; omega
    · rcases h2 with ⟨_, c2⟩ | h2
      · have := usesOf_ge r (base + 1) _ h1; simp only at this; omega
      · exact usesOf_unique r (base + 1) n1 n2 cid h1 h2

theorem usesOf_mem : ∀ (items : List PItem) (base : Nat) (x : Bytes × Nat), x ∈ usesOf base items →
    ∃ u, PItem.use u ∈ items ∧ x.1 = compName u.n
  | [], _, _, h => by simp [usesOf] at h
  | .text _ :: r, base, x, h => by
    obtain ⟨u, hu, hx⟩ := usesOf_mem r base x (by simpa [usesOf] using h)
    exact ⟨u, List.mem_cons_of_mem _ hu, hx⟩
  | .use u :: r, base, x, h => by
    simp only [usesOf, List.mem_cons] at h
    rcases h with h | h
    · exact ⟨u, by simp, by rw [h]⟩
    · obtain ⟨u', hu', hx⟩ := usesOf_mem r (base + 1) x h
      exact ⟨u', List.mem_cons_of_mem _ hu', hx⟩

theorem pspec_uses : ∀ (items : List PItem) (base : Nat) (name k v : Bytes) (cid : Nat),
    PSpec.use name k v cid ∈ pspec base items → (name, cid) ∈ usesOf base items
  | [], _, _, _, _, _, h => by simp [pspec] at h
  | .text _ :: r, base, name, k, v, cid, h => by
    simp only [pspec, List.mem_cons] at h
    rcases h with h | h
    · cases h
    · simpa [usesOf] using pspec_uses r base name k v cid h
  | .use u :: r, base, name, k, v, cid, h => by
    simp only [pspec, List.mem_cons] at h
    rcases h with h | h
    · cases h; simp [usesOf]
    · simp only [usesOf, List.mem_cons]; exact Or.inr (pspec_uses r (base + 1) name k v cid h)

theorem lookupNat_of_fst {α} (l : List (Nat × α)) (k : Nat) (h : k ∈ l.map Prod.fst) :
    ∃ v, lookupNat l k = some v ∧ (k, v) ∈ l := by
  induction l with
  | nil => simp at h
  | cons x r ih =>
    obtain ⟨k0, v0⟩ := x
    unfold lookupNat
    by_cases he : k0 = k
    · subst he
      exact ⟨v0, by simp [List.find?], by simp⟩
    · have hr : k ∈ r.map Prod.fst := by
        simp only [List.map_cons, List.mem_cons] at h
        rcases h with h | h
        · exact absurd h.symm he
        · exact h
      obtain ⟨v, hv, hm⟩ := ih hr
      refine ⟨v, ?_, List.mem_cons_of_mem _ hm⟩
      have hne : (k0 == k) = false := by simpa using he
      simp only [List.find?_cons, hne]
      exact hv

/-- **a page with component uses, from the bytes of the page and of the component files to the
    output**: for every page file of text runs and uses `@component("name", { key: "text" })`
    (either quote, any white space inside the braces, no slots) and component files of text,
    comments and `{{ name }}` blocks found where the loader looks for them, the loader registers
    the page, and rendering it with data gives the page's text with, at each use, the component
    file's rendering under that use's OWN argument — bound to the escaped text in a new innermost
    scope on top of the data — whatever the other uses pass and also when several uses name the
    same file.  Lexer (`lex_comp`, `tokenize_gitems`), parser (`parse_component_stmt`,
    `parse_comp_page`, `parse_vitems_base`), loader (`applyComponents_simple`) and evaluator
    (`use_renders`, `evalProg_pspec`) composed. -/
theorem component_page_renders_from_the_sources (fs : Fs) (c : Cfg) (p : Bytes) (items : List PItem) (comp : Bytes → List VItem)
    (hok : PItemsOK items) (hP : readFile fs p = .ok (compPageSrc items))
    (hfiles : ∀ u, PItem.use u ∈ items →
      readFile fs (templatePath c (compName u.n)) = .ok (vitemsSrc (comp (compName u.n))) ∧ VItemsOK (comp (compName u.n))) :
    ∃ pg, loadPage fs c p = .ok (some pg) ∧
      ∀ (w : World) (t : Template) (name : Bytes) (data : List (Bytes × GoVal)) (env : Env),
        mapGet t name = some pg → envFromMap data = .ok env → UsesFit comp env (pspec 0 items) →
        pneed comp (pspec 0 items) ≤ evalFuel → tplString w t name data = .ok (prender comp env items) := by
  obtain ⟨prog, hpp, huse, hres, hcomps, hslots, hstmts⟩ := parse_comp_page items hok
  have hpf : parseFile fs p 0 = .ok prog := by unfold parseFile; rw [hP]; simp only [hpp]
  have hfit : FilesFit fs c comp prog.components := by
    intro cu hcu
    have hm : (cu.name, cu.cid) ∈ usesOf 0 items := by rw [← hcomps]; exact List.mem_map_of_mem (f := fun cu => (cu.name, cu.cid)) hcu
    obtain ⟨u, hu, hn⟩ := usesOf_mem items 0 _ hm
    simp only at hn
    rw [hn]
    exact ⟨hslots cu hcu, (hfiles u hu).1, (hfiles u hu).2⟩
  obtain ⟨out, hout, hfst, hprogs⟩ := applyComponents_simple fs c comp p prog.components hfit
  have hload : loadPage fs c p = .ok (some { stmts := prog.stmts, ctx := { comps := out } }) := by
    unfold loadPage
    rw [hpf]
    simp only [huse, hout, hres]
    rfl
  refine ⟨_, hload, ?_⟩
  intro w t name data env hpg hd hu hsz
  unfold tplString envOrFail
  simp only [hd, hpg]
  have hcf : CompsFit comp out (pspec 0 items) := by
    intro n k v cid hm
    have hmu := pspec_uses items 0 n k v cid hm
    have hcid : cid ∈ out.map Prod.fst := by
      rw [hfst]
      have : cid ∈ (usesOf 0 items).map Prod.snd := List.mem_map.mpr ⟨(n, cid), hmu, rfl⟩
      rw [← hcomps] at this
      simpa [List.map_map] using this
    obtain ⟨stmts, hl, hmem⟩ := lookupNat_of_fst out cid hcid
    obtain ⟨cu, hcu, hc1, hc2, hc3⟩ := hprogs _ hmem
    have hm2 : (cu.name, cu.cid) ∈ usesOf 0 items := by rw [← hcomps]; exact List.mem_map_of_mem (f := fun cu => (cu.name, cu.cid)) hcu
    simp only at hc1
    rw [← hc1] at hm2
    have hname : cu.name = n := usesOf_unique items 0 cu.name n cid hm2 hmu
    exact ⟨stmts, hl, hc2, by rw [hc3, hname]⟩
  have hev := evalProg_pspec comp ({ comps := out, custom := w.custom } : Ctx) env (pspec 0 items) prog.stmts evalFuel [] hstmts hcf hu hsz
  rw [hev]
  simp [resToOut, prenderS_pspec]

section example_component
private def exItems : List PItem := [.text [.plain (b "<ul>")],
  .use ⟨34, b "~item", [32], [32], b "label", [32], 34, b "A & B", [32]⟩, .text [.plain (b "|")],
  .use ⟨39, b "~item", [], [], b "label", [], 39, b "c", []⟩, .text [.plain (b "</ul>")]]
private def exComp : Bytes → List VItem := fun _ =>
  [.text [.plain (b "<li>")], .print [32] (b "label") [32], .text [.plain (b " for ")], .print [] (b "who") [], .text [.plain (b "</li>")]]
private def exFs : Fs :=
  [ (b "templates", .dir), (b "templates/components", .dir),
    (b "templates/components/item.tw.html", .file (b "<li>{{ label }} for {{who}}</li>")),
    (b "templates/page.tw.html", .file (b "<ul>@component(\"~item\", { label: \"A & B\" })|@component('~item',{label:'c'})</ul>")) ]

example : compPageSrc exItems = b "<ul>@component(\"~item\", { label: \"A & B\" })|@component('~item',{label:'c'})</ul>" := by decide
example : vitemsSrc (exComp []) = b "<li>{{ label }} for {{who}}</li>" := by decide

/-- the hypotheses of the theorem hold for a concrete tree; two uses of one file, each with its own argument -/
example : ∃ pg, loadPage exFs defaultCfg (b "templates/page.tw.html") = .ok (some pg) ∧
    ∀ (w : World) (t : Template) (name : Bytes), mapGet t name = some pg →
      tplString w t name [(b "who", .str (b "me"))] = .ok (b "<ul><li>A &amp; B for me</li>|<li>c for me</li></ul>") := by
  obtain ⟨pg, h1, h2⟩ := component_page_renders_from_the_sources exFs defaultCfg (b "templates/page.tw.html") exItems exComp (by decide) (by rfl)
    (by
      intro u hu
      simp only [exItems, List.mem_cons, PItem.use.injEq, List.not_mem_nil, or_false, reduceCtorEq, false_or] at hu
      rcases hu with rfl | rfl <;> exact ⟨by rfl, by decide⟩)
  refine ⟨pg, h1, ?_⟩
  intro w t name hpg
  have hnone : Env.get [[(b "who", Val.str (b "me"))]] (b "label") = none := by decide
  have hfit : UsesFit exComp [[(b "who", .str (b "me"))]] (pspec 0 exItems) :=
    ⟨by decide, fun old h => (by rw [show Env.get _ _ = none from hnone] at h; cases h), by decide, by decide,
      fun old h => (by rw [show Env.get _ _ = none from hnone] at h; cases h), by decide, trivial⟩
  have := h2 w t name [(b "who", .str (b "me"))] [[(b "who", .str (b "me"))]] hpg (by rfl) hfit (by decide)
  have hr : prender exComp [[(b "who", .str (b "me"))]] exItems = b "<ul><li>A &amp; B for me</li>|<li>c for me</li></ul>" := by decide
  rw [hr] at this
  exact this
end example_component

/-! ### an instance through loader and evaluator: one component used three times -/

def demoFs : Fs :=
  [ (b "templates", .dir), (b "templates/components", .dir),
    (b "templates/components/card.tw.html", .file (b "[{{ title }}:@slot|@slot(\"foot\")]")),
    (b "templates/page.tw.html", .file (b "{{ x = 5 }}@component(\"~card\", { title: \"A\" })@slot one @end@end@component(\"~card\", { title: \"B\" })@end@each(n in [1, 2])@component(\"~card\", { title: n + x })@slot(\"foot\")f{{ n }}@end@end@end")) ]

example :
    (match newTemplate { fs := demoFs } none with
      | (w, .ok t) =>
        (match tplString w t (b "page") [] with
          | .ok out => out == b "[A: one |][B:|][6:|f1][7:|f2]"
          | _ => false)
      | _ => false) = true := by decide +kernel

end Tw.C07
