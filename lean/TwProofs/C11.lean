/-
  TwProofs.C11 — property theorems (see DESIGN.md, section 6).
-/
import TwModel
import TwSpec

namespace Tw.C11
open Tw

end Tw.C11
