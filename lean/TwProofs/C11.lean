/-
  TwProofs.C11 — built-in functions: contracts that hold for every receiver and argument list.

  The built-ins of the model (`TwModel.Builtins`, tied to evaluator/*_func.go by the
  correspondence check over the full name × receiver × argument cross product) are total, pure
  functions of their receiver and arguments — there is no state they could change.  What the
  theorems add are the laws no finite table of cases settles: every character-level function
  returns valid UTF-8 for valid (and, where it re-encodes, for any) input; `slice` never leaves
  the array; `append` / `prepend` / `reverse` are extensions and permutations; `then` / `binary`
  select by the receiver's truth.
-/
import TwModel
import TwSpec
import TwProofs.Lemmas.Utf8Valid
import TwProofs.Lemmas.TrimSplit
import TwProofs.Lemmas.TextCall
import TwProofs.Lemmas.TextCallNum
import TwProofs.Lemmas.TextCallStr
import TwProofs.Lemmas.TextAround
import TwProofs.C12

namespace Tw.C11
open Tw

/-! ### UTF-8 -/

/-- re-encoding functions return valid UTF-8 for *every* input (invalid bytes become U+FFFD) -/
theorem upper_lower_reverse_valid (s : Bytes) :
    validUtf8 (toUpper s) = true ∧ validUtf8 (toLower s) = true ∧ validUtf8 (encodeRunes (decodeRunes s).reverse) = true :=
  ⟨validUtf8_encodeRunes _, validUtf8_encodeRunes _, validUtf8_encodeRunes _⟩

/-- `at` / `first` / `last`: nil, or one whole character -/
theorem at_returns_one_character (s : Bytes) (i : Int) : strAt s i = .nil ∨ ∃ r, strAt s i = .str (encodeRune r) := by
  unfold strAt
  simp only []
  by_cases h1 : (decodeRunes s).isEmpty = true
  · left; simp [h1]
  · simp only [h1, Bool.false_eq_true, if_false]
    generalize (if i < 0 then ((decodeRunes s).length : Int) + i else i) = j
    split
    · left; rfl
    · right; exact ⟨_, rfl⟩

theorem at_valid (s : Bytes) (i : Int) (v : Bytes) (h : strAt s i = .str v) : validUtf8 v = true := by
  rcases at_returns_one_character s i with h1 | ⟨r, h1⟩
  · rw [h1] at h; cases h
  · rw [h1] at h; cases h
    have := validUtf8_encodeRunes [r]
    simpa [encodeRunes] using this

/-- `string(runes)` inverts `[]rune(s)` up to the replacement of invalid runes -/
theorem decode_encode (r : Nat) (rest : Bytes) : decodeRune (encodeRune r ++ rest) = (normRune r, (encodeRune r).length) :=
  decodeRune_encodeRune r rest

/-- `truncate`: the receiver itself (when it is short enough), or whole characters of it followed
    by the ellipsis — valid whenever the ellipsis is (the default "..." is) -/
theorem truncate_valid (s e : Bytes) (k : Nat) (he : validUtf8 e = true) :
    validUtf8 (encodeRunes ((decodeRunes s).take k) ++ e) = true :=
  validUtf8_append _ _ (validUtf8_encodeRunes _) he

theorem truncate_default_ellipsis_valid (s : Bytes) (k : Nat) :
    validUtf8 (encodeRunes ((decodeRunes s).take k) ++ b "...") = true :=
  truncate_valid s (b "...") k (by decide)

/-- the shape `truncate` has in the model: exactly these two results -/
theorem truncate_shape (s : Bytes) (limit : Int64) (hl : ¬ limit < 0) :
    strBuiltin (b "truncate") s [.int limit] =
      some (.ok (.str (if limit.toInt ≥ (decodeRunes s).length then s
        else encodeRunes ((decodeRunes s).take limit.toInt.toNat) ++ b "..."))) := by
  unfold strBuiltin
  simp (config := { decide := true }) only [if_false, if_true, hl]
  split <;> rfl

/-- `capitalize` on valid UTF-8 -/
theorem capitalize_valid (s : Bytes) (hs : validUtf8 s = true) :
    validUtf8 (if s.isEmpty then [] else toUpper (s.take (decodeRune s).2) ++ s.drop (decodeRune s).2) = true := by
  cases s with
  | nil => rfl
  | cons c t =>
    simp only [List.isEmpty_cons, Bool.false_eq_true, if_false]
    exact validUtf8_append _ _ (validUtf8_encodeRunes _) (validUtf8_drop_first c t hs)

/-- `repeat` on valid UTF-8 -/
theorem repeat_valid (s : Bytes) (n : Nat) (hs : validUtf8 s = true) : validUtf8 (List.replicate n s).flatten = true := by
  induction n with
  | zero => rfl
  | succ n ih =>
    rw [List.replicate_succ, List.flatten_cons]
    exact validUtf8_append _ _ hs ih

/-! ### arrays -/

theorem clamp_start (len : Nat) (start : Int) :
    0 ≤ (if start < 0 then (0 : Int) else if start > len then (len : Int) else start) ∧
    (if start < 0 then (0 : Int) else if start > len then (len : Int) else start) ≤ len := by
  split
  · omega
  · split <;> omega

theorem clamp_end (len : Nat) (e : Int) :
    0 ≤ (if (decide (e < 0) || decide (e > len)) = true then (len : Int) else e) ∧
    (if (decide (e < 0) || decide (e > len)) = true then (len : Int) else e) ≤ len := by
  by_cases h : e < 0 ∨ e > len
  · have : (decide (e < 0) || decide (e > len)) = true := by simpa using h
    simp only [this, if_true]; omega
  · have : (decide (e < 0) || decide (e > len)) = false := by simp; omega
    simp only [this, Bool.false_eq_true, if_false]; omega

theorem clamp_order (s e1 : Int) (len : Nat) (h1 : 0 ≤ s) (h2 : s ≤ len) (h3 : 0 ≤ e1) (h4 : e1 ≤ len) :
    s.toNat ≤ (if e1 < s then s else e1).toNat ∧ (if e1 < s then s else e1).toNat ≤ len := by
  split <;> omega

/-- `slice` clamps: the bounds it uses always satisfy `start ≤ end ≤ len` -/
theorem slice_bounds (len : Nat) (start : Int) (endO : Option Int) :
    (clampSlice len start endO).1 ≤ (clampSlice len start endO).2 ∧ (clampSlice len start endO).2 ≤ len := by
  unfold clampSlice
  obtain ⟨s1, s2⟩ := clamp_start len start
  cases endO with
  | none =>
    simp only []
    constructor <;> omega
  | some e =>
    obtain ⟨e1, e2⟩ := clamp_end len e
    exact clamp_order _ _ len s1 s2 e1 e2

/-- … and inside the array they are the bounds asked for -/
theorem slice_exact (len : Nat) (s e : Nat) (h1 : s ≤ e) (h2 : e ≤ len) :
    clampSlice len s (some e) = (s, e) := by
  unfold clampSlice
  simp only []
  have a1 : ¬ ((s : Int) < 0) := by omega
  have a2 : ¬ ((s : Int) > len) := by omega
  have a3 : ¬ ((e : Int) < 0 ∨ len < e) := by omega
  have a4 : ¬ ((e : Int) < s) := by omega
  simp [a1, a2, a3, a4]

theorem slice_is_sublist (xs : List Val) (s e : Nat) : ((xs.take e).drop s).Sublist xs :=
  (List.drop_sublist _ _).trans (List.take_sublist _ _)

/-- `reverse` is a permutation and an involution; `append` / `prepend` extend the receiver -/
theorem reverse_perm (xs : List Val) : xs.reverse.Perm xs := List.reverse_perm xs
theorem reverse_reverse (xs : List Val) : xs.reverse.reverse = xs := List.reverse_reverse xs

theorem append_extends (xs args : List Val) (h : args ≠ []) :
    arrBuiltin (b "append") xs args = some (.ok (.arr (xs ++ args))) := by
  unfold arrBuiltin
  have : args.isEmpty = false := by cases args with | nil => exact absurd rfl h | cons _ _ => rfl
  simp (config := { decide := true }) [this]

theorem prepend_extends (xs args : List Val) (h : args ≠ []) :
    arrBuiltin (b "prepend") xs args = some (.ok (.arr (args ++ xs))) := by
  unfold arrBuiltin
  have : args.isEmpty = false := by cases args with | nil => exact absurd rfl h | cons _ _ => rfl
  simp (config := { decide := true }) [this]

/-- `len` of an array is its length; of a string, its number of characters -/
theorem array_len (xs args : List Val) : arrBuiltin (b "len") xs args = some (.ok (.int (Int64.ofNat xs.length))) := by
  unfold arrBuiltin; simp (config := { decide := true })

theorem string_len_counts_characters (s : Bytes) (args : List Val) :
    strBuiltin (b "len") s args = some (.ok (.int (Int64.ofNat (decodeRunes s).length))) := by
  unfold strBuiltin; simp (config := { decide := true })

/-! ### booleans -/

theorem then_selects (v : Bool) (a : Val) (rest : List Val) :
    boolBuiltin (b "then") v (a :: rest) = some (.ok (if v then a else rest.headD .nil)) := by
  unfold boolBuiltin
  cases v <;> simp (config := { decide := true })

theorem binary_is_zero_or_one (v : Bool) (args : List Val) :
    boolBuiltin (b "binary") v args = some (.ok (.int (if v then 1 else 0))) := by
  unfold boolBuiltin; simp (config := { decide := true })

/-! ### a wrong argument kind is an error, not a crash; a name that is not a built-in is `none` -/

theorem wrong_kind_is_error (s : Bytes) :
    strBuiltin (b "repeat") s [.str (b "x")] = some (.error ("ErrFuncFirstArgInt", [b "repeat", strT])) ∧
    strBuiltin (b "at") s [.bool true] = some (.error ("ErrFuncFirstArgInt", [b "at", strT])) := by
  constructor <;> (unfold strBuiltin; simp (config := { decide := true }))

theorem unknown_name_is_none : callBuiltin (.nil) (b "len") [] = none ∧ boolBuiltin (b "nope") true [] = none := by
  constructor
  · rfl
  · unfold boolBuiltin; simp (config := { decide := true })

/-! ### instances through the whole pipeline -/

example : (match evaluateStringPure [] (b "{{ \"żółw\".len() }}|{{ \"żółw\".reverse() }}|{{ \"żółw\".truncate(2) }}|{{ \"éa\".capitalize() }}|{{ [1,2,3,4].slice(3, 1) }}|{{ [1,2,3].slice(-5, 99) }}") [] with
    | .ok out => out == b "4|włóż|żó...|Éa||1, 2, 3" | _ => false) = true := by decide +kernel

/-! ### `trim*` and `split` -/

/-- the characters of a string partition it (what `split("")` returns, concatenated, is the string) -/
theorem characters_partition (s : Bytes) : (runeChunks s).flatMap (·.2) = s := runeChunks_flatten s.length s (Nat.le_refl _)

/-- `trimLeft` removes a prefix, `trimRight` a suffix, whatever the cut set: nothing inside the string changes -/
theorem trimLeft_returns_a_suffix (s cut : Bytes) : ∃ p, s = p ++ trimLeftSet s cut := trimLeft_suffix s cut
theorem trimRight_returns_a_prefix (s cut : Bytes) : ∃ q, s = trimRightSet s cut ++ q := trimRight_prefix s cut

/-- `trim`, `trimLeft`, `trimRight` cut at character boundaries: valid UTF-8 stays valid UTF-8, for every cut set -/
theorem trimLeft_keeps_utf8 (s cut : Bytes) (h : validUtf8 s = true) : validUtf8 (trimLeftSet s cut) = true := trimLeft_valid s cut h
theorem trimRight_keeps_utf8 (s cut : Bytes) (h : validUtf8 s = true) : validUtf8 (trimRightSet s cut) = true := trimRight_valid s cut h
theorem trim_keeps_utf8 (s cut : Bytes) (h : validUtf8 s = true) : validUtf8 (trimRightSet (trimLeftSet s cut) cut) = true :=
  trim_valid s cut h

/-- **`split` then `join` is the identity**: for every receiver and every separator (the empty one
    included, which splits into characters), joining the parts with the separator gives the receiver back -/
theorem split_then_join (s sep : Bytes) : joinBytes sep (splitBytes s sep) = s := split_join s sep

/-- array `contains` is membership up to the structural equality `Val.beq` -/
theorem array_contains_is_membership (xs : List Val) (t : Val) (rest : List Val) :
    arrBuiltin (b "contains") xs (t :: rest) = some (.ok (.bool (xs.any fun x => Val.beq x t))) := by
  simp [arrBuiltin, b, utf8Bytes]

example : splitBytes (b "a,b,,c") (b ",") = [b "a", b "b", [], b "c"] ∧ trimRightSet (trimLeftSet (b "  é x ") (b " ")) (b " ") = b "é x" := by decide

/-! ### a built-in function called on a variable, from the source bytes -/

/-- **`{{ k.fn() }}` from the source bytes**: for every data map with distinct keys, every entry
    `(k, g)` whose value converts to a value with built-in functions (string, array, number, boolean)
    and every function `fn` of that type which accepts an empty argument list, the template
    `{{ k.fn() }}` — any white space inside the braces — renders the printed result of the built-in
    on the converted value.  The contracts of this file (UTF-8 validity, slice bounds, trim / split
    laws, …) are statements about `callBuiltin`, which is what the template reaches.  Lexer
    (`lex_call`), parser (`parse_call_stmt`) and evaluator composed. -/
theorem builtin_call_prints_from_source (custom : List ((VType × Bytes) × Nat)) (data : List (Bytes × GoVal)) (env : Env)
    (hd : KeysDistinct data) (h : envFromMap data = .ok env) (k : Bytes) (g : GoVal) (hm : (k, g) ∈ data) (hk : isName k)
    (fn : Bytes) (hfn : isName fn) (g1 g2 : Bytes) (hg1 : allWs g1) (hg2 : allWs g2) (rv : Val) (hrv : nativeToObject g = some rv)
    (htab : hasBuiltinTable rv.type = true) (v : Val) (hcall : callBuiltin rv fn [] = some (.ok v)) :
    evaluateStringPure custom (callSrc g1 k fn g2) data = .ok v.toStr := by
  obtain ⟨v0, hv0, hget⟩ := C12.data_is_visible data env hd h k g hm
  have hv0' : v0 = rv := by rw [hrv] at hv0; cases hv0; rfl
  subst hv0'
  obtain ⟨prog, t2, t4, t6, hp, hs⟩ := parse_call_source g1 k fn g2 hg1 hg2 hk hfn
  unfold evaluateStringPure envOrFail
  rw [hp]
  simp only [h, hs]
  rw [show evalFuel = (evalFuel - 4) + 1 + 1 + 1 + 1 from by decide, evalProg_cons, evalStmt_succ]
  simp only [stmtBody, calleesAt_expr]
  simp only [evalExpr, hget, htab, evalExprs, hcall, Bool.not_true, Bool.false_eq_true, if_false, Res.bind_ok]
  rw [evalProg_nil]
  simp [resToOut]

example : evaluateStringPure [] (b "{{ name.upper() }}") [(b "name", .str (b "ann"))] = .ok (b "ANN") := by
  have := builtin_call_prints_from_source [] [(b "name", .str (b "ann"))] [[(b "name", .str (b "ann"))]] (by simp [KeysDistinct]) (by rfl)
    (b "name") (.str (b "ann")) (by simp) (by decide) (b "upper") (by decide) [32] [32] (by decide) (by decide) (.str (b "ann")) (by rfl) (by rfl)
    (.str (b "ANN")) (by rfl)
  have hs : callSrc [32] (b "name") (b "upper") [32] = b "{{ name.upper() }}" := by decide
  rw [hs] at this
  exact this

/-- **a builtin call with a number as its argument prints its result, from the source bytes on**: for
    every data entry `(k, g)` whose converted value `rv` has a table of functions, every function name
    `fn`, every decimal number `d` that fits in an int64 and every white space after `{{`, around the
    number and before `}}`: when the function of that name answers `v` on `rv` with the integer `d`, the
    template `{{ k.fn(d) }}` renders the printed `v` (`repeat`, `at`, `truncate`, `decimal`, …).
    Lexer (`lex_callNum`), parser (`parse_callNum_stmt`: a one-element argument list) and evaluator composed. -/
theorem builtin_call_with_number_prints_from_source (custom : List ((VType × Bytes) × Nat)) (data : List (Bytes × GoVal)) (env : Env)
    (hd : KeysDistinct data) (h : envFromMap data = .ok env) (k : Bytes) (g : GoVal) (hm : (k, g) ∈ data) (hk : isName k)
    (fn : Bytes) (hfn : isName fn) (d : Bytes) (hdg : isDigits d) (hb : digitsToNat d < 2 ^ 63)
    (g1 g2 g3 g4 : Bytes) (hg1 : allWs g1) (hg2 : allWs g2) (hg3 : allWs g3) (hg4 : allWs g4)
    (rv : Val) (hrv : nativeToObject g = some rv) (htab : hasBuiltinTable rv.type = true) (v : Val)
    (hcall : callBuiltin rv fn [.int (Int64.ofNat (digitsToNat d))] = some (.ok v)) :
    evaluateStringPure custom (callNumSrc g1 k fn g3 d g4 g2) data = .ok v.toStr := by
  obtain ⟨v0, hv0, hget⟩ := C12.data_is_visible data env hd h k g hm
  have hv0' : v0 = rv := by rw [hrv] at hv0; cases hv0; rfl
  subst hv0'
  obtain ⟨prog, t2, t4, t6, t7, hp, hs⟩ := parse_callNum_source g1 k fn g3 d g4 g2 hg1 hg2 hg3 hg4 hk hfn hdg (by omega)
  unfold evaluateStringPure envOrFail
  rw [hp]
  simp only [h, hs]
  rw [show evalFuel = (evalFuel - 6) + 1 + 1 + 1 + 1 + 1 + 1 from by decide, evalProg_cons, evalStmt_succ]
  simp only [stmtBody, calleesAt_expr]
  simp only [evalExpr, hget, htab, evalExprs, hcall, Bool.not_true, Bool.false_eq_true, if_false, Res.bind_ok]
  rw [evalProg_nil]
  simp [resToOut]

example : evaluateStringPure [] (b "{{ s.repeat( 3 ) }}") [(b "s", .str (b "ab"))] = .ok (b "ababab") := by
  have := builtin_call_with_number_prints_from_source [] [(b "s", .str (b "ab"))] [[(b "s", .str (b "ab"))]] (by simp [KeysDistinct]) (by rfl)
    (b "s") (.str (b "ab")) (by simp) (by decide) (b "repeat") (by decide) (b "3") (by decide) (by decide)
    [32] [32] [32] [32] (by decide) (by decide) (by decide) (by decide) (.str (b "ab")) (by rfl) (by rfl)
    (.str (b "ababab")) (by rfl)
  have hs : callNumSrc [32] (b "s") (b "repeat") [32] (b "3") [32] [32] = b "{{ s.repeat( 3 ) }}" := by decide
  rw [hs] at this
  exact this

/-- **a builtin call with a string literal as its argument prints its result, from the source bytes on**:
    for every data entry `(k, g)` whose converted value `rv` has a table of functions, every function name
    `fn`, every string literal (either quote, no backslash) and any white space after `{{`, around the
    literal and before `}}`: when the function answers `v` on `rv` with the *escaped* literal
    (`literalValue`, C10) as its argument, the template `{{ k.fn("text") }}` renders the printed `v`
    (`split`, `contains`, `join`, `trim`, `append`, `then`, …). -/
theorem builtin_call_with_string_prints_from_source (custom : List ((VType × Bytes) × Nat)) (data : List (Bytes × GoVal)) (env : Env)
    (hd : KeysDistinct data) (h : envFromMap data = .ok env) (k : Bytes) (g : GoVal) (hm : (k, g) ∈ data) (hk : isName k)
    (fn : Bytes) (hfn : isName fn) (q : Byte) (hq : q = 34 ∨ q = 39) (c : Bytes) (hc : PlainStr q c)
    (g1 g2 g3 g4 : Bytes) (hg1 : allWs g1) (hg2 : allWs g2) (hg3 : allWs g3) (hg4 : allWs g4)
    (rv : Val) (hrv : nativeToObject g = some rv) (htab : hasBuiltinTable rv.type = true) (v : Val)
    (hcall : callBuiltin rv fn [.str (literalValue c)] = some (.ok v)) :
    evaluateStringPure custom (callStrSrc g1 k fn g3 q c g4 g2) data = .ok v.toStr := by
  obtain ⟨v0, hv0, hget⟩ := C12.data_is_visible data env hd h k g hm
  have hv0' : v0 = rv := by rw [hrv] at hv0; cases hv0; rfl
  subst hv0'
  obtain ⟨prog, t2, t4, t6, t7, hp, hs⟩ := parse_callStr_source g1 k fn g3 q c g4 g2 hg1 hg2 hg3 hg4 hk hfn hq hc
  unfold evaluateStringPure envOrFail
  rw [hp]
  simp only [h, hs]
  rw [show evalFuel = (evalFuel - 6) + 1 + 1 + 1 + 1 + 1 + 1 from by decide, evalProg_cons, evalStmt_succ]
  simp only [stmtBody, calleesAt_expr]
  simp only [evalExpr, hget, htab, evalExprs, hcall, Bool.not_true, Bool.false_eq_true, if_false, Res.bind_ok]
  rw [evalProg_nil]
  simp [resToOut]

example : evaluateStringPure [] (b "{{ s.contains('b') }}") [(b "s", .str (b "abc"))] = .ok (b "1") := by
  have := builtin_call_with_string_prints_from_source [] [(b "s", .str (b "abc"))] [[(b "s", .str (b "abc"))]] (by simp [KeysDistinct]) (by rfl)
    (b "s") (.str (b "abc")) (by simp) (by decide) (b "contains") (by decide) 39 (Or.inr rfl) (b "b") (by decide)
    [32] [32] [] [] (by decide) (by decide) (by decide) (by decide) (.str (b "abc")) (by rfl) (by rfl)
    (.bool true) (by rfl)
  have hs : callStrSrc [32] (b "s") (b "contains") [] 39 (b "b") [] [32] = b "{{ s.contains('b') }}" := by decide
  rw [hs] at this
  exact this

/-- **`Hi {{ name.upper() }}!`: a builtin call between two runs of text, from the source bytes on**: the
    template `pre {{ k.fn() }} post` — any two runs of text with escapes, any white space inside the
    braces — renders the text of `pre`, the printed result of the built-in `fn` on the converted value of
    the data entry `k`, the text of `post` (`text_code_text` with the instance for `k.fn()`). -/
theorem builtin_call_prints_in_text (custom : List ((VType × Bytes) × Nat)) (data : List (Bytes × GoVal)) (env : Env)
    (hd : KeysDistinct data) (h : envFromMap data = .ok env) (k : Bytes) (g : GoVal) (hm : (k, g) ∈ data) (hk : isName k)
    (fn : Bytes) (hfn : isName fn) (g1 g2 : Bytes) (hg1 : allWs g1) (hg2 : allWs g2) (rv : Val) (hrv : nativeToObject g = some rv)
    (htab : hasBuiltinTable rv.type = true) (v : Val) (hcall : callBuiltin rv fn [] = some (.ok v))
    (pre post : List Seg) (hitems : GItemsOK [.text pre, .code (callCode g1 k fn g2), .text post]) :
    evaluateStringPure custom (segsSrc pre ++ (callSrc g1 k fn g2 ++ segsSrc post)) data = .ok (segsLit pre ++ v.toStr ++ segsLit post) := by
  obtain ⟨v0, hv0, hget⟩ := C12.data_is_visible data env hd h k g hm
  have hv0' : v0 = rv := by rw [hrv] at hv0; cases hv0; rfl
  subst hv0'
  have hone : OneStmt (callCode g1 k fn g2) env { custom := custom } v.toStr := by
    refine ⟨callCode_ok g1 k fn g2 hg1 hg2 hk hfn, by simp [callCode, callKeys], ?_, ?_, ?_⟩
    · intro g toks tn rest hkeys hcl
      have hk' : toks.map key = callKeys k fn := hkeys
      match toks, hk' with
      | [], hk' => simp [callKeys] at hk'
      | [_], hk' => simp [callKeys] at hk'
      | [_, _], hk' => simp [callKeys] at hk'
      | [_, _, _], hk' => simp [callKeys] at hk'
      | [_, _, _, _], hk' => simp [callKeys] at hk'
      | [_, _, _, _, _], hk' => simp [callKeys] at hk'
      | [_, _, _, _, _, _], hk' => simp [callKeys] at hk'
      | _ :: _ :: _ :: _ :: _ :: _ :: _ :: _ :: _, hk' => simp [callKeys] at hk'
      | [t1, t2, t3, t4, t5, t6, t7], hk' =>
        simp only [callKeys, List.map_cons, List.map_nil, List.cons.injEq, and_true] at hk'
        obtain ⟨hk1, hk2, hk3, hk4, hk5, hk6, hk7⟩ := hk'
        have ty1 : t1.ty = .LBRACES := congrArg Prod.fst hk1
        have ty2 : t2.ty = .IDENT := congrArg Prod.fst hk2
        have lit2 : t2.lit = k := congrArg Prod.snd hk2
        have ty3 : t3.ty = .DOT := congrArg Prod.fst hk3
        have ty4 : t4.ty = .IDENT := congrArg Prod.fst hk4
        have lit4 : t4.lit = fn := congrArg Prod.snd hk4
        have ty5 : t5.ty = .LPAREN := congrArg Prod.fst hk5
        have ty6 : t6.ty = .RPAREN := congrArg Prod.fst hk6
        have ty7 : t7.ty = .RBRACES := congrArg Prod.fst hk7
        refine ⟨.expr t6 (.call t4 (.ident t2 t2.lit) t4.lit []), t7, ?_, by rw [ty7]; decide, rfl, ?_⟩
        · have := parse_call_stmt (g + 24) t1 t2 t3 t4 t5 t6 t7 (tn :: rest) ty1 ty2 ty3 ty4 ty5 ty6 ty7 hcl
          simpa [callCode, callKeys] using this
        · intro fu
          rw [show fu + 8 = (fu + 5) + 1 + 1 + 1 from by omega, evalStmt_succ]
          simp only [stmtBody, calleesAt_expr]
          simp only [evalExpr, lit2, lit4, hget, htab, evalExprs, hcall, Bool.not_true, Bool.false_eq_true, if_false, Res.bind_ok]
    · intro toks hkeys
      have hk' : toks.map key = callKeys k fn := hkeys
      cases toks with
      | nil => simp [callKeys] at hk'
      | cons t r =>
        have : key t = (.LBRACES, [123, 123]) := by simpa [callKeys] using (List.cons.inj hk').1
        have ty : t.ty = .LBRACES := congrArg Prod.fst this
        exact ⟨t, r, rfl, by rw [ty]; decide, by rw [ty]; decide⟩
    · intro x hx
      simp only [callCode, callKeys, List.mem_cons, List.mem_nil_iff, or_false] at hx
      rcases hx with rfl | rfl | rfl | rfl | rfl | rfl | rfl <;> simp
  exact text_code_text custom pre post (callCode g1 k fn g2) data env h v.toStr hone hitems

example : evaluateStringPure [] (b "Hi {{ name.upper() }}!") [(b "name", .str (b "ann"))] = .ok (b "Hi ANN!") := by
  have hitems : GItemsOK [.text [.plain (b "Hi ")], .code (callCode [32] (b "name") (b "upper") [32]), .text [.plain (b "!")]] :=
    ⟨by decide, by decide, by simp only [afterRunG]; decide, callCode_ok [32] (b "name") (b "upper") [32] (by decide) (by decide) (by decide) (by decide),
      by decide, by decide, trivial, trivial⟩
  have := builtin_call_prints_in_text [] [(b "name", .str (b "ann"))] [[(b "name", .str (b "ann"))]] (by simp [KeysDistinct]) (by rfl)
    (b "name") (.str (b "ann")) (by simp) (by decide) (b "upper") (by decide) [32] [32] (by decide) (by decide) (.str (b "ann")) (by rfl) (by rfl)
    (.str (b "ANN")) (by rfl) [.plain (b "Hi ")] [.plain (b "!")] hitems
  have hs : segsSrc [.plain (b "Hi ")] ++ (callSrc [32] (b "name") (b "upper") [32] ++ segsSrc [.plain (b "!")]) = b "Hi {{ name.upper() }}!" := by decide
  rw [hs] at this
  exact this

end Tw.C11
