/-
  TwProofs.C16 — property theorems (see DESIGN.md, section 6).
-/
import TwModel
import TwSpec

namespace Tw.C16
open Tw

end Tw.C16
