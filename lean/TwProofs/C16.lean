/-
  TwProofs.C16 — a render depends only on its arguments, not on earlier calls.
-/
import TwModel

namespace Tw.C16
open Tw

/-- the rendering operations on a loaded template -/
inductive ROp where
  | str (name : Bytes) (data : List (Bytes × GoVal))
  | resp (name : Bytes) (data : List (Bytes × GoVal))
  | evs (src : Bytes) (data : List (Bytes × GoVal))
  | evf (path : Bytes) (data : List (Bytes × GoVal))

/-- what a caller observes of one operation -/
inductive Obs where
  | out (o : EvalOut)
  | resp (r : RespOut)

/-- one operation: the new package state and the observation -/
def step (cwd : Bytes) (t : Template) (w : World) : ROp → World × Obs
  | .str name data => (w, .out (tplString w t name data))
  | .resp name data => let (w', r) := tplResponse w t name data cwd; (w', .resp r)
  | .evs src data => let (w', r) := evaluateString w src data; (w', .out r)
  | .evf path data => let (w', r) := evaluateFile w path data; (w', .out r)

/-- the package state except the "uses templates" flag -/
def SameButFlag (a c : World) : Prop := a.cfg = c.cfg ∧ a.custom = c.custom ∧ a.fs = c.fs

theorem evaluateString_frame (w : World) (src : Bytes) (data : List (Bytes × GoVal)) :
    SameButFlag (evaluateString w src data).1 w := ⟨rfl, rfl, rfl⟩

theorem errorPage_frame (w : World) (f : Fail) (cwd : Bytes) : SameButFlag (errorPage w f cwd).1 w := ⟨rfl, rfl, rfl⟩

theorem tplResponse_frame (w : World) (t : Template) (name : Bytes) (data : List (Bytes × GoVal)) (cwd : Bytes) :
    SameButFlag (tplResponse w t name data cwd).1 w := by
  unfold tplResponse
  cases tplString w t name data with
  | ok out => exact ⟨rfl, rfl, rfl⟩
  | panic why => exact ⟨rfl, rfl, rfl⟩
  | oof => exact ⟨rfl, rfl, rfl⟩
  | fail f =>
    simp only
    split
    · cases tplString w t w.cfg.errPage [] <;> exact ⟨rfl, rfl, rfl⟩
    · have hw : (errorPage w f cwd).1 = { w with uses := false } := rfl
      cases h : errorPage w f cwd with
      | mk w' r =>
        rw [h] at hw
        simp only at hw
        subst hw
        cases r <;> exact ⟨rfl, rfl, rfl⟩

/-- **state frame**: a render leaves the configuration, the registered functions and the files
    as they were (only the mode flag may be written, and no render reads it) -/
theorem render_state_frame (cwd : Bytes) (t : Template) (w : World) (op : ROp) : SameButFlag (step cwd t w op).1 w := by
  cases op with
  | str name data => exact ⟨rfl, rfl, rfl⟩
  | evs src data => exact ⟨rfl, rfl, rfl⟩
  | evf path data =>
    simp only [step, evaluateFile]
    split <;> exact ⟨rfl, rfl, rfl⟩
  | resp name data => exact tplResponse_frame w t name data cwd

/-- `Template.String` as a function of configuration and registered functions only -/
def strPure (cfg : Cfg) (custom : List ((VType × Bytes) × Nat)) (t : Template) (name : Bytes) (data : List (Bytes × GoVal)) : EvalOut :=
  tplString { cfg := cfg, custom := custom } t name data

theorem tplString_pure (w : World) (t : Template) (name : Bytes) (data : List (Bytes × GoVal)) :
    tplString w t name data = strPure w.cfg w.custom t name data := rfl

/-- `Template.Response` as a function of configuration and registered functions only -/
def respPure (cfg : Cfg) (custom : List ((VType × Bytes) × Nat)) (t : Template) (name : Bytes) (data : List (Bytes × GoVal)) (cwd : Bytes) : RespOut :=
  (tplResponse { cfg := cfg, custom := custom } t name data cwd).2

theorem tplResponse_pure (w : World) (t : Template) (name : Bytes) (data : List (Bytes × GoVal)) (cwd : Bytes) :
    (tplResponse w t name data cwd).2 = respPure w.cfg w.custom t name data cwd := by
  unfold respPure tplResponse
  rw [tplString_pure w, tplString_pure { cfg := w.cfg, custom := w.custom }]
  cases strPure w.cfg w.custom t name data with
  | ok out => rfl
  | panic why => rfl
  | oof => rfl
  | fail f =>
    simp only
    split
    · rw [tplString_pure w, tplString_pure { cfg := w.cfg, custom := w.custom }]
      cases strPure w.cfg w.custom t w.cfg.errPage [] <;> rfl
    · have e1 : (errorPage w f cwd).2 = (errorPage { cfg := w.cfg, custom := w.custom } f cwd).2 := rfl
      cases h1 : errorPage w f cwd with
      | mk w1 r1 =>
        cases h2 : errorPage { cfg := w.cfg, custom := w.custom } f cwd with
        | mk w2 r2 =>
          rw [h1, h2] at e1
          simp only at e1
          subst e1
          cases r1 <;> rfl

theorem evaluateFile_pure (w : World) (path : Bytes) (data : List (Bytes × GoVal)) :
    (evaluateFile w path data).2 = (evaluateFile { cfg := w.cfg, custom := w.custom, fs := w.fs } path data).2 := by
  unfold evaluateFile
  cases readFile w.fs path <;> rfl

/-- the observation of an operation does not depend on the mode flag -/
theorem obs_congr (cwd : Bytes) (t : Template) (a c : World) (h : SameButFlag a c) (op : ROp) :
    (step cwd t a op).2 = (step cwd t c op).2 := by
  obtain ⟨h1, h2, h3⟩ := h
  cases op with
  | str name data => simp only [step, tplString_pure, h1, h2]
  | evs src data => simp only [step, evaluateString, h2]
  | evf path data =>
    simp only [step]
    rw [evaluateFile_pure a, evaluateFile_pure c, h1, h2, h3]
  | resp name data =>
    simp only [step]
    rw [tplResponse_pure a, tplResponse_pure c, h1, h2]

/-- running a history of operations -/
def run (cwd : Bytes) (t : Template) (w : World) : List ROp → World
  | [] => w
  | op :: r => run cwd t (step cwd t w op).1 r

theorem run_frame (cwd : Bytes) (t : Template) : ∀ (h : List ROp) (w : World), SameButFlag (run cwd t w h) w := by
  intro h
  induction h with
  | nil => intro w; exact ⟨rfl, rfl, rfl⟩
  | cons op r ih =>
    intro w
    obtain ⟨a1, a2, a3⟩ := ih (step cwd t w op).1
    obtain ⟨b1, b2, b3⟩ := render_state_frame cwd t w op
    exact ⟨a1.trans b1, a2.trans b2, a3.trans b3⟩

/-- **history independence**: after *any* history of rendering operations — successful or
    failing renders, error pages written through Response, string or file evaluations — an
    operation returns exactly what it returns when issued first -/
theorem history_independent (cwd : Bytes) (t : Template) (w : World) (h : List ROp) (op : ROp) :
    (step cwd t (run cwd t w h) op).2 = (step cwd t w op).2 :=
  obs_congr cwd t _ _ (run_frame cwd t h w) op

end Tw.C16
