/-
  TwProofs.C15 — one loaded Template and the string API are safe for concurrent use.

  What a theorem can carry here, and what it cannot.  The shared state of the package after
  loading is: the configuration, the registered functions, the loaded templates (all read-only
  on render paths) and one flag that `EvaluateString` / `EvaluateFile` / the built-in error page
  store to.  The regenerated facts (TIE-1) pin this down on the real sources on every run:
  `renderPathWrites_ok` (the only package-level write on a render path is that flag, and it goes
  through an atomic) and `stateWrites_ok` (every other write sits in `Configure` / `Register*`).
  On top of that the model gives the logical half of the property:

  * every state reachable by *any* interleaving of the stores that concurrent renders perform
    differs from the initial state in the flag only (`reachable_frame`), and
  * what a call returns is the same in every such state (`concurrent_result_is_sequential`) —
    so whatever the scheduler does between the steps of a call, and whatever other calls run
    meanwhile, the call returns exactly what it returns when run alone.

  Not modelled (label: partial): the Go memory model and the runtime — that reads of the
  read-only state are race-free because nothing writes it is the facts' statement, and the
  absence of races in the compiled code is what the `-race` workloads of the harness observe.
-/
import TwModel
import TwSpec
import TwProofs.C16
import TwProofs.Facts

namespace Tw.C15
open Tw Tw.C16

/-- one atomic step a concurrently running render may take on the shared package state: a store
    to the mode flag (the only shared location a render writes, F9) -/
inductive MicroStep : World → World → Prop
  | store (w : World) (v : Bool) : MicroStep w { w with uses := v }

/-- the states reachable under an arbitrary interleaving of such steps -/
inductive Reachable (w0 : World) : World → Prop
  | init : Reachable w0 w0
  | step (w w' : World) : Reachable w0 w → MicroStep w w' → Reachable w0 w'

/-- every operation of the API moves the state by such stores only -/
theorem operations_are_flag_stores (cwd : Bytes) (t : Template) (w : World) (op : ROp) :
    (step cwd t w op).1 = w ∨ MicroStep w (step cwd t w op).1 := by
  cases op with
  | str name data => left; rfl
  | evs src data => right; exact .store w false
  | evf path data =>
    right
    simp only [C16.step, evaluateFile]
    split <;> exact .store w false
  | resp name data =>
    simp only [C16.step]
    unfold tplResponse
    cases tplString w t name data with
    | ok out => left; rfl
    | panic why => left; rfl
    | oof => left; rfl
    | fail f =>
      simp only
      split
      · cases tplString w t w.cfg.errPage [] <;> (left; rfl)
      · have hw : (errorPage w f cwd).1 = { w with uses := false } := rfl
        cases h : errorPage w f cwd with
        | mk w' r =>
          rw [h] at hw
          simp only at hw
          subst hw
          cases r <;> (right; exact .store w false)

/-- under any interleaving, only the flag differs from the initial state -/
theorem reachable_frame (w0 w : World) (h : Reachable w0 w) : SameButFlag w w0 := by
  induction h with
  | init => exact ⟨rfl, rfl, rfl⟩
  | step w w' _ hs ih =>
    cases hs with
    | store v => exact ih

/-- whole calls of other goroutines, in any number and order, stay inside the reachable set -/
theorem calls_stay_reachable (cwd : Bytes) (t : Template) (w0 : World) :
    ∀ (ops : List ROp) (w : World), Reachable w0 w → Reachable w0 (run cwd t w ops)
  | [], w, h => h
  | op :: r, w, h => by
    show Reachable w0 (run cwd t (step cwd t w op).1 r)
    rcases operations_are_flag_stores cwd t w op with he | hm
    · rw [he]; exact calls_stay_reachable cwd t w0 r w h
    · exact calls_stay_reachable cwd t w0 r _ (.step w _ h hm)

/-- **every call returns exactly what it returns when run alone**: in every state that any
    interleaving of concurrent renders can produce — between any two steps of this call and of the
    others — the observation of the call (output, error, error page) is the one on the initial state -/
theorem concurrent_result_is_sequential (cwd : Bytes) (t : Template) (w0 w : World) (h : Reachable w0 w) (op : ROp) :
    (step cwd t w op).2 = (step cwd t w0 op).2 :=
  obs_congr cwd t w w0 (reachable_frame w0 w h) op

/-- this includes failing renders that produce the built-in error page: the page is computed from
    the configuration and the failure only -/
theorem error_page_is_sequential (cwd : Bytes) (w0 w : World) (h : Reachable w0 w) (f : Fail) :
    (errorPage w f cwd).2 = (errorPage w0 f cwd).2 := by
  obtain ⟨h1, h2, _⟩ := reachable_frame w0 w h
  unfold errorPage evaluateString errorPageData
  simp only [h1, h2]

/-- the facts about the real sources this rests on (regenerated and re-checked on every run) -/
theorem shared_writes_on_render_paths_are_atomic_flag_stores :
    Gen.renderPathWrites.all (fun w => w.2.1 == "textwire.usesTemplates" && w.2.2 == "atomic") = true :=
  FactsOk.renderPathWrites_ok

/-- non-vacuity: a state reached by three concurrent stores -/
example : Reachable ({} : World) { ({} : World) with uses := true } :=
  .step _ _ (.step _ _ (.step _ _ .init (.store _ true)) (.store _ false)) (.store _ true)

end Tw.C15
