/-
  TwProofs.C15 — property theorems (see DESIGN.md, section 6).
-/
import TwModel
import TwSpec

namespace Tw.C15
open Tw

end Tw.C15
