/-
  TwProofs.C04 — variables are block scoped and type stable; `loop` is reserved.

  The environment of the model is a list of scopes (innermost first), a transcription of
  `object.Env`.  The theorems: what `Set` refuses (the reserved name, a change of type — looked
  up through all visible scopes), what it does (writes the innermost scope only), that lookups
  see through nested scopes, and that every scoped construct (`@if`, `@for`, `@each`,
  `@component`) hands back exactly the environment it was given, so nothing bound or assigned
  inside is visible after it.
-/
import TwModel
import TwSpec
import TwProofs.Lemmas.EvalStep
import TwProofs.Lemmas.TextEach
import TwProofs.Lemmas.ScopeEval
import TwProofs.Lemmas.TextAssignInt
import TwProofs.Lemmas.TextAssignExpr

namespace Tw.C04
open Tw

/-! ### maps -/

theorem mapGet_mapSet_same {α} (m : List (Bytes × α)) (k : Bytes) (v : α) : mapGet (mapSet m k v) k = some v := by
  induction m with
  | nil => simp [mapSet, mapGet]
  | cons x r ih =>
    obtain ⟨k', v'⟩ := x
    unfold mapSet
    split
    · simp [mapGet]
    · rename_i hne
      simp only [mapGet, hne, Bool.false_eq_true, if_false]
      exact ih

theorem mapGet_mapSet_other {α} (m : List (Bytes × α)) (k k2 : Bytes) (v : α) (h : k2 ≠ k) :
    mapGet (mapSet m k v) k2 = mapGet m k2 := by
  induction m with
  | nil =>
    have : (k == k2) = false := by simpa using fun e => h e.symm
    simp [mapSet, mapGet, this]
  | cons x r ih =>
    obtain ⟨k', v'⟩ := x
    unfold mapSet
    split
    · rename_i heq
      have hk : k' = k := by simpa using heq
      have h1 : (k == k2) = false := by simpa using fun e => h e.symm
      have h2 : (k' == k2) = false := by rw [hk]; exact h1
      simp [mapGet, h1, h2]
    · simp only [mapGet]
      split
      · rfl
      · exact ih

/-! ### `loop` is reserved -/

/-- the name `loop` can never be assigned, whatever the environment and the value -/
theorem loop_is_reserved (env : Env) (v : Val) : env.set (b "loop") v = .error ("ErrLoopVariableIsReserved", []) := by
  simp [Env.set]

/-- nor supplied as data -/
theorem loop_not_accepted_as_data (g : GoVal) (v : Val) (h : nativeToObject g = some v) :
    envFromMap [(b "loop", g)] = .error (.setErr "ErrLoopVariableIsReserved" []) := by
  simp [envFromMap, sortByKey, insertByKey, envFromMap.go, h, Env.set]

/-- assignment statements and loop variables go through `Set` (`setVar`), so they fail the same way -/
theorem assign_loop_fails (f : Nat) (c : Ctx) (env : Env) (t : Token) (e : Expr) (v : Val)
    (he : evalExpr f c env e = .ok v) :
    evalStmt (f + 1) c env (.assign t (b "loop") e) = .err "ErrLoopVariableIsReserved" t.errorLine [] := by
  rw [evalStmt_succ]
  simp only [stmtBody, calleesAt_expr]
  rw [he, Res.bind_ok]
  simp [setVar, loop_is_reserved]

/-! ### type stability -/

/-- a visible name (in any enclosing scope) is never re-bound with a value of another type -/
theorem type_change_is_refused (env : Env) (k : Bytes) (old v : Val) (hk : k ≠ b "loop")
    (hget : env.get k = some old) (hty : old.type ≠ v.type) :
    env.set k v = .error ("ErrVariableTypeMismatch", [k, old.typeName, v.typeName]) := by
  have h1 : (k == b "loop") = false := by simpa using hk
  have h2 : (old.type != v.type) = true := by simpa using hty
  simp [Env.set, h1, hget, h2]

/-- … and a re-assignment with the same type, or a new name, writes the innermost scope only -/
theorem set_writes_innermost (s : List (Bytes × Val)) (outer : Env) (k : Bytes) (v : Val) (env' : Env)
    (h : Env.set (s :: outer) k v = .ok env') : env' = mapSet s k v :: outer := by
  unfold Env.set at h
  split at h
  · cases h
  · split at h
    · split at h
      · cases h
      · cases h; rfl
    · cases h; rfl

theorem get_after_set (env : Env) (k : Bytes) (v : Val) (env' : Env) (h : env.set k v = .ok env') :
    env'.get k = some v := by
  cases env with
  | nil =>
    unfold Env.set at h
    split at h
    · cases h
    · simp only [Env.get] at h
      cases h
      simp [Env.get, mapGet]
  | cons s outer =>
    rw [set_writes_innermost s outer k v env' h]
    simp [Env.get, mapGet_mapSet_same]

theorem get_other_after_set (s : List (Bytes × Val)) (outer : Env) (k k2 : Bytes) (v : Val) (env' : Env)
    (h : Env.set (s :: outer) k v = .ok env') (hne : k2 ≠ k) : env'.get k2 = Env.get (s :: outer) k2 := by
  rw [set_writes_innermost s outer k v env' h]
  simp [Env.get, mapGet_mapSet_other _ _ _ _ hne]

/-- the statement form: re-assigning a visible name with another type fails the render -/
theorem assign_type_mismatch (f : Nat) (c : Ctx) (env : Env) (t : Token) (name : Bytes) (e : Expr) (old v : Val)
    (hk : name ≠ b "loop") (he : evalExpr f c env e = .ok v) (hget : env.get name = some old) (hty : old.type ≠ v.type) :
    evalStmt (f + 1) c env (.assign t name e) =
      .err "ErrVariableTypeMismatch" t.errorLine [name, old.typeName, v.typeName] := by
  rw [evalStmt_succ]
  simp only [stmtBody, calleesAt_expr]
  rw [he, Res.bind_ok]
  simp [setVar, type_change_is_refused env name old v hk hget hty]

/-! ### scopes -/

/-- a nested block sees everything the enclosing blocks see -/
theorem nested_block_sees_outer (env : Env) (k : Bytes) : env.push.get k = env.get k := by
  simp [Env.push, Env.get, mapGet]

/-- an assignment inside a nested block leaves the enclosing scopes untouched -/
theorem nested_assignment_is_local (env : Env) (k : Bytes) (v : Val) (env' : Env) (h : env.push.set k v = .ok env') :
    env' = [(k, v)] :: env := by
  have := set_writes_innermost [] env k v env' h
  simpa [mapSet] using this

theorem bind_ok_inv {α β} {r : Res α} {g : α → Res β} {y : β} (h : r.bind g = .ok y) : ∃ a, r = .ok a ∧ g a = .ok y := by
  cases r with
  | ok a => exact ⟨a, rfl, by simpa using h⟩
  | err a l as => simp at h
  | panic w => simp at h
  | oof => simp at h

/-- **scoped constructs restore the environment**: whatever happens inside an `@if`, `@for`,
    `@each` or `@component` (assignments, loop variables, `loop`, component arguments), the
    environment after the construct is the one before it -/
theorem scoped_constructs_restore_env (f : Nat) (c : Ctx) (env env' : Env) (s : Stmt) (o : Out)
    (hs : (match s with | .ifS .. | .forS .. | .eachS .. | .component .. => true | _ => false) = true)
    (h : evalStmt (f + 1) c env s = .ok (o, env')) : env' = env := by
  have elseIfs_env : ∀ (alts : List (Expr × List Stmt)) (alt : Option (List Stmt)) (g : Nat) (o : Out) (e' : Env),
      evalElseIfs g c env alts alt = .ok (o, e') → e' = env := by
    intro alts
    induction alts with
    | nil =>
      intro alt g o e' h
      cases g with
      | zero => simp [evalElseIfs] at h
      | succ g =>
        rw [evalElseIfs_nil] at h
        cases alt with
        | none => simp at h; exact h.2.symm
        | some ab =>
          simp only [] at h
          obtain ⟨a, _, ha⟩ := bind_ok_inv h
          simp at ha; exact ha.2.symm
    | cons p rest ih =>
      intro alt g o e' h
      cases g with
      | zero => simp [evalElseIfs] at h
      | succ g =>
        obtain ⟨ce, body⟩ := p
        rw [evalElseIfs_cons] at h
        obtain ⟨v, _, hv⟩ := bind_ok_inv h
        split at hv
        · obtain ⟨a, _, ha⟩ := bind_ok_inv hv
          simp at ha; exact ha.2.symm
        · exact ih alt g o e' hv
  rw [evalStmt_succ] at h
  cases s with
  | ifS t cnd cons alts alt =>
    simp only [stmtBody, calleesAt_expr, calleesAt_block, calleesAt_elseIfs] at h
    obtain ⟨v, _, hv⟩ := bind_ok_inv h
    split at hv
    · obtain ⟨a, _, ha⟩ := bind_ok_inv hv
      simp at ha; exact ha.2.symm
    · exact elseIfs_env alts alt f o env' hv
  | forS t init cnd post body alt =>
    simp only [stmtBody] at h
    obtain ⟨env1, _, h1⟩ := bind_ok_inv h
    obtain ⟨entry, _, h2⟩ := bind_ok_inv h1
    split at h2
    · obtain ⟨a, _, ha⟩ := bind_ok_inv h2
      simp at ha; exact ha.2.symm
    · cases alt with
      | none => simp at h2; exact h2.2.symm
      | some ab =>
        simp only [] at h2
        obtain ⟨a, _, ha⟩ := bind_ok_inv h2
        simp at ha; exact ha.2.symm
  | eachS t var arrE body alt =>
    simp only [stmtBody] at h
    obtain ⟨av, _, h1⟩ := bind_ok_inv h
    cases av with
    | arr xs =>
      simp only [] at h1
      split at h1
      · cases alt with
        | none => simp at h1; exact h1.2.symm
        | some ab =>
          simp only [] at h1
          obtain ⟨a, _, ha⟩ := bind_ok_inv h1
          simp at ha; exact ha.2.symm
      · obtain ⟨a, _, ha⟩ := bind_ok_inv h1
        simp at ha; exact ha.2.symm
    | _ => simp at h1
  | component t name arg cid =>
    simp only [stmtBody] at h
    split at h
    · simp at h
    · obtain ⟨kvs, _, h1⟩ := bind_ok_inv h
      obtain ⟨e1, _, h2⟩ := bind_ok_inv h1
      obtain ⟨a, _, ha⟩ := bind_ok_inv h2
      simp at ha; exact ha.2.symm
  | _ => simp at hs

/-- the loop variable is bound with `Set`: an element whose type differs from a visible variable
    of that name fails the render (it never retypes the variable) -/
theorem each_variable_type_mismatch (env : Env) (var : Bytes) (old x : Val) (line : Nat) (hk : var ≠ b "loop")
    (hget : env.get var = some old) (hty : old.type ≠ x.type) :
    setVar env var x line = .err "ErrVariableTypeMismatch" line [var, old.typeName, x.typeName] := by
  simp [setVar, type_change_is_refused env var old x hk hget hty]

/-! ### end-to-end instances -/

example : (match evaluateStringPure [] (b "{{ x = 1 }}@if(true){{ x = 2 }}{{ y = 5 }}{{ x }}@end{{ x }}") [] with
    | .ok out => out == b "21" | _ => false) = true := by decide +kernel

example : (match evaluateStringPure [] (b "{{ x = 1 }}@if(true){{ x = \"s\" }}@end") [] with
    | .fail f => f.msg == formatMsg "ErrVariableTypeMismatch" [b "x", b "INTEGER", b "STRING"] | _ => false) = true := by
  decide +kernel

example : (match evaluateStringPure [] (b "@each(v in [1])x@end{{ v }}") [] with
    | .fail f => f.msg == formatMsg "ErrIdentifierNotFound" [b "v"] | _ => false) = true := by decide +kernel

/-! ### from the source bytes: names bound by a construct vanish when it ends -/

/-- the passes of a loop whose body is `{{ x }}`: the elements, printed one after the other -/
theorem passTexts_var (env : Env) (x : Bytes) (hx : (x == b "loop") = false) (n : Nat) : ∀ (vs : List Val) (i : Nat),
    passTexts env x [.hole x] n vs i = vs.flatMap Val.toStr
  | [], _ => rfl
  | v :: r, i => by
    have hg : (passEnv env x v i n).get x = some v := by
      simp [passEnv, Env.get, mapGet]
    simp only [passTexts, fill, hg, Option.map_some, Option.getD_some, List.append_nil, List.flatMap_cons]
    rw [passTexts_var env x hx n r (i + 1)]

/-- **the loop variable is gone after the loop (from the source bytes)**: the template
    `@each(x in xs){{ x }}@end{{ x }}` — for every identifier `x` other than `loop`, every
    identifier `xs`, every array of elements of one type bound to `xs` and every value of that type
    bound to `x` outside — renders the elements and then the OUTER value of `x`: inside the loop
    `x` is the element (it shadows the outer binding), after `@end` the outer binding is back, not
    the last element.  An instance of `xitems_render` (lexer, parser and evaluator composed). -/
theorem loop_variable_is_gone_after_the_loop_from_source (custom : List ((VType × Bytes) × Nat)) (x xs : Bytes)
    (hx : isName x) (hxs : isName xs) (hxl : (x == b "loop") = false)
    (data : List (Bytes × GoVal)) (env : Env) (henv : envFromMap data = .ok env)
    (vs : List Val) (ty : VType) (outer : Val) (harr : env.get xs = some (.arr vs)) (hty : ∀ v ∈ vs, v.type = ty)
    (hout : env.get x = some outer) (houtty : outer.type = ty) (hsize : vs.length + 12 ≤ evalFuel) :
    evaluateStringPure custom (b "@each(" ++ x ++ b " in " ++ xs ++ b "){{" ++ x ++ b "}}@end{{" ++ x ++ b "}}") data =
      .ok (vs.flatMap Val.toStr ++ outer.toStr) := by
  have hok : XItemsOK [.each [] x [32] [32] xs [] [.print [] x []], .print [] x []] := by
    refine ⟨(fun _ h => by cases h), by decide, by decide, by decide, by decide, (fun _ h => by cases h), hx, hxs, ⟨(fun _ h => by cases h), (fun _ h => by cases h), hx, trivial⟩,
      (fun _ h => by cases h), (fun _ h => by cases h), hx, trivial⟩
  have hb : xbound env (xspec [.each [] x [32] [32] xs [] [.print [] x []], .print [] x []]) := by
    refine ⟨⟨vs, ty, harr, hty, fun old ho => ?_⟩, hxl, ⟨Or.inl rfl, trivial⟩, by simp [hout], trivial⟩
    rw [hout] at ho
    cases ho
    exact houtty
  have h := xitems_render custom [.each [] x [32] [32] xs [] [.print [] x []], .print [] x []] hok data env henv hb (by
    have harr' : arrOf env xs = vs := by simp [arrOf, harr]
    simp [xneed, xspec, bpieces, harr']
    omega)
  have hsrc : xitemsSrc [.each [] x [32] [32] xs [] [.print [] x []], .print [] x []] =
      b "@each(" ++ x ++ b " in " ++ xs ++ b "){{" ++ x ++ b "}}@end{{" ++ x ++ b "}}" := by
    have e1 : b "@each(" = kwEach ++ [40] := by decide
    have e2 : b " in " = [32] ++ kwIn ++ [32] := by decide
    have e3 : b "){{" = [41, 123, 123] := by decide
    have e4 : b "}}@end{{" = [125, 125] ++ kwEnd ++ [123, 123] := by decide
    have e5 : b "}}" = [125, 125] := by decide
    rw [e1, e2, e3, e4, e5]
    simp [xitemsSrc, XItem.src, bodySrc, BItem.src, List.append_assoc]
  have hren : xrender env (xspec [.each [] x [32] [32] xs [] [.print [] x []], .print [] x []]) = vs.flatMap Val.toStr ++ outer.toStr := by
    have harr' : arrOf env xs = vs := by simp [arrOf, harr]
    simp only [xspec, xrender, bpieces, harr', hout, Option.map_some, Option.getD_some, List.append_nil]
    rw [passTexts_var env x hxl]
  rw [hsrc, hren] at h
  exact h

example : evaluateStringPure [] (b "@each(v in xs){{v}}@end{{v}}") [(b "v", .str (b "outer")), (b "xs", .slice [.str (b "a"), .str (b "b")])] =
    .ok (b "abouter") := by
  have := loop_variable_is_gone_after_the_loop_from_source [] (b "v") (b "xs") (by decide) (by decide) (by decide)
    [(b "v", .str (b "outer")), (b "xs", .slice [.str (b "a"), .str (b "b")])]
    [[(b "v", .str (b "outer")), (b "xs", .arr [.str (b "a"), .str (b "b")])]] (by rfl)
    [.str (b "a"), .str (b "b")] .STRING (.str (b "outer")) (by rfl) (by decide) (by rfl) rfl (by decide)
  have hs : b "@each(" ++ b "v" ++ b " in " ++ b "xs" ++ b "){{" ++ b "v" ++ b "}}@end{{" ++ b "v" ++ b "}}" = b "@each(v in xs){{v}}@end{{v}}" := by decide
  have ho : [Val.str (b "a"), Val.str (b "b")].flatMap Val.toStr ++ (Val.str (b "outer")).toStr = b "abouter" := by decide
  rw [hs, ho] at this
  exact this

/-! ### from the source bytes: assignments and `@if` blocks -/

/-- **scopes, from the source bytes**: for every template of text runs, `{{ name }}`,
    `{{ name = "text" }}` and `@if(name) body @end` blocks whose bodies are plain text, prints and
    assignments (any white space inside the braces and parentheses), and every data map, the render is
    `(seval env items).1`: a print shows the value visible where it stands — the innermost binding,
    also one made earlier in the same block or outside it —, an assignment writes the escaped
    literal into the innermost scope, and an `@if` block evaluates its body in a NEW scope: whatever
    it assigns, the environment of what follows `@end` is the one before `@if` (`seval_ifb_env`).
    Lexer (`lex_assign`, `lexRun_abody`, `ifbCode_ok`), parser (`parse_assign_stmt`, the "}}" left
    over by an assignment is skipped: `parseBlock_aitems`, `loop_stmt_rbraces`; `parse_ifb_stmt`) and
    evaluator (`evalStmt_assign_str`, `evalBlock_abody`, `evalProg_sitems`) composed. -/
theorem scoped_template_renders_from_source (custom : List ((VType × Bytes) × Nat)) (items : List SItem) (hok : SItemsOK items)
    (data : List (Bytes × GoVal)) (env : Env) (henv : envFromMap data = .ok env) (hb : sbound env items)
    (hsize : sneed items ≤ evalFuel) :
    evaluateStringPure custom (scopeSrc items) data = .ok (seval env items).1 := by
  obtain ⟨prog, hp, hm⟩ := parse_sitems items hok
  unfold evaluateStringPure envOrFail
  rw [hp]
  simp only [henv]
  rw [evalProg_sitems _ prog.stmts items hm env evalFuel [] hb hsize]
  simp [resToOut]

/-- **an assignment inside a block does not leak**: the template
    `{{x="a"}}@if(c){{x="b"}}{{x}}@end{{x}}` — for every identifier `x` other than `loop` that the
    data does not bind to a non-string, and every bound identifier `c` different from `x` — renders `b`
    (inside the block, when `c` is truthy) and then `a`: after `@end` the enclosing block sees its own
    value of `x` again, whether the nested block ran or not -/
theorem nested_assignment_does_not_leak_from_source (custom : List ((VType × Bytes) × Nat)) (x c : Bytes) (hx : isName x) (hc : isName c)
    (hxl : (x == b "loop") = false) (hxc : (x == c) = false)
    (data : List (Bytes × GoVal)) (s : List (Bytes × Val)) (o : Env) (henv : envFromMap data = .ok (s :: o))
    (hty : ∀ old, Env.get (s :: o) x = some old → old.type = .STRING) (cv : Val) (hcv : Env.get (s :: o) c = some cv) :
    evaluateStringPure custom (scopeSrc [.assign [] x [] [] 34 (b "a") [], .ifb [] c [] [.assign [] x [] [] 34 (b "b") [], .print [] x []], .print [] x []]) data =
      .ok ((if isTruthy cv then b "b" else []) ++ b "a") := by
  have hwn : allWs [] := fun _ h => by cases h
  have hok : SItemsOK [.assign [] x [] [] 34 (b "a") [], .ifb [] c [] [.assign [] x [] [] 34 (b "b") [], .print [] x []], .print [] x []] :=
    ⟨hwn, hwn, hwn, hwn, hx, Or.inl rfl, by decide, hwn, hwn, hc, ⟨hwn, hwn, hwn, hwn, hx, Or.inl rfl, by decide, hwn, hwn, hx, trivial⟩,
      hwn, hwn, hx, trivial⟩
  -- after the first assignment
  have hgx : Env.get (mapSet s x (.str (literalValue (b "a"))) :: o) x = some (.str (literalValue (b "a"))) := by
    simp [Env.get, mapGet_set_same]
  have hgc : Env.get (mapSet s x (.str (literalValue (b "a"))) :: o) c = some cv := by
    have hne : c ≠ x := by intro e; rw [e] at hxc; simp at hxc
    simpa [Env.get, mapGet_set_other _ _ _ _ hne] using hcv
  have hb : sbound (s :: o) [.assign [] x [] [] 34 (b "a") [], .ifb [] c [] [.assign [] x [] [] 34 (b "b") [], .print [] x []], .print [] x []] := by
    refine ⟨hxl, hty, ?_, ?_, ?_, trivial⟩
    · show (Env.get (mapSet s x _ :: o) c).isSome = true
      rw [hgc]; rfl
    · intro _
      refine ⟨hxl, ?_, ?_, trivial⟩
      · intro old ho
        have : Env.get (Env.push (mapSet s x (.str (literalValue (b "a"))) :: o)) x = some (.str (literalValue (b "a"))) := by
          rw [env_push_get]; exact hgx
        rw [show setTop (s :: o) x (.str (literalValue (b "a"))) = mapSet s x (.str (literalValue (b "a"))) :: o from rfl] at ho
        rw [this] at ho
        cases ho; rfl
      · show (Env.get (setTop (Env.push (setTop (s :: o) x _)) x _) x).isSome = true
        simp [setTop, Env.push, Env.get, mapSet, mapGet]
    · show (Env.get (mapSet s x _ :: o) x).isSome = true
      rw [hgx]; rfl
  have h := scoped_template_renders_from_source custom _ hok data (s :: o) henv hb (by simp [sneed, evalFuel])
  rw [h]
  -- the render
  have hin : Env.get (setTop (Env.push (mapSet s x (.str (literalValue (b "a"))) :: o)) x (.str (literalValue (b "b")))) x =
      some (.str (literalValue (b "b"))) := by
    simp [setTop, Env.push, Env.get, mapSet, mapGet]
  have hst : setTop (s :: o) x (Val.str (literalValue (b "a"))) = mapSet s x (.str (literalValue (b "a"))) :: o := rfl
  simp only [seval, aeval, hst, truthyOf, hgc, hgx, hin, Option.map_some, Option.getD_some, List.append_nil, Val.toStr]
  have ea : literalValue (b "a") = b "a" := by decide
  have eb : literalValue (b "b") = b "b" := by decide
  rw [ea, eb]

example : evaluateStringPure [] (b "{{x=\"a\"}}@if(c){{x=\"b\"}}{{x}}@end{{x}}") [(b "c", .bool true)] = .ok (b "ba") := by
  have := nested_assignment_does_not_leak_from_source [] (b "x") (b "c") (by decide) (by decide) (by decide) (by decide)
    [(b "c", .bool true)] [(b "c", .bool true)] [] (by rfl) (fun old h => by
      have : Env.get [[(b "c", Val.bool true)]] (b "x") = none := by decide
      rw [this] at h; cases h) (.bool true) (by rfl)
  have hs : scopeSrc [.assign [] (b "x") [] [] 34 (b "a") [], .ifb [] (b "c") [] [.assign [] (b "x") [] [] 34 (b "b") [], .print [] (b "x") []], .print [] (b "x") []] =
      b "{{x=\"a\"}}@if(c){{x=\"b\"}}{{x}}@end{{x}}" := by decide
  rw [hs] at this
  exact this

/-! ### type stability against the data, from the source bytes -/

/-- **an assignment cannot change the type of a variable, from the source bytes on**: `{{ k = d }}` — a
    name other than `loop`, a decimal number, any white space around every token — fails with the
    type-mismatch error that names the variable, the type it has and `INTEGER`, whenever `k` is bound
    (in the data, say) to a value of another type.  Lexer (`lex_assign_int`), parser
    (`parse_assign_int_stmt`, `loop_stmt_rbraces`) and evaluator (`Env.set`) composed. -/
theorem assignment_of_another_type_is_refused_from_source (custom : List ((VType × Bytes) × Nat)) (data : List (Bytes × GoVal)) (env : Env)
    (h : envFromMap data = .ok env) (k : Bytes) (hk : isName k) (hloop : (k == b "loop") = false) (old : Val) (hget : env.get k = some old)
    (hty : (old.type != VType.INTEGER) = true) (d : Bytes) (hd : isDigits d) (hb : digitsToNat d < 2 ^ 63)
    (g1 g2 g3 g4 : Bytes) (hg1 : allWs g1) (hg2 : allWs g2) (hg3 : allWs g3) (hg4 : allWs g4) :
    ∃ line, evaluateStringPure custom (assignIntSrc g1 k g2 g3 d g4) data =
      .fail (failOf "ErrVariableTypeMismatch" line [k, old.typeName, b "INTEGER"] []) := by
  obtain ⟨prog, t2, t4, hp, hs⟩ := parse_assign_int_source g1 k g2 g3 d g4 hg1 hg2 hg3 hg4 hk hd (by omega)
  refine ⟨t2.errorLine, ?_⟩
  unfold evaluateStringPure envOrFail
  rw [hp]
  simp only [h, hs]
  rw [show evalFuel = (evalFuel - 4) + 1 + 1 + 1 + 1 from by decide, evalProg_cons, evalStmt_succ]
  simp only [stmtBody, calleesAt_expr]
  have hvt : (Val.int (Int64.ofNat (digitsToNat d))).type = VType.INTEGER := rfl
  have hvn : (Val.int (Int64.ofNat (digitsToNat d))).typeName = b "INTEGER" := rfl
  simp only [evalExpr, Res.bind_ok, setVar, Env.set, hloop, Bool.false_eq_true, if_false, hget, hvt, hvn, hty, if_true]
  simp [Res.bind, resToOut]

/-- … and an assignment of the same type, or to a name that is not bound yet, is accepted and prints nothing -/
theorem assignment_of_the_same_type_is_accepted_from_source (custom : List ((VType × Bytes) × Nat)) (data : List (Bytes × GoVal)) (env : Env)
    (h : envFromMap data = .ok env) (k : Bytes) (hk : isName k) (hloop : (k == b "loop") = false)
    (hget : env.get k = none ∨ ∃ i, env.get k = some (.int i)) (d : Bytes) (hd : isDigits d) (hb : digitsToNat d < 2 ^ 63)
    (g1 g2 g3 g4 : Bytes) (hg1 : allWs g1) (hg2 : allWs g2) (hg3 : allWs g3) (hg4 : allWs g4) :
    evaluateStringPure custom (assignIntSrc g1 k g2 g3 d g4) data = .ok [] := by
  obtain ⟨prog, t2, t4, hp, hs⟩ := parse_assign_int_source g1 k g2 g3 d g4 hg1 hg2 hg3 hg4 hk hd (by omega)
  unfold evaluateStringPure envOrFail
  rw [hp]
  simp only [h, hs]
  rw [show evalFuel = (evalFuel - 4) + 1 + 1 + 1 + 1 from by decide, evalProg_cons, evalStmt_succ]
  simp only [stmtBody, calleesAt_expr]
  rcases hget with hn | ⟨i, hi⟩
  · simp only [evalExpr, Res.bind_ok, setVar, Env.set, hloop, Bool.false_eq_true, if_false, hn]
    rw [evalProg_nil]
    simp [resToOut]
  · simp only [evalExpr, Res.bind_ok, setVar, Env.set, hloop, Bool.false_eq_true, if_false, hi, Val.type,
      show (VType.INTEGER != VType.INTEGER) = false from by decide]
    rw [evalProg_nil]
    simp [resToOut]

example : ∃ line, evaluateStringPure [] (b "{{ name = 5 }}") [(b "name", .str (b "Ann"))] =
    .fail (failOf "ErrVariableTypeMismatch" line [b "name", b "STRING", b "INTEGER"] []) :=
  assignment_of_another_type_is_refused_from_source [] [(b "name", .str (b "Ann"))] [[(b "name", .str (b "Ann"))]] (by rfl) (b "name") (by decide)
    (by decide) (.str (b "Ann")) (by rfl) (by decide) (b "5") (by decide) (by decide) [32] [32] [32] [32] (by decide) (by decide) (by decide) (by decide)

/-- **the right-hand side of an assignment is a complete expression, and the assigned value is what a
    later print shows, from the source bytes on** (C01's clause on assignments, C04's on visibility):
    `{{ n = a op b }}{{ n }}` — a name that is not bound yet and is not `loop`, two integer literals, any
    of the five arithmetic operators, any white space — renders the value of `a op b`: the assignment
    takes the whole expression, prints nothing itself, and the print after it sees the new binding. -/
theorem assigned_expression_is_visible_from_source (custom : List ((VType × Bytes) × Nat)) (data : List (Bytes × GoVal)) (env : Env)
    (h : envFromMap data = .ok env) (n : Bytes) (hn : isName n) (hloop : (n == b "loop") = false) (hget : env.get n = none)
    (a b' : Bytes) (ha : isDigits a) (hbd : isDigits b') (hba : digitsToNat a < 2 ^ 63) (hbb : digitsToNat b' < 2 ^ 63)
    (c : Byte) (ty : TT) (pr : Nat) (hop : ArithOp c ty pr)
    (g1 g2 g3 g4 g5 g6 h1 h2 : Bytes) (hg1 : allWs g1) (hg2 : allWs g2) (hg3 : allWs g3) (hg4 : allWs g4) (hg5 : allWs g5) (hg6 : allWs g6)
    (hh1 : allWs h1) (hh2 : allWs h2) (v : Val)
    (hv : ∀ line, intInfix [c] (Int64.ofNat (digitsToNat a)) (Int64.ofNat (digitsToNat b')) line = .ok v) :
    evaluateStringPure custom (assignExprSrc g1 n g2 g3 a g4 c g5 b' g6 ++ ([123, 123] ++ h1 ++ n ++ h2 ++ [125, 125])) data = .ok v.toStr := by
  obtain ⟨prog, t2, t4, t5, t6, t9, hp, hs⟩ := parse_assignExpr_source g1 n g2 g3 a g4 c ty pr g5 b' g6 h1 h2 hg1 hg2 hg3 hg4 hg5 hg6 hh1 hh2
    hn ha hbd hop (by omega) (by omega)
  -- the environment after the assignment
  have hset : ∃ env', env.set n v = .ok env' := by
    unfold Env.set
    simp only [hloop, Bool.false_eq_true, if_false, hget]
    exact ⟨_, rfl⟩
  obtain ⟨env', hs'⟩ := hset
  have hget' : env'.get n = some v := get_after_set env n v env' hs'
  unfold evaluateStringPure envOrFail
  rw [hp]
  simp only [h, hs]
  rw [show evalFuel = (evalFuel - 7) + 1 + 1 + 1 + 1 + 1 + 1 + 1 from by decide, evalProg_cons, evalStmt_succ]
  simp only [stmtBody, calleesAt_expr]
  simp only [evalExpr, infixOp, Val.type, hv, show (VType.INTEGER != VType.INTEGER) = false from by decide, Bool.false_eq_true, if_false,
    Res.bind_ok, setVar, hs']
  rw [evalProg_cons, evalStmt_succ]
  simp only [stmtBody, calleesAt_expr]
  simp only [evalExpr, hget', Res.bind_ok]
  rw [evalProg_nil]
  simp [resToOut]

example : evaluateStringPure [] (b "{{ x = 2 * 21 }}{{ x }}") [] = .ok (b "42") := by
  have := assigned_expression_is_visible_from_source [] [] [[]] (by rfl) (b "x") (by decide) (by decide) (by rfl)
    (b "2") (b "21") (by decide) (by decide) (by decide) (by decide) 42 .MUL PRODUCT (Or.inl ⟨Or.inl ⟨rfl, rfl⟩, rfl⟩)
    [32] [32] [32] [32] [32] [32] [32] [32] (by decide) (by decide) (by decide) (by decide) (by decide) (by decide) (by decide) (by decide)
    (.int 42) (fun _ => by rfl)
  have hs : assignExprSrc [32] (b "x") [32] [32] (b "2") [32] 42 [32] (b "21") [32] ++ ([123, 123] ++ [32] ++ b "x" ++ [32] ++ [125, 125]) =
      b "{{ x = 2 * 21 }}{{ x }}" := by decide
  rw [hs] at this
  rw [this]; rfl

end Tw.C04
