/-
  TwProofs.C04 — property theorems (see DESIGN.md, section 6).
-/
import TwModel
import TwSpec

namespace Tw.C04
open Tw

end Tw.C04
