/-
  TwProofs.C17 — Response writes the page or one error page, and leaks no detail unless debugging.
-/
import TwModel
import TwProofs.Lemmas.EvalStep

namespace Tw.C17
open Tw

/-- rendering succeeds ⇒ the body is the complete page and the returned error is nil -/
theorem response_success (w : World) (t : Template) (name : Bytes) (data : List (Bytes × GoVal)) (cwd out : Bytes)
    (h : tplString w t name data = .ok out) :
    (tplResponse w t name data cwd).2.body = out ∧ (tplResponse w t name data cwd).2.err = none := by
  simp [tplResponse, h]

/-- rendering fails, a custom error page is configured and debug mode is off ⇒ the body is that
    page's output (or empty when it fails too) and an error is returned: nothing else can appear -/
theorem response_custom_page (w : World) (t : Template) (name : Bytes) (data : List (Bytes × GoVal)) (cwd : Bytes) (f : Fail)
    (h : tplString w t name data = .fail f) (hpage : w.cfg.errPage.isEmpty = false) (hdbg : w.cfg.debug = false) :
    (∃ out, tplString w t w.cfg.errPage [] = .ok out ∧ (tplResponse w t name data cwd).2.body = out ∧
        (tplResponse w t name data cwd).2.err = some f) ∨
    ((tplResponse w t name data cwd).2.body = []) := by
  simp only [tplResponse, h, hpage, hdbg]
  cases hp : tplString w t w.cfg.errPage [] with
  | ok out => left; exact ⟨out, rfl, by simp, by simp⟩
  | fail f2 => right; simp
  | panic why => right; simp
  | oof => right; simp

/-- otherwise the body is the built-in error page rendered for (path, line, message, debugMode):
    a function of the configuration and of the error only — never of the failed page's output -/
theorem response_builtin_page (w : World) (t : Template) (name : Bytes) (data : List (Bytes × GoVal)) (cwd : Bytes) (f : Fail)
    (h : tplString w t name data = .fail f) (hsel : (!w.cfg.errPage.isEmpty && !w.cfg.debug) = false) (out : Bytes)
    (hpage : (errorPage w f cwd).2 = .ok out) :
    (tplResponse w t name data cwd).2.body = out ∧ (tplResponse w t name data cwd).2.err = some f := by
  simp only [tplResponse, h, hsel]
  cases hp : errorPage w f cwd with
  | mk w' r =>
    rw [hp] at hpage
    simp only at hpage
    subst hpage
    simp

/-! ### the built-in page shows nothing when debug mode is off

  The regenerated page (`Gen.defaultErrorPage`, F8) is parsed by kernel evaluation.  Its shape —
  text, and `@if(debugMode)` blocks whose `@else` parts are text only — is checked by
  `decide +kernel`; for every program of that shape, evaluation with `debugMode = false` yields a
  fixed text, whatever `path`, `line` and `message` are bound to. -/

def onlyText : List Stmt → Bool
  | [] => true
  | .html _ :: r => onlyText r
  | _ => false

def textOf : List Stmt → Bytes
  | [] => []
  | .html t :: r => t.lit ++ textOf r
  | _ :: r => textOf r

/-- every statement is text or `@if(debugMode) … [@else text] @end` -/
def debugGuarded : List Stmt → Bool
  | [] => true
  | .html _ :: r => debugGuarded r
  | .ifS _ (.ident _ n) _ [] none :: r => n == b "debugMode" && debugGuarded r
  | .ifS _ (.ident _ n) _ [] (some alt) :: r => n == b "debugMode" && onlyText alt && debugGuarded r
  | _ => false

/-- what such a program renders when `debugMode` is false -/
def quietText : List Stmt → Bytes
  | [] => []
  | .html t :: r => t.lit ++ quietText r
  | .ifS _ _ _ _ (some alt) :: r => textOf alt ++ quietText r
  | _ :: r => quietText r

theorem evalBlock_onlyText (c : Ctx) (env : Env) : ∀ (ss : List Stmt) (fuel : Nat), onlyText ss = true →
    ss.length + 1 ≤ fuel → evalBlock (fuel + 1) c env ss = .ok ({ text := textOf ss }, env) := by
  intro ss
  induction ss with
  | nil => intro fuel _ _; rw [evalBlock_nil]; simp [textOf]
  | cons s r ih =>
    intro fuel hs hf
    cases s with
    | html t =>
      obtain ⟨f, rfl⟩ : ∃ f, fuel = f + 1 := ⟨fuel - 1, by simp at hf; omega⟩
      have := ih f (by simpa [onlyText] using hs) (by simp at hf; omega)
      rw [evalBlock_cons, evalStmt_html]
      simp only [Res.bind_ok, Bool.false_eq_true, Bool.or_self, if_false, this, textOf]
    | _ => simp [onlyText] at hs

theorem stmtsDepth_le (ss : List Stmt) : True := trivial

/-- size used for the fuel bound: the longest `@else` part -/
def maxAlt : List Stmt → Nat
  | [] => 0
  | .ifS _ _ _ _ (some alt) :: r => max alt.length (maxAlt r)
  | _ :: r => maxAlt r

theorem evalProg_quiet (c : Ctx) (env : Env) (hdbg : env.get (b "debugMode") = some (.bool false)) :
    ∀ (ss : List Stmt) (fuel : Nat) (acc : Bytes), debugGuarded ss = true → ss.length + maxAlt ss + 4 ≤ fuel →
    evalProg fuel c env ss acc = .ok (acc ++ quietText ss, env) := by
  intro ss
  induction ss with
  | nil => intro fuel acc _ hf; obtain ⟨f, rfl⟩ : ∃ f, fuel = f + 1 := ⟨fuel - 1, by omega⟩; rw [evalProg_nil]; simp [quietText]
  | cons s r ih =>
    intro fuel acc hs hf
    obtain ⟨f, rfl⟩ : ∃ f, fuel = f + 3 := ⟨fuel - 3, by omega⟩
    cases s with
    | html t =>
      have hr : debugGuarded r = true := by simpa [debugGuarded] using hs
      have := ih (f + 2) (acc ++ t.lit) hr (by simp [maxAlt] at hf ⊢; omega)
      rw [show f + 3 = (f + 2) + 1 from rfl, evalProg_cons, show f + 2 = (f + 1) + 1 from rfl, evalStmt_html, Res.bind_ok]
      rw [show f + 1 + 1 = f + 2 from rfl, this]
      simp [quietText, List.append_assoc]
    | ifS t cnd cons alts alt =>
      cases cnd with
      | ident t2 n =>
        cases alts with
        | cons a as => simp [debugGuarded] at hs
        | nil =>
          cases alt with
          | none =>
            have hs' : n = b "debugMode" ∧ debugGuarded r = true := by simpa [debugGuarded] using hs
            obtain ⟨hn, hr⟩ := hs'
            subst hn
            have := ih (f + 2) acc hr (by simp [maxAlt] at hf ⊢; omega)
            rw [show f + 3 = (f + 2) + 1 from rfl, evalProg_cons, show f + 2 = (f + 1) + 1 from rfl, evalStmt_ifS]
            obtain ⟨g, hg⟩ : ∃ g, f = g + 1 := ⟨f - 1, by simp [maxAlt] at hf; omega⟩
            subst hg
            rw [evalElseIfs_nil]
            simp only [evalExpr, hdbg, Res.bind_ok, isTruthy, Bool.false_eq_true, if_false]
            simpa [quietText] using this
          | some ab =>
            have hs' : (n = b "debugMode" ∧ onlyText ab = true) ∧ debugGuarded r = true := by simpa [debugGuarded] using hs
            obtain ⟨⟨hn, hot⟩, hr⟩ := hs'
            subst hn
            have hrest := ih (f + 2) (acc ++ textOf ab) hr (by simp [maxAlt] at hf ⊢; omega)
            have hblk := evalBlock_onlyText c env.push ab (f - 1 + 0) hot (by simp [maxAlt] at hf; omega)
            rw [show f + 3 = (f + 2) + 1 from rfl, evalProg_cons, show f + 2 = (f + 1) + 1 from rfl, evalStmt_ifS]
            obtain ⟨g, hg⟩ : ∃ g, f = g + 1 := ⟨f - 1, by simp [maxAlt] at hf; omega⟩
            subst hg
            rw [evalElseIfs_nil]
            simp only [evalExpr, hdbg, Res.bind_ok, isTruthy, Bool.false_eq_true, if_false]
            simp only [Nat.add_sub_cancel, Nat.add_zero] at hblk
            rw [hblk]
            simpa [quietText, List.append_assoc] using hrest
      | _ => simp [debugGuarded] at hs
    | _ => simp [debugGuarded] at hs

/-- the program of the regenerated built-in error page -/
def errorPageProg : Program :=
  match parseSource Gen.defaultErrorPage with
  | .ok p => p
  | _ => default

set_option maxRecDepth 100000 in
/-- F8 obligation: the embedded page parses, and has the guarded shape -/
theorem errorPage_shape :
    (match parseSource Gen.defaultErrorPage with | .ok _ => true | _ => false) = true ∧
    debugGuarded errorPageProg.stmts = true ∧
    errorPageProg.stmts.length + maxAlt errorPageProg.stmts + 4 ≤ evalFuel := by
  decide +kernel

/-- **no leak**: with debug mode off, the built-in error page renders to one fixed text — the
    same for every path, line and message of the error -/
theorem builtin_page_no_leak (c : Ctx) (path msg : Bytes) (line : Int) :
    evalProg evalFuel c [[(b "debugMode", .bool false), (b "line", .int (Int64.ofInt line)), (b "message", .str msg), (b "path", .str path)]]
      errorPageProg.stmts [] =
    .ok (quietText errorPageProg.stmts, [[(b "debugMode", .bool false), (b "line", .int (Int64.ofInt line)), (b "message", .str msg), (b "path", .str path)]]) := by
  have hget : Env.get [[(b "debugMode", Val.bool false), (b "line", .int (Int64.ofInt line)), (b "message", .str msg), (b "path", .str path)]]
      (b "debugMode") = some (.bool false) := by
    simp [Env.get, mapGet]
  have := evalProg_quiet c _ hget errorPageProg.stmts evalFuel [] errorPage_shape.2.1 errorPage_shape.2.2
  simpa using this

set_option maxRecDepth 100000 in
/-- the fixed text contains neither a template-path-like nor a message placeholder: it is the
    "Oops" page (checked on the regenerated page by kernel evaluation) -/
theorem quiet_page_is_oops :
    containsSub (quietText errorPageProg.stmts) (b "Oops!") = true ∧
    containsSub (quietText errorPageProg.stmts) (b "{{") = false := by
  decide +kernel

set_option maxRecDepth 100000 in
/-- with debug mode on the page shows message, path and line (`…_partial`: for one concrete
    error, by evaluation; the general statement needs the frame lemma of the design) -/
theorem debug_page_shows_partial :
    (match evaluateStringPure [] Gen.defaultErrorPage
        [(b "path", .str (b "/srv/tpl/home.tw")), (b "line", .int 7), (b "message", .str (b "identifier 'x' not found")), (b "debugMode", .bool true)] with
      | .ok out => containsSub out (b "/srv/tpl/home.tw:7") && containsSub out (b "identifier 'x' not found")
      | _ => false) = true := by
  decide +kernel

end Tw.C17
