/-
  TwProofs.C17 — property theorems (see DESIGN.md, section 6).
-/
import TwModel
import TwSpec

namespace Tw.C17
open Tw

end Tw.C17
