/-
  TwProofs.C17 — Response writes the page or one error page, and leaks no detail unless debugging.
-/
import TwModel
import TwProofs.Lemmas.EvalStep
import TwProofs.Lemmas.SimpleBlock

namespace Tw.C17
open Tw

/-- rendering succeeds ⇒ the body is the complete page and the returned error is nil -/
theorem response_success (w : World) (t : Template) (name : Bytes) (data : List (Bytes × GoVal)) (cwd out : Bytes)
    (h : tplString w t name data = .ok out) :
    (tplResponse w t name data cwd).2.body = out ∧ (tplResponse w t name data cwd).2.err = none := by
  simp [tplResponse, h]

/-- rendering fails, a custom error page is configured and debug mode is off ⇒ the body is that
    page's output (or empty when it fails too) and an error is returned: nothing else can appear -/
theorem response_custom_page (w : World) (t : Template) (name : Bytes) (data : List (Bytes × GoVal)) (cwd : Bytes) (f : Fail)
    (h : tplString w t name data = .fail f) (hpage : w.cfg.errPage.isEmpty = false) (hdbg : w.cfg.debug = false) :
    (∃ out, tplString w t w.cfg.errPage [] = .ok out ∧ (tplResponse w t name data cwd).2.body = out ∧
        (tplResponse w t name data cwd).2.err = some f) ∨
    ((tplResponse w t name data cwd).2.body = []) := by
  simp only [tplResponse, h, hpage, hdbg]
  cases hp : tplString w t w.cfg.errPage [] with
  | ok out => left; exact ⟨out, rfl, by simp, by simp⟩
  | fail f2 => right; simp
  | panic why => right; simp
  | oof => right; simp

/-- otherwise the body is the built-in error page rendered for (path, line, message, debugMode):
    a function of the configuration and of the error only — never of the failed page's output -/
theorem response_builtin_page (w : World) (t : Template) (name : Bytes) (data : List (Bytes × GoVal)) (cwd : Bytes) (f : Fail)
    (h : tplString w t name data = .fail f) (hsel : (!w.cfg.errPage.isEmpty && !w.cfg.debug) = false) (out : Bytes)
    (hpage : (errorPage w f cwd).2 = .ok out) :
    (tplResponse w t name data cwd).2.body = out ∧ (tplResponse w t name data cwd).2.err = some f := by
  simp only [tplResponse, h, hsel]
  cases hp : errorPage w f cwd with
  | mk w' r =>
    rw [hp] at hpage
    simp only at hpage
    subst hpage
    simp

/-! ### the built-in page shows nothing when debug mode is off

  The regenerated page (`Gen.defaultErrorPage`, F8) is parsed by kernel evaluation.  Its shape —
  text, and `@if(debugMode)` blocks whose `@else` parts are text only — is checked by
  `decide +kernel`; for every program of that shape, evaluation with `debugMode = false` yields a
  fixed text, whatever `path`, `line` and `message` are bound to. -/

def onlyText : List Stmt → Bool
  | [] => true
  | .html _ :: r => onlyText r
  | _ => false

def textOf : List Stmt → Bytes
  | [] => []
  | .html t :: r => t.lit ++ textOf r
  | _ :: r => textOf r

/-- every statement is text or `@if(debugMode) … [@else text] @end` -/
def debugGuarded : List Stmt → Bool
  | [] => true
  | .html _ :: r => debugGuarded r
  | .ifS _ (.ident _ n) _ [] none :: r => n == b "debugMode" && debugGuarded r
  | .ifS _ (.ident _ n) _ [] (some alt) :: r => n == b "debugMode" && onlyText alt && debugGuarded r
  | _ => false

/-- what such a program renders when `debugMode` is false -/
def quietText : List Stmt → Bytes
  | [] => []
  | .html t :: r => t.lit ++ quietText r
  | .ifS _ _ _ _ (some alt) :: r => textOf alt ++ quietText r
  | _ :: r => quietText r

theorem evalBlock_onlyText (c : Ctx) (env : Env) : ∀ (ss : List Stmt) (fuel : Nat), onlyText ss = true →
    ss.length + 1 ≤ fuel → evalBlock (fuel + 1) c env ss = .ok ({ text := textOf ss }, env) := by
  intro ss
  induction ss with
  | nil => intro fuel _ _; rw [evalBlock_nil]; simp [textOf]
  | cons s r ih =>
    intro fuel hs hf
    cases s with
    | html t =>
      obtain ⟨f, rfl⟩ : ∃ f, fuel = f + 1 := ⟨fuel - 1, by simp at hf; omega⟩
      have := ih f (by simpa [onlyText] using hs) (by simp at hf; omega)
      rw [evalBlock_cons, evalStmt_html]
      simp only [Res.bind_ok, Bool.false_eq_true, Bool.or_self, if_false, this, textOf]
    | _ => simp [onlyText] at hs

theorem stmtsDepth_le (ss : List Stmt) : True := trivial

/-- size used for the fuel bound: the longest `@else` part -/
def maxAlt : List Stmt → Nat
  | [] => 0
  | .ifS _ _ _ _ (some alt) :: r => max alt.length (maxAlt r)
  | _ :: r => maxAlt r

theorem evalProg_quiet (c : Ctx) (env : Env) (hdbg : env.get (b "debugMode") = some (.bool false)) :
    ∀ (ss : List Stmt) (fuel : Nat) (acc : Bytes), debugGuarded ss = true → ss.length + maxAlt ss + 4 ≤ fuel →
    evalProg fuel c env ss acc = .ok (acc ++ quietText ss, env) := by
  intro ss
  induction ss with
  | nil => intro fuel acc _ hf; obtain ⟨f, rfl⟩ : ∃ f, fuel = f + 1 := ⟨fuel - 1, by omega⟩; rw [evalProg_nil]; simp [quietText]
  | cons s r ih =>
    intro fuel acc hs hf
    obtain ⟨f, rfl⟩ : ∃ f, fuel = f + 3 := ⟨fuel - 3, by omega⟩
    cases s with
    | html t =>
      have hr : debugGuarded r = true := by simpa [debugGuarded] using hs
      have := ih (f + 2) (acc ++ t.lit) hr (by simp [maxAlt] at hf ⊢; omega)
      rw [show f + 3 = (f + 2) + 1 from rfl, evalProg_cons, show f + 2 = (f + 1) + 1 from rfl, evalStmt_html, Res.bind_ok]
      rw [show f + 1 + 1 = f + 2 from rfl, this]
      simp [quietText, List.append_assoc]
    | ifS t cnd cons alts alt =>
      cases cnd with
      | ident t2 n =>
        cases alts with
        | cons a as => simp [debugGuarded] at hs
        | nil =>
          cases alt with
          | none =>
            have hs' : n = b "debugMode" ∧ debugGuarded r = true := by simpa [debugGuarded] using hs
            obtain ⟨hn, hr⟩ := hs'
            subst hn
            have := ih (f + 2) acc hr (by simp [maxAlt] at hf ⊢; omega)
            rw [show f + 3 = (f + 2) + 1 from rfl, evalProg_cons, show f + 2 = (f + 1) + 1 from rfl, evalStmt_ifS]
            obtain ⟨g, hg⟩ : ∃ g, f = g + 1 := ⟨f - 1, by simp [maxAlt] at hf; omega⟩
            subst hg
            rw [evalElseIfs_nil]
            simp only [evalExpr, hdbg, Res.bind_ok, isTruthy, Bool.false_eq_true, if_false]
            simpa [quietText] using this
          | some ab =>
            have hs' : (n = b "debugMode" ∧ onlyText ab = true) ∧ debugGuarded r = true := by simpa [debugGuarded] using hs
            obtain ⟨⟨hn, hot⟩, hr⟩ := hs'
            subst hn
            have hrest := ih (f + 2) (acc ++ textOf ab) hr (by simp [maxAlt] at hf ⊢; omega)
            have hblk := evalBlock_onlyText c env.push ab (f - 1 + 0) hot (by simp [maxAlt] at hf; omega)
            rw [show f + 3 = (f + 2) + 1 from rfl, evalProg_cons, show f + 2 = (f + 1) + 1 from rfl, evalStmt_ifS]
            obtain ⟨g, hg⟩ : ∃ g, f = g + 1 := ⟨f - 1, by simp [maxAlt] at hf; omega⟩
            subst hg
            rw [evalElseIfs_nil]
            simp only [evalExpr, hdbg, Res.bind_ok, isTruthy, Bool.false_eq_true, if_false]
            simp only [Nat.add_sub_cancel, Nat.add_zero] at hblk
            rw [hblk]
            simpa [quietText, List.append_assoc] using hrest
      | _ => simp [debugGuarded] at hs
    | _ => simp [debugGuarded] at hs

/-- the program of the regenerated built-in error page -/
def errorPageProg : Program :=
  match parseSource Gen.defaultErrorPage with
  | .ok p => p
  | _ => default

set_option maxRecDepth 100000 in
/-- F8 obligation: the embedded page parses, and has the guarded shape -/
theorem errorPage_shape :
    (match parseSource Gen.defaultErrorPage with | .ok _ => true | _ => false) = true ∧
    debugGuarded errorPageProg.stmts = true ∧
    errorPageProg.stmts.length + maxAlt errorPageProg.stmts + 4 ≤ evalFuel := by
  decide +kernel

/-- **no leak**: with debug mode off, the built-in error page renders to one fixed text — the
    same for every path, line and message of the error -/
theorem builtin_page_no_leak (c : Ctx) (path msg : Bytes) (line : Int) :
    evalProg evalFuel c [[(b "debugMode", .bool false), (b "line", .int (Int64.ofInt line)), (b "message", .str msg), (b "path", .str path)]]
      errorPageProg.stmts [] =
    .ok (quietText errorPageProg.stmts, [[(b "debugMode", .bool false), (b "line", .int (Int64.ofInt line)), (b "message", .str msg), (b "path", .str path)]]) := by
  have hget : Env.get [[(b "debugMode", Val.bool false), (b "line", .int (Int64.ofInt line)), (b "message", .str msg), (b "path", .str path)]]
      (b "debugMode") = some (.bool false) := by
    simp [Env.get, mapGet]
  have := evalProg_quiet c _ hget errorPageProg.stmts evalFuel [] errorPage_shape.2.1 errorPage_shape.2.2
  simpa using this

set_option maxRecDepth 100000 in
/-- the fixed text contains neither a template-path-like nor a message placeholder: it is the
    "Oops" page (checked on the regenerated page by kernel evaluation) -/
theorem quiet_page_is_oops :
    containsSub (quietText errorPageProg.stmts) (b "Oops!") = true ∧
    containsSub (quietText errorPageProg.stmts) (b "{{") = false := by
  decide +kernel

/-! ### debug mode on: the page with its holes filled -/

/-- text, or `@if(debugMode)` with a branch of text and plain variables (and any `@else`) -/
def debugSimple : List Stmt → Bool
  | [] => true
  | .html _ :: r => debugSimple r
  | .ifS _ (.ident _ n) cons [] _ :: r => n == b "debugMode" && simpleBlock cons && debugSimple r
  | _ => false

/-- what such a program is when `debugMode` is true -/
def debugPieces : List Stmt → List Piece
  | [] => []
  | .html t :: r => .text t.lit :: debugPieces r
  | .ifS _ _ cons _ _ :: r => piecesOf cons ++ debugPieces r
  | _ :: r => debugPieces r

def maxCons : List Stmt → Nat
  | [] => 0
  | .ifS _ _ cons _ _ :: r => max cons.length (maxCons r)
  | _ :: r => maxCons r

/-- **debug mode on**: a program of the guarded shape renders to its text with the holes filled -/
theorem evalProg_debug (c : Ctx) (env : Env) (hdbg : env.get (b "debugMode") = some (.bool true)) :
    ∀ (ss : List Stmt) (fuel : Nat) (acc : Bytes), debugSimple ss = true → holesBound env (debugPieces ss) →
    ss.length + maxCons ss + 6 ≤ fuel →
    evalProg fuel c env ss acc = .ok (acc ++ fill env (debugPieces ss), env) := by
  intro ss
  induction ss with
  | nil => intro fuel acc _ _ hf; obtain ⟨f, rfl⟩ : ∃ f, fuel = f + 1 := ⟨fuel - 1, by omega⟩; rw [evalProg_nil]; simp [debugPieces, fill]
  | cons s r ih =>
    intro fuel acc hs hb hf
    obtain ⟨f, rfl⟩ : ∃ f, fuel = f + 3 := ⟨fuel - 3, by omega⟩
    cases s with
    | html t =>
      have hr : debugSimple r = true := by simpa [debugSimple] using hs
      have := ih (f + 2) (acc ++ t.lit) hr (by simpa [debugPieces, holesBound] using hb) (by simp [maxCons] at hf ⊢; omega)
      rw [show f + 3 = (f + 2) + 1 from rfl, evalProg_cons, show f + 2 = (f + 1) + 1 from rfl, evalStmt_html, Res.bind_ok]
      rw [show f + 1 + 1 = f + 2 from rfl, this]
      simp [debugPieces, fill, List.append_assoc]
    | ifS t cnd cons alts alt =>
      cases cnd with
      | ident t2 n =>
        cases alts with
        | cons a as => simp [debugSimple] at hs
        | nil =>
          have hs' : (n = b "debugMode" ∧ simpleBlock cons = true) ∧ debugSimple r = true := by simpa [debugSimple] using hs
          obtain ⟨⟨hn, hsb⟩, hr⟩ := hs'
          subst hn
          have hb' : holesBound env (piecesOf cons) ∧ holesBound env (debugPieces r) := by
            simpa [debugPieces, holesBound_append] using hb
          have hrest := ih (f + 2) (acc ++ fill env (piecesOf cons)) hr hb'.2 (by simp [maxCons] at hf ⊢; omega)
          obtain ⟨g, hg⟩ : ∃ g, f = g + 1 := ⟨f - 1, by simp [maxCons] at hf; omega⟩
          subst hg
          have hblk := evalBlock_simple c env.push cons (g + 1) hsb (holesBound_push env _ hb'.1) (by simp [maxCons] at hf; omega)
          rw [show g + 1 + 3 = (g + 1 + 2) + 1 from rfl, evalProg_cons, show g + 1 + 2 = (g + 1 + 1) + 1 from rfl, evalStmt_ifS]
          simp only [evalExpr, hdbg, Res.bind_ok, isTruthy, if_true]
          rw [hblk]
          simp only [Res.bind_ok, fill_push]
          rw [show g + 1 + 1 + 1 = g + 1 + 2 from rfl, hrest]
          simp [debugPieces, fill_append, List.append_assoc]
      | _ => simp [debugSimple] at hs
    | _ => simp [debugSimple] at hs

/-- the holes of the error page -/
def okHole : Piece → Bool
  | .text _ => true
  | .hole n => n == b "path" || n == b "line" || n == b "message"

/-- where the first occurrence of three consecutive pieces starts: the pieces before and after -/
def splitAt3 (x y z : Piece) : List Piece → Option (List Piece × List Piece)
  | a :: c :: d :: r =>
    if a = x ∧ c = y ∧ d = z then some ([], r)
    else (splitAt3 x y z (c :: d :: r)).map fun p => (a :: p.1, p.2)
  | _ => none

theorem splitAt3_sound (x y z : Piece) : ∀ (l pre post : List Piece), splitAt3 x y z l = some (pre, post) →
    l = pre ++ x :: y :: z :: post
  | [], _, _, h => by simp [splitAt3] at h
  | [_], _, _, h => by simp [splitAt3] at h
  | [_, _], _, _, h => by simp [splitAt3] at h
  | a :: c :: d :: r, pre, post, h => by
    simp only [splitAt3] at h
    split at h
    · rename_i he
      obtain ⟨h1, h2, h3⟩ := he
      cases h; subst h1 h2 h3; rfl
    · cases hs : splitAt3 x y z (c :: d :: r) with
      | none => simp [hs] at h
      | some p =>
        simp [hs] at h
        obtain ⟨h1, h2⟩ := h
        have := splitAt3_sound x y z (c :: d :: r) p.1 p.2 (by rw [hs])
        rw [this, ← h1, ← h2]; rfl

set_option maxRecDepth 100000 in
/-- F8 obligation for debug mode: the embedded page has the shape, its holes are `path`, `line`
    and `message` only, "path:line" and the message occur in it, and the fuel suffices -/
theorem errorPage_debug_shape :
    debugSimple errorPageProg.stmts = true ∧
    (debugPieces errorPageProg.stmts).all okHole = true ∧
    (splitAt3 (.hole (b "path")) (.text (b ":")) (.hole (b "line")) (debugPieces errorPageProg.stmts)).isSome = true ∧
    (debugPieces errorPageProg.stmts).contains (.hole (b "message")) = true ∧
    errorPageProg.stmts.length + maxCons errorPageProg.stmts + 6 ≤ evalFuel := by
  decide +kernel

/-- the environment `Response` renders the error page in -/
def errEnv (dbg : Bool) (path msg : Bytes) (line : Int) : Env :=
  [[(b "debugMode", .bool dbg), (b "line", .int (Int64.ofInt line)), (b "message", .str msg), (b "path", .str path)]]

theorem holesBound_of_names (env : Env) : ∀ ps : List Piece,
    ps.all okHole = true →
    (env.get (b "path")).isSome = true → (env.get (b "line")).isSome = true → (env.get (b "message")).isSome = true →
    holesBound env ps
  | [], _, _, _, _ => trivial
  | .text _ :: r, h, h1, h2, h3 => holesBound_of_names env r (by simpa [okHole] using h) h1 h2 h3
  | .hole n :: r, h, h1, h2, h3 => by
    simp only [List.all_cons, okHole, Bool.and_eq_true, Bool.or_eq_true, beq_iff_eq] at h
    refine ⟨?_, holesBound_of_names env r h.2 h1 h2 h3⟩
    rcases h.1 with (e | e) | e <;> subst e <;> assumption

attribute [local irreducible] errorPageProg debugPieces in
/-- **debug mode on, in general**: for every path, message and line the built-in error page is its
    fixed text with the holes filled — and "path:line" and the message are among the holes, so
    the body contains them -/
theorem builtin_page_debug (c : Ctx) (path msg : Bytes) (line : Int) :
    evalProg evalFuel c (errEnv true path msg line) errorPageProg.stmts [] =
      .ok (fill (errEnv true path msg line) (debugPieces errorPageProg.stmts), errEnv true path msg line) ∧
    (∃ pre post : Bytes, fill (errEnv true path msg line) (debugPieces errorPageProg.stmts) =
      pre ++ (path ++ b ":" ++ int64ToBytes (Int64.ofInt line)) ++ post) ∧
    (∃ pre post : Bytes, fill (errEnv true path msg line) (debugPieces errorPageProg.stmts) = pre ++ msg ++ post) := by
  obtain ⟨h1, h2, h3, h4, h5⟩ := errorPage_debug_shape
  have g1 : (errEnv true path msg line).get (b "debugMode") = some (.bool true) := by simp [errEnv, Env.get, mapGet]
  have g2 : (errEnv true path msg line).get (b "path") = some (.str path) := by
    simp only [errEnv, Env.get, mapGet]
    rw [if_neg (by decide), if_neg (by decide), if_neg (by decide), if_pos (by decide)]
  have g3 : (errEnv true path msg line).get (b "line") = some (.int (Int64.ofInt line)) := by
    simp only [errEnv, Env.get, mapGet]
    rw [if_neg (by decide), if_pos (by decide)]
  have g4 : (errEnv true path msg line).get (b "message") = some (.str msg) := by
    simp only [errEnv, Env.get, mapGet]
    rw [if_neg (by decide), if_neg (by decide), if_pos (by decide)]
  have hb := holesBound_of_names (errEnv true path msg line) (debugPieces errorPageProg.stmts) h2 (by rw [g2]; rfl) (by rw [g3]; rfl) (by rw [g4]; rfl)
  refine ⟨?_, ?_, ?_⟩
  · have := evalProg_debug c _ g1 errorPageProg.stmts evalFuel [] h1 hb h5
    simpa using this
  · obtain ⟨p, hp⟩ := Option.isSome_iff_exists.mp h3
    have := splitAt3_sound _ _ _ _ p.1 p.2 (by rw [hp])
    rw [this, fill_append]
    refine ⟨fill (errEnv true path msg line) p.1, fill (errEnv true path msg line) p.2, ?_⟩
    simp [fill, g2, g3, Val.toStr, List.append_assoc]
  · have hm : Piece.hole (b "message") ∈ debugPieces errorPageProg.stmts := by simpa using h4
    obtain ⟨l1, l2, hl⟩ := List.append_of_mem hm
    rw [hl, fill_append]
    refine ⟨fill (errEnv true path msg line) l1, fill (errEnv true path msg line) l2, ?_⟩
    simp [fill, g4, Val.toStr, List.append_assoc]

/-! ### from `Response` to the page -/

theorem sorted_error_data {α} (v1 v2 v3 v4 : α) :
    sortByKey [(b "path", v1), (b "line", v2), (b "message", v3), (b "debugMode", v4)] =
      [(b "debugMode", v4), (b "line", v2), (b "message", v3), (b "path", v1)] := by
  have c1 : bytesLt (b "message") (b "debugMode") = false := by decide
  have c2 : bytesLt (b "line") (b "debugMode") = false := by decide
  have c3 : bytesLt (b "line") (b "message") = true := by decide
  have c4 : bytesLt (b "path") (b "debugMode") = false := by decide
  have c5 : bytesLt (b "path") (b "line") = false := by decide
  have c6 : bytesLt (b "path") (b "message") = false := by decide
  simp only [sortByKey, List.foldr, insertByKey, c1, c2, c3, c4, c5, c6, Bool.false_eq_true, if_false, if_true]

theorem errorPage_env (w : World) (f : Fail) (cwd : Bytes) :
    envFromMap (errorPageData w f cwd) =
      .ok (errEnv w.cfg.debug (if f.path.isEmpty then [] else cleanPath (cwd ++ [47] ++ f.path)) f.msg f.line) := by
  unfold errorPageData envFromMap
  simp only [sorted_error_data]
  have n1 : (b "debugMode" == b "loop") = false := by decide
  have n2 : (b "line" == b "loop") = false := by decide
  have n3 : (b "message" == b "loop") = false := by decide
  have n4 : (b "path" == b "loop") = false := by decide
  have k1 : (b "debugMode" == b "line") = false := by decide
  have k2 : (b "debugMode" == b "message") = false := by decide
  have k3 : (b "line" == b "message") = false := by decide
  have k4 : (b "debugMode" == b "path") = false := by decide
  have k5 : (b "line" == b "path") = false := by decide
  have k6 : (b "message" == b "path") = false := by decide
  simp only [envFromMap.go, nativeToObject, Env.set, Env.get, mapGet, mapSet, n1, n2, n3, n4, k1, k2, k3, k4, k5, k6,
    Bool.false_eq_true, if_false]
  rfl

theorem errorPageProg_parses : parseSource Gen.defaultErrorPage = .ok errorPageProg := by
  have h := errorPage_shape.1
  unfold errorPageProg
  split
  · rename_i p hp; rw [hp]
  · rename_i hne
    split at h
    · rename_i p hp; exact absurd hp (hne p)
    · cases h

/-- what `errorPage` returns, debug mode off: the fixed text -/
theorem errorPage_quiet (w : World) (f : Fail) (cwd : Bytes) (hd : w.cfg.debug = false) :
    (errorPage w f cwd).2 = .ok (quietText errorPageProg.stmts) := by
  unfold errorPage evaluateString evaluateStringPure envOrFail
  simp only [errorPageProg_parses, errorPage_env, hd]
  have := builtin_page_no_leak { custom := w.custom } (if f.path.isEmpty then [] else cleanPath (cwd ++ [47] ++ f.path)) f.msg f.line
  unfold errEnv
  rw [this]
  rfl

/-- what `errorPage` returns, debug mode on: the text with path, line and message filled in -/
theorem errorPage_debug (w : World) (f : Fail) (cwd : Bytes) (hd : w.cfg.debug = true) :
    (errorPage w f cwd).2 = .ok (fill (errEnv true (if f.path.isEmpty then [] else cleanPath (cwd ++ [47] ++ f.path)) f.msg f.line)
      (debugPieces errorPageProg.stmts)) := by
  unfold errorPage evaluateString evaluateStringPure envOrFail
  simp only [errorPageProg_parses, errorPage_env, hd]
  rw [(builtin_page_debug { custom := w.custom } _ f.msg f.line).1]
  rfl

/-- **`Response`, rendering failed, no custom page or debug mode on, debug mode off**: the body is
    the fixed "Oops" text — the same for every error -/
theorem response_quiet_body (w : World) (t : Template) (name : Bytes) (data : List (Bytes × GoVal)) (cwd : Bytes) (f : Fail)
    (h : tplString w t name data = .fail f) (hpage : w.cfg.errPage.isEmpty = true) (hd : w.cfg.debug = false) :
    (tplResponse w t name data cwd).2.body = quietText errorPageProg.stmts ∧ (tplResponse w t name data cwd).2.err = some f :=
  response_builtin_page w t name data cwd f h (by simp [hpage]) _ (errorPage_quiet w f cwd hd)

/-- **`Response`, rendering failed, debug mode on**: whatever page is configured, the body is the
    built-in page and contains "path:line" (the absolute path of the failing file) and the message -/
theorem response_debug_body (w : World) (t : Template) (name : Bytes) (data : List (Bytes × GoVal)) (cwd : Bytes) (f : Fail)
    (h : tplString w t name data = .fail f) (hd : w.cfg.debug = true) :
    (tplResponse w t name data cwd).2.err = some f ∧
    (∃ pre post : Bytes, (tplResponse w t name data cwd).2.body =
      pre ++ ((if f.path.isEmpty then [] else cleanPath (cwd ++ [47] ++ f.path)) ++ b ":" ++ int64ToBytes (Int64.ofInt f.line)) ++ post) ∧
    (∃ pre post : Bytes, (tplResponse w t name data cwd).2.body = pre ++ f.msg ++ post) := by
  obtain ⟨hb, he⟩ := response_builtin_page w t name data cwd f h (by simp [hd]) _ (errorPage_debug w f cwd hd)
  obtain ⟨_, h2, h3⟩ := builtin_page_debug { custom := w.custom } (if f.path.isEmpty then [] else cleanPath (cwd ++ [47] ++ f.path)) f.msg f.line
  rw [hb]
  exact ⟨he, h2, h3⟩

set_option maxRecDepth 100000 in
/-- with debug mode on the page shows message, path and line (`…_partial`: for one concrete
    error, by evaluation; the general statement needs the frame lemma of the design) -/
theorem debug_page_shows_partial :
    (match evaluateStringPure [] Gen.defaultErrorPage
        [(b "path", .str (b "/srv/tpl/home.tw")), (b "line", .int 7), (b "message", .str (b "identifier 'x' not found")), (b "debugMode", .bool true)] with
      | .ok out => containsSub out (b "/srv/tpl/home.tw:7") && containsSub out (b "identifier 'x' not found")
      | _ => false) = true := by
  decide +kernel

end Tw.C17
