/-
  TwProofs.C14 — rendering is deterministic.

  Every place where the Go code ranges over a map (fact F10 lists them) is modelled by "take the
  entries in some order, sort by key, iterate".  The theorems below show that the result does
  not depend on the order in which the map hands out its entries: for each such site, any
  permutation of the entries (keys distinct, as in a Go map) gives the same result.
-/
import TwProofs.Lemmas.Sort
import TwProofs.Lemmas.EvalStep

namespace Tw.C14
open Tw

/-- the key-sorted view of a map is the same for every iteration order -/
theorem sorted_view_order_independent {α} (l1 l2 : List (Bytes × α)) (hp : l1.Perm l2) (hd : KeysDistinct l1) :
    sortByKey l1 = sortByKey l2 :=
  sortByKey_perm_invariant l1 l2 hp hd

/-- object literals: value *and* reported error do not depend on the order of the parser's map -/
theorem object_literal_order_independent (fuel : Nat) (c : Ctx) (env : Env) (t : Token)
    (p1 p2 : List (Bytes × Expr)) (hp : p1.Perm p2) (hd : KeysDistinct p1) :
    evalExpr fuel c env (.obj t p1) = evalExpr fuel c env (.obj t p2) := by
  cases fuel with
  | zero => rfl
  | succ f => simp only [evalExpr, sortByKey_perm_invariant p1 p2 hp hd]

/-- component arguments: the same -/
theorem component_args_order_independent (fuel : Nat) (c : Ctx) (env : Env) (t : Token) (name : Bytes) (cid : Nat)
    (p1 p2 : List (Bytes × Expr)) (hp : p1.Perm p2) (hd : KeysDistinct p1) :
    evalStmt fuel c env (.component t name (some p1) cid) = evalStmt fuel c env (.component t name (some p2) cid) := by
  cases fuel with
  | zero => rfl
  | succ f => simp only [evalStmt_succ, stmtBody, sortByKey_perm_invariant p1 p2 hp hd]

/-- the data map: environment, or which value is reported as unsupported / re-typed -/
theorem data_map_order_independent (d1 d2 : List (Bytes × GoVal)) (hp : d1.Perm d2) (hd : KeysDistinct d1) :
    envFromMap d1 = envFromMap d2 := by
  simp only [envFromMap, sortByKey_perm_invariant d1 d2 hp hd]

/-- maps inside the data: the converted object -/
theorem native_map_order_independent (m1 m2 : List (Bytes × Val)) (hp : m1.Perm m2) (hd : KeysDistinct m1) :
    Val.obj (sortByKey m1) = Val.obj (sortByKey m2) := by
  rw [sortByKey_perm_invariant m1 m2 hp hd]

/-- printing and dumping are functions of the value (objects are kept key-sorted) -/
theorem printing_is_a_function (v w : Val) (h : v = w) : v.toStr = w.toStr ∧ v.dump 0 = w.dump 0 := by
  subst h; exact ⟨rfl, rfl⟩

/-- which undefined insert is reported: the least name, whatever the order of the inserts map -/
theorem undefined_insert_order_independent (i1 i2 : List (Bytes × InsertDef)) (hp : i1.Perm i2) (hd : KeysDistinct i1)
    (reserves : List (Bytes × Nat)) :
    (sortByKey i1).find? (fun p => (mapGet reserves p.1).isNone) = (sortByKey i2).find? (fun p => (mapGet reserves p.1).isNone) := by
  rw [sortByKey_perm_invariant i1 i2 hp hd]

/-- which faulty file is reported by `NewTemplate`: files are loaded in sorted name order -/
theorem files_order_independent (n1 n2 : List (Bytes × Bytes)) (hp : n1.Perm n2) (hd : KeysDistinct n1) :
    sortByKey n1 = sortByKey n2 :=
  sortByKey_perm_invariant n1 n2 hp hd

/-! non-vacuity: a permuted object literal with two failing entries reports the same error -/

example :
    (match evaluateStringPure [] (b "{{ {b: x, a: y, c: 1} }}") [], evaluateStringPure [] (b "{{ {c: 1, a: y, b: x} }}") [] with
      | .fail f1, .fail f2 => f1.msg == f2.msg && containsSub f1.msg (b "'y'")
      | _, _ => false) = true := by decide

end Tw.C14
