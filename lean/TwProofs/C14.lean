/-
  TwProofs.C14 — property theorems (see DESIGN.md, section 6).
-/
import TwModel
import TwSpec

namespace Tw.C14
open Tw

end Tw.C14
