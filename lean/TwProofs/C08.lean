/-
  TwProofs.C08 — property theorems (see DESIGN.md, section 6).
-/
import TwModel
import TwSpec

namespace Tw.C08
open Tw

end Tw.C08
