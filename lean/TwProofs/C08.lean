/-
  TwProofs.C08 — lexing and parsing terminate on every input and end in a program or an error.
-/
import TwProofs.Lemmas.LexSpan
import TwProofs.Lemmas.LexNoPanic
import TwProofs.Lemmas.ParseFuel

namespace Tw.C08
open Tw Tw.Lx

/-- every `NextToken` body (the part of the Go function before its tail call) either returns EOF
    or leaves strictly fewer bytes: no byte string makes the lexer stand still -/
theorem nextToken_progress (s : Lx) :
    ((∃ t, (nextStep s).1 = .tok t ∧ t.ty = .EOF) ∧ (nextStep s).2.rest.length ≤ s.rest.length) ∨
    ((nextStep s).2.rest.length < s.rest.length ∧ ∀ t, (nextStep s).1 = .tok t → t.ty ≠ .EOF) :=
  nextStep_progress s

/-- **the lexer terminates**: with fuel `remaining bytes + 1` the token loop returns, from every
    state -/
theorem lexer_terminates (fuel : Nat) (s : Lx) (h : s.rest.length + 1 ≤ fuel) : (lexAll fuel s).isSome = true :=
  lexAll_terminates fuel s h

/-- `tokenize` (what `parser.New` + the parser's `nextToken` calls consume) is total on byte strings -/
theorem tokenize_total (inp : Bytes) : (tokenize inp).isSome = true := Tw.tokenize_total inp

/-- the token list always ends with EOF, which sits at the end of the input: the parser can never
    be handed an endless stream -/
theorem token_list_ends_with_eof (inp : Bytes) (r : LexResult) (h : tokenize inp = some r) :
    ∃ ts e, r.toks = ts ++ [e] ∧ e.ty = .EOF := by
  have ht := tokenize_tiled inp r h
  generalize r.toks = toks at ht
  generalize (0 : Nat) = a at ht
  induction ht with
  | eof a t h1 _ _ _ => exact ⟨[], t, rfl, h1⟩
  | tok a a' n t ts _ _ _ _ ih =>
    obtain ⟨ts', e, h1, h2⟩ := ih
    exact ⟨t :: ts', e, by rw [h1]; rfl, h2⟩

/-- **the parser terminates**: the model parser is a recursion on fuel, and with the fuel its driver
    gives it (four units per token and a constant) no call ever reaches fuel zero — for every byte
    string, `parseSource` never answers "out of fuel".  The measure: the token list never grows,
    always ends in EOF, every loop iteration and every descent that closes a cycle of the call
    graph (loop → expression, block → block, `@elseif` → `@elseif`, slot → slot, …) comes after a
    token was consumed, and the chains that descend without consuming (expression → loop,
    body → block → statement, object loop → expression for `{a}`) are of bounded length
    (`expr_adq`, `stmt_adq`, `parseProgramLoop_adq`). -/
theorem parser_never_out_of_fuel (src : Bytes) (base : Nat) : parseSource src base ≠ .oof :=
  parseSource_ne_oof src base (fun r h => token_list_ends_with_eof src r h) (Tw.tokenize_total src)

/-- … and never with the lexer's panic outcome either: lexing and parsing always end in a program
    or in an error that carries a line -/
theorem parse_always_answers (src : Bytes) (base : Nat) :
    (∃ prog, parseSource src base = .ok prog) ∨ (∃ e, parseSource src base = .err e) := by
  have h1 := parser_never_out_of_fuel src base
  have h2 : parseSource src base ≠ .lexPanic := by
    intro hlp
    unfold parseSource at hlp
    split at hlp
    · cases hlp
    · rename_i lr htok
      split at hlp
      · rename_i hp
        rw [tokenize_no_panic src lr htok] at hp
        cases hp
      · exact finishParse_ne_lexPanic' _ _ _ _ hlp
  cases h : parseSource src base with
  | ok prog => exact Or.inl ⟨prog, rfl⟩
  | err e => exact Or.inr ⟨e, rfl⟩
  | oof => exact absurd h h1
  | lexPanic => exact absurd h h2

/-- every error line is ≥ 1 (`Token.ErrorLine` adds one to a zero-based line) -/
theorem errorLine_pos (t : Token) : 1 ≤ t.errorLine := by simp [Token.errorLine]

/-! non-vacuity: inputs that used to hang or crash the pinned revision are rejected by the model -/

example : (match parseSource (b "@if(true)x") with | .err e => e.code == "ErrWrongNextToken" | _ => false) = true := by decide
example : (match parseSource (b "{{ {a: 1") with | .err _ => true | _ => false) = true := by decide
example : (match parseSource (b "{{ \"abc") with | .err e => e.code == "ErrUnexpectedEOF" | _ => false) = true := by decide
example : (match parseSource (b "{{-- --}\\@end") with | .err e => e.code == "ErrUnexpectedEOF" | _ => false) = true := by decide

end Tw.C08
