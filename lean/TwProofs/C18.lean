/-
  TwProofs.C18 — templates are addressable by relative name; a bad file fails loading cleanly.

  Model: `TwModel.Api` over an abstract file tree (`Fs`: cleaned relative paths ↦ file / directory
  / unreadable link; the real tree is translated by the harness).  Theorems: what `NewTemplate`
  registers (only files that end in the extension, under `nameFromPath`, layouts excluded), that
  the first faulty file in name order makes the whole call fail with that file's error, that an
  unknown name is "not found", that a file evaluates like its content, that loading has no
  panic outcome.
-/
import TwModel
import TwSpec
import TwProofs.Lemmas.LoadWhole
import TwProofs.Lemmas.LexNoPanic

namespace Tw.C18
open Tw

/-! ### what is registered -/

/-- the (name, path) pairs `NewTemplate` works through, in name order -/
def candidates (w : World) (paths : List Bytes) : List (Bytes × Bytes) :=
  sortByKey ((paths.filter fun p => hasSuffix p w.cfg.ext).foldl (fun (m : List (Bytes × Bytes)) p => mapSet m (nameFromPath w.cfg p) p) [])

theorem foldl_mapSet_mem (c : Cfg) : ∀ (files : List Bytes) (acc : List (Bytes × Bytes)) (x : Bytes × Bytes),
    x ∈ files.foldl (fun (m : List (Bytes × Bytes)) p => mapSet m (nameFromPath c p) p) acc →
    x ∈ acc ∨ (x.2 ∈ files ∧ x.1 = nameFromPath c x.2)
  | [], acc, x, h => Or.inl h
  | p :: r, acc, x, h => by
    simp only [List.foldl_cons] at h
    rcases foldl_mapSet_mem c r _ x h with h | h
    · rcases mapSet_mem _ _ _ _ h with h | h
      · exact Or.inl h
      · right; rw [h]; exact ⟨List.mem_cons_self, rfl⟩
    · exact Or.inr ⟨List.mem_cons_of_mem _ h.1, h.2⟩

/-- every candidate is a file found under the template directory whose name ends in the
    extension, under the name `nameFromPath` gives it (path relative to the directory, extension
    removed) — at any depth -/
theorem candidates_are_template_files (w : World) (paths : List Bytes) (x : Bytes × Bytes) (h : x ∈ candidates w paths) :
    x.2 ∈ paths ∧ hasSuffix x.2 w.cfg.ext = true ∧ x.1 = nameFromPath w.cfg x.2 := by
  unfold candidates at h
  have h' := (sortByKey_perm _).subset h
  rcases foldl_mapSet_mem w.cfg _ [] x h' with h1 | h1
  · cases h1
  · have := List.mem_filter.mp h1.1
    exact ⟨this.1, this.2, h1.2⟩

/-- what `NewTemplate` returns, as a fold over the candidates -/
theorem newTemplate_eq (w : World) (o : Option Opt) (paths : List Bytes)
    (hw : (configure w o).fs.walk (configure w o).cfg.dir = some paths) :
    (newTemplate w o).2 =
      (candidates (configure w o) paths).foldlM (fun (acc : Template) (np : Bytes × Bytes) =>
        match loadPage (configure w o).fs (configure w o).cfg np.2 with
        | .error f => .error f
        | .ok none => .ok acc
        | .ok (some pg) => .ok (acc ++ [(np.1, pg)])) [] := by
  unfold newTemplate
  simp only [hw, candidates]
  rfl

/-- a missing template directory is an error -/
theorem missing_directory_is_error (w : World) (o : Option Opt)
    (hw : (configure w o).fs.walk (configure w o).cfg.dir = none) : (newTemplate w o).2 = .error (osFail 0 []) := by
  unfold newTemplate
  simp only [hw]

/-- **every registered name is a template file's relative name** -/
theorem registered_names (w : World) (o : Option Opt) (paths : List Bytes) (t : Template)
    (hw : (configure w o).fs.walk (configure w o).cfg.dir = some paths) (h : (newTemplate w o).2 = .ok t) :
    ∀ x ∈ t, ∃ p ∈ paths, hasSuffix p (configure w o).cfg.ext = true ∧ x.1 = nameFromPath (configure w o).cfg p ∧
      loadPage (configure w o).fs (configure w o).cfg p = .ok (some x.2) := by
  rw [newTemplate_eq w o paths hw] at h
  refine foldlM_except_inv _ (fun (acc : Template) => ∀ x ∈ acc, ∃ p ∈ paths, hasSuffix p (configure w o).cfg.ext = true ∧
      x.1 = nameFromPath (configure w o).cfg p ∧ loadPage (configure w o).fs (configure w o).cfg p = .ok (some x.2))
    _ [] t ?_ (fun x hx => (by cases hx)) h
  intro acc np acc' hnp hacc hf
  split at hf
  · cases hf
  · cases hf; exact hacc
  · rename_i pg hl
    cases hf
    intro x hx
    rcases List.mem_append.mp hx with hx | hx
    · exact hacc x hx
    · rw [List.mem_singleton.mp hx]
      obtain ⟨h1, h2, h3⟩ := candidates_are_template_files _ paths np hnp
      exact ⟨np.2, h1, h2, h3, hl⟩

/-! ### a faulty file fails the whole load, with that file's error -/

theorem foldlM_first_error {α β ε : Type} (f : β → α → Except ε β) :
    ∀ (pre : List α) (x : α) (post : List α) (b0 b1 : β) (e : ε),
      pre.foldlM f b0 = .ok b1 → f b1 x = .error e → (pre ++ x :: post).foldlM f b0 = .error e
  | [], x, post, b0, b1, e, h1, h2 => by
    simp only [List.foldlM_nil, pure, Except.pure] at h1
    cases h1
    simp only [List.nil_append, List.foldlM_cons, bind, Except.bind, h2]
  | a :: pre, x, post, b0, b1, e, h1, h2 => by
    simp only [List.foldlM_cons, bind, Except.bind] at h1
    cases hfa : f b0 a with
    | error e' => rw [hfa] at h1; cases h1
    | ok b' =>
      rw [hfa] at h1
      simp only [List.cons_append, List.foldlM_cons, bind, Except.bind, hfa]
      exact foldlM_first_error f pre x post b' b1 e h1 h2

/-- **a single faulty file** (a page that does not parse, a layout or component it needs that is
    absent, unreadable or wrong): when the files before it in name order load, `NewTemplate`
    returns no template and exactly the error of that file -/
theorem faulty_file_fails_loading (w : World) (o : Option Opt) (paths : List Bytes)
    (pre post : List (Bytes × Bytes)) (np : Bytes × Bytes) (acc : Template) (f : Fail)
    (hw : (configure w o).fs.walk (configure w o).cfg.dir = some paths)
    (hsplit : candidates (configure w o) paths = pre ++ np :: post)
    (hpre : pre.foldlM (fun (acc : Template) (np : Bytes × Bytes) =>
        match loadPage (configure w o).fs (configure w o).cfg np.2 with
        | .error f => (Except.error f : Except Fail Template)
        | .ok none => Except.ok acc
        | .ok (some pg) => Except.ok (acc ++ [(np.1, pg)])) [] = Except.ok acc)
    (hbad : loadPage (configure w o).fs (configure w o).cfg np.2 = .error f) :
    (newTemplate w o).2 = .error f := by
  rw [newTemplate_eq w o paths hw, hsplit]
  exact foldlM_first_error _ pre np post [] acc f hpre (by simp only [hbad])

/-- a page that does not parse is reported with its own path and the line of the error -/
theorem syntax_error_names_the_file (fs : Fs) (c : Cfg) (p src : Bytes) (e : PErr)
    (hr : readFile fs p = .ok src) (hp : parseSource src 0 = .err e) :
    loadPage fs c p = .error (failOf e.code e.line e.args p) := by
  unfold loadPage parseFile
  rw [hr]
  simp only [hp]
  split <;> rfl

/-- loading has no panic outcome: the lexer-panic result of a parse is unreachable -/
theorem parse_never_lexer_panics (src : Bytes) (base : Nat) : parseSource src base ≠ .lexPanic := by
  intro h
  unfold parseSource at h
  split at h
  · cases h
  · rename_i lr htok
    split at h
    · rename_i hp
      rw [tokenize_no_panic src lr htok] at hp
      cases hp
    · unfold finishParse at h
      cases hs : (parseProgramLoop (parseFuel lr.toks) [] (initParser lr.toks base)).1 with
      | none =>
        rw [hs] at h
        simp only [] at h
        split at h
        · cases h
        · split at h <;> cases h
      | some ss =>
        rw [hs] at h
        cases hic : lr.insideCode with
        | true =>
          rw [hic] at h
          simp only [if_true] at h
          split at h
          · cases h
          · split at h <;> cases h
        | false =>
          rw [hic] at h
          simp only [Bool.false_eq_true, if_false] at h
          split at h
          · cases h
          · split at h <;> cases h

/-! ### rendering by name and by path -/

/-- an unknown name (also a layout's name: layouts are not registered) is "template not found",
    with the path the name stands for -/
theorem unknown_name_is_not_found (w : World) (t : Template) (name : Bytes) (data : List (Bytes × GoVal)) (env : Env)
    (hd : envFromMap data = .ok env) (hn : mapGet t name = none) :
    tplString w t name data = .fail (failOf "ErrTemplateNotFound" 0 [] (templatePath w.cfg name)) := by
  unfold tplString envOrFail
  simp only [hd, hn]

/-- evaluating a file by path equals evaluating its content as a string -/
theorem evaluateFile_is_evaluateString (w : World) (path src : Bytes) (data : List (Bytes × GoVal))
    (hr : readFile w.fs path = .ok src) :
    (evaluateFile w path data).2 = (evaluateString w src data).2 := by
  unfold evaluateFile evaluateString
  simp only [hr]

/-- a file that cannot be read is an error that carries the path -/
theorem evaluateFile_missing (w : World) (path : Bytes) (data : List (Bytes × GoVal)) (hr : readFile w.fs path = .notExist) :
    (evaluateFile w path data).2 = .fail (osFail 0 path) := by
  unfold evaluateFile
  simp only [hr]

/-! ### directory spellings -/

/-- the configured directory is stored cleaned, without leading / trailing slashes -/
theorem directory_is_normalised (w : World) (o : Opt) (h : o.dir.isEmpty = false) :
    (configure w (some o)).cfg.dir = cleanPath (trimRightByte 47 (trimLeftByte 47 o.dir)) := by
  unfold configure
  simp only [h, Bool.false_eq_true, if_false]
  split <;> split <;> rfl

example : cleanPath (b "./a//b/../tpl/") = b "a/tpl" ∧ cleanPath (b "tpl/./x/..") = b "tpl" ∧ cleanPath (b "../t") = b "../t" := by
  decide

/-- nested files at any depth, a non-default directory spelling and extension, a layout that is
    not registered, a file with another ending that is ignored -/
def demoFs : Fs :=
  [ (b "views", .dir), (b "views/a", .dir), (b "views/a/b", .dir),
    (b "views/a/b/deep.html", .file (b "deep {{ 1 + 1 }}")), (b "views/top.html", .file (b "top")),
    (b "views/skip.htm", .file (b "{{ ")), (b "views/lay.html", .file (b "<@reserve(\"x\")>")) ]

example :
    (match newTemplate { fs := demoFs } (some { dir := b "./views//", ext := b ".html" }) with
      | (w, .ok t) =>
        t.map (·.1) == [b "a/b/deep", b "top"] &&
        (match tplString w t (b "a/b/deep") [] with | .ok out => out == b "deep 2" | _ => false) &&
        (match tplString w t (b "lay") [] with | .fail f => f.msg == formatMsg "ErrTemplateNotFound" [] | _ => false)
      | _ => false) = true := by decide +kernel

end Tw.C18
