/-
  TwProofs.C18 — property theorems (see DESIGN.md, section 6).
-/
import TwModel
import TwSpec

namespace Tw.C18
open Tw

end Tw.C18
