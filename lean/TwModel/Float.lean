/-
  TwModel.Float — text of floating point numbers.

  `float64` is Lean's `Float` (IEEE double, the same hardware operations as Go); its operations
  are opaque to the kernel, so every theorem holds for arbitrary interpretations of them.
  This file transcribes `strconv.FormatFloat(f, 'f', -1, 64)` (shortest digits that round-trip,
  free-format algorithm of Steele & White / dragon4 over arbitrary precision naturals) and
  `Float.String()` / `Float.SubtractFromFloat` of `object/float.go`.
-/
import TwModel.Basic

namespace Tw

/-- decompose a finite positive double: value = m * 2^e with integer m -/
def floatDecode (f : Float) : Nat × Int × Bool :=
  let bits : Nat := f.toBits.toNat
  let frac : Nat := bits % (2 ^ 52)
  let ex : Nat := (bits / 2 ^ 52) % 2048
  if ex == 0 then (frac, -1074, true)             -- subnormal (or zero)
  else (frac + 2 ^ 52, (ex : Int) - 1075, frac != 0 || ex == 1)

def pow10 (k : Nat) : Nat := 10 ^ k

/-- digit generation loop of the free-format algorithm.
    Invariant: value = (r / s) * 10^k, digits so far in `acc` (reversed). -/
def genDigits : Nat → Nat → Nat → Nat → Nat → Bool → List Nat → List Nat
  | 0, _, _, _, _, _, acc => acc
  | fuel + 1, r, s, mp, mm, even, acc =>
    let d := (r * 10) / s
    let r' := (r * 10) % s
    let mp' := mp * 10
    let mm' := mm * 10
    let low := if even then r' ≤ mm' else r' < mm'
    let high := if even then r' + mp' ≥ s else r' + mp' > s
    if !low && !high then genDigits fuel r' s mp' mm' even (d :: acc)
    else if low && !high then d :: acc
    else if high && !low then (d + 1) :: acc
    else if 2 * r' < s then d :: acc else (d + 1) :: acc

/-- shortest decimal digits `ds` and exponent `k` with value = 0.ds × 10^k, for finite f > 0 -/
def shortestDigits (f : Float) : List Nat × Int :=
  let (m, e, regular) := floatDecode f
  let even := m % 2 == 0
  -- r / s = value, mp / s and mm / s = half distances to the neighbours
  let (r, s, mp, mm) : Nat × Nat × Nat × Nat :=
    if e ≥ 0 then
      let be := 2 ^ e.toNat
      if regular then (m * be * 2, 2, be, be) else (m * be * 4, 4, be * 2, be)
    else
      let den := 2 ^ (-e).toNat
      if regular then (m * 2, den * 2, 1, 1) else (m * 4, den * 4, 2, 1)
  -- find k with 10^(k-1) ≤ (r + mp) / s < 10^k   (high end of the rounding interval)
  -- estimate from the bit length, then fix up
  let est : Int := ((Nat.log2 m : Int) + e) * 30103 / 100000
  let rec fix (fuel : Nat) (k : Int) : Int :=
    match fuel with
    | 0 => k
    | fuel + 1 =>
      -- is (r + mp)/s ≥ 10^k (or > when odd)?  then k too small
      let (num, den) : Nat × Nat := if k ≥ 0 then (r + mp, s * pow10 k.toNat) else ((r + mp) * pow10 (-k).toNat, s)
      let tooSmall := if even then num ≥ den else num > den
      if tooSmall then fix fuel (k + 1)
      else
        let (num1, den1) : Nat × Nat :=
          if k - 1 ≥ 0 then (r + mp, s * pow10 (k - 1).toNat) else ((r + mp) * pow10 (-(k - 1)).toNat, s)
        let okLow := if even then num1 ≥ den1 else num1 > den1
        if okLow then k else fix fuel (k - 1)
  let k := fix 700 est
  let (r1, s1, mp1, mm1) : Nat × Nat × Nat × Nat :=
    if k ≥ 0 then (r, s * pow10 k.toNat, mp, mm)
    else let p := pow10 (-k).toNat; (r * p, s, mp * p, mm * p)
  let ds := (genDigits 400 r1 s1 mp1 mm1 even []).reverse
  -- a carry out of the last digit (e.g. 9 + 1) is propagated
  let rec carry (ds : List Nat) : List Nat × Bool :=
    match ds with
    | [] => ([], false)
    | d :: t =>
      let (t', c) := carry t
      let d' := if t.isEmpty then d else d + (if c then 1 else 0)
      if d' ≥ 10 then ((d' - 10) :: t', true) else (d' :: t', false)
  let (ds', c) := carry ds
  if c then (1 :: ds', k + 1) else (ds', k)

def digitBytes (ds : List Nat) : Bytes := ds.map (· + 48)

/-- `strconv.FormatFloat(f, 'f', -1, 64)` -/
def fmtFloat (f : Float) : Bytes :=
  if f.isNaN then b "NaN"
  else if f.isInf then (if f > 0 then b "+Inf" else b "-Inf")
  else
    let neg := f.toBits.toNat ≥ 2 ^ 63
    let sign : Bytes := if neg then [45] else []
    let a := f.abs
    if a == 0 then sign ++ [48]
    else
      let (ds, k) := shortestDigits a
      let n := ds.length
      if k ≤ 0 then sign ++ [48, 46] ++ List.replicate (-k).toNat 48 ++ digitBytes ds
      else if k.toNat ≥ n then sign ++ digitBytes ds ++ List.replicate (k.toNat - n) 48
      else sign ++ digitBytes (ds.take k.toNat) ++ [46] ++ digitBytes (ds.drop k.toNat)

def two63 : Float := 9223372036854775808.0

/-- `f.Value == float64(int(f.Value))` on amd64 -/
def floatIsInt (f : Float) : Bool :=
  f.isFinite && f.floor == f && f < two63 && f ≥ -two63

/-- `Float.String()` -/
def floatString (f : Float) : Bytes :=
  if floatIsInt f then
    let neg := f.toBits.toNat ≥ 2 ^ 63
    (if neg then [45] else []) ++ natToBytes f.abs.toUInt64.toNat ++ [46, 48]
  else fmtFloat f

/-- decimal text `digits '.' digits` to double (used by literals and `SubtractFromFloat`) -/
def floatOfDecimal (ip fp : Bytes) : Float :=
  let dn (bs : Bytes) : Nat := bs.foldl (fun acc c => acc * 10 + (c - 48)) 0
  Float.ofScientific (dn (ip ++ fp)) true fp.length

/-- `Float.SubtractFromFloat(1)` -/
def floatDec (f : Float) : Float :=
  let s := fmtFloat f
  if f < 1.0 || !s.contains 46 then f - 1.0
  else
    let ip := s.takeWhile (· != 46)
    let fp := s.drop (ip.length + 1)
    let n := ip.foldl (fun acc c => acc * 10 + (c - 48)) 0
    floatOfDecimal (natToBytes (n - 1)) fp

end Tw
