/-
  TwModel.Utf8 — Go's `[]rune(s)`, `string(runes)`, `utf8.RuneCountInString`,
  and the case mapping of `strings.ToUpper/ToLower` on a tabulated subset of Unicode.
-/
import TwModel.Basic

namespace Tw

abbrev Rune := Nat

def runeError : Rune := 0xFFFD

def isCont (c : Byte) : Bool := 0x80 ≤ c && c ≤ 0xBF

/-- `utf8.DecodeRune`: the first rune of a non-empty byte string and its width -/
def decodeRune : Bytes → Rune × Nat
  | [] => (runeError, 0)
  | c0 :: r =>
    if c0 < 0x80 then (c0, 1)
    else if 0xC2 ≤ c0 && c0 ≤ 0xDF then
      match r with
      | c1 :: _ => if isCont c1 then ((c0 - 0xC0) * 64 + (c1 - 0x80), 2) else (runeError, 1)
      | _ => (runeError, 1)
    else if 0xE0 ≤ c0 && c0 ≤ 0xEF then
      match r with
      | c1 :: c2 :: _ =>
        let lo := if c0 == 0xE0 then 0xA0 else 0x80
        let hi := if c0 == 0xED then 0x9F else 0xBF
        if lo ≤ c1 && c1 ≤ hi && isCont c2 then
          ((c0 - 0xE0) * 4096 + (c1 - 0x80) * 64 + (c2 - 0x80), 3)
        else (runeError, 1)
      | _ => (runeError, 1)
    else if 0xF0 ≤ c0 && c0 ≤ 0xF4 then
      match r with
      | c1 :: c2 :: c3 :: _ =>
        let lo := if c0 == 0xF0 then 0x90 else 0x80
        let hi := if c0 == 0xF4 then 0x8F else 0xBF
        if lo ≤ c1 && c1 ≤ hi && isCont c2 && isCont c3 then
          ((c0 - 0xF0) * 262144 + (c1 - 0x80) * 4096 + (c2 - 0x80) * 64 + (c3 - 0x80), 4)
        else (runeError, 1)
      | _ => (runeError, 1)
    else (runeError, 1)

/-- `[]rune(s)` -/
def decodeRunes (s : Bytes) : List Rune := go s.length s
where
  go : Nat → Bytes → List Rune
  | 0, _ => []
  | fuel + 1, s =>
    match s with
    | [] => []
    | _ :: _ =>
      let (r, w) := decodeRune s
      r :: go fuel (s.drop w)

/-- `utf8.EncodeRune` (invalid runes become U+FFFD) -/
def encodeRune (r : Rune) : Bytes :=
  if r < 0x80 then [r]
  else if r < 0x800 then [0xC0 + r / 64, 0x80 + r % 64]
  else if (0xD800 ≤ r && r ≤ 0xDFFF) || r > 0x10FFFF then [0xEF, 0xBF, 0xBD]
  else if r < 0x10000 then [0xE0 + r / 4096, 0x80 + r / 64 % 64, 0x80 + r % 64]
  else [0xF0 + r / 262144, 0x80 + r / 4096 % 64, 0x80 + r / 64 % 64, 0x80 + r % 64]

/-- `string(runes)` -/
def encodeRunes (rs : List Rune) : Bytes := rs.flatMap encodeRune

/-- `utf8.ValidString` -/
def validUtf8 (s : Bytes) : Bool := go s.length s
where
  go : Nat → Bytes → Bool
  | 0, s => s.isEmpty
  | fuel + 1, s =>
    match s with
    | [] => true
    | _ :: _ =>
      let (r, w) := decodeRune s
      if r == runeError && w == 1 then false else go fuel (s.drop w)

/-- `unicode.ToUpper` on the tabulated subset: ASCII, Latin-1, Greek and Cyrillic basics -/
def runeUpper (r : Rune) : Rune :=
  if 97 ≤ r && r ≤ 122 then r - 32
  else if r == 0xB5 then 0x39C
  else if (0xE0 ≤ r && r ≤ 0xF6) || (0xF8 ≤ r && r ≤ 0xFE) then r - 32
  else if r == 0xFF then 0x178
  else if 0x3B1 ≤ r && r ≤ 0x3C1 then r - 32
  else if r == 0x3C2 then 0x3A3
  else if 0x3C3 ≤ r && r ≤ 0x3CB then r - 32
  else if 0x430 ≤ r && r ≤ 0x44F then r - 32
  else if 0x450 ≤ r && r ≤ 0x45F then r - 80
  else r

def runeLower (r : Rune) : Rune :=
  if 65 ≤ r && r ≤ 90 then r + 32
  else if (0xC0 ≤ r && r ≤ 0xD6) || (0xD8 ≤ r && r ≤ 0xDE) then r + 32
  else if 0x391 ≤ r && r ≤ 0x3A1 then r + 32
  else if 0x3A3 ≤ r && r ≤ 0x3AB then r + 32
  else if 0x410 ≤ r && r ≤ 0x42F then r + 32
  else if 0x400 ≤ r && r ≤ 0x40F then r + 80
  else r

/-- `strings.ToUpper` (`strings.Map(unicode.ToUpper, s)`; invalid bytes become U+FFFD,
    except that an all-ASCII string is handled bytewise - same result) -/
def toUpper (s : Bytes) : Bytes := encodeRunes ((decodeRunes s).map runeUpper)
def toLower (s : Bytes) : Bytes := encodeRunes ((decodeRunes s).map runeLower)

end Tw
