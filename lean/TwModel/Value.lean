/-
  TwModel.Value — runtime values (`object/*.go`): types, `String()`, `Dump()`, equality.
-/
import TwModel.Float
import TwModel.Html

namespace Tw

/-- values that expressions evaluate to.  Objects are association lists sorted by key with
    unique keys (Go maps; every observable iteration is in sorted key order). -/
inductive Val where
  | nil
  | bool (v : Bool)
  | int (v : Int64)
  | float (v : Float)
  | str (v : Bytes)
  | arr (xs : List Val)
  | obj (kvs : List (Bytes × Val))
  deriving Inhabited

inductive VType where
  | NIL | BOOLEAN | INTEGER | FLOAT | STRING | ARRAY | OBJECT
  deriving DecidableEq, Repr

def VType.name : VType → String
  | .NIL => "NIL" | .BOOLEAN => "BOOLEAN" | .INTEGER => "INTEGER" | .FLOAT => "FLOAT"
  | .STRING => "STRING" | .ARRAY => "ARRAY" | .OBJECT => "OBJECT"

def Val.type : Val → VType
  | .nil => .NIL | .bool _ => .BOOLEAN | .int _ => .INTEGER | .float _ => .FLOAT
  | .str _ => .STRING | .arr _ => .ARRAY | .obj _ => .OBJECT

def Val.typeName (v : Val) : Bytes := b v.type.name

def int64ToBytes (i : Int64) : Bytes := intToBytes i.toInt

def joinBytes (sep : Bytes) : List Bytes → Bytes
  | [] => []
  | [x] => x
  | x :: y :: r => x ++ sep ++ joinBytes sep (y :: r)

mutual
/-- `Object.String()` -/
def Val.toStr : Val → Bytes
  | .nil => []
  | .bool v => if v then [49] else [48]
  | .int v => int64ToBytes v
  | .float v => floatString v
  | .str v => v
  | .arr xs => joinBytes [44, 32] (Val.toStrList xs)
  | .obj kvs => [123] ++ joinBytes [44, 32] (Val.toStrPairs kvs) ++ [125]
def Val.toStrList : List Val → List Bytes
  | [] => []
  | x :: r => Val.toStr x :: Val.toStrList r
def Val.toStrPairs : List (Bytes × Val) → List Bytes
  | [] => []
  | (k, v) :: r => (k ++ [58, 32] ++ Val.toStr v) :: Val.toStrPairs r
end

/-- `strconv.Quote`: printable ASCII and valid multi-byte runes as they are, the named escapes,
    other control bytes and invalid UTF-8 bytes as \xNN, C1 control runes as \u00NN
    (`unicode.IsPrint` is not modelled beyond that) -/
def goQuote (s : Bytes) : Bytes := [34] ++ go s.length s ++ [34]
where
  go : Nat → Bytes → Bytes
  | 0, _ => []
  | fuel + 1, s =>
    match s with
    | [] => []
    | c :: t =>
      if c < 128 then
        (if c == 34 then [92, 34] else if c == 92 then [92, 92]
         else if c == 7 then b "\\a" else if c == 8 then b "\\b" else if c == 12 then b "\\f"
         else if c == 10 then b "\\n" else if c == 13 then b "\\r" else if c == 9 then b "\\t"
         else if c == 11 then b "\\v"
         else if c < 32 || c == 127 then b "\\x" ++ b (toHex [c])
         else [c]) ++ go fuel t
      else
        let (r, w) := decodeRune s
        if r == runeError && w == 1 then b "\\x" ++ b (toHex [c]) ++ go fuel t
        else if 0x80 ≤ r && r ≤ 0x9F then b "\\u00" ++ b (toHex [r]) ++ go fuel (s.drop w)
        else s.take w ++ go fuel (s.drop w)

def spaces (n : Nat) : Bytes := List.replicate (2 * n) 32

mutual
/-- `Object.Dump(ident)` -/
def Val.dump : Val → Nat → Bytes
  | .nil, _ => b "<span class='textwire-keyword'>nil</span>"
  | .bool v, _ => if v then b "<span class='textwire-keyword'>true</span>" else b "<span class='textwire-keyword'>false</span>"
  | .int v, _ => b "<span class='textwire-num'>" ++ int64ToBytes v ++ b "</span>"
  | .float v, _ => b "<span class='textwire-num'>" ++ floatString v ++ b "</span>"
  | .str v, _ => b "<span class='textwire-str'>" ++ goQuote v ++ b "</span>"
  | .arr xs, ident =>
    let res := b "<span class='textwire-meta'>array:" ++ natToBytes xs.length ++ b " </span>" ++
      b "<span class='textwire-brace'>[</span>\n" ++ Val.dumpList xs (ident + 1)
    let last8 := res.drop (res.length - 8)
    (if last8 == b "}</span>" then res ++ [10] else res) ++ spaces ident ++ b "<span class='textwire-brace'>]</span>"
  | .obj kvs, ident =>
    b "<span class='textwire-meta'>object:" ++ natToBytes kvs.length ++ b " </span>" ++
      b "<span class='textwire-brace'>{</span>\n" ++ Val.dumpPairs kvs (ident + 1) ++
      spaces ident ++ b "<span class='textwire-brace'>}</span>"
def Val.dumpList : List Val → Nat → Bytes
  | [], _ => []
  | x :: r, ident => spaces ident ++ Val.dump x ident ++ b ",\n" ++ Val.dumpList r ident
def Val.dumpPairs : List (Bytes × Val) → Nat → Bytes
  | [], _ => []
  | (k, v) :: r, ident =>
    spaces ident ++ b "<span class=\"textwire-prop\">\"" ++ k ++ b "\"</span>" ++ b ": " ++
      Val.dump v ident ++ b ",\n" ++ Val.dumpPairs r ident
end

mutual
/-- equality used by `contains` on arrays: `reflect.DeepEqual` for two arrays / two objects,
    `==` on the Go values otherwise (so NaN ≠ NaN, and 1 ≠ 1.0) -/
def Val.beq : Val → Val → Bool
  | .nil, .nil => true
  | .bool a, .bool c => a == c
  | .int a, .int c => a == c
  | .float a, .float c => a == c
  | .str a, .str c => a == c
  | .arr a, .arr c => Val.beqList a c
  | .obj a, .obj c => Val.beqPairs a c
  | _, _ => false
def Val.beqList : List Val → List Val → Bool
  | [], [] => true
  | x :: r, y :: s => Val.beq x y && Val.beqList r s
  | _, _ => false
def Val.beqPairs : List (Bytes × Val) → List (Bytes × Val) → Bool
  | [], [] => true
  | (k, x) :: r, (l, y) :: s => k == l && Val.beq x y && Val.beqPairs r s
  | _, _ => false
end

/-- `isTruthy` -/
def isTruthy : Val → Bool
  | .bool v => v
  | .int v => v != 0
  | .float v => v != 0.0
  | .str v => !v.isEmpty
  | .nil => false
  | _ => true

/-- `object.Env`: scopes, innermost first -/
abbrev Env := List (List (Bytes × Val))

def Env.get (env : Env) (k : Bytes) : Option Val :=
  match env with
  | [] => none
  | s :: outer => match mapGet s k with
    | some v => some v
    | none => Env.get outer k

/-- `Env.Set`: error constant and arguments, or the new environment -/
def Env.set (env : Env) (k : Bytes) (v : Val) : Except (String × List Bytes) Env :=
  if k == b "loop" then .error ("ErrLoopVariableIsReserved", [])
  else
    match Env.get env k with
    | some old =>
      if old.type != v.type then .error ("ErrVariableTypeMismatch", [k, old.typeName, v.typeName])
      else .ok (match env with | [] => [[(k, v)]] | s :: o => mapSet s k v :: o)
    | none => .ok (match env with | [] => [[(k, v)]] | s :: o => mapSet s k v :: o)

/-- `Env.SetLoopVar` -/
def Env.setLoop (env : Env) (v : Val) : Env :=
  match env with
  | [] => [[(b "loop", v)]]
  | s :: o => mapSet s (b "loop") v :: o

def Env.push (env : Env) : Env := [] :: env

end Tw
