/-
  TwModel.Basic — bytes, results, small helpers shared by the whole model.

  Go `string` is modelled as a list of bytes (`Nat` values; every byte that
  reaches the model through the driver is < 256).  Lean `String` is used only
  for names that come from source-code tables.
-/

namespace Tw

abbrev Byte := Nat
abbrev Bytes := List Nat

/-- UTF-8 encoding of a code point (of a Lean `Char`, hence never a surrogate) -/
def utf8Bytes (r : Nat) : Bytes :=
  if r < 0x80 then [r]
  else if r < 0x800 then [0xC0 + r / 64, 0x80 + r % 64]
  else if r < 0x10000 then [0xE0 + r / 4096, 0x80 + r / 64 % 64, 0x80 + r % 64]
  else [0xF0 + r / 262144, 0x80 + r / 4096 % 64, 0x80 + r / 64 % 64, 0x80 + r % 64]

/-- bytes of a Lean string literal (defined through `String.toList` so that it reduces in proofs) -/
def b (s : String) : Bytes := s.toList.flatMap fun c => utf8Bytes c.toNat

/-- Outcome of a fuel-driven model function.
    `oof` (out of fuel) is distinct from an error, and a Go panic is explicit. -/
inductive Res (α : Type) where
  | ok (a : α)
  | err (e : String) (line : Nat) (args : List Bytes)
  | panic (why : String)
  | oof
  deriving Repr

namespace Res
def bind {α β} (r : Res α) (f : α → Res β) : Res β :=
  match r with
  | ok a => f a
  | err e l as => err e l as
  | panic w => panic w
  | oof => oof

instance : Monad Res where
  pure := ok
  bind := bind

@[simp] theorem bind_ok {α β} (a : α) (f : α → Res β) : (Res.ok a).bind f = f a := rfl
@[simp] theorem bind_err {α β} (e : String) (l : Nat) (as : List Bytes) (f : α → Res β) :
    (Res.err e l as : Res α).bind f = .err e l as := rfl
@[simp] theorem bind_panic {α β} (w : String) (f : α → Res β) : (Res.panic w : Res α).bind f = .panic w := rfl
@[simp] theorem bind_oof {α β} (f : α → Res β) : (Res.oof : Res α).bind f = .oof := rfl

def isPanic {α} : Res α → Bool
  | panic _ => true
  | _ => false

def isOof {α} : Res α → Bool
  | oof => true
  | _ => false
end Res

/-- lexicographic order on byte strings (Go's `<` on strings, `sort.Strings`) -/
def bytesLt : Bytes → Bytes → Bool
  | [], [] => false
  | [], _ :: _ => true
  | _ :: _, [] => false
  | x :: xs, y :: ys => if x < y then true else if y < x then false else bytesLt xs ys

def isPrefixOf : Bytes → Bytes → Bool
  | [], _ => true
  | _ :: _, [] => false
  | x :: xs, y :: ys => x == y && isPrefixOf xs ys

/-- `strings.Contains` -/
def containsSub (s sub : Bytes) : Bool :=
  match s with
  | [] => sub.isEmpty
  | _ :: t => isPrefixOf sub s || containsSub t sub

/-- the loop of `strings.ReplaceAll(s, old, new)` for non-empty `old` (left to right, non
    overlapping); `skip` counts the bytes of a match that still have to be passed over -/
def replaceGo (old new : Bytes) : Nat → Bytes → Bytes
  | _, [] => []
  | skip + 1, _ :: t => replaceGo old new skip t
  | 0, c :: t =>
    if isPrefixOf old (c :: t) then new ++ replaceGo old new (old.length - 1) t
    else c :: replaceGo old new 0 t

/-- `strings.ReplaceAll(s, old, new)` for non-empty `old` -/
def replaceAll (s old new : Bytes) : Bytes :=
  if old.isEmpty then s else replaceGo old new 0 s

def hexDigit (n : Nat) : Char :=
  if n < 10 then Char.ofNat (48 + n) else Char.ofNat (87 + n)

def toHex (bs : Bytes) : String :=
  String.ofList (bs.flatMap fun x => [hexDigit (x / 16 % 16), hexDigit (x % 16)])

def hexVal (c : Char) : Option Nat :=
  if '0' ≤ c ∧ c ≤ '9' then some (c.toNat - 48)
  else if 'a' ≤ c ∧ c ≤ 'f' then some (c.toNat - 87)
  else if 'A' ≤ c ∧ c ≤ 'F' then some (c.toNat - 55)
  else none

def ofHex (s : String) : Option Bytes :=
  go s.toList
where
  go : List Char → Option Bytes
  | [] => some []
  | [_] => none
  | a :: c :: t => do
    let x ← hexVal a
    let y ← hexVal c
    let r ← go t
    pure ((x * 16 + y) :: r)

/-- decimal text of a natural number -/
def natToBytes (n : Nat) : Bytes := b (toString n)

def intToBytes (i : Int) : Bytes := b (toString i)

/-- insert into a Go map modelled as an association list with unique keys -/
def mapSet {α} (m : List (Bytes × α)) (k : Bytes) (v : α) : List (Bytes × α) :=
  match m with
  | [] => [(k, v)]
  | (k', v') :: r => if k' == k then (k, v) :: r else (k', v') :: mapSet r k v

def mapGet {α} (m : List (Bytes × α)) (k : Bytes) : Option α :=
  match m with
  | [] => none
  | (k', v') :: r => if k' == k then some v' else mapGet r k

/-- insertion sort by key (`sort.Strings` on the keys) -/
def insertByKey {α} (kv : Bytes × α) : List (Bytes × α) → List (Bytes × α)
  | [] => [kv]
  | x :: r => if bytesLt kv.1 x.1 then kv :: x :: r else x :: insertByKey kv r

def sortByKey {α} (m : List (Bytes × α)) : List (Bytes × α) :=
  m.foldr insertByKey []

end Tw
