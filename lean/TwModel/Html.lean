/-
  TwModel.Html — `html.EscapeString`, the quote restoration of `evalString`, and
  `html.UnescapeString` restricted to numeric references and the entities
  amp, lt, gt, quot, apos (complete on every string produced by escaping).
-/
import TwModel.Utf8

namespace Tw

/-- `html.EscapeString` -/
def htmlEscape (s : Bytes) : Bytes :=
  s.flatMap fun c =>
    if c == 38 then b "&amp;"
    else if c == 39 then b "&#39;"
    else if c == 60 then b "&lt;"
    else if c == 62 then b "&gt;"
    else if c == 34 then b "&#34;"
    else [c]

/-- the value of a string literal: `evalString` -/
def literalValue (s : Bytes) : Bytes :=
  replaceAll (replaceAll (htmlEscape s) (b "&#34;") [34]) (b "&#39;") [39]

def isAlnum (c : Byte) : Bool := (97 ≤ c && c ≤ 122) || (65 ≤ c && c ≤ 90) || (48 ≤ c && c ≤ 57)
def hexDigitVal (c : Byte) : Option Nat :=
  if 48 ≤ c && c ≤ 57 then some (c - 48)
  else if 97 ≤ c && c ≤ 102 then some (c - 87)
  else if 65 ≤ c && c ≤ 70 then some (c - 55)
  else none

def entitySemi : List (Bytes × Rune) :=
  [(b "amp;", 38), (b "lt;", 60), (b "gt;", 62), (b "quot;", 34), (b "apos;", 39)]
def entityNoSemi : List (Bytes × Rune) :=
  [(b "amp", 38), (b "lt", 60), (b "gt", 62), (b "quot", 34)]

def lookupEntity (tbl : List (Bytes × Rune)) (k : Bytes) : Option Rune :=
  (tbl.find? fun p => p.1 == k).map (·.2)

/-- `unescapeEntity` at a `&` (the argument starts after the `&`):
    the replacement bytes and the number of input bytes consumed after the `&`;
    `none` = the `&` stays and scanning continues after it -/
def unescapeAt (s : Bytes) : Option (Bytes × Nat) :=
  match s with
  | 35 :: t =>                                    -- '#'
    if t.isEmpty then none                        -- len("&#") ≤ 3 needs one more byte
    else
      let (hex, ds0, pre) : Bool × Bytes × Nat :=
        match t with
        | 120 :: u => (true, u, 2)
        | 88 :: u => (true, u, 2)
        | _ => (false, t, 1)
      let digits := if hex then ds0.takeWhile fun c => (hexDigitVal c).isSome
                    else ds0.takeWhile fun c => 48 ≤ c && c ≤ 57
      if digits.isEmpty then none
      else
        let x := if hex then digits.foldl (fun a c => a * 16 + (hexDigitVal c).getD 0) 0
                 else digits.foldl (fun a c => a * 10 + (c - 48)) 0
        let after := ds0.drop digits.length
        let semi := if after.headD 0 == 59 && !after.isEmpty then 1 else 0
        let r := if x == 0 || (0xD800 ≤ x && x ≤ 0xDFFF) || x > 0x10FFFF then runeError else x
        some (encodeRune r, pre + digits.length + semi)
  | _ =>
    let name := s.takeWhile isAlnum
    let after := s.drop name.length
    let hasSemi := after.headD 0 == 59 && !after.isEmpty
    let entityName := if hasSemi then name ++ [59] else name
    if entityName.isEmpty then none
    else
      match lookupEntity entitySemi entityName with
      | some r => some (encodeRune r, entityName.length)
      | none =>
        match lookupEntity entityNoSemi entityName with
        | some r => some (encodeRune r, entityName.length)
        | none =>
          let maxLen := min (entityName.length - 1) 6
          -- longest proper prefix (length ≥ 2) that is an entity without semicolon
          let cands := (List.range (maxLen + 1)).reverse.filter fun j => j > 1
          match cands.findSome? fun j => (lookupEntity entityNoSemi (entityName.take j)).map fun r => (r, j) with
          | some (r, j) => some (encodeRune r, j)
          | none => none

/-- the loop of `html.UnescapeString`; `skip` counts the bytes of an entity still to pass over -/
def unescapeGo : Nat → Bytes → Bytes
  | _, [] => []
  | skip + 1, _ :: t => unescapeGo skip t
  | 0, c :: t =>
    if c == 38 then
      match unescapeAt t with
      | some (rep, n) => rep ++ unescapeGo n t
      | none => 38 :: unescapeGo 0 t
    else c :: unescapeGo 0 t

/-- `html.UnescapeString` -/
def htmlUnescape (s : Bytes) : Bytes := unescapeGo 0 s

end Tw
