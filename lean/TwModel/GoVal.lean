/-
  TwModel.GoVal — Go data passed to a render and its conversion (`object/utils.go`,
  `object/env.go: EnvFromMap`), and the way back (`Object.Val()`).
-/
import TwModel.Value

namespace Tw

/-- the Go values a caller can put into the data map -/
inductive GoVal where
  | nilIface                                        -- untyped nil
  | bool (v : Bool)
  | str (v : Bytes)
  | int (v : Int)                                   -- any signed / unsigned width, value in int64 range
  | float (v : Float)                               -- float32 (widened) or float64
  | ptr (target : Option GoVal)                     -- nil pointer = none
  | slice (xs : List GoVal)                         -- a nil slice is the empty list
  | map (kvs : List (Bytes × GoVal))                -- string keyed; a nil map is the empty list
  | struct (fields : List (Bytes × Bool × GoVal))   -- name, exported?, value
  | other (kind : String)                           -- chan, func, array, complex, …
  deriving Inhabited

mutual
/-- `NativeToObject`; `none` = Go returns a nil Object (unsupported type) -/
def nativeToObject : GoVal → Option Val
  | .nilIface => some .nil
  | .bool v => some (.bool v)
  | .str v => some (.str v)
  | .int v => some (.int (Int64.ofInt v))
  | .float v => some (.float v)
  | .ptr none => some .nil
  | .ptr (some t) => nativeToObject t
  | .slice xs => (nativeList xs).map .arr
  | .map kvs => (nativePairs kvs).map fun ps => .obj (sortByKey ps)
  | .struct fields => (nativeFields fields).map fun ps => .obj (sortByKey ps)
  | .other _ => none
def nativeList : List GoVal → Option (List Val)
  | [] => some []
  | x :: r =>
    match nativeToObject x with
    | none => none
    | some v => (nativeList r).map (v :: ·)
def nativePairs : List (Bytes × GoVal) → Option (List (Bytes × Val))
  | [] => some []
  | (k, x) :: r =>
    match nativeToObject x with
    | none => none
    | some v => (nativePairs r).map fun ps => (k, v) :: ps
def nativeFields : List (Bytes × Bool × GoVal) → Option (List (Bytes × Val))
  | [] => some []
  | (k, exported, x) :: r =>
    if !exported then nativeFields r
    else
      match nativeToObject x with
      | none => none
      | some v => (nativeFields r).map fun ps => (k, v) :: ps
end

mutual
/-- `Object.Val()`: the plain Go value handed to custom functions -/
def Val.toNative : Val → GoVal
  | .nil => .nilIface
  | .bool v => .bool v
  | .int v => .int v.toInt
  | .float v => .float v
  | .str v => .str v
  | .arr xs => .slice (Val.toNativeList xs)
  | .obj kvs => .map (Val.toNativePairs kvs)
def Val.toNativeList : List Val → List GoVal
  | [] => []
  | x :: r => Val.toNative x :: Val.toNativeList r
def Val.toNativePairs : List (Bytes × Val) → List (Bytes × GoVal)
  | [] => []
  | (k, v) :: r => (k, Val.toNative v) :: Val.toNativePairs r
end

inductive EnvErr where
  | unsupported (key : Bytes)
  | setErr (code : String) (args : List Bytes)

/-- `EnvFromMap`: keys in sorted order, first failure wins -/
def envFromMap (data : List (Bytes × GoVal)) : Except EnvErr Env :=
  go (sortByKey data) [[]]
where
  go : List (Bytes × GoVal) → Env → Except EnvErr Env
  | [], env => .ok env
  | (k, g) :: r, env =>
    match nativeToObject g with
    | none => .error (.unsupported k)
    | some v =>
      match env.set k v with
      | .ok env' => go r env'
      | .error (code, args) => .error (.setErr code args)

end Tw
