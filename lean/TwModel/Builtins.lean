/-
  TwModel.Builtins — the built-in functions (`evaluator/*_func.go`, `evaluator/utils.go`,
  `evaluator/func.go`) and the fixed library of custom test functions shared with the harness.
-/
import TwModel.Value

namespace Tw

abbrev BErr := String × List Bytes
abbrev BRes := Except BErr Val

def maxStrLen : Nat := 16777216

def strT : Bytes := b "STRING"
def arrT : Bytes := b "ARRAY"
def intT : Bytes := b "INTEGER"

/-- `functions`: the names of the built-in functions of each receiver type (sorted) -/
def builtinNames : VType → List String
  | .STRING => ["at", "capitalize", "contains", "decimal", "first", "last", "len", "lower", "raw",
                "repeat", "reverse", "split", "trim", "trimLeft", "trimRight", "truncate", "upper"]
  | .ARRAY => ["append", "contains", "join", "len", "prepend", "rand", "reverse", "shuffle", "slice"]
  | .FLOAT => ["abs", "ceil", "floor", "int", "round", "str"]
  | .INTEGER => ["abs", "decimal", "float", "len", "str"]
  | .BOOLEAN => ["binary", "then"]
  | _ => []

/-- does `functions[receiverType]` exist -/
def hasBuiltinTable : VType → Bool
  | .STRING | .ARRAY | .FLOAT | .INTEGER | .BOOLEAN => true
  | _ => false

/-- chunks of a string: each rune with its raw bytes -/
def runeChunks (s : Bytes) : List (Rune × Bytes) := go s.length s
where
  go : Nat → Bytes → List (Rune × Bytes)
  | 0, _ => []
  | fuel + 1, s =>
    match s with
    | [] => []
    | _ :: _ =>
      let (r, w) := decodeRune s
      (r, s.take w) :: go fuel (s.drop w)

def trimLeftSet (s cut : Bytes) : Bytes :=
  let cs := decodeRunes cut
  ((runeChunks s).dropWhile fun p => cs.contains p.1).flatMap (·.2)

def trimRightSet (s cut : Bytes) : Bytes :=
  let cs := decodeRunes cut
  (((runeChunks s).reverse.dropWhile fun p => cs.contains p.1).reverse).flatMap (·.2)

/-- `strings.Split(s, sep)` -/
def splitBytes (s sep : Bytes) : List Bytes :=
  if sep.isEmpty then (runeChunks s).map (·.2)
  else go s.length s []
where
  go : Nat → Bytes → Bytes → List Bytes
  | 0, _, cur => [cur]
  | fuel + 1, s, cur =>
    match s with
    | [] => [cur]
    | c :: t =>
      if isPrefixOf sep s then cur :: go fuel (s.drop sep.length) []
      else go fuel t (cur ++ [c])

/-- `utils.StrIsInt` (`strconv.Atoi`) -/
def strIsInt (s : Bytes) : Bool :=
  let (neg, ds) : Bool × Bytes :=
    match s with
    | 45 :: t => (true, t)
    | 43 :: t => (false, t)
    | _ => (false, s)
  if ds.isEmpty || !ds.all (fun c => 48 ≤ c && c ≤ 57) then false
  else
    let n := ds.foldl (fun a c => a * 10 + (c - 48)) 0
    if neg then n ≤ 9223372036854775808 else n ≤ 9223372036854775807

/-- `addDecimals` -/
def addDecimals (val : Bytes) (tname : Bytes) (args : List Val) : BRes :=
  if !strIsInt val then .ok (.str val)
  else if args.length > 2 then .error ("ErrFuncMaxArgs", [b "decimal", tname, b "2"])
  else
    let sepR : Except BErr Bytes :=
      match args with
      | [] => .ok [46]
      | .str s :: _ => .ok s
      | _ :: _ => .error ("ErrFuncFirstArgStr", [b "decimal", tname])
    match sepR with
    | .error e => .error e
    | .ok sep =>
      let decR : Except BErr Nat :=
        match args with
        | [_, .int d] =>
          if d < 0 then .error ("ErrFuncArgNegative", [b "decimal", tname])
          else if d.toInt.toNat > maxStrLen then .error ("ErrFuncResultTooLong", [b "decimal", tname, natToBytes maxStrLen])
          else .ok d.toInt.toNat
        | [_, _] => .error ("ErrFuncSecondArgInt", [b "decimal", tname])
        | _ => .ok 2
      match decR with
      | .error e => .error e
      | .ok dec => if dec == 0 then .ok (.str val) else .ok (.str (val ++ sep ++ List.replicate dec 48))

/-- `strAtFunc` -/
def strAt (s : Bytes) (index : Int) : Val :=
  let chars := decodeRunes s
  if chars.isEmpty then .nil
  else
    let i := if index < 0 then (chars.length : Int) + index else index
    if i < 0 || i ≥ chars.length then .nil
    else .str (encodeRune (chars.getD i.toNat 0))

def optStrArg (fname : String) (args : List Val) (dflt : Bytes) : Except BErr Bytes :=
  match args with
  | [] => .ok dflt
  | .str s :: _ => .ok s
  | _ :: _ => .error ("ErrFuncFirstArgStr", [b fname, strT])

def defaultCharTrim : Bytes := [9, 32, 10, 13]

def strBuiltin (fname : Bytes) (s : Bytes) (args : List Val) : Option BRes :=
  if fname == b "len" then some (.ok (.int (Int64.ofNat (decodeRunes s).length)))
  else if fname == b "split" then
    some (match optStrArg "split" args [32] with
      | .error e => .error e
      | .ok sep => .ok (.arr ((splitBytes s sep).map .str)))
  else if fname == b "raw" then some (.ok (.str (htmlUnescape s)))
  else if fname == b "trim" then
    some (match optStrArg "trim" args defaultCharTrim with
      | .error e => .error e
      | .ok cut => .ok (.str (trimRightSet (trimLeftSet s cut) cut)))
  else if fname == b "trimRight" then
    some (match optStrArg "trimRight" args defaultCharTrim with
      | .error e => .error e
      | .ok cut => .ok (.str (trimRightSet s cut)))
  else if fname == b "trimLeft" then
    some (match optStrArg "trimLeft" args defaultCharTrim with
      | .error e => .error e
      | .ok cut => .ok (.str (trimLeftSet s cut)))
  else if fname == b "upper" then some (.ok (.str (toUpper s)))
  else if fname == b "lower" then some (.ok (.str (toLower s)))
  else if fname == b "capitalize" then
    some (if s.isEmpty then .ok (.str [])
      else
        let (_, w) := decodeRune s
        .ok (.str (toUpper (s.take w) ++ s.drop w)))
  else if fname == b "reverse" then some (.ok (.str (encodeRunes (decodeRunes s).reverse)))
  else if fname == b "contains" then
    some (match args with
      | [] => .error ("ErrFuncRequiresOneArg", [b "contains", strT])
      | .str sub :: _ => .ok (.bool (containsSub s sub))
      | _ :: _ => .error ("ErrFuncFirstArgStr", [b "contains", strT]))
  else if fname == b "truncate" then
    some (match args with
      | [] => .error ("ErrFuncRequiresOneArg", [b "truncate", strT])
      | .int limit :: rest =>
        if limit < 0 then .error ("ErrFuncArgNegative", [b "truncate", strT])
        else
          let runes := decodeRunes s
          if limit.toInt ≥ runes.length then .ok (.str s)
          else
            let ell : Except BErr Bytes :=
              match rest with
              | [] => .ok (b "...")
              | .str e :: _ => .ok e
              | _ :: _ => .error ("ErrFuncSecondArgStr", [b "truncate", strT])
            match ell with
            | .error e => .error e
            | .ok e => .ok (.str (encodeRunes (runes.take limit.toInt.toNat) ++ e))
      | _ :: _ => .error ("ErrFuncFirstArgInt", [b "truncate", strT]))
  else if fname == b "decimal" then some (addDecimals s strT args)
  else if fname == b "at" then
    some (match args with
      | [] => .ok (strAt s 0)
      | .int i :: _ => .ok (strAt s i.toInt)
      | _ :: _ => .error ("ErrFuncFirstArgInt", [b "at", strT]))
  else if fname == b "first" then some (.ok (strAt s 0))
  else if fname == b "last" then some (.ok (strAt s (-1)))
  else if fname == b "repeat" then
    some (match args with
      | [] => .error ("ErrFuncRequiresOneArg", [b "repeat", strT])
      | .int n :: _ =>
        if n < 0 then .error ("ErrFuncArgNegative", [b "repeat", strT])
        else if s.length > 0 && n.toInt.toNat > maxStrLen / s.length then
          .error ("ErrFuncResultTooLong", [b "repeat", strT, natToBytes maxStrLen])
        else .ok (.str ((List.replicate n.toInt.toNat s).flatten))
      | _ :: _ => .error ("ErrFuncFirstArgInt", [b "repeat", strT]))
  else none

def clampSlice (len : Nat) (start : Int) (endO : Option Int) : Nat × Nat :=
  let s : Int := if start < 0 then 0 else if start > len then len else start
  match endO with
  | none => (s.toNat, len)
  | some e =>
    let e1 : Int := if e < 0 || e > len then len else e
    let e2 : Int := if e1 < s then s else e1
    (s.toNat, e2.toNat)

def arrBuiltin (fname : Bytes) (xs : List Val) (args : List Val) : Option BRes :=
  if fname == b "len" then some (.ok (.int (Int64.ofNat xs.length)))
  else if fname == b "join" then
    some (match args with
      | [] => .ok (.str (joinBytes [44] (xs.map Val.toStr)))
      | .str sep :: _ => .ok (.str (joinBytes sep (xs.map Val.toStr)))
      | _ :: _ => .error ("ErrFuncFirstArgStr", [b "join", arrT]))
  else if fname == b "rand" then some (.ok (xs.headD .nil))
  else if fname == b "reverse" then some (.ok (.arr xs.reverse))
  else if fname == b "slice" then
    some (match args with
      | [] => .error ("ErrFuncRequiresOneArg", [b "slice", arrT])
      | [.int st] => let (s, e) := clampSlice xs.length st.toInt none; .ok (.arr ((xs.take e).drop s))
      | .int st :: .int en :: _ =>
        let (s, e) := clampSlice xs.length st.toInt (some en.toInt); .ok (.arr ((xs.take e).drop s))
      | .int _ :: _ :: _ => .error ("ErrFuncSecondArgInt", [b "slice", arrT])
      | _ :: _ => .error ("ErrFuncFirstArgInt", [b "slice", arrT]))
  else if fname == b "shuffle" then
    some (if xs.length ≤ 1 then .ok (.arr xs) else .error ("ModelUnsupported", [b "shuffle"]))
  else if fname == b "contains" then
    some (match args with
      | [] => .error ("ErrFuncRequiresOneArg", [b "contains", arrT])
      | t :: _ => .ok (.bool (xs.any fun x => Val.beq x t)))
  else if fname == b "append" then
    some (if args.isEmpty then .error ("ErrFuncRequiresOneArg", [b "append", arrT]) else .ok (.arr (xs ++ args)))
  else if fname == b "prepend" then
    some (if args.isEmpty then .error ("ErrFuncRequiresOneArg", [b "prepend", arrT]) else .ok (.arr (args ++ xs)))
  else none

def floatBuiltin (fname : Bytes) (f : Float) : Option BRes :=
  if fname == b "int" then some (.ok (.int f.toInt64))
  else if fname == b "str" then some (.ok (.str (fmtFloat f)))
  else if fname == b "abs" then some (.ok (.float (if f < 0 then -f else f)))
  else if fname == b "ceil" then some (.ok (.int f.ceil.toInt64))
  else if fname == b "floor" then some (.ok (.int f.floor.toInt64))
  else if fname == b "round" then some (.ok (.int f.round.toInt64))
  else none

def intBuiltin (fname : Bytes) (i : Int64) (args : List Val) : Option BRes :=
  if fname == b "float" then some (.ok (.float (Float.ofInt i.toInt)))
  else if fname == b "abs" then some (.ok (.int (if i < 0 then -i else i)))
  else if fname == b "str" then some (.ok (.str (int64ToBytes i)))
  else if fname == b "len" then
    some (.ok (.int (Int64.ofNat (natToBytes i.toInt.natAbs).length)))
  else if fname == b "decimal" then some (addDecimals (int64ToBytes i) intT args)
  else none

def boolBuiltin (fname : Bytes) (v : Bool) (args : List Val) : Option BRes :=
  if fname == b "binary" then some (.ok (.int (if v then 1 else 0)))
  else if fname == b "then" then
    some (match args with
      | [] => .error ("ErrFuncRequiresOneArg", [b "then", b "BOOLEAN"])
      | a :: rest => if v then .ok a else .ok (rest.headD .nil))
  else none

/-- a built-in function of the receiver's type, if there is one with that name -/
def callBuiltin (recv : Val) (fname : Bytes) (args : List Val) : Option BRes :=
  match recv with
  | .str s => strBuiltin fname s args
  | .arr xs => arrBuiltin fname xs args
  | .float f => floatBuiltin fname f
  | .int i => intBuiltin fname i args
  | .bool v => boolBuiltin fname v args
  | _ => none

/-! ### custom test functions (the same library is implemented in the Go harness) -/

mutual
/-- canonical description of a native Go value (`Val()` of the object) -/
def Val.desc : Val → Bytes
  | .nil => b "nil"
  | .bool v => if v then b "b:true" else b "b:false"
  | .int v => b "i:" ++ int64ToBytes v
  | .float v => b "f:" ++ fmtFloat v
  | .str v => b "s:" ++ v
  | .arr xs => [91] ++ Val.descList xs ++ [93]
  | .obj kvs => [123] ++ Val.descPairs kvs ++ [125]
def Val.descList : List Val → Bytes
  | [] => []
  | x :: r => Val.desc x ++ [44] ++ Val.descList r
def Val.descPairs : List (Bytes × Val) → Bytes
  | [] => []
  | (k, v) :: r => k ++ [61] ++ Val.desc v ++ [44] ++ Val.descPairs r
end

/-- custom function number `fid` (0 or 1) registered for the receiver's type -/
def callCustom (fid : Nat) (recv : Val) (args : List Val) : Val :=
  match recv with
  | .str s =>
    if fid == 0 then .str (s ++ [124] ++ Val.descList args)
    else if fid == 5 then
      -- looks at its first argument (and, in Go, scribbles over it afterwards: the caller's value is not affected)
      match args with
      | .arr (x :: _) :: _ => .str (Val.desc x)
      | .obj kvs :: _ => .str (natToBytes kvs.length)
      | _ => .str (b "none")
    else .str (b "const")
  | .arr xs =>
    if fid == 0 then .arr (xs ++ args)
    else if fid == 2 then
      match args with
      | [] => .arr xs
      | a0 :: _ => .arr (xs.map fun x => if Val.desc x == Val.desc a0 then .str (b "***") else x)
    else if fid == 3 then .arr (xs ++ [.str (b "tag")] ++ args)
    else .arr [.str (Val.descList xs), .str (Val.descList args)]
  | .int i => if fid == 0 then .int (i + Int64.ofNat args.length) else .int (i * 2)
  | .float f => if fid == 0 then .float (f / 2.0) else .float (f + Float.ofNat args.length)
  | .bool v => if fid == 0 then .bool (!v) else .bool (args.length > 0)
  | v => v

end Tw
