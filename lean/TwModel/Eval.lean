/-
  TwModel.Eval — transcription of `evaluator/evaluator.go`.

  Statements evaluate to `Out` (text plus the break / continue flags that
  `hasControlStmt` finds by looking through nested `Block` objects) and the environment
  whose innermost scope they may have extended.  Every unchecked Go operation is an
  explicit `panic` result; `oof` = the fuel ran out.
-/
import TwModel.Builtins
import TwModel.Ast

namespace Tw

/-- what the loader attached to a page (see `TwModel.Loader`) and the API state the
    evaluator reads -/
structure Ctx where
  layout : Option (List Stmt) := none          -- `UseStmt.Program`
  layoutHasUse : Bool := false
  inserts : List (Nat × InsertDef) := []       -- reserve allocation number ↦ `ReserveStmt.Insert`
  comps : List (Nat × List Stmt) := []         -- component allocation number ↦ `ComponentStmt.Block`
  custom : List ((VType × Bytes) × Nat) := []  -- registered custom functions ↦ library id
  deriving Inhabited

structure Out where
  text : Bytes := []
  brk : Bool := false
  cont : Bool := false
  deriving Inhabited

def Expr.tok : Expr → Token
  | .bad => eofTok
  | .ident t _ | .int t _ | .float t _ | .str t _ | .nil t | .bool t _ | .arr t _ | .obj t _
  | .pre t _ _ | .inf t _ _ _ | .post t _ _ | .tern t _ _ _ | .index t _ _ | .dot t _ _
  | .call t _ _ _ => t

def Expr.line (e : Expr) : Nat := e.tok.errorLine

def lookupNat {α} (m : List (Nat × α)) (k : Nat) : Option α :=
  (m.find? fun p => p.1 == k).map (·.2)

def lookupCustom (c : Ctx) (ty : VType) (name : Bytes) : Option Nat :=
  (c.custom.find? fun p => p.1.1 == ty && p.1.2 == name).map (·.2)

def boolV (x : Bool) : Val := .bool x

/-- `evalIntegerInfixExp` -/
def intInfix (op : Bytes) (l r : Int64) (line : Nat) : Res Val :=
  if op == b "+" then .ok (.int (l + r))
  else if op == b "-" then .ok (.int (l - r))
  else if op == b "*" then .ok (.int (l * r))
  else if op == b "/" then (if r == 0 then .err "ErrDivisionByZero" line [] else .ok (.int (l / r)))
  else if op == b "%" then (if r == 0 then .err "ErrDivisionByZero" line [] else .ok (.int (l % r)))
  else if op == b "==" then .ok (boolV (l == r))
  else if op == b "!=" then .ok (boolV (l != r))
  else if op == b ">" then .ok (boolV (l > r))
  else if op == b "<" then .ok (boolV (l < r))
  else if op == b ">=" then .ok (boolV (l ≥ r))
  else if op == b "<=" then .ok (boolV (l ≤ r))
  else .err "ErrUnknownTypeForOperator" line [intT, op]

/-- `evalFloatInfixExp` -/
def floatInfix (op : Bytes) (l r : Float) (line : Nat) : Res Val :=
  if op == b "+" then .ok (.float (l + r))
  else if op == b "-" then .ok (.float (l - r))
  else if op == b "*" then .ok (.float (l * r))
  else if op == b "/" then .ok (.float (l / r))
  else if op == b "==" then .ok (boolV (l == r))
  else if op == b "!=" then .ok (boolV (l != r))
  else if op == b ">" then .ok (boolV (l > r))
  else if op == b "<" then .ok (boolV (l < r))
  else if op == b ">=" then .ok (boolV (l ≥ r))
  else if op == b "<=" then .ok (boolV (l ≤ r))
  else .err "ErrUnknownTypeForOperator" line [b "FLOAT", op]

/-- `evalStringInfixExp` -/
def strInfix (op : Bytes) (l r : Bytes) (line : Nat) : Res Val :=
  if op == b "==" then .ok (boolV (l == r))
  else if op == b "!=" then .ok (boolV (l != r))
  else if op == b "+" then .ok (.str (l ++ r))
  else .err "ErrUnknownTypeForOperator" line [strT, op]

/-- `evalInfixOperatorExp` -/
def infixOp (op : Bytes) (l r : Val) (line : Nat) : Res Val :=
  if l.type != r.type then .err "ErrTypeMismatch" line [l.typeName, op, r.typeName]
  else
    match l, r with
    | .int a, .int c => intInfix op a c line
    | .float a, .float c => floatInfix op a c line
    | .str a, .str c => strInfix op a c line
    | _, _ => .err "ErrUnknownTypeForOperator" line [l.typeName, op]

/-- `evalPrefixExp` after the operand was evaluated -/
def prefixOp (op : Bytes) (r : Val) (line : Nat) : Res Val :=
  if op == b "-" then
    match r with
    | .int v => .ok (.int (-v))
    | .float v => .ok (.float (-v))
    | _ => .err "ErrPrefixOperatorIsWrong" line [b "-", r.typeName]
  else if op == b "!" then
    match r with
    | .bool v => .ok (.bool (!v))
    | .nil => .ok (.bool true)
    | _ => .err "ErrPrefixOperatorIsWrong" line [b "!", r.typeName]
  else .err "ErrUnknownOperator" line [op, r.typeName]

/-- `evalPostfixOperatorExp` -/
def postfixOp (op : Bytes) (l : Val) (line : Nat) : Res Val :=
  match l with
  | .int v =>
    if op == b "++" then .ok (.int (v + 1)) else if op == b "--" then .ok (.int (v - 1))
    else .err "ErrUnknownOperator" line [l.typeName, op]
  | .float v =>
    if op == b "++" then .ok (.float (v + 1.0)) else if op == b "--" then .ok (.float (floatDec v))
    else .err "ErrUnknownOperator" line [l.typeName, op]
  | _ => .err "ErrUnknownOperator" line [l.typeName, op]

/-- `evalObjectIndexExp` -/
def objIndex (kvs : List (Bytes × Val)) (idx : Bytes) (line : Nat) : Res Val :=
  match mapGet kvs idx with
  | some v => .ok v
  | none =>
    if idx.isEmpty then .err "ErrPropertyNotFound" line [idx, b "OBJECT"]
    else
      match mapGet kvs (toUpper (idx.take 1) ++ idx.drop 1) with
      | some v => .ok v
      | none => .err "ErrPropertyNotFound" line [idx, b "OBJECT"]

/-- `evalArrayIndexExp` -/
def arrIndex (xs : List Val) (i : Int64) : Val :=
  if i < 0 || i.toInt ≥ xs.length then .nil else xs.getD i.toInt.toNat .nil

def loopObj (i n : Nat) : Val :=
  .obj [(b "first", .bool (i == 0)), (b "index", .int (Int64.ofNat i)),
        (b "iter", .int (Int64.ofNat (i + 1))), (b "last", .bool (i + 1 == n))]

def dumpHtmlPre : Bytes := b "<style>
.textwire-dump {
	overflow-x: auto;
	overflow-y: hidden;
    scrollbar-width: thin;
	margin: 4px;
}

.textwire-prop { color: #f8f8f2 }
.textwire-str { color: #c3e88d }
.textwire-num { color: #76a8ff }
.textwire-keyword { color: #c792ea }
.textwire-brace { color: #e99f33 }
.textwire-meta { color:#2c8ed0 }

.textwire-dump pre {
	background-color: #212121;
	color: white;
	padding: 20px;
	border-radius: 5px;
	margin: 0 !important;
	width: fit-content;
}
</style>
<div class=\"textwire-dump\"><pre>"

def dumpHtmlPost : Bytes := b "</pre></div>"

mutual

/-- `Eval` on expression nodes -/
def evalExpr : Nat → Ctx → Env → Expr → Res Val
  | 0, _, _, _ => .oof
  | fuel + 1, c, env, e =>
    match e with
    | .bad => .panic "Eval(nil expression)"
    | .ident t name =>
      match env.get name with
      | some v => .ok v
      | none => .err "ErrIdentifierNotFound" t.errorLine [name]
    | .int _ v => .ok (.int v)
    | .float _ v => .ok (.float v)
    | .str _ v => .ok (.str (literalValue v))
    | .nil _ => .ok .nil
    | .bool _ v => .ok (.bool v)
    | .arr _ elems =>
      match evalExprs fuel c env elems with
      | .ok vs => .ok (.arr vs)
      | .err a l as => .err a l as
      | .panic w => .panic w
      | .oof => .oof
    | .obj _ pairs =>
      match evalPairs fuel c env (sortByKey pairs) with
      | .ok kvs => .ok (.obj kvs)
      | .err a l as => .err a l as
      | .panic w => .panic w
      | .oof => .oof
    | .pre t op r =>
      match evalExpr fuel c env r with
      | .ok v => prefixOp op v t.errorLine
      | other => other
    | .tern _ cnd a bb =>
      match evalExpr fuel c env cnd with
      | .ok v => if isTruthy v then evalExpr fuel c env a else evalExpr fuel c env bb
      | other => other
    | .inf _ op l r =>
      match evalExpr fuel c env l with
      | .ok lv =>
        match evalExpr fuel c env r with
        | .ok rv => infixOp op lv rv l.line
        | other => other
      | other => other
    | .post t op l =>
      match evalExpr fuel c env l with
      | .ok v => postfixOp op v t.errorLine
      | other => other
    | .index t l i =>
      match evalExpr fuel c env l with
      | .ok lv =>
        match evalExpr fuel c env i with
        | .ok iv =>
          match lv, iv with
          | .arr xs, .int n => .ok (arrIndex xs n)
          | .obj kvs, .str k => objIndex kvs k i.line
          | _, _ => .err "ErrIndexNotSupported" t.errorLine [lv.typeName]
        | other => other
      | other => other
    | .dot t l key =>
      match evalExpr fuel c env l with
      | .ok (.obj kvs) => objIndex kvs key t.errorLine
      | .ok lv => .err "ErrDotOperatorNotSupported" t.errorLine [lv.typeName]
      | other => other
    | .call t recv fn args =>
      match evalExpr fuel c env recv with
      | .ok rv =>
        if !hasBuiltinTable rv.type then .err "ErrNoFuncForThisType" t.errorLine [fn, rv.typeName]
        else
          match evalExprs fuel c env args with
          | .ok avs =>
            match callBuiltin rv fn avs with
            | some (.ok v) => .ok v
            | some (.error (code, eargs)) => .err code t.errorLine eargs
            | none =>
              match lookupCustom c rv.type fn with
              | some fid => .ok (callCustom fid rv avs)
              | none => .err "ErrNoFuncForThisType" t.errorLine [fn, rv.typeName]
          | .err a l as => .err a l as
          | .panic w => .panic w
          | .oof => .oof
      | other => other

/-- `evalExpressions` -/
def evalExprs : Nat → Ctx → Env → List Expr → Res (List Val)
  | 0, _, _, _ => .oof
  | fuel + 1, c, env, es =>
    match es with
    | [] => .ok []
    | e :: r =>
      match evalExpr fuel c env e with
      | .ok v =>
        match evalExprs fuel c env r with
        | .ok vs => .ok (v :: vs)
        | other => other
      | .err a l as => .err a l as
      | .panic w => .panic w
      | .oof => .oof

/-- the values of an object literal / of component arguments, in the given (sorted) order -/
def evalPairs : Nat → Ctx → Env → List (Bytes × Expr) → Res (List (Bytes × Val))
  | 0, _, _, _ => .oof
  | fuel + 1, c, env, ps =>
    match ps with
    | [] => .ok []
    | (k, e) :: r =>
      match evalExpr fuel c env e with
      | .ok v =>
        match evalPairs fuel c env r with
        | .ok kvs => .ok ((k, v) :: kvs)
        | other => other
      | .err a l as => .err a l as
      | .panic w => .panic w
      | .oof => .oof

end

def Res.mapOk {α β} (r : Res α) (f : α → Res β) : Res β := r.bind f

/-- bind the component arguments in the component's scope (`newEnv.Set(key, val)`) -/
def bindArgs (env : Env) (kvs : List (Bytes × Val)) (line : Nat) : Res Env :=
  match kvs with
  | [] => .ok env
  | (k, v) :: r =>
    match env.set k v with
    | .ok env' => bindArgs env' r line
    | .error (code, args) => .err code line args

mutual

/-- `Eval` on statement nodes: the object's text and control flags, and the environment -/
def evalStmt : Nat → Ctx → Env → Stmt → Res (Out × Env)
  | 0, _, _, _ => .oof
  | fuel + 1, c, env, s =>
    match s with
    | .bad => .panic "Eval(nil statement)"
    | .html t => .ok ({ text := t.lit }, env)
    | .expr _ e =>
      match evalExpr fuel c env e with
      | .ok v => .ok ({ text := v.toStr }, env)
      | .err a l as => .err a l as
      | .panic w => .panic w
      | .oof => .oof
    | .assign t name e =>
      match evalExpr fuel c env e with
      | .ok v =>
        match env.set name v with
        | .ok env' => .ok ({}, env')
        | .error (code, args) => .err code t.errorLine args
      | .err a l as => .err a l as
      | .panic w => .panic w
      | .oof => .oof
    | .ifS _ cnd cons alts alt =>
      match evalExpr fuel c env cnd with
      | .ok v =>
        if isTruthy v then
          match evalBlock fuel c env.push cons with
          | .ok (o, _) => .ok (o, env)
          | .err a l as => .err a l as
          | .panic w => .panic w
          | .oof => .oof
        else evalElseIfs fuel c env alts alt
      | .err a l as => .err a l as
      | .panic w => .panic w
      | .oof => .oof
    | .forS t init cnd post body alt =>
      let env0 := env.push
      let r0 : Res Env :=
        match init with
        | none => .ok env0
        | some i =>
          match evalStmt fuel c env0 i with
          | .ok (_, e1) => .ok e1
          | .err a l as => .err a l as
          | .panic w => .panic w
          | .oof => .oof
      match r0 with
      | .ok env1 =>
        -- the `@else` block is rendered when the condition is false at entry
        let entry : Res Bool :=
          match cnd with
          | none => .ok true
          | some ce =>
            match evalExpr fuel c env1 ce with
            | .ok v => .ok (isTruthy v)
            | .err a l as => .err a l as
            | .panic w => .panic w
            | .oof => .oof
        match entry with
        | .ok true =>
          match forLoop fuel c env1 t init cnd post body [] with
          | .ok txt => .ok ({ text := txt }, env)
          | .err a l as => .err a l as
          | .panic w => .panic w
          | .oof => .oof
        | .ok false =>
          match alt with
          | some ab =>
            match evalBlock fuel c env1 ab with
            | .ok (o, _) => .ok (o, env)
            | .err a l as => .err a l as
            | .panic w => .panic w
            | .oof => .oof
          | none => .ok ({}, env)
        | .err a l as => .err a l as
        | .panic w => .panic w
        | .oof => .oof
      | .err a l as => .err a l as
      | .panic w => .panic w
      | .oof => .oof
    | .eachS t var arrE body alt =>
      let env0 := env.push
      match evalExpr fuel c env0 arrE with
      | .ok (.arr xs) =>
        if xs.isEmpty then
          match alt with
          | some ab =>
            match evalBlock fuel c env0 ab with
            | .ok (o, _) => .ok (o, env)
            | .err a l as => .err a l as
            | .panic w => .panic w
            | .oof => .oof
          | none => .ok ({}, env)
        else
          match eachLoop fuel c env0 t var body xs 0 xs.length [] with
          | .ok txt => .ok ({ text := txt }, env)
          | .err a l as => .err a l as
          | .panic w => .panic w
          | .oof => .oof
      | .ok v => .err "ErrEachNotArray" t.errorLine [v.typeName]
      | .err a l as => .err a l as
      | .panic w => .panic w
      | .oof => .oof
    | .use t _ =>
      match c.layout with
      | none => .err "ErrUseStmtMustHaveProgram" t.errorLine []
      | some prog =>
        if c.layoutHasUse then .err "ErrUseStmtNotAllowed" t.errorLine []
        else
          match evalProg fuel c env prog [] with
          | .ok (txt, env') => .ok ({ text := txt }, env')
          | .err a l as => .err a l as
          | .panic w => .panic w
          | .oof => .oof
    | .reserve _ _ rid =>
      match lookupNat c.inserts rid with
      | none => .ok ({}, env)
      | some ins =>
        match ins.block with
        | some blk =>
          match evalBlock fuel c env blk with
          | .ok (o, env') => .ok ({ text := o.text }, env')
          | .err a l as => .err a l as
          | .panic w => .panic w
          | .oof => .oof
        | none =>
          match ins.arg with
          | none => .err "ErrInsertMustHaveContent" ins.tok.errorLine []
          | some ae =>
            match evalExpr fuel c env ae with
            | .ok v => .ok ({ text := v.toStr }, env)
            | .err a l as => .err a l as
            | .panic w => .panic w
            | .oof => .oof
    | .insert _ _ _ _ => .ok ({}, env)
    | .breakIf _ cnd =>
      match evalExpr fuel c env cnd with
      | .ok v => .ok ({ brk := isTruthy v }, env)
      | .err a l as => .err a l as
      | .panic w => .panic w
      | .oof => .oof
    | .continueIf _ cnd =>
      match evalExpr fuel c env cnd with
      | .ok v => .ok ({ cont := isTruthy v }, env)
      | .err a l as => .err a l as
      | .panic w => .panic w
      | .oof => .oof
    | .component t name arg cid =>
      match lookupNat c.comps cid with
      | none => .err "ErrComponentMustHaveBlock" t.errorLine [literalValue name]
      | some prog =>
        let argsR : Res (List (Bytes × Val)) :=
          match arg with
          | none => .ok []
          | some pairs => evalPairs fuel c env (sortByKey pairs)
        match argsR with
        | .ok kvs =>
          match bindArgs env.push kvs t.errorLine with
          | .ok env1 =>
            match evalProg fuel c env1 prog [] with
            | .ok (txt, _) => .ok ({ text := txt }, env)
            | .err a l as => .err a l as
            | .panic w => .panic w
            | .oof => .oof
          | .err a l as => .err a l as
          | .panic w => .panic w
          | .oof => .oof
        | .err a l as => .err a l as
        | .panic w => .panic w
        | .oof => .oof
    | .slot _ _ body =>
      match body with
      | none => .ok ({}, env)
      | some blk =>
        match evalBlock fuel c env blk with
        | .ok (o, env') => .ok ({ text := o.text }, env')
        | .err a l as => .err a l as
        | .panic w => .panic w
        | .oof => .oof
    | .dump _ args =>
      match evalExprs fuel c env args with
      | .ok vs => .ok ({ text := vs.flatMap fun v => dumpHtmlPre ++ v.dump 0 ++ dumpHtmlPost }, env)
      | .err _ l _ => .err "ModelUnsupported" l [b "dump of an error"]
      | .panic w => .panic w
      | .oof => .oof
    | .brk _ => .ok ({ brk := true }, env)
    | .cont _ => .ok ({ cont := true }, env)

/-- the `@elseif` chain and the `@else` block of `evalIfStmt` -/
def evalElseIfs : Nat → Ctx → Env → List (Expr × List Stmt) → Option (List Stmt) → Res (Out × Env)
  | 0, _, _, _, _ => .oof
  | fuel + 1, c, env, alts, alt =>
    match alts with
    | [] =>
      match alt with
      | some ab =>
        match evalBlock fuel c env.push ab with
        | .ok (o, _) => .ok (o, env)
        | other => other
      | none => .ok ({}, env)
    | (ce, body) :: rest =>
      match evalExpr fuel c env ce with
      | .ok v =>
        if isTruthy v then
          match evalBlock fuel c env.push body with
          | .ok (o, _) => .ok (o, env)
          | other => other
        else evalElseIfs fuel c env rest alt
      | .err a l as => .err a l as
      | .panic w => .panic w
      | .oof => .oof

/-- `evalBlockStmt`: stops after an element that carries a break or continue -/
def evalBlock : Nat → Ctx → Env → List Stmt → Res (Out × Env)
  | 0, _, _, _ => .oof
  | fuel + 1, c, env, ss =>
    match ss with
    | [] => .ok ({}, env)
    | s :: r =>
      match evalStmt fuel c env s with
      | .ok (o, env1) =>
        if o.brk || o.cont then .ok (o, env1)
        else
          match evalBlock fuel c env1 r with
          | .ok (o2, env2) => .ok ({ text := o.text ++ o2.text, brk := o2.brk, cont := o2.cont }, env2)
          | other => other
      | other => other

/-- `evalProgram`: concatenates the text of every statement -/
def evalProg : Nat → Ctx → Env → List Stmt → Bytes → Res (Bytes × Env)
  | 0, _, _, _, _ => .oof
  | fuel + 1, c, env, ss, acc =>
    match ss with
    | [] => .ok (acc, env)
    | s :: r =>
      match evalStmt fuel c env s with
      | .ok (o, env1) => evalProg fuel c env1 r (acc ++ o.text)
      | .err a l as => .err a l as
      | .panic w => .panic w
      | .oof => .oof

/-- the `for { … }` of `evalForStmt` -/
def forLoop : Nat → Ctx → Env → Token → Option Stmt → Option Expr → Option Stmt → List Stmt → Bytes → Res Bytes
  | 0, _, _, _, _, _, _, _, _ => .oof
  | fuel + 1, c, env, t, init, cnd, post, body, acc =>
    let go : Res Bool :=
      match cnd with
      | none => .ok true
      | some ce =>
        match evalExpr fuel c env ce with
        | .ok v => .ok (isTruthy v)
        | .err a l as => .err a l as
        | .panic w => .panic w
        | .oof => .oof
    match go with
    | .ok false => .ok acc
    | .ok true =>
      match evalBlock fuel c env body with
      | .ok (o, env1) =>
        let acc' := acc ++ o.text
        if o.brk then .ok acc'
        else
          match post with
          | none => forLoop fuel c env1 t init cnd post body acc'
          | some (.expr _ pe) =>
            match evalExpr fuel c env1 pe with
            | .ok pv =>
              match init with
              | some (.assign _ name _) =>
                match env1.set name pv with
                | .ok env2 => forLoop fuel c env2 t init cnd post body acc'
                | .error (code, args) => .err code t.errorLine args
              | _ => forLoop fuel c env1 t init cnd post body acc'
            | .err a l as => .err a l as
            | .panic w => .panic w
            | .oof => .oof
          | some ps =>
            match evalStmt fuel c env1 ps with
            | .ok (_, env2) => forLoop fuel c env2 t init cnd post body acc'
            | .err a l as => .err a l as
            | .panic w => .panic w
            | .oof => .oof
      | .err a l as => .err a l as
      | .panic w => .panic w
      | .oof => .oof
    | .err a l as => .err a l as
    | .panic w => .panic w
    | .oof => .oof

/-- the `for i, elem := range elems` of `evalEachStmt` -/
def eachLoop : Nat → Ctx → Env → Token → Bytes → List Stmt → List Val → Nat → Nat → Bytes → Res Bytes
  | 0, _, _, _, _, _, _, _, _, _ => .oof
  | fuel + 1, c, env, t, var, body, xs, i, n, acc =>
    match xs with
    | [] => .ok acc
    | x :: rest =>
      match env.set var x with
      | .error (code, args) => .err code t.errorLine args
      | .ok env1 =>
        let env2 := env1.setLoop (loopObj i n)
        match evalBlock fuel c env2 body with
        | .ok (o, env3) =>
          if o.brk then .ok (acc ++ o.text)
          else eachLoop fuel c env3 t var body rest (i + 1) n (acc ++ o.text)
        | .err a l as => .err a l as
        | .panic w => .panic w
        | .oof => .oof

end

/-- fuel used by the driver for evaluation -/
def evalFuel : Nat := 100000

end Tw
