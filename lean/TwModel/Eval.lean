/-
  TwModel.Eval — transcription of `evaluator/evaluator.go`.

  Statements evaluate to `Out` (text plus the break / continue flags that
  `hasControlStmt` finds by looking through nested `Block` objects) and the environment
  whose innermost scope they may have extended.  Every unchecked Go operation is an
  explicit `panic` result; `oof` = the fuel ran out.
-/
import TwModel.Builtins
import TwModel.Ast

namespace Tw

/-- what the loader attached to a page (see `TwModel.Loader`) and the API state the
    evaluator reads -/
structure Ctx where
  layout : Option (List Stmt) := none          -- `UseStmt.Program`
  layoutHasUse : Bool := false
  inserts : List (Nat × InsertDef) := []       -- reserve allocation number ↦ `ReserveStmt.Insert`
  comps : List (Nat × List Stmt) := []         -- component allocation number ↦ `ComponentStmt.Block`
  custom : List ((VType × Bytes) × Nat) := []  -- registered custom functions ↦ library id
  deriving Inhabited

structure Out where
  text : Bytes := []
  brk : Bool := false
  cont : Bool := false
  deriving Inhabited

def Expr.tok : Expr → Token
  | .bad => eofTok
  | .ident t _ | .int t _ | .float t _ | .str t _ | .nil t | .bool t _ | .arr t _ | .obj t _
  | .pre t _ _ | .inf t _ _ _ | .post t _ _ | .tern t _ _ _ | .index t _ _ | .dot t _ _
  | .call t _ _ _ => t

def Expr.line (e : Expr) : Nat := e.tok.errorLine

def lookupNat {α} (m : List (Nat × α)) (k : Nat) : Option α :=
  (m.find? fun p => p.1 == k).map (·.2)

/-- the number that stands for a registered nil function value: the name is taken, nothing is callable -/
def nilFn : Nat := 9

/-- `hasCustomFunc`: a function is registered under the name and it is not nil -/
def lookupCustom (c : Ctx) (ty : VType) (name : Bytes) : Option Nat :=
  ((c.custom.find? fun p => p.1.1 == ty && p.1.2 == name).map (·.2)).bind fun fid => if fid == nilFn then none else some fid

def boolV (x : Bool) : Val := .bool x

/-- `evalIntegerInfixExp` -/
def intInfix (op : Bytes) (l r : Int64) (line : Nat) : Res Val :=
  if op == b "+" then .ok (.int (l + r))
  else if op == b "-" then .ok (.int (l - r))
  else if op == b "*" then .ok (.int (l * r))
  else if op == b "/" then (if r == 0 then .err "ErrDivisionByZero" line [] else .ok (.int (l / r)))
  else if op == b "%" then (if r == 0 then .err "ErrDivisionByZero" line [] else .ok (.int (l % r)))
  else if op == b "==" then .ok (boolV (l == r))
  else if op == b "!=" then .ok (boolV (l != r))
  else if op == b ">" then .ok (boolV (l > r))
  else if op == b "<" then .ok (boolV (l < r))
  else if op == b ">=" then .ok (boolV (l ≥ r))
  else if op == b "<=" then .ok (boolV (l ≤ r))
  else .err "ErrUnknownTypeForOperator" line [intT, op]

/-- `evalFloatInfixExp` -/
def floatInfix (op : Bytes) (l r : Float) (line : Nat) : Res Val :=
  if op == b "+" then .ok (.float (l + r))
  else if op == b "-" then .ok (.float (l - r))
  else if op == b "*" then .ok (.float (l * r))
  else if op == b "/" then .ok (.float (l / r))
  else if op == b "==" then .ok (boolV (l == r))
  else if op == b "!=" then .ok (boolV (l != r))
  else if op == b ">" then .ok (boolV (l > r))
  else if op == b "<" then .ok (boolV (l < r))
  else if op == b ">=" then .ok (boolV (l ≥ r))
  else if op == b "<=" then .ok (boolV (l ≤ r))
  else .err "ErrUnknownTypeForOperator" line [b "FLOAT", op]

/-- `evalStringInfixExp` -/
def strInfix (op : Bytes) (l r : Bytes) (line : Nat) : Res Val :=
  if op == b "==" then .ok (boolV (l == r))
  else if op == b "!=" then .ok (boolV (l != r))
  else if op == b "+" then .ok (.str (l ++ r))
  else .err "ErrUnknownTypeForOperator" line [strT, op]

/-- `evalInfixOperatorExp` -/
def infixOp (op : Bytes) (l r : Val) (line : Nat) : Res Val :=
  if l.type != r.type then .err "ErrTypeMismatch" line [l.typeName, op, r.typeName]
  else
    match l, r with
    | .int a, .int c => intInfix op a c line
    | .float a, .float c => floatInfix op a c line
    | .str a, .str c => strInfix op a c line
    | _, _ => .err "ErrUnknownTypeForOperator" line [l.typeName, op]

/-- `evalPrefixExp` after the operand was evaluated -/
def prefixOp (op : Bytes) (r : Val) (line : Nat) : Res Val :=
  if op == b "-" then
    match r with
    | .int v => .ok (.int (-v))
    | .float v => .ok (.float (-v))
    | _ => .err "ErrPrefixOperatorIsWrong" line [b "-", r.typeName]
  else if op == b "!" then
    match r with
    | .bool v => .ok (.bool (!v))
    | .nil => .ok (.bool true)
    | _ => .err "ErrPrefixOperatorIsWrong" line [b "!", r.typeName]
  else .err "ErrUnknownOperator" line [op, r.typeName]

/-- `evalPostfixOperatorExp` -/
def postfixOp (op : Bytes) (l : Val) (line : Nat) : Res Val :=
  match l with
  | .int v =>
    if op == b "++" then .ok (.int (v + 1)) else if op == b "--" then .ok (.int (v - 1))
    else .err "ErrUnknownOperator" line [l.typeName, op]
  | .float v =>
    if op == b "++" then .ok (.float (v + 1.0)) else if op == b "--" then .ok (.float (floatDec v))
    else .err "ErrUnknownOperator" line [l.typeName, op]
  | _ => .err "ErrUnknownOperator" line [l.typeName, op]

/-- `evalObjectIndexExp` -/
def objIndex (kvs : List (Bytes × Val)) (idx : Bytes) (line : Nat) : Res Val :=
  match mapGet kvs idx with
  | some v => .ok v
  | none =>
    if idx.isEmpty then .err "ErrPropertyNotFound" line [idx, b "OBJECT"]
    else
      match mapGet kvs (toUpper (idx.take 1) ++ idx.drop 1) with
      | some v => .ok v
      | none => .err "ErrPropertyNotFound" line [idx, b "OBJECT"]

/-- `evalArrayIndexExp` -/
def arrIndex (xs : List Val) (i : Int64) : Val :=
  if i < 0 || i.toInt ≥ xs.length then .nil else xs.getD i.toInt.toNat .nil

def loopObj (i n : Nat) : Val :=
  .obj [(b "first", .bool (i == 0)), (b "index", .int (Int64.ofNat i)),
        (b "iter", .int (Int64.ofNat (i + 1))), (b "last", .bool (i + 1 == n))]

def dumpHtmlPre : Bytes := b "<style>
.textwire-dump {
	overflow-x: auto;
	overflow-y: hidden;
    scrollbar-width: thin;
	margin: 4px;
}

.textwire-prop { color: #f8f8f2 }
.textwire-str { color: #c3e88d }
.textwire-num { color: #76a8ff }
.textwire-keyword { color: #c792ea }
.textwire-brace { color: #e99f33 }
.textwire-meta { color:#2c8ed0 }

.textwire-dump pre {
	background-color: #212121;
	color: white;
	padding: 20px;
	border-radius: 5px;
	margin: 0 !important;
	width: fit-content;
}
</style>
<div class=\"textwire-dump\"><pre>"

def dumpHtmlPost : Bytes := b "</pre></div>"

mutual

/-- `Eval` on expression nodes -/
def evalExpr : Nat → Ctx → Env → Expr → Res Val
  | 0, _, _, _ => .oof
  | fuel + 1, c, env, e =>
    match e with
    | .bad => .panic "Eval(nil expression)"
    | .ident t name =>
      match env.get name with
      | some v => .ok v
      | none => .err "ErrIdentifierNotFound" t.errorLine [name]
    | .int _ v => .ok (.int v)
    | .float _ v => .ok (.float v)
    | .str _ v => .ok (.str (literalValue v))
    | .nil _ => .ok .nil
    | .bool _ v => .ok (.bool v)
    | .arr _ elems =>
      match evalExprs fuel c env elems with
      | .ok vs => .ok (.arr vs)
      | .err a l as => .err a l as
      | .panic w => .panic w
      | .oof => .oof
    | .obj _ pairs =>
      match evalPairs fuel c env (sortByKey pairs) with
      | .ok kvs => .ok (.obj kvs)
      | .err a l as => .err a l as
      | .panic w => .panic w
      | .oof => .oof
    | .pre t op r =>
      match evalExpr fuel c env r with
      | .ok v => prefixOp op v t.errorLine
      | other => other
    | .tern _ cnd a bb =>
      match evalExpr fuel c env cnd with
      | .ok v => if isTruthy v then evalExpr fuel c env a else evalExpr fuel c env bb
      | other => other
    | .inf _ op l r =>
      match evalExpr fuel c env l with
      | .ok lv =>
        match evalExpr fuel c env r with
        | .ok rv => infixOp op lv rv l.line
        | other => other
      | other => other
    | .post t op l =>
      match evalExpr fuel c env l with
      | .ok v => postfixOp op v t.errorLine
      | other => other
    | .index t l i =>
      match evalExpr fuel c env l with
      | .ok lv =>
        match evalExpr fuel c env i with
        | .ok iv =>
          match lv, iv with
          | .arr xs, .int n => .ok (arrIndex xs n)
          | .obj kvs, .str k => objIndex kvs k i.line
          | _, _ => .err "ErrIndexNotSupported" t.errorLine [lv.typeName]
        | other => other
      | other => other
    | .dot t l key =>
      match evalExpr fuel c env l with
      | .ok (.obj kvs) => objIndex kvs key t.errorLine
      | .ok lv => .err "ErrDotOperatorNotSupported" t.errorLine [lv.typeName]
      | other => other
    | .call t recv fn args =>
      match evalExpr fuel c env recv with
      | .ok rv =>
        if !hasBuiltinTable rv.type then .err "ErrNoFuncForThisType" t.errorLine [fn, rv.typeName]
        else
          match evalExprs fuel c env args with
          | .ok avs =>
            match callBuiltin rv fn avs with
            | some (.ok v) => .ok v
            | some (.error (code, eargs)) => .err code t.errorLine eargs
            | none =>
              match lookupCustom c rv.type fn with
              | some fid => .ok (callCustom fid rv avs)
              | none => .err "ErrNoFuncForThisType" t.errorLine [fn, rv.typeName]
          | .err a l as => .err a l as
          | .panic w => .panic w
          | .oof => .oof
      | other => other

/-- `evalExpressions` -/
def evalExprs : Nat → Ctx → Env → List Expr → Res (List Val)
  | 0, _, _, _ => .oof
  | fuel + 1, c, env, es =>
    match es with
    | [] => .ok []
    | e :: r =>
      match evalExpr fuel c env e with
      | .ok v =>
        match evalExprs fuel c env r with
        | .ok vs => .ok (v :: vs)
        | other => other
      | .err a l as => .err a l as
      | .panic w => .panic w
      | .oof => .oof

/-- the values of an object literal / of component arguments, in the given (sorted) order -/
def evalPairs : Nat → Ctx → Env → List (Bytes × Expr) → Res (List (Bytes × Val))
  | 0, _, _, _ => .oof
  | fuel + 1, c, env, ps =>
    match ps with
    | [] => .ok []
    | (k, e) :: r =>
      match evalExpr fuel c env e with
      | .ok v =>
        match evalPairs fuel c env r with
        | .ok kvs => .ok ((k, v) :: kvs)
        | other => other
      | .err a l as => .err a l as
      | .panic w => .panic w
      | .oof => .oof

end

/-- bind the component arguments in the component's scope (`newEnv.Set(key, val)`) -/
def bindArgs (env : Env) (kvs : List (Bytes × Val)) (line : Nat) : Res Env :=
  match kvs with
  | [] => .ok env
  | (k, v) :: r =>
    match env.set k v with
    | .ok env' => bindArgs env' r line
    | .error (code, args) => .err code line args

/-- `env.Set` as a result -/
def setVar (env : Env) (k : Bytes) (v : Val) (line : Nat) : Res Env :=
  match env.set k v with
  | .ok env' => .ok env'
  | .error (code, args) => .err code line args

/-- the value of a `@for` condition (`none` = absent = true) -/
def condTruth (r : Res Val) : Res Bool := r.bind fun v => .ok (isTruthy v)

/-- the truth of a `@for` condition, given the expression evaluator (absent = true) -/
def loopCond (ev : Ctx → Env → Expr → Res Val) (c : Ctx) (env : Env) (cnd : Option Expr) : Res Bool :=
  match cnd with
  | none => .ok true
  | some ce => condTruth (ev c env ce)

/-- the evaluator's functions at one fuel level (what a function body may call) -/
structure Callees where
  expr : Ctx → Env → Expr → Res Val
  exprs : Ctx → Env → List Expr → Res (List Val)
  pairs : Ctx → Env → List (Bytes × Expr) → Res (List (Bytes × Val))
  stmt : Ctx → Env → Stmt → Res (Out × Env)
  elseIfs : Ctx → Env → List (Expr × List Stmt) → Option (List Stmt) → Res (Out × Env)
  block : Ctx → Env → List Stmt → Res (Out × Env)
  prog : Ctx → Env → List Stmt → Bytes → Res (Bytes × Env)
  forL : Ctx → Env → Token → Option Stmt → Option Expr → Option Stmt → List Stmt → Bytes → Res Bytes
  eachL : Ctx → Env → Token → Bytes → List Stmt → List Val → Nat → Nat → Bytes → Res Bytes

/-- `Eval` on statement nodes: the object's text and control flags, and the environment -/
def stmtBody (k : Callees) (c : Ctx) (env : Env) (s : Stmt) : Res (Out × Env) :=
  match s with
  | .bad => .panic "Eval(nil statement)"
  | .html t => .ok ({ text := t.lit }, env)
  | .expr _ e => (k.expr c env e).bind fun v => .ok ({ text := v.toStr }, env)
  | .assign t name e =>
    (k.expr c env e).bind fun v => (setVar env name v t.errorLine).bind fun env' => .ok ({}, env')
  | .ifS _ cnd cons alts alt =>
    (k.expr c env cnd).bind fun v =>
      if isTruthy v then (k.block c env.push cons).bind fun r => .ok (r.1, env)
      else k.elseIfs c env alts alt
  | .forS t init cnd post body alt =>
    (match init with
      | none => Res.ok env.push
      | some i => (k.stmt c env.push i).bind fun r => .ok r.2).bind fun env1 =>
    (loopCond k.expr c env1 cnd).bind fun entry =>
    if entry then (k.forL c env1 t init cnd post body []).bind fun txt => .ok ({ text := txt }, env)
    else
      match alt with
      | some ab => (k.block c env1 ab).bind fun r => .ok (r.1, env)
      | none => .ok ({}, env)
  | .eachS t var arrE body alt =>
    (k.expr c env.push arrE).bind fun av =>
      match av with
      | .arr xs =>
        if xs.isEmpty then
          match alt with
          | some ab => (k.block c env.push ab).bind fun r => .ok (r.1, env)
          | none => .ok ({}, env)
        else (k.eachL c env.push t var body xs 0 xs.length []).bind fun txt => .ok ({ text := txt }, env)
      | v => .err "ErrEachNotArray" t.errorLine [v.typeName]
  | .use t _ =>
    match c.layout with
    | none => .err "ErrUseStmtMustHaveProgram" t.errorLine []
    | some prog =>
      if c.layoutHasUse then .err "ErrUseStmtNotAllowed" t.errorLine []
      else (k.prog c env prog []).bind fun r => .ok ({ text := r.1 }, r.2)
  | .reserve _ _ rid =>
    match lookupNat c.inserts rid with
    | none => .ok ({}, env)
    | some ins =>
      match ins.block with
      | some blk => (k.block c env blk).bind fun r => .ok ({ text := r.1.text }, r.2)
      | none =>
        match ins.arg with
        | none => .err "ErrInsertMustHaveContent" ins.tok.errorLine []
        | some ae => (k.expr c env ae).bind fun v => .ok ({ text := v.toStr }, env)
  | .insert _ _ _ _ => .ok ({}, env)
  | .breakIf _ cnd => (k.expr c env cnd).bind fun v => .ok ({ brk := isTruthy v }, env)
  | .continueIf _ cnd => (k.expr c env cnd).bind fun v => .ok ({ cont := isTruthy v }, env)
  | .component t name arg cid =>
    match lookupNat c.comps cid with
    | none => .err "ErrComponentMustHaveBlock" t.errorLine [literalValue name]
    | some prog =>
      (match arg with
        | none => Res.ok []
        | some pairs => k.pairs c env (sortByKey pairs)).bind fun kvs =>
      (bindArgs env.push kvs t.errorLine).bind fun env1 =>
      (k.prog c env1 prog []).bind fun r => .ok ({ text := r.1 }, env)
  | .slot _ _ body =>
    match body with
    | none => .ok ({}, env)
    | some blk => (k.block c env blk).bind fun r => .ok ({ text := r.1.text }, r.2)
  | .dump _ args =>
    match k.exprs c env args with
    | .ok vs => .ok ({ text := vs.flatMap fun v => dumpHtmlPre ++ v.dump 0 ++ dumpHtmlPost }, env)
    | .err a l as => .err a l as
    | .panic w => .panic w
    | .oof => .oof
  | .brk _ => .ok ({ brk := true }, env)
  | .cont _ => .ok ({ cont := true }, env)

/-- the `@elseif` chain and the `@else` block of `evalIfStmt` -/
def elseIfsBody (k : Callees) (c : Ctx) (env : Env) (alts : List (Expr × List Stmt)) (alt : Option (List Stmt)) : Res (Out × Env) :=
  match alts with
  | [] =>
    match alt with
    | some ab => (k.block c env.push ab).bind fun r => .ok (r.1, env)
    | none => .ok ({}, env)
  | (ce, body) :: rest =>
    (k.expr c env ce).bind fun v =>
      if isTruthy v then (k.block c env.push body).bind fun r => .ok (r.1, env)
      else k.elseIfs c env rest alt

/-- `evalBlockStmt`: stops after an element that carries a break or continue -/
def blockBody (k : Callees) (c : Ctx) (env : Env) (ss : List Stmt) : Res (Out × Env) :=
  match ss with
  | [] => .ok ({}, env)
  | s :: r =>
    (k.stmt c env s).bind fun r1 =>
      if r1.1.brk || r1.1.cont then .ok r1
      else (k.block c r1.2 r).bind fun r2 =>
        .ok ({ text := r1.1.text ++ r2.1.text, brk := r2.1.brk, cont := r2.1.cont }, r2.2)

/-- `evalProgram`: concatenates the text of every statement -/
def progBody (k : Callees) (c : Ctx) (env : Env) (ss : List Stmt) (acc : Bytes) : Res (Bytes × Env) :=
  match ss with
  | [] => .ok (acc, env)
  | s :: r => (k.stmt c env s).bind fun r1 => k.prog c r1.2 r (acc ++ r1.1.text)

/-- the `for { … }` of `evalForStmt` -/
def forBody (k : Callees) (c : Ctx) (env : Env) (t : Token) (init : Option Stmt) (cnd : Option Expr) (post : Option Stmt)
    (body : List Stmt) (acc : Bytes) : Res Bytes :=
  (loopCond k.expr c env cnd).bind fun go =>
  if !go then .ok acc
  else
    (k.block c env body).bind fun r =>
      if r.1.brk then .ok (acc ++ r.1.text)
      else
        match post with
        | none => k.forL c r.2 t init cnd post body (acc ++ r.1.text)
        | some (.expr _ pe) =>
          (k.expr c r.2 pe).bind fun pv =>
            match init with
            | some (.assign _ name _) =>
              (setVar r.2 name pv t.errorLine).bind fun env2 => k.forL c env2 t init cnd post body (acc ++ r.1.text)
            | _ => k.forL c r.2 t init cnd post body (acc ++ r.1.text)
        | some ps =>
          (k.stmt c r.2 ps).bind fun r2 => k.forL c r2.2 t init cnd post body (acc ++ r.1.text)

/-- the `for i, elem := range elems` of `evalEachStmt` -/
def eachBody (k : Callees) (c : Ctx) (env : Env) (t : Token) (var : Bytes) (body : List Stmt) (xs : List Val) (i n : Nat)
    (acc : Bytes) : Res Bytes :=
  match xs with
  | [] => .ok acc
  | x :: rest =>
    (setVar env var x t.errorLine).bind fun env1 =>
    (k.block c (env1.setLoop (loopObj i n)) body).bind fun r =>
      if r.1.brk then .ok (acc ++ r.1.text)
      else k.eachL c r.2 t var body rest (i + 1) n (acc ++ r.1.text)

mutual
def evalStmt : Nat → Ctx → Env → Stmt → Res (Out × Env)
  | 0, _, _, _ => .oof
  | fuel + 1, c, env, s =>
    stmtBody ⟨evalExpr fuel, evalExprs fuel, evalPairs fuel, evalStmt fuel, evalElseIfs fuel, evalBlock fuel,
      evalProg fuel, forLoop fuel, eachLoop fuel⟩ c env s
def evalElseIfs : Nat → Ctx → Env → List (Expr × List Stmt) → Option (List Stmt) → Res (Out × Env)
  | 0, _, _, _, _ => .oof
  | fuel + 1, c, env, alts, alt =>
    elseIfsBody ⟨evalExpr fuel, evalExprs fuel, evalPairs fuel, evalStmt fuel, evalElseIfs fuel, evalBlock fuel,
      evalProg fuel, forLoop fuel, eachLoop fuel⟩ c env alts alt
def evalBlock : Nat → Ctx → Env → List Stmt → Res (Out × Env)
  | 0, _, _, _ => .oof
  | fuel + 1, c, env, ss =>
    blockBody ⟨evalExpr fuel, evalExprs fuel, evalPairs fuel, evalStmt fuel, evalElseIfs fuel, evalBlock fuel,
      evalProg fuel, forLoop fuel, eachLoop fuel⟩ c env ss
def evalProg : Nat → Ctx → Env → List Stmt → Bytes → Res (Bytes × Env)
  | 0, _, _, _, _ => .oof
  | fuel + 1, c, env, ss, acc =>
    progBody ⟨evalExpr fuel, evalExprs fuel, evalPairs fuel, evalStmt fuel, evalElseIfs fuel, evalBlock fuel,
      evalProg fuel, forLoop fuel, eachLoop fuel⟩ c env ss acc
def forLoop : Nat → Ctx → Env → Token → Option Stmt → Option Expr → Option Stmt → List Stmt → Bytes → Res Bytes
  | 0, _, _, _, _, _, _, _, _ => .oof
  | fuel + 1, c, env, t, init, cnd, post, body, acc =>
    forBody ⟨evalExpr fuel, evalExprs fuel, evalPairs fuel, evalStmt fuel, evalElseIfs fuel, evalBlock fuel,
      evalProg fuel, forLoop fuel, eachLoop fuel⟩ c env t init cnd post body acc
def eachLoop : Nat → Ctx → Env → Token → Bytes → List Stmt → List Val → Nat → Nat → Bytes → Res Bytes
  | 0, _, _, _, _, _, _, _, _, _ => .oof
  | fuel + 1, c, env, t, var, body, xs, i, n, acc =>
    eachBody ⟨evalExpr fuel, evalExprs fuel, evalPairs fuel, evalStmt fuel, evalElseIfs fuel, evalBlock fuel,
      evalProg fuel, forLoop fuel, eachLoop fuel⟩ c env t var body xs i n acc
end

/-- the evaluator's functions at fuel `f` -/
def calleesAt (f : Nat) : Callees :=
  ⟨evalExpr f, evalExprs f, evalPairs f, evalStmt f, evalElseIfs f, evalBlock f, evalProg f, forLoop f, eachLoop f⟩

/-- fuel used by the driver for evaluation -/
def evalFuel : Nat := 100000

end Tw
