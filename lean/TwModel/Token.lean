/-
  TwModel.Token — token types, positions (`token/token.go`, `token/position.go`, `token/utils.go`).
-/
import TwModel.Basic

namespace Tw

/-- `token.TokenType`, in the order of the Go `iota` block -/
inductive TT where
  | ILLEGAL | EOF | IDENT
  | HTML | INT | FLOAT | STR
  | ADD | SUB | MUL | DIV | MOD
  | INC | DEC
  | NOT | ASSIGN
  | EQ | NOT_EQ | LTHAN | GTHAN | LTHAN_EQ | GTHAN_EQ
  | LBRACES | RBRACES | LBRACE | RBRACE | LPAREN | RPAREN | LBRACKET | RBRACKET
  | QUESTION | COLON | COMMA | DOT | SEMI
  | TRUE | FALSE | NIL | IN
  | IF | ELSE | ELSE_IF | END | FOR | USE | EACH | BREAK_IF | CONTINUE_IF
  | INSERT | RESERVE | BREAK | CONTINUE | COMPONENT | SLOT | DUMP
  deriving DecidableEq, Repr, Inhabited

/-- the Go identifier of the constant -/
def TT.name : TT → String
  | .ILLEGAL => "ILLEGAL"
  | .EOF => "EOF"
  | .IDENT => "IDENT"
  | .HTML => "HTML"
  | .INT => "INT"
  | .FLOAT => "FLOAT"
  | .STR => "STR"
  | .ADD => "ADD"
  | .SUB => "SUB"
  | .MUL => "MUL"
  | .DIV => "DIV"
  | .MOD => "MOD"
  | .INC => "INC"
  | .DEC => "DEC"
  | .NOT => "NOT"
  | .ASSIGN => "ASSIGN"
  | .EQ => "EQ"
  | .NOT_EQ => "NOT_EQ"
  | .LTHAN => "LTHAN"
  | .GTHAN => "GTHAN"
  | .LTHAN_EQ => "LTHAN_EQ"
  | .GTHAN_EQ => "GTHAN_EQ"
  | .LBRACES => "LBRACES"
  | .RBRACES => "RBRACES"
  | .LBRACE => "LBRACE"
  | .RBRACE => "RBRACE"
  | .LPAREN => "LPAREN"
  | .RPAREN => "RPAREN"
  | .LBRACKET => "LBRACKET"
  | .RBRACKET => "RBRACKET"
  | .QUESTION => "QUESTION"
  | .COLON => "COLON"
  | .COMMA => "COMMA"
  | .DOT => "DOT"
  | .SEMI => "SEMI"
  | .TRUE => "TRUE"
  | .FALSE => "FALSE"
  | .NIL => "NIL"
  | .IN => "IN"
  | .IF => "IF"
  | .ELSE => "ELSE"
  | .ELSE_IF => "ELSE_IF"
  | .END => "END"
  | .FOR => "FOR"
  | .USE => "USE"
  | .EACH => "EACH"
  | .BREAK_IF => "BREAK_IF"
  | .CONTINUE_IF => "CONTINUE_IF"
  | .INSERT => "INSERT"
  | .RESERVE => "RESERVE"
  | .BREAK => "BREAK"
  | .CONTINUE => "CONTINUE"
  | .COMPONENT => "COMPONENT"
  | .SLOT => "SLOT"
  | .DUMP => "DUMP"

structure Pos where
  startLine : Nat := 0
  startCol : Nat := 0
  endLine : Nat := 0
  endCol : Nat := 0
  deriving DecidableEq, Repr, Inhabited

/-- `Position.Contains` -/
def Pos.contains (p : Pos) (line col : Nat) : Bool :=
  if line < p.startLine || line > p.endLine then false
  else if line == p.startLine && col < p.startCol then false
  else if line == p.endLine && col > p.endCol then false
  else true

structure Token where
  ty : TT
  lit : Bytes
  pos : Pos
  deriving DecidableEq, Repr, Inhabited

def eofTok : Token := { ty := .EOF, lit := [], pos := {} }

/-- `Token.ErrorLine` -/
def Token.errorLine (t : Token) : Nat := t.pos.endLine + 1

/-- `token.keywords` -/
def keywords : List (String × TT) :=
  [("false", .FALSE), ("in", .IN), ("nil", .NIL), ("true", .TRUE)]

/-- `token.directives` (sorted by keyword) -/
def directives : List (String × TT) :=
  [("@break", .BREAK), ("@breakIf", .BREAK_IF), ("@component", .COMPONENT),
   ("@continue", .CONTINUE), ("@continueIf", .CONTINUE_IF), ("@dump", .DUMP),
   ("@each", .EACH), ("@else", .ELSE), ("@elseif", .ELSE_IF), ("@end", .END),
   ("@for", .FOR), ("@if", .IF), ("@insert", .INSERT), ("@reserve", .RESERVE),
   ("@slot", .SLOT), ("@use", .USE)]

def directivesB : List (Bytes × TT) := directives.map fun (k, t) => (b k, t)
def keywordsB : List (Bytes × TT) := keywords.map fun (k, t) => (b k, t)

def lookupAssoc (tbl : List (Bytes × TT)) (k : Bytes) : Option TT :=
  match tbl with
  | [] => none
  | (k', t) :: r => if k' == k then some t else lookupAssoc r k

/-- `token.LookupIdent` -/
def lookupIdent (ident : Bytes) : TT := (lookupAssoc keywordsB ident).getD .IDENT

/-- `token.LookupDirective` -/
def lookupDirective (dir : Bytes) : TT := (lookupAssoc directivesB dir).getD .ILLEGAL

/-- `token.LongestDirective` -/
def longestDirective : Nat := directivesB.foldl (fun m (k, _) => max m k.length) 0

/-- `token.String` : the `tokens [...]string` table -/
def tokenString : TT → String
  | .ILLEGAL => "ILLEGAL" | .EOF => "EOF" | .IDENT => "IDENT"
  | .HTML => "HTML" | .INT => "INT" | .FLOAT => "FLOAT" | .STR => "STR"
  | .ADD => "+" | .SUB => "-" | .MUL => "*" | .DIV => "/" | .MOD => "%"
  | .INC => "++" | .DEC => "--" | .NOT => "!" | .ASSIGN => "="
  | .EQ => "==" | .NOT_EQ => "!=" | .LTHAN => "<" | .GTHAN => ">"
  | .LTHAN_EQ => "<=" | .GTHAN_EQ => ">="
  | .LBRACES => "{{" | .RBRACES => "}}" | .LBRACE => "{" | .RBRACE => "}"
  | .LPAREN => "(" | .RPAREN => ")" | .LBRACKET => "[" | .RBRACKET => "]"
  | .QUESTION => "?" | .COLON => ":" | .COMMA => "," | .DOT => "." | .SEMI => ";"
  | .TRUE => "true" | .FALSE => "false" | .NIL => "nil" | .IN => "in"
  | .IF => "@if" | .ELSE => "@else" | .ELSE_IF => "@elseif" | .END => "@end"
  | .FOR => "@for" | .USE => "@use" | .EACH => "@each" | .BREAK_IF => "@breakIf"
  | .CONTINUE_IF => "@continueIf" | .INSERT => "@insert" | .RESERVE => "@reserve"
  | .BREAK => "@break" | .CONTINUE => "@continue" | .COMPONENT => "@component"
  | .SLOT => "@slot" | .DUMP => "@dump"

end Tw
