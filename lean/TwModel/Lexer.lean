/-
  TwModel.Lexer — transcription of `lexer/lexer.go` (+ `lexer/utils.go`).

  The Go lexer indexes a string; here the state is the pair (consumed bytes reversed,
  remaining bytes), so `l.char = rest.head`, `l.peekChar() = rest[1]`, `l.prevChar() = pre.head`
  and `l.isEOF() = rest.isEmpty`.  Loops over the input are written as structural
  recursions that compute how far the Go loop runs; `advance` then performs that many
  `readChar`s (which maintain line / column exactly as the Go code does).
-/
import TwModel.Token

namespace Tw

def isIdentCh (c : Byte) : Bool := (97 ≤ c && c ≤ 122) || (65 ≤ c && c ≤ 90) || c == 95
def isLetterWord (c : Byte) : Bool := (97 ≤ c && c ≤ 122) || (65 ≤ c && c ≤ 90) || c == 64
def isNumberCh (c : Byte) : Bool := 48 ≤ c && c ≤ 57
def isWs (c : Byte) : Bool := c == 32 || c == 9 || c == 10 || c == 13

/-- `lexer.simpleTokens` -/
def simpleTokens : List (Byte × TT) :=
  [(37, .MOD), (42, .MUL), (44, .COMMA), (46, .DOT), (47, .DIV), (58, .COLON), (59, .SEMI),
   (63, .QUESTION), (91, .LBRACKET), (93, .RBRACKET)]

def simpleToken (c : Byte) : Option TT :=
  (simpleTokens.find? fun p => p.1 == c).map (·.2)

/-- `lexer.tokensWithoutParens` -/
def tokensWithoutParens : List TT := [.ELSE, .END, .BREAK, .CONTINUE, .SLOT]
/-- `lexer.tokensWithOptionalParens` -/
def tokensWithOptionalParens : List TT := [.SLOT]

structure Lx where
  pre : Bytes := []
  rest : Bytes
  col : Nat := 0
  prevCol : Nat := 0
  startCol : Nat := 0
  line : Nat := 0
  prevLine : Nat := 0
  startLine : Nat := 0
  reset : Bool := false        -- shouldResetCol
  isHTML : Bool := true
  isDirective : Bool := false
  parens : Int := 0            -- countDirectiveParentheses
  braces : Int := 0            -- countCurlyBraces
  panicked : Bool := false     -- `out.Truncate(-1)` in readHTML
  deriving Repr

namespace Lx

def char (s : Lx) : Byte := s.rest.headD 0
def peek (s : Lx) : Byte := (s.rest.drop 1).headD 0
def prev (s : Lx) : Byte := s.pre.headD 0
def isEOF (s : Lx) : Bool := s.rest.isEmpty

/-- `lexer.New` (the first `readChar` only loads the first byte) -/
def init (inp : Bytes) : Lx := { rest := inp, reset := inp.headD 0 == 10 && !inp.isEmpty }

/-- `readChar` (a no-op once the end of the input is reached) -/
def readChar (s : Lx) : Lx :=
  match s.rest with
  | [] => s
  | c :: r =>
    if s.reset then
      { s with pre := c :: s.pre, rest := r, prevLine := s.line, prevCol := s.col,
               col := 0, line := s.line + 1, reset := (r.headD 0 == 10 && !r.isEmpty) }
    else
      { s with pre := c :: s.pre, rest := r, prevLine := s.line, prevCol := s.col,
               col := s.col + 1, reset := (r.headD 0 == 10 && !r.isEmpty) }

def advance (s : Lx) : Nat → Lx
  | 0 => s
  | n + 1 => advance (readChar s) n

def tokenBegins (s : Lx) : Lx := { s with startCol := s.col, startLine := s.line }

/-- `newToken` -/
def newToken (s : Lx) (ty : TT) (lit : Bytes) : Token :=
  if ty == .EOF then
    { ty, lit, pos := { startLine := s.startLine, startCol := s.startCol, endLine := s.line, endCol := s.col } }
  else
    { ty, lit, pos := { startLine := s.startLine, startCol := s.startCol, endLine := s.prevLine, endCol := s.prevCol } }

end Lx

open Lx

/-- some prefix (of length 1..longest) of the bytes is a directive keyword -/
def hasDirectivePrefix (bs : Bytes) : Bool :=
  (List.range longestDirective).any fun i =>
    i + 1 ≤ bs.length && lookupDirective (bs.take (i + 1)) != .ILLEGAL

/-- `isDirectiveToken` : (isDirective, escapedDirective) -/
def isDirectiveToken (s : Lx) : Bool × Bool :=
  if s.char != 64 || s.isEOF then (false, false)
  else if hasDirectivePrefix s.rest then
    if s.prev == 92 then (false, true) else (true, false)
  else (false, false)

/-- `areBracesToken` : (areBraces, escapedBraces) -/
def areBracesToken (s : Lx) : Bool × Bool :=
  let braces := s.char == 123 && s.peek == 123
  (braces && s.prev != 92, s.prev == 92 && braces)

/-- `isPotentiallyLong`, given the bytes that follow the keyword read so far -/
def isPotentiallyLong (tok : TT) (after : Bytes) : Bool :=
  let c := after.headD 0
  let p := (after.drop 1).headD 0
  (tok == .ELSE && c == 105 && p == 102) ||
  (tok == .BREAK && c == 73 && p == 102) ||
  (tok == .CONTINUE && c == 73 && p == 102)

/-- the loop of `readDirective`: final keyword and token type -/
def dirScan (kw : Bytes) (tok : TT) : Bytes → Bytes × TT
  | [] => (kw, tok)
  | c :: r =>
    if isLetterWord c then
      let kw' := kw ++ [c]
      let tok' := lookupDirective kw'
      if !isPotentiallyLong tok' r && tok' != .ILLEGAL then (kw', tok') else dirScan kw' tok' r
    else (kw, tok)

/-- the loop of `readNumber`: number of bytes read, and `isInt` -/
def numScan : Bytes → Nat × Bool
  | [] => (0, true)
  | c :: r =>
    if isNumberCh c then
      let (n, i) := numScan r
      (n + 1, i)
    else if c == 46 then
      if isNumberCh (r.headD 0) then
        let (n, _) := numScan r
        (n + 1, false)
      else (0, true)
    else (0, true)

/-- the loop of `readString` after the opening quote, for a non-empty remainder whose first
    byte is not the quote: number of bytes that belong to the string -/
def strScan (q : Byte) : Bytes → Nat
  | [] => 0
  | c :: t =>
    match t with
    | [] => 1
    | d :: _ => if d == q && c != 92 then 1 else 1 + strScan q t

/-- offset of the first "--}}" in the bytes, or their length -/
def commentScan : Bytes → Nat
  | [] => 0
  | c :: t => if isPrefixOf [45, 45, 125, 125] (c :: t) then 0 else 1 + commentScan t

/-- the loop of `readHTML`: `prev` is the previous input byte, `out` the buffer (reversed).
    Returns the buffer (reversed), the number of bytes consumed and whether `Truncate`
    was called on an empty buffer. -/
def htmlScan (prev : Byte) (out : Bytes) (n : Nat) (pan : Bool) : Bytes → Bytes × Nat × Bool
  | [] => (out, n, pan)
  | c :: r =>
    let isAt := c == 64 && hasDirectivePrefix (c :: r)
    let braces := c == 123 && r.headD 0 == 123
    let esc := prev == 92
    if (braces || isAt) && !esc then (out, n, pan)
    else if (braces || isAt) then
      -- escaped: drop the backslash written before
      htmlScan c (c :: out.tail) (n + 1) (pan || out.isEmpty) r
    else htmlScan c (c :: out) (n + 1) pan r

/-- result of one call of the non-recursive part of `NextToken` -/
inductive LexStep where
  | tok (t : Token)
  | again            -- a comment was skipped: `return l.NextToken()`

/-- a token that covers the next `n` bytes: `tokenBegins`, `n` times `readChar`, `newToken` -/
def emit (s : Lx) (n : Nat) (ty : TT) (lit : Bytes) : Token × Lx :=
  let s1 := s.tokenBegins.advance n
  (s1.newToken ty lit, s1)

def bracesToken (s : Lx) (ty : TT) (lit : Bytes) : Token × Lx :=
  emit { s with isHTML := ty != TT.LBRACES } 2 ty lit

def illegalToken (s : Lx) : Token × Lx := emit s 1 .ILLEGAL [s.char]

/-- one byte token at the current byte -/
def tok1 (s : Lx) (ty : TT) (lit : Bytes) : Token × Lx := emit s 1 ty lit

def tok2 (s : Lx) (ty : TT) (lit : Bytes) : Token × Lx := emit s 2 ty lit

/-- number of bytes `readString` consumes (both quotes included; one less when the string is
    not terminated) and the raw text between the quotes -/
def strSpan (rest : Bytes) : Nat × Bytes :=
  let q := rest.headD 0
  let after := rest.drop 1
  if after.headD 0 == q && !after.isEmpty then (2, [])
  else
    let n := strScan q after
    (n + 2, after.take n)

/-- what a token-producing branch decides before the token is read: the state with its flags
    updated (same bytes, same position), the number of bytes the token covers, its type and
    literal -/
structure TokDesc where
  st : Lx
  n : Nat
  ty : TT
  lit : Bytes

def TokDesc.emit (d : TokDesc) : Token × Lx := Tw.emit d.st d.n d.ty d.lit

def illegalDesc (s : Lx) : TokDesc := { st := s, n := 1, ty := .ILLEGAL, lit := [s.char] }

/-- `directiveToken`: the keyword found by `readDirective` (ILLEGAL cannot happen when
    `isDirectiveToken` said yes; Go then emits an ILLEGAL token for the byte after the keyword) -/
def directiveDesc (s : Lx) : TokDesc :=
  if s.char != 64 then illegalDesc s
  else
    let (kw, tok) := dirScan [] .ILLEGAL s.rest
    if tok == .ILLEGAL then illegalDesc (s.tokenBegins.advance kw.length)
    else { st := s, n := kw.length, ty := tok, lit := kw }

def directiveToken (s : Lx) : Token × Lx :=
  let d := directiveDesc s
  let (t, s1) := d.emit
  if d.ty == .ILLEGAL then (t, s1)
  else
    let hasOptionalParens := tokensWithOptionalParens.contains d.ty && s1.char == 40
    let hasNoParens := tokensWithoutParens.contains d.ty
    let isDir := hasOptionalParens || !hasNoParens
    (t, { s1 with isDirective := isDir, isHTML := !isDir })

def strDesc (s : Lx) : TokDesc :=
  let q := s.char
  let (n, raw) := strSpan s.rest
  { st := s, n := n, ty := .STR, lit := replaceAll raw [92, q] [q] }

/-- identifiers, numbers, and everything else (ILLEGAL) -/
def wordDesc (s : Lx) : TokDesc :=
  if isIdentCh s.char then
    { st := s, n := (s.rest.takeWhile fun x => isIdentCh x || isNumberCh x).length,
      ty := lookupIdent (s.rest.takeWhile fun x => isIdentCh x || isNumberCh x),
      lit := s.rest.takeWhile fun x => isIdentCh x || isNumberCh x }
  else if isNumberCh s.char then
    { st := s, n := (numScan s.rest).1, ty := (if (numScan s.rest).2 then .INT else .FLOAT), lit := s.rest.take (numScan s.rest).1 }
  else illegalDesc s

/-- one or two byte operators -/
def opDesc (s : Lx) : TokDesc :=
  if s.char == 60 then (if s.peek == 61 then { st := s, n := 2, ty := .LTHAN_EQ, lit := [60, 61] } else { st := s, n := 1, ty := .LTHAN, lit := [60] })
  else if s.char == 62 then (if s.peek == 61 then { st := s, n := 2, ty := .GTHAN_EQ, lit := [62, 61] } else { st := s, n := 1, ty := .GTHAN, lit := [62] })
  else if s.char == 33 then (if s.peek == 61 then { st := s, n := 2, ty := .NOT_EQ, lit := [33, 61] } else { st := s, n := 1, ty := .NOT, lit := [33] })
  else if s.char == 45 then (if s.peek == 45 then { st := s, n := 2, ty := .DEC, lit := [45, 45] } else { st := s, n := 1, ty := .SUB, lit := [45] })
  else if s.char == 43 then (if s.peek == 43 then { st := s, n := 2, ty := .INC, lit := [43, 43] } else { st := s, n := 1, ty := .ADD, lit := [43] })
  else if s.char == 61 then (if s.peek == 61 then { st := s, n := 2, ty := .EQ, lit := [61, 61] } else { st := s, n := 1, ty := .ASSIGN, lit := [61] })
  else wordDesc s

/-- braces and parentheses (they update the nesting counters and the mode) -/
def bracketDesc (s : Lx) : TokDesc :=
  if s.char == 123 then { st := { s with braces := s.braces + 1 }, n := 1, ty := .LBRACE, lit := [123] }
  else if s.char == 125 then { st := { s with braces := s.braces - 1 }, n := 1, ty := .RBRACE, lit := [125] }
  else if s.char == 40 then
    { st := (if s.isDirective then { s with parens := s.parens + 1 } else s), n := 1, ty := .LPAREN, lit := [40] }
  else if s.char == 41 then
    { st := (if s.isDirective && s.parens - 1 == 0 then { s with parens := s.parens - 1, isDirective := false, isHTML := true }
             else if s.isDirective then { s with parens := s.parens - 1 } else s),
      n := 1, ty := .RPAREN, lit := [41] }
  else if s.char == 34 || s.char == 39 then strDesc s
  else opDesc s

/-- `embeddedCodeToken` -/
def codeDesc (s : Lx) : TokDesc :=
  match simpleToken s.char with
  | some ty => { st := s, n := 1, ty := ty, lit := [s.char] }
  | none => bracketDesc s

def embeddedCodeToken (s : Lx) : Token × Lx := (codeDesc s).emit

/-- `skipComment`, called with the current byte at the "--" that follows "{{" -/
def skipComment (s : Lx) : Lx :=
  let s1 := s.readChar.readChar
  let n := commentScan s1.rest
  let s2 := s1.advance n
  if s2.isEOF then s2
  else ({ s2 with isHTML := true }).advance 4

/-- `skipWhitespace` (only in code mode) -/
def skipWs (s : Lx) : Lx :=
  if !s.isHTML then s.advance (s.rest.takeWhile isWs).length else s

/-- the HTML branch of `NextToken`: `readHTML` -/
def htmlToken (s : Lx) : Token × Lx :=
  let (t, s1) := emit s (htmlScan s.prev [] 0 false s.rest).2.1 .HTML (htmlScan s.prev [] 0 false s.rest).1.reverse
  (t, { s1 with panicked := s1.panicked || (htmlScan s.prev [] 0 false s.rest).2.2 })

/-- the body of `NextToken` after `skipWhitespace`, without its tail call -/
def stepAt (s : Lx) : LexStep × Lx :=
  if s.isEOF then (.tok (s.tokenBegins.newToken .EOF []), s.tokenBegins)
  else if s.char == 123 && s.peek == 123 then
    if (bracesToken s .LBRACES [123, 123]).2.char == 45 && (bracesToken s .LBRACES [123, 123]).2.peek == 45 then
      (.again, skipComment (bracesToken s .LBRACES [123, 123]).2)
    else (.tok (bracesToken s .LBRACES [123, 123]).1, (bracesToken s .LBRACES [123, 123]).2)
  else if !s.isHTML && s.char == 125 && s.peek == 125 && s.braces == 0 then
    (.tok (bracesToken s .RBRACES [125, 125]).1, (bracesToken s .RBRACES [125, 125]).2)
  else if !s.isHTML then (.tok (embeddedCodeToken s).1, (embeddedCodeToken s).2)
  else if (isDirectiveToken s).1 then (.tok (directiveToken s).1, (directiveToken s).2)
  else (.tok (htmlToken s).1, (htmlToken s).2)

def nextStep (s : Lx) : LexStep × Lx := stepAt (skipWs s)

/-- all tokens up to and including the first `EOF`, and the final lexer state.
    `fuel` bounds the number of `NextToken` bodies executed. -/
def lexAll : Nat → Lx → Option (List Token × Lx)
  | 0, _ => none
  | fuel + 1, s =>
    match nextStep s with
    | (.again, s1) => lexAll fuel s1
    | (.tok t, s1) =>
      if t.ty == .EOF then some ([t], s1)
      else (lexAll fuel s1).map fun (ts, sf) => (t :: ts, sf)

structure LexResult where
  toks : List Token
  insideCode : Bool        -- `Lexer.IsInsideCode()` once EOF was produced
  panicked : Bool
  deriving Repr

/-- fuel that `lexAll` never exhausts: every step but the last consumes a byte -/
def lexFuel (inp : Bytes) : Nat := inp.length + 2

def tokenize (inp : Bytes) : Option LexResult :=
  (lexAll (lexFuel inp) (Lx.init inp)).map fun (ts, sf) =>
    { toks := ts, insideCode := !sf.isHTML, panicked := sf.panicked }

/-- positions of the bytes of the input, in order: zero-based line and byte column -/
def posTable (inp : Bytes) : List (Nat × Nat) := go inp 0 0
where
  go : Bytes → Nat → Nat → List (Nat × Nat)
  | [], _, _ => []
  | c :: r, l, col => (l, col) :: (if c == 10 then go r (l + 1) 0 else go r l (col + 1))

/-- for every byte of the input, the indices of the tokens (EOF excluded) whose
    `Position.Contains` accepts the byte's position -/
def coverTable (inp : Bytes) (toks : List Token) : List (List Nat) :=
  (posTable inp).map fun (l, c) =>
    (List.range toks.length).filter fun k =>
      match toks[k]? with
      | some t => t.ty != .EOF && t.pos.contains l c
      | none => false

end Tw
