/-
  TwModel.Lexer — transcription of `lexer/lexer.go` (+ `lexer/utils.go`).

  The Go lexer indexes a string; here the state is the pair (consumed bytes reversed,
  remaining bytes), so `l.char = rest.head`, `l.peekChar() = rest[1]`, `l.prevChar() = pre.head`
  and `l.isEOF() = rest.isEmpty`.  Loops over the input are written as structural
  recursions that compute how far the Go loop runs; `advance` then performs that many
  `readChar`s (which maintain line / column exactly as the Go code does).
-/
import TwModel.Token

namespace Tw

def isIdentCh (c : Byte) : Bool := (97 ≤ c && c ≤ 122) || (65 ≤ c && c ≤ 90) || c == 95
def isLetterWord (c : Byte) : Bool := (97 ≤ c && c ≤ 122) || (65 ≤ c && c ≤ 90) || c == 64
def isNumberCh (c : Byte) : Bool := 48 ≤ c && c ≤ 57
def isWs (c : Byte) : Bool := c == 32 || c == 9 || c == 10 || c == 13

/-- `lexer.simpleTokens` -/
def simpleTokens : List (Byte × TT) :=
  [(37, .MOD), (42, .MUL), (44, .COMMA), (46, .DOT), (47, .DIV), (58, .COLON), (59, .SEMI),
   (63, .QUESTION), (91, .LBRACKET), (93, .RBRACKET)]

def simpleToken (c : Byte) : Option TT :=
  (simpleTokens.find? fun p => p.1 == c).map (·.2)

/-- `lexer.tokensWithoutParens` -/
def tokensWithoutParens : List TT := [.ELSE, .END, .BREAK, .CONTINUE, .SLOT]
/-- `lexer.tokensWithOptionalParens` -/
def tokensWithOptionalParens : List TT := [.SLOT]

structure Lx where
  pre : Bytes := []
  rest : Bytes
  col : Nat := 0
  prevCol : Nat := 0
  startCol : Nat := 0
  line : Nat := 0
  prevLine : Nat := 0
  startLine : Nat := 0
  reset : Bool := false        -- shouldResetCol
  isHTML : Bool := true
  isDirective : Bool := false
  parens : Int := 0            -- countDirectiveParentheses
  braces : Int := 0            -- countCurlyBraces
  panicked : Bool := false     -- `out.Truncate(-1)` in readHTML
  deriving Repr

namespace Lx

def char (s : Lx) : Byte := s.rest.headD 0
def peek (s : Lx) : Byte := (s.rest.drop 1).headD 0
def prev (s : Lx) : Byte := s.pre.headD 0
def isEOF (s : Lx) : Bool := s.rest.isEmpty

/-- `lexer.New` (the first `readChar` only loads the first byte) -/
def init (inp : Bytes) : Lx := { rest := inp, reset := inp.headD 0 == 10 && !inp.isEmpty }

/-- `readChar` (a no-op once the end of the input is reached) -/
def readChar (s : Lx) : Lx :=
  match s.rest with
  | [] => s
  | c :: r =>
    if s.reset then
      { s with pre := c :: s.pre, rest := r, prevLine := s.line, prevCol := s.col,
               col := 0, line := s.line + 1, reset := (r.headD 0 == 10 && !r.isEmpty) }
    else
      { s with pre := c :: s.pre, rest := r, prevLine := s.line, prevCol := s.col,
               col := s.col + 1, reset := (r.headD 0 == 10 && !r.isEmpty) }

def advance (s : Lx) : Nat → Lx
  | 0 => s
  | n + 1 => advance (readChar s) n

def tokenBegins (s : Lx) : Lx := { s with startCol := s.col, startLine := s.line }

/-- `newToken` -/
def newToken (s : Lx) (ty : TT) (lit : Bytes) : Token :=
  if ty == .EOF then
    { ty, lit, pos := { startLine := s.startLine, startCol := s.startCol, endLine := s.line, endCol := s.col } }
  else
    { ty, lit, pos := { startLine := s.startLine, startCol := s.startCol, endLine := s.prevLine, endCol := s.prevCol } }

end Lx

open Lx

/-- some prefix (of length 1..longest) of the bytes is a directive keyword -/
def hasDirectivePrefix (bs : Bytes) : Bool :=
  (List.range longestDirective).any fun i =>
    i + 1 ≤ bs.length && lookupDirective (bs.take (i + 1)) != .ILLEGAL

/-- `isDirectiveToken` : (isDirective, escapedDirective) -/
def isDirectiveToken (s : Lx) : Bool × Bool :=
  if s.char != 64 || s.isEOF then (false, false)
  else if hasDirectivePrefix s.rest then
    if s.prev == 92 then (false, true) else (true, false)
  else (false, false)

/-- `areBracesToken` : (areBraces, escapedBraces) -/
def areBracesToken (s : Lx) : Bool × Bool :=
  let braces := s.char == 123 && s.peek == 123
  (braces && s.prev != 92, s.prev == 92 && braces)

/-- `isPotentiallyLong`, given the bytes that follow the keyword read so far -/
def isPotentiallyLong (tok : TT) (after : Bytes) : Bool :=
  let c := after.headD 0
  let p := (after.drop 1).headD 0
  (tok == .ELSE && c == 105 && p == 102) ||
  (tok == .BREAK && c == 73 && p == 102) ||
  (tok == .CONTINUE && c == 73 && p == 102)

/-- the loop of `readDirective`: final keyword and token type -/
def dirScan (kw : Bytes) (tok : TT) : Bytes → Bytes × TT
  | [] => (kw, tok)
  | c :: r =>
    if isLetterWord c then
      let kw' := kw ++ [c]
      let tok' := lookupDirective kw'
      if !isPotentiallyLong tok' r && tok' != .ILLEGAL then (kw', tok') else dirScan kw' tok' r
    else (kw, tok)

/-- the loop of `readNumber`: number of bytes read, and `isInt` -/
def numScan : Bytes → Nat × Bool
  | [] => (0, true)
  | c :: r =>
    if isNumberCh c then
      let (n, i) := numScan r
      (n + 1, i)
    else if c == 46 then
      if isNumberCh (r.headD 0) then
        let (n, _) := numScan r
        (n + 1, false)
      else (0, true)
    else (0, true)

/-- the loop of `readString` after the opening quote, for a non-empty remainder whose first
    byte is not the quote: number of bytes that belong to the string -/
def strScan (q : Byte) : Bytes → Nat
  | [] => 0
  | c :: t =>
    match t with
    | [] => 1
    | d :: _ => if d == q && c != 92 then 1 else 1 + strScan q t

/-- offset of the first "--}}" in the bytes, or their length -/
def commentScan : Bytes → Nat
  | [] => 0
  | c :: t => if isPrefixOf [45, 45, 125, 125] (c :: t) then 0 else 1 + commentScan t

/-- the loop of `readHTML`: `prev` is the previous input byte, `out` the buffer (reversed).
    Returns the buffer (reversed), the number of bytes consumed and whether `Truncate`
    was called on an empty buffer. -/
def htmlScan (prev : Byte) (out : Bytes) (n : Nat) (pan : Bool) : Bytes → Bytes × Nat × Bool
  | [] => (out, n, pan)
  | c :: r =>
    let isAt := c == 64 && hasDirectivePrefix (c :: r)
    let braces := c == 123 && r.headD 0 == 123
    let esc := prev == 92
    if (braces || isAt) && !esc then (out, n, pan)
    else if (braces || isAt) then
      -- escaped: drop the backslash written before
      htmlScan c (c :: out.tail) (n + 1) (pan || out.isEmpty) r
    else htmlScan c (c :: out) (n + 1) pan r

/-- result of one call of the non-recursive part of `NextToken` -/
inductive LexStep where
  | tok (t : Token)
  | again            -- a comment was skipped: `return l.NextToken()`

def bracesToken (s : Lx) (ty : TT) (lit : Bytes) : Token × Lx :=
  let s1 := { s with isHTML := ty != TT.LBRACES }
  let s2 := (s1.tokenBegins.readChar).readChar
  (s2.newToken ty lit, s2)

def illegalToken (s : Lx) : Token × Lx :=
  let c := s.char
  let s1 := s.tokenBegins.readChar
  (s1.newToken .ILLEGAL [c], s1)

/-- one byte token at the current byte -/
def tok1 (s : Lx) (ty : TT) (lit : Bytes) : Token × Lx :=
  let s1 := s.tokenBegins.readChar
  (s1.newToken ty lit, s1)

def tok2 (s : Lx) (ty : TT) (lit : Bytes) : Token × Lx :=
  let s1 := s.tokenBegins.readChar.readChar
  (s1.newToken ty lit, s1)

def readString (s : Lx) : Token × Lx :=
  let q := s.char
  let s1 := s.tokenBegins.readChar
  if s1.char == q && !s1.isEOF then
    let s2 := s1.readChar
    (s2.newToken .STR [], s2)
  else
    let n := strScan q s1.rest
    let raw := s1.rest.take n
    let s2 := (s1.advance n).readChar
    (s2.newToken .STR (replaceAll raw [92, q] [q]), s2)

def directiveToken (s : Lx) : Token × Lx :=
  if s.char != 64 then illegalToken s
  else
    let s0 := s.tokenBegins
    let (kw, tok) := dirScan [] .ILLEGAL s0.rest
    let s1 := s0.advance kw.length
    if tok == .ILLEGAL then illegalToken s1
    else
      let hasOptionalParens := tokensWithOptionalParens.contains tok && s1.char == 40
      let hasNoParens := tokensWithoutParens.contains tok
      let isDir := hasOptionalParens || !hasNoParens
      let s2 := { s1 with isDirective := isDir, isHTML := !isDir }
      (s2.newToken tok kw, s2)

def embeddedCodeToken (s : Lx) : Token × Lx :=
  let c := s.char
  match simpleToken c with
  | some ty => tok1 s ty [c]
  | none =>
    if c == 123 then tok1 { s with braces := s.braces + 1 } .LBRACE [123]
    else if c == 125 then tok1 { s with braces := s.braces - 1 } .RBRACE [125]
    else if c == 40 then
      tok1 (if s.isDirective then { s with parens := s.parens + 1 } else s) .LPAREN [40]
    else if c == 41 then
      let s1 := if s.isDirective then { s with parens := s.parens - 1 } else s
      let s2 := if s1.isDirective && s1.parens == 0 then { s1 with isDirective := false, isHTML := true } else s1
      tok1 s2 .RPAREN [41]
    else if c == 34 || c == 39 then readString s
    else if c == 60 then (if s.peek == 61 then tok2 s .LTHAN_EQ [60, 61] else tok1 s .LTHAN [60])
    else if c == 62 then (if s.peek == 61 then tok2 s .GTHAN_EQ [62, 61] else tok1 s .GTHAN [62])
    else if c == 33 then (if s.peek == 61 then tok2 s .NOT_EQ [33, 61] else tok1 s .NOT [33])
    else if c == 45 then (if s.peek == 45 then tok2 s .DEC [45, 45] else tok1 s .SUB [45])
    else if c == 43 then (if s.peek == 43 then tok2 s .INC [43, 43] else tok1 s .ADD [43])
    else if c == 61 then (if s.peek == 61 then tok2 s .EQ [61, 61] else tok1 s .ASSIGN [61])
    else if isIdentCh c then
      let s0 := s.tokenBegins
      let ident := s0.rest.takeWhile fun x => isIdentCh x || isNumberCh x
      let s1 := s0.advance ident.length
      (s1.newToken (lookupIdent ident) ident, s1)
    else if isNumberCh c then
      let s0 := s.tokenBegins
      let (n, isInt) := numScan s0.rest
      let s1 := s0.advance n
      (s1.newToken (if isInt then .INT else .FLOAT) (s0.rest.take n), s1)
    else illegalToken s

/-- `skipComment`, called with the current byte at the "--" that follows "{{" -/
def skipComment (s : Lx) : Lx :=
  let s1 := s.readChar.readChar
  let n := commentScan s1.rest
  let s2 := s1.advance n
  if s2.isEOF then s2
  else ({ s2 with isHTML := true }).advance 4

/-- the body of `NextToken` without its tail call -/
def nextStep (s0 : Lx) : LexStep × Lx :=
  let s := if !s0.isHTML then s0.advance (s0.rest.takeWhile isWs).length else s0
  if s.isEOF then
    let s1 := s.tokenBegins
    (.tok (s1.newToken .EOF []), s1)
  else if s.char == 123 && s.peek == 123 then
    let (t, s1) := bracesToken s .LBRACES [123, 123]
    if s1.char == 45 && s1.peek == 45 then (.again, skipComment s1) else (.tok t, s1)
  else if !s.isHTML && s.char == 125 && s.peek == 125 && s.braces == 0 then
    let (t, s1) := bracesToken s .RBRACES [125, 125]
    (.tok t, s1)
  else if !s.isHTML then
    let (t, s1) := embeddedCodeToken s
    (.tok t, s1)
  else if (isDirectiveToken s).1 then
    let (t, s1) := directiveToken s
    (.tok t, s1)
  else
    let s1 := s.tokenBegins
    let (out, n, pan) := htmlScan s1.prev [] 0 false s1.rest
    let s2 := { s1.advance n with panicked := s1.panicked || pan }
    (.tok (s2.newToken .HTML out.reverse), s2)

/-- all tokens up to and including the first `EOF`, and the final lexer state.
    `fuel` bounds the number of `NextToken` bodies executed. -/
def lexAll : Nat → Lx → Option (List Token × Lx)
  | 0, _ => none
  | fuel + 1, s =>
    match nextStep s with
    | (.again, s1) => lexAll fuel s1
    | (.tok t, s1) =>
      if t.ty == .EOF then some ([t], s1)
      else (lexAll fuel s1).map fun (ts, sf) => (t :: ts, sf)

structure LexResult where
  toks : List Token
  insideCode : Bool        -- `Lexer.IsInsideCode()` once EOF was produced
  panicked : Bool
  deriving Repr

/-- fuel that `lexAll` never exhausts: every step but the last consumes a byte -/
def lexFuel (inp : Bytes) : Nat := inp.length + 2

def tokenize (inp : Bytes) : Option LexResult :=
  (lexAll (lexFuel inp) (Lx.init inp)).map fun (ts, sf) =>
    { toks := ts, insideCode := !sf.isHTML, panicked := sf.panicked }

end Tw
