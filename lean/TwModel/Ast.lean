/-
  TwModel.Ast — the AST (`ast/*.go`).

  Go `nil` nodes (returned by parse functions after they recorded an error) are the `bad`
  constructors: a program that contains one is never evaluated, because the parser reports
  its first error instead.

  Nodes that the loader mutates in Go (`ReserveStmt.Insert`, `ComponentStmt.Block`,
  `UseStmt.Program`) carry an allocation number instead; the loader builds a table from
  these numbers to what Go attaches (see `TwModel.Loader`).
-/
import TwModel.Token

namespace Tw

inductive Expr where
  | bad
  | ident (t : Token) (name : Bytes)
  | int (t : Token) (v : Int64)
  | float (t : Token) (v : Float)
  | str (t : Token) (v : Bytes)
  | nil (t : Token)
  | bool (t : Token) (v : Bool)
  | arr (t : Token) (elems : List Expr)
  | obj (t : Token) (pairs : List (Bytes × Expr))
  | pre (t : Token) (op : Bytes) (r : Expr)
  | inf (t : Token) (op : Bytes) (l r : Expr)
  | post (t : Token) (op : Bytes) (l : Expr)
  | tern (t : Token) (c a b : Expr)
  | index (t : Token) (l i : Expr)
  | dot (t : Token) (l : Expr) (key : Bytes)
  | call (t : Token) (recv : Expr) (fn : Bytes) (args : List Expr)
  deriving Inhabited

inductive Stmt where
  | bad
  | html (t : Token)
  | expr (t : Token) (e : Expr)
  | assign (t : Token) (name : Bytes) (v : Expr)
  | ifS (t : Token) (c : Expr) (cons : List Stmt) (alts : List (Expr × List Stmt))
        (alt : Option (List Stmt))
  | forS (t : Token) (init : Option Stmt) (cond : Option Expr) (post : Option Stmt)
         (body : List Stmt) (alt : Option (List Stmt))
  | eachS (t : Token) (var : Bytes) (arr : Expr) (body : List Stmt) (alt : Option (List Stmt))
  | use (t : Token) (name : Bytes)
  | reserve (t : Token) (name : Bytes) (rid : Nat)
  | insert (t : Token) (name : Bytes) (arg : Option Expr) (block : Option (List Stmt))
  | breakIf (t : Token) (c : Expr)
  | continueIf (t : Token) (c : Expr)
  | component (t : Token) (name : Bytes) (arg : Option (List (Bytes × Expr))) (cid : Nat)
  | slot (t : Token) (name : Bytes) (body : Option (List Stmt))
  | dump (t : Token) (args : List Expr)
  | brk (t : Token)
  | cont (t : Token)
  deriving Inhabited

def Expr.isBad : Expr → Bool
  | .bad => true
  | _ => false

def Stmt.isBad : Stmt → Bool
  | .bad => true
  | _ => false

/-- a slot passed by a `@component` use: token of `@slot`, name, body -/
structure SlotUse where
  tok : Token
  name : Bytes
  body : List Stmt
  deriving Inhabited

/-- a `@component` use recorded by the parser (`Parser.components`) -/
structure CompUse where
  tok : Token
  name : Bytes
  cid : Nat
  slots : List SlotUse
  deriving Inhabited

/-- a page's `@insert` (`Parser.inserts`) -/
structure InsertDef where
  tok : Token
  name : Bytes
  arg : Option Expr
  block : Option (List Stmt)
  deriving Inhabited

/-- `ast.Program` as the parser leaves it -/
structure Program where
  tok : Token
  stmts : List Stmt
  useName : Option (Token × Bytes) := none      -- `UseStmt` (token of `@use`, layout name)
  components : List CompUse := []
  inserts : List (Bytes × InsertDef) := []      -- map, keys unique
  reserves : List (Bytes × Nat) := []           -- map name ↦ allocation number, keys unique
  nextId : Nat := 0
  deriving Inhabited

end Tw
