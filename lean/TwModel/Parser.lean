/-
  TwModel.Parser — transcription of `parser/parser.go`.

  The parser state holds the remaining tokens (head = `curToken`, second = `peekToken`;
  the list always ends with `EOF`, on which `nextToken` stays).  Like the Go code every
  function records errors and *continues*; only the first recorded error is observable.
  Every function that recurses takes a fuel argument; running out of fuel sets `oof`.
-/
import TwModel.Lexer
import TwModel.Ast

namespace Tw

/-- precedence levels (`parser.go`, the `iota` block) -/
def LOWEST := 1
def TERNARY := 2
def EQL := 3
def LESS_GREATER := 4
def SUM := 5
def PRODUCT := 6
def MEMBER_ACCESS := 7
def PREFIX := 8
def CALL := 9
def INDEX := 10
def POSTFIX := 11

/-- `parser.precedences` -/
def precedence : TT → Nat
  | .QUESTION => TERNARY
  | .EQ => EQL | .NOT_EQ => EQL
  | .LTHAN => LESS_GREATER | .GTHAN => LESS_GREATER | .LTHAN_EQ => LESS_GREATER | .GTHAN_EQ => LESS_GREATER
  | .ADD => SUM | .SUB => SUM
  | .DIV => PRODUCT | .MOD => PRODUCT | .MUL => PRODUCT
  | .LPAREN => CALL
  | .DOT => MEMBER_ACCESS
  | .LBRACKET => INDEX
  | .INC => POSTFIX | .DEC => POSTFIX
  | _ => LOWEST

structure PErr where
  line : Nat
  code : String
  args : List Bytes
  deriving Repr, Inhabited

structure PS where
  toks : List Token
  errors : List PErr := []        -- in order of recording
  useName : Option (Token × Bytes) := none
  components : List CompUse := []
  inserts : List (Bytes × InsertDef) := []
  reserves : List (Bytes × Nat) := []
  nextId : Nat := 0
  oof : Bool := false
  deriving Inhabited


namespace PS
def cur (p : PS) : Token := p.toks.headD eofTok
def peek (p : PS) : Token :=
  match p.toks with
  | _ :: t :: _ => t
  | [t] => t
  | [] => eofTok
def err (p : PS) (line : Nat) (code : String) (args : List Bytes) : PS :=
  { p with errors := p.errors ++ [{ line, code, args }] }
/-- the error `nextToken` records when the token that becomes `peekToken` is ILLEGAL -/
def noteIllegal (p : PS) (t : Token) : PS :=
  if t.ty == .ILLEGAL then p.err t.errorLine "ErrIllegalToken" [t.lit] else p
/-- `nextToken` -/
def next (p : PS) : PS :=
  match p.toks with
  | _ :: t :: r =>
    match r with
    | n :: _ => ({ p with toks := t :: r }).noteIllegal n
    | [] => { p with toks := t :: r }
  | _ => p
def curIs (p : PS) (t : TT) : Bool := p.cur.ty == t
def peekIs (p : PS) (t : TT) : Bool := p.peek.ty == t
def outOfFuel (p : PS) : PS := { p with oof := true }
/-- `expectPeek` -/
def expectPeek (p : PS) (t : TT) : Bool × PS :=
  if p.peekIs t then (true, p.next)
  else (false, p.err p.peek.errorLine "ErrWrongNextToken" [b (tokenString t), b (tokenString p.peek.ty)])
def peekPrecedence (p : PS) : Nat := precedence p.peek.ty
def curPrecedence (p : PS) : Nat := precedence p.cur.ty
end PS

def isBinaryOp : TT → Bool
  | .ADD | .SUB | .MUL | .DIV | .MOD | .EQ | .NOT_EQ | .LTHAN | .GTHAN | .LTHAN_EQ | .GTHAN_EQ => true
  | _ => false

/-- has an infix parse function registered -/
def hasInfix (t : TT) : Bool :=
  isBinaryOp t || t == .QUESTION || t == .LBRACKET || t == .INC || t == .DEC || t == .DOT

def digitsToNat (bs : Bytes) : Nat := bs.foldl (fun acc c => acc * 10 + (c - 48)) 0

/-- `strconv.ParseInt(lit, 10, 64)` on a string of decimal digits -/
def parseInt64 (lit : Bytes) : Option Int64 :=
  let n := digitsToNat lit
  if lit.isEmpty || !lit.all isNumberCh then none
  else if n ≤ 9223372036854775807 then some (Int64.ofNat n) else none

/-- `strconv.ParseFloat(lit, 64)` on `digits '.' digits` -/
def parseFloat64 (lit : Bytes) : Option Float :=
  let ip := lit.takeWhile isNumberCh
  let rest := lit.drop ip.length
  match rest with
  | 46 :: fp =>
    if ip.isEmpty || fp.isEmpty || !fp.all isNumberCh then none
    else
      let f := Float.ofScientific (digitsToNat (ip ++ fp)) true fp.length
      if f.isFinite then some f else none
  | _ => none

/-- `parseAliasPathShortcut` -/
def aliasPath (p : PS) (shortenTo : String) : Bytes × PS :=
  let name := p.cur.lit
  if name.isEmpty then ([], p.err p.cur.errorLine "ErrExpectedComponentName" [])
  else if name.headD 0 == 126 then (b shortenTo ++ [47] ++ name.drop 1, p)
  else (name, p)

/-- `isWhitespace` (parser/utils.go) -/
def isWhitespaceLit (s : Bytes) : Bool := s.all isWs

/-- the prefix parse functions (`parser.prefixParseFns`), given the functions they call;
    `none` = none is registered for the current token -/
def prefixBody (pe : Nat → PS → Expr × PS) (pl : TT → PS → List Expr × PS)
    (po : Token → List (Bytes × Expr) → PS → Expr × PS) (p : PS) : Option (Expr × PS) :=
  match p.cur.ty with
  | .IDENT => some (.ident p.cur p.cur.lit, p)
  | .INT =>
    match parseInt64 p.cur.lit with
    | some v => some (.int p.cur v, p)
    | none => some (.bad, p.err p.cur.errorLine "ErrCouldNotParseAs" [p.cur.lit, b "INT"])
  | .FLOAT =>
    match parseFloat64 p.cur.lit with
    | some v => some (.float p.cur v, p)
    | none => some (.bad, p.err p.cur.errorLine "ErrCouldNotParseAs" [p.cur.lit, b "FLOAT"])
  | .STR => some (.str p.cur p.cur.lit, p)
  | .NIL => some (.nil p.cur, p)
  | .TRUE => some (.bool p.cur true, p)
  | .FALSE => some (.bool p.cur false, p)
  | .SUB | .NOT => some (.pre p.cur p.cur.lit (pe PREFIX p.next).1, (pe PREFIX p.next).2)
  | .LPAREN =>
    if ((pe LOWEST p.next).2.expectPeek .RPAREN).1 then
      some ((pe LOWEST p.next).1, ((pe LOWEST p.next).2.expectPeek .RPAREN).2)
    else some (.bad, ((pe LOWEST p.next).2.expectPeek .RPAREN).2)
  | .LBRACKET => some (.arr p.cur (pl .RBRACKET p).1, (pl .RBRACKET p).2)
  | .LBRACE =>
    if p.next.curIs .RBRACE then some (.obj p.cur [], p.next)
    else some (po p.cur [] p.next)
  | _ => none

/-- the infix parse functions (`parser.infixParseFns`); `p1.cur` is the operator token -/
def infixBody (pe : Nat → PS → Expr × PS) (pl : TT → PS → List Expr × PS) (left : Expr) (p1 : PS) : Expr × PS :=
  if isBinaryOp p1.cur.ty then
    -- parseInfixExp
    if p1.next.curIs .RBRACES then (.bad, p1.next.err p1.next.cur.errorLine "ErrExpectedExpression" [])
    else (.inf p1.cur p1.cur.lit left (pe p1.curPrecedence p1.next).1, (pe p1.curPrecedence p1.next).2)
  else if p1.cur.ty == .QUESTION then
    -- parseTernaryExp
    if !((pe TERNARY p1.next).2.expectPeek .COLON).1 then (.bad, ((pe TERNARY p1.next).2.expectPeek .COLON).2)
    else
      (.tern p1.cur left (pe TERNARY p1.next).1 (pe LOWEST ((pe TERNARY p1.next).2.expectPeek .COLON).2.next).1,
        (pe LOWEST ((pe TERNARY p1.next).2.expectPeek .COLON).2.next).2)
  else if p1.cur.ty == .LBRACKET then
    -- parseIndexExp
    if ((pe LOWEST p1.next).2.expectPeek .RBRACKET).1 then
      (.index p1.cur left (pe LOWEST p1.next).1, ((pe LOWEST p1.next).2.expectPeek .RBRACKET).2)
    else (.bad, ((pe LOWEST p1.next).2.expectPeek .RBRACKET).2)
  else if p1.cur.ty == .INC || p1.cur.ty == .DEC then
    (.post p1.cur p1.cur.lit left, p1)
  else
    -- parseDotExp
    if !(p1.expectPeek .IDENT).1 then (.bad, (p1.expectPeek .IDENT).2)
    else if (p1.expectPeek .IDENT).2.peekIs .LPAREN then
      -- parseCallExp
      (.call (p1.expectPeek .IDENT).2.cur left (p1.expectPeek .IDENT).2.cur.lit
          (pl .RPAREN ((p1.expectPeek .IDENT).2.expectPeek .LPAREN).2).1,
        (pl .RPAREN ((p1.expectPeek .IDENT).2.expectPeek .LPAREN).2).2)
    else (.dot p1.cur left (p1.expectPeek .IDENT).2.cur.lit, (p1.expectPeek .IDENT).2)

mutual

/-- `parseExpression(precedence)` -/
def parseExpression : Nat → Nat → PS → Expr × PS
  | 0, _, p => (.bad, p.outOfFuel)
  | fuel + 1, prec, p =>
    match prefixBody (parseExpression fuel) (parseExprList fuel) (parseObjLoop fuel) p with
    -- Go returns nil right after recording the "no prefix parse function" error
    | none => (.bad, p.err p.cur.errorLine "ErrNoPrefixParseFunc" [b (tokenString p.cur.ty)])
    | some r => prattLoop fuel prec r.1 r.2

/-- the `for` loop of `parseExpression` -/
def prattLoop : Nat → Nat → Expr → PS → Expr × PS
  | 0, _, _, p => (.bad, p.outOfFuel)
  | fuel + 1, prec, left, p =>
    if p.peekIs .RBRACES || p.peekIs .SEMI || p.peekIs .RPAREN || !(prec < p.peekPrecedence) then (left, p)
    else if !hasInfix p.peek.ty then (left, p)
    else
      prattLoop fuel prec (infixBody (parseExpression fuel) (parseExprList fuel) left p.next).1
        (infixBody (parseExpression fuel) (parseExprList fuel) left p.next).2

/-- `parseExpressionList(endTok)`; called with `curToken` at the opening token -/
def parseExprList : Nat → TT → PS → List Expr × PS
  | 0, _, p => ([], p.outOfFuel)
  | fuel + 1, endTok, p =>
    if p.peekIs endTok then ([], p.next)
    else
      let (e, p1) := parseExpression fuel LOWEST p.next
      exprListLoop fuel endTok [e] p1

def exprListLoop : Nat → TT → List Expr → PS → List Expr × PS
  | 0, _, _, p => ([], p.outOfFuel)
  | fuel + 1, endTok, acc, p =>
    if p.peekIs .COMMA then
      let p1 := p.next
      if p1.peekIs endTok then
        let (ok, p2) := p1.expectPeek endTok
        if ok then (acc, p2) else ([], p2)
      else
        let (e, p2) := parseExpression fuel LOWEST p1.next
        exprListLoop fuel endTok (acc ++ [e]) p2
    else
      let (ok, p1) := p.expectPeek endTok
      if ok then (acc, p1) else ([], p1)

/-- the `for` loop of `parseObjectLiteral` -/
def parseObjLoop : Nat → Token → List (Bytes × Expr) → PS → Expr × PS
  | 0, _, _, p => (.bad, p.outOfFuel)
  | fuel + 1, t, pairs, p =>
    if p.curIs .RBRACE then (.obj t pairs, p)
    else if p.curIs .EOF || p.curIs .ILLEGAL then
      (.bad, p.err p.cur.errorLine "ErrWrongNextToken" [b (tokenString .RBRACE), b (tokenString p.cur.ty)])
    else
      let key := p.cur.lit
      let p0 := if p.peekIs .COLON then p.next.next else p
      let (v, p1) := parseExpression fuel LOWEST p0
      let pairs' := mapSet pairs key v
      if p1.peekIs .RBRACE then (.obj t pairs', p1.next)
      else
        let (ok, p2) := p1.expectPeek .COMMA
        if !ok then (.bad, p2)
        else parseObjLoop fuel t pairs' p2.next

end

/-! The bodies of the statement parser's functions, given the recursive functions they call
    (`pe` = `parseExpression`, `pl` = `parseExpressionList`, `pst` = `parseStatement`,
    `pbody` = `parseBody`, `pblock` = `parseBlockStmt`, `ptail` = the `@elseif` loop,
    `pslots` = `parseSlots`, `pskip` = the text-skipping loop). -/
section bodies
variable (pe : Nat → PS → Expr × PS) (pl : TT → PS → List Expr × PS) (pst : PS → Stmt × PS)
  (pbody : PS → List Stmt × PS) (pblock : List Stmt → PS → List Stmt × PS)
  (ptail : Token → Expr → List Stmt → List (Expr × List Stmt) → PS → Stmt × PS)
  (pslots : List SlotUse → PS → List SlotUse × PS) (pskip : PS → PS)

/-- `parseEmbeddedCode` -/
def parseEmbeddedCode (p : PS) : Stmt × PS :=
  let p1 := p.next
  if p1.curIs .RBRACES then (.bad, p1.err p1.cur.errorLine "ErrEmptyBraces" [])
  else if p1.cur.ty == .IDENT && p1.peekIs .ASSIGN then
    -- parseAssignStmt
    let t := p1.cur
    let (_, p2) := p1.expectPeek .ASSIGN
    let p3 := p2.next
    if p3.curIs .RBRACES then (.bad, p3.err p3.cur.errorLine "ErrExpectedExpression" [])
    else
      let (v, p4) := pe LOWEST p3
      (.assign t t.lit v, p4)
  else
    -- parseExpressionStmt
    let (e, p2) := pe LOWEST p1
    let t := p2.cur
    (.expr t e, if p2.peekIs .RBRACES then p2.next else p2)

/-- `@xxx(` + expression : used by `@breakIf` / `@continueIf` -/
def parseCondDirective (p : PS) (mk : Token → Expr → Stmt) : Stmt × PS :=
  let t := p.cur
  let (ok, p1) := p.expectPeek .LPAREN
  if !ok then (.bad, p1)
  else
    let (c, p2) := pe LOWEST p1.next
    (mk t c, p2)

/-- `parseIfStmt` -/
def parseIfStmt (p : PS) : Stmt × PS :=
  let t := p.cur
  let (ok, p1) := p.expectPeek .LPAREN
  if !ok then (.bad, p1)
  else
    let (c, p2) := pe LOWEST p1.next
    let (ok, p3) := p2.expectPeek .RPAREN
    if !ok then (.bad, p3)
    else
      let (cons, p4) := pbody p3
      ptail t c cons [] p4

/-- the optional `@else` block of a loop -/
def loopElse (p : PS) : Option (List Stmt) × PS :=
  if p.peekIs .ELSE then
    let (a, q) := pbody p.next
    (some a, q)
  else (none, p)

/-- an optional `parseEmbeddedCode` clause of the `@for` header (absent when `stop` comes next);
    a nil statement is kept as "absent" -/
def forClause (stop : TT) (p : PS) : Option Stmt × PS :=
  if !p.peekIs stop then
    let (s, q) := parseEmbeddedCode pe p
    (if s.isBad then none else some s, q)
  else (none, p)

/-- the optional condition of the `@for` header -/
def forCond (p : PS) : Option Expr × PS :=
  if !p.peekIs .SEMI then
    let (e, q) := pe LOWEST p.next
    (if e.isBad then none else some e, q)
  else (none, p)

/-- the part shared by `parseForStmt` and `parseEachStmt` after the header:
    block, optional `@else` block, `@end` -/
def parseLoopBody (p : PS) : Option (List Stmt × Option (List Stmt)) × PS :=
  let (body, p1) := pbody p
  let (alt, p2) := loopElse pbody p1
  let (ok, p3) := p2.expectPeek .END
  if ok then (some (body, alt), p3) else (none, p3)

/-- `parseForStmt` -/
def parseForStmt (p : PS) : Stmt × PS :=
  let t := p.cur
  let (ok, p1) := p.expectPeek .LPAREN
  if !ok then (.bad, p1)
  else
    let (init, p2) := forClause pe .SEMI p1
    let (ok, p3) := p2.expectPeek .SEMI
    if !ok then (.bad, p3)
    else
      let (cond, p4) := forCond pe p3
      let (ok, p5) := p4.expectPeek .SEMI
      if !ok then (.bad, p5)
      else
        let (post, p6) := forClause pe .RPAREN p5
        let (ok, p7) := p6.expectPeek .RPAREN
        if !ok then (.bad, p7)
        else
          match parseLoopBody pbody p7 with
          | (some (body, alt), p8) => (.forS t init cond post body alt, p8)
          | (none, p8) => (.bad, p8)

/-- `parseEachStmt` -/
def parseEachStmt (p : PS) : Stmt × PS :=
  let t := p.cur
  let (ok, p1) := p.expectPeek .LPAREN
  if !ok then (.bad, p1)
  else
    let p2 := p1.next
    let var := p2.cur.lit
    let (ok, p3) := p2.expectPeek .IN
    if !ok then (.bad, p3)
    else
      let (arr, p4) := pe LOWEST p3.next
      let (ok, p5) := p4.expectPeek .RPAREN
      if !ok then (.bad, p5)
      else
        match parseLoopBody pbody p5 with
        | (some (body, alt), p6) => (.eachS t var arr body alt, p6)
        | (none, p6) => (.bad, p6)

/-- `parseInsertStmt` -/
def parseInsertStmt (p : PS) : Stmt × PS :=
  let t := p.cur
  let (ok, p1) := p.expectPeek .LPAREN
  if !ok then (.bad, p1)
  else
    let p2 := p1.next
    let name := p2.cur.lit
    if (mapGet p2.inserts name).isSome then
      (.bad, p2.err t.errorLine "ErrDuplicateInserts" [name])
    else if p2.peekIs .COMMA then
      let (arg, p3) := pe LOWEST p2.next.next
      let argO := if arg.isBad then none else some arg
      (.insert t name argO none,
        { p3 with inserts := mapSet p3.inserts name { tok := t, name, arg := argO, block := none } })
    else
      let (ok, p3) := p2.expectPeek .RPAREN
      if !ok then (.bad, p3)
      else
        let (blk, p4) := pbody p3
        (.insert t name none (some blk),
          { p4 with inserts := mapSet p4.inserts name { tok := t, name, arg := none, block := some blk } })

/-- the optional object-literal argument of `@component`; outer `none` = not an object literal -/
def componentArg (p : PS) : Option (Option (List (Bytes × Expr))) × PS :=
  if p.peekIs .COMMA then
    let (e, q) := pe LOWEST p.next.next
    match e with
    | .obj _ pairs => (some (some pairs), q)
    | _ => (none, q.err q.cur.errorLine "ErrExpectedObjectLiteral" [q.cur.lit])
  else (some none, p)

/-- the `@slot` blocks that follow a `@component(...)` header (a whitespace-only text token
    before the first one is skipped) -/
def componentSlots (p : PS) : List SlotUse × PS :=
  if p.peekIs .SLOT then pslots [] p.next
  else if p.peekIs .HTML && isWhitespaceLit p.peek.lit then
    if p.next.peekIs .SLOT then pslots [] p.next.next else ([], p)
  else ([], p)

/-- `parseComponentStmt` -/
def parseComponentStmt (p : PS) : Stmt × PS :=
  let t := p.cur
  let (ok, p1) := p.expectPeek .LPAREN
  if !ok then (.bad, p1)
  else
    let (name, p2) := aliasPath p1.next "components"
    let (argR, p3) := componentArg pe p2
    match argR with
    | none => (.bad, p3)
    | some arg =>
      let (ok, p4) := p3.expectPeek .RPAREN
      if !ok then (.bad, p4)
      else
        let (slots, p5) := componentSlots pslots p4
        let cid := p5.nextId
        (.component t name arg cid,
          { p5 with components := p5.components ++ [{ tok := t, name, cid, slots }], nextId := cid + 1 })

/-- `parseStatement` -/
def statementBody (p : PS) : Stmt × PS :=
  let t := p.cur
  match t.ty with
  | .HTML => (.html t, p)
  | .LBRACES | .SEMI => parseEmbeddedCode pe p
  | .IF => parseIfStmt pe pbody ptail p
  | .FOR => parseForStmt pe pbody p
  | .EACH => parseEachStmt pe pbody p
  | .USE =>
    let (ok, p1) := p.expectPeek .LPAREN
    if !ok then (.bad, p1)
    else
      let p2 := p1.next
      let (name, p3) := aliasPath p2 "layouts"
      (.use t name, { p3 with useName := some (t, name) })
  | .RESERVE =>
    let (ok, p1) := p.expectPeek .LPAREN
    if !ok then (.bad, p1)
    else
      let p2 := p1.next
      let name := p2.cur.lit
      let rid := p2.nextId
      (.reserve t name rid, { p2 with reserves := mapSet p2.reserves name rid, nextId := rid + 1 })
  | .INSERT => parseInsertStmt pe pbody p
  | .BREAK_IF => parseCondDirective pe p .breakIf
  | .CONTINUE_IF => parseCondDirective pe p .continueIf
  | .COMPONENT => parseComponentStmt pe pslots p
  | .SLOT =>
    -- parseSlotStmt (a slot placeholder inside a component file)
    if !p.peekIs .LPAREN then (.slot t [] none, p)
    else
      let p1 := p.next.next
      let name := p1.cur.lit
      let (ok, p2) := p1.expectPeek .RPAREN
      if ok then (.slot t name none, p2) else (.bad, p2)
  | .DUMP =>
    let (ok, p1) := p.expectPeek .LPAREN
    if !ok then (.bad, p1)
    else
      let (args, p2) := pl .RPAREN p1
      (.dump t args, p2)
  | .BREAK => (.brk t, p)
  | .CONTINUE => (.cont t, p)
  | _ => (.bad, p)

/-- `parseBody`: the block that follows the current token (empty when a block end comes next) -/
def bodyBody (p : PS) : List Stmt × PS :=
  if p.peekIs .ELSE || p.peekIs .ELSE_IF || p.peekIs .END then ([], p)
  else pblock [] p.next

/-- `parseBlockStmt`; the accumulated statements are `acc` -/
def blockStmtBody (acc : List Stmt) (p : PS) : List Stmt × PS :=
  if p.curIs .END then (acc, p)
  else if p.curIs .EOF then
    (acc, p.err p.cur.errorLine "ErrWrongNextToken" [b (tokenString .END), b (tokenString .EOF)])
  else if p.curIs .ILLEGAL then
    (acc, p.err p.cur.errorLine "ErrIllegalToken" [p.cur.lit])
  else
    let (s, p1) := pst p
    let acc' := if s.isBad then acc else acc ++ [s]
    if p1.peekIs .ELSE || p1.peekIs .ELSE_IF || p1.peekIs .END then (acc', p1)
    else pblock acc' p1.next

/-- the `@elseif` loop, `@else` and `@end` of `parseIfStmt` -/
def ifTailBody (t : Token) (c : Expr) (cons : List Stmt) (alts : List (Expr × List Stmt)) (p : PS) :
    Stmt × PS :=
  if p.peekIs .ELSE_IF then
    -- parseElseIfStmt
    let (_, p1) := p.expectPeek .ELSE_IF
    let p2 := p1.next.next
    let (ec, p3) := pe LOWEST p2
    let (ok, p4) := p3.expectPeek .RPAREN
    if !ok then (.bad, p4)
    else
      let (body, p5) := pbody p4
      ptail t c cons (alts ++ [(ec, body)]) p5
  else if p.peekIs .ELSE then
    -- parseAlternativeBlock
    let (alt, p1) := pbody p.next
    if p1.peekIs .ELSE_IF then
      (.bad, p1.err p1.peek.errorLine "ErrElseifCannotFollowElse" [])
    else
      let (ok, p2) := p1.expectPeek .END
      if ok then (.ifS t c cons alts (some alt), p2) else (.bad, p2)
  else
    let (ok, p1) := p.expectPeek .END
    if ok then (.ifS t c cons alts none, p1) else (.bad, p1)

/-- the optional `("name")` of a `@slot` use; `none` = the closing parenthesis is missing -/
def slotHeader (p : PS) : Option Bytes × PS :=
  if p.peekIs .LPAREN then
    let (ok, q1) := p.next.next.expectPeek .RPAREN
    if ok then (some p.next.next.cur.lit, q1) else (none, q1)
  else (some [], p)

/-- `parseSlots` -/
def slotsBody (acc : List SlotUse) (p : PS) : List SlotUse × PS :=
  if !p.curIs .SLOT then (acc, p)
  else
    let t := p.cur
    let (hdr, p1) := slotHeader p
    match hdr with
    | none => ([], p1)
    | some name =>
      let (body, p2) := pbody p1
      let p3 := p2.next.next
      pslots (acc ++ [{ tok := t, name, body }]) (pskip p3)

/-- `for p.curTokenIs(token.HTML) { p.nextToken() }` -/
def skipHtmlBody (p : PS) : PS :=
  if p.curIs .HTML then pskip p.next else p

end bodies

mutual
def parseStatement : Nat → PS → Stmt × PS
  | 0, p => (.bad, p.outOfFuel)
  | fuel + 1, p =>
    statementBody (parseExpression fuel) (parseExprList fuel) (parseBody fuel) (parseIfTail fuel) (parseSlots fuel) p
def parseBody : Nat → PS → List Stmt × PS
  | 0, p => ([], p.outOfFuel)
  | fuel + 1, p =>
    bodyBody (parseBlockStmt fuel) p
def parseBlockStmt : Nat → List Stmt → PS → List Stmt × PS
  | 0, acc, p => (acc, p.outOfFuel)
  | fuel + 1, acc, p =>
    blockStmtBody (parseStatement fuel) (parseBlockStmt fuel) acc p
def parseIfTail : Nat → Token → Expr → List Stmt → List (Expr × List Stmt) → PS → Stmt × PS
  | 0, _, _, _, _, p => (.bad, p.outOfFuel)
  | fuel + 1, t, c, cons, alts, p =>
    ifTailBody (parseExpression fuel) (parseBody fuel) (parseIfTail fuel) t c cons alts p
def parseSlots : Nat → List SlotUse → PS → List SlotUse × PS
  | 0, acc, p => (acc, p.outOfFuel)
  | fuel + 1, acc, p =>
    slotsBody (parseBody fuel) (parseSlots fuel) (skipHtml fuel) acc p
def skipHtml : Nat → PS → PS
  | 0, p => p.outOfFuel
  | fuel + 1, p =>
    skipHtmlBody (skipHtml fuel) p
end

/-- the loop of `ParseProgram`; `none` = Go returned nil after an ILLEGAL token -/
def parseProgramLoop : Nat → List Stmt → PS → Option (List Stmt) × PS
  | 0, acc, p => (some acc, p.outOfFuel)
  | fuel + 1, acc, p =>
    if p.curIs .EOF then (some acc, p)
    else
      let (s, p1) := parseStatement fuel p
      if p1.curIs .ILLEGAL then
        (none, p1.err p1.cur.errorLine "ErrIllegalToken" [p1.cur.lit])
      else
        parseProgramLoop fuel (if s.isBad then acc else acc ++ [s]) p1.next

inductive ParseOut where
  | ok (prog : Program)
  | err (e : PErr)
  | oof
  | lexPanic

/-- fuel the driver uses: generous multiple of the number of tokens -/
def parseFuel (toks : List Token) : Nat := 4 * toks.length + 16

/-- `parser.New`: `nextToken` is called twice, each call notes an ILLEGAL token -/
def initParser (toks : List Token) (idBase : Nat) : PS :=
  let p00 : PS := { toks := toks, nextId := idBase }
  (p00.noteIllegal p00.cur) |> fun q => if q.toks.length ≥ 2 then q.noteIllegal q.peek else q

/-- the end of `ParseProgram` (the unexpected-EOF check) and `HasErrors` -/
def finishParse (insideCode : Bool) (first : Token) (stmts : Option (List Stmt)) (p1 : PS) : ParseOut :=
  let p2 :=
    match stmts with
    | some _ => if insideCode then p1.err p1.cur.errorLine "ErrUnexpectedEOF" [] else p1
    | none => p1
  if p2.oof then .oof
  else
    match p2.errors with
    | e :: _ => .err e
    | [] =>
      .ok { tok := first, stmts := stmts.getD [], useName := p2.useName,
            components := p2.components, inserts := p2.inserts, reserves := p2.reserves,
            nextId := p2.nextId }

/-- `lexer.New` + `parser.New` + `ParseProgram` + `HasErrors` -/
def parseSource (src : Bytes) (idBase : Nat := 0) : ParseOut :=
  match tokenize src with
  | none => .oof
  | some lr =>
    if lr.panicked then .lexPanic
    else
      finishParse lr.insideCode (initParser lr.toks idBase).cur
        (parseProgramLoop (parseFuel lr.toks) [] (initParser lr.toks idBase)).1
        (parseProgramLoop (parseFuel lr.toks) [] (initParser lr.toks idBase)).2

end Tw
