/-
  TwModel.Api — the package-level API (`textwire.go`, `template.go`, `utils.go`, `files.go`,
  `parser_utils.go`, `ast/program.go`) over an abstract file system.

  Paths are kept relative to the process working directory; `abs p` of the Go code is
  "cwd joined with `clean p`", so the model reports `clean p` and the harness joins it with
  the real working directory.
-/
import TwModel.Parser
import TwModel.Eval
import TwModel.GoVal
import TwModel.Generated.Facts

namespace Tw

/-! ### error messages -/

def fmtLookup (code : String) : Option String :=
  (Gen.errFormats.find? fun p => p.1 == code).map (·.2)

/-- marker the harness treats as a wildcard (the text Go prints for `%T`) -/
def wildcard : Bytes := [0, 84, 0]

/-- a small `fmt.Sprintf`: `%s` and `%d` take the next argument, `%T` becomes a wildcard -/
def sprintf (fmt : Bytes) (args : List Bytes) : Bytes := go fmt.length fmt args
where
  go : Nat → Bytes → List Bytes → Bytes
  | 0, _, _ => []
  | fuel + 1, f, args =>
    match f with
    | [] => []
    | 37 :: 115 :: r | 37 :: 100 :: r =>
      match args with
      | a :: as => a ++ go fuel r as
      | [] => b "%!s(MISSING)" ++ go fuel r []
    | 37 :: 84 :: r => wildcard ++ go fuel r (args.drop 1)
    | c :: r => c :: go fuel r args

def formatMsg (code : String) (args : List Bytes) : Bytes :=
  match fmtLookup code with
  | some f => sprintf (b f) args
  | none => b ("?" ++ code)

/-- `fail.Error` -/
structure Fail where
  line : Nat
  path : Bytes            -- relative, cleaned; [] = no path
  msg : Bytes
  osErr : Bool := false   -- the message is an operating system error text (not modelled)
  unsupported : Bool := false
  deriving Inhabited

def failOf (code : String) (line : Nat) (args : List Bytes) (path : Bytes) : Fail :=
  { line, path, msg := formatMsg code args, unsupported := code == "ModelUnsupported" }

/-- `Error.Meta()` / `Error.String()` -/
def Fail.meta (f : Fail) : Bytes :=
  b "Textwire ERROR" ++ (if f.path.isEmpty then [] else b " in " ++ f.path) ++ [58] ++ natToBytes f.line
def Fail.str (f : Fail) : Bytes := [91] ++ f.meta ++ b "]:\n" ++ f.msg

/-! ### paths and the file system -/

def splitPath (p : Bytes) : List Bytes := splitBytes p [47]

/-- `filepath.Clean` of a relative (or, with a leading '/', rooted) slash path -/
def cleanPath (p : Bytes) : Bytes :=
  let rooted := p.headD 0 == 47
  let segs := (splitPath p).filter fun s => !s.isEmpty && s != [46]
  let out := segs.foldl (fun (acc : List Bytes) s =>
    if s == [46, 46] then
      match acc.reverse with
      | last :: restRev => if last == [46, 46] then acc ++ [s] else restRev.reverse
      | [] => if rooted then [] else [s]
    else acc ++ [s]) []
  let body := joinBytes [47] out
  if rooted then 47 :: body else if body.isEmpty then [46] else body

def trimLeftByte (c : Byte) (s : Bytes) : Bytes := s.dropWhile (· == c)
def trimRightByte (c : Byte) (s : Bytes) : Bytes := (s.reverse.dropWhile (· == c)).reverse

/-- `joinPaths` -/
def joinPaths (a c : Bytes) : Bytes := trimRightByte 47 a ++ [47] ++ trimLeftByte 47 c

inductive Entry where
  | file (content : Bytes)
  | dir
  | badlink          -- a dangling symlink: the directory walk lists it, reading it fails with "does not exist"
  deriving Inhabited

/-- entries keyed by cleaned relative path -/
abbrev Fs := List (Bytes × Entry)

def Fs.get (fs : Fs) (p : Bytes) : Option Entry := mapGet fs (cleanPath p)

def hasSuffix (s suf : Bytes) : Bool :=
  suf.length ≤ s.length && s.drop (s.length - suf.length) == suf
def hasPrefixB (s pre : Bytes) : Bool := isPrefixOf pre s
def trimPrefixB (s pre : Bytes) : Bytes := if hasPrefixB s pre then s.drop pre.length else s
def trimSuffixB (s suf : Bytes) : Bytes := if hasSuffix s suf then s.take (s.length - suf.length) else s

/-- direct children of a directory: (name, full path), sorted by name -/
def Fs.children (fs : Fs) (dir : Bytes) : List (Bytes × Bytes) :=
  let pre := if dir == [46] then [] else dir ++ [47]
  let cs := fs.filterMap fun (p, _) =>
    if hasPrefixB p pre && p != dir then
      let restp := p.drop pre.length
      if restp.isEmpty || restp.contains 47 then none else some (restp, p)
    else none
  sortByKey cs

/-- `filepath.Walk`: the non-directory paths in lexical order; `none` = the root is missing -/
def Fs.walk (fs : Fs) (root : Bytes) : Option (List Bytes) :=
  if cleanPath root == [46] then some (go fs.length [46])   -- the working directory itself
  else
  match fs.get root with
  | none => none
  | some .dir => some (go fs.length root)
  | some _ => some [root]
where
  go : Nat → Bytes → List Bytes
  | 0, _ => []
  | fuel + 1, d =>
    (fs.children d).flatMap fun (_, p) =>
      match mapGet fs p with
      | some .dir => go fuel p
      | some _ => [p]
      | none => []

/-! ### configuration and state -/

structure Cfg where
  dir : Bytes
  ext : Bytes
  errPage : Bytes
  debug : Bool
  deriving Inhabited

def defaultCfg : Cfg :=
  { dir := b (Gen.configDefaults.getD 0 ""), ext := b (Gen.configDefaults.getD 1 ""),
    errPage := b (Gen.configDefaults.getD 2 ""), debug := Gen.configDefaults.getD 3 "" == "true" }

/-- a registered page: its statements and what the loader attached -/
structure Page where
  stmts : List Stmt
  ctx : Ctx
  deriving Inhabited

structure World where
  cfg : Cfg := defaultCfg
  uses : Bool := false                                  -- usesTemplates
  custom : List ((VType × Bytes) × Nat) := []           -- customFunc
  fs : Fs := []
  deriving Inhabited

abbrev Template := List (Bytes × Page)

/-- options of `NewTemplate` / `Configure` (`none` = nil *config.Config) -/
structure Opt where
  dir : Bytes := []
  ext : Bytes := []
  errPage : Bytes := []
  debug : Bool := false

/-- `Configure` -/
def configure (w : World) (o : Option Opt) : World :=
  let w := { w with uses := true }
  match o with
  | none => w
  | some o =>
    let c := w.cfg
    let c := if o.dir.isEmpty then c else { c with dir := cleanPath (trimRightByte 47 (trimLeftByte 47 o.dir)) }
    let c := if o.ext.isEmpty then c else { c with ext := o.ext }
    let c := if o.errPage.isEmpty then c else { c with errPage := o.errPage }
    { w with cfg := { c with debug := o.debug } }

/-- `templatePath` (relative, cleaned) -/
def templatePath (c : Cfg) (name : Bytes) : Bytes := cleanPath (joinPaths c.dir name ++ c.ext)

/-- `nameFromPath` -/
def nameFromPath (c : Cfg) (p : Bytes) : Bytes :=
  trimSuffixB (trimPrefixB p (c.dir ++ [47])) c.ext

inductive ReadRes where
  | ok (content : Bytes)
  | notExist
  | otherErr

def readFile (fs : Fs) (p : Bytes) : ReadRes :=
  match fs.get p with
  | some (.file c) => .ok c
  | some .dir => .otherErr
  | some .badlink => .notExist
  | none => .notExist

def osFail (line : Nat) (path : Bytes) : Fail := { line, path, msg := [], osErr := true }

/-- allocation numbers of reserve / component nodes are made distinct across the files of one
    page by the base each file is parsed with: the page file from 0, its layout from
    `layoutBase`, component files from `compBase` (nothing is ever attached to the nodes of a
    component file, so all of them can share one range) -/
def layoutBase : Nat := 1000000
def compBase : Nat := 2000000

/-- `parseProgram(absPath)` -/
def parseFile (fs : Fs) (p : Bytes) (base : Nat) : Except Fail Program :=
  match readFile fs p with
  | .notExist => .error (osFail 0 p)
  | .otherErr => .error (osFail 0 p)
  | .ok src =>
    match parseSource src base with
    | .ok prog => .ok prog
    | .err e => .error (failOf e.code e.line e.args p)
    | .oof => .error { line := 0, path := p, msg := b "OOF", unsupported := true }
    | .lexPanic => .error { line := 0, path := p, msg := b "PANIC lexer", unsupported := true }

/-- `findDuplicateSlot` -/
def findDuplicateSlot (slots : List SlotUse) : Option (Bytes × Nat) :=
  slots.findSome? fun s =>
    let n := (slots.filter fun s' => s'.name == s.name).length
    if n > 1 then some (s.name, n) else none

/-- `findSlotStmtIndex` + assignment of the body: fill the first top-level `@slot` with that name -/
def fillSlot (stmts : List Stmt) (name : Bytes) (body : List Stmt) : Option (List Stmt) :=
  match stmts with
  | [] => none
  | (.slot t n bd) :: r =>
    if n == name then some (.slot t n (some body) :: r)
    else (fillSlot r name body).map (.slot t n bd :: ·)
  | s :: r => (fillSlot r name body).map (s :: ·)

/-- `Program.ApplyComponent` for one use -/
def applyComponent (use : CompUse) (comp : Program) (progPath : Bytes) : Except Fail (List Stmt) :=
  match findDuplicateSlot use.slots with
  | some (dn, times) =>
    .error (failOf "ErrDuplicateSlotUsage" comp.tok.errorLine [dn, natToBytes times, use.name] progPath)
  | none =>
    use.slots.foldlM (fun stmts sl =>
      match fillSlot stmts sl.name sl.body with
      | some s' => .ok s'
      | none =>
        if sl.name.isEmpty then .error (failOf "ErrDefaultSlotNotDefined" comp.tok.errorLine [use.name] progPath)
        else .error (failOf "ErrSlotNotDefined" comp.tok.errorLine [sl.name, use.name] progPath)) comp.stmts

/-- `applyComponentToProgram` -/
def applyComponents (fs : Fs) (c : Cfg) (uses : List CompUse) (progPath : Bytes) :
    Except Fail (List (Nat × List Stmt)) :=
  uses.foldlM (fun acc use =>
    let cp := templatePath c use.name
    match readFile fs cp with
    | .notExist => .error (failOf "ErrUndefinedComponent" use.tok.errorLine [use.name] progPath)
    | .otherErr => .error (osFail use.tok.errorLine cp)
    | .ok _ =>
      match parseFile fs cp compBase with
      | .error f => .error f
      | .ok comp =>
        match applyComponent use comp progPath with
        | .error f => .error f
        | .ok stmts => .ok (acc ++ [(use.cid, stmts)])) []

/-- `parsePrograms` for one file: the page to register (or `none` for a layout file) -/
def loadPage (fs : Fs) (c : Cfg) (p : Bytes) : Except Fail (Option Page) :=
  match parseFile fs p 0 with
  | .error f => .error (if f.osErr then f else f)
  | .ok prog =>
    -- applyLayoutToProgram
    let layoutR : Except Fail (Option (List Stmt × Bool × List (Nat × InsertDef))) :=
      match prog.useName with
      | none => .ok none
      | some (ut, lname) =>
        let lp := templatePath c lname
        match parseFile fs lp layoutBase with
        | .error f => .error (if f.osErr then { f with line := ut.errorLine } else f)
        | .ok lprog =>
          -- ApplyInserts: the first undefined insert, in sorted name order
          let undefinedIns := (sortByKey prog.inserts).find? fun (n, _) => (mapGet lprog.reserves n).isNone
          match undefinedIns with
          | some (n, ins) => .error (failOf "ErrUndefinedInsert" ins.tok.errorLine [n] p)
          | none =>
            let binds := lprog.reserves.filterMap fun (n, rid) => (mapGet prog.inserts n).map fun ins => (rid, ins)
            .ok (some (lprog.stmts, lprog.useName.isSome, binds))
    match layoutR with
    | .error f => .error f
    | .ok layout =>
      match applyComponents fs c prog.components p with
      | .error f => .error f
      | .ok comps =>
        if !prog.reserves.isEmpty then .ok none
        else
          match layout with
          | none => .ok (some { stmts := prog.stmts, ctx := { comps := comps } })
          | some (lstmts, lhasUse, binds) =>
            match prog.useName with
            | some (ut, lname) =>
              .ok (some { stmts := [.use ut lname],
                          ctx := { layout := some lstmts, layoutHasUse := lhasUse, inserts := binds, comps := comps } })
            | none => .ok none

/-- `NewTemplate` -/
def newTemplate (w : World) (o : Option Opt) : World × Except Fail Template :=
  let w := configure w o
  let c := w.cfg
  match w.fs.walk c.dir with
  | none => (w, .error (osFail 0 []))
  | some paths =>
    let files := paths.filter fun p => hasSuffix p c.ext
    -- a Go map: a later path with the same name replaces an earlier one
    let named := files.foldl (fun (m : List (Bytes × Bytes)) p => mapSet m (nameFromPath c p) p) []
    let r := (sortByKey named).foldlM (fun (acc : Template) (name, p) =>
      match loadPage w.fs c p with
      | .error f => .error f
      | .ok none => .ok acc
      | .ok (some pg) => .ok (acc ++ [(name, pg)])) []
    (w, r)

inductive EvalOut where
  | ok (out : Bytes)
  | fail (f : Fail)
  | panic (why : String)
  | oof

def resToOut (r : Res (Bytes × Env)) (path : Bytes) : EvalOut :=
  match r with
  | .ok (t, _) => .ok t
  | .err code line args => .fail (failOf code line args path)
  | .panic w => .panic w
  | .oof => .oof

def envOrFail (data : List (Bytes × GoVal)) : Except Fail Env :=
  match envFromMap data with
  | .ok e => .ok e
  | .error (.unsupported _) => .error (failOf "ErrUnsupportedType" 0 [[]] [])
  | .error (.setErr code args) => .error (failOf code 0 args [])

/-- `EvaluateString` (the flag write is in `evaluateString'`) -/
def evaluateStringPure (custom : List ((VType × Bytes) × Nat)) (src : Bytes) (data : List (Bytes × GoVal)) : EvalOut :=
  match parseSource src with
  | .err e => .fail (failOf e.code e.line e.args [])
  | .oof => .oof
  | .lexPanic => .panic "lexer: Truncate on an empty buffer"
  | .ok prog =>
    match envOrFail data with
    | .error f => .fail f
    | .ok env => resToOut (evalProg evalFuel { custom := custom } env prog.stmts []) []

def evaluateString (w : World) (src : Bytes) (data : List (Bytes × GoVal)) : World × EvalOut :=
  ({ w with uses := false }, evaluateStringPure w.custom src data)

/-- `EvaluateFile`; the path is used as given (relative to the working directory) -/
def evaluateFile (w : World) (path : Bytes) (data : List (Bytes × GoVal)) : World × EvalOut :=
  let w := { w with uses := false }
  match readFile w.fs path with
  | .ok src => (w, evaluateStringPure w.custom src data)
  | _ => (w, .fail (osFail 0 path))

/-- `Template.String` -/
def tplString (w : World) (t : Template) (name : Bytes) (data : List (Bytes × GoVal)) : EvalOut :=
  match envOrFail data with
  | .error f => .fail f
  | .ok env =>
    let p := templatePath w.cfg name
    match mapGet t name with
    | none => .fail (failOf "ErrTemplateNotFound" 0 [] p)
    | some pg => resToOut (evalProg evalFuel { pg.ctx with custom := w.custom } env pg.stmts []) p

structure RespOut where
  body : Bytes
  err : Option Fail          -- the returned error (`nil` = none)
  panic : Option String := none
  oof : Bool := false

/-- `errorPage`: the built-in page rendered for a failure.  `absOf` turns the model's relative
    path into the text Go prints (the harness supplies the working directory). -/
def errorPageData (w : World) (f : Fail) (cwd : Bytes) : List (Bytes × GoVal) :=
  let absPath := if f.path.isEmpty then [] else cleanPath (cwd ++ [47] ++ f.path)
  [(b "path", .str absPath), (b "line", .int f.line), (b "message", .str f.msg), (b "debugMode", .bool w.cfg.debug)]

def errorPage (w : World) (f : Fail) (cwd : Bytes) : World × EvalOut :=
  evaluateString w (Gen.defaultErrorPage) (errorPageData w f cwd)

/-- `Template.Response` -/
def tplResponse (w : World) (t : Template) (name : Bytes) (data : List (Bytes × GoVal)) (cwd : Bytes) :
    World × RespOut :=
  match tplString w t name data with
  | .ok out => (w, { body := out, err := none })
  | .panic why => (w, { body := [], err := none, panic := some why })
  | .oof => (w, { body := [], err := none, oof := true })
  | .fail f =>
    if !w.cfg.errPage.isEmpty && !w.cfg.debug then
      match tplString w t w.cfg.errPage [] with
      | .ok out => (w, { body := out, err := some f })
      | .fail f2 => (w, { body := [], err := some f2 })
      | .panic why => (w, { body := [], err := none, panic := some why })
      | .oof => (w, { body := [], err := none, oof := true })
    else
      match errorPage w f cwd with
      | (w', .ok out) => (w', { body := out, err := some f })
      | (w', .fail f2) => (w', { body := [], err := some f2 })
      | (w', .panic why) => (w', { body := [], err := none, panic := some why })
      | (w', .oof) => (w', { body := [], err := none, oof := true })

/-- `Register*Func`: `none` = registered, `some f` = the returned error -/
def registerFunc (w : World) (ty : VType) (name : Bytes) (fid : Nat) : World × Option Fail :=
  if (w.custom.find? fun p => p.1.1 == ty && p.1.2 == name).isSome then
    let plural := match ty with
      | .STRING => "strings" | .ARRAY => "arrays" | .INTEGER => "integers" | .FLOAT => "floats"
      | .BOOLEAN => "booleans" | _ => "?"
    (w, some (failOf "ErrFuncAlreadyDefined" 0 [name, b plural] []))
  else ({ w with custom := w.custom ++ [((ty, name), fid)] }, none)

end Tw
