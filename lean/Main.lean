/-
  Line-protocol driver of the model (compiled as `twdriver`, core Lean only).

  One request per line, tab separated:   <id> \t <kind> \t <field>…
  One answer per line:                   <id> \t <answer>

  kinds
    lex   <src-hex>
    eval  <src-hex> <data-term>
    hist  <cwd-hex> <fs-term> <op> <op> …      (a history of API operations on a fresh state)
    spec… (see TwSpec.Driver)
-/
import TwModel.Api
import TwSpec.Driver

open Tw

/-! ### terms -/

inductive Term where
  | atom (s : String)
  | list (xs : List Term)
  deriving Inhabited

partial def parseTerms (cs : List Char) (acc : List Term) : List Term × List Char :=
  match cs with
  | [] => (acc.reverse, [])
  | ' ' :: r => parseTerms r acc
  | ')' :: r => (acc.reverse, r)
  | '(' :: r =>
    let (inner, rest) := parseTerms r []
    parseTerms rest (.list inner :: acc)
  | _ =>
    let a := cs.takeWhile fun c => c != ' ' && c != '(' && c != ')'
    parseTerms (cs.drop a.length) (.atom (String.ofList a) :: acc)

def parseTerm (s : String) : Term :=
  match (parseTerms s.toList []).1 with
  | [t] => t
  | ts => .list ts

def hexOf (s : String) : Bytes := if s == "-" then [] else (ofHex s).getD []

partial def termToGo : Term → GoVal
  | .atom "N" => .nilIface
  | .atom "PN" => .ptr none
  | .list [.atom "B", .atom v] => .bool (v == "1")
  | .list (.atom "I" :: .atom v :: _) => .int (v.toInt?.getD 0)
  | .list (.atom "F" :: .atom v :: _) => .float (Float.ofBits (UInt64.ofNat ((ofHex v).getD [] |>.foldl (fun a c => a * 256 + c) 0)))
  | .list [.atom "S", .atom v] => .str (hexOf v)
  | .list [.atom "P", t] => .ptr (some (termToGo t))
  | .list (.atom "L" :: .atom "nilref" :: _) => .slice []
  | .list (.atom "L" :: .atom "typed" :: ts) => .slice (ts.map termToGo)
  | .list (.atom "L" :: ts) => .slice (ts.map termToGo)
  | .list (.atom "M" :: .atom "nilref" :: _) => .map []
  | .list (.atom "M" :: ts) => .map (pairs (dropFlags ts))
  | .list (.atom "T" :: ts) => .struct (fields ts)
  | .list [.atom "O", .atom k] => .other k
  | .list [.atom "NT", .atom "0"] => .struct [(b "A", true, .int 1), (b "B", true, .str (b "x"))]
  | .list [.atom "NT", .atom "1"] => .struct [(b "B", true, .str (b "y")), (b "C", true, .bool true), (b "A", true, .int 2)]
  | .list [.atom "NT", .atom "2"] =>
    .struct [(b "Name", true, .str (b "n")), (b "inner", false, .int 5), (b "Tags", true, .slice [.str (b "t")])]
  | .list [.atom "NT", .atom "4"] =>
    .ptr (some (.struct [(b "Head", true, .int 3), (b "Active", true, .ptr (some (.int 3))), (b "Name", true, .str (b "n")),
      (b "Next", true, .ptr (some (.struct [(b "Head", true, .int 4), (b "Active", true, .ptr (some (.int 3))),
        (b "Name", true, .str (b "m")), (b "Next", true, .ptr none)])))]))
  | .list [.atom "NT", .atom "5"] =>
    -- a map whose entries point into one another: a pointer to a struct, pointers to its first field, the struct again
    .map [(b "again", .ptr (some (.struct [(b "Name", true, .str (b "Ann")), (b "Age", true, .int 3)]))),
      (b "name", .ptr (some (.str (b "Ann")))),
      (b "profile", .ptr (some (.struct [(b "Name", true, .str (b "Ann")), (b "Age", true, .int 3)]))),
      (b "zname", .ptr (some (.str (b "Ann"))))]
  | .list [.atom "NT", .atom "6"] =>
    -- the same the other way round, and a pointer to the first element of an array next to the array's pointer
    .map [(b "a_profile", .ptr (some (.struct [(b "Name", true, .str (b "Bo")), (b "Age", true, .int 4)]))),
      (b "b_name", .ptr (some (.str (b "Bo")))),
      (b "c_first", .ptr (some (.int 7))),
      (b "d_all", .ptr (some (.slice [.int 7, .int 8])))]
  | .list [.atom "NT", .atom "7"] =>
    .struct [(b "EmbBase", true, .struct [(b "ID", true, .int 1), (b "Tag", true, .str (b "t"))]), (b "Name", true, .str (b "n"))]
  | .list [.atom "NT", .atom "8"] =>
    .struct [(b "embInner", false, .struct [(b "Secret", true, .str (b "s")), (b "Pub", true, .int 2)]), (b "Name", true, .str (b "w"))]
  | .list [.atom "NT", .atom "9"] =>
    .struct [(b "embInner", false, .ptr none), (b "EmbBase", true, .ptr none), (b "Name", true, .str (b "w2"))]
  | .list [.atom "NT", .atom "10"] =>
    .ptr (some (.struct [(b "embInner", false, .ptr (some (.struct [(b "Secret", true, .str (b "s")), (b "Pub", true, .int 3)]))),
      (b "EmbBase", true, .ptr (some (.struct [(b "ID", true, .int 4), (b "Tag", true, .str (b "u"))]))), (b "Name", true, .str (b "w3"))]))
  -- types with String / Error / Marshal* methods: converted by their kind
  | .list [.atom "NT", .atom "11"] => .struct [(b "Amount", true, .int 12), (b "Cur", true, .str (b "EUR"))]
  | .list [.atom "NT", .atom "12"] => .struct [(b "Code", true, .int 7), (b "Msg", true, .str (b "boom"))]
  | .list [.atom "NT", .atom "13"] => .ptr (some (.struct [(b "Title", true, .str (b "T")), (b "N", true, .int 2)]))
  | .list [.atom "NT", .atom "14"] => .str (b "en")
  | .list [.atom "NT", .atom "15"] => .int 3
  | .list [.atom "NT", .atom "16"] => .int 1500000000
  | .list [.atom "NT", .atom "17"] =>
    .struct [(b "Tags", true, .slice []), (b "Items", true, .slice []), (b "Attrs", true, .map []), (b "Any", true, .map []), (b "Ptr", true, .ptr none)]
  | .list [.atom "NT", .atom "18"] => .float 2.5
  | .list [.atom "NT", .atom "19"] => .bool true
  | .list [.atom "NT", .atom "20"] =>
    .map [(b "byName", .map [(b "x", .struct [(b "Amount", true, .int 3), (b "Cur", true, .str (b "c"))])]),
      (b "errs", .slice [.struct [(b "Code", true, .int 1), (b "Msg", true, .str (b "e1"))]]),
      (b "langs", .slice [.str (b "de"), .str (b "fr")]),
      (b "levels", .slice [.int 1, .int 2]),
      (b "prices", .slice [.struct [(b "Amount", true, .int 1), (b "Cur", true, .str (b "a"))], .struct [(b "Amount", true, .int 2), (b "Cur", true, .str (b "b"))]]),
      (b "strs", .slice [.struct [(b "Amount", true, .int 4), (b "Cur", true, .str (b "d"))], .str (b "it")])]
  | .list [.atom "NT", .atom "21"] =>
    .map [(b "d", .ptr none), (b "e", .ptr none), (b "ok", .int 1), (b "p", .ptr none), (b "t", .ptr none), (b "u", .ptr none)]
  | .list [.atom "NT", .atom "22"] =>
    .struct [(b "Deleted", true, .ptr none), (b "Site", true, .ptr none), (b "Doc", true, .ptr none),
      (b "Price", true, .ptr (some (.struct [(b "Amount", true, .int 5), (b "Cur", true, .str (b "USD"))]))), (b "Err", true, .ptr none),
      (b "Name", true, .str (b "n"))]
  | .list [.atom "NT", .atom "23"] => .slice [.ptr none, .ptr none, .ptr none, .ptr none, .int 7]
  | .list [.atom "NT", .atom _] => .struct []
  | _ => .other "?"
where
  /-- how the harness realises the map (element type, key type): the same abstract value -/
  dropFlags : List Term → List Term
    | .atom "typed" :: r => dropFlags r
    | .atom "nkey" :: r => dropFlags r
    | .atom "akey" :: r => dropFlags r
    | ts => ts
  pairs : List Term → List (Bytes × GoVal)
    | .atom k :: v :: r => (hexOf k, termToGo v) :: pairs r
    | _ => []
  fields : List Term → List (Bytes × Bool × GoVal)
    | .atom k :: .atom e :: v :: r => (hexOf k, e == "1", termToGo v) :: fields r
    | _ => []

def dataOf (t : Term) : List (Bytes × GoVal) :=
  match termToGo t with
  | .map kvs => kvs
  | _ => []

/-! ### answers -/

def hd (bs : Bytes) : String := if bs.isEmpty then "-" else toHex bs

def showFail (f : Fail) : String :=
  if f.unsupported then "UNSUPPORTED " ++ hd f.msg
  else if f.osErr then s!"OSERR {f.line} {hd f.path}"
  else s!"ERR {f.line} {hd f.path} {hd f.msg}"

def showEval : EvalOut → String
  | .ok out => "OK " ++ toHex out
  | .fail f => showFail f
  | .panic w => "PANIC " ++ w
  | .oof => "OOF"

def ttName (t : TT) : String := t.name

def showTok (t : Token) : String :=
  s!"{ttName t.ty}:{toHex t.lit}:{t.pos.startLine}:{t.pos.startCol}:{t.pos.endLine}:{t.pos.endCol}"

def showCover (cv : List (List Nat)) : String :=
  String.intercalate "." (cv.map fun ks => if ks.isEmpty then "-" else String.intercalate "+" (ks.map toString))

def doLex (src : Bytes) : String :=
  match tokenize src with
  | none => "OOF"
  | some r =>
    (if r.panicked then "PANIC " else "TOKS ") ++ String.intercalate "," (r.toks.map showTok) ++
      (if r.insideCode then " inside=1" else " inside=0") ++ " cover=" ++ showCover (coverTable src r.toks)

/-! ### histories -/

def fsOf (t : Term) : Fs :=
  match t with
  | .list ts => go ts
  | _ => []
where
  go : List Term → Fs
    | .list [.atom p, .atom "f", .atom c] :: r => (cleanPath (hexOf p), Entry.file (hexOf c)) :: go r
    | .list [.atom p, .atom "d"] :: r => (cleanPath (hexOf p), Entry.dir) :: go r
    | .list [.atom p, .atom "x"] :: r => (cleanPath (hexOf p), Entry.badlink) :: go r
    -- a symbolic link to a regular file: reads like the file (the harness writes the link, the content is the target's)
    | .list [.atom p, .atom "l", .atom _, .atom c] :: r => (cleanPath (hexOf p), Entry.file (hexOf c)) :: go r
    | _ => []

def vtypeOf : String → VType
  | "str" => .STRING | "arr" => .ARRAY | "int" => .INTEGER | "float" => .FLOAT | "bool" => .BOOLEAN
  | _ => .NIL

structure HState where
  w : World
  tpl : Option Template := none

def showResp (r : RespOut) : String :=
  match r.panic with
  | some why => "PANIC " ++ why
  | none =>
    if r.oof then "OOF"
    else "RESP " ++ toHex r.body ++ " " ++ (match r.err with | none => "nil" | some f => showFail f)

/-- one operation of a history -/
def doOp (cwd : Bytes) (h : HState) (op : Term) : HState × String :=
  match op with
  | .list [.atom "NEW", .atom nilOpt, .atom d, .atom e, .atom ep, .atom dbg] =>
    let o : Option Opt := if nilOpt == "1" then none
      else some { dir := hexOf d, ext := hexOf e, errPage := hexOf ep, debug := dbg == "1" }
    match newTemplate h.w o with
    | (w, .ok t) =>
      ({ w, tpl := some t }, "NEWOK " ++ String.intercalate "," ((sortByKey t).map fun p => hd p.1))
    | (w, .error f) => ({ w, tpl := none }, "NEWERR " ++ showFail f)
  | .list [.atom "RESET"] => ({ w := { fs := h.w.fs }, tpl := none }, "RESETOK")
  | .list [.atom "WRITE", .atom p, .atom c] =>
    -- a file is written (its directories exist already or are added)
    let path := cleanPath (hexOf p)
    let dirs := (List.range (splitPath path).length).filterMap fun i =>
      if i == 0 then none else some (joinBytes [47] ((splitPath path).take i))
    let fs1 := dirs.foldl (fun (m : Fs) d => if (mapGet m d).isSome then m else m ++ [(d, Entry.dir)]) h.w.fs
    ({ h with w := { h.w with fs := mapSet fs1 path (Entry.file (hexOf c)) } }, "WRITEOK")
  | .list [.atom "RM", .atom p] =>
    ({ h with w := { h.w with fs := h.w.fs.filter fun e => e.1 != cleanPath (hexOf p) } }, "RMOK")
  | .list [.atom "REG", .atom ty, .atom n, .atom fid] =>
    match registerFunc h.w (vtypeOf ty) (hexOf n) (fid.toNat?.getD 0) with
    | (w, none) => ({ h with w }, "REGOK")
    | (w, some f) => ({ h with w }, "REGERR " ++ showFail f)
  | .list [.atom "STR", .atom n, d] =>
    match h.tpl with
    | none => (h, "NOTPL")
    | some t => (h, showEval (tplString h.w t (hexOf n) (dataOf d)))
  | .list [.atom "RESP", .atom n, d] =>
    match h.tpl with
    | none => (h, "NOTPL")
    | some t =>
      let (w, r) := tplResponse h.w t (hexOf n) (dataOf d) cwd
      ({ h with w }, showResp r)
  | .list [.atom "EVS", .atom s, d] =>
    let (w, r) := evaluateString h.w (hexOf s) (dataOf d)
    ({ h with w }, showEval r)
  | .list [.atom "EVF", .atom p, d] =>
    let (w, r) := evaluateFile h.w (hexOf p) (dataOf d)
    ({ h with w }, showEval r)
  | .list [.atom "EVFR", .atom p, d] =>
    -- a path relative to the working directory, which is the root of the model's file system
    let (w, r) := evaluateFile h.w (hexOf p) (dataOf d)
    ({ h with w }, showEval r)
  | _ => (h, "BADOP")

def doHist (cwd : Bytes) (fs : Fs) (ops : List Term) : String :=
  let (_, outs) := ops.foldl (fun (acc : HState × List String) op =>
    let (h, o) := doOp cwd acc.1 op
    (h, acc.2 ++ [o])) ({ w := { fs := fs } }, [])
  String.intercalate " | " outs

def handle (line : String) : String :=
  let fields := line.splitOn "\t"
  match fields with
  | id :: "lex" :: src :: _ => id ++ "\t" ++ doLex (hexOf src)
  | id :: "eval" :: src :: data :: _ =>
    id ++ "\t" ++ showEval (evaluateStringPure [] (hexOf src) (dataOf (parseTerm data)))
  | id :: "hist" :: cwd :: fs :: ops =>
    id ++ "\t" ++ doHist (hexOf cwd) (fsOf (parseTerm fs)) (ops.map parseTerm)
  | id :: "spec" :: "expr" :: tree :: data :: _ =>
    let env := match envFromMap (dataOf (parseTerm data)) with
      | .ok e => some e
      | .error _ => none
    id ++ "\t" ++ TwSpec.specExpr tree env
  | id :: _ => id ++ "\tBADREQ"
  | [] => "BADREQ"

partial def loop (hin : IO.FS.Stream) (hout : IO.FS.Stream) : IO Unit := do
  let line ← hin.getLine
  if line.isEmpty then return ()
  let l := String.ofList ((line.toList.reverse.dropWhile fun c => c == '\n' || c == '\r').reverse)
  hout.putStrLn (handle l)
  hout.flush
  loop hin hout

def main : IO Unit := do
  loop (← IO.getStdin) (← IO.getStdout)
