#!/usr/bin/env python3
"""Regenerates /verif/MANIFEST.json from the table below (kept next to DESIGN.md section 6)."""
import json, subprocess

CLAIMED = {
 # id: (technique, text, note)
}
NOT_YET = {}

def load():
    import importlib.util, os
    spec = importlib.util.spec_from_file_location("claims", "/verif/tools/claims.py")
    m = importlib.util.module_from_spec(spec); spec.loader.exec_module(m)
    return m.CLAIMED, m.NOT_APPLICABLE

def main():
    claimed, na = load()
    commits = subprocess.run(["git", "-C", "/repo", "log", "--format=%H %s"], capture_output=True, text=True).stdout.splitlines()
    hooks = [c.split()[0] for c in commits if c.split(" ", 1)[1].startswith("hook:")]
    checks = []
    for pid in sorted(claimed):
        tech, text, note = claimed[pid]
        checks.append({
            "property_id": pid,
            "quick_cmd": f"/verif/bin/check {pid} quick",
            "thorough_cmd": f"/verif/bin/check {pid} thorough",
            "evidence_file": f"/verif/evidence/{pid}.json",
            "replay_cmd_template": f"/verif/bin/check {pid} quick --replay {{path}}",
            "engine": "lean4-model+go-correspondence",
            "level_claimed": {"category": "proof", "text": text, "design_ref": f"DESIGN.md section 6, {pid}"},
            "level_note": note,
            "technique": tech,
        })
    man = {
        "version": 1,
        "setup_cmd": "/verif/bin/setup",
        "hooks": {
            "guard": "verif",
            "enable": "go build -tags verif (file /repo/verif_hooks.go: VerifReset, VerifTemplateNames)",
            "baseline_off_cmd": "cd /repo && go test -json -vet=off -count=1 -timeout 25m ./...",
            "source_commits": hooks,
            "add_only": True,
        },
        "engines": [{
            "name": "lean4-model+go-correspondence",
            "path": "/verif/lean (TwModel, TwSpec, TwProofs, Main.lean), /verif/go (cmd/extract, cmd/harness), /verif/bin/check",
            "serves_properties": sorted(claimed),
            "kind_free_text": "machine-checked proof in Lean 4 about a hand-written executable model; the model is tied to /repo on every run by facts regenerated from the Go sources (go/parser + go/types) whose obligations are re-proved, and by a differential correspondence check between the compiled model and the real code",
        }],
        "checks": checks,
        "notes": "see DESIGN.md; known_findings.json lists fixed defects (their inputs are part of every run)",
        "not_applicable": [{"property_id": k, "reason": v} for k, v in sorted(na.items())],
    }
    json.dump(man, open("/verif/MANIFEST.json", "w"), indent=1)
    print("claimed", len(checks), "not applicable", len(na))

main()
