# What MANIFEST.json claims. Edited by hand; tools/mkmanifest.py turns it into MANIFEST.json.
BASE_NOTE = ("Trusted: Lean 4.33 kernel (axioms propext, Classical.choice, Quot.sound only; audited on every run), the theorem "
             "statements and TwSpec definitions, the fact extractor (go/parser + go/types), the correspondence harness "
             "(differential, it samples), and the hand-written model TwModel as a description of the Go code and of the Go "
             "standard library functions it paraphrases (strconv, html, strings, unicode tables, reflect, filepath, os). "
             "A theorem is about the model; its tie to /repo is re-checked on every run (regenerated Facts.lean obligations + "
             "model/implementation comparison on every generated case).")

T = "Lean 4 theorems about an executable model of textwire + facts regenerated from the Go sources + model/implementation correspondence; "

CLAIMED = {
 "C01": (T + "spec evaluator on expression trees as oracle",
  "The model's Pratt parser and evaluator are related to a token-free denotational semantics (TwSpec.ExprSem); the precedence table, "
  "the parser registrations and the binding power at every parseExpression call site are regenerated from parser.go and re-checked; "
  "every pair and sampled triples of binary operators, unary/postfix/ternary/member combinations and random typed/untyped trees are "
  "rendered in three layouts x three parenthesisation styles by the real code, by the model and by the specification.", BASE_NOTE),
 "C02": (T + "reference interpreter of the statement as oracle",
  "Theorems about evalIfStmt's model (first truthy branch, later branches unused, truthiness table) and correspondence over all "
  "branch shapes up to three @elseif x all vectors {falsy, truthy, failing} x every condition value kind, nested and inside loops.", BASE_NOTE),
 "C03": (T + "reference interpreter of the statement as oracle",
  "Loop semantics of the model (iteration order, loop metadata, break/continue through nested @if, @else iff empty / false at entry) "
  "with correspondence over array lengths 0..6, a control directive at every body position bare and under 1-2 @if, nested loops, "
  "for-loops with bounds -3..3 in both directions and three step forms.", BASE_NOTE),
 "C04": (T + "reference interpreter of the statement as oracle",
  "Scope-stack theorems for the model's environment (set/get frame lemmas, type stability, reserved name) and correspondence over "
  "assign/read sequences at every nesting position, all type pairs for re-assignment and pre-bound data names.", BASE_NOTE),
 "C05": (T + "the statement (identity / escape removal / silent comments) as oracle",
  "Theorems about the byte-level lexer model for text outside Textwire syntax; directive and keyword tables regenerated; exhaustive "
  "strings over the adversarial alphabet to a length bound and random longer ones, alone and spliced around blocks and directives.", BASE_NOTE),
 "C06": (T + "substitution of inserts into reserves as oracle",
  "The model's loader attaches inserts to the layout's reserves and the evaluator renders them in the environment current at the "
  "reserve; correspondence over generated layouts (reserves at top level, in @if, in @each, in both) x pages inserting subsets in "
  "block or expression form x data x directory/extension settings, plus the four error situations.", BASE_NOTE),
 "C07": (T + "per-use instantiation as oracle",
  "The model binds one freshly parsed component program to every use; correspondence over pages with 1..4 uses of three component "
  "files with named/default slots, inside loops, conditionals and insert blocks, and the load-time error cases.", BASE_NOTE),
 "C08": (T + "watchdog (deadline, crash, panic) + 'program xor error with a line' as oracle",
  "Lexer termination is a theorem about the model (fuel bound adequate, every step consumes input); the parser model mirrors the "
  "continue-after-error control flow with fuel. Exhaustive lexeme sequences, every prefix / deletion / duplication / swap of "
  "generated valid templates, illegal characters and byte soups run on the real code under a deadline.", BASE_NOTE),
 "C09": (T + "no panic / error carries a line as oracle",
  "Every unchecked Go operation is an explicit panic outcome in the model (and listed by the extractor as a fact); correspondence over "
  "every built-in x receiver x argument tuple with boundary counts, untyped programs, the named faults, and data with nil pointers "
  "and unsupported values.", BASE_NOTE),
 "C10": (T + "the four clauses of the statement as oracle",
  "Theorems about html escaping + quote restoration in the model (no raw angle bracket, ampersand always an entity, unescape is the "
  "inverse); exhaustive literal contents over the entity-rich alphabet in six usage contexts with and without raw().", BASE_NOTE),
 "C11": (T + "independent Go reference implementations of the contracts as oracle",
  "Contract theorems for the model's built-ins; correspondence over the full built-in x receiver x argument cross product; "
  "rune-level contracts, slice clamping over all (len,start,end), purity sequences and UTF-8 validity checked directly.", BASE_NOTE),
 "C12": (T + "lookup in the described Go value as oracle",
  "The conversion of Go data is a total function in the model (nil pointers, unsupported kinds at any depth); values are generated "
  "by type-directed recursion and realised with reflect (struct types built at run time, all integer widths), access paths via dot "
  "and index syntax; the caller's data is compared before and after every render.", BASE_NOTE),
 "C13": (T + "line and path known by construction as oracle",
  "Token end lines follow from the lexer position invariant; faults of every listed kind are injected after every kind of multi-line "
  "token, in strings and in template trees (page, layout, component), and the reported line and path are compared.", BASE_NOTE),
 "C14": (T + "N repetitions in one process and in several processes as oracle",
  "In the model every iteration over a Go map is in sorted key order (the extractor lists every range over a map in the sources); "
  "object printing, dumps, several simultaneous faulty inserts / slots / files / arguments / data values are repeated 20-200 times "
  "in several worker processes and compared with each other and with the model.", BASE_NOTE),
 "C15": (T + "race detector + comparison with the sequential baseline as oracle",
  "The rendering paths write no shared state except one atomic flag (regenerated fact F9: writes to package-level variables reachable "
  "from the entry points); workloads of 2-16 goroutines x mixed successful and failing renders run in a -race build with GOMAXPROCS "
  "1/2/16; any race report or any result different from the same call run alone is a violation. Partial: the Go scheduler and memory "
  "model are not modelled; the theorem is about the read/write abstraction.", BASE_NOTE),
 "C16": (T + "same operation first vs. after a history vs. after reset as oracle",
  "The model's render operations return the state unchanged except the mode flag, which no render reads; all histories of length <= 1 "
  "(thorough: 2) over 25 operations x 4 configurations and random longer ones.", BASE_NOTE),
 "C17": (T + "the clauses of the statement on body and returned error as oracle",
  "Response in the model writes either the page or one error page computed from configuration and error only; the regenerated built-in "
  "error page is part of the model; the full matrix debug x custom page {none, valid, missing, failing} x {success, late failure, "
  "early failure, nested path, missing} with configuration flips and string evaluations in between.", BASE_NOTE),
 "C18": (T + "expected name set / fault identification as oracle; fault enumeration over a valid tree",
  "Name registration in the model is path arithmetic over an abstract file system (clean, trim prefix/suffix); real directory trees are "
  "written for every case; directory spellings, extensions occurring inside names, every file of a valid tree truncated at prefixes, "
  "replaced by garbage, a dangling symlink, a directory, or deleted.", BASE_NOTE),
 "C19": (T + "the statement (tiling, own text, cursor uniqueness, EOF position) as oracle",
  "Position bookkeeping of the lexer model is proved equal to the position function of the statement; every token of every generated "
  "input is compared between model and code and checked against the statement.", BASE_NOTE),
 "C20": (T + "abstract first-writer-wins registry as oracle",
  "Registration in the model is an append-if-absent list per type (first writer wins by construction + theorem); conversion "
  "round-trip Val -> native -> Val is the identity; exhaustive short registration histories and random ones with calls on literals and "
  "variables before and after loading.", BASE_NOTE),
}

NOT_APPLICABLE = {}
