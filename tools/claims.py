# What MANIFEST.json claims. Edited by hand; tools/mkmanifest.py turns it into MANIFEST.json.
BASE_NOTE = ("Trusted: Lean 4.33 kernel (axioms propext, Classical.choice, Quot.sound only; audited on every run), the theorem "
             "statements and TwSpec definitions, the fact extractor (go/parser + go/types), the correspondence harness "
             "(differential, it samples), and the hand-written model TwModel as a description of the Go code and of the Go "
             "standard library functions it paraphrases (strconv, html, strings, unicode tables, reflect, filepath, os). "
             "A theorem is about the model; its tie to /repo is re-checked on every run (regenerated Facts.lean obligations + "
             "model/implementation comparison on every generated case).")

T = "Lean 4 theorems about an executable model of textwire + facts regenerated from the Go sources + model/implementation correspondence; "

CLAIMED = {
 "C01": (T + 'spec evaluator on expression trees as oracle',
  "Theorems parse_of_print_full (parse of print = id for the WHOLE expression language of the model: literals, identifiers, prefix - and !, every binary "
  "operator, the ternary, postfix ++/--, l[i], l.name, l.name(args), array and object literals, parentheses minimal or redundant; the printer decides "
  "parentheses from the precedence table alone - left-spine level and the level of the loop still open at the right end - and the model's "
  "parseExpression(LOWEST) returns exactly the printed tree from every parser state, stops on the last token and records no error; so operators group "
  "by the order ternary < equality < comparison < additive < multiplicative < member access < prefix < index < postfix, equal levels to the left, the "
  "ternary's else part to the right), redundant_parentheses_do_not_matter_full, printing_is_injective_full, parsed_tokens_evaluate_to_the_denotation_full "
  "(parser and evaluator composed = the denotation of the printed tree, with printed_trees_are_wellformed discharging Expr.wf), the same four for the first fragment, "
  "eval_is_denotation (induction over fuel and the expression): wherever the model's token-based evaluator returns a value it is the value of the token-free denotational semantics TwSpec.seval (wrapping Int64, IEEE doubles, byte strings, same-typed operands), and wherever it returns an error there is none; corollaries for wrap-around, division/modulo by zero, mixed types, unknown identifiers, out-of-range literals. Parser: one-step theorems about the model's Pratt loop (right operand parsed at the operator's own level, loop stops at a lower or equal level, ternary then/else levels, assignment value at LOWEST, parentheses make no node); the precedence table, the parser registrations and the binding power at every parseExpression call site are regenerated from parser.go and re-checked (F3-F5). Partial: the text-to-token half of 'whitespace and newlines never matter' is the token abstraction itself and is tied by correspondence (three layouts x three parenthesisation styles of every pair and sampled triples of operators, unary/postfix/ternary/member combinations and random trees on the real code, the model and the specification); object literals in the round trip are written key: value (the {a} shorthand and trailing commas are covered by correspondence only).", BASE_NOTE),
 "C02": (T + 'reference interpreter of the statement as oracle',
  "Theorems if_true / if_false / elseifs_first_truthy / elseifs_none_truthy (the construct's value is the body of the first truthy branch; later conditions do not occur in it, so they are never evaluated), falsy_iff (the truthiness table), ternary / @breakIf / @continueIf use the same function, text before and after is concatenated unchanged; correspondence over all branch shapes up to three @elseif x all vectors {falsy, truthy, failing} x every condition value kind, nested and inside loops.", BASE_NOTE),
 "C03": (T + 'reference interpreter of the statement as oracle',
  'Fuel-free big-step relations EachPasses / ForPasses (the sequence of passes, element k bound and loop = metadata of position k of n, ending at the first pass that breaks) and theorems each_renders_passes / for_renders_passes (the evaluator emits exactly the text of the passes and hands back the environment it was given), loop_metadata, each_empty_else / for_else, block_stops_at_control, if_passes_flags_on, continue_skips_rest_of_pass_only, each_non_array; correspondence over array lengths 0..6, a control directive at every body position bare and under 1-2 @if, nested loops, for-loops with bounds -3..3 in both directions and three step forms.', BASE_NOTE),
 "C04": (T + 'reference interpreter of the statement as oracle',
  'Theorems loop_is_reserved (+ as data, + in an assignment), type_change_is_refused (looked up through all visible scopes), set_writes_innermost / get_after_set / get_other_after_set, nested_block_sees_outer, nested_assignment_is_local and scoped_constructs_restore_env (@if, @for, @each, @component hand back exactly the environment they were given, for every body and fuel); correspondence over assign/read sequences at every nesting position, all type pairs for re-assignment and pre-bound data names.', BASE_NOTE),
 "C05": (T + "the statement (identity / escape removal / silent comments) as oracle",
  "Theorems about the byte-level lexer model for text outside Textwire syntax; directive and keyword tables regenerated; exhaustive "
  "strings over the adversarial alphabet to a length bound and random longer ones, alone and spliced around blocks and directives.", BASE_NOTE),
 "C06": (T + 'substitution of inserts into reserves as oracle',
  "Theorems use_renders_layout / page_renders_layout (rendering the page is rendering the layout's statements), reserve_renders_block / _value / _without_insert_renders_nothing, bound_insert (the insert bound to a reserve node is the page's insert of that name), loaded_page_shape (what the loader registers: only @use, the layout, the bound inserts, the component programs), the four error situations and '~' = 'layouts/'; correspondence over generated layouts x pages inserting subsets in block or expression form x data x directory/extension settings.", BASE_NOTE),
 "C07": (T + 'per-use instantiation as oracle',
  "Theorems component_renders_its_program (arguments evaluated at the place of use, bound in a new innermost scope, caller's environment handed back), surrounding_variables_visible, filled_slot_renders_body / empty_slot_renders_nothing / fillSlot_fills_first, applyComponents_is_per_use (the program attached to each use is a function of that use alone, under the use's own number), the load-time errors and '~' = 'components/'; correspondence over pages with 1..4 uses of three component files with named/default slots, inside loops, conditionals and insert blocks.", BASE_NOTE),
 "C08": (T + "watchdog (deadline, crash, panic) + 'program xor error with a line' as oracle",
  "Theorems lexer_terminates / tokenize_total (the fuel |input|+2 is never exhausted: every step but the last consumes a byte), token_list_ends_with_eof, errorLine_pos; the lexer never panics (LexNoPanic.tokenize_no_panic) and a parse that reports no error has no nil node (ParseBadFree.parseSource_whole). Partial: that the parser model's fuel 4|tokens|+16 is never exhausted is not proved (an OOF answer of the model is reported as a correspondence break); exhaustive lexeme sequences, every prefix / deletion / duplication / swap of generated valid templates, illegal characters and byte soups run on the real code under a deadline.", BASE_NOTE),
 "C09": (T + 'no panic / error carries a line as oracle',
  'Every unchecked Go operation is an explicit panic outcome of the model and a nil node is the constructor `bad`. Theorems: evaluateString_no_panic, evaluateFile_no_panic, templateString_no_panic, templateResponse_no_panic (for every source text, file tree, configuration, data map and registered function, at every fuel), via lexer_no_panic, parse_whole (a parse without errors has no nil node anywhere: statements, inserts, slot bodies), the loader keeps pages whole, eval_no_panic (induction over fuel through the open-recursion evaluator); named faults mod_zero_is_error, dot_on_non_object, empty_property_name, each_non_array, for_absent_clauses, nil_pointer_is_nil, unsupported_is_error. Correspondence over every built-in x receiver x argument tuple with boundary counts, untyped programs, the named faults, and data with nil pointers and unsupported values.', BASE_NOTE),
 "C10": (T + "the four clauses of the statement as oracle",
  "Theorems about html escaping + quote restoration in the model (no raw angle bracket, ampersand always an entity, unescape is the "
  "inverse); exhaustive literal contents over the entity-rich alphabet in six usage contexts with and without raw().", BASE_NOTE),
 "C11": (T + 'independent Go reference implementations of the contracts as oracle',
  'UTF-8 theorems: decodeRune_encodeRune (decoding inverts encoding up to U+FFFD), validUtf8_encodeRunes (string(runes) is always valid), validUtf8_append, validUtf8_drop_first, hence upper/lower/reverse/at/first/last/truncate/capitalize/repeat return valid UTF-8; slice_bounds / slice_exact / slice_is_sublist, reverse_perm, append_extends / prepend_extends, then_selects, binary_is_zero_or_one. Purity is structural in the model (built-ins are functions of receiver and arguments). Correspondence over the full built-in x receiver x argument cross product; rune-level contracts, slice clamping over all (len,start,end), purity sequences and UTF-8 validity checked directly on the real code. Partial: trim*/split validity and `contains` as structural equality are tied by correspondence only; shuffle / rand are compared as multisets.', BASE_NOTE),
 "C12": (T + "lookup in the described Go value as oracle",
  "The conversion of Go data is a total function in the model (nil pointers, unsupported kinds at any depth); values are generated "
  "by type-directed recursion and realised with reflect (struct types built at run time, all integer widths), access paths via dot "
  "and index syntax; the caller's data is compared before and after every render.", BASE_NOTE),
 "C13": (T + "line and path known by construction as oracle",
  "Token end lines follow from the lexer position invariant; faults of every listed kind are injected after every kind of multi-line "
  "token, in strings and in template trees (page, layout, component), and the reported line and path are compared.", BASE_NOTE),
 "C14": (T + "N repetitions in one process and in several processes as oracle",
  "In the model every iteration over a Go map is in sorted key order (the extractor lists every range over a map in the sources); "
  "object printing, dumps, several simultaneous faulty inserts / slots / files / arguments / data values are repeated 20-200 times "
  "in several worker processes and compared with each other and with the model.", BASE_NOTE),
 "C15": (T + 'race detector + comparison with the sequential baseline as oracle',
  'Theorems reachable_frame / calls_stay_reachable / concurrent_result_is_sequential: in every state that any interleaving of the atomic flag stores of concurrent renders can produce, every call returns what it returns alone (incl. the error page); the facts it rests on are regenerated from the sources on every run (F9: the only package-level write on a render path is the atomic flag; every other write is in Configure / Register*). Workloads of 2-16 goroutines x mixed successful and failing renders run in a -race build with GOMAXPROCS 1/2/16; any race report or any result different from the same call run alone is a violation. Partial: the Go scheduler and memory model are not modelled; the theorem is about the read/write abstraction.', BASE_NOTE),
 "C16": (T + "same operation first vs. after a history vs. after reset as oracle",
  "The model's render operations return the state unchanged except the mode flag, which no render reads; all histories of length <= 1 "
  "(thorough: 2) over 25 operations x 4 configurations and random longer ones.", BASE_NOTE),
 "C17": (T + "the clauses of the statement on body and returned error as oracle",
  "Response in the model writes either the page or one error page computed from configuration and error only; the regenerated built-in "
  "error page is part of the model; the full matrix debug x custom page {none, valid, missing, failing} x {success, late failure, "
  "early failure, nested path, missing} with configuration flips and string evaluations in between.", BASE_NOTE),
 "C18": (T + 'expected name set / fault identification as oracle; fault enumeration over a valid tree',
  "Theorems registered_names (every registered name is nameFromPath of a file under the directory that ends in the extension and loads as a page), candidates_are_template_files, faulty_file_fails_loading (the first faulty file in name order makes NewTemplate return exactly that file's error), syntax_error_names_the_file, parse_never_lexer_panics, unknown_name_is_not_found, evaluateFile_is_evaluateString, directory_is_normalised; real directory trees are written for every case; directory spellings, extensions occurring inside names, every file of a valid tree truncated at prefixes, replaced by garbage, a dangling symlink, a directory, or deleted.", BASE_NOTE),
 "C19": (T + 'the statement (tiling, own text, cursor uniqueness, EOF position) as oracle',
  "Theorems readChar_position, token_span (every token kind), tokens_tile_source (source order, no overlap, exact start/end, EOF just past the last byte), posOf_strict_mono and contains_iff_covered (Position.Contains accepts the position of byte i iff the token covers byte i); every token of every generated input is compared between model and code, and the real Position.Contains is evaluated on every byte of every input and compared with the token that covers the byte. Partial: 'the bytes of a token are its literal' and 'gaps hold only whitespace or comments' are checked by the oracle on the real token list, not proved for the model.", BASE_NOTE),
 "C20": (T + "abstract first-writer-wins registry as oracle",
  "Registration in the model is an append-if-absent list per type (first writer wins by construction + theorem); conversion "
  "round-trip Val -> native -> Val is the identity; exhaustive short registration histories and random ones with calls on literals and "
  "variables before and after loading.", BASE_NOTE),
}

NOT_APPLICABLE = {}
