# What MANIFEST.json claims. Edited by hand; tools/mkmanifest.py turns it into MANIFEST.json.
BASE_NOTE = ("Trusted: Lean 4.33 kernel (axioms propext, Classical.choice, Quot.sound only; audited per run), the theorem "
             "statements, the fact extractor, the correspondence harness (differential, sampling), and the hand-written "
             "model as a description of the Go code and of the Go standard library it paraphrases.")

CLAIMED = {
 "C05": ("Lean 4 theorems about the lexer model (text layer) + regenerated directive tables + model/impl correspondence",
         "Theorems about the byte-level lexer model state how text outside Textwire syntax reaches the output; the model's "
         "tables (directives, keywords) are regenerated from the Go sources and re-checked, and the compiled model is compared "
         "with the real EvaluateString on exhaustive short strings over the adversarial alphabet plus random longer ones; the "
         "statement itself (identity on plain text, escape removal, silent comments) is the oracle on the implementation.",
         BASE_NOTE),
 "C08": ("Lean 4 termination / totality theorems for the lexer model + correspondence under a watchdog",
         "The lexer model is a structural recursion whose fuel bound is proved adequate; parser loops are modelled with fuel and "
         "every case also runs on the real code under a deadline (hang, crash and panic are violations as such); prefixes, "
         "deletions, duplications and swaps of generated valid templates and exhaustive lexeme sequences are explored.",
         BASE_NOTE),
 "C19": ("Lean 4 position-invariant theorems for the lexer model + correspondence + statement-level oracle on every cursor",
         "Token positions are produced by the same readChar state machine in model and code; theorems relate the model's "
         "line/column bookkeeping to the position function of the statement, the correspondence compares every token of every "
         "generated input, and the statement (tiling, own text, cursor uniqueness, EOF position) is checked directly on the "
         "implementation's tokens.",
         BASE_NOTE),
}

NOT_APPLICABLE = {}
for i in range(1, 21):
    pid = "C%02d" % i
    if pid not in CLAIMED:
        NOT_APPLICABLE[pid] = "check under construction in this session: model exists, generators / theorems for this property are not registered yet (not a limitation of the technique)"
