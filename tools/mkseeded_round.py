#!/usr/bin/env python3
"""mkseeded_round.py <mutdir> <round> <offset> <first-detect.out> <final-detect.out> <strengthened.json>
   files one round of seeded changes (two per property, written by fresh sub-agents under <mutdir>/Cxx/out)
   as /verif/seeded/Cxx-<offset+k>/ with patch.diff, demo_test.go, notes.md, meta.json"""
import json, os, re, shutil, subprocess, sys
mut, rnd, off, first, final, strengthened = sys.argv[1], int(sys.argv[2]), int(sys.argv[3]), sys.argv[4], sys.argv[5], sys.argv[6]
props = {json.loads(l)['id']: json.loads(l) for l in open('/verif/properties.jsonl')}
head = subprocess.check_output(['git', '-C', '/repo', 'rev-parse', '--short', 'HEAD'], text=True).strip()
def det(path):
    r = {}
    for l in open(path):
        f = l.split()
        if len(f) >= 3 and f[2].startswith('rc='):
            rc = int(f[2][3:])
            rep = next((x for x in f if x.endswith('.json') or 'replay=' in x), '')
            r[(f[0], int(f[1]))] = {'exit_code': rc, 'detected': rc == 1 and 'VIOLATION' in l,
                                    'concrete_failing_input_found': rc == 1 and 'VIOLATION' in l and 'no-failing-input-found' not in l,
                                    'replay': os.path.basename(rep.replace('replay=', ''))}
    return r
d1, d2 = det(first), det(final)
stren = json.load(open(strengthened))
for pid in sorted(props):
    for k in (1, 2):
        o = f'{mut}/{pid}/out'
        if not os.path.exists(f'{o}/patch{k}.diff'):
            continue
        sid = f'{pid}-{off + k}'
        dst = f'/verif/seeded/{sid}'
        os.makedirs(dst, exist_ok=True)
        shutil.copy(f'{o}/patch{k}.diff', f'{dst}/patch.diff')
        shutil.copy(f'{o}/demo{k}_test.go', f'{dst}/demo_test.go')
        shutil.copy(f'{o}/notes{k}.md', f'{dst}/notes.md')
        notes = open(f'{o}/notes{k}.md').read()
        title = notes.splitlines()[0].lstrip('# ').strip()
        b = {}
        for m in re.finditer(r'^- \*\*(.+?)\*\*:?\s*(.*?)(?=^- \*\*|\Z)', notes, re.S | re.M):
            b[m.group(1).strip().rstrip(':').lower()] = ' '.join(m.group(2).split())
        def pick(*keys):
            for kk in b:
                if any(kk.startswith(x) for x in keys):
                    return b[kk]
            return ''
        demo = open(f'{o}/demo{k}_test.go').read()
        tests = re.findall(r'^func (Test\w+)', demo, re.M)
        pkg = re.search(r'^package (\w+)', demo, re.M).group(1)
        files = re.findall(r'^diff --git a/(\S+)', open(f'{o}/patch{k}.diff').read(), re.M)
        race = bool(re.search(r'(?i)-race`?\*{0,2} (is |IS )?\*{0,2}(required|needed)|MUST be run with `go test -race|must be observed under `-race', notes)) and not re.search(r'(?i)\bno `?-race`?( flag)?( is)? (needed|required)|-race`?( flag)?( is)? not (needed|required|necessary)', notes)
        f1, f2 = d1.get((pid, k), {}), d2.get((pid, k), {})
        meta = {
            'id': sid, 'property': pid, 'property_title': props[pid]['title'], 'round': rnd, 'change': title, 'files_touched': files,
            'breaks': pick('why it breaks'), 'needs_to_manifest': pick('needed to manifest'), 'why_existing_tests_pass': pick('why the existing tests pass'),
            'demonstration': {'file': 'demo_test.go', 'package': pkg, 'copy_into': '.', 'tests': tests, 'race_flag_needed': race},
            'origin': 'written by a fresh sub-agent that was given only the text of the property and a scratch worktree of /repo under /tmp (nothing from /verif)',
            'confirmed': {'by': 'the builder, in a scratch worktree under /tmp (removed afterwards)', 'repo_head': head,
                          'what_was_run': ['git apply patch.diff', 'go build ./...', 'go test -vet=off -count=1 ./...  (the whole existing suite)',
                                           'the demonstration with the change applied (go test -race)', 'git apply -R patch.diff', 'the demonstration without the change'],
                          'applies': True, 'builds': True, 'existing_tests_pass': True, 'demo_fails_with_change': True, 'demo_passes_without_change': True},
            'detection': {'how': f'git -C /repo apply seeded/{sid}/patch.diff; bin/check {pid} quick; git -C /repo checkout -- .', 'check': pid, 'tier': 'quick',
                          'exit_code': f2.get('exit_code'), 'detected': f2.get('detected'), 'concrete_failing_input_found': f2.get('concrete_failing_input_found'),
                          'replay_of_that_run': f2.get('replay'),
                          'first_run': {'exit_code': f1.get('exit_code'), 'detected': f1.get('detected'), 'concrete_failing_input_found': f1.get('concrete_failing_input_found')}},
        }
        if f'{pid}:{k}' in stren:
            meta['detection']['strengthened_with'] = stren[f'{pid}:{k}']
        json.dump(meta, open(f'{dst}/meta.json', 'w'), indent=1, ensure_ascii=False)
        print(sid, title[:70], '| first:', f1.get('detected'), f1.get('concrete_failing_input_found'), '| final:', f2.get('detected'), f2.get('concrete_failing_input_found'))
